/-
C07 — a sky region's pixel image has the size and orientation the WCS dictates.

The ABSOLUTE statement a round trip cannot see.  The WCS is a parameter; the hypothesis is
that around the region's centre it is a **similarity of standard parity**:

  toPix (centre ⊕ (position angle θ, separation ρ)) = p₀ + (ρ / s) · rot(θ) n

with `s > 0` the pixel scale, `n` the unit vector of local north in the image, and position
angles (measured on the sky from north through east) increasing COUNTER-CLOCKWISE in the image
(east is a quarter turn counter-clockwise from north: "north up, east left").
`offsetBy c θ ρ` is astropy's `c.directional_offset_by(θ, ρ)` (a parameter).

Under that hypothesis
* `scaleAngle_of_similarity` : `pixel_scale_angle_at_skycoord` returns exactly `s` and `n`
  (generic, root-free) and `scaleAngle_of_similarity_real` (the literal sqrt / atan2 code over ℝ);
* `toPixel_axis` : centre = `toPix centre`, every length = angular length `/ s`, and the width
  axis points along `rot(α) e₀` where `e₀ = n` turned clockwise by a quarter turn — for circle,
  ellipse, rectangle and the three annuli;
* `*_semi_axis_on_boundary` : the sky points at separation `w/2` at position angles `α ∓ 90°`
  and `h/2` at position angles `α`, `α + 180°` land on the boundary of the pixel shape
  (`*_boundary_meaning`: C01's membership formulas at equality = the topological boundary);
* `*_image_iff` : more generally EVERY sky point `(θ, ρ)` is inside the pixel shape exactly when it is
  inside the sky shape (axes `w`, `h`, width axis at position angle `α - 90°`).

Reading of "the local direction of increasing longitude (i.e. 90 degrees clockwise from local
north)": `e₀` is 90° clockwise from north.  In a standard-parity image the direction of
*increasing* longitude is 90° COUNTER-clockwise from north, i.e. `-e₀`; the axis (a line through
the centre) through `e₀` and through `-e₀` is the same, all shapes concerned are symmetric under
the half turn, so the two readings describe the same pixel shape.  The theorems are stated with
the operational reading `e₀` and with sky position angles, which is unambiguous.
-/
import RegionsVerif.Impl.Wcs
import RegionsVerif.Impl.WcsReal
import RegionsVerif.Props.C01
import RegionsVerif.Props.C06
import Mathlib.Tactic.LinearCombination
import Mathlib.Tactic.FieldSimp
import Mathlib.Tactic.Ring
import Mathlib.Tactic.Linarith
import Mathlib.Tactic.Positivity
import Mathlib.Tactic.NormNum
import Mathlib.Algebra.Order.Field.Rat

set_option linter.unusedSectionVars false

namespace RegionsVerif.Props.C07
open RegionsVerif.Impl RegionsVerif.Props

section field
variable {Sky α : Type} [Field α] [LinearOrder α] [IsStrictOrderedRing α]

/-! ### the hypothesis -/

/-- `toPix` is, around `c`, the similarity with image point `p0`, scale `s` (arcsec / pixel) and
north vector `n`, standard parity. -/
structure Similarity (toPix : Sky → Pt α) (offsetBy : Sky → Dir α → α → Sky) (c : Sky) (p0 : Pt α)
    (s : α) (n : Dir α) : Prop where
  s_pos : 0 < s
  n_unit : n.IsUnit
  center : toPix c = p0
  offset : ∀ (θ : Dir α) (ρ : α),
    toPix (offsetBy c θ ρ) = ⟨p0.x + ρ / s * (n.add θ).c, p0.y + ρ / s * (n.add θ).s⟩

/-- `n` turned clockwise by a quarter turn: the direction `north_angle - 90°`. -/
def rot90cw (n : Dir α) : Dir α := ⟨n.s, -n.c⟩

theorem rot90cw_unit (n : Dir α) (hn : n.IsUnit) : (rot90cw n).IsUnit := by
  unfold Dir.IsUnit rot90cw at *
  simp only
  linear_combination hn

/-! ### the helper returns exactly `s` and `n` -/

/-- **`pixel_scale_angle_at_skycoord` on a similarity**: whatever satisfies the root-free
characterisation of the helper's formulas (offset point = `directional_offset_by(0, offset)`,
`scale = offset / hypot`, `(cos, sin)(angle) = (dx, dy) / hypot`) has `scale = s`, `north = n`. -/
theorem scaleAngle_of_similarity (toPix : Sky → Pt α) (offsetBy : Sky → Dir α → α → Sky) (c : Sky)
    (p0 : Pt α) (s : α) (n : Dir α) (sim : Similarity toPix offsetBy c p0 s n) (off : α) (hoff : 0 < off)
    (l : Local α)
    (hres : IsHelperResult off (helperDelta toPix (fun q => offsetBy q Dir.zero off) c) l) :
    l.scale = s ∧ l.north = n := by
  obtain ⟨h, hpos, hsq, hsc, hc, hs⟩ := hres
  have hs0 := sim.s_pos
  have hu := sim.n_unit
  unfold Dir.IsUnit at hu
  have hdx : (helperDelta toPix (fun q => offsetBy q Dir.zero off) c).dx = off / s * n.c := by
    simp only [helperDelta, sim.offset, sim.center, Dir.add, Dir.zero]
    ring
  have hdy : (helperDelta toPix (fun q => offsetBy q Dir.zero off) c).dy = off / s * n.s := by
    simp only [helperDelta, sim.offset, sim.center, Dir.add, Dir.zero]
    ring
  have hq : 0 < off / s := div_pos hoff hs0
  have hh : h = off / s := by
    have e : h ^ 2 = (off / s) ^ 2 := by
      rw [hsq, HelperDelta.hypot2, hdx, hdy]
      linear_combination ((off / s) ^ 2) * hu
    exact (sq_eq_sq₀ hpos.le hq.le).mp e
  have hne : off / s ≠ 0 := ne_of_gt hq
  refine ⟨?_, ?_⟩
  · rw [hsc, hh]; field_simp
  · cases l with
    | mk sc nn nd =>
      cases nn with
      | mk nc ns =>
        simp only at hc hs
        cases n with
        | mk c' s' =>
          simp only [Dir.mk.injEq] at *
          constructor
          · rw [hc, hdx, hh]; field_simp
          · rw [hs, hdy, hh]; field_simp

/-! ### size, centre and orientation of the pixel image -/

/-- the numeric content of the classes C07 quantifies over: centre, lengths (in constructor
order), angle. -/
def skyData : SkyR Sky α → Option (Sky × List α × Option (Dir α))
  | .circle c r _ _ => some (c, [r], none)
  | .ellipse c w h d _ _ => some (c, [w, h], some d)
  | .rect c w h d _ _ => some (c, [w, h], some d)
  | .circleAnnulus c r1 r2 _ _ => some (c, [r1, r2], none)
  | .ellipseAnnulus c w1 w2 h1 h2 d _ _ => some (c, [w1, w2, h1, h2], some d)
  | .rectAnnulus c w1 w2 h1 h2 d _ _ => some (c, [w1, w2, h1, h2], some d)
  | _ => none

def pixData : PixR α → Option (Pt α × List α × Option (Dir α))
  | .circle c r _ _ => some (c, [r], none)
  | .ellipse c w h d _ _ => some (c, [w, h], some d)
  | .rect c w h d _ _ => some (c, [w, h], some d)
  | .circleAnnulus c r1 r2 _ _ => some (c, [r1, r2], none)
  | .ellipseAnnulus c w1 w2 h1 h2 d _ _ => some (c, [w1, w2, h1, h2], some d)
  | .rectAnnulus c w1 w2 h1 h2 d _ _ => some (c, [w1, w2, h1, h2], some d)
  | _ => none

/-- **`to_pixel` of a circle / ellipse / rectangle / annulus sky region**: the same class, centred
on the WCS image of the sky centre, every length divided by the local scale, and the width
axis along `e₀` turned counter-clockwise by the sky angle (`(rot90cw n).add a`), when the helper
returns `(s, n)` at the centre. -/
theorem toPixel_axis (w : Wcs Sky α) (r : SkyR Sky α) (c : Sky) (sizes : List α) (a : Option (Dir α))
    (hdata : skyData r = some (c, sizes, a)) (s : α) (n : Dir α)
    (hloc : (w.loc c).scale = s ∧ (w.loc c).north = n) :
    (r.toPixel w).cls = r.cls ∧
    pixData (r.toPixel w) = some (w.toPix c, sizes.map (· / s), a.map (fun d => (rot90cw n).add d)) := by
  obtain ⟨h1, h2⟩ := hloc
  have e : ∀ d : Dir α, d.add (northMinus90 n) = (rot90cw n).add d := by
    intro d
    rw [C06.northMinus90_eq]
    simp only [Dir.add, rot90cw, Dir.mk.injEq]
    constructor <;> ring
  cases r <;> simp only [skyData, Option.some.injEq, Prod.mk.injEq, reduceCtorEq] at hdata <;>
    obtain ⟨rfl, rfl, rfl⟩ := hdata <;>
    simp [SkyR.toPixel, Wcs.scaleAngle, pixData, PixR.cls, SkyR.cls, h1, h2, e]

/-- the same, for a WCS that is a similarity around the centre and whose `loc` is the helper. -/
theorem toPixel_axis_of_similarity (w : Wcs Sky α) (offsetBy : Sky → Dir α → α → Sky) (r : SkyR Sky α)
    (c : Sky) (sizes : List α) (a : Option (Dir α)) (hdata : skyData r = some (c, sizes, a))
    (p0 : Pt α) (s : α) (n : Dir α) (sim : Similarity w.toPix offsetBy c p0 s n) (off : α) (hoff : 0 < off)
    (hres : IsHelperResult off (helperDelta w.toPix (fun q => offsetBy q Dir.zero off) c) (w.loc c)) :
    pixData (r.toPixel w) = some (p0, sizes.map (· / s), a.map (fun d => (rot90cw n).add d)) := by
  have h := scaleAngle_of_similarity w.toPix offsetBy c p0 s n sim off hoff (w.loc c) hres
  rw [(toPixel_axis w r c sizes a hdata s n h).2, sim.center]

/-! ### boundaries (C01's membership formulas at equality) -/

/-- frame coordinates of `p` in the frame `(u, u⊥)` centred at `c`, as `contains` computes them
(`dx_rot`, `dy_rot`; the second is minus the `u⊥` coordinate). -/
def frameA (c : Pt α) (d : Dir α) (p : Pt α) : α := d.c * (p.x - c.x) + d.s * (p.y - c.y)
def frameB (c : Pt α) (d : Dir α) (p : Pt α) : α := d.s * (p.x - c.x) - d.c * (p.y - c.y)

def circleBoundary (r : Circle α) (p : Pt α) : Prop := sep2 r.center p = r.radius ^ 2

def ellipseBoundary (r : Ellipse α) (p : Pt α) : Prop :=
  (2 * frameA r.center r.dir p / r.width) ^ 2 + (2 * frameB r.center r.dir p / r.height) ^ 2 = 1

def rectBoundary (r : Rect α) (p : Pt α) : Prop :=
  (|frameA r.center r.dir p| = r.width / 2 ∧ |frameB r.center r.dir p| ≤ r.height / 2) ∨
  (|frameB r.center r.dir p| = r.height / 2 ∧ |frameA r.center r.dir p| ≤ r.width / 2)

/-- the point `c + t·(p - c)` on the ray from the centre through `p`. -/
def ray (c p : Pt α) (t : α) : Pt α := ⟨c.x + t * (p.x - c.x), c.y + t * (p.y - c.y)⟩

theorem frame_ray (c p : Pt α) (d : Dir α) (t : α) :
    frameA c d (ray c p t) = t * frameA c d p ∧ frameB c d (ray c p t) = t * frameB c d p := by
  simp only [frameA, frameB, ray]
  constructor <;> ring

/-- a boundary point of the circle is not a member (open disk), every point of the ray before it is,
none beyond it is: it is on the topological boundary. -/
theorem circle_boundary_meaning (r : Circle α) (hr : 0 < r.radius) (p : Pt α) (hb : circleBoundary r p) :
    r.inRaw p = false ∧ (∀ t, 0 ≤ t → t < 1 → r.inRaw (ray r.center p t) = true) ∧
    (∀ t, 1 < t → r.inRaw (ray r.center p t) = false) := by
  unfold circleBoundary at hb
  have key : ∀ t, sep2 r.center (ray r.center p t) = t ^ 2 * r.radius ^ 2 := by
    intro t
    rw [← hb]
    simp only [sep2, ray]
    ring
  have hr2 : 0 < r.radius ^ 2 := by positivity
  refine ⟨?_, ?_, ?_⟩
  · simp only [Circle.inRaw, decide_eq_false_iff_not, not_lt, hb, le_refl]
  · intro t h0 h1
    simp only [Circle.inRaw, decide_eq_true_eq, key]
    have : t ^ 2 < 1 := by nlinarith
    nlinarith
  · intro t h1
    simp only [Circle.inRaw, decide_eq_false_iff_not, not_lt, key]
    have : 1 ≤ t ^ 2 := by nlinarith
    nlinarith

/-- a boundary point of the ellipse is a member (`≤ 1`: closed), and no point of the ray beyond
it is. -/
theorem ellipse_boundary_meaning (r : Ellipse α) (p : Pt α) (hb : ellipseBoundary r p) :
    r.inRaw p = true ∧ (∀ t, 0 ≤ t → t ≤ 1 → r.inRaw (ray r.center p t) = true) ∧
    (∀ t, 1 < t → r.inRaw (ray r.center p t) = false) := by
  unfold ellipseBoundary at hb
  have key : ∀ t, (2 * frameA r.center r.dir (ray r.center p t) / r.width) ^ 2
      + (2 * frameB r.center r.dir (ray r.center p t) / r.height) ^ 2 = t ^ 2 := by
    intro t
    obtain ⟨e1, e2⟩ := frame_ray r.center p r.dir t
    rw [e1, e2]
    linear_combination (t ^ 2) * hb
  have inraw : ∀ q, r.inRaw q = decide ((2 * frameA r.center r.dir q / r.width) ^ 2
      + (2 * frameB r.center r.dir q / r.height) ^ 2 ≤ 1) := fun q => rfl
  refine ⟨?_, ?_, ?_⟩
  · rw [inraw, hb]; simp
  · intro t h0 h1
    rw [inraw, key, decide_eq_true_eq]
    nlinarith
  · intro t h1
    rw [inraw, key, decide_eq_false_iff_not, not_le]
    nlinarith

/-- a boundary point of the rectangle is not a member (open rectangle), every point of the ray
before it is. -/
theorem rect_boundary_meaning (r : Rect α) (hw : 0 < r.width) (hh : 0 < r.height) (p : Pt α)
    (hb : rectBoundary r p) :
    r.inRaw p = false ∧ (∀ t, 0 ≤ t → t < 1 → r.inRaw (ray r.center p t) = true) := by
  have inraw : ∀ q, r.inRaw q = (decide (|frameA r.center r.dir q| < r.width * (1/2))
      && decide (|frameB r.center r.dir q| < r.height * (1/2))) := fun q => rfl
  unfold rectBoundary at hb
  constructor
  · rw [inraw]
    rcases hb with ⟨h1, _⟩ | ⟨h1, _⟩
    · simp only [Bool.and_eq_false_imp, decide_eq_true_eq, decide_eq_false_iff_not, not_lt]
      intro h; linarith
    · simp only [Bool.and_eq_false_imp, decide_eq_true_eq, decide_eq_false_iff_not, not_lt]
      intro _; linarith
  · intro t h0 h1
    obtain ⟨e1, e2⟩ := frame_ray r.center p r.dir t
    rw [inraw, e1, e2, abs_mul, abs_mul, abs_of_nonneg h0]
    simp only [Bool.and_eq_true, decide_eq_true_eq]
    rcases hb with ⟨ha, hb'⟩ | ⟨hb', ha⟩
    · constructor
      · rw [ha]; nlinarith
      · have := abs_nonneg (frameB r.center r.dir p); nlinarith
    · constructor
      · have := abs_nonneg (frameA r.center r.dir p); nlinarith
      · rw [hb']; nlinarith

/-! ### frame coordinates of the images of the semi-axis end points -/

theorem frame_along (p0 : Pt α) (D : Dir α) (hD : D.IsUnit) (t : α) :
    frameA p0 D ⟨p0.x + t * D.c, p0.y + t * D.s⟩ = t ∧ frameB p0 D ⟨p0.x + t * D.c, p0.y + t * D.s⟩ = 0 := by
  unfold Dir.IsUnit at hD
  simp only [frameA, frameB]
  constructor
  · linear_combination t * hD
  · ring

theorem frame_across (p0 : Pt α) (D : Dir α) (hD : D.IsUnit) (t : α) :
    frameA p0 D ⟨p0.x + t * -D.s, p0.y + t * D.c⟩ = 0 ∧ frameB p0 D ⟨p0.x + t * -D.s, p0.y + t * D.c⟩ = -t := by
  unfold Dir.IsUnit at hD
  simp only [frameA, frameB]
  constructor
  · ring
  · linear_combination (-t) * hD

/-- where the four semi-axis end points of a sky shape with angle `a` go: position angles
`a - 90°`, `a + 90°` (along the width axis) and `a`, `a + 180°` (along the height axis), in terms
of the pixel direction `D = (rot90cw n).add a`. -/
theorem axis_images (toPix : Sky → Pt α) (offsetBy : Sky → Dir α → α → Sky) (c : Sky) (p0 : Pt α)
    (s : α) (n : Dir α) (sim : Similarity toPix offsetBy c p0 s n) (a : Dir α) (ρ : α) :
    toPix (offsetBy c (a.sub Dir.deg90) ρ)
      = ⟨p0.x + ρ / s * ((rot90cw n).add a).c, p0.y + ρ / s * ((rot90cw n).add a).s⟩ ∧
    toPix (offsetBy c ((a.sub Dir.deg90).add Dir.deg180) ρ)
      = ⟨p0.x + -(ρ / s) * ((rot90cw n).add a).c, p0.y + -(ρ / s) * ((rot90cw n).add a).s⟩ ∧
    toPix (offsetBy c a ρ)
      = ⟨p0.x + ρ / s * -((rot90cw n).add a).s, p0.y + ρ / s * ((rot90cw n).add a).c⟩ ∧
    toPix (offsetBy c (a.add Dir.deg180) ρ)
      = ⟨p0.x + -(ρ / s) * -((rot90cw n).add a).s, p0.y + -(ρ / s) * ((rot90cw n).add a).c⟩ := by
  simp only [sim.offset, Dir.add, Dir.sub, Dir.neg, Dir.deg90, Dir.deg180, rot90cw, Pt.mk.injEq]
  refine ⟨⟨?_, ?_⟩, ⟨?_, ?_⟩, ⟨?_, ?_⟩, ⟨?_, ?_⟩⟩ <;> ring

/-! ### the whole pixel shape is the similarity image of the sky shape -/

/-- frame coordinates (in the pixel shape's own frame `D = (rot90cw n).add a`) of the image of the sky
point at position angle `θ`, separation `ρ`: `(ρ/s)·(cos φ, -sin φ)` with `φ = θ - (a - 90°)` the position
angle counted from the width axis. -/
theorem image_frame (toPix : Sky → Pt α) (offsetBy : Sky → Dir α → α → Sky) (c : Sky) (p0 : Pt α)
    (s : α) (n : Dir α) (sim : Similarity toPix offsetBy c p0 s n) (a θ : Dir α) (ρ : α) :
    frameA p0 ((rot90cw n).add a) (toPix (offsetBy c θ ρ)) = ρ / s * (θ.sub (a.sub Dir.deg90)).c ∧
    frameB p0 ((rot90cw n).add a) (toPix (offsetBy c θ ρ)) = -(ρ / s * (θ.sub (a.sub Dir.deg90)).s) := by
  have hn := sim.n_unit
  unfold Dir.IsUnit at hn
  simp only [sim.offset, frameA, frameB, Dir.add, Dir.sub, Dir.neg, Dir.deg90, rot90cw]
  constructor
  · linear_combination (ρ / s * (θ.c * a.s - θ.s * a.c)) * hn
  · linear_combination (-(ρ / s * (θ.s * a.s + θ.c * a.c))) * hn

/-- **ellipse**: a sky point `(θ, ρ)` lies in the pixel ellipse exactly when it lies in the sky ellipse with
full axes `w`, `h` whose width axis is at position angle `a - 90°` — for EVERY point, not only the four
semi-axis end points. -/
theorem ellipse_image_iff (w : Wcs Sky α) (offsetBy : Sky → Dir α → α → Sky) (c : Sky)
    (p0 : Pt α) (s : α) (n : Dir α) (sim : Similarity w.toPix offsetBy c p0 s n) (wd h : α) (hwd : 0 < wd)
    (hh : 0 < h) (a θ : Dir α) (ρ : α) :
    (Ellipse.mk p0 (wd / s) (h / s) ((rot90cw n).add a)).inRaw (w.toPix (offsetBy c θ ρ)) = true ↔
      (2 * (ρ * (θ.sub (a.sub Dir.deg90)).c) / wd) ^ 2 + (2 * (ρ * (θ.sub (a.sub Dir.deg90)).s) / h) ^ 2 ≤ 1 := by
  have hs := sim.s_pos
  obtain ⟨e1, e2⟩ := image_frame w.toPix offsetBy c p0 s n sim a θ ρ
  have inraw : ∀ (k : Ellipse α) q, k.inRaw q = decide ((2 * frameA k.center k.dir q / k.width) ^ 2
      + (2 * frameB k.center k.dir q / k.height) ^ 2 ≤ 1) := fun k q => rfl
  rw [inraw, decide_eq_true_eq]
  simp only [e1, e2]
  have k1 : 2 * (ρ / s * (θ.sub (a.sub Dir.deg90)).c) / (wd / s) = 2 * (ρ * (θ.sub (a.sub Dir.deg90)).c) / wd := by
    field_simp
  have k2 : (2 * -(ρ / s * (θ.sub (a.sub Dir.deg90)).s) / (h / s)) ^ 2
      = (2 * (ρ * (θ.sub (a.sub Dir.deg90)).s) / h) ^ 2 := by
    field_simp
  rw [k1, k2]

/-- **rectangle**, likewise: `|ρ cos φ| < w/2` and `|ρ sin φ| < h/2`. -/
theorem rect_image_iff (w : Wcs Sky α) (offsetBy : Sky → Dir α → α → Sky) (c : Sky)
    (p0 : Pt α) (s : α) (n : Dir α) (sim : Similarity w.toPix offsetBy c p0 s n) (wd h : α)
    (a θ : Dir α) (ρ : α) :
    (Rect.mk p0 (wd / s) (h / s) ((rot90cw n).add a)).inRaw (w.toPix (offsetBy c θ ρ)) = true ↔
      |ρ * (θ.sub (a.sub Dir.deg90)).c| < wd / 2 ∧ |ρ * (θ.sub (a.sub Dir.deg90)).s| < h / 2 := by
  have hs := sim.s_pos
  obtain ⟨e1, e2⟩ := image_frame w.toPix offsetBy c p0 s n sim a θ ρ
  have inraw : ∀ (k : Rect α) q, k.inRaw q = (decide (|frameA k.center k.dir q| < k.width * (1/2))
      && decide (|frameB k.center k.dir q| < k.height * (1/2))) := fun k q => rfl
  rw [inraw]
  simp only [e1, e2, Bool.and_eq_true, decide_eq_true_eq, abs_neg]
  have k : ∀ x y : α, |ρ / s * x| < y / s * (1 / 2) ↔ |ρ * x| < y / 2 := by
    intro x y
    have e : ρ / s * x = (ρ * x) / s := by ring
    rw [e, abs_div, abs_of_pos hs, show y / s * (1 / 2) = (y / 2) / s by ring, div_lt_div_iff_of_pos_right hs]
  rw [k, k]

/-- **circle**: inside exactly when the separation is below the angular radius. -/
theorem circle_image_iff (w : Wcs Sky α) (offsetBy : Sky → Dir α → α → Sky) (c : Sky)
    (p0 : Pt α) (s : α) (n : Dir α) (sim : Similarity w.toPix offsetBy c p0 s n) (r : α)
    (θ : Dir α) (hθ : θ.IsUnit) (ρ : α) :
    (Circle.mk p0 (r / s)).inRaw (w.toPix (offsetBy c θ ρ)) = true ↔ ρ ^ 2 < r ^ 2 := by
  have hs := sim.s_pos
  have hu := C15.dir_add_unit n θ sim.n_unit hθ
  unfold Dir.IsUnit at hu
  simp only [Circle.inRaw, decide_eq_true_eq, sim.offset, sep2]
  have e : (p0.x + ρ / s * (n.add θ).c - p0.x) ^ 2 + (p0.y + ρ / s * (n.add θ).s - p0.y) ^ 2 = ρ ^ 2 / s ^ 2 := by
    field_simp
    linear_combination (ρ ^ 2) * hu
  rw [e, div_pow, div_lt_div_iff_of_pos_right (by positivity)]

/-! ### semi-axis end points land on the boundary -/

/-- **circle**: the sky point at separation `r` in ANY direction lands on the pixel circle. -/
theorem circle_semi_axis_on_boundary (w : Wcs Sky α) (offsetBy : Sky → Dir α → α → Sky) (c : Sky)
    (p0 : Pt α) (s : α) (n : Dir α) (sim : Similarity w.toPix offsetBy c p0 s n)
    (hloc : (w.loc c).scale = s ∧ (w.loc c).north = n) (r : α) (m : Meta) (v : Visual α)
    (θ : Dir α) (hθ : θ.IsUnit) :
    ∃ k : Circle α, (SkyR.circle c r m v).toPixel w = .circle k.center k.radius m v ∧
      k.center = p0 ∧ k.radius = r / s ∧ circleBoundary k (w.toPix (offsetBy c θ r)) := by
  refine ⟨⟨p0, r / s⟩, ?_, rfl, rfl, ?_⟩
  · simp only [SkyR.toPixel, Wcs.scaleAngle, hloc.1, sim.center, C06.metaOr_some, C06.visualOr_some]
  · have hu := C15.dir_add_unit n θ sim.n_unit hθ
    unfold Dir.IsUnit at hu
    simp only [circleBoundary, sim.offset, sep2]
    linear_combination ((r / s) ^ 2) * hu

/-- **ellipse**: the four sky points at the angular semi-axes land on the pixel ellipse. -/
theorem ellipse_semi_axis_on_boundary (w : Wcs Sky α) (offsetBy : Sky → Dir α → α → Sky) (c : Sky)
    (p0 : Pt α) (s : α) (n : Dir α) (sim : Similarity w.toPix offsetBy c p0 s n)
    (hloc : (w.loc c).scale = s ∧ (w.loc c).north = n) (wd h : α) (hwd : 0 < wd) (hh : 0 < h)
    (a : Dir α) (ha : a.IsUnit) (m : Meta) (v : Visual α) :
    ∃ k : Ellipse α, (SkyR.ellipse c wd h a m v).toPixel w = .ellipse k.center k.width k.height k.dir m v ∧
      k.center = p0 ∧ k.width = wd / s ∧ k.height = h / s ∧ k.dir = (rot90cw n).add a ∧
      ellipseBoundary k (w.toPix (offsetBy c (a.sub Dir.deg90) (wd / 2))) ∧
      ellipseBoundary k (w.toPix (offsetBy c ((a.sub Dir.deg90).add Dir.deg180) (wd / 2))) ∧
      ellipseBoundary k (w.toPix (offsetBy c a (h / 2))) ∧
      ellipseBoundary k (w.toPix (offsetBy c (a.add Dir.deg180) (h / 2))) := by
  have hs := sim.s_pos
  have hD : ((rot90cw n).add a).IsUnit := C15.dir_add_unit _ _ (rot90cw_unit n sim.n_unit) ha
  have hax := (toPixel_axis w (SkyR.ellipse c wd h a m v) c [wd, h] (some a) rfl s n hloc).2
  have i1 := fun ρ => (axis_images w.toPix offsetBy c p0 s n sim a ρ).1
  have i2 := fun ρ => (axis_images w.toPix offsetBy c p0 s n sim a ρ).2.1
  have i3 := fun ρ => (axis_images w.toPix offsetBy c p0 s n sim a ρ).2.2.1
  have i4 := fun ρ => (axis_images w.toPix offsetBy c p0 s n sim a ρ).2.2.2
  refine ⟨⟨p0, wd / s, h / s, (rot90cw n).add a⟩, ?_, rfl, rfl, rfl, rfl, ?_, ?_, ?_, ?_⟩
  · have e : a.add (northMinus90 n) = (rot90cw n).add a := by
      rw [C06.northMinus90_eq]; simp only [Dir.add, rot90cw, Dir.mk.injEq]; constructor <;> ring
    simp only [SkyR.toPixel, Wcs.scaleAngle, hloc.1, hloc.2, sim.center, C06.metaOr_some, C06.visualOr_some, e]
  · rw [i1 (wd / 2)]
    obtain ⟨e1, e2⟩ := frame_along p0 _ hD (wd / 2 / s)
    simp only [ellipseBoundary, e1, e2]
    field_simp
    ring
  · rw [i2 (wd / 2)]
    obtain ⟨e1, e2⟩ := frame_along p0 _ hD (-(wd / 2 / s))
    simp only [ellipseBoundary, e1, e2]
    field_simp
    ring
  · rw [i3 (h / 2)]
    obtain ⟨e1, e2⟩ := frame_across p0 _ hD (h / 2 / s)
    simp only [ellipseBoundary, e1, e2]
    field_simp
    ring
  · rw [i4 (h / 2)]
    obtain ⟨e1, e2⟩ := frame_across p0 _ hD (-(h / 2 / s))
    simp only [ellipseBoundary, e1, e2]
    field_simp
    ring

/-- **rectangle**: the four sky points at the angular half-sides land on the sides of the pixel
rectangle (at their midpoints). -/
theorem rect_semi_axis_on_boundary (w : Wcs Sky α) (offsetBy : Sky → Dir α → α → Sky) (c : Sky)
    (p0 : Pt α) (s : α) (n : Dir α) (sim : Similarity w.toPix offsetBy c p0 s n)
    (hloc : (w.loc c).scale = s ∧ (w.loc c).north = n) (wd h : α) (hwd : 0 < wd) (hh : 0 < h)
    (a : Dir α) (ha : a.IsUnit) (m : Meta) (v : Visual α) :
    ∃ k : Rect α, (SkyR.rect c wd h a m v).toPixel w = .rect k.center k.width k.height k.dir m v ∧
      k.center = p0 ∧ k.width = wd / s ∧ k.height = h / s ∧ k.dir = (rot90cw n).add a ∧
      rectBoundary k (w.toPix (offsetBy c (a.sub Dir.deg90) (wd / 2))) ∧
      rectBoundary k (w.toPix (offsetBy c ((a.sub Dir.deg90).add Dir.deg180) (wd / 2))) ∧
      rectBoundary k (w.toPix (offsetBy c a (h / 2))) ∧
      rectBoundary k (w.toPix (offsetBy c (a.add Dir.deg180) (h / 2))) := by
  have hs := sim.s_pos
  have hD : ((rot90cw n).add a).IsUnit := C15.dir_add_unit _ _ (rot90cw_unit n sim.n_unit) ha
  have i1 := fun ρ => (axis_images w.toPix offsetBy c p0 s n sim a ρ).1
  have i2 := fun ρ => (axis_images w.toPix offsetBy c p0 s n sim a ρ).2.1
  have i3 := fun ρ => (axis_images w.toPix offsetBy c p0 s n sim a ρ).2.2.1
  have i4 := fun ρ => (axis_images w.toPix offsetBy c p0 s n sim a ρ).2.2.2
  have hW : 0 < wd / s := div_pos hwd hs
  have hH : 0 < h / s := div_pos hh hs
  refine ⟨⟨p0, wd / s, h / s, (rot90cw n).add a⟩, ?_, rfl, rfl, rfl, rfl, ?_, ?_, ?_, ?_⟩
  · have e : a.add (northMinus90 n) = (rot90cw n).add a := by
      rw [C06.northMinus90_eq]; simp only [Dir.add, rot90cw, Dir.mk.injEq]; constructor <;> ring
    simp only [SkyR.toPixel, Wcs.scaleAngle, hloc.1, hloc.2, sim.center, C06.metaOr_some, C06.visualOr_some, e]
  · rw [i1 (wd / 2)]
    obtain ⟨e1, e2⟩ := frame_along p0 _ hD (wd / 2 / s)
    left
    simp only [e1, e2, abs_zero]
    refine ⟨?_, by linarith⟩
    rw [abs_of_pos (by positivity)]; ring
  · rw [i2 (wd / 2)]
    obtain ⟨e1, e2⟩ := frame_along p0 _ hD (-(wd / 2 / s))
    left
    simp only [e1, e2, abs_zero, abs_neg]
    refine ⟨?_, by linarith⟩
    rw [abs_of_pos (by positivity)]; ring
  · rw [i3 (h / 2)]
    obtain ⟨e1, e2⟩ := frame_across p0 _ hD (h / 2 / s)
    right
    simp only [e1, e2, abs_zero, abs_neg]
    refine ⟨?_, by linarith⟩
    rw [abs_of_pos (by positivity)]; ring
  · rw [i4 (h / 2)]
    obtain ⟨e1, e2⟩ := frame_across p0 _ hD (-(h / 2 / s))
    right
    simp only [e1, e2, abs_zero, abs_neg]
    refine ⟨?_, by linarith⟩
    rw [abs_of_pos (by positivity)]; ring

/-- **annuli**: the pixel image of an annulus sky region has the inner and outer component
shapes that the ellipse / rectangle / circle sky regions with the inner resp. outer sizes have
(`PixR.toPReg` builds the annulus from exactly these components), so the three theorems above
apply to both of its boundaries. -/
theorem annulus_components (w : Wcs Sky α) (c : Sky) (m : Meta) (v : Visual α) :
    (∀ r1 r2 : α, ∃ ci co : Circle α,
      (SkyR.circle c r1 m v).toPixel w = .circle ci.center ci.radius m v ∧
      (SkyR.circle c r2 m v).toPixel w = .circle co.center co.radius m v ∧
      ((SkyR.circleAnnulus c r1 r2 m v).toPixel w).toPReg = some (.circleAnnulus ci.center ci.radius co.radius m.inc) ∧
      ci.center = co.center) ∧
    (∀ (w1 w2 h1 h2 : α) (a : Dir α), ∃ ei eo : Ellipse α,
      (SkyR.ellipse c w1 h1 a m v).toPixel w = .ellipse ei.center ei.width ei.height ei.dir m v ∧
      (SkyR.ellipse c w2 h2 a m v).toPixel w = .ellipse eo.center eo.width eo.height eo.dir m v ∧
      ((SkyR.ellipseAnnulus c w1 w2 h1 h2 a m v).toPixel w).toPReg
        = some (.ellipseAnnulus ei.center ei.width ei.height eo.width eo.height ei.dir m.inc) ∧
      ei.center = eo.center ∧ ei.dir = eo.dir) ∧
    (∀ (w1 w2 h1 h2 : α) (a : Dir α), ∃ ri ro : Rect α,
      (SkyR.rect c w1 h1 a m v).toPixel w = .rect ri.center ri.width ri.height ri.dir m v ∧
      (SkyR.rect c w2 h2 a m v).toPixel w = .rect ro.center ro.width ro.height ro.dir m v ∧
      ((SkyR.rectAnnulus c w1 w2 h1 h2 a m v).toPixel w).toPReg
        = some (.rectAnnulus ri.center ri.width ri.height ro.width ro.height ri.dir m.inc) ∧
      ri.center = ro.center ∧ ri.dir = ro.dir) := by
  refine ⟨fun r1 r2 => ⟨⟨w.toPix c, r1 / (w.loc c).scale⟩, ⟨w.toPix c, r2 / (w.loc c).scale⟩, ?_⟩,
    fun w1 w2 h1 h2 a => ⟨⟨w.toPix c, w1 / (w.loc c).scale, h1 / (w.loc c).scale, a.add (northMinus90 (w.loc c).north)⟩,
      ⟨w.toPix c, w2 / (w.loc c).scale, h2 / (w.loc c).scale, a.add (northMinus90 (w.loc c).north)⟩, ?_⟩,
    fun w1 w2 h1 h2 a => ⟨⟨w.toPix c, w1 / (w.loc c).scale, h1 / (w.loc c).scale, a.add (northMinus90 (w.loc c).north)⟩,
      ⟨w.toPix c, w2 / (w.loc c).scale, h2 / (w.loc c).scale, a.add (northMinus90 (w.loc c).north)⟩, ?_⟩⟩ <;>
    simp [SkyR.toPixel, Wcs.scaleAngle, PixR.toPReg, C06.metaOr_some, C06.visualOr_some]

end field

/-! ### the literal `sqrt` / `atan2` helper over ℝ -/

/-- **over ℝ, with the code's own formulas** (`np.hypot`, `np.arctan2`): on a similarity the
helper returns the scale `s`, and an angle whose `(cos, sin)` is `n`; the number of degrees it
reports is that angle. -/
theorem scaleAngle_of_similarity_real {Sky : Type} (toPix : Sky → Pt ℝ) (toSky : Pt ℝ → Sky)
    (offsetBy : Sky → Dir ℝ → ℝ → Sky) (c : Sky) (p0 : Pt ℝ) (s : ℝ) (n : Dir ℝ)
    (sim : Similarity toPix offsetBy c p0 s n) (off : ℝ) (hoff : 0 < off) :
    let w := realWcs toPix toSky (fun q => offsetBy q Dir.zero off) off
    (w.loc c).scale = s ∧ (w.loc c).north = n ∧
    n = ⟨Real.cos ((w.loc c).northDeg * Real.pi / 180), Real.sin ((w.loc c).northDeg * Real.pi / 180)⟩ := by
  intro w
  have hs0 := sim.s_pos
  have hu := sim.n_unit
  have hq : 0 < off / s := div_pos hoff hs0
  have hne : (helperDelta toPix (fun q => offsetBy q Dir.zero off) c).dx ≠ 0 ∨
      (helperDelta toPix (fun q => offsetBy q Dir.zero off) c).dy ≠ 0 := by
    have hdx : (helperDelta toPix (fun q => offsetBy q Dir.zero off) c).dx = off / s * n.c := by
      simp only [helperDelta, sim.offset, sim.center, Dir.add, Dir.zero]; ring
    have hdy : (helperDelta toPix (fun q => offsetBy q Dir.zero off) c).dy = off / s * n.s := by
      simp only [helperDelta, sim.offset, sim.center, Dir.add, Dir.zero]; ring
    rw [hdx, hdy]
    by_contra hcon
    simp only [not_or, not_not] at hcon
    obtain ⟨h1, h2⟩ := hcon
    have c0 : n.c = 0 := by
      rcases mul_eq_zero.mp h1 with h | h
      · exact absurd h (ne_of_gt hq)
      · exact h
    have s0 : n.s = 0 := by
      rcases mul_eq_zero.mp h2 with h | h
      · exact absurd h (ne_of_gt hq)
      · exact h
    unfold Dir.IsUnit at hu
    rw [c0, s0] at hu
    norm_num at hu
  have hres := helperReal_spec off _ hne
  have h := scaleAngle_of_similarity toPix offsetBy c p0 s n sim off hoff _ hres
  refine ⟨h.1, h.2, ?_⟩
  have hd := helperReal_northDeg off (helperDelta toPix (fun q => offsetBy q Dir.zero off) c)
  simp only at hd
  rw [← h.2]
  exact hd

/-! ### non-vacuity: a rotated, scaled similarity over ℚ (north = (-4/5, 3/5), 2 arcsec / pixel) -/

/-- sky positions as tangent-plane offsets `(east, north)` in arcsec; `offsetBy` moves by `ρ` at
position angle `θ` (from north through east). -/
def exOffsetBy (q : Pt ℚ) (θ : Dir ℚ) (ρ : ℚ) : Pt ℚ := ⟨q.x + ρ * θ.s, q.y + ρ * θ.c⟩

/-- image = `p₀ + (η·n + ξ·e) / s` with `e` = `n` turned counter-clockwise by a quarter turn. -/
def exToPix (q : Pt ℚ) : Pt ℚ :=
  ⟨10 + (q.y * (-(4/5)) + q.x * (-(3/5))) / 2, -3 + (q.y * (3/5) + q.x * (-(4/5))) / 2⟩

example : Similarity exToPix exOffsetBy ⟨0, 0⟩ ⟨10, -3⟩ 2 ⟨-(4/5), 3/5⟩ :=
  ⟨by norm_num, by unfold Dir.IsUnit; norm_num, by simp [exToPix],
   fun θ ρ => by simp only [exToPix, exOffsetBy, Dir.add, Pt.mk.injEq]; constructor <;> ring⟩

example : IsHelperResult (1 : ℚ) (helperDelta exToPix (fun q => exOffsetBy q Dir.zero 1) ⟨0, 0⟩)
    ⟨2, ⟨-(4/5), 3/5⟩, 0⟩ :=
  ⟨1/2, by norm_num, by simp [HelperDelta.hypot2, helperDelta, exToPix, exOffsetBy, Dir.zero]; norm_num,
   by norm_num, by simp [helperDelta, exToPix, exOffsetBy, Dir.zero],
   by simp [helperDelta, exToPix, exOffsetBy, Dir.zero]⟩

end RegionsVerif.Props.C07
