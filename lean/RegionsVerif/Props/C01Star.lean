/-
C01 (star-shaped polygons) — for a polygon whose vertices after the first are sorted
counter-clockwise around the first vertex (star-shaped with respect to it; convex or NOT), the fan
triangles do not overlap, so the fan parity — hence the ray-casting implementation, in generic
position — is plain membership in the union of the fan triangles, which is the polygon.
-/
import RegionsVerif.Props.C01Fan

namespace RegionsVerif.Props.C01
open RegionsVerif.Impl

section field
variable {α : Type} [Field α] [LinearOrder α] [IsStrictOrderedRing α]

/-- the vertices after `v0` are sorted counter-clockwise around `v0` within a half-plane: every
pair `(a, b)` in list order has `orient v0 a b > 0`.  With `v0` this describes the polygons that
are STAR-SHAPED with respect to their first vertex (convex or not): the polygon is the union of its
fan triangles, whose interiors are disjoint. -/
def FanSorted (v0 : Pt α) (L : List (Pt α)) : Prop := L.Pairwise (fun a b => 0 < orient v0 a b)

/-- some fan triangle contains `p`. -/
def anyTri (v0 : Pt α) : List (Pt α) → Pt α → Bool
  | v1 :: v2 :: rest, p => triIn v0 v1 v2 p || anyTri v0 (v2 :: rest) p
  | _, _ => false

/-- in the cone between `a` (clockwise side) and `c`… : if `p` is counter-clockwise of `a` and
clockwise of `b`, it is clockwise of every `c` that is counter-clockwise of both. -/
theorem cone_mono (v0 a b c p : Pt α) (hab : 0 < orient v0 a b) (hac : 0 < orient v0 a c) (hbc : 0 < orient v0 b c)
    (hap : 0 < orient v0 a p) (hbp : orient v0 b p < 0) : orient v0 c p < 0 := by
  have key : orient v0 c p * orient v0 a b = orient v0 b p * orient v0 a c - orient v0 a p * orient v0 b c := by
    unfold orient; ring
  have h1 : orient v0 b p * orient v0 a c < 0 := mul_neg_of_neg_of_pos hbp hac
  have h2 : 0 < orient v0 a p * orient v0 b c := mul_pos hap hbc
  by_contra hno
  rw [not_lt] at hno
  have : 0 ≤ orient v0 c p * orient v0 a b := mul_nonneg hno (le_of_lt hab)
  linarith

/-- if `p` is clockwise of every vertex of the list, no fan triangle of the list contains it. -/
theorem fanParity_false_of_cw (v0 p : Pt α) :
    ∀ L : List (Pt α), FanSorted v0 L → (∀ b ∈ L, orient v0 b p < 0) → fanParity v0 L p = false ∧ anyTri v0 L p = false
  | [], _, _ => ⟨rfl, rfl⟩
  | [_], _, _ => ⟨rfl, rfl⟩
  | v1 :: v2 :: rest, hs, hcw => by
    have hs' := List.pairwise_cons.mp hs
    have ih := fanParity_false_of_cw v0 p (v2 :: rest) hs'.2 (fun b hb => hcw b (List.mem_cons_of_mem _ hb))
    have hD : 0 < orient v0 v1 v2 := hs'.1 v2 (by simp)
    have h1 : orient v0 v1 p < 0 := hcw v1 (by simp)
    have ht : triIn v0 v1 v2 p = false := by
      unfold triIn
      simp only [decide_eq_false_iff_not, not_and]
      intro h
      have : 0 < orient v0 v1 p := by nlinarith
      linarith
    simp only [fanParity, anyTri, ht, ih.1, ih.2, Bool.false_xor, Bool.false_or, and_self]

/-- **Star-shaped polygons** (with respect to the first vertex; convex or not): the fan triangles
do not overlap, so the fan parity is plain membership in their union. -/
theorem fanParity_eq_anyTri (v0 p : Pt α) :
    ∀ L : List (Pt α), FanSorted v0 L → fanParity v0 L p = anyTri v0 L p
  | [], _ => rfl
  | [_], _ => rfl
  | v1 :: v2 :: rest, hs => by
    have hs' := List.pairwise_cons.mp hs
    have ih := fanParity_eq_anyTri v0 p (v2 :: rest) hs'.2
    simp only [fanParity, anyTri, ih]
    by_cases ht : triIn v0 v1 v2 p = true
    · -- p is in the first triangle: clockwise of v2 and of everything after it
      have hD : 0 < orient v0 v1 v2 := hs'.1 v2 (by simp)
      unfold triIn at ht
      rw [decide_eq_true_iff] at ht
      obtain ⟨t1, _, t3⟩ := ht
      have h1p : 0 < orient v0 v1 p := by nlinarith
      have h2p : orient v0 v2 p < 0 := by
        have : 0 < orient v2 v0 p := by nlinarith
        rw [orient_swap v0 v2 p] at this; linarith
      have hs2 := List.pairwise_cons.mp hs'.2
      have hcw : ∀ b ∈ v2 :: rest, orient v0 b p < 0 := by
        intro b hb
        rcases List.mem_cons.mp hb with rfl | hb
        · exact h2p
        · exact cone_mono v0 v1 v2 b p hD (hs'.1 b (List.mem_cons_of_mem _ hb)) (hs2.1 b hb) h1p h2p
      have := (fanParity_false_of_cw v0 p (v2 :: rest) hs'.2 hcw).2
      simp [this]
    · rw [Bool.not_eq_true] at ht
      simp [ht]

/-- **the even-odd implementation on a star-shaped polygon**: in generic position it answers
whether the point lies in one of the fan triangles, i.e. in the polygon. -/
theorem pnpoly_star_shaped (v0 v1 v2 : Pt α) (R : List (Pt α)) (p : Pt α)
    (hs : FanSorted v0 (v1 :: v2 :: R)) (hg : fanGeneric v0 (v1 :: v2 :: R) p) :
    pnpoly (v0 :: v1 :: v2 :: R) p = anyTri v0 (v1 :: v2 :: R) p := by
  rw [pnpoly_eq_fanParity v0 p R v1 v2 hg, fanParity_eq_anyTri v0 p _ hs]

end field

/-- non-vacuity: the dart `(0,0),(4,0),(1,1),(0,4)` is star-shaped from its first vertex and not convex. -/
example : FanSorted (⟨0, 0⟩ : Pt ℚ) [⟨4, 0⟩, ⟨1, 1⟩, ⟨0, 4⟩] ∧ ¬ ConvexCCW [(⟨0, 0⟩ : Pt ℚ), ⟨4, 0⟩, ⟨1, 1⟩, ⟨0, 4⟩] := by
  constructor
  · unfold FanSorted
    simp only [List.pairwise_cons, List.Pairwise.nil, List.mem_cons, List.not_mem_nil, or_false, forall_eq_or_imp,
      forall_eq, and_true, implies_true, orient]
    norm_num
  · simp only [ConvexCCW, List.pairwise_cons, List.Pairwise.nil, List.mem_cons, List.not_mem_nil, or_false,
      forall_eq_or_imp, forall_eq, and_true, implies_true, orient]
    norm_num

end RegionsVerif.Props.C01
