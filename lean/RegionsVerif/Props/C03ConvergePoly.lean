/-
C03 — convergence of 'subpixels' masks, strictly convex POLYGONS (`C01.ConvexCCW`): the membership
test is the even-odd rule `pnpoly`, known (`C01.pnpoly_convex`) to be `true` on the open polygon OFF
the fan diagonals from the first vertex and `false` off the closed polygon — unknown on the
boundary and on the diagonals, i.e. at finitely many interior points of a column.

* `col_count_exc`                  one column, membership sandwiched `(α,β) ⊆ · ⊆ [α,β]` except on a
                                   finite set `E` of ordinates: within `(1 + #E)/n` of the slice length;
* `sampled_error_percol`           the abstract bound with a per-column error `ε a`;
* `HP`, `hpK`, `hpLo/hpHi/hpLen`   finite intersections of open half-planes: interval slices,
                                   closed version, convexity ⇒ `hpLen_quasiconcave`;
* `hp_sampled_error`               a test that holds on the open intersection off finitely many lines
                                   `fs` and implies the closed one: `|sampled − ∫ hpLen| ≤ (2 + #fs + #Bd)/n`
                                   (`Bd`: abscissae of vertical half-plane borders / vertical lines);
* `polygon_subpixel_error_convex`  `k` vertices, `V` vertical edges: `≤ (k + V)/n`
                                   [= 1 (midpoint) + 1 (column ends) + (k − 3) (diagonals) + (1 + V) (columns
                                   through the first vertex / along a vertical edge)]; `…_crude`: `≤ 2k/n`;
* `polygon_mask_converges_convex`  the mask cell, via `C02.polygon_mask_spec`;
* `polyPixelArea_eq_volume`        the limit is the Lebesgue measure of (pixel ∩ open polygon);
* `convexCCW_nodup`, `cyclicPairs_distinct`   a strictly convex polygon has distinct vertices.

NOT done: `V ≤ 2` for a strictly convex polygon (would give `(k + 2)/n`); non-convex polygons
(no Jordan-curve theorem for `pnpoly`).
-/
import RegionsVerif.Props.C03ConvergeConvex
import RegionsVerif.Props.C02Convex

namespace RegionsVerif.Props.C03
open RegionsVerif.Impl RegionsVerif.Props RegionsVerif.Props.C02 RegionsVerif.Props.C01

/-! ### one column with finitely many exceptional ordinates -/

theorem sample_inj (n : Nat) (hn : 0 < n) (k l : Nat) (h : ((k : ℝ) + 1/2) / n = ((l : ℝ) + 1/2) / n) : k = l := by
  have hn' : (0 : ℝ) < n := by exact_mod_cast hn
  rw [div_left_inj' hn'.ne'] at h
  have : (k : ℝ) = l := by linarith
  exact_mod_cast this

/-- at most `card E` of the sample ordinates lie in a finite set `E`. -/
theorem count_in_finset (n : Nat) (hn : 0 < n) (E : Finset ℝ) :
    (∑ k ∈ Finset.range n, if ((k : ℝ) + 1/2) / n ∈ E then (1 : ℝ) else 0) ≤ E.card := by
  rw [← Finset.sum_filter, Finset.sum_const, nsmul_eq_mul, mul_one]
  have : ((Finset.range n).filter fun k : Nat => ((k : ℝ) + 1/2) / n ∈ E).card ≤ E.card := by
    apply Finset.card_le_card_of_injOn (fun k : Nat => ((k : ℝ) + 1/2) / n)
    · intro k hk
      exact (Finset.mem_filter.mp hk).2
    · intro k _ l _ h
      exact sample_inj n hn k l h
  exact_mod_cast this

/-- **one column, sandwiched membership up to an exceptional set**: off the finite set `E` of
ordinates the test holds inside `(α, β)` and implies `[α, β]`; on `E` it is anything. -/
theorem col_count_exc (n : Nat) (hn : 0 < n) (α β : ℝ) (E : Finset ℝ) (q : Nat → Prop) [DecidablePred q]
    (hin : ∀ k : Nat, α < ((k : ℝ) + 1/2) / n → ((k : ℝ) + 1/2) / n < β → ((k : ℝ) + 1/2) / n ∉ E → q k)
    (hout : ∀ k : Nat, q k → ((k : ℝ) + 1/2) / n ∉ E → α ≤ ((k : ℝ) + 1/2) / n ∧ ((k : ℝ) + 1/2) / n ≤ β) :
    |(∑ k ∈ Finset.range n, if q k then (1 : ℝ) else 0) / n - max 0 (clamp01 β - clamp01 α)| ≤ (1 + E.card) / n := by
  have hn' : (0 : ℝ) < n := by exact_mod_cast hn
  classical
  set q' : Nat → Prop := fun k => (q k ∧ ((k : ℝ) + 1/2) / n ∉ E) ∨
    (((k : ℝ) + 1/2) / n ∈ E ∧ α < ((k : ℝ) + 1/2) / n ∧ ((k : ℝ) + 1/2) / n < β) with hq'
  have h1 := col_count_sw n hn α β q'
    (by
      intro k ha hb
      by_cases hE : ((k : ℝ) + 1/2) / n ∈ E
      · exact Or.inr ⟨hE, ha, hb⟩
      · exact Or.inl ⟨hin k ha hb hE, hE⟩)
    (by
      rintro k (⟨hq, hE⟩ | ⟨-, ha, hb⟩)
      · exact hout k hq hE
      · exact ⟨ha.le, hb.le⟩)
  have hdiff : |(∑ k ∈ Finset.range n, if q k then (1 : ℝ) else 0) - (∑ k ∈ Finset.range n, if q' k then (1 : ℝ) else 0)| ≤ E.card := by
    rw [← Finset.sum_sub_distrib]
    calc |∑ k ∈ Finset.range n, ((if q k then (1 : ℝ) else 0) - (if q' k then (1 : ℝ) else 0))|
        ≤ ∑ k ∈ Finset.range n, |(if q k then (1 : ℝ) else 0) - (if q' k then (1 : ℝ) else 0)| :=
          Finset.abs_sum_le_sum_abs _ _
      _ ≤ ∑ k ∈ Finset.range n, (if ((k : ℝ) + 1/2) / n ∈ E then (1 : ℝ) else 0) := by
          apply Finset.sum_le_sum
          intro k _
          by_cases hE : ((k : ℝ) + 1/2) / n ∈ E
          · rw [if_pos hE]
            by_cases a : q k <;> by_cases b : q' k <;> simp [a, b]
          · rw [if_neg hE]
            have : q' k ↔ q k := by
              constructor
              · rintro (⟨a, -⟩ | ⟨b, -⟩)
                · exact a
                · exact absurd b hE
              · intro a; exact Or.inl ⟨a, hE⟩
            by_cases a : q k
            · rw [if_pos a, if_pos (this.mpr a)]; simp
            · rw [if_neg a, if_neg (fun h => a (this.mp h))]; simp
      _ ≤ E.card := count_in_finset n hn E
  have e : (∑ k ∈ Finset.range n, if q k then (1 : ℝ) else 0) / n - max 0 (clamp01 β - clamp01 α) =
      ((∑ k ∈ Finset.range n, if q k then (1 : ℝ) else 0) - (∑ k ∈ Finset.range n, if q' k then (1 : ℝ) else 0)) / n +
      ((∑ k ∈ Finset.range n, if q' k then (1 : ℝ) else 0) / n - max 0 (clamp01 β - clamp01 α)) := by ring
  rw [e]
  refine le_trans (abs_add_le _ _) ?_
  have h2 : |((∑ k ∈ Finset.range n, if q k then (1 : ℝ) else 0) - (∑ k ∈ Finset.range n, if q' k then (1 : ℝ) else 0)) / n| ≤ (E.card : ℝ) / n := by
    rw [abs_div, abs_of_pos hn']
    exact div_le_div_of_nonneg_right hdiff hn'.le
  have e2 : (1 + (E.card : ℝ)) / n = (E.card : ℝ) / n + 1 / n := by ring
  rw [e2]
  exact add_le_add h2 h1

open MeasureTheory in
/-- the abstract bound with a per-column error `ε a`. -/
theorem sampled_error_percol (n : Nat) (hn : 0 < n) (A : ℝ) (L g h : ℝ → ℝ)
    (Q : Nat → Nat → Prop) [∀ a k, Decidable (Q a k)] (ε : Nat → ℝ)
    (hcolb : ∀ a : Nat, a < n →
      |(∑ k ∈ Finset.range n, if Q a k then (1 : ℝ) else 0) / n - L (A + ((a : ℝ) + 1/2) / n)| ≤ ε a)
    (hdec : ∀ x ∈ Set.Icc A (A + 1), L x = g x + h x)
    (hg : MonotoneOn g (Set.Icc A (A + 1))) (hh : AntitoneOn h (Set.Icc A (A + 1))) :
    |(∑ a ∈ Finset.range n, ∑ k ∈ Finset.range n, if Q a k then (1 : ℝ) else 0) / ((n : ℝ) * n)
      - ∫ x in A..(A + 1), L x| ≤
      (∑ a ∈ Finset.range n, ε a) / n + ((g (A + 1) - g A) + (h A - h (A + 1))) / (2 * n) := by
  have hn' : (0 : ℝ) < n := by exact_mod_cast hn
  have hstep1 : |(∑ a ∈ Finset.range n, ∑ k ∈ Finset.range n, if Q a k then (1 : ℝ) else 0) / ((n : ℝ) * n)
      - (∑ a ∈ Finset.range n, L (A + ((a : ℝ) + 1/2) / n)) / n| ≤ (∑ a ∈ Finset.range n, ε a) / n := by
    have e : (∑ a ∈ Finset.range n, ∑ k ∈ Finset.range n, if Q a k then (1 : ℝ) else 0) / ((n : ℝ) * n)
      - (∑ a ∈ Finset.range n, L (A + ((a : ℝ) + 1/2) / n)) / n =
      (∑ a ∈ Finset.range n, ((∑ k ∈ Finset.range n, if Q a k then (1 : ℝ) else 0) / n
        - L (A + ((a : ℝ) + 1/2) / n))) / n := by
      rw [Finset.sum_sub_distrib, sub_div, ← Finset.sum_div, div_div]
    rw [e, abs_div, abs_of_pos hn']
    apply div_le_div_of_nonneg_right _ hn'.le
    calc |∑ a ∈ Finset.range n, _| ≤ ∑ a ∈ Finset.range n, |_| := Finset.abs_sum_le_sum_abs _ _
      _ ≤ ∑ a ∈ Finset.range n, ε a := Finset.sum_le_sum (fun a ha => hcolb a (Finset.mem_range.mp ha))
  have hstep2 := midpoint_decomp n hn A L g h hdec hg hh
  calc |_ - ∫ x in A..(A + 1), L x|
      ≤ |_ - (∑ a ∈ Finset.range n, L (A + ((a : ℝ) + 1/2) / n)) / n| +
        |(∑ a ∈ Finset.range n, L (A + ((a : ℝ) + 1/2) / n)) / n - ∫ x in A..(A + 1), L x| := abs_sub_le _ _ _
    _ ≤ _ := add_le_add hstep1 hstep2

/-! ### finite intersections of open half-planes -/

/-- the open half-plane `0 < P·u + Q·v + R`. -/
structure HP where
  P : ℝ
  Q : ℝ
  R : ℝ

def HP.val (h : HP) (u v : ℝ) : ℝ := h.P * u + h.Q * v + h.R

/-- lower / upper end of the vertical slice of one half-plane at abscissa `u`, cut to the window
`(B − 1, B + 2)` around the pixel's ordinate range `(B, B + 1)`. -/
noncomputable def HP.lo (h : HP) (B u : ℝ) : ℝ :=
  if 0 < h.Q then -(h.P * u + h.R) / h.Q else if h.Q < 0 then B - 1 else if 0 < h.P * u + h.R then B - 1 else B + 2
noncomputable def HP.hi (h : HP) (B u : ℝ) : ℝ :=
  if 0 < h.Q then B + 2 else if h.Q < 0 then -(h.P * u + h.R) / h.Q else if 0 < h.P * u + h.R then B + 2 else B - 1

theorem HP.pos_iff (h : HP) (B u v : ℝ) (hv : B < v) (hv' : v < B + 1) :
    0 < h.val u v ↔ h.lo B u < v ∧ v < h.hi B u := by
  unfold HP.val HP.lo HP.hi
  by_cases h1 : 0 < h.Q
  · rw [if_pos h1, if_pos h1, div_lt_iff₀ h1]
    constructor
    · intro a; exact ⟨by linarith, by linarith⟩
    · rintro ⟨a, -⟩; linarith
  · rw [if_neg h1, if_neg h1]
    by_cases h2 : h.Q < 0
    · rw [if_pos h2, if_pos h2, lt_div_iff_of_neg h2]
      constructor
      · intro a; exact ⟨by linarith, by linarith⟩
      · rintro ⟨-, a⟩; linarith
    · rw [if_neg h2, if_neg h2]
      have hQ : h.Q = 0 := le_antisymm (not_lt.mp h1) (not_lt.mp h2)
      rw [hQ, zero_mul, add_zero]
      by_cases h3 : 0 < h.P * u + h.R
      · rw [if_pos h3, if_pos h3]
        exact ⟨fun _ => ⟨by linarith, by linarith⟩, fun _ => h3⟩
      · rw [if_neg h3, if_neg h3]
        exact ⟨fun a => absurd a h3, fun ⟨a, b⟩ => by linarith⟩

theorem HP.nonneg_imp (h : HP) (B u v : ℝ) (hv : B < v) (hv' : v < B + 1)
    (hnd : h.Q = 0 → h.P * u + h.R ≠ 0) (hval : 0 ≤ h.val u v) : h.lo B u ≤ v ∧ v ≤ h.hi B u := by
  unfold HP.val at hval
  unfold HP.lo HP.hi
  by_cases h1 : 0 < h.Q
  · rw [if_pos h1, if_pos h1, div_le_iff₀ h1]
    exact ⟨by linarith, by linarith⟩
  · rw [if_neg h1, if_neg h1]
    by_cases h2 : h.Q < 0
    · rw [if_pos h2, if_pos h2, le_div_iff_of_neg h2]
      exact ⟨by linarith, by linarith⟩
    · rw [if_neg h2, if_neg h2]
      have hQ : h.Q = 0 := le_antisymm (not_lt.mp h1) (not_lt.mp h2)
      rw [hQ, zero_mul, add_zero] at hval
      have h3 : 0 < h.P * u + h.R := lt_of_le_of_ne hval (Ne.symm (hnd hQ))
      rw [if_pos h3, if_pos h3]
      exact ⟨by linarith, by linarith⟩

/-- the open convex polygon (possibly unbounded) cut out by the half-planes `hs`. -/
def hpK (hs : List HP) (u v : ℝ) : Prop := ∀ h ∈ hs, 0 < h.val u v

noncomputable def hpLo (hs : List HP) (B u : ℝ) : ℝ := (hs.map fun h => h.lo B u).foldr max (B - 1)
noncomputable def hpHi (hs : List HP) (B u : ℝ) : ℝ := (hs.map fun h => h.hi B u).foldr min (B + 2)

theorem hpLo_lt_iff (hs : List HP) (B u v : ℝ) (hv : B < v) :
    hpLo hs B u < v ↔ ∀ h ∈ hs, h.lo B u < v := by
  unfold hpLo
  induction hs with
  | nil => simp; linarith
  | cons a l ih => simp only [List.map_cons, List.foldr_cons, max_lt_iff, ih, List.forall_mem_cons]

theorem lt_hpHi_iff (hs : List HP) (B u v : ℝ) (hv' : v < B + 1) :
    v < hpHi hs B u ↔ ∀ h ∈ hs, v < h.hi B u := by
  unfold hpHi
  induction hs with
  | nil => simp; linarith
  | cons a l ih => simp only [List.map_cons, List.foldr_cons, lt_min_iff, ih, List.forall_mem_cons]

theorem hpLo_le_iff (hs : List HP) (B u v : ℝ) (hv : B < v) :
    hpLo hs B u ≤ v ↔ ∀ h ∈ hs, h.lo B u ≤ v := by
  unfold hpLo
  induction hs with
  | nil => simp; linarith
  | cons a l ih => simp only [List.map_cons, List.foldr_cons, max_le_iff, ih, List.forall_mem_cons]

theorem le_hpHi_iff (hs : List HP) (B u v : ℝ) (hv' : v < B + 1) :
    v ≤ hpHi hs B u ↔ ∀ h ∈ hs, v ≤ h.hi B u := by
  unfold hpHi
  induction hs with
  | nil => simp; linarith
  | cons a l ih => simp only [List.map_cons, List.foldr_cons, le_min_iff, ih, List.forall_mem_cons]

theorem hpK_iff (hs : List HP) (B u v : ℝ) (hv : B < v) (hv' : v < B + 1) :
    hpK hs u v ↔ hpLo hs B u < v ∧ v < hpHi hs B u := by
  rw [hpLo_lt_iff hs B u v hv, lt_hpHi_iff hs B u v hv']
  unfold hpK
  constructor
  · intro hK
    exact ⟨fun h hh => ((h.pos_iff B u v hv hv').mp (hK h hh)).1, fun h hh => ((h.pos_iff B u v hv hv').mp (hK h hh)).2⟩
  · rintro ⟨a, b⟩ h hh
    exact (h.pos_iff B u v hv hv').mpr ⟨a h hh, b h hh⟩

theorem hp_closed (hs : List HP) (B u v : ℝ) (hv : B < v) (hv' : v < B + 1)
    (hnd : ∀ h ∈ hs, h.Q = 0 → h.P * u + h.R ≠ 0) (hval : ∀ h ∈ hs, 0 ≤ h.val u v) :
    hpLo hs B u ≤ v ∧ v ≤ hpHi hs B u := by
  rw [hpLo_le_iff hs B u v hv, le_hpHi_iff hs B u v hv']
  exact ⟨fun h hh => (h.nonneg_imp B u v hv hv' (hnd h hh) (hval h hh)).1,
    fun h hh => (h.nonneg_imp B u v hv hv' (hnd h hh) (hval h hh)).2⟩

theorem hpK_convex (hs : List HP) (x z v w θ : ℝ) (hθ0 : 0 ≤ θ) (hθ1 : θ ≤ 1)
    (h1 : hpK hs x v) (h2 : hpK hs z w) : hpK hs (θ * x + (1 - θ) * z) (θ * v + (1 - θ) * w) := by
  intro h hh
  have a := h1 h hh
  have b := h2 h hh
  unfold HP.val at a b ⊢
  have e : h.P * (θ * x + (1 - θ) * z) + h.Q * (θ * v + (1 - θ) * w) + h.R =
      θ * (h.P * x + h.Q * v + h.R) + (1 - θ) * (h.P * z + h.Q * w + h.R) := by ring
  rw [e]
  rcases le_total θ (1 / 2) with c | c
  · have hp : 0 < 1 - θ := by linarith
    nlinarith [mul_nonneg hθ0 a.le, mul_pos hp b]
  · have hp : 0 < θ := by linarith
    nlinarith [mul_pos hp a, mul_nonneg (by linarith : 0 ≤ 1 - θ) b.le]

/-- length of (slice of the polygon at `u`) ∩ `[B, B+1]`. -/
noncomputable def hpLen (hs : List HP) (B u : ℝ) : ℝ :=
  max 0 (min (hpHi hs B u) (B + 1) - max (hpLo hs B u) B)

theorem hpLen_nonneg (hs : List HP) (B u : ℝ) : 0 ≤ hpLen hs B u := le_max_left _ _
theorem hpLen_le_one (hs : List HP) (B u : ℝ) : hpLen hs B u ≤ 1 := by
  unfold hpLen
  apply max_le zero_le_one
  linarith [min_le_right (hpHi hs B u) (B + 1), le_max_right (hpLo hs B u) B]

theorem hpLen_quasiconcave (hs : List HP) (B x y z : ℝ) (hxy : x ≤ y) (hyz : y ≤ z) :
    min (hpLen hs B x) (hpLen hs B z) ≤ hpLen hs B y := by
  rcases eq_or_lt_of_le (le_trans hxy hyz) with hxz | hxz
  · have : y = x := le_antisymm (by linarith) hxy
    rw [this]; exact min_le_left _ _
  · have hθ : y = ((z - y) / (z - x)) * x + (1 - (z - y) / (z - x)) * z := by
      have : z - x ≠ 0 := by linarith
      field_simp; ring
    rw [hθ]
    exact convex_slice_quasiconcave (hpK hs) B (hpLo hs B) (hpHi hs B)
      (fun x z v w θ h0 h1 k1 k2 => hpK_convex hs x z v w θ h0 h1 k1 k2)
      (fun u v hv hv' => hpK_iff hs B u v hv hv') x z _
      (div_nonneg (by linarith) (by linarith)) (by rw [div_le_one (by linarith)]; linarith)

/-! ### exceptional lines, exceptional columns -/

theorem count_in_finset_off (n : Nat) (hn : 0 < n) (A : ℝ) (E : Finset ℝ) :
    (∑ k ∈ Finset.range n, if A + ((k : ℝ) + 1/2) / n ∈ E then (1 : ℝ) else 0) ≤ E.card := by
  rw [← Finset.sum_filter, Finset.sum_const, nsmul_eq_mul, mul_one]
  have : ((Finset.range n).filter fun k : Nat => A + ((k : ℝ) + 1/2) / n ∈ E).card ≤ E.card := by
    apply Finset.card_le_card_of_injOn (fun k : Nat => A + ((k : ℝ) + 1/2) / n)
    · intro k hk
      exact (Finset.mem_filter.mp hk).2
    · intro k _ l _ h
      exact sample_inj n hn k l (by simpa using h)
  exact_mod_cast this

/-- the ordinates (relative to `B`) at which the column `u` meets the non-vertical lines of `fs`. -/
noncomputable def lineHits (fs : List HP) (B u : ℝ) : Finset ℝ :=
  ((fs.filter fun f => f.Q ≠ 0).map fun f => -(f.P * u + f.R) / f.Q - B).toFinset

theorem lineHits_card (fs : List HP) (B u : ℝ) : (lineHits fs B u).card ≤ fs.length := by
  unfold lineHits
  calc _ ≤ ((fs.filter fun f => f.Q ≠ 0).map fun f => -(f.P * u + f.R) / f.Q - B).length := List.toFinset_card_le _
    _ = (fs.filter fun f => f.Q ≠ 0).length := List.length_map _
    _ ≤ fs.length := List.length_filter_le _ _

theorem off_lineHits (fs : List HP) (B u t : ℝ) (hnd : ∀ f ∈ fs, f.Q = 0 → f.P * u + f.R ≠ 0)
    (ht : t ∉ lineHits fs B u) : ∀ f ∈ fs, f.val u (B + t) ≠ 0 := by
  intro f hf h0
  unfold HP.val at h0
  by_cases hQ : f.Q = 0
  · apply hnd f hf hQ
    rw [hQ, zero_mul, add_zero] at h0
    exact h0
  · apply ht
    unfold lineHits
    rw [List.mem_toFinset, List.mem_map]
    refine ⟨f, List.mem_filter.mpr ⟨hf, by simpa using hQ⟩, ?_⟩
    field_simp
    linarith

open MeasureTheory in
/-- **convergence for a finite intersection of open half-planes whose membership test is unknown
on finitely many lines `fs` and on the boundary.**  `Q a k` is the test at the sample `(a, k)` of
the pixel `[A, A+1] × [B, B+1]`: it holds on the open polygon off the lines `fs`, and implies the
closed polygon.  `Bd` = abscissae at which a half-plane's or a line's vertical-line degenerate
case occurs.  Error `≤ (2 + #fs + #Bd) / n`. -/
theorem hp_sampled_error (hs fs : List HP) (Bd : Finset ℝ) (A B : ℝ) (n : Nat) (hn : 0 < n)
    (Q : Nat → Nat → Prop) [∀ a k, Decidable (Q a k)]
    (hin : ∀ a k : Nat, a < n → k < n → hpK hs (A + ((a : ℝ) + 1/2) / n) (B + ((k : ℝ) + 1/2) / n) →
      (∀ f ∈ fs, f.val (A + ((a : ℝ) + 1/2) / n) (B + ((k : ℝ) + 1/2) / n) ≠ 0) → Q a k)
    (hout : ∀ a k : Nat, a < n → k < n → Q a k →
      ∀ h ∈ hs, 0 ≤ h.val (A + ((a : ℝ) + 1/2) / n) (B + ((k : ℝ) + 1/2) / n))
    (hBd : ∀ u : ℝ, u ∉ Bd → (∀ h ∈ hs, h.Q = 0 → h.P * u + h.R ≠ 0) ∧ (∀ f ∈ fs, f.Q = 0 → f.P * u + f.R ≠ 0)) :
    |(∑ a ∈ Finset.range n, ∑ k ∈ Finset.range n, if Q a k then (1 : ℝ) else 0) / ((n : ℝ) * n)
      - ∫ x in A..(A + 1), hpLen hs B x| ≤ (2 + fs.length + Bd.card) / n := by
  have hn' : (0 : ℝ) < n := by exact_mod_cast hn
  have tk : ∀ k : Nat, k < n → 0 < ((k : ℝ) + 1/2) / n ∧ ((k : ℝ) + 1/2) / n < 1 := by
    intro k hk
    constructor
    · positivity
    · rw [div_lt_one hn']
      have : (k : ℝ) + 1 ≤ n := by exact_mod_cast hk
      linarith
  classical
  obtain ⟨g, h, hdec, hg, hh, vg, vh⟩ := quasiconcave_decomp A (hpLen hs B)
    (fun x _ => hpLen_nonneg hs B x) (fun x _ => hpLen_le_one hs B x)
    (fun x _ y _ z _ hxy hyz => hpLen_quasiconcave hs B x y z hxy hyz)
  set ε : Nat → ℝ := fun a => (1 + (fs.length : ℝ)) / n + if A + ((a : ℝ) + 1/2) / n ∈ Bd then (1 : ℝ) else 0 with hε
  have key := sampled_error_percol n hn A (hpLen hs B) g h (fun a k => k < n ∧ Q a k) ε
    (by
      intro a ha
      set u := A + ((a : ℝ) + 1/2) / n with hu
      by_cases hb : u ∈ Bd
      · -- exceptional column: both numbers are in [0, 1]
        have hc0 : 0 ≤ (∑ k ∈ Finset.range n, if (k < n ∧ Q a k) then (1 : ℝ) else 0) / n := by
          apply div_nonneg _ hn'.le
          apply Finset.sum_nonneg; intro k _; split_ifs <;> norm_num
        have hc1 : (∑ k ∈ Finset.range n, if (k < n ∧ Q a k) then (1 : ℝ) else 0) / n ≤ 1 := by
          rw [div_le_one hn']
          calc _ ≤ ∑ k ∈ Finset.range n, (1 : ℝ) := by
                apply Finset.sum_le_sum; intro k _; split_ifs <;> norm_num
            _ = n := by simp
        have := hpLen_nonneg hs B u
        have := hpLen_le_one hs B u
        have hε1 : 1 ≤ ε a := by
          rw [hε]; simp only [← hu, if_pos hb]
          have : 0 ≤ (1 + (fs.length : ℝ)) / n := by positivity
          linarith
        rw [abs_le]; constructor <;> linarith
      · obtain ⟨hnd1, hnd2⟩ := hBd u hb
        have hcol := col_count_exc n hn (max (hpLo hs B u - B) 0) (min (hpHi hs B u - B) 1)
          (lineHits fs B u) (fun k => k < n ∧ Q a k)
          (by
            intro k h1 h2 hE
            have t0 : 0 < ((k : ℝ) + 1/2) / n := lt_of_le_of_lt (le_max_right _ _) h1
            have t1 : ((k : ℝ) + 1/2) / n < 1 := lt_of_lt_of_le h2 (min_le_right _ _)
            have hk : k < n := by
              rw [div_lt_one hn'] at t1
              have : (k : ℝ) < n := by linarith
              exact_mod_cast this
            refine ⟨hk, hin a k ha hk ?_ (off_lineHits fs B u _ hnd2 hE)⟩
            rw [hpK_iff hs B _ _ (by linarith) (by linarith)]
            constructor
            · have := lt_of_le_of_lt (le_max_left _ _) h1; linarith
            · have := lt_of_lt_of_le h2 (min_le_left _ _); linarith)
          (by
            rintro k ⟨hk, hQ⟩ -
            obtain ⟨t0, t1⟩ := tk k hk
            have := hp_closed hs B u (B + ((k : ℝ) + 1/2) / n) (by linarith) (by linarith) hnd1 (hout a k ha hk hQ)
            constructor
            · apply max_le <;> linarith [this.1]
            · apply le_min <;> linarith [this.2])
        have hL : hpLen hs B u = max 0 (clamp01 (min (hpHi hs B u - B) 1) - clamp01 (max (hpLo hs B u - B) 0)) := by
          unfold hpLen
          rw [← pixLen_eq]
          have e1 : ∀ x : ℝ, clamp01 (min x 1) = clamp01 x := by
            intro x; unfold clamp01; simp only [max_def, min_def]; split_ifs <;> linarith
          have e2 : ∀ x : ℝ, clamp01 (max x 0) = clamp01 x := by
            intro x; unfold clamp01; simp only [max_def, min_def]; split_ifs <;> linarith
          rw [e1, e2]
        rw [hL]
        refine le_trans hcol ?_
        rw [hε]; simp only [← hu, if_neg hb, add_zero]
        apply div_le_div_of_nonneg_right _ hn'.le
        have := lineHits_card fs B u
        have : ((lineHits fs B u).card : ℝ) ≤ fs.length := by exact_mod_cast this
        linarith)
    hdec hg hh
  have hsum : (∑ a ∈ Finset.range n, ∑ k ∈ Finset.range n, if Q a k then (1 : ℝ) else 0) =
      ∑ a ∈ Finset.range n, ∑ k ∈ Finset.range n, if (k < n ∧ Q a k) then (1 : ℝ) else 0 := by
    apply Finset.sum_congr rfl; intro a _
    apply Finset.sum_congr rfl; intro k hk
    have hk' := Finset.mem_range.mp hk
    simp only [hk', true_and]
  rw [hsum]
  refine le_trans key ?_
  have hεsum : (∑ a ∈ Finset.range n, ε a) ≤ (1 + (fs.length : ℝ)) + Bd.card := by
    rw [hε, Finset.sum_add_distrib]
    apply add_le_add
    · rw [Finset.sum_const, Finset.card_range, nsmul_eq_mul]
      field_simp
      exact le_refl _
    · exact count_in_finset_off n hn A Bd
  have hvar : ((g (A + 1) - g A) + (h A - h (A + 1))) / (2 * n) ≤ 1 / n := by
    rw [div_le_div_iff₀ (by positivity) hn']
    nlinarith
  have e : (2 + (fs.length : ℝ) + Bd.card) / n = ((1 + (fs.length : ℝ)) + Bd.card) / n + 1 / n := by ring
  rw [e]
  exact add_le_add (div_le_div_of_nonneg_right hεsum hn'.le) hvar

/-! ### strictly convex polygons -/

/-- the half-plane `0 < orient a b ·` (left of the directed line `a → b`), real coefficients. -/
def edgeHP (a b : Pt ℚ) : HP :=
  ⟨-((b.y : ℝ) - a.y), (b.x : ℝ) - a.x, -((b.x : ℝ) - a.x) * a.y + ((b.y : ℝ) - a.y) * a.x⟩

theorem orient_cast (a b p : Pt ℚ) : ((orient a b p : ℚ) : ℝ) = (edgeHP a b).val p.x p.y := by
  unfold orient edgeHP HP.val
  push_cast
  ring

/-- the edges of the polygon as half-planes. -/
def polyHPs (vs : List (Pt ℚ)) : List HP := (cyclicPairs vs).map fun e => edgeHP e.2 e.1
/-- the fan DIAGONALS from the first vertex (the lines to the two neighbours are edges). -/
def fanHPs : List (Pt ℚ) → List HP
  | v0 :: _ :: rest2 => rest2.dropLast.map fun w => edgeHP v0 w
  | _ => []

theorem fanHPs_length (vs : List (Pt ℚ)) (h3 : 3 ≤ vs.length) : (fanHPs vs).length + 3 = vs.length := by
  match vs, h3 with
  | v0 :: v1 :: v2 :: R, _ => simp [fanHPs]

theorem orient_swap (a b p : Pt ℚ) : orient a b p = -orient b a p := by unfold orient; ring

theorem orient_self_left (a c : Pt ℚ) : orient a a c = 0 := by unfold orient; ring
theorem orient_self_right' (a c : Pt ℚ) : orient a c a = 0 := by unfold orient; ring
theorem orient_self_end' (a b : Pt ℚ) : orient a b b = 0 := by unfold orient; ring

/-- a strictly convex polygon with at least three vertices has pairwise distinct vertices. -/
theorem convexCCW_nodup (a : Pt ℚ) (l : List (Pt ℚ)) (h : ConvexCCW (a :: l)) (h2 : 2 ≤ l.length) :
    (a :: l).Nodup := by
  obtain ⟨hp, -⟩ := h
  rw [List.nodup_cons]
  constructor
  · intro ha
    obtain ⟨l1, l2, rfl⟩ := List.append_of_mem ha
    rw [List.pairwise_append] at hp
    obtain ⟨-, hp2, hp3⟩ := hp
    cases l2 with
    | cons c l2' =>
      have := (List.pairwise_cons.mp hp2).1 c (by simp)
      rw [orient_self_left] at this
      exact lt_irrefl _ this
    | nil =>
      cases l1 with
      | nil => simp at h2
      | cons c l1' =>
        have := hp3 c (by simp) a (by simp)
        rw [orient_self_right'] at this
        exact lt_irrefl _ this
  · apply hp.imp_of_mem
    intro b c _ _ hbc e
    rw [e, orient_self_end'] at hbc
    exact lt_irrefl _ hbc

theorem pairsAux_mem {β : Type} (prev : β) (L : List β) : ∀ e ∈ pairsAux prev L, e.1 ∈ L ∧ e.2 ∈ prev :: L := by
  induction L generalizing prev with
  | nil => intro e he; simp [pairsAux] at he
  | cons x xs ih =>
    intro e he
    simp only [pairsAux, List.mem_cons] at he
    rcases he with rfl | he
    · simp
    · obtain ⟨h1, h2⟩ := ih x e he
      exact ⟨by simp [h1], by simp only [List.mem_cons] at h2 ⊢; tauto⟩

/-- the edges of a strictly convex polygon join two distinct vertices. -/
theorem cyclicPairs_distinct (vs : List (Pt ℚ)) (h3 : 3 ≤ vs.length) (hc : ConvexCCW vs) :
    ∀ e ∈ cyclicPairs vs, e.1 ∈ vs ∧ e.2 ∈ vs ∧ e.1 ≠ e.2 := by
  match vs, h3 with
  | v0 :: v1 :: v2 :: R, _ =>
    have hnd := convexCCW_nodup v0 (v1 :: v2 :: R) hc (by simp)
    have hlst : (v0 :: v1 :: v2 :: R).getLast? = some ((v2 :: R).getLast (by simp)) := by
      simp [List.getLast?_eq_some_getLast]
    set lst' := (v2 :: R).getLast (by simp) with hlst'
    have hmem : lst' ∈ v1 :: v2 :: R := by
      have : lst' ∈ v2 :: R := List.getLast_mem _
      exact List.mem_cons_of_mem _ this
    rw [cyclicPairs_eq _ lst' hlst]
    intro e he
    simp only [pairsAux, List.mem_cons] at he
    rcases he with rfl | he
    · refine ⟨by simp, List.mem_cons_of_mem _ hmem, ?_⟩
      intro e0
      have e0' : v0 = lst' := e0
      exact (List.nodup_cons.mp hnd).1 (by rw [e0']; exact hmem)
    · have hm := pairsAux_mem v0 (v1 :: v2 :: R) e (by simpa [pairsAux] using he)
      refine ⟨List.mem_cons_of_mem _ hm.1, hm.2, ?_⟩
      have := pairsAux_pairwise (fun x y : Pt ℚ => x ≠ y) v0 (v1 :: v2 :: R) hnd e (by simpa [pairsAux] using he)
      exact fun e0 => this e0.symm

/-- the vertical edges. -/
def vertEdges (vs : List (Pt ℚ)) : List (Pt ℚ × Pt ℚ) := (cyclicPairs vs).filter fun e => e.1.x = e.2.x

/-- the exceptional columns: through the first vertex (a fan diagonal may be vertical) or along a
vertical edge. -/
noncomputable def badXs (vs : List (Pt ℚ)) : Finset ℝ :=
  match vs with
  | [] => ∅
  | v0 :: _ => insert (v0.x : ℝ) ((vertEdges vs).map fun e => (e.2.x : ℝ)).toFinset

theorem badXs_card (vs : List (Pt ℚ)) : (badXs vs).card ≤ 1 + (vertEdges vs).length := by
  cases vs with
  | nil => simp [badXs]
  | cons v0 l =>
    unfold badXs
    calc _ ≤ (((vertEdges (v0 :: l)).map fun e => (e.2.x : ℝ)).toFinset).card + 1 := Finset.card_insert_le _ _
      _ ≤ ((vertEdges (v0 :: l)).map fun e => (e.2.x : ℝ)).length + 1 := Nat.add_le_add_right (List.toFinset_card_le _) 1
      _ = 1 + (vertEdges (v0 :: l)).length := by rw [List.length_map]; ring

theorem edgeHP_nondeg (a b : Pt ℚ) (hab : a ≠ b) (u : ℝ) (hu : u ≠ (a.x : ℝ))
    (hQ : (edgeHP a b).Q = 0) : (edgeHP a b).P * u + (edgeHP a b).R ≠ 0 := by
  unfold edgeHP at hQ ⊢
  simp only at hQ ⊢
  have hx : (b.x : ℝ) = a.x := by linarith
  have hy : (b.y : ℝ) ≠ a.y := by
    intro hy
    apply hab
    have h1 : b.x = a.x := by exact_mod_cast hx
    have h2 : b.y = a.y := by exact_mod_cast hy
    cases a; cases b; simp_all
  have e : -((b.y : ℝ) - a.y) * u + (-((b.x : ℝ) - a.x) * a.y + ((b.y : ℝ) - a.y) * a.x) =
      -((b.y : ℝ) - a.y) * (u - a.x) := by rw [hx]; ring
  rw [e]
  exact mul_ne_zero (neg_ne_zero.mpr (sub_ne_zero.mpr hy)) (sub_ne_zero.mpr hu)

/-- exact area of (pixel `(j, i)` ∩ open polygon) as the integral of the slice lengths. -/
noncomputable def polyPixelArea (g : Polygon ℚ) (b : BBox) (j i : Nat) : ℝ :=
  ∫ x in ((b.ixmin : ℝ) + i - 1/2)..((b.ixmin : ℝ) + i - 1/2 + 1),
    hpLen (polyHPs g.vertices) ((b.iymin : ℝ) + j - 1/2) x

/-- **convergence of the 'subpixels' mask of a strictly convex polygon** with `k` vertices (listed
counter-clockwise), `V` of whose edges are vertical: the sampled even-odd fraction differs from the
exact area of (unit pixel ∩ open polygon) by at most `(k + V) / n`.  [`1/n`: midpoint rule for the
quasi-concave slice length; `(k − 2)/n`: one column = its two end points + the `k − 3` fan diagonals
from the first vertex, on which the even-odd answer is not known (`C01.pnpoly_convex`); `(1 + V)/n`:
the columns through the first vertex or along a vertical edge, where a whole column is unknown.] -/
theorem polygon_subpixel_error_convex (g : Polygon ℚ) (h3 : 3 ≤ g.vertices.length) (hc : ConvexCCW g.vertices)
    (b : BBox) (n j i : Nat) (hn : 0 < n) :
    |((sampledFrac (fun x y => g.inRaw ⟨x, y⟩) b n j i : ℚ) : ℝ) - polyPixelArea g b j i| ≤
      ((g.vertices.length : ℝ) + (vertEdges g.vertices).length) / n := by
  have hn' : (0 : ℝ) < n := by exact_mod_cast hn
  rw [sampledFrac_cast]
  unfold polyPixelArea
  set A := (b.ixmin : ℝ) + i - 1/2 with hA
  set B := (b.iymin : ℝ) + j - 1/2 with hB
  have hx : ∀ a : Nat, (((b.ixmin : ℚ) + i - 1/2 + ((a : ℚ) + 1/2) / n : ℚ) : ℝ) = A + ((a : ℝ) + 1/2) / n := by
    intro a; rw [hA]; push_cast; ring
  have hy : ∀ k : Nat, (((b.iymin : ℚ) + j - 1/2 + ((k : ℚ) + 1/2) / n : ℚ) : ℝ) = B + ((k : ℝ) + 1/2) / n := by
    intro k; rw [hB]; push_cast; ring
  have hdist := cyclicPairs_distinct g.vertices h3 hc
  have hfl := fanHPs_length g.vertices h3
  have hbc := badXs_card g.vertices
  obtain ⟨v0, v1, v2, R, hv⟩ : ∃ v0 v1 v2 R, g.vertices = v0 :: v1 :: v2 :: R := by
    match hg : g.vertices, h3 with
    | v0 :: v1 :: v2 :: R, _ => exact ⟨v0, v1, v2, R, rfl⟩
  have hin' : Polygon.inRaw g = pnpoly (v0 :: v1 :: v2 :: R) := by
    funext p; unfold Polygon.inRaw; rw [hv]
  rw [hv] at hc hdist hfl hbc h3 ⊢
  set vl := (v2 :: R).getLast (by simp) with hvl
  have hsplit : v2 :: R = (v2 :: R).dropLast ++ [vl] := (List.dropLast_append_getLast (by simp)).symm
  have hlast : (v0 :: v1 :: v2 :: R).getLast? = some vl := by
    simp [List.getLast?_eq_some_getLast, hvl]
  have hcp : cyclicPairs (v0 :: v1 :: v2 :: R) = (v0, vl) :: (v1, v0) :: pairsAux v1 (v2 :: R) := by
    rw [cyclicPairs_eq _ vl hlast]; rfl
  have hnd := convexCCW_nodup v0 (v1 :: v2 :: R) hc (by simp)
  have key := hp_sampled_error (polyHPs (v0 :: v1 :: v2 :: R)) (fanHPs (v0 :: v1 :: v2 :: R))
    (badXs (v0 :: v1 :: v2 :: R)) A B n hn
    (fun a k => g.inRaw ⟨(b.ixmin : ℚ) + i - 1/2 + ((a : ℚ) + 1/2) / n, (b.iymin : ℚ) + j - 1/2 + ((k : ℚ) + 1/2) / n⟩ = true)
    (by
      intro a k _ _ hK hoff
      set p : Pt ℚ := ⟨(b.ixmin : ℚ) + i - 1/2 + ((a : ℚ) + 1/2) / n, (b.iymin : ℚ) + j - 1/2 + ((k : ℚ) + 1/2) / n⟩ with hp
      have hpx : (p.x : ℝ) = A + ((a : ℝ) + 1/2) / n := hx a
      have hpy : (p.y : ℝ) = B + ((k : ℝ) + 1/2) / n := hy k
      rw [← hpx, ← hpy] at hK hoff
      have hin : polyInside (v0 :: v1 :: v2 :: R) p := by
        intro e he
        have := hK (edgeHP e.2 e.1) (List.mem_map.mpr ⟨e, he, rfl⟩)
        rw [← orient_cast] at this
        exact_mod_cast this
      have hof : offFan (v0 :: v1 :: v2 :: R) p := by
        intro v hv'
        rcases List.mem_cons.mp hv' with rfl | hv'
        · have := hin (v, v0) (by rw [hcp]; simp)
          exact ne_of_gt this
        · rw [hsplit] at hv'
          rcases List.mem_append.mp hv' with hm | hm
          · have := hoff (edgeHP v0 v) (show edgeHP v0 v ∈ (v2 :: R).dropLast.map (fun w => edgeHP v0 w) from
              List.mem_map.mpr ⟨v, hm, rfl⟩)
            rw [← orient_cast] at this
            exact_mod_cast this
          · rw [List.mem_singleton] at hm
            have := hin (v0, vl) (by rw [hcp]; simp)
            rw [hm, orient_swap]
            exact ne_of_lt (neg_neg_of_pos this)
      rw [hin']
      exact (pnpoly_convex _ p h3 hc).1 ⟨hin, hof⟩)
    (by
      intro a k _ _ hQ h hh
      set p : Pt ℚ := ⟨(b.ixmin : ℚ) + i - 1/2 + ((a : ℚ) + 1/2) / n, (b.iymin : ℚ) + j - 1/2 + ((k : ℚ) + 1/2) / n⟩ with hp
      have hpx : (p.x : ℝ) = A + ((a : ℝ) + 1/2) / n := hx a
      have hpy : (p.y : ℝ) = B + ((k : ℝ) + 1/2) / n := hy k
      obtain ⟨e, he, rfl⟩ := List.mem_map.mp hh
      rw [← hpx, ← hpy, ← orient_cast]
      by_contra hneg
      have hneg' : orient e.2 e.1 p < 0 := by
        have : ((orient e.2 e.1 p : ℚ) : ℝ) < 0 := not_le.mp hneg
        exact_mod_cast this
      have hfalse := (pnpoly_convex _ p h3 hc).2 ⟨e, he, hneg'⟩
      have hQ' : pnpoly (v0 :: v1 :: v2 :: R) p = true := by rw [← hin']; exact hQ
      rw [hfalse] at hQ'
      exact Bool.false_ne_true hQ')
    (by
      intro u hu
      have hu0 : u ≠ (v0.x : ℝ) := by
        intro e; apply hu; unfold badXs; rw [e]; exact Finset.mem_insert_self _ _
      constructor
      · intro h hh hQ
        obtain ⟨e, he, rfl⟩ := List.mem_map.mp hh
        obtain ⟨h1, h2, hne⟩ := hdist e he
        refine edgeHP_nondeg e.2 e.1 (Ne.symm hne) u ?_ hQ
        intro eu
        apply hu
        unfold badXs
        apply Finset.mem_insert_of_mem
        rw [List.mem_toFinset, List.mem_map]
        refine ⟨e, ?_, eu.symm⟩
        unfold vertEdges
        rw [List.mem_filter]
        refine ⟨he, ?_⟩
        have hq : ((e.1.x : ℝ) - e.2.x) = 0 := hQ
        have : (e.1.x : ℝ) = e.2.x := by linarith
        have : e.1.x = e.2.x := by exact_mod_cast this
        simpa using this
      · intro f hf hQ
        obtain ⟨w, hw, rfl⟩ := List.mem_map.mp (show f ∈ (v2 :: R).dropLast.map (fun w => edgeHP v0 w) from hf)
        have hw' : w ∈ v1 :: v2 :: R := List.mem_cons_of_mem _ (List.dropLast_subset _ hw)
        have hne : v0 ≠ w := by
          intro e0
          exact (List.nodup_cons.mp hnd).1 (by rw [e0]; exact hw')
        exact edgeHP_nondeg v0 w hne u hu0 hQ)
  refine le_trans key ?_
  apply div_le_div_of_nonneg_right _ hn'.le
  have h1 : ((fanHPs (v0 :: v1 :: v2 :: R)).length : ℝ) + 3 = (v0 :: v1 :: v2 :: R).length := by exact_mod_cast hfl
  have h2 : ((badXs (v0 :: v1 :: v2 :: R)).card : ℝ) ≤ 1 + (vertEdges (v0 :: v1 :: v2 :: R)).length := by exact_mod_cast hbc
  linarith

/-- in particular `≤ 2k / n` (a strictly convex polygon has in fact at most two vertical edges:
`(k + 2) / n`; not proved here). -/
theorem polygon_subpixel_error_convex_crude (g : Polygon ℚ) (h3 : 3 ≤ g.vertices.length) (hc : ConvexCCW g.vertices)
    (b : BBox) (n j i : Nat) (hn : 0 < n) :
    |((sampledFrac (fun x y => g.inRaw ⟨x, y⟩) b n j i : ℚ) : ℝ) - polyPixelArea g b j i| ≤
      2 * (g.vertices.length : ℝ) / n := by
  have hn' : (0 : ℝ) < n := by exact_mod_cast hn
  refine le_trans (polygon_subpixel_error_convex g h3 hc b n j i hn) ?_
  apply div_le_div_of_nonneg_right _ hn'.le
  have h1 : (vertEdges g.vertices).length ≤ (cyclicPairs g.vertices).length := List.length_filter_le _ _
  have h2 : (cyclicPairs g.vertices).length ≤ g.vertices.length := by
    unfold cyclicPairs
    cases g.vertices.getLast? with
    | none => simp
    | some l => simp only [List.length_zip]; exact Nat.min_le_left _ _
  have : ((vertEdges g.vertices).length : ℝ) ≤ g.vertices.length := by exact_mod_cast le_trans h1 h2
  linarith

/-- the 'subpixels' mask cell of a strictly convex polygon converges to the exact overlap area. -/
theorem polygon_mask_converges_convex (g : Polygon ℚ) (mode : MaskMode) (n : Nat) (hmode : subpixOf mode = some n)
    (hn : 0 < n) (m : GenMask) (h : polygonToMask g mode = .ok m)
    (h3 : 3 ≤ g.vertices.length) (hc : ConvexCCW g.vertices)
    (j i : Nat) (hi : (i : Int) < m.bbox.shape.2) (hj : (j : Int) < m.bbox.shape.1) :
    |((m.cell j i : ℚ) : ℝ) - polyPixelArea g m.bbox j i| ≤
      ((g.vertices.length : ℝ) + (vertEdges g.vertices).length) / n := by
  rw [(polygon_mask_spec g mode n hmode m h).2 j i hi hj]
  exact polygon_subpixel_error_convex g h3 hc m.bbox n j i hn

/-! ### `polyPixelArea` is the Lebesgue measure of (pixel ∩ open polygon) -/

theorem measurable_HP_lo (h : HP) (B : ℝ) : Measurable (h.lo B) := by
  unfold HP.lo
  by_cases h1 : 0 < h.Q
  · simp only [if_pos h1]; fun_prop
  · by_cases h2 : h.Q < 0
    · simp only [if_neg h1, if_pos h2]; fun_prop
    · simp only [if_neg h1, if_neg h2]
      exact Measurable.ite (measurableSet_lt measurable_const (by fun_prop)) measurable_const measurable_const

theorem measurable_HP_hi (h : HP) (B : ℝ) : Measurable (h.hi B) := by
  unfold HP.hi
  by_cases h1 : 0 < h.Q
  · simp only [if_pos h1]; fun_prop
  · by_cases h2 : h.Q < 0
    · simp only [if_neg h1, if_pos h2]; fun_prop
    · simp only [if_neg h1, if_neg h2]
      exact Measurable.ite (measurableSet_lt measurable_const (by fun_prop)) measurable_const measurable_const

theorem measurable_hpLo (hs : List HP) (B : ℝ) : Measurable (hpLo hs B) := by
  unfold hpLo
  induction hs with
  | nil => simp only [List.map_nil, List.foldr_nil]; exact measurable_const
  | cons a l ih =>
    simp only [List.map_cons, List.foldr_cons]
    exact (measurable_HP_lo a B).max ih

theorem measurable_hpHi (hs : List HP) (B : ℝ) : Measurable (hpHi hs B) := by
  unfold hpHi
  induction hs with
  | nil => simp only [List.map_nil, List.foldr_nil]; exact measurable_const
  | cons a l ih =>
    simp only [List.map_cons, List.foldr_cons]
    exact (measurable_HP_hi a B).min ih

open MeasureTheory in
theorem hp_pixel_volume (hs : List HP) (A B : ℝ) :
    volume {p : ℝ × ℝ | p.1 ∈ Set.Icc A (A + 1) ∧ B < p.2 ∧ p.2 < B + 1 ∧ hpK hs p.1 p.2} =
      ENNReal.ofReal (∫ x in A..(A + 1), hpLen hs B x) := by
  set f : ℝ → ℝ := fun x => B + clamp01 (hpLo hs B x - B) with hf
  set g : ℝ → ℝ := fun x => max (f x) (B + clamp01 (hpHi hs B x - B)) with hg
  have mlo := measurable_hpLo hs B
  have mhi := measurable_hpHi hs B
  have mc : Measurable clamp01 := by unfold clamp01; fun_prop
  have mf : Measurable f := measurable_const.add (mc.comp (mlo.sub measurable_const))
  have mg : Measurable g := mf.max (measurable_const.add (mc.comp (mhi.sub measurable_const)))
  have bf : ∀ x, ‖f x‖ ≤ |B| + 1 := by
    intro x
    rw [Real.norm_eq_abs]
    have h0 := clamp01_nonneg (hpLo hs B x - B)
    have h1 := clamp01_le_one (hpLo hs B x - B)
    calc |f x| ≤ |B| + |clamp01 (hpLo hs B x - B)| := abs_add_le _ _
      _ ≤ |B| + 1 := by rw [abs_of_nonneg h0]; linarith
  have bg : ∀ x, ‖g x‖ ≤ |B| + 1 := by
    intro x
    rw [Real.norm_eq_abs, abs_le]
    have h0 := clamp01_nonneg (hpLo hs B x - B)
    have h1 := clamp01_le_one (hpLo hs B x - B)
    have h2 := clamp01_nonneg (hpHi hs B x - B)
    have h3 := clamp01_le_one (hpHi hs B x - B)
    have hB := neg_abs_le B
    have hB' := le_abs_self B
    have ef : f x = B + clamp01 (hpLo hs B x - B) := rfl
    constructor
    · have : f x ≤ g x := le_max_left _ _
      linarith
    · apply max_le <;> linarith
  have fin : volume (Set.Icc A (A + 1)) ≠ ⊤ := by rw [Real.volume_Icc]; exact ENNReal.ofReal_ne_top
  have i_f : IntegrableOn f (Set.Icc A (A + 1)) volume :=
    Measure.integrableOn_of_bounded fin mf.aestronglyMeasurable (Filter.Eventually.of_forall bf)
  have i_g : IntegrableOn g (Set.Icc A (A + 1)) volume :=
    Measure.integrableOn_of_bounded fin mg.aestronglyMeasurable (Filter.Eventually.of_forall bg)
  have hset : {p : ℝ × ℝ | p.1 ∈ Set.Icc A (A + 1) ∧ B < p.2 ∧ p.2 < B + 1 ∧ hpK hs p.1 p.2} =
      regionBetween f g (Set.Icc A (A + 1)) := by
    ext p
    simp only [regionBetween, Set.mem_ofPred_eq, Set.mem_Ioo, hg, lt_max_iff, hf]
    rw [lt_add_clamp01, add_clamp01_gt B (hpLo hs B p.1), add_clamp01_gt B (hpHi hs B p.1)]
    constructor
    · rintro ⟨h0, h1, h2, hK⟩
      rw [hpK_iff hs B p.1 p.2 h1 h2] at hK
      exact ⟨h0, ⟨h1, Or.inr hK.1⟩, Or.inr (Or.inr ⟨h2, hK.2⟩)⟩
    · rintro ⟨h0, ⟨h1, h2⟩, h3⟩
      have hlt : p.2 < B + 1 ∧ p.2 < hpHi hs B p.1 := by
        rcases h3 with (h3 | ⟨h3, h4⟩) | (h3 | h3)
        · linarith
        · rcases h2 with h2 | h2 <;> linarith
        · linarith
        · exact h3
      have hlo : hpLo hs B p.1 < p.2 := by
        rcases h2 with h2 | h2
        · linarith [hlt.1]
        · exact h2
      exact ⟨h0, h1, hlt.1, (hpK_iff hs B p.1 p.2 h1 hlt.1).mpr ⟨hlo, hlt.2⟩⟩
  rw [hset, Measure.volume_eq_prod,
    volume_regionBetween_eq_integral i_f i_g measurableSet_Icc (fun x _ => le_max_left _ _),
    intervalIntegral.integral_of_le (by linarith : A ≤ A + 1), integral_Icc_eq_integral_Ioc]
  congr 1
  apply integral_congr_ae
  apply Filter.Eventually.of_forall
  intro x
  simp only [Pi.sub_apply, hg, hf]
  unfold hpLen
  rw [← pixLen_eq]
  rcases le_total (clamp01 (hpLo hs B x - B)) (clamp01 (hpHi hs B x - B)) with h | h
  · rw [max_eq_right (by linarith), max_eq_right (by linarith)]; ring
  · rw [max_eq_left (by linarith), max_eq_left (by linarith)]; ring

open MeasureTheory in
/-- `polyPixelArea` is the Lebesgue measure of (pixel ∩ open polygon): the points strictly left of
every directed edge `previous → vertex`, i.e. `C01.polyInside` with real coordinates. -/
theorem polyPixelArea_eq_volume (g : Polygon ℚ) (b : BBox) (j i : Nat) :
    volume {p : ℝ × ℝ | p.1 ∈ Set.Icc ((b.ixmin : ℝ) + i - 1/2) ((b.ixmin : ℝ) + i - 1/2 + 1) ∧
        (b.iymin : ℝ) + j - 1/2 < p.2 ∧ p.2 < (b.iymin : ℝ) + j - 1/2 + 1 ∧
        ∀ e ∈ cyclicPairs g.vertices,
          0 < ((e.1.x : ℝ) - e.2.x) * (p.2 - e.2.y) - ((e.1.y : ℝ) - e.2.y) * (p.1 - e.2.x)} =
      ENNReal.ofReal (polyPixelArea g b j i) := by
  unfold polyPixelArea
  rw [← hp_pixel_volume]
  congr 1
  ext p
  simp only [Set.mem_ofPred_eq]
  have : (∀ e ∈ cyclicPairs g.vertices,
      0 < ((e.1.x : ℝ) - e.2.x) * (p.2 - e.2.y) - ((e.1.y : ℝ) - e.2.y) * (p.1 - e.2.x)) ↔
      hpK (polyHPs g.vertices) p.1 p.2 := by
    unfold hpK polyHPs
    simp only [List.mem_map, forall_exists_index, and_imp, forall_apply_eq_imp_iff₂]
    apply forall_congr'; intro e
    apply imp_congr_right; intro _
    unfold edgeHP HP.val
    constructor <;> intro h <;> linarith
  rw [this]

-- the pentagon of C01Convex, 7 × 7 sub-pixels
example := polygon_subpixel_error_convex ⟨pentagon⟩ (by decide)
  (by
    unfold pentagon
    simp only [ConvexCCW, List.pairwise_cons, List.Pairwise.nil, List.mem_cons, List.not_mem_nil, forall_eq_or_imp, and_true, orient]
    norm_num)
  ⟨-1, 7, 0, 7⟩ 7 2 3 (by norm_num)
-- … which has no vertical edge: the bound there is `5 / 7`
example : (vertEdges pentagon).length = 0 := by decide
-- a square has two: `(4 + 2) / n`
example : (vertEdges [⟨0, 0⟩, ⟨2, 0⟩, ⟨2, 2⟩, ⟨0, 2⟩]).length = 2 := by decide

end RegionsVerif.Props.C03

#print axioms RegionsVerif.Props.C03.col_count_exc
#print axioms RegionsVerif.Props.C03.hp_sampled_error
#print axioms RegionsVerif.Props.C03.polygon_subpixel_error_convex
#print axioms RegionsVerif.Props.C03.polygon_subpixel_error_convex_crude
#print axioms RegionsVerif.Props.C03.polygon_mask_converges_convex
#print axioms RegionsVerif.Props.C03.polyPixelArea_eq_volume
