/-
C01 (polygons, strictly convex) — the even-odd implementation `Impl.pnpoly` is CORRECT for every
strictly convex polygon with any number of vertices: `true` on the open polygon (off the fan
diagonals from one vertex, any vertex), `false` off the closed polygon; invariant under rotation
there (C15).  Exact fan decomposition `pnpoly_fan` (holds for EVERY polygon and point) + the
triangle theorem + induction; convexity = every ordered vertex triple is counter-clockwise.
Regular polygons and rotated rectangles are of this kind.  Arbitrary simple (non-convex) polygons
still need a Jordan-curve argument and stay validated only.
-/
import RegionsVerif.Props.C01Tri
import Mathlib.Tactic.NormNum
import Mathlib.Data.List.Rotate
import Mathlib.Tactic.Positivity

namespace RegionsVerif.Props.C01
open RegionsVerif.Impl

section field
variable {α : Type} [Field α] [LinearOrder α] [IsStrictOrderedRing α]

/-- parity of the crossed edges of a list of (vertex, previous vertex) pairs. -/
def crossPar (p : Pt α) (l : List (Pt α × Pt α)) : Bool :=
  (l.filter fun e => edgeCross p e.1 e.2).length % 2 == 1

theorem crossPar_nil (p : Pt α) : crossPar p [] = false := rfl

theorem crossPar_cons (p : Pt α) (e : Pt α × Pt α) (l : List (Pt α × Pt α)) :
    crossPar p (e :: l) = (edgeCross p e.1 e.2 ^^ crossPar p l) := by
  unfold crossPar
  rw [List.filter_cons]
  cases h : edgeCross p e.1 e.2
  · simp
  · simp only [if_true, List.length_cons, parity_succ]
    cases ((List.filter (fun e => edgeCross p e.1 e.2) l).length % 2 == 1) <;> rfl

theorem pnpoly_eq_crossPar (vs : List (Pt α)) (p : Pt α) : pnpoly vs p = crossPar p (cyclicPairs vs) := rfl

theorem getLast?_fan (v0 v1 v2 v3 : Pt α) (R : List (Pt α)) :
    ∃ l, (v0 :: v1 :: v2 :: v3 :: R).getLast? = some l ∧ (v0 :: v2 :: v3 :: R).getLast? = some l ∧
      (v3 :: R).getLast? = some l := by
  refine ⟨(v3 :: R).getLast (by simp), ?_, ?_, ?_⟩
  · simp [List.getLast?_eq_some_getLast]
  · simp [List.getLast?_eq_some_getLast]
  · exact List.getLast?_eq_some_getLast (by simp)

/-- **Fan decomposition** (exact, every polygon, every point): cutting off the ear `(v0, v1, v2)`
along the diagonal `v0 v2` splits the even-odd answer into the XOR of the two parts — the diagonal
is crossed once in each direction and `edgeCross` does not depend on the direction. -/
theorem pnpoly_fan (v0 v1 v2 v3 : Pt α) (R : List (Pt α)) (p : Pt α) :
    pnpoly (v0 :: v1 :: v2 :: v3 :: R) p = (pnpoly [v0, v1, v2] p ^^ pnpoly (v0 :: v2 :: v3 :: R) p) := by
  obtain ⟨l, h1, h2, _⟩ := getLast?_fan v0 v1 v2 v3 R
  rw [pnpoly_tri, pnpoly_eq_crossPar (v0 :: v1 :: v2 :: v3 :: R), pnpoly_eq_crossPar (v0 :: v2 :: v3 :: R),
    cyclicPairs_eq _ l h1, cyclicPairs_eq _ l h2]
  simp only [pairsAux, crossPar_cons]
  rw [edgeCross_symm p v2 v0]
  cases edgeCross p v0 l <;> cases edgeCross p v1 v0 <;> cases edgeCross p v2 v1 <;>
    cases edgeCross p v0 v2 <;> cases crossPar p ((v3, v2) :: pairsAux v3 R) <;> simp_all [crossPar_cons]

/-! ### strictly convex polygons -/

/-- every triple of vertices, taken in list order, is counter-clockwise (a strictly convex polygon
listed counter-clockwise; decidable, `O(n³)` determinants). -/
def ConvexCCW : List (Pt α) → Prop
  | [] => True
  | a :: l => l.Pairwise (fun b c => 0 < orient a b c) ∧ ConvexCCW l

/-- the open polygon: strictly left of every directed edge `previous → vertex`. -/
def polyInside (vs : List (Pt α)) (p : Pt α) : Prop := ∀ e ∈ cyclicPairs vs, 0 < orient e.2 e.1 p
/-- the complement of the closed polygon: strictly right of some edge. -/
def polyOutside (vs : List (Pt α)) (p : Pt α) : Prop := ∃ e ∈ cyclicPairs vs, orient e.2 e.1 p < 0
/-- `p` is on none of the lines from the first vertex through another vertex (the fan diagonals). -/
def offFan : List (Pt α) → Pt α → Prop
  | [], _ => True
  | v0 :: rest, p => ∀ v ∈ rest, orient v0 v p ≠ 0

theorem ConvexCCW.drop_second {v0 v1 : Pt α} {L : List (Pt α)} (h : ConvexCCW (v0 :: v1 :: L)) :
    ConvexCCW (v0 :: L) := by
  obtain ⟨h0, _, hL⟩ := h
  exact ⟨(List.pairwise_cons.mp h0).2, hL⟩

theorem pairsAux_pairwise {β : Type} (r : β → β → Prop) (prev : β) (L : List β)
    (h : (prev :: L).Pairwise r) : ∀ e ∈ pairsAux prev L, r e.2 e.1 := by
  induction L generalizing prev with
  | nil => intro e he; simp [pairsAux] at he
  | cons x xs ih =>
    intro e he
    simp only [pairsAux, List.mem_cons] at he
    rcases he with rfl | he
    · exact (List.pairwise_cons.mp h).1 x (by simp)
    · exact ih x (List.pairwise_cons.mp h).2 e he

/-- a point of the closed triangle is on the non-negative side of every line that has the three
vertices on its non-negative side (`orient u w ·` is affine). -/
theorem orient_closedTri (a b c u w p : Pt α) (hD : 0 < orient a b c)
    (ha : 0 ≤ orient u w a) (hb : 0 ≤ orient u w b) (hc : 0 ≤ orient u w c)
    (h1 : 0 ≤ orient a b p) (h2 : 0 ≤ orient b c p) (h3 : 0 ≤ orient c a p) : 0 ≤ orient u w p := by
  have key : orient a b c * orient u w p =
      orient b c p * orient u w a + orient c a p * orient u w b + orient a b p * orient u w c := by
    unfold orient; ring
  have : 0 ≤ orient a b c * orient u w p := by
    rw [key]; positivity
  by_contra hneg
  rw [not_le] at hneg
  nlinarith

/-- cone at `v0`: between the rays to `v2` and to `l`, hence left of the ray to `v1`. -/
theorem cone_at_first (v0 v1 v2 l p : Pt α) (c1 : 0 < orient v0 v1 v2) (c2 : 0 < orient v0 v1 l)
    (c3 : 0 < orient v0 v2 l) (h1 : 0 ≤ orient l v0 p) (h2 : 0 ≤ orient v0 v2 p) : 0 ≤ orient v0 v1 p := by
  have key : orient v0 v1 p * orient v0 v2 l = orient l v0 p * orient v0 v1 v2 + orient v0 v2 p * orient v0 v1 l := by
    unfold orient; ring
  have : 0 ≤ orient v0 v1 p * orient v0 v2 l := by rw [key]; positivity
  by_contra hneg
  rw [not_le] at hneg
  nlinarith

/-- cone at `v2`: between the rays to `v3` and to `v0`, hence left of the edge `v1 → v2`. -/
theorem cone_at_third (v0 v1 v2 v3 p : Pt α) (c4 : 0 < orient v2 v3 v0) (c5 : 0 < orient v1 v2 v3)
    (c6 : 0 < orient v1 v2 v0) (h1 : 0 ≤ orient v0 v2 p) (h2 : 0 ≤ orient v2 v3 p) : 0 ≤ orient v1 v2 p := by
  have key : orient v1 v2 p * orient v2 v3 v0 = orient v0 v2 p * orient v1 v2 v3 + orient v2 v3 p * orient v1 v2 v0 := by
    unfold orient; ring
  have : 0 ≤ orient v1 v2 p * orient v2 v3 v0 := by rw [key]; positivity
  by_contra hneg
  rw [not_le] at hneg
  nlinarith

theorem orient_self_right (u w : Pt α) : orient u w u = 0 := by unfold orient; ring
theorem orient_self_end (u w : Pt α) : orient u w w = 0 := by unfold orient; ring

/-- **Strictly convex polygons** (any number of vertices, listed counter-clockwise): the even-odd
implementation answers `true` at every point of the open polygon that is off the fan diagonals from
the first vertex, and `false` at every point strictly outside.  Induction along the fan: cut off
the ear `(v0, v1, v2)` (`pnpoly_fan`), decide the ear with the triangle theorem and the rest with the
induction hypothesis; convexity is what makes "outside the polygon" imply "outside both parts". -/
theorem pnpoly_convex_aux (v0 p : Pt α) :
    ∀ (R : List (Pt α)) (v1 v2 : Pt α), ConvexCCW (v0 :: v1 :: v2 :: R) →
      ((polyInside (v0 :: v1 :: v2 :: R) p ∧ offFan (v0 :: v1 :: v2 :: R) p) →
          pnpoly (v0 :: v1 :: v2 :: R) p = true) ∧
      (polyOutside (v0 :: v1 :: v2 :: R) p → pnpoly (v0 :: v1 :: v2 :: R) p = false) := by
  intro R
  induction R with
  | nil =>
    intro v1 v2 hc
    have hD : 0 < orient v0 v1 v2 := (List.pairwise_cons.mp hc.1).1 v2 (by simp)
    have hp : cyclicPairs [v0, v1, v2] = [(v0, v2), (v1, v0), (v2, v1)] := rfl
    have T := pnpoly_triangle_ccw v0 v1 v2 p hD
    constructor
    · rintro ⟨hin, _⟩
      apply T.1
      unfold polyInside at hin; rw [hp] at hin
      exact ⟨hin (v1, v0) (by simp), hin (v2, v1) (by simp), hin (v0, v2) (by simp)⟩
    · rintro ⟨e, he, hneg⟩
      apply T.2
      rw [hp] at he
      simp only [List.mem_cons, List.not_mem_nil, or_false] at he
      rcases he with rfl | rfl | rfl
      · exact Or.inr (Or.inr hneg)
      · exact Or.inl hneg
      · exact Or.inr (Or.inl hneg)
  | cons v3 R' ih =>
    intro v1 v2 hc
    obtain ⟨l, h1, h2, h3⟩ := getLast?_fan v0 v1 v2 v3 R'
    have hl : l ∈ v3 :: R' := List.mem_of_getLast? h3
    have hP : cyclicPairs (v0 :: v1 :: v2 :: v3 :: R') =
        (v0, l) :: (v1, v0) :: (v2, v1) :: (v3, v2) :: pairsAux v3 R' := by
      rw [cyclicPairs_eq _ l h1]; rfl
    have hP' : cyclicPairs (v0 :: v2 :: v3 :: R') = (v0, l) :: (v2, v0) :: (v3, v2) :: pairsAux v3 R' := by
      rw [cyclicPairs_eq _ l h2]; rfl
    have IH := ih v2 v3 (ConvexCCW.drop_second hc)
    obtain ⟨hc0, hc1, hc2, _⟩ := hc
    have hc0' := (List.pairwise_cons.mp hc0).2
    have c1 : 0 < orient v0 v1 v2 := (List.pairwise_cons.mp hc0).1 v2 (by simp)
    have c2 : 0 < orient v0 v1 l := (List.pairwise_cons.mp hc0).1 l (List.mem_cons_of_mem _ hl)
    have c3 : 0 < orient v0 v2 l := (List.pairwise_cons.mp hc0').1 l hl
    have c03 : 0 < orient v0 v2 v3 := (List.pairwise_cons.mp hc0').1 v3 (by simp)
    have c4 : 0 < orient v2 v3 v0 := by rw [orient_cycle]; exact c03
    have c5 : 0 < orient v1 v2 v3 := (List.pairwise_cons.mp hc1).1 v3 (by simp)
    have c6 : 0 < orient v1 v2 v0 := by rw [orient_cycle]; exact c1
    have e0 : ∀ e ∈ pairsAux v3 R', 0 < orient v0 e.2 e.1 :=
      pairsAux_pairwise _ v3 R' (List.pairwise_cons.mp hc0').2
    have e1 : ∀ e ∈ pairsAux v3 R', 0 < orient v1 e.2 e.1 :=
      pairsAux_pairwise _ v3 R' (List.pairwise_cons.mp hc1).2
    have e2 : ∀ e ∈ pairsAux v3 R', 0 < orient v2 e.2 e.1 := pairsAux_pairwise _ v3 R' hc2
    have T := pnpoly_triangle_ccw v0 v1 v2 p c1
    rw [pnpoly_fan]
    constructor
    · rintro ⟨hin, hoff⟩
      unfold polyInside at hin; rw [hP] at hin
      have a0 := hin (v0, l) (by simp)
      have a1 := hin (v1, v0) (by simp)
      have a2 := hin (v2, v1) (by simp)
      have a3 := hin (v3, v2) (by simp)
      have aS : ∀ e ∈ pairsAux v3 R', 0 < orient e.2 e.1 p := fun e he => hin e (by simp [he])
      have hs2 : orient v0 v2 p ≠ 0 := hoff v2 (by simp)
      have hoff' : offFan (v0 :: v2 :: v3 :: R') p := fun v hv => hoff v (List.mem_cons_of_mem _ hv)
      rcases lt_or_gt_of_ne hs2 with hneg | hpos
      · have hT := T.1 ⟨a1, a2, by rw [orient_swap v0 v2 p]; linarith⟩
        have hP'o := IH.2 ⟨(v2, v0), by rw [hP']; simp, hneg⟩
        rw [hT, hP'o]; rfl
      · have hT := T.2 (Or.inr (Or.inr (by rw [orient_swap v0 v2 p]; linarith)))
        have hP'i := IH.1 ⟨by
          unfold polyInside; rw [hP']
          intro e he
          simp only [List.mem_cons] at he
          rcases he with rfl | rfl | rfl | he
          · exact a0
          · exact hpos
          · exact a3
          · exact aS e he, hoff'⟩
        rw [hT, hP'i]; rfl
    · rintro ⟨e, he, hneg⟩
      rw [hP] at he
      simp only [List.mem_cons] at he
      have hTout : triOutside v0 v1 v2 p := by
        by_contra hno
        unfold triOutside at hno
        rw [not_or, not_or, not_lt, not_lt, not_lt] at hno
        obtain ⟨n1, n2, n3⟩ := hno
        have : 0 ≤ orient e.2 e.1 p := by
          rcases he with rfl | rfl | rfl | rfl | he
          · refine orient_closedTri v0 v1 v2 l v0 p c1 ?_ ?_ ?_ n1 n2 n3
            · rw [orient_self_end]
            · rw [orient_cycle, orient_cycle] ; exact le_of_lt c2
            · rw [orient_cycle, orient_cycle]; exact le_of_lt c3
          · exact n1
          · exact n2
          · refine orient_closedTri v0 v1 v2 v2 v3 p c1 (le_of_lt c4) ?_ ?_ n1 n2 n3
            · rw [orient_cycle]; exact le_of_lt c5
            · rw [orient_self_right]
          · refine orient_closedTri v0 v1 v2 e.2 e.1 p c1 ?_ ?_ ?_ n1 n2 n3
            · rw [orient_cycle]; exact le_of_lt (e0 e he)
            · rw [orient_cycle]; exact le_of_lt (e1 e he)
            · rw [orient_cycle]; exact le_of_lt (e2 e he)
        linarith
      have hP'out : polyOutside (v0 :: v2 :: v3 :: R') p := by
        by_contra hno
        unfold polyOutside at hno
        rw [hP'] at hno
        simp only [not_exists, not_and, not_lt] at hno
        have b0 : 0 ≤ orient l v0 p := hno (v0, l) (by simp)
        have b1 : 0 ≤ orient v0 v2 p := hno (v2, v0) (by simp)
        have b2 : 0 ≤ orient v2 v3 p := hno (v3, v2) (by simp)
        have g1 := cone_at_first v0 v1 v2 l p c1 c2 c3 b0 b1
        have g2 := cone_at_third v0 v1 v2 v3 p c4 c5 c6 b1 b2
        have : 0 ≤ orient e.2 e.1 p := by
          rcases he with rfl | rfl | rfl | rfl | he
          · exact b0
          · exact g1
          · exact g2
          · exact b2
          · exact hno e (by simp [he])
        linarith
      rw [T.2 hTout, IH.2 hP'out]; rfl

/-- the statement for any vertex list with at least three vertices. -/
theorem pnpoly_convex (vs : List (Pt α)) (p : Pt α) (h3 : 3 ≤ vs.length) (hc : ConvexCCW vs) :
    ((polyInside vs p ∧ offFan vs p) → pnpoly vs p = true) ∧ (polyOutside vs p → pnpoly vs p = false) := by
  match vs, h3 with
  | v0 :: v1 :: v2 :: R, _ => exact pnpoly_convex_aux v0 p R v1 v2 hc

/-- the fan may start at any vertex: it is enough that the point avoids the diagonals from ONE
vertex `k` of the polygon (`pnpoly_rotate`: the answer does not depend on the start vertex). -/
theorem pnpoly_convex_any_start (vs : List (Pt α)) (p : Pt α) (k : Nat) (h3 : 3 ≤ vs.length)
    (hc : ConvexCCW (vs.rotate k)) :
    ((polyInside (vs.rotate k) p ∧ offFan (vs.rotate k) p) → pnpoly vs p = true) ∧
    (polyOutside (vs.rotate k) p → pnpoly vs p = false) := by
  have := pnpoly_convex (vs.rotate k) p (by rw [List.length_rotate]; exact h3) hc
  rw [pnpoly_rotate] at this
  exact this

/-! ### convexity does not depend on the start vertex -/

theorem convexCCW_append_singleton (l : List (Pt α)) (a : Pt α) :
    ConvexCCW (l ++ [a]) ↔ ConvexCCW l ∧ l.Pairwise (fun b c => 0 < orient b c a) := by
  induction l with
  | nil => simp [ConvexCCW]
  | cons x l ih =>
    simp only [List.cons_append, ConvexCCW, List.pairwise_append, List.pairwise_cons, List.Pairwise.nil,
      List.mem_singleton, forall_eq, ih, List.not_mem_nil, false_imp_iff, implies_true, and_true]
    tauto

/-- convexity does not depend on the start vertex. -/
theorem ConvexCCW.rotate (vs : List (Pt α)) (h : ConvexCCW vs) (k : Nat) : ConvexCCW (vs.rotate k) := by
  induction k generalizing vs with
  | zero => simpa using h
  | succ n ih =>
    cases vs with
    | nil => simpa using h
    | cons a l =>
      rw [List.rotate_cons_succ]
      apply ih
      rw [convexCCW_append_singleton]
      refine ⟨h.2, h.1.imp (fun {b c} hbc => ?_)⟩
      rw [orient_cycle]; exact hbc

/-- **Strictly convex polygons, final form**: `true` at every point of the open polygon that avoids
the diagonals from at least one vertex, `false` at every point off the closed polygon. -/
theorem pnpoly_convex_final (vs : List (Pt α)) (p : Pt α) (h3 : 3 ≤ vs.length) (hc : ConvexCCW vs) :
    ((polyInside vs p ∧ ∃ k, offFan (vs.rotate k) p) → pnpoly vs p = true) ∧
    (polyOutside vs p → pnpoly vs p = false) := by
  refine ⟨?_, (pnpoly_convex vs p h3 hc).2⟩
  rintro ⟨hin, k, hoff⟩
  refine (pnpoly_convex_any_start vs p k h3 (hc.rotate vs k)).1 ⟨?_, hoff⟩
  intro e he
  apply hin e
  rw [cyclicPairs_rotate, List.mem_rotate] at he
  exact he

/-! ### rigid motions (C15): convex polygons -/

theorem ConvexCCW.map_rotate (o : Pt α) (d : Dir α) (hd : d.c ^ 2 + d.s ^ 2 = 1) :
    ∀ vs : List (Pt α), ConvexCCW vs → ConvexCCW (vs.map fun v => v.rotate o d)
  | [], _ => trivial
  | a :: l, h => by
    refine ⟨?_, ConvexCCW.map_rotate o d hd l h.2⟩
    rw [List.pairwise_map]
    exact h.1.imp (fun {b c} hbc => by rw [orient_rotate _ _ _ _ _ hd]; exact hbc)

theorem polyInside_map_rotate (o : Pt α) (d : Dir α) (hd : d.c ^ 2 + d.s ^ 2 = 1) (vs : List (Pt α)) (p : Pt α) :
    polyInside (vs.map fun v => v.rotate o d) (p.rotate o d) ↔ polyInside vs p := by
  unfold polyInside
  rw [cyclicPairs_map]
  simp only [List.mem_map, forall_exists_index, and_imp, forall_apply_eq_imp_iff₂, orient_rotate _ _ _ _ _ hd]

theorem polyOutside_map_rotate (o : Pt α) (d : Dir α) (hd : d.c ^ 2 + d.s ^ 2 = 1) (vs : List (Pt α)) (p : Pt α) :
    polyOutside (vs.map fun v => v.rotate o d) (p.rotate o d) ↔ polyOutside vs p := by
  unfold polyOutside
  rw [cyclicPairs_map]
  simp only [List.mem_map, exists_exists_and_eq_and, orient_rotate _ _ _ _ _ hd]

theorem offFan_map_rotate (o : Pt α) (d : Dir α) (hd : d.c ^ 2 + d.s ^ 2 = 1) (vs : List (Pt α)) (p : Pt α) :
    offFan (vs.map fun v => v.rotate o d) (p.rotate o d) ↔ offFan vs p := by
  cases vs with
  | nil => simp [offFan]
  | cons v0 rest =>
    simp only [List.map_cons, offFan, List.mem_map, forall_exists_index, and_imp, forall_apply_eq_imp_iff₂,
      orient_rotate _ _ _ _ _ hd]

/-- a rotated strictly convex polygon answers at the rotated position what the original answers
at the original one — at every position strictly outside, and strictly inside off the fan diagonals. -/
theorem pnpoly_convex_rotate (vs : List (Pt α)) (p o : Pt α) (d : Dir α) (hd : d.c ^ 2 + d.s ^ 2 = 1)
    (h3 : 3 ≤ vs.length) (hc : ConvexCCW vs)
    (hside : (polyInside vs p ∧ offFan vs p) ∨ polyOutside vs p) :
    pnpoly (vs.map fun v => v.rotate o d) (p.rotate o d) = pnpoly vs p := by
  have t1 := pnpoly_convex vs p h3 hc
  have t2 := pnpoly_convex (vs.map fun v => v.rotate o d) (p.rotate o d) (by rw [List.length_map]; exact h3)
    (ConvexCCW.map_rotate o d hd vs hc)
  rw [polyInside_map_rotate o d hd, polyOutside_map_rotate o d hd, offFan_map_rotate o d hd] at t2
  rcases hside with h | h
  · rw [t1.1 h, t2.1 h]
  · rw [t1.2 h, t2.2 h]

end field

/-! ### non-vacuity: a convex pentagon -/

def pentagon : List (Pt ℚ) := [⟨0, 0⟩, ⟨4, 0⟩, ⟨6, 3⟩, ⟨3, 6⟩, ⟨-1, 3⟩]

example : ConvexCCW pentagon := by
  unfold pentagon
  simp only [ConvexCCW, List.pairwise_cons, List.Pairwise.nil, List.mem_cons, List.not_mem_nil, forall_eq_or_imp, and_true, orient]
  norm_num

example : pnpoly pentagon ⟨2, 2⟩ = true ∧ pnpoly pentagon ⟨7, 1⟩ = false := by decide +kernel

/-- the hypotheses of `pnpoly_convex` are met by an interior point off the fan diagonals … -/
example : polyInside pentagon ⟨2, 3⟩ ∧ offFan pentagon ⟨2, 3⟩ := by
  have hp : cyclicPairs pentagon = [(⟨0, 0⟩, ⟨-1, 3⟩), (⟨4, 0⟩, ⟨0, 0⟩), (⟨6, 3⟩, ⟨4, 0⟩), (⟨3, 6⟩, ⟨6, 3⟩), (⟨-1, 3⟩, ⟨3, 6⟩)] := rfl
  constructor
  · unfold polyInside; rw [hp]
    simp only [List.mem_cons, List.not_mem_nil, or_false, forall_eq_or_imp, forall_eq, orient]
    norm_num
  · unfold pentagon offFan
    simp only [List.mem_cons, List.not_mem_nil, or_false, forall_eq_or_imp, forall_eq, orient]
    norm_num

/-- … and by an exterior point. -/
example : polyOutside pentagon ⟨7, 1⟩ := by
  refine ⟨(⟨6, 3⟩, ⟨4, 0⟩), by decide, ?_⟩
  simp only [orient]; norm_num

end RegionsVerif.Props.C01
