/-
C18 — the "curve-approximation tolerance" of the Circle / Ellipse patches, quantified.

matplotlib draws `Circle` and `Ellipse` patches as the affine image of `Path.unit_circle()`:
26 vertices, codes `[MOVETO, CURVE4 × 24, CLOSEPOLY]`, i.e. 8 cubic Bézier segments built from
`MAGIC = 0.2652031`, `SQRTHALF = √½`, `MAGIC45 = SQRTHALF·MAGIC` (`matplotlib/path.py`, `Path.circle`).
`Props/C18.lean` treats the patch as the ideal ellipse; this file proves how far the drawn outline is
from it.  Over ℝ, with the IDEAL constants (`H = Real.sqrt (1/2)`, `MAGIC = 2652031/10^7`), and
robustly for any control points within `δ` of them (`seg_radial_perturbed`):

* `seg_radial`            every segment, every `t ∈ [0,1]`: `(1 − 3.85e-6)² ≤ |B(t)|² ≤ (1 + 2.8e-6)²`
                          (true extremes: −3.8431e-6 at the middle of a segment, +2.7662e-6);
* `seg_cross_pos`         `x y' − y x' > 0` on every segment (the polar angle increases strictly; `B'` is the
                          derivative: `segX_hasDerivAt`), `seg_junction`, `curve_closed`: the outline is a
                          closed curve, star-shaped about the centre;
* `onCurve_radial`, `not_onCurve_of_inside`, `not_onCurve_of_outside`
                          the closed disk of radius `1 − 3.85e-6` and the exterior of radius `1 + 2.8e-6`
                          do not meet the outline (the winding-number statement itself is not formalised);
* `ellipse_patch_outline`, `circle_patch_outline`
                          any semi-axes, rotation, centre: the outline lies between the ideal ellipse
                          scaled by `1 − 3.85e-6` and by `1 + 2.8e-6` about its centre.

Method: `|B₀(t)|² = Rp t + H · Sp t` (`seg0_norm`, one `linear_combination` with `H² = ½`), `Sp ≥ 0`,
`H` between two 10-digit rationals; the two rational degree-6 polynomials are bounded on `[0,1]` by
their Bernstein coefficients after de Casteljau subdivision (2 pieces below, 8 above) — the
certificates `lower_cert_*`, `upper_cert_*` are generated (exact rational arithmetic) and checked by
`ring` + `positivity`.  The other 7 segments are the mirror image / quarter turns of segment 0.
-/
import Mathlib.Analysis.SpecialFunctions.Sqrt
import Mathlib.Tactic.Linarith
import Mathlib.Tactic.Ring
import Mathlib.Tactic.Positivity
import Mathlib.Tactic.LinearCombination
import Mathlib.Tactic.NormNum
import Mathlib.Tactic.IntervalCases
import Mathlib.Tactic.FieldSimp
import Mathlib.Analysis.Calculus.Deriv.Pow
import Mathlib.Analysis.Calculus.Deriv.Mul
import Mathlib.Analysis.Calculus.Deriv.Add

namespace RegionsVerif.Props.C18B

noncomputable section

/-- `SQRTHALF = np.sqrt(0.5)`. -/
def H : ℝ := Real.sqrt (1 / 2)

theorem H_sq : H * H = 1 / 2 := Real.mul_self_sqrt (by norm_num)
theorem H_pos : 0 < H := Real.sqrt_pos.mpr (by norm_num)
theorem H_lo : (7071067811 / 10000000000 : ℝ) ≤ H := by
  unfold H; apply Real.le_sqrt_of_sq_le; norm_num
theorem H_hi : H ≤ (7071067812 / 10000000000 : ℝ) := by
  unfold H; rw [Real.sqrt_le_left (by norm_num)]; norm_num

/-- `MAGIC = 0.2652031`. -/
def MAGIC : ℝ := 2652031 / 10000000

/-- a cubic Bézier coordinate. -/
def bez (p0 p1 p2 p3 t : ℝ) : ℝ :=
  (1 - t) ^ 3 * p0 + 3 * t * (1 - t) ^ 2 * p1 + 3 * t ^ 2 * (1 - t) * p2 + t ^ 3 * p3

/-- rational part of `|B₀(t)|²` (`B₀` = the segment from `(0,-1)` to `(√½,-√½)`). -/
def Rp (t : ℝ) : ℝ := 1 * t ^ 0 + 0 * t ^ 1 + (-536700584175351 / 100000000000000) * t ^ 2 + (36700584175351 / 25000000000000) * t ^ 3 + (2243095910772543 / 100000000000000) * t ^ 4 + (-1389898247473947 / 50000000000000) * t ^ 5 + (463299415824649 / 50000000000000) * t ^ 6

/-- coefficient of `√½` in `|B₀(t)|²`. -/
def Sp (t : ℝ) : ℝ := 0 * t ^ 0 + 0 * t ^ 1 + (37956093 / 5000000) * t ^ 2 + (-104177555824649 / 50000000000000) * t ^ 3 + (-1585271982526053 / 50000000000000) * t ^ 4 + (1964832912526053 / 50000000000000) * t ^ 5 + (-654944304175351 / 50000000000000) * t ^ 6

/-- coefficient of `(√½)² − ½` in `|B₀(t)|²`. -/
def A2p (t : ℝ) : ℝ := 0 * t ^ 0 + 0 * t ^ 1 + 0 * t ^ 2 + 0 * t ^ 3 + (963299415824649 / 50000000000000) * t ^ 4 + (-663299415824649 / 25000000000000) * t ^ 5 + (463299415824649 / 50000000000000) * t ^ 6

theorem lower_cert_0 (t : ℝ) (ha : 0 ≤ t) (hb : t ≤ (1 / 2)) : 0 ≤ Rp t + (7071067811 / 10000000000) * Sp t - (1 - (77 / 20000000)) ^ 2 := by
  have hu : 0 ≤ t - 0 := by linarith
  have hv : 0 ≤ (1 / 2) - t := by linarith
  have e : Rp t + (7071067811 / 10000000000) * Sp t - (1 - (77 / 20000000)) ^ 2 = ((3079994071 / 400000000000000) * (t - 0) ^ 0 * ((1 / 2) - t) ^ 6 + (9239982213 / 200000000000000) * (t - 0) ^ 1 * ((1 / 2) - t) ^ 5 + (62915311479423 / 200000000000000000) * (t - 0) ^ 2 * ((1 / 2) - t) ^ 4 + (1166349176642735726661 / 4000000000000000000000000) * (t - 0) ^ 3 * ((1 / 2) - t) ^ 3 + (584281511282057179983 / 8000000000000000000000000) * (t - 0) ^ 4 * ((1 / 2) - t) ^ 2 + (1328307552827179983 / 16000000000000000000000000) * (t - 0) ^ 5 * ((1 / 2) - t) ^ 1 + (442769184275726661 / 32000000000000000000000000) * (t - 0) ^ 6 * ((1 / 2) - t) ^ 0) / (1 / 2) ^ 6 := by
    unfold Rp Sp; ring
  rw [e]; positivity

theorem lower_cert_1 (t : ℝ) (ha : (1 / 2) ≤ t) (hb : t ≤ 1) : 0 ≤ Rp t + (7071067811 / 10000000000) * Sp t - (1 - (77 / 20000000)) ^ 2 := by
  have hu : 0 ≤ t - (1 / 2) := by linarith
  have hv : 0 ≤ 1 - t := by linarith
  have e : Rp t + (7071067811 / 10000000000) * Sp t - (1 - (77 / 20000000)) ^ 2 = ((442769184275726661 / 32000000000000000000000000) * (t - (1 / 2)) ^ 0 * (1 - t) ^ 6 + (1328307552827179983 / 16000000000000000000000000) * (t - (1 / 2)) ^ 1 * (1 - t) ^ 5 + (584281511282057179983 / 8000000000000000000000000) * (t - (1 / 2)) ^ 2 * (1 - t) ^ 4 + (1166349176642735726661 / 4000000000000000000000000) * (t - (1 / 2)) ^ 3 * (1 - t) ^ 3 + (62915311479423 / 200000000000000000) * (t - (1 / 2)) ^ 4 * (1 - t) ^ 2 + (9239982213 / 200000000000000) * (t - (1 / 2)) ^ 5 * (1 - t) ^ 1 + (3079994071 / 400000000000000) * (t - (1 / 2)) ^ 6 * (1 - t) ^ 0) / (1 / 2) ^ 6 := by
    unfold Rp Sp; ring
  rw [e]; positivity

theorem lower_cert (t : ℝ) (h0 : 0 ≤ t) (h1 : t ≤ 1) : 0 ≤ Rp t + (7071067811 / 10000000000) * Sp t - (1 - (77 / 20000000)) ^ 2 := by
  by_cases c0 : t ≤ (1 / 2)
  · exact lower_cert_0 t (by linarith) c0
  push Not at c0
  exact lower_cert_1 t (by linarith) (by linarith)

theorem upper_cert_0 (t : ℝ) (ha : 0 ≤ t) (hb : t ≤ (1 / 8)) : 0 ≤ (1 + (7 / 2500000)) ^ 2 - (Rp t + (1767766953 / 2500000000) * Sp t) := by
  have hu : 0 ≤ t - 0 := by linarith
  have hv : 0 ≤ (1 / 8) - t := by linarith
  have e : (1 + (7 / 2500000)) ^ 2 - (Rp t + (1767766953 / 2500000000) * Sp t) = ((35000049 / 6250000000000) * (t - 0) ^ 0 * ((1 / 8) - t) ^ 6 + (105000147 / 3125000000000) * (t - 0) ^ 1 * ((1 / 8) - t) ^ 5 + (28623122802123 / 400000000000000000) * (t - 0) ^ 2 * ((1 / 8) - t) ^ 4 + (4641498077330885024497 / 64000000000000000000000000) * (t - 0) ^ 3 * ((1 / 8) - t) ^ 3 + (19116085129907805514437 / 512000000000000000000000000) * (t - 0) ^ 4 * ((1 / 8) - t) ^ 2 + (37968598257164298601059 / 4096000000000000000000000000) * (t - 0) ^ 5 * ((1 / 8) - t) ^ 1 + (29005775307454723402471 / 32768000000000000000000000000) * (t - 0) ^ 6 * ((1 / 8) - t) ^ 0) / (1 / 8) ^ 6 := by
    unfold Rp Sp; ring
  rw [e]; positivity

theorem upper_cert_1 (t : ℝ) (ha : (1 / 8) ≤ t) (hb : t ≤ (3 / 16)) : 0 ≤ (1 + (7 / 2500000)) ^ 2 - (Rp t + (1767766953 / 2500000000) * Sp t) := by
  have hu : 0 ≤ t - (1 / 8) := by linarith
  have hv : 0 ≤ (3 / 16) - t := by linarith
  have e : (1 + (7 / 2500000)) ^ 2 - (Rp t + (1767766953 / 2500000000) * Sp t) = ((29005775307454723402471 / 32768000000000000000000000000) * (t - (1 / 8)) ^ 0 * ((3 / 16) - t) ^ 6 + (109177584738435316218003 / 32768000000000000000000000000) * (t - (1 / 8)) ^ 1 * ((3 / 16) - t) ^ 5 + (582977323960771380130473 / 131072000000000000000000000000) * (t - (1 / 8)) ^ 2 * ((3 / 16) - t) ^ 4 + (157608571260759286779253 / 65536000000000000000000000000) * (t - (1 / 8)) ^ 3 * ((3 / 16) - t) ^ 3 + (251818051653177780726921 / 524288000000000000000000000000) * (t - (1 / 8)) ^ 4 * ((3 / 16) - t) ^ 2 + (103152010125016675256787 / 524288000000000000000000000000) * (t - (1 / 8)) ^ 5 * ((3 / 16) - t) ^ 1 + (251709091857211528137543 / 2097152000000000000000000000000) * (t - (1 / 8)) ^ 6 * ((3 / 16) - t) ^ 0) / (1 / 16) ^ 6 := by
    unfold Rp Sp; ring
  rw [e]; positivity

theorem upper_cert_2 (t : ℝ) (ha : (3 / 16) ≤ t) (hb : t ≤ (1 / 4)) : 0 ≤ (1 + (7 / 2500000)) ^ 2 - (Rp t + (1767766953 / 2500000000) * Sp t) := by
  have hu : 0 ≤ t - (3 / 16) := by linarith
  have hv : 0 ≤ (1 / 4) - t := by linarith
  have e : (1 + (7 / 2500000)) ^ 2 - (Rp t + (1767766953 / 2500000000) * Sp t) = ((251709091857211528137543 / 2097152000000000000000000000000) * (t - (3 / 16)) ^ 0 * ((1 / 4) - t) ^ 6 + (325987632723308954577921 / 262144000000000000000000000000) * (t - (3 / 16)) ^ 1 * ((1 / 4) - t) ^ 5 + (748983582065295987555549 / 131072000000000000000000000000) * (t - (3 / 16)) ^ 2 * ((1 / 4) - t) ^ 4 + (104624361131674094793931 / 8192000000000000000000000000) * (t - (3 / 16)) ^ 3 * ((1 / 4) - t) ^ 3 + (119698684631785377504273 / 8192000000000000000000000000) * (t - (3 / 16)) ^ 4 * ((1 / 4) - t) ^ 2 + (8473488747208972275609 / 1024000000000000000000000000) * (t - (3 / 16)) ^ 5 * ((1 / 4) - t) ^ 1 + (944012000135535661419 / 512000000000000000000000000) * (t - (3 / 16)) ^ 6 * ((1 / 4) - t) ^ 0) / (1 / 16) ^ 6 := by
    unfold Rp Sp; ring
  rw [e]; positivity

theorem upper_cert_3 (t : ℝ) (ha : (1 / 4) ≤ t) (hb : t ≤ (1 / 2)) : 0 ≤ (1 + (7 / 2500000)) ^ 2 - (Rp t + (1767766953 / 2500000000) * Sp t) := by
  have hu : 0 ≤ t - (1 / 4) := by linarith
  have hv : 0 ≤ (1 / 2) - t := by linarith
  have e : (1 + (7 / 2500000)) ^ 2 - (Rp t + (1767766953 / 2500000000) * Sp t) = ((944012000135535661419 / 512000000000000000000000000) * (t - (1 / 4)) ^ 0 * ((1 / 2) - t) ^ 6 + (1421672813706015661419 / 64000000000000000000000000) * (t - (1 / 4)) ^ 1 * ((1 / 2) - t) ^ 5 + (12507186830540659188987 / 128000000000000000000000000) * (t - (1 / 4)) ^ 2 * ((1 / 2) - t) ^ 4 + (1543154294427565416449 / 8000000000000000000000000) * (t - (1 / 4)) ^ 3 * ((1 / 2) - t) ^ 3 + (5794702636304566396329 / 32000000000000000000000000) * (t - (1 / 4)) ^ 4 * ((1 / 2) - t) ^ 2 + (318866125640775073491 / 4000000000000000000000000) * (t - (1 / 4)) ^ 5 * ((1 / 2) - t) ^ 1 + (106288708546925024497 / 8000000000000000000000000) * (t - (1 / 4)) ^ 6 * ((1 / 2) - t) ^ 0) / (1 / 4) ^ 6 := by
    unfold Rp Sp; ring
  rw [e]; positivity

theorem upper_cert_4 (t : ℝ) (ha : (1 / 2) ≤ t) (hb : t ≤ (3 / 4)) : 0 ≤ (1 + (7 / 2500000)) ^ 2 - (Rp t + (1767766953 / 2500000000) * Sp t) := by
  have hu : 0 ≤ t - (1 / 2) := by linarith
  have hv : 0 ≤ (3 / 4) - t := by linarith
  have e : (1 + (7 / 2500000)) ^ 2 - (Rp t + (1767766953 / 2500000000) * Sp t) = ((106288708546925024497 / 8000000000000000000000000) * (t - (1 / 2)) ^ 0 * ((3 / 4) - t) ^ 6 + (318866125640775073491 / 4000000000000000000000000) * (t - (1 / 2)) ^ 1 * ((3 / 4) - t) ^ 5 + (5794702636304566396329 / 32000000000000000000000000) * (t - (1 / 2)) ^ 2 * ((3 / 4) - t) ^ 4 + (1543154294427565416449 / 8000000000000000000000000) * (t - (1 / 2)) ^ 3 * ((3 / 4) - t) ^ 3 + (12507186830540659188987 / 128000000000000000000000000) * (t - (1 / 2)) ^ 4 * ((3 / 4) - t) ^ 2 + (1421672813706015661419 / 64000000000000000000000000) * (t - (1 / 2)) ^ 5 * ((3 / 4) - t) ^ 1 + (944012000135535661419 / 512000000000000000000000000) * (t - (1 / 2)) ^ 6 * ((3 / 4) - t) ^ 0) / (1 / 4) ^ 6 := by
    unfold Rp Sp; ring
  rw [e]; positivity

theorem upper_cert_5 (t : ℝ) (ha : (3 / 4) ≤ t) (hb : t ≤ (13 / 16)) : 0 ≤ (1 + (7 / 2500000)) ^ 2 - (Rp t + (1767766953 / 2500000000) * Sp t) := by
  have hu : 0 ≤ t - (3 / 4) := by linarith
  have hv : 0 ≤ (13 / 16) - t := by linarith
  have e : (1 + (7 / 2500000)) ^ 2 - (Rp t + (1767766953 / 2500000000) * Sp t) = ((944012000135535661419 / 512000000000000000000000000) * (t - (3 / 4)) ^ 0 * ((13 / 16) - t) ^ 6 + (8473488747208972275609 / 1024000000000000000000000000) * (t - (3 / 4)) ^ 1 * ((13 / 16) - t) ^ 5 + (119698684631785377504273 / 8192000000000000000000000000) * (t - (3 / 4)) ^ 2 * ((13 / 16) - t) ^ 4 + (104624361131674094793931 / 8192000000000000000000000000) * (t - (3 / 4)) ^ 3 * ((13 / 16) - t) ^ 3 + (748983582065295987555549 / 131072000000000000000000000000) * (t - (3 / 4)) ^ 4 * ((13 / 16) - t) ^ 2 + (325987632723308954577921 / 262144000000000000000000000000) * (t - (3 / 4)) ^ 5 * ((13 / 16) - t) ^ 1 + (251709091857211528137543 / 2097152000000000000000000000000) * (t - (3 / 4)) ^ 6 * ((13 / 16) - t) ^ 0) / (1 / 16) ^ 6 := by
    unfold Rp Sp; ring
  rw [e]; positivity

theorem upper_cert_6 (t : ℝ) (ha : (13 / 16) ≤ t) (hb : t ≤ (7 / 8)) : 0 ≤ (1 + (7 / 2500000)) ^ 2 - (Rp t + (1767766953 / 2500000000) * Sp t) := by
  have hu : 0 ≤ t - (13 / 16) := by linarith
  have hv : 0 ≤ (7 / 8) - t := by linarith
  have e : (1 + (7 / 2500000)) ^ 2 - (Rp t + (1767766953 / 2500000000) * Sp t) = ((251709091857211528137543 / 2097152000000000000000000000000) * (t - (13 / 16)) ^ 0 * ((7 / 8) - t) ^ 6 + (103152010125016675256787 / 524288000000000000000000000000) * (t - (13 / 16)) ^ 1 * ((7 / 8) - t) ^ 5 + (251818051653177780726921 / 524288000000000000000000000000) * (t - (13 / 16)) ^ 2 * ((7 / 8) - t) ^ 4 + (157608571260759286779253 / 65536000000000000000000000000) * (t - (13 / 16)) ^ 3 * ((7 / 8) - t) ^ 3 + (582977323960771380130473 / 131072000000000000000000000000) * (t - (13 / 16)) ^ 4 * ((7 / 8) - t) ^ 2 + (109177584738435316218003 / 32768000000000000000000000000) * (t - (13 / 16)) ^ 5 * ((7 / 8) - t) ^ 1 + (29005775307454723402471 / 32768000000000000000000000000) * (t - (13 / 16)) ^ 6 * ((7 / 8) - t) ^ 0) / (1 / 16) ^ 6 := by
    unfold Rp Sp; ring
  rw [e]; positivity

theorem upper_cert_7 (t : ℝ) (ha : (7 / 8) ≤ t) (hb : t ≤ 1) : 0 ≤ (1 + (7 / 2500000)) ^ 2 - (Rp t + (1767766953 / 2500000000) * Sp t) := by
  have hu : 0 ≤ t - (7 / 8) := by linarith
  have hv : 0 ≤ 1 - t := by linarith
  have e : (1 + (7 / 2500000)) ^ 2 - (Rp t + (1767766953 / 2500000000) * Sp t) = ((29005775307454723402471 / 32768000000000000000000000000) * (t - (7 / 8)) ^ 0 * (1 - t) ^ 6 + (37968598257164298601059 / 4096000000000000000000000000) * (t - (7 / 8)) ^ 1 * (1 - t) ^ 5 + (19116085129907805514437 / 512000000000000000000000000) * (t - (7 / 8)) ^ 2 * (1 - t) ^ 4 + (4641498077330885024497 / 64000000000000000000000000) * (t - (7 / 8)) ^ 3 * (1 - t) ^ 3 + (28623122802123 / 400000000000000000) * (t - (7 / 8)) ^ 4 * (1 - t) ^ 2 + (105000147 / 3125000000000) * (t - (7 / 8)) ^ 5 * (1 - t) ^ 1 + (35000049 / 6250000000000) * (t - (7 / 8)) ^ 6 * (1 - t) ^ 0) / (1 / 8) ^ 6 := by
    unfold Rp Sp; ring
  rw [e]; positivity

theorem upper_cert (t : ℝ) (h0 : 0 ≤ t) (h1 : t ≤ 1) : 0 ≤ (1 + (7 / 2500000)) ^ 2 - (Rp t + (1767766953 / 2500000000) * Sp t) := by
  by_cases c0 : t ≤ (1 / 8)
  · exact upper_cert_0 t (by linarith) c0
  push Not at c0
  by_cases c1 : t ≤ (3 / 16)
  · exact upper_cert_1 t (by linarith) c1
  push Not at c1
  by_cases c2 : t ≤ (1 / 4)
  · exact upper_cert_2 t (by linarith) c2
  push Not at c2
  by_cases c3 : t ≤ (1 / 2)
  · exact upper_cert_3 t (by linarith) c3
  push Not at c3
  by_cases c4 : t ≤ (3 / 4)
  · exact upper_cert_4 t (by linarith) c4
  push Not at c4
  by_cases c5 : t ≤ (13 / 16)
  · exact upper_cert_5 t (by linarith) c5
  push Not at c5
  by_cases c6 : t ≤ (7 / 8)
  · exact upper_cert_6 t (by linarith) c6
  push Not at c6
  exact upper_cert_7 t (by linarith) (by linarith)

theorem Sp_nonneg (t : ℝ) (h0 : 0 ≤ t) (h1 : t ≤ 1) : 0 ≤ Sp t := by
  have hv : 0 ≤ 1 - t := by linarith
  have e : Sp t = (37956093 / 5000000) * t ^ 2 * (1 - t) ^ 4 + (1414066164175351 / 50000000000000) * t ^ 3 * (1 - t) ^ 3 + (37956093 / 5000000) * t ^ 4 * (1 - t) ^ 2 := by
    unfold Sp; ring
  rw [e]; positivity

/-! ### the 26 vertices of `Path.unit_circle()` (the last one, `CLOSEPOLY`, repeats the first) -/

def vx : Nat → ℝ
  | 0 => 0 | 1 => MAGIC | 2 => H - H * MAGIC | 3 => H
  | 4 => H + H * MAGIC | 5 => 1 | 6 => 1
  | 7 => 1 | 8 => H + H * MAGIC | 9 => H
  | 10 => H - H * MAGIC | 11 => MAGIC | 12 => 0
  | 13 => -MAGIC | 14 => -H + H * MAGIC | 15 => -H
  | 16 => -H - H * MAGIC | 17 => -1 | 18 => -1
  | 19 => -1 | 20 => -H - H * MAGIC | 21 => -H
  | 22 => -H + H * MAGIC | 23 => -MAGIC | 24 => 0
  | _ => 0

def vy : Nat → ℝ
  | 0 => -1 | 1 => -1 | 2 => -H - H * MAGIC | 3 => -H
  | 4 => -H + H * MAGIC | 5 => -MAGIC | 6 => 0
  | 7 => MAGIC | 8 => H - H * MAGIC | 9 => H
  | 10 => H + H * MAGIC | 11 => 1 | 12 => 1
  | 13 => 1 | 14 => H + H * MAGIC | 15 => H
  | 16 => H - H * MAGIC | 17 => MAGIC | 18 => 0
  | 19 => -MAGIC | 20 => -H + H * MAGIC | 21 => -H
  | 22 => -H - H * MAGIC | 23 => -1 | 24 => -1
  | _ => -1

/-- segment `k` (`k = 0 … 7`) uses the vertices `3k … 3k+3` (`MOVETO` then `CURVE4 × 3` each). -/
def segX (k : Nat) (t : ℝ) : ℝ := bez (vx (3 * k)) (vx (3 * k + 1)) (vx (3 * k + 2)) (vx (3 * k + 3)) t
def segY (k : Nat) (t : ℝ) : ℝ := bez (vy (3 * k)) (vy (3 * k + 1)) (vy (3 * k + 2)) (vy (3 * k + 3)) t

/-! ### symmetries: a quarter turn maps segment `k` to segment `k + 2`; segment 1 is the mirror
image of segment 0 -/

theorem vx_rot (i : Nat) (hi : i ≤ 18) : vx (i + 6) = -vy i := by
  interval_cases i <;> simp only [vx, vy] <;> ring

theorem vy_rot (i : Nat) (hi : i ≤ 18) : vy (i + 6) = vx i := by
  interval_cases i <;> simp only [vx, vy]

theorem seg_rot (k : Nat) (hk : k ≤ 5) (t : ℝ) :
    segX (k + 2) t = -segY k t ∧ segY (k + 2) t = segX k t := by
  unfold segX segY bez
  have e0 : 3 * (k + 2) = 3 * k + 6 := by ring
  have e1 : 3 * k + 6 + 1 = 3 * k + 1 + 6 := by ring
  have e2 : 3 * k + 6 + 2 = 3 * k + 2 + 6 := by ring
  have e3 : 3 * k + 6 + 3 = 3 * k + 3 + 6 := by ring
  rw [e0, e1, e2, e3, vx_rot _ (by omega), vx_rot _ (by omega), vx_rot _ (by omega), vx_rot _ (by omega),
    vy_rot _ (by omega), vy_rot _ (by omega), vy_rot _ (by omega), vy_rot _ (by omega)]
  constructor <;> ring

theorem seg1_mirror (t : ℝ) : segX 1 t = -segY 0 (1 - t) ∧ segY 1 t = -segX 0 (1 - t) := by
  unfold segX segY bez
  simp only [vx, vy]
  constructor <;> ring

/-! ### the radial bound on segment 0, from the certificates -/

theorem seg0_norm (t : ℝ) : segX 0 t ^ 2 + segY 0 t ^ 2 = Rp t + H * Sp t := by
  unfold segX segY bez Rp Sp
  simp only [vx, vy, MAGIC]
  linear_combination (0 * t ^ 0 + 0 * t ^ 1 + 0 * t ^ 2 + 0 * t ^ 3 + (963299415824649 / 50000000000000) * t ^ 4 + (-663299415824649 / 25000000000000) * t ^ 5 + (463299415824649 / 50000000000000) * t ^ 6) * H_sq

/-- lower / upper radial tolerances proved below (the true extremes are `−3.8431e-6`, `+2.7662e-6`). -/
def epsLo : ℝ := 385 / 100000000
def epsHi : ℝ := 28 / 10000000

theorem seg0_radial (t : ℝ) (h0 : 0 ≤ t) (h1 : t ≤ 1) :
    (1 - epsLo) ^ 2 ≤ segX 0 t ^ 2 + segY 0 t ^ 2 ∧ segX 0 t ^ 2 + segY 0 t ^ 2 ≤ (1 + epsHi) ^ 2 := by
  rw [seg0_norm]
  have hS := Sp_nonneg t h0 h1
  have l := lower_cert t h0 h1
  have u := upper_cert t h0 h1
  have a := mul_le_mul_of_nonneg_right H_lo hS
  have b := mul_le_mul_of_nonneg_right H_hi hS
  unfold epsLo epsHi
  constructor
  · norm_num at l ⊢; linarith
  · norm_num at u ⊢; linarith

/-- **the radial error of matplotlib's 8-segment Bézier circle**: on every segment, for every
`t ∈ [0, 1]`, `(1 − 3.85e-6)² ≤ |B(t)|² ≤ (1 + 2.8e-6)²`. -/
theorem seg_radial (k : Nat) (hk : k < 8) (t : ℝ) (h0 : 0 ≤ t) (h1 : t ≤ 1) :
    (1 - epsLo) ^ 2 ≤ segX k t ^ 2 + segY k t ^ 2 ∧ segX k t ^ 2 + segY k t ^ 2 ≤ (1 + epsHi) ^ 2 := by
  have base1 : (1 - epsLo) ^ 2 ≤ segX 1 t ^ 2 + segY 1 t ^ 2 ∧ segX 1 t ^ 2 + segY 1 t ^ 2 ≤ (1 + epsHi) ^ 2 := by
    obtain ⟨e1, e2⟩ := seg1_mirror t
    have := seg0_radial (1 - t) (by linarith) (by linarith)
    rw [e1, e2]
    have e : (-segY 0 (1 - t)) ^ 2 + (-segX 0 (1 - t)) ^ 2 = segX 0 (1 - t) ^ 2 + segY 0 (1 - t) ^ 2 := by ring
    rw [e]; exact this
  have step : ∀ j : Nat, j ≤ 5 →
      ((1 - epsLo) ^ 2 ≤ segX j t ^ 2 + segY j t ^ 2 ∧ segX j t ^ 2 + segY j t ^ 2 ≤ (1 + epsHi) ^ 2) →
      ((1 - epsLo) ^ 2 ≤ segX (j + 2) t ^ 2 + segY (j + 2) t ^ 2 ∧
        segX (j + 2) t ^ 2 + segY (j + 2) t ^ 2 ≤ (1 + epsHi) ^ 2) := by
    intro j hj h
    obtain ⟨e1, e2⟩ := seg_rot j hj t
    rw [e1, e2]
    have e : (-segY j t) ^ 2 + segX j t ^ 2 = segX j t ^ 2 + segY j t ^ 2 := by ring
    rw [e]; exact h
  have b0 := seg0_radial t h0 h1
  interval_cases k
  · exact b0
  · exact base1
  · exact step 0 (by norm_num) b0
  · exact step 1 (by norm_num) base1
  · exact step 2 (by norm_num) (step 0 (by norm_num) b0)
  · exact step 3 (by norm_num) (step 1 (by norm_num) base1)
  · exact step 4 (by norm_num) (step 2 (by norm_num) (step 0 (by norm_num) b0))
  · exact step 5 (by norm_num) (step 3 (by norm_num) (step 1 (by norm_num) base1))

/-! ### the curve is closed and continuous at the junctions -/

theorem bez_zero (p0 p1 p2 p3 : ℝ) : bez p0 p1 p2 p3 0 = p0 := by unfold bez; ring
theorem bez_one (p0 p1 p2 p3 : ℝ) : bez p0 p1 p2 p3 1 = p3 := by unfold bez; ring

theorem seg_junction (k : Nat) (t : ℝ) (ht : t = 1) :
    segX k t = segX (k + 1) 0 ∧ segY k t = segY (k + 1) 0 := by
  subst ht
  unfold segX segY
  rw [bez_one, bez_one, bez_zero, bez_zero]
  have : 3 * (k + 1) = 3 * k + 3 := by ring
  rw [this]; exact ⟨rfl, rfl⟩

theorem curve_closed : segX 7 1 = segX 0 0 ∧ segY 7 1 = segY 0 0 := by
  unfold segX segY
  rw [bez_one, bez_one, bez_zero, bez_zero]
  simp [vx, vy]

/-! ### the polar angle increases along every segment: `B × B' > 0` -/

/-- derivative of a cubic Bézier coordinate. -/
def bezD (p0 p1 p2 p3 t : ℝ) : ℝ :=
  3 * (1 - t) ^ 2 * (p1 - p0) + 6 * t * (1 - t) * (p2 - p1) + 3 * t ^ 2 * (p3 - p2)

theorem bez_hasDerivAt (p0 p1 p2 p3 t : ℝ) : HasDerivAt (bez p0 p1 p2 p3) (bezD p0 p1 p2 p3 t) t := by
  have h1 : HasDerivAt (fun t : ℝ => 1 - t) (-1) t := by
    simpa using (hasDerivAt_id t).const_sub 1
  have hid := hasDerivAt_id' t
  have key := ((((h1.fun_pow 3).mul_const p0).fun_add (((hid.const_mul 3).fun_mul (h1.fun_pow 2)).mul_const p1)).fun_add
    ((((hid.fun_pow 2).const_mul 3).fun_mul h1).mul_const p2)).fun_add ((hid.fun_pow 3).mul_const p3)
  have hf : bez p0 p1 p2 p3 = fun t => (1 - t) ^ 3 * p0 + 3 * t * (1 - t) ^ 2 * p1 + 3 * t ^ 2 * (1 - t) * p2 + t ^ 3 * p3 := rfl
  rw [hf]
  refine key.congr_deriv ?_
  unfold bezD
  simp only [Nat.cast_ofNat]
  ring

def segDX (k : Nat) (t : ℝ) : ℝ := bezD (vx (3 * k)) (vx (3 * k + 1)) (vx (3 * k + 2)) (vx (3 * k + 3)) t
def segDY (k : Nat) (t : ℝ) : ℝ := bezD (vy (3 * k)) (vy (3 * k + 1)) (vy (3 * k + 2)) (vy (3 * k + 3)) t

theorem segX_hasDerivAt (k : Nat) (t : ℝ) : HasDerivAt (segX k) (segDX k t) t := bez_hasDerivAt _ _ _ _ t
theorem segY_hasDerivAt (k : Nat) (t : ℝ) : HasDerivAt (segY k) (segDY k t) t := bez_hasDerivAt _ _ _ _ t

/-- `B × B'` of a cubic Bézier in terms of the cross products of its control points (the Bernstein
Wronskians are `3(1−t)⁴, 6t(1−t)³, 3t²(1−t)², 9t²(1−t)², 6t³(1−t), 3t⁴`). -/
theorem cross_formula (x0 x1 x2 x3 y0 y1 y2 y3 t : ℝ) :
    bez x0 x1 x2 x3 t * bezD y0 y1 y2 y3 t - bez y0 y1 y2 y3 t * bezD x0 x1 x2 x3 t =
      3 * (1 - t) ^ 4 * (x0 * y1 - y0 * x1) + 6 * t * (1 - t) ^ 3 * (x0 * y2 - y0 * x2) +
      3 * t ^ 2 * (1 - t) ^ 2 * (x0 * y3 - y0 * x3) + 9 * t ^ 2 * (1 - t) ^ 2 * (x1 * y2 - y1 * x2) +
      6 * t ^ 3 * (1 - t) * (x1 * y3 - y1 * x3) + 3 * t ^ 4 * (x2 * y3 - y2 * x3) := by
  unfold bez bezD; ring

theorem cross_pos_of (x0 x1 x2 x3 y0 y1 y2 y3 t : ℝ) (h0 : 0 ≤ t) (h1 : t ≤ 1)
    (c01 : 0 < x0 * y1 - y0 * x1) (c02 : 0 ≤ x0 * y2 - y0 * x2) (c03 : 0 ≤ x0 * y3 - y0 * x3)
    (c12 : 0 ≤ x1 * y2 - y1 * x2) (c13 : 0 ≤ x1 * y3 - y1 * x3) (c23 : 0 < x2 * y3 - y2 * x3) :
    0 < bez x0 x1 x2 x3 t * bezD y0 y1 y2 y3 t - bez y0 y1 y2 y3 t * bezD x0 x1 x2 x3 t := by
  rw [cross_formula]
  have hv : 0 ≤ 1 - t := by linarith
  have hpos : 0 < 3 * (1 - t) ^ 4 * (x0 * y1 - y0 * x1) + 3 * t ^ 4 * (x2 * y3 - y2 * x3) := by
    rcases le_total t (1 / 2) with h | h
    · have : 0 < 1 - t := by linarith
      have a : 0 < 3 * (1 - t) ^ 4 * (x0 * y1 - y0 * x1) := by positivity
      have b : 0 ≤ 3 * t ^ 4 * (x2 * y3 - y2 * x3) := by positivity
      linarith
    · have : 0 < t := by linarith
      have a : 0 ≤ 3 * (1 - t) ^ 4 * (x0 * y1 - y0 * x1) := by positivity
      have b : 0 < 3 * t ^ 4 * (x2 * y3 - y2 * x3) := by positivity
      linarith
  have a2 : 0 ≤ 6 * t * (1 - t) ^ 3 * (x0 * y2 - y0 * x2) := by positivity
  have a3 : 0 ≤ 3 * t ^ 2 * (1 - t) ^ 2 * (x0 * y3 - y0 * x3) := by positivity
  have a4 : 0 ≤ 9 * t ^ 2 * (1 - t) ^ 2 * (x1 * y2 - y1 * x2) := by positivity
  have a5 : 0 ≤ 6 * t ^ 3 * (1 - t) * (x1 * y3 - y1 * x3) := by positivity
  linarith

theorem segD_rot (k : Nat) (hk : k ≤ 5) (t : ℝ) :
    segDX (k + 2) t = -segDY k t ∧ segDY (k + 2) t = segDX k t := by
  unfold segDX segDY bezD
  have e0 : 3 * (k + 2) = 3 * k + 6 := by ring
  have e1 : 3 * k + 6 + 1 = 3 * k + 1 + 6 := by ring
  have e2 : 3 * k + 6 + 2 = 3 * k + 2 + 6 := by ring
  have e3 : 3 * k + 6 + 3 = 3 * k + 3 + 6 := by ring
  rw [e0, e1, e2, e3, vx_rot _ (by omega), vx_rot _ (by omega), vx_rot _ (by omega), vx_rot _ (by omega),
    vy_rot _ (by omega), vy_rot _ (by omega), vy_rot _ (by omega), vy_rot _ (by omega)]
  constructor <;> ring

theorem magic_facts : (0 : ℝ) < MAGIC ∧ (0 : ℝ) < 1 - MAGIC ∧ (0 : ℝ) < 1 - 2 * MAGIC - MAGIC * MAGIC := by
  unfold MAGIC; norm_num

/-- **the polar angle is strictly increasing along every segment** (`x y' − y x' > 0`), so the
closed curve is star-shaped with respect to the centre and runs once around it. -/
theorem seg_cross_pos (k : Nat) (hk : k < 8) (t : ℝ) (h0 : 0 ≤ t) (h1 : t ≤ 1) :
    0 < segX k t * segDY k t - segY k t * segDX k t := by
  obtain ⟨m0, m1, m2⟩ := magic_facts
  have hH := H_pos
  have hH2 := H_sq
  have b0 : 0 < segX 0 t * segDY 0 t - segY 0 t * segDX 0 t := by
    unfold segX segY segDX segDY
    simp only [vx, vy]
    apply cross_pos_of _ _ _ _ _ _ _ _ t h0 h1
    · linarith
    · nlinarith
    · nlinarith
    · nlinarith [mul_pos hH m2]
    · nlinarith
    · nlinarith
  have b1 : 0 < segX 1 t * segDY 1 t - segY 1 t * segDX 1 t := by
    unfold segX segY segDX segDY
    simp only [vx, vy]
    apply cross_pos_of _ _ _ _ _ _ _ _ t h0 h1
    · nlinarith
    · nlinarith
    · nlinarith
    · nlinarith [mul_pos hH m2]
    · nlinarith
    · linarith
  have step : ∀ j : Nat, j ≤ 5 → 0 < segX j t * segDY j t - segY j t * segDX j t →
      0 < segX (j + 2) t * segDY (j + 2) t - segY (j + 2) t * segDX (j + 2) t := by
    intro j hj h
    obtain ⟨e1, e2⟩ := seg_rot j hj t
    obtain ⟨e3, e4⟩ := segD_rot j hj t
    rw [e1, e2, e3, e4]
    linarith
  interval_cases k
  · exact b0
  · exact b1
  · exact step 0 (by norm_num) b0
  · exact step 1 (by norm_num) b1
  · exact step 2 (by norm_num) (step 0 (by norm_num) b0)
  · exact step 3 (by norm_num) (step 1 (by norm_num) b1)
  · exact step 4 (by norm_num) (step 2 (by norm_num) (step 0 (by norm_num) b0))
  · exact step 5 (by norm_num) (step 3 (by norm_num) (step 1 (by norm_num) b1))

/-! ### the outline as a point set; inside / outside -/

/-- the points of the 8-segment outline. -/
def OnCurve (p : ℝ × ℝ) : Prop := ∃ k : Nat, k < 8 ∧ ∃ t : ℝ, 0 ≤ t ∧ t ≤ 1 ∧ p = (segX k t, segY k t)

/-- every point of the outline is within `[1 − 3.85e-6, 1 + 2.8e-6]` of the centre: the closed
disk of radius `1 − epsLo` does not meet the outline (it is strictly inside: the outline is a closed
curve, `seg_junction`, `curve_closed`, star-shaped about the centre, `seg_cross_pos`), and no
point at distance more than `1 + epsHi` is on it. -/
theorem onCurve_radial (p : ℝ × ℝ) (h : OnCurve p) :
    (1 - epsLo) ^ 2 ≤ p.1 ^ 2 + p.2 ^ 2 ∧ p.1 ^ 2 + p.2 ^ 2 ≤ (1 + epsHi) ^ 2 := by
  obtain ⟨k, hk, t, h0, h1, rfl⟩ := h
  exact seg_radial k hk t h0 h1

theorem not_onCurve_of_inside (p : ℝ × ℝ) (h : p.1 ^ 2 + p.2 ^ 2 < (1 - epsLo) ^ 2) : ¬ OnCurve p :=
  fun hc => by linarith [(onCurve_radial p hc).1]

theorem not_onCurve_of_outside (p : ℝ × ℝ) (h : (1 + epsHi) ^ 2 < p.1 ^ 2 + p.2 ^ 2) : ¬ OnCurve p :=
  fun hc => by linarith [(onCurve_radial p hc).2]

/-! ### robustness: control points within `δ` of the ideal ones (the stored constants are doubles) -/

theorem bez_perturb (p0 p1 p2 p3 q0 q1 q2 q3 t δ : ℝ) (h0 : 0 ≤ t) (h1 : t ≤ 1)
    (d0 : |q0 - p0| ≤ δ) (d1 : |q1 - p1| ≤ δ) (d2 : |q2 - p2| ≤ δ) (d3 : |q3 - p3| ≤ δ) :
    |bez q0 q1 q2 q3 t - bez p0 p1 p2 p3 t| ≤ δ := by
  have hv : 0 ≤ 1 - t := by linarith
  rw [abs_le] at *
  have w0 : 0 ≤ (1 - t) ^ 3 := by positivity
  have w1 : 0 ≤ 3 * t * (1 - t) ^ 2 := by positivity
  have w2 : 0 ≤ 3 * t ^ 2 * (1 - t) := by positivity
  have w3 : 0 ≤ t ^ 3 := by positivity
  have hsum : (1 - t) ^ 3 + 3 * t * (1 - t) ^ 2 + 3 * t ^ 2 * (1 - t) + t ^ 3 = 1 := by ring
  have e : bez q0 q1 q2 q3 t - bez p0 p1 p2 p3 t =
      (1 - t) ^ 3 * (q0 - p0) + 3 * t * (1 - t) ^ 2 * (q1 - p1) + 3 * t ^ 2 * (1 - t) * (q2 - p2) + t ^ 3 * (q3 - p3) := by
    unfold bez; ring
  rw [e]
  constructor
  · nlinarith [mul_le_mul_of_nonneg_left d0.1 w0, mul_le_mul_of_nonneg_left d1.1 w1,
      mul_le_mul_of_nonneg_left d2.1 w2, mul_le_mul_of_nonneg_left d3.1 w3]
  · nlinarith [mul_le_mul_of_nonneg_left d0.2 w0, mul_le_mul_of_nonneg_left d1.2 w1,
      mul_le_mul_of_nonneg_left d2.2 w2, mul_le_mul_of_nonneg_left d3.2 w3]

theorem mink2 (p q u v : ℝ) :
    Real.sqrt ((p + u) ^ 2 + (q + v) ^ 2) ≤ Real.sqrt (p ^ 2 + q ^ 2) + Real.sqrt (u ^ 2 + v ^ 2) := by
  have hcs : p * u + q * v ≤ Real.sqrt (p ^ 2 + q ^ 2) * Real.sqrt (u ^ 2 + v ^ 2) := by
    rw [← Real.sqrt_mul (by positivity)]
    apply Real.le_sqrt_of_sq_le
    nlinarith [sq_nonneg (p * v - q * u)]
  have h1 := Real.sq_sqrt (show 0 ≤ p ^ 2 + q ^ 2 by positivity)
  have h2 := Real.sq_sqrt (show 0 ≤ u ^ 2 + v ^ 2 by positivity)
  rw [Real.sqrt_le_iff]
  refine ⟨by positivity, ?_⟩
  nlinarith

theorem radial_perturb (x y x' y' el eh δ : ℝ) (heh : 0 ≤ eh) (hδ : 0 ≤ δ) (hsmall : el + 2 * δ ≤ 1)
    (h : (1 - el) ^ 2 ≤ x ^ 2 + y ^ 2 ∧ x ^ 2 + y ^ 2 ≤ (1 + eh) ^ 2)
    (dx : |x' - x| ≤ δ) (dy : |y' - y| ≤ δ) :
    (1 - el - 2 * δ) ^ 2 ≤ x' ^ 2 + y' ^ 2 ∧ x' ^ 2 + y' ^ 2 ≤ (1 + eh + 2 * δ) ^ 2 := by
  obtain ⟨hl, hu⟩ := h
  have u2 : (x' - x) ^ 2 ≤ δ ^ 2 := by rw [← sq_abs]; exact pow_le_pow_left₀ (abs_nonneg _) dx 2
  have v2 : (y' - y) ^ 2 ≤ δ ^ 2 := by rw [← sq_abs]; exact pow_le_pow_left₀ (abs_nonneg _) dy 2
  have hd : Real.sqrt ((x' - x) ^ 2 + (y' - y) ^ 2) ≤ 2 * δ := by
    rw [Real.sqrt_le_iff]; exact ⟨by linarith, by nlinarith⟩
  have hd' : Real.sqrt ((x - x') ^ 2 + (y - y') ^ 2) ≤ 2 * δ := by
    have : (x - x') ^ 2 + (y - y') ^ 2 = (x' - x) ^ 2 + (y' - y) ^ 2 := by ring
    rw [this]; exact hd
  have m1 := mink2 x y (x' - x) (y' - y)
  have m2 := mink2 x' y' (x - x') (y - y')
  rw [show x + (x' - x) = x' by ring, show y + (y' - y) = y' by ring] at m1
  rw [show x' + (x - x') = x by ring, show y' + (y - y') = y by ring] at m2
  have r1 : 1 - el ≤ Real.sqrt (x ^ 2 + y ^ 2) := by
    rcases le_or_gt 0 (1 - el) with hpos | hneg
    · have := Real.sqrt_le_sqrt hl
      rwa [Real.sqrt_sq hpos] at this
    · exact le_trans hneg.le (Real.sqrt_nonneg _)
  have r2 : Real.sqrt (x ^ 2 + y ^ 2) ≤ 1 + eh := by
    have := Real.sqrt_le_sqrt hu
    rwa [Real.sqrt_sq (by linarith)] at this
  have s0 : 0 ≤ x' ^ 2 + y' ^ 2 := by positivity
  have a1 : 1 - el - 2 * δ ≤ Real.sqrt (x' ^ 2 + y' ^ 2) := by linarith
  have a2 : Real.sqrt (x' ^ 2 + y' ^ 2) ≤ 1 + eh + 2 * δ := by linarith
  have sq := Real.sq_sqrt s0
  constructor
  · rw [← sq]; exact pow_le_pow_left₀ (by linarith) a1 2
  · rw [← sq]; exact pow_le_pow_left₀ (Real.sqrt_nonneg _) a2 2

/-- **radial bound with the constants as stored** (any control points within `δ` of the ideal
ones, e.g. `δ = 1e-8`, far more than double rounding): `(1 − epsLo − 2δ)² ≤ |B̃(t)|² ≤ (1 + epsHi + 2δ)²`. -/
theorem seg_radial_perturbed (k : Nat) (hk : k < 8) (t δ : ℝ) (h0 : 0 ≤ t) (h1 : t ≤ 1) (hδ : 0 ≤ δ) (hδ1 : δ ≤ 1 / 4)
    (qx qy : Nat → ℝ) (hqx : ∀ i, |qx i - vx i| ≤ δ) (hqy : ∀ i, |qy i - vy i| ≤ δ) :
    (1 - epsLo - 2 * δ) ^ 2 ≤ (bez (qx (3 * k)) (qx (3 * k + 1)) (qx (3 * k + 2)) (qx (3 * k + 3)) t) ^ 2 +
        (bez (qy (3 * k)) (qy (3 * k + 1)) (qy (3 * k + 2)) (qy (3 * k + 3)) t) ^ 2 ∧
    (bez (qx (3 * k)) (qx (3 * k + 1)) (qx (3 * k + 2)) (qx (3 * k + 3)) t) ^ 2 +
        (bez (qy (3 * k)) (qy (3 * k + 1)) (qy (3 * k + 2)) (qy (3 * k + 3)) t) ^ 2 ≤ (1 + epsHi + 2 * δ) ^ 2 := by
  apply radial_perturb (segX k t) (segY k t) _ _ epsLo epsHi δ (by unfold epsHi; norm_num) hδ
    (by unfold epsLo; linarith) (seg_radial k hk t h0 h1)
  · exact bez_perturb _ _ _ _ _ _ _ _ t δ h0 h1 (hqx _) (hqx _) (hqx _) (hqx _)
  · exact bez_perturb _ _ _ _ _ _ _ _ t δ h0 h1 (hqy _) (hqy _) (hqy _) (hqy _)

/-! ### the ellipse patch: affine image of the unit circle path -/

/-- `Ellipse(xy = (cx, cy), width = 2a, height = 2b, angle)`: matplotlib scales the unit circle path
by `(a, b)`, rotates it by `angle` (`(c, s) = (cos, sin)`) and translates it to the centre. -/
def patchPt (cx cy a b c s : ℝ) (p : ℝ × ℝ) : ℝ × ℝ :=
  (cx + c * (a * p.1) - s * (b * p.2), cy + s * (a * p.1) + c * (b * p.2))

/-- the "elliptic radius" (squared) of a point: `1` exactly on the ideal ellipse. -/
def ellRadius2 (cx cy a b c s : ℝ) (q : ℝ × ℝ) : ℝ :=
  ((c * (q.1 - cx) + s * (q.2 - cy)) / a) ^ 2 + ((-s * (q.1 - cx) + c * (q.2 - cy)) / b) ^ 2

theorem ellRadius2_patchPt (cx cy a b c s : ℝ) (ha : a ≠ 0) (hb : b ≠ 0) (hcs : c ^ 2 + s ^ 2 = 1) (p : ℝ × ℝ) :
    ellRadius2 cx cy a b c s (patchPt cx cy a b c s p) = p.1 ^ 2 + p.2 ^ 2 := by
  unfold ellRadius2 patchPt
  simp only
  have e1 : (c * (cx + c * (a * p.1) - s * (b * p.2) - cx) + s * (cy + s * (a * p.1) + c * (b * p.2) - cy)) / a =
      (c ^ 2 + s ^ 2) * p.1 := by field_simp; ring
  have e2 : (-s * (cx + c * (a * p.1) - s * (b * p.2) - cx) + c * (cy + s * (a * p.1) + c * (b * p.2) - cy)) / b =
      (c ^ 2 + s ^ 2) * p.2 := by field_simp; ring
  rw [e1, e2, hcs]; ring

/-- **the outline of an ellipse patch lies between the ideal ellipse scaled by `1 − 3.85e-6` and
by `1 + 2.8e-6`** (about its centre), for any semi-axes, rotation and centre. -/
theorem ellipse_patch_outline (cx cy a b c s : ℝ) (ha : a ≠ 0) (hb : b ≠ 0) (hcs : c ^ 2 + s ^ 2 = 1)
    (p : ℝ × ℝ) (hp : OnCurve p) :
    (1 - epsLo) ^ 2 ≤ ellRadius2 cx cy a b c s (patchPt cx cy a b c s p) ∧
    ellRadius2 cx cy a b c s (patchPt cx cy a b c s p) ≤ (1 + epsHi) ^ 2 := by
  rw [ellRadius2_patchPt cx cy a b c s ha hb hcs]
  exact onCurve_radial p hp

/-- the circle patch `Circle(xy, r)`: distance to the centre within `r·[1 − 3.85e-6, 1 + 2.8e-6]`. -/
theorem circle_patch_outline (cx cy r : ℝ) (hr : 0 < r) (p : ℝ × ℝ) (hp : OnCurve p) :
    (r * (1 - epsLo)) ^ 2 ≤ ((patchPt cx cy r r 1 0 p).1 - cx) ^ 2 + ((patchPt cx cy r r 1 0 p).2 - cy) ^ 2 ∧
    ((patchPt cx cy r r 1 0 p).1 - cx) ^ 2 + ((patchPt cx cy r r 1 0 p).2 - cy) ^ 2 ≤ (r * (1 + epsHi)) ^ 2 := by
  have h := onCurve_radial p hp
  unfold patchPt
  simp only
  have e : (cx + 1 * (r * p.1) - 0 * (r * p.2) - cx) ^ 2 + (cy + 0 * (r * p.1) + 1 * (r * p.2) - cy) ^ 2 =
      r ^ 2 * (p.1 ^ 2 + p.2 ^ 2) := by ring
  rw [e, mul_pow, mul_pow]
  have hr2 : 0 < r ^ 2 := by positivity
  exact ⟨mul_le_mul_of_nonneg_left h.1 hr2.le, mul_le_mul_of_nonneg_left h.2 hr2.le⟩

-- non-vacuity: the start point, the first junction and a mid-point are on the outline
example : OnCurve (0, -1) := ⟨0, by norm_num, 0, le_rfl, zero_le_one, by simp [segX, segY, bez_zero, vx, vy]⟩
example : OnCurve (H, -H) := ⟨0, by norm_num, 1, zero_le_one, le_rfl, by simp [segX, segY, bez_one, vx, vy]⟩
example := seg_radial 3 (by norm_num) (1 / 3) (by norm_num) (by norm_num)
example := seg_radial_perturbed 5 (by norm_num) (1 / 2) (1 / 100000000) (by norm_num) (by norm_num) (by norm_num)
  (by norm_num) vx vy (by intro i; simp) (by intro i; simp)
end
end RegionsVerif.Props.C18B

#print axioms RegionsVerif.Props.C18B.seg_radial
#print axioms RegionsVerif.Props.C18B.seg_radial_perturbed
#print axioms RegionsVerif.Props.C18B.seg_cross_pos
#print axioms RegionsVerif.Props.C18B.onCurve_radial
#print axioms RegionsVerif.Props.C18B.ellipse_patch_outline
#print axioms RegionsVerif.Props.C18B.circle_patch_outline
