/-
C15 — the full region-level rotation theorem: membership is rotation invariant for EVERY class,
polygons included (generic position), compounds of any depth.  Supersedes the `polygonFree`
restriction of `contains_rotate_partial` (kept in `Props/C15.lean`).
-/
import RegionsVerif.Props.C15
import RegionsVerif.Props.C01Fan

namespace RegionsVerif.Props.C15
open RegionsVerif.Impl RegionsVerif.Props.C01

section field
variable {α : Type} [Field α] [LinearOrder α] [IsStrictOrderedRing α]

/-- every polygon in the expression has at least three vertices and is in generic position with
respect to `p` (no degenerate fan triangle, `p` on no fan line). -/
def polygonsGeneric : PReg α → Pt α → Prop
  | .polygon g _, p =>
      match g.vertices with
      | v0 :: v1 :: v2 :: R => fanGeneric v0 (v1 :: v2 :: R) p
      | _ => False
  | .compound _ r1 r2 _, p => polygonsGeneric r1 p ∧ polygonsGeneric r2 p
  | _, _ => True

/-- **a rotated region contains a rotated position exactly when the original contained the
unrotated one — EVERY class, polygons included**, compounds of any depth; for polygons the position
must be in generic position (off the fan lines), which excludes a set of measure zero that contains
the polygon's boundary. -/
theorem contains_rotate (r : PReg α) (p o : Pt α) (d : Dir α) (hu : d.IsUnit)
    (hg : polygonsGeneric r p) : (r.rotate o d).contains (p.rotate o d) = r.contains p := by
  induction r with
  | polygon g i =>
    obtain ⟨vs⟩ := g
    match vs, hg with
    | v0 :: v1 :: v2 :: R, hg =>
      have h := pnpoly_rotate_generic v0 v1 v2 R p o d hu hg
      simp only [PReg.rotate, PReg.contains, Polygon.rotate, Polygon.inRaw]
      rw [h]
  | compound op r1 r2 i ih1 ih2 =>
    simp only [PReg.rotate, PReg.contains, ih1 hg.1, ih2 hg.2]
  | circle c i => exact contains_rotate_partial _ rfl p o d hu
  | ellipse e i => exact contains_rotate_partial _ rfl p o d hu
  | rect c i => exact contains_rotate_partial _ rfl p o d hu
  | circleAnnulus c r1 r2 i => exact contains_rotate_partial _ rfl p o d hu
  | ellipseAnnulus c w1 h1 w2 h2 dd i => exact contains_rotate_partial _ rfl p o d hu
  | rectAnnulus c w1 h1 w2 h2 dd i => exact contains_rotate_partial _ rfl p o d hu
  | empty k a b i => exact contains_rotate_partial _ rfl p o d hu

end field

/-- non-vacuity: a compound of a circle and a non-convex polygon, with a point in generic position. -/
example : polygonsGeneric (.compound .or (.circle ⟨⟨0, 0⟩, 1⟩ .absent)
    (.polygon ⟨[(⟨0, 0⟩ : Pt ℚ), ⟨4, 0⟩, ⟨1, 1⟩, ⟨0, 4⟩]⟩ .absent) .absent) ⟨2, 1/3⟩ := by
  refine ⟨trivial, ?_⟩
  simp only [polygonsGeneric, fanGeneric, orient]; norm_num

end RegionsVerif.Props.C15
