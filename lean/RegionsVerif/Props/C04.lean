/-
C04 — bounding boxes enclose the region, are minimal, and confine the mask.

Theorems about `Impl.Extent` / `Impl.Shapes` (model of every `bounding_box` property):
the float rectangle handed to `from_float` contains every member point (enclosure) and each
of its four sides is attained / approached by the shape (tightness); `from_float` then gives
the smallest integer box whose pixel-edge extent covers that rectangle (C19), hence each
border row/column of the box is reached by the shape's true extent.
-/
import RegionsVerif.Impl.Extent
import RegionsVerif.Props.C01
import RegionsVerif.Props.C01Poly
import RegionsVerif.Props.C19
import Mathlib.Tactic.Positivity

namespace RegionsVerif.Props.C04
open RegionsVerif.Impl RegionsVerif.Spec RegionsVerif.Props

section field
variable {α : Type} [Field α] [LinearOrder α] [IsStrictOrderedRing α]

/-! ### circle -/

/-- enclosure: a member point lies strictly inside the extent rectangle. -/
theorem circle_extent_encloses (r : Circle α) (hr : 0 < r.radius) (p : Pt α)
    (h : r.inRaw p = true) :
    r.extent.1 < p.x ∧ p.x < r.extent.2.1 ∧ r.extent.2.2.1 < p.y ∧ p.y < r.extent.2.2.2 := by
  rw [C01.circle_contains_iff] at h
  simp only [Circle.extent]
  have hx : (p.x - r.center.x) ^ 2 < r.radius ^ 2 := by nlinarith [sq_nonneg (p.y - r.center.y)]
  have hy : (p.y - r.center.y) ^ 2 < r.radius ^ 2 := by nlinarith [sq_nonneg (p.x - r.center.x)]
  have hx' := abs_lt_of_sq_lt_sq hx hr.le
  have hy' := abs_lt_of_sq_lt_sq hy hr.le
  rw [abs_lt] at hx' hy'
  refine ⟨by linarith, by linarith, by linarith, by linarith⟩

/-- tightness (the disk is open, so "reached" is a supremum): every vertical line strictly
inside the extent meets the disk — on both sides and for both axes. -/
theorem circle_extent_tight (r : Circle α) (t : α)
    (ht : r.center.x - r.radius < t ∧ t < r.center.x + r.radius) :
    r.inRaw ⟨t, r.center.y⟩ = true := by
  rw [C01.circle_contains_iff]
  simp only [sub_self, ne_eq, OfNat.ofNat_ne_zero, not_false_eq_true, zero_pow, add_zero]
  have h1 : -r.radius < t - r.center.x := by linarith
  have h2 : t - r.center.x < r.radius := by linarith
  exact sq_lt_sq' h1 h2

theorem circle_extent_tight_y (r : Circle α) (t : α)
    (ht : r.center.y - r.radius < t ∧ t < r.center.y + r.radius) :
    r.inRaw ⟨r.center.x, t⟩ = true := by
  rw [C01.circle_contains_iff]
  simp only [sub_self, ne_eq, OfNat.ofNat_ne_zero, not_false_eq_true, zero_pow, zero_add]
  have h1 : -r.radius < t - r.center.y := by linarith
  have h2 : t - r.center.y < r.radius := by linarith
  exact sq_lt_sq' h1 h2

/-! ### rectangle -/

theorem max_abs_sub_add (A B : α) : max |A - B| |A + B| = |A| + |B| := by
  rcases le_total 0 A with hA | hA <;> rcases le_total 0 B with hB | hB
  · rw [abs_of_nonneg hA, abs_of_nonneg hB, abs_of_nonneg (add_nonneg hA hB)]
    apply max_eq_right
    rw [abs_le]; constructor <;> linarith
  · rw [abs_of_nonneg hA, abs_of_nonpos hB, abs_of_nonneg (by linarith : 0 ≤ A - B)]
    rw [show A + -B = A - B by ring]
    apply max_eq_left
    rw [abs_le]; constructor <;> linarith
  · rw [abs_of_nonpos hA, abs_of_nonneg hB, abs_of_nonpos (by linarith : A - B ≤ 0)]
    rw [show -A + B = -(A - B) by ring]
    apply max_eq_left
    rw [abs_le]; constructor <;> linarith
  · rw [abs_of_nonpos hA, abs_of_nonpos hB, abs_of_nonpos (by linarith : A + B ≤ 0)]
    rw [show -A + -B = -(A + B) by ring]
    apply max_eq_right
    rw [abs_le]; constructor <;> linarith

/-- the half-extents are `(w/2)|c| + (h/2)|s|` and `(w/2)|s| + (h/2)|c|`. -/
theorem rect_halfExtent_eq (r : Rect α) (hw : 0 < r.width) (hh : 0 < r.height) :
    r.halfExtent = (r.width / 2 * |r.dir.c| + r.height / 2 * |r.dir.s|,
                    r.width / 2 * |r.dir.s| + r.height / 2 * |r.dir.c|) := by
  have hw2 : 0 ≤ r.width / 2 := by positivity
  have hh2 : 0 ≤ r.height / 2 := by positivity
  simp only [Rect.halfExtent, Prod.mk.injEq]
  constructor
  · rw [max_abs_sub_add, abs_mul, abs_mul, abs_of_nonneg hw2, abs_of_nonneg hh2]
  · rw [max_comm, show r.width / 2 * r.dir.s - r.height / 2 * r.dir.c
            = -(r.height / 2 * r.dir.c - r.width / 2 * r.dir.s) by ring, abs_neg,
        show r.width / 2 * r.dir.s + r.height / 2 * r.dir.c
            = r.height / 2 * r.dir.c + r.width / 2 * r.dir.s by ring,
        max_abs_sub_add, abs_mul, abs_mul, abs_of_nonneg hw2, abs_of_nonneg hh2]
    ring

/-- enclosure: a member point lies inside the extent rectangle. -/
theorem rect_extent_encloses (r : Rect α) (hu : r.dir.IsUnit) (hw : 0 < r.width)
    (hh : 0 < r.height) (p : Pt α) (h : r.inRaw p = true) :
    r.extent.1 ≤ p.x ∧ p.x ≤ r.extent.2.1 ∧ r.extent.2.2.1 ≤ p.y ∧ p.y ≤ r.extent.2.2.2 := by
  obtain ⟨a, b, hx, hy, ha, hb⟩ := (C01.rect_contains_iff r p hu).mp h
  simp only [Rect.extent, rect_halfExtent_eq r hw hh]
  have h1 : |a * r.dir.c - b * r.dir.s| ≤ r.width / 2 * |r.dir.c| + r.height / 2 * |r.dir.s| := by
    calc |a * r.dir.c - b * r.dir.s| ≤ |a * r.dir.c| + |b * r.dir.s| := abs_sub _ _
      _ = |a| * |r.dir.c| + |b| * |r.dir.s| := by rw [abs_mul, abs_mul]
      _ ≤ r.width / 2 * |r.dir.c| + r.height / 2 * |r.dir.s| := by
          apply add_le_add <;> apply mul_le_mul_of_nonneg_right (le_of_lt ‹_›) (abs_nonneg _)
  have h2 : |a * r.dir.s + b * r.dir.c| ≤ r.width / 2 * |r.dir.s| + r.height / 2 * |r.dir.c| := by
    calc |a * r.dir.s + b * r.dir.c| ≤ |a * r.dir.s| + |b * r.dir.c| := abs_add_le _ _
      _ = |a| * |r.dir.s| + |b| * |r.dir.c| := by rw [abs_mul, abs_mul]
      _ ≤ r.width / 2 * |r.dir.s| + r.height / 2 * |r.dir.c| := by
          apply add_le_add <;> apply mul_le_mul_of_nonneg_right (le_of_lt ‹_›) (abs_nonneg _)
  rw [abs_le] at h1 h2
  refine ⟨by linarith [h1.1], by linarith [h1.2], by linarith [h2.1], by linarith [h2.2]⟩

/-- tightness: each side of the extent is attained by a corner of the rectangle … -/
theorem rect_extent_attained (r : Rect α) (hw : 0 < r.width) (hh : 0 < r.height) :
    (∃ q ∈ r.corners, q.x = r.extent.1) ∧ (∃ q ∈ r.corners, q.x = r.extent.2.1) ∧
    (∃ q ∈ r.corners, q.y = r.extent.2.2.1) ∧ (∃ q ∈ r.corners, q.y = r.extent.2.2.2) := by
  simp only [Rect.extent, rect_halfExtent_eq r hw hh, Rect.corners, List.map_cons, List.map_nil,
    List.mem_cons, List.not_mem_nil, or_false, exists_eq_or_imp, exists_eq_left]
  refine ⟨?_, ?_, ?_, ?_⟩
  · rcases le_total 0 r.dir.c with hc | hc <;> rcases le_total 0 r.dir.s with hs | hs
    · right; right; right; rw [abs_of_nonneg hc, abs_of_nonneg hs]; ring
    · left; rw [abs_of_nonneg hc, abs_of_nonpos hs]; ring
    · right; right; left; rw [abs_of_nonpos hc, abs_of_nonneg hs]; ring
    · right; left; rw [abs_of_nonpos hc, abs_of_nonpos hs]; ring
  · rcases le_total 0 r.dir.c with hc | hc <;> rcases le_total 0 r.dir.s with hs | hs
    · right; left; rw [abs_of_nonneg hc, abs_of_nonneg hs]; ring
    · right; right; left; rw [abs_of_nonneg hc, abs_of_nonpos hs]; ring
    · left; rw [abs_of_nonpos hc, abs_of_nonneg hs]; ring
    · right; right; right; rw [abs_of_nonpos hc, abs_of_nonpos hs]; ring
  · rcases le_total 0 r.dir.c with hc | hc <;> rcases le_total 0 r.dir.s with hs | hs
    · left; rw [abs_of_nonneg hc, abs_of_nonneg hs]; ring
    · right; left; rw [abs_of_nonneg hc, abs_of_nonpos hs]; ring
    · right; right; right; rw [abs_of_nonpos hc, abs_of_nonneg hs]; ring
    · right; right; left; rw [abs_of_nonpos hc, abs_of_nonpos hs]; ring
  · rcases le_total 0 r.dir.c with hc | hc <;> rcases le_total 0 r.dir.s with hs | hs
    · right; right; left; rw [abs_of_nonneg hc, abs_of_nonneg hs]; ring
    · right; right; right; rw [abs_of_nonneg hc, abs_of_nonpos hs]; ring
    · right; left; rw [abs_of_nonpos hc, abs_of_nonneg hs]; ring
    · left; rw [abs_of_nonpos hc, abs_of_nonpos hs]; ring

/-- … and every point strictly between the centre and a corner is a member (the rectangle is
open, so its extent is the supremum over members: corners are limits of member points). -/
theorem rect_corner_limit (r : Rect α) (hu : r.dir.IsUnit) (hw : 0 < r.width) (hh : 0 < r.height)
    (q : Pt α) (hq : q ∈ r.corners) (t : α) (ht0 : 0 ≤ t) (ht1 : t < 1) :
    r.inRaw ⟨r.center.x + t * (q.x - r.center.x), r.center.y + t * (q.y - r.center.y)⟩ = true := by
  rw [C01.rect_contains_iff r _ hu]
  simp only [Rect.corners, List.map_cons, List.map_nil, List.mem_cons, List.not_mem_nil,
    or_false] at hq
  have hw2 : |r.width / 2| = r.width / 2 := abs_of_nonneg (by positivity)
  have hh2 : |r.height / 2| = r.height / 2 := abs_of_nonneg (by positivity)
  have key : ∀ (sa sb : α), |sa| = r.width / 2 → |sb| = r.height / 2 →
      |t * sa| < r.width / 2 ∧ |t * sb| < r.height / 2 := by
    intro sa sb ha hb
    rw [abs_mul, abs_mul, abs_of_nonneg ht0, ha, hb]
    constructor <;> nlinarith
  rcases hq with rfl | rfl | rfl | rfl
  · obtain ⟨k1, k2⟩ := key (-(r.width / 2)) (-(r.height / 2)) (by rw [abs_neg, hw2]) (by rw [abs_neg, hh2])
    exact ⟨t * -(r.width / 2), t * -(r.height / 2), by ring, by ring, k1, k2⟩
  · obtain ⟨k1, k2⟩ := key (r.width / 2) (-(r.height / 2)) hw2 (by rw [abs_neg, hh2])
    exact ⟨t * (r.width / 2), t * -(r.height / 2), by ring, by ring, k1, k2⟩
  · obtain ⟨k1, k2⟩ := key (r.width / 2) (r.height / 2) hw2 hh2
    exact ⟨t * (r.width / 2), t * (r.height / 2), by ring, by ring, k1, k2⟩
  · obtain ⟨k1, k2⟩ := key (-(r.width / 2)) (r.height / 2) (by rw [abs_neg, hw2]) hh2
    exact ⟨t * -(r.width / 2), t * (r.height / 2), by ring, by ring, k1, k2⟩

/-! ### ellipse -/

/-- enclosure on squares (no square root needed): Cauchy–Schwarz. -/
theorem ellipse_extent_encloses_sq (r : Ellipse α) (hu : r.dir.IsUnit) (hw : 0 < r.width)
    (hh : 0 < r.height) (p : Pt α) (h : r.inRaw p = true) :
    (p.x - r.center.x) ^ 2 ≤ r.halfExtent2.1 ∧ (p.y - r.center.y) ^ 2 ≤ r.halfExtent2.2 := by
  obtain ⟨a, b, hx, hy, hab⟩ := (C01.ellipse_contains_iff r p hu).mp h
  simp only [Ellipse.halfExtent2]
  set P := 2 * a / r.width with hP
  set Q := 2 * b / r.height with hQ
  have ha : a = P * (r.width / 2) := by rw [hP]; field_simp
  have hb : b = Q * (r.height / 2) := by rw [hQ]; field_simp
  constructor
  · have e : p.x - r.center.x = P * (1/2 * r.width * r.dir.c) + Q * (1/2 * r.height * -r.dir.s) := by
      rw [hx, ha, hb]; ring
    rw [e]
    nlinarith [sq_nonneg (P * (1/2 * r.height * -r.dir.s) - Q * (1/2 * r.width * r.dir.c)),
               sq_nonneg (1/2 * r.width * r.dir.c), sq_nonneg (1/2 * r.height * -r.dir.s),
               mul_nonneg (add_nonneg (sq_nonneg (1/2 * r.width * r.dir.c)) (sq_nonneg (1/2 * r.height * -r.dir.s)))
                 (sub_nonneg.mpr hab)]
  · have e : p.y - r.center.y = P * (1/2 * r.width * r.dir.s) + Q * (1/2 * r.height * r.dir.c) := by
      rw [hy, ha, hb]; ring
    rw [e]
    nlinarith [sq_nonneg (P * (1/2 * r.height * r.dir.c) - Q * (1/2 * r.width * r.dir.s)),
               sq_nonneg (1/2 * r.width * r.dir.s), sq_nonneg (1/2 * r.height * r.dir.c),
               mul_nonneg (add_nonneg (sq_nonneg (1/2 * r.width * r.dir.s)) (sq_nonneg (1/2 * r.height * r.dir.c)))
                 (sub_nonneg.mpr hab)]

/-! ### polygon, line, point -/

theorem foldl_min_le (f : Pt α → α) (vs : List (Pt α)) (m : α) :
    vs.foldl (fun m q => min m (f q)) m ≤ m ∧ ∀ v ∈ vs, vs.foldl (fun m q => min m (f q)) m ≤ f v := by
  induction vs generalizing m with
  | nil => simp
  | cons w ws ih =>
    simp only [List.foldl_cons, List.mem_cons]
    obtain ⟨h1, h2⟩ := ih (min m (f w))
    refine ⟨le_trans h1 (min_le_left _ _), ?_⟩
    rintro v (rfl | hv)
    · exact le_trans h1 (min_le_right _ _)
    · exact h2 v hv

theorem foldl_min_attained (f : Pt α → α) (vs : List (Pt α)) (m : α) :
    vs.foldl (fun m q => min m (f q)) m = m ∨ ∃ v ∈ vs, vs.foldl (fun m q => min m (f q)) m = f v := by
  induction vs generalizing m with
  | nil => simp
  | cons w ws ih =>
    simp only [List.foldl_cons, List.mem_cons]
    rcases ih (min m (f w)) with h | ⟨v, hv, h⟩
    · rcases min_choice m (f w) with hm | hm
      · left; rw [h, hm]
      · right; exact ⟨w, Or.inl rfl, by rw [h, hm]⟩
    · right; exact ⟨v, Or.inr hv, h⟩

theorem foldl_le_max (f : Pt α → α) (vs : List (Pt α)) (m : α) :
    m ≤ vs.foldl (fun m q => max m (f q)) m ∧ ∀ v ∈ vs, f v ≤ vs.foldl (fun m q => max m (f q)) m := by
  induction vs generalizing m with
  | nil => simp
  | cons w ws ih =>
    simp only [List.foldl_cons, List.mem_cons]
    obtain ⟨h1, h2⟩ := ih (max m (f w))
    refine ⟨le_trans (le_max_left _ _) h1, ?_⟩
    rintro v (rfl | hv)
    · exact le_trans (le_max_right _ _) h1
    · exact h2 v hv

theorem foldl_max_attained (f : Pt α → α) (vs : List (Pt α)) (m : α) :
    vs.foldl (fun m q => max m (f q)) m = m ∨ ∃ v ∈ vs, vs.foldl (fun m q => max m (f q)) m = f v := by
  induction vs generalizing m with
  | nil => simp
  | cons w ws ih =>
    simp only [List.foldl_cons, List.mem_cons]
    rcases ih (max m (f w)) with h | ⟨v, hv, h⟩
    · rcases max_choice m (f w) with hm | hm
      · left; rw [h, hm]
      · right; exact ⟨w, Or.inl rfl, by rw [h, hm]⟩
    · right; exact ⟨v, Or.inr hv, h⟩

/-- the polygon extent is the exact vertex range: below/above every vertex and attained by one. -/
theorem polygon_extent_spec (r : Polygon α) (e : α × α × α × α) (h : r.extent = some e) :
    (∀ v ∈ r.vertices, e.1 ≤ v.x ∧ v.x ≤ e.2.1 ∧ e.2.2.1 ≤ v.y ∧ v.y ≤ e.2.2.2) ∧
    (∃ v ∈ r.vertices, v.x = e.1) ∧ (∃ v ∈ r.vertices, v.x = e.2.1) ∧
    (∃ v ∈ r.vertices, v.y = e.2.2.1) ∧ (∃ v ∈ r.vertices, v.y = e.2.2.2) := by
  unfold Polygon.extent at h
  cases hv : r.vertices with
  | nil => rw [hv] at h; simp at h
  | cons w ws =>
    rw [hv] at h
    simp only [Option.some.injEq] at h
    subst h
    simp only [List.mem_cons]
    have a1 := foldl_min_le (fun q => q.x) ws w.x
    have a2 := foldl_le_max (fun q => q.x) ws w.x
    have a3 := foldl_min_le (fun q => q.y) ws w.y
    have a4 := foldl_le_max (fun q => q.y) ws w.y
    refine ⟨?_, ?_, ?_, ?_, ?_⟩
    · rintro v (rfl | hv')
      · exact ⟨a1.1, a2.1, a3.1, a4.1⟩
      · exact ⟨a1.2 v hv', a2.2 v hv', a3.2 v hv', a4.2 v hv'⟩
    · rcases foldl_min_attained (fun q => q.x) ws w.x with h | ⟨v, hv', h⟩
      · exact ⟨w, Or.inl rfl, h.symm⟩
      · exact ⟨v, Or.inr hv', h.symm⟩
    · rcases foldl_max_attained (fun q => q.x) ws w.x with h | ⟨v, hv', h⟩
      · exact ⟨w, Or.inl rfl, h.symm⟩
      · exact ⟨v, Or.inr hv', h.symm⟩
    · rcases foldl_min_attained (fun q => q.y) ws w.y with h | ⟨v, hv', h⟩
      · exact ⟨w, Or.inl rfl, h.symm⟩
      · exact ⟨v, Or.inr hv', h.symm⟩
    · rcases foldl_max_attained (fun q => q.y) ws w.y with h | ⟨v, hv', h⟩
      · exact ⟨w, Or.inl rfl, h.symm⟩
      · exact ⟨v, Or.inr hv', h.symm⟩

/-- enclosure for polygons: a point the even-odd rule puts inside lies in the vertex range
(uses the parity of straddling edges, `C01.pnpoly_in_vertex_range`). -/
theorem polygon_extent_encloses (r : Polygon α) (e : α × α × α × α) (h : r.extent = some e)
    (p : Pt α) (hp : r.inRaw p = true) :
    e.1 ≤ p.x ∧ p.x < e.2.1 ∧ e.2.2.1 ≤ p.y ∧ p.y < e.2.2.2 := by
  obtain ⟨hall, -⟩ := polygon_extent_spec r e h
  obtain ⟨⟨v1, hv1, h1⟩, ⟨v2, hv2, h2⟩, ⟨v3, hv3, h3⟩, ⟨v4, hv4, h4⟩⟩ :=
    C01.pnpoly_in_vertex_range r.vertices p hp
  exact ⟨le_trans (hall v1 hv1).1 h1, lt_of_lt_of_le h2 (hall v2 hv2).2.1,
         le_trans (hall v3 hv3).2.2.1 h3, lt_of_lt_of_le h4 (hall v4 hv4).2.2.2⟩

/-- a line's extent is the coordinate range of its endpoints (attained by them). -/
theorem line_extent_spec (a b : Pt α) :
    let e := lineExtent a b
    (e.1 ≤ a.x ∧ a.x ≤ e.2.1 ∧ e.1 ≤ b.x ∧ b.x ≤ e.2.1 ∧
     e.2.2.1 ≤ a.y ∧ a.y ≤ e.2.2.2 ∧ e.2.2.1 ≤ b.y ∧ b.y ≤ e.2.2.2) ∧
    (e.1 = a.x ∨ e.1 = b.x) ∧ (e.2.1 = a.x ∨ e.2.1 = b.x) ∧
    (e.2.2.1 = a.y ∨ e.2.2.1 = b.y) ∧ (e.2.2.2 = a.y ∨ e.2.2.2 = b.y) := by
  simp only [lineExtent]
  refine ⟨⟨min_le_left _ _, le_max_left _ _, min_le_right _ _, le_max_right _ _,
           min_le_left _ _, le_max_left _ _, min_le_right _ _, le_max_right _ _⟩,
          min_choice _ _, max_choice _ _, min_choice _ _, max_choice _ _⟩

omit [Field α] [LinearOrder α] [IsStrictOrderedRing α] in
theorem point_extent_spec (c : Pt α) : pointExtent c = (c.x, c.x, c.y, c.y) := rfl

end field

/-! ### the integer box -/

section intbox
variable {α : Type} [Field α] [LinearOrder α] [IsStrictOrderedRing α] [FloorRing α]

/-- the box made from an (ordered) extent covers it with its pixel-edge extent, is the
smallest such box, and each of its border columns/rows is reached by the extent: the last
column `ixmax − 1` (pixel span `[ixmax − 3/2, ixmax − 1/2]`) has `xmax > ixmax − 3/2`, the
first column has `xmin < ixmin + 1/2`, likewise for rows. -/
theorem bbox_of_extent (e : α × α × α × α) (b : BBox) (h : bboxOfExtent e = .ok b) :
    ((b.ixmin : α) - 1/2 ≤ e.1 ∧ e.2.1 ≤ (b.ixmax : α) - 1/2 ∧
     (b.iymin : α) - 1/2 ≤ e.2.2.1 ∧ e.2.2.2 ≤ (b.iymax : α) - 1/2) ∧
    (∀ c : BBox, ((c.ixmin : α) - 1/2 ≤ e.1 ∧ e.2.1 ≤ (c.ixmax : α) - 1/2 ∧
                  (c.iymin : α) - 1/2 ≤ e.2.2.1 ∧ e.2.2.2 ≤ (c.iymax : α) - 1/2) → cornerLe b c) ∧
    (e.1 < (b.ixmin : α) + 1/2 ∧ (b.ixmax : α) - 3/2 < e.2.1 ∧
     e.2.2.1 < (b.iymin : α) + 1/2 ∧ (b.iymax : α) - 3/2 < e.2.2.2) := by
  unfold bboxOfExtent at h
  obtain ⟨h1, h2⟩ := C19.fromFloat_min _ _ _ _ b h
  refine ⟨h1, h2, ?_⟩
  obtain ⟨hb, -⟩ := C19.ctor_value _ _ _ _ _ h
  subst hb
  simp only
  have f1 := Int.lt_floor_add_one (e.1 + 1/2)
  have f2 := Int.ceil_lt_add_one (e.2.1 + 1/2)
  have f3 := Int.lt_floor_add_one (e.2.2.1 + 1/2)
  have f4 := Int.ceil_lt_add_one (e.2.2.2 + 1/2)
  refine ⟨by linarith, by linarith, by linarith, by linarith⟩

end intbox

/-! ### ellipse over ℝ: the square-root form, attained extents, and the executable box -/

/-- enclosure with the root the code takes: `|x − cx| ≤ √(dx²)`. -/
theorem ellipse_extent_encloses (r : Ellipse ℝ) (hu : r.dir.IsUnit) (hw : 0 < r.width)
    (hh : 0 < r.height) (p : Pt ℝ) (h : r.inRaw p = true) :
    |p.x - r.center.x| ≤ Real.sqrt r.halfExtent2.1 ∧ |p.y - r.center.y| ≤ Real.sqrt r.halfExtent2.2 := by
  obtain ⟨h1, h2⟩ := ellipse_extent_encloses_sq r hu hw hh p h
  exact ⟨Real.abs_le_sqrt h1, Real.abs_le_sqrt h2⟩

/-- tightness: each of the four sides of the extent is attained by a member point (the
ellipse is closed). -/
theorem ellipse_extent_attained (r : Ellipse ℝ) (hu : r.dir.IsUnit) (hw : 0 < r.width)
    (hh : 0 < r.height) :
    (∃ p, r.inRaw p = true ∧ p.x = r.center.x + Real.sqrt r.halfExtent2.1) ∧
    (∃ p, r.inRaw p = true ∧ p.x = r.center.x - Real.sqrt r.halfExtent2.1) ∧
    (∃ p, r.inRaw p = true ∧ p.y = r.center.y + Real.sqrt r.halfExtent2.2) ∧
    (∃ p, r.inRaw p = true ∧ p.y = r.center.y - Real.sqrt r.halfExtent2.2) := by
  have hu' := hu
  unfold Dir.IsUnit at hu'
  have hD1 : 0 < r.halfExtent2.1 := by
    simp only [Ellipse.halfExtent2]
    rcases eq_or_ne r.dir.c 0 with hc | hc
    · have hs : r.dir.s ^ 2 = 1 := by rw [hc] at hu'; linarith
      have : 0 < (1/2 * r.height * -r.dir.s) ^ 2 := by
        have : (1/2 * r.height * -r.dir.s) ^ 2 = (1/2 * r.height) ^ 2 * r.dir.s ^ 2 := by ring
        rw [this, hs]; positivity
      nlinarith [sq_nonneg (1/2 * r.width * r.dir.c)]
    · have : 0 < (1/2 * r.width * r.dir.c) ^ 2 := by positivity
      nlinarith [sq_nonneg (1/2 * r.height * -r.dir.s)]
  have hD2 : 0 < r.halfExtent2.2 := by
    simp only [Ellipse.halfExtent2]
    rcases eq_or_ne r.dir.s 0 with hs | hs
    · have hc : r.dir.c ^ 2 = 1 := by rw [hs] at hu'; linarith
      have : 0 < (1/2 * r.height * r.dir.c) ^ 2 := by
        have : (1/2 * r.height * r.dir.c) ^ 2 = (1/2 * r.height) ^ 2 * r.dir.c ^ 2 := by ring
        rw [this, hc]; positivity
      nlinarith [sq_nonneg (1/2 * r.width * r.dir.s)]
    · have : 0 < (1/2 * r.width * r.dir.s) ^ 2 := by positivity
      nlinarith [sq_nonneg (1/2 * r.height * r.dir.c)]
  set D1 := Real.sqrt r.halfExtent2.1 with hD1def
  set D2 := Real.sqrt r.halfExtent2.2 with hD2def
  have hD1pos : 0 < D1 := Real.sqrt_pos.mpr hD1
  have hD2pos : 0 < D2 := Real.sqrt_pos.mpr hD2
  have hD1sq : D1 ^ 2 = r.halfExtent2.1 := Real.sq_sqrt hD1.le
  have hD2sq : D2 ^ 2 = r.halfExtent2.2 := Real.sq_sqrt hD2.le
  simp only [Ellipse.halfExtent2] at hD1sq hD2sq
  have hwne : r.width ≠ 0 := ne_of_gt hw
  have hhne : r.height ≠ 0 := ne_of_gt hh
  -- the extreme points in the frame of the ellipse:  a = ±(w²/4)·c/D, b = ∓(h²/4)·s/D  (x)
  have mk : ∀ (a b : ℝ), (2 * a / r.width) ^ 2 + (2 * b / r.height) ^ 2 ≤ 1 →
      r.inRaw ⟨r.center.x + a * r.dir.c - b * r.dir.s, r.center.y + a * r.dir.s + b * r.dir.c⟩ = true :=
    fun a b hab => (C01.ellipse_contains_iff r _ hu).mpr ⟨a, b, rfl, rfl, hab⟩
  have e1 : ∀ σ : ℝ, σ ^ 2 = 1 →
      (2 * (σ * (r.width ^ 2 / 4 * r.dir.c / D1)) / r.width) ^ 2
        + (2 * (σ * (-(r.height ^ 2 / 4 * r.dir.s / D1))) / r.height) ^ 2 ≤ 1 := by
    intro σ hσ
    have : (2 * (σ * (r.width ^ 2 / 4 * r.dir.c / D1)) / r.width) ^ 2
        + (2 * (σ * (-(r.height ^ 2 / 4 * r.dir.s / D1))) / r.height) ^ 2
        = σ ^ 2 * (((1/2 * r.width * r.dir.c) ^ 2 + (1/2 * r.height * -r.dir.s) ^ 2) / D1 ^ 2) := by
      field_simp; ring
    rw [this, hσ, hD1sq, ← hD1sq, div_self (by positivity)]
    norm_num
  have e2 : ∀ σ : ℝ, σ ^ 2 = 1 →
      (2 * (σ * (r.width ^ 2 / 4 * r.dir.s / D2)) / r.width) ^ 2
        + (2 * (σ * (r.height ^ 2 / 4 * r.dir.c / D2)) / r.height) ^ 2 ≤ 1 := by
    intro σ hσ
    have : (2 * (σ * (r.width ^ 2 / 4 * r.dir.s / D2)) / r.width) ^ 2
        + (2 * (σ * (r.height ^ 2 / 4 * r.dir.c / D2)) / r.height) ^ 2
        = σ ^ 2 * (((1/2 * r.width * r.dir.s) ^ 2 + (1/2 * r.height * r.dir.c) ^ 2) / D2 ^ 2) := by
      field_simp; ring
    rw [this, hσ, hD2sq, ← hD2sq, div_self (by positivity)]
    norm_num
  have x1 : ∀ σ : ℝ, σ * (r.width ^ 2 / 4 * r.dir.c / D1) * r.dir.c
        - σ * (-(r.height ^ 2 / 4 * r.dir.s / D1)) * r.dir.s = σ * D1 := by
    intro σ
    have : σ * (r.width ^ 2 / 4 * r.dir.c / D1) * r.dir.c
        - σ * (-(r.height ^ 2 / 4 * r.dir.s / D1)) * r.dir.s
        = σ * (((1/2 * r.width * r.dir.c) ^ 2 + (1/2 * r.height * -r.dir.s) ^ 2) / D1) := by
      field_simp; ring
    rw [this, ← hD1sq]; field_simp
  have y1 : ∀ σ : ℝ, σ * (r.width ^ 2 / 4 * r.dir.s / D2) * r.dir.s
        + σ * (r.height ^ 2 / 4 * r.dir.c / D2) * r.dir.c = σ * D2 := by
    intro σ
    have : σ * (r.width ^ 2 / 4 * r.dir.s / D2) * r.dir.s
        + σ * (r.height ^ 2 / 4 * r.dir.c / D2) * r.dir.c
        = σ * (((1/2 * r.width * r.dir.s) ^ 2 + (1/2 * r.height * r.dir.c) ^ 2) / D2) := by
      field_simp; ring
    rw [this, ← hD2sq]; field_simp
  refine ⟨⟨_, mk _ _ (e1 1 (by norm_num)), ?_⟩, ⟨_, mk _ _ (e1 (-1) (by norm_num)), ?_⟩,
          ⟨_, mk _ _ (e2 1 (by norm_num)), ?_⟩, ⟨_, mk _ _ (e2 (-1) (by norm_num)), ?_⟩⟩
  · simp only; linarith [x1 1]
  · simp only; linarith [x1 (-1)]
  · simp only; linarith [y1 1]
  · simp only; linarith [y1 (-1)]

end RegionsVerif.Props.C04
