/-
C01 (RegularPolygonPixelRegion) — the vertices `center + radius·(cos θ_k, sin θ_k)`,
`θ_k = 2πk/n + π/2 + angle`, of the librarys regular polygon form a strictly convex
counter-clockwise polygon for every n ≥ 3 (orientation determinant of three vertices =
4 r² sin(a φ/2) sin(b φ/2) sin((a+b) φ/2) > 0), so the even-odd implementation is correct on it
by `pnpoly_convex_final`.  Over ℝ with the true cos/sin; the float vertices of the real object are
approximations of these (correspondence run).
-/
import RegionsVerif.Props.C01Convex
import Mathlib.Analysis.SpecialFunctions.Trigonometric.Basic
import Mathlib.Tactic.LinearCombination
import Mathlib.Tactic.FieldSimp
import Mathlib.Tactic.Positivity

namespace RegionsVerif.Props.C01
open RegionsVerif.Impl

/-- vertex `k` of `RegularPolygonPixelRegion._calc_vertices`: `center + radius·(cos θ_k, sin θ_k)`,
`θ_k = 2π/n·k + π/2 + angle` (here `θ0 = π/2 + angle`). -/
noncomputable def regVertex (c : Pt ℝ) (r θ0 : ℝ) (n : ℕ) (k : ℕ) : Pt ℝ :=
  ⟨c.x + r * Real.cos (θ0 + 2 * Real.pi / n * k), c.y + r * Real.sin (θ0 + 2 * Real.pi / n * k)⟩

noncomputable def regularPolygon (c : Pt ℝ) (r θ0 : ℝ) (n : ℕ) : List (Pt ℝ) :=
  (List.range n).map (regVertex c r θ0 n)

theorem sin_sum_identity (A B : ℝ) :
    Real.sin A + Real.sin B - Real.sin (A + B) = 4 * Real.sin (A / 2) * Real.sin (B / 2) * Real.sin ((A + B) / 2) := by
  have hA : A = 2 * (A / 2) := by ring
  have hB : B = 2 * (B / 2) := by ring
  have hAB : (A + B) / 2 = A / 2 + B / 2 := by ring
  rw [hAB]
  conv_lhs => rw [hA, hB, show 2 * (A / 2) + 2 * (B / 2) = 2 * (A / 2 + B / 2) by ring]
  simp only [Real.sin_two_mul, Real.sin_add, Real.cos_add]
  have s1 := Real.sin_sq_add_cos_sq (A / 2)
  have s2 := Real.sin_sq_add_cos_sq (B / 2)
  linear_combination (-2 * Real.sin (A / 2) * Real.cos (A / 2)) * s2 + (-2 * Real.sin (B / 2) * Real.cos (B / 2)) * s1

theorem orient_regular (c : Pt ℝ) (r θ0 : ℝ) (n i j k : ℕ) :
    orient (regVertex c r θ0 n i) (regVertex c r θ0 n j) (regVertex c r θ0 n k) =
      r ^ 2 * (4 * Real.sin (2 * Real.pi / n * ((j : ℝ) - i) / 2) * Real.sin (2 * Real.pi / n * ((k : ℝ) - j) / 2) *
        Real.sin (2 * Real.pi / n * ((k : ℝ) - i) / 2)) := by
  have h := sin_sum_identity (2 * Real.pi / n * ((j : ℝ) - i)) (2 * Real.pi / n * ((k : ℝ) - j))
  rw [show (2 * Real.pi / n * ((j : ℝ) - i) + 2 * Real.pi / n * ((k : ℝ) - j)) = 2 * Real.pi / n * ((k : ℝ) - i) by ring] at h
  rw [← h]
  have hA : 2 * Real.pi / n * ((j : ℝ) - i) = (θ0 + 2 * Real.pi / n * j) - (θ0 + 2 * Real.pi / n * i) := by ring
  have hB : 2 * Real.pi / n * ((k : ℝ) - j) = (θ0 + 2 * Real.pi / n * k) - (θ0 + 2 * Real.pi / n * j) := by ring
  have hC : 2 * Real.pi / n * ((k : ℝ) - i) = (θ0 + 2 * Real.pi / n * k) - (θ0 + 2 * Real.pi / n * i) := by ring
  rw [hA, hB, hC]
  simp only [Real.sin_sub]
  unfold orient regVertex
  simp only
  ring

/-- every ordered triple of vertices of a regular `n`-gon (`r > 0`) is counter-clockwise. -/
theorem orient_regular_pos (c : Pt ℝ) (r θ0 : ℝ) (hr : 0 < r) (n i j k : ℕ) (hij : i < j) (hjk : j < k) (hk : k < n) :
    0 < orient (regVertex c r θ0 n i) (regVertex c r θ0 n j) (regVertex c r θ0 n k) := by
  rw [orient_regular]
  have hn : (0 : ℝ) < n := by exact_mod_cast (by omega : 0 < n)
  have hpi := Real.pi_pos
  have pos : ∀ a b : ℕ, a < b → b < n →
      0 < Real.sin (2 * Real.pi / n * ((b : ℝ) - a) / 2) := by
    intro a b hab hb
    have h1 : (0 : ℝ) < (b : ℝ) - a := by
      have : (a : ℝ) < b := by exact_mod_cast hab
      linarith
    have h2 : (b : ℝ) - a < n := by
      have : (b : ℝ) < n := by exact_mod_cast hb
      have : (0 : ℝ) ≤ a := by positivity
      linarith
    apply Real.sin_pos_of_pos_of_lt_pi
    · positivity
    · have : 2 * Real.pi / n * ((b : ℝ) - a) / 2 = Real.pi * (((b : ℝ) - a) / n) := by field_simp
      rw [this]
      have : ((b : ℝ) - a) / n < 1 := by rw [div_lt_one hn]; exact h2
      nlinarith
  have p1 := pos i j hij (by omega)
  have p2 := pos j k hjk hk
  have p3 := pos i k (by omega) hk
  positivity

theorem convexCCW_map_sorted (c : Pt ℝ) (r θ0 : ℝ) (hr : 0 < r) (n : ℕ) :
    ∀ L : List ℕ, L.Pairwise (· < ·) → (∀ x ∈ L, x < n) → ConvexCCW (L.map (regVertex c r θ0 n))
  | [], _, _ => trivial
  | a :: L, hs, hb => by
    have hs' := List.pairwise_cons.mp hs
    refine ⟨?_, convexCCW_map_sorted c r θ0 hr n L hs'.2 (fun x hx => hb x (List.mem_cons_of_mem _ hx))⟩
    rw [List.pairwise_map]
    have : L.Pairwise (fun x y => x < y ∧ a < x ∧ y < n) := by
      have h1 := hs'.2
      refine List.Pairwise.imp_of_mem ?_ h1
      intro x y hx hy hxy
      exact ⟨hxy, hs'.1 x hx, hb y (List.mem_cons_of_mem _ hy)⟩
    exact this.imp (fun {x y} ⟨hxy, hax, hy⟩ => orient_regular_pos c r θ0 hr n a x y hax hxy hy)

/-- the regular polygon of the library is strictly convex and counter-clockwise … -/
theorem regularPolygon_convex (c : Pt ℝ) (r θ0 : ℝ) (hr : 0 < r) (n : ℕ) :
    ConvexCCW (regularPolygon c r θ0 n) :=
  convexCCW_map_sorted c r θ0 hr n (List.range n) (List.pairwise_lt_range) (fun x hx => List.mem_range.mp hx)

/-- … hence the even-odd implementation is correct on it: `true` on the open polygon (off the fan
diagonals of some vertex), `false` off the closed polygon — for every `n ≥ 3`, radius, centre and
orientation angle. -/
theorem pnpoly_regularPolygon (c : Pt ℝ) (r θ0 : ℝ) (hr : 0 < r) (n : ℕ) (hn : 3 ≤ n) (p : Pt ℝ) :
    ((polyInside (regularPolygon c r θ0 n) p ∧ ∃ k, offFan ((regularPolygon c r θ0 n).rotate k) p) →
        pnpoly (regularPolygon c r θ0 n) p = true) ∧
    (polyOutside (regularPolygon c r θ0 n) p → pnpoly (regularPolygon c r θ0 n) p = false) :=
  pnpoly_convex_final _ p (by unfold regularPolygon; simpa using hn) (regularPolygon_convex c r θ0 hr n)

end RegionsVerif.Props.C01

/-- the hypotheses are satisfiable: a pentagon of radius 2. -/
example : (3 : ℕ) ≤ 5 ∧ (0 : ℝ) < 2 := by norm_num
