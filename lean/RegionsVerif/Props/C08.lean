/-
C08 — compound regions and annuli obey set algebra.

`contains` of a compound is the operator applied to the operands' answers (negated as a whole
when the compound's own include flag is falsy); the centre-mode mask of ANY region expression
(simple shape, annulus, compound of any depth) has the expression's bounding box and holds
`1` exactly at the pixels whose centre is in the expression's point set, which for a compound
is the operator applied to the operands' masks placed on the union box; rotation and
translation commute with the operator by construction; an annulus contains outer minus inner
and its area is the difference.
-/
import RegionsVerif.Props.C02Mask
import RegionsVerif.Props.C04Box
import RegionsVerif.Props.C15

namespace RegionsVerif.Props.C08
open RegionsVerif.Impl RegionsVerif.Spec RegionsVerif.Props

section field
variable {α : Type} [Field α] [LinearOrder α] [IsStrictOrderedRing α]

/-! ### membership -/

theorem compound_contains (op : BoolOp) (r1 r2 : PReg α) (i : Include) (p : Pt α) :
    (PReg.compound op r1 r2 i).contains p = withInclude i (op.apply (r1.contains p) (r2.contains p)) := rfl

theorem compound_contains_included (op : BoolOp) (r1 r2 : PReg α) (i : Include) (hi : i.truthy = true)
    (p : Pt α) : (PReg.compound op r1 r2 i).contains p = op.apply (r1.contains p) (r2.contains p) := by
  simp [PReg.contains, withInclude, hi]

theorem compound_contains_excluded (op : BoolOp) (r1 r2 : PReg α) (i : Include) (hi : i.truthy = false)
    (p : Pt α) : (PReg.compound op r1 r2 i).contains p = !(op.apply (r1.contains p) (r2.contains p)) := by
  simp [PReg.contains, withInclude, hi]

/-- `|`, `&`, `^` are union, intersection and symmetric difference of the operands' answers. -/
theorem op_table (a b : Bool) :
    BoolOp.or.apply a b = (a || b) ∧ BoolOp.and.apply a b = (a && b) ∧ BoolOp.xor.apply a b = (a != b) := by
  cases a <;> cases b <;> simp [BoolOp.apply]

/-- rotation commutes with the operator (and keeps it, and the include flags). -/
theorem compound_rotate (op : BoolOp) (r1 r2 : PReg α) (i : Include) (o : Pt α) (d : Dir α) :
    (PReg.compound op r1 r2 i).rotate o d = PReg.compound op (r1.rotate o d) (r2.rotate o d) i := rfl

/-- an annulus contains exactly the positions inside its outer and not inside its inner shape. -/
theorem circle_annulus_contains (c : Pt α) (r1 r2 : α) (h0 : 0 < r1) (h : r1 < r2) (i : Include) (p : Pt α) :
    (PReg.circleAnnulus c r1 r2 i).contains p =
      withInclude i ((Circle.mk c r2).inRaw p && !(Circle.mk c r1).inRaw p) :=
  C01.annulus_contains i _ _ (C01.circle_nested c r1 r2 h0 h p)

theorem ellipse_annulus_contains (c : Pt α) (w1 h1 w2 h2 : α) (d : Dir α) (hw0 : 0 < w1) (hh0 : 0 < h1)
    (hw : w1 < w2) (hh : h1 < h2) (i : Include) (p : Pt α) :
    (PReg.ellipseAnnulus c w1 h1 w2 h2 d i).contains p =
      withInclude i ((Ellipse.mk c w2 h2 d).inRaw p && !(Ellipse.mk c w1 h1 d).inRaw p) :=
  C01.annulus_contains i _ _ (C01.ellipse_nested c d w1 h1 w2 h2 hw0 hh0 hw hh p)

theorem rect_annulus_contains (c : Pt α) (w1 h1 w2 h2 : α) (d : Dir α)
    (hw : w1 < w2) (hh : h1 < h2) (i : Include) (p : Pt α) :
    (PReg.rectAnnulus c w1 h1 w2 h2 d i).contains p =
      withInclude i ((Rect.mk c w2 h2 d).inRaw p && !(Rect.mk c w1 h1 d).inRaw p) :=
  C01.annulus_contains i _ _ (C01.rect_nested c d w1 h1 w2 h2 hw hh p)

/-- the area of an annulus is the difference of the outer and inner areas (as coefficients of
π and rational parts). -/
theorem annulus_area (c : Pt α) (r1 r2 : α) (i : Include) :
    (PReg.circleAnnulus c r1 r2 i).area =
      some (r2 ^ 2 - r1 ^ 2, 0) ∧
    (PReg.circle ⟨c, r2⟩ i).area = some (r2 ^ 2, 0) ∧ (PReg.circle ⟨c, r1⟩ i).area = some (r1 ^ 2, 0) := by
  simp [PReg.area]

theorem ellipse_annulus_area (c : Pt α) (w1 h1 w2 h2 : α) (d : Dir α) (i : Include) :
    (PReg.ellipseAnnulus c w1 h1 w2 h2 d i).area = some (w2 * h2 / 4 - w1 * h1 / 4, 0) ∧
    (PReg.ellipse ⟨c, w2, h2, d⟩ i).area = some (w2 * h2 / 4, 0) ∧
    (PReg.ellipse ⟨c, w1, h1, d⟩ i).area = some (w1 * h1 / 4, 0) := by
  simp [PReg.area]

theorem rect_annulus_area (c : Pt α) (w1 h1 w2 h2 : α) (d : Dir α) (i : Include) :
    (PReg.rectAnnulus c w1 h1 w2 h2 d i).area = some (0, w2 * h2 - w1 * h1) ∧
    (PReg.rect ⟨c, w2, h2, d⟩ i).area = some (0, w2 * h2) ∧
    (PReg.rect ⟨c, w1, h1, d⟩ i).area = some (0, w1 * h1) := by
  simp [PReg.area]

end field

/-! ### masks: padding to the union box and the operator -/

/-- `np.pad` placement: inside the union box `B`, the padded operand array read at `(j, i)` is the
operand's own cell for the same absolute pixel, and `0` where the operand's box does not reach.
(`B ⊇ m.bbox`, so the code's `abs(…)` are no-ops.) -/
theorem padCell_spec (m : GenMask) (B : BBox) (hle : cornerLe m.bbox B) (hwf : m.bbox.WF) (j i : Nat) :
    padCell m B j i =
      if inBox m.bbox (B.ixmin + i) (B.iymin + j)
      then m.cell (B.iymin + j - m.bbox.iymin).toNat (B.ixmin + i - m.bbox.ixmin).toNat else 0 := by
  unfold cornerLe at hle
  unfold BBox.WF at hwf
  unfold padCell
  simp only
  by_cases hb : inBox m.bbox (B.ixmin + i) (B.iymin + j)
  · have hb' := hb
    unfold inBox at hb'
    rw [if_pos hb, if_pos (by simp only [BBox.shape]; omega)]
    congr 1 <;> omega
  · have hb' := hb
    unfold inBox at hb'
    rw [if_neg hb, if_neg (by simp only [BBox.shape]; omega)]

/-- the value of a centre-mode pixel of a region expression: the kernels' own membership test
at the pixel centre (open disk, open ellipse, open rectangle, even-odd polygon), combined by
the operators; include flags do not enter masks. -/
def centerVal : PReg ℚ → Pt ℚ → Bool
  | .circle c _, p => c.inRaw p
  | .ellipse e _, p => C02.Ellipse.inStrict e p
  | .rect c _, p => c.inRaw p
  | .polygon g _, p => g.inRaw p
  | .circleAnnulus c r1 r2 _, p => Bool.xor ((Circle.mk c r1).inRaw p) ((Circle.mk c r2).inRaw p)
  | .ellipseAnnulus c w1 h1 w2 h2 d _, p =>
      Bool.xor (C02.Ellipse.inStrict ⟨c, w1, h1, d⟩ p) (C02.Ellipse.inStrict ⟨c, w2, h2, d⟩ p)
  | .rectAnnulus c w1 h1 w2 h2 d _, p => Bool.xor ((Rect.mk c w1 h1 d).inRaw p) ((Rect.mk c w2 h2 d).inRaw p)
  | .empty _ _ _ _, _ => false
  | .compound op r1 r2 _, p => op.apply (centerVal r1 p) (centerVal r2 p)

/-- a positive centre value puts the point in one of the component shapes. -/
theorem centerVal_inSomeShape (r : PReg ℚ) (p : Pt ℚ) (h : centerVal r p = true) : C04.inSomeShape r p := by
  induction r with
  | circle c i => exact h
  | ellipse e i => exact C02.ellipse_inStrict_imp_inRaw e p h
  | rect c i => exact h
  | polygon g i => exact h
  | circleAnnulus c r1 r2 i =>
    simp only [centerVal] at h
    cases h1 : (Circle.mk c r1).inRaw p <;> cases h2 : (Circle.mk c r2).inRaw p <;> simp_all [C04.inSomeShape]
  | ellipseAnnulus c w1 h1 w2 h2 d i =>
    simp only [centerVal] at h
    cases k1 : C02.Ellipse.inStrict ⟨c, w1, h1, d⟩ p <;> cases k2 : C02.Ellipse.inStrict ⟨c, w2, h2, d⟩ p <;>
      simp_all [C04.inSomeShape]
    · right; exact C02.ellipse_inStrict_imp_inRaw _ p k2
    · left; exact C02.ellipse_inStrict_imp_inRaw _ p k1
  | rectAnnulus c w1 h1 w2 h2 d i =>
    simp only [centerVal] at h
    cases k1 : (Rect.mk c w1 h1 d).inRaw p <;> cases k2 : (Rect.mk c w2 h2 d).inRaw p <;>
      simp_all [C04.inSomeShape]
  | empty k a b i => simp [centerVal] at h
  | compound op r1 r2 i ih1 ih2 =>
    simp only [centerVal] at h
    cases k1 : centerVal r1 p <;> cases k2 : centerVal r2 p
    · cases op <;> simp [BoolOp.apply, k1, k2] at h
    · exact Or.inr (ih2 k2)
    · exact Or.inl (ih1 k1)
    · exact Or.inl (ih1 k1)

/-- a pixel whose centre has a positive centre value lies in the expression's bounding box. -/
theorem centerVal_inBox (r : PReg ℚ) (hwf : C04.WFReg r) (b : BBox) (hb : r.bbox = .ok b) (x y : Int)
    (h : centerVal r ⟨x, y⟩ = true) : inBox b x y := by
  have := C04.bbox_encloses r hwf b hb ⟨x, y⟩ (centerVal_inSomeShape r _ h)
  unfold C04.inEdgeExtent at this
  simp only at this
  obtain ⟨h1, h2, h3, h4⟩ := this
  unfold inBox
  have e1 : ((b.ixmin : ℚ) - 1/2 ≤ x) → b.ixmin ≤ x := by
    intro hh
    have : ((b.ixmin : ℚ)) < (x : ℚ) + 1 := by linarith
    have : (b.ixmin : Int) < x + 1 := by exact_mod_cast this
    omega
  have e2 : ((x : ℚ) ≤ (b.ixmax : ℚ) - 1/2) → x < b.ixmax := by
    intro hh
    have : (x : ℚ) < (b.ixmax : ℚ) := by linarith
    exact_mod_cast this
  have e3 : ((b.iymin : ℚ) - 1/2 ≤ y) → b.iymin ≤ y := by
    intro hh
    have : ((b.iymin : ℚ)) < (y : ℚ) + 1 := by linarith
    have : (b.iymin : Int) < y + 1 := by exact_mod_cast this
    omega
  have e4 : ((y : ℚ) ≤ (b.iymax : ℚ) - 1/2) → y < b.iymax := by
    intro hh
    have : (y : ℚ) < (b.iymax : ℚ) := by linarith
    exact_mod_cast this
  exact ⟨e1 h1, e2 h2, e3 h3, e4 h4⟩

/-- a mask is the centre sampling of a Boolean point function `v`. -/
def MaskOK (v : Pt ℚ → Bool) (m : GenMask) : Prop :=
  m.bbox.WF ∧
  (∀ j i : Nat, (i : Int) < m.bbox.shape.2 → (j : Int) < m.bbox.shape.1 →
    m.cell j i = if v ⟨(m.bbox.ixmin : ℚ) + i, (m.bbox.iymin : ℚ) + j⟩ then 1 else 0) ∧
  (∀ x y : Int, v ⟨x, y⟩ = true → inBox m.bbox x y)

theorem intOp_ite (op : BoolOp) (a b : Bool) :
    intOp op (if a then 1 else 0) (if b then 1 else 0) = if op.apply a b then 1 else 0 := by
  have f0 : Rat.floor 0 = 0 := by decide
  have f1 : Rat.floor 1 = 1 := by decide
  cases a <;> cases b <;> cases op <;> simp [intOp, BoolOp.apply, f0, f1]

theorem op_true_imp (op : BoolOp) (a b : Bool) (h : op.apply a b = true) : a = true ∨ b = true := by
  cases a <;> cases b <;> cases op <;> simp_all [BoolOp.apply]

/-- **compound masks**: padding both operand masks to the union box and applying the operator
cell by cell gives the centre sampling of the operator applied to the operands' point
functions, on the union box. -/
theorem combine_ok (op : BoolOp) (v1 v2 : Pt ℚ → Bool) (m1 m2 M : GenMask)
    (h1 : MaskOK v1 m1) (h2 : MaskOK v2 m2) (h : combineMasks op m1 m2 = .ok M) :
    BBox.union m1.bbox m2.bbox = .ok M.bbox ∧ MaskOK (fun p => op.apply (v1 p) (v2 p)) M := by
  unfold combineMasks at h
  obtain ⟨B, hB, h⟩ := C02.bind_ok _ _ _ h
  have hB' := C02.mapError_ok _ _ _ hB
  simp only [pure, Except.pure, Except.ok.injEq] at h
  subst h
  obtain ⟨w1, c1, e1⟩ := h1
  obtain ⟨w2, c2, e2⟩ := h2
  obtain ⟨hBeq, hBwf⟩ := C19.ctor_value _ _ _ _ _ hB'
  obtain ⟨hu1, hu2⟩ := C19.union_upper m1.bbox m2.bbox B hB'
  refine ⟨hB', hBwf, ?_, ?_⟩
  · intro j i hi hj
    simp only at hi hj ⊢
    rw [padCell_spec m1 B hu1 w1, padCell_spec m2 B hu2 w2]
    -- each padded cell is the indicator of the operand's point function at this pixel
    have key : ∀ (m : GenMask) (v : Pt ℚ → Bool), cornerLe m.bbox B → m.bbox.WF →
        (∀ j i : Nat, (i : Int) < m.bbox.shape.2 → (j : Int) < m.bbox.shape.1 →
          m.cell j i = if v ⟨(m.bbox.ixmin : ℚ) + i, (m.bbox.iymin : ℚ) + j⟩ then 1 else 0) →
        (∀ x y : Int, v ⟨x, y⟩ = true → inBox m.bbox x y) →
        (if inBox m.bbox (B.ixmin + i) (B.iymin + j)
          then m.cell (B.iymin + j - m.bbox.iymin).toNat (B.ixmin + i - m.bbox.ixmin).toNat else (0 : ℚ))
          = if v ⟨(B.ixmin : ℚ) + i, (B.iymin : ℚ) + j⟩ then 1 else 0 := by
      intro m v _ _ hc he
      by_cases hb : inBox m.bbox (B.ixmin + i) (B.iymin + j)
      · have hb' := hb
        unfold inBox at hb'
        rw [if_pos hb, hc _ _ (by simp only [BBox.shape]; omega) (by simp only [BBox.shape]; omega)]
        have ex : (m.bbox.ixmin : ℚ) + ((B.ixmin + i - m.bbox.ixmin).toNat : ℕ) = (B.ixmin : ℚ) + i := by
          have : ((B.ixmin + i - m.bbox.ixmin).toNat : Int) = B.ixmin + i - m.bbox.ixmin :=
            Int.toNat_of_nonneg (by omega)
          have h2 : (((B.ixmin + i - m.bbox.ixmin).toNat : Int) : ℚ) = ((B.ixmin + i - m.bbox.ixmin : Int) : ℚ) := by
            rw [this]
          push_cast at h2; rw [h2]; ring
        have ey : (m.bbox.iymin : ℚ) + ((B.iymin + j - m.bbox.iymin).toNat : ℕ) = (B.iymin : ℚ) + j := by
          have : ((B.iymin + j - m.bbox.iymin).toNat : Int) = B.iymin + j - m.bbox.iymin :=
            Int.toNat_of_nonneg (by omega)
          have h2 : (((B.iymin + j - m.bbox.iymin).toNat : Int) : ℚ) = ((B.iymin + j - m.bbox.iymin : Int) : ℚ) := by
            rw [this]
          push_cast at h2; rw [h2]; ring
        rw [ex, ey]
      · rw [if_neg hb]
        have : v ⟨(B.ixmin : ℚ) + i, (B.iymin : ℚ) + j⟩ = false := by
          by_contra hv
          rw [Bool.not_eq_false] at hv
          have := he (B.ixmin + i) (B.iymin + j) (by push_cast; exact hv)
          exact hb this
        rw [this]; simp
    rw [key m1 v1 hu1 w1 c1 e1, key m2 v2 hu2 w2 c2 e2]
    exact intOp_ite op _ _
  · intro x y hv
    simp only at hv ⊢
    rcases op_true_imp op _ _ hv with hv | hv
    · have := e1 x y hv
      unfold cornerLe at hu1; unfold inBox at *; omega
    · have := e2 x y hv
      unfold cornerLe at hu2; unfold inBox at *; omega

/-! ### the centre-mode mask of any region expression -/

theorem union_of_le (a b : BBox) (h : cornerLe a b) (hb : b.WF) : BBox.union a b = .ok b := by
  unfold cornerLe at h
  unfold BBox.WF at hb
  unfold BBox.union BBox.mk? BBox.mkChecked
  have e1 : min a.ixmin b.ixmin = b.ixmin := by omega
  have e2 : max a.ixmax b.ixmax = b.ixmax := by omega
  have e3 : min a.iymin b.iymin = b.iymin := by omega
  have e4 : max a.iymax b.iymax = b.iymax := by omega
  rw [e1, e2, e3, e4]
  have h1 : ¬ b.ixmin > b.ixmax := by omega
  have h2 : ¬ b.iymin > b.iymax := by omega
  simp [h1, h2]

/-- `from_float` is monotone: a rectangle inside another gives a box inside the other's. -/
theorem bboxOfExtent_mono (e1 e2 : ℚ × ℚ × ℚ × ℚ) (b1 b2 : BBox)
    (h1 : bboxOfExtent e1 = .ok b1) (h2 : bboxOfExtent e2 = .ok b2)
    (h : e2.1 ≤ e1.1 ∧ e1.2.1 ≤ e2.2.1 ∧ e2.2.2.1 ≤ e1.2.2.1 ∧ e1.2.2.2 ≤ e2.2.2.2) : cornerLe b1 b2 := by
  unfold bboxOfExtent BBox.fromFloat at h1 h2
  obtain ⟨hb1, -⟩ := C19.ctor_value _ _ _ _ _ h1
  obtain ⟨hb2, -⟩ := C19.ctor_value _ _ _ _ _ h2
  subst hb1; subst hb2
  unfold cornerLe
  simp only
  exact ⟨Int.floor_mono (by linarith [h.1]), Int.ceil_mono (by linarith [h.2.1]),
         Int.floor_mono (by linarith [h.2.2.1]), Int.ceil_mono (by linarith [h.2.2.2])⟩

theorem floorSubSqrt_anti (a D1 D2 : ℚ) (h0 : 0 ≤ D1) (h : D1 ≤ D2) :
    floorSubSqrt a D2 ≤ floorSubSqrt a D1 := by
  rw [floorSubSqrt_spec a D2 (le_trans h0 h), floorSubSqrt_spec a D1 h0]
  apply Int.floor_mono
  have : Real.sqrt (D1 : ℚ) ≤ Real.sqrt (D2 : ℚ) := Real.sqrt_le_sqrt (by exact_mod_cast h)
  linarith

theorem ceilAddSqrt_mono (a D1 D2 : ℚ) (h0 : 0 ≤ D1) (h : D1 ≤ D2) :
    ceilAddSqrt a D1 ≤ ceilAddSqrt a D2 := by
  unfold ceilAddSqrt
  have := floorSubSqrt_anti (-a) D1 D2 h0 h
  omega

theorem ellipse_box_mono (c : Pt ℚ) (d : Dir ℚ) (w1 h1 w2 h2 : ℚ) (hw0 : 0 < w1) (hh0 : 0 < h1)
    (hw : w1 < w2) (hh : h1 < h2) (b1 b2 : BBox)
    (k1 : (Ellipse.mk c w1 h1 d).bboxQ = .ok b1) (k2 : (Ellipse.mk c w2 h2 d).bboxQ = .ok b2) :
    cornerLe b1 b2 := by
  unfold Ellipse.bboxQ at k1 k2
  simp only at k1 k2
  obtain ⟨hb1, -⟩ := C19.ctor_value _ _ _ _ _ k1
  obtain ⟨hb2, -⟩ := C19.ctor_value _ _ _ _ _ k2
  subst hb1; subst hb2
  have hx0 : 0 ≤ (Ellipse.mk c w1 h1 d).halfExtent2.1 := by simp only [Ellipse.halfExtent2]; positivity
  have hy0 : 0 ≤ (Ellipse.mk c w1 h1 d).halfExtent2.2 := by simp only [Ellipse.halfExtent2]; positivity
  have sc : ∀ (a b t : ℚ), 0 ≤ a → a ≤ b → (a * t) ^ 2 ≤ (b * t) ^ 2 := by
    intro a b t h0 hab
    rw [mul_pow, mul_pow]
    exact mul_le_mul_of_nonneg_right (pow_le_pow_left₀ h0 hab 2) (sq_nonneg t)
  have hx : (Ellipse.mk c w1 h1 d).halfExtent2.1 ≤ (Ellipse.mk c w2 h2 d).halfExtent2.1 := by
    simp only [Ellipse.halfExtent2]
    exact add_le_add (sc (1/2 * w1) (1/2 * w2) d.c (by positivity) (by linarith))
      (sc (1/2 * h1) (1/2 * h2) (-d.s) (by positivity) (by linarith))
  have hy : (Ellipse.mk c w1 h1 d).halfExtent2.2 ≤ (Ellipse.mk c w2 h2 d).halfExtent2.2 := by
    simp only [Ellipse.halfExtent2]
    exact add_le_add (sc (1/2 * w1) (1/2 * w2) d.s (by positivity) (by linarith))
      (sc (1/2 * h1) (1/2 * h2) d.c (by positivity) (by linarith))
  unfold cornerLe
  simp only
  exact ⟨floorSubSqrt_anti _ _ _ hx0 hx, ceilAddSqrt_mono _ _ _ hx0 hx,
         floorSubSqrt_anti _ _ _ hy0 hy, ceilAddSqrt_mono _ _ _ hy0 hy⟩

theorem leaf_ok_of (v : Pt ℚ → Bool) (m : GenMask) (r : PReg ℚ) (hwf : C04.WFReg r)
    (hb : r.bbox = .ok m.bbox)
    (hc : ∀ j i : Nat, (i : Int) < m.bbox.shape.2 → (j : Int) < m.bbox.shape.1 →
      m.cell j i = if v ⟨(m.bbox.ixmin : ℚ) + i, (m.bbox.iymin : ℚ) + j⟩ then 1 else 0)
    (hv : ∀ p, v p = centerVal r p) (hbwf : m.bbox.WF) : MaskOK v m := by
  refine ⟨hbwf, hc, ?_⟩
  intro x y h
  rw [hv] at h
  exact centerVal_inBox r hwf m.bbox hb x y h

theorem extent_box_wf (e : ℚ × ℚ × ℚ × ℚ) (b : BBox) (h : bboxOfExtent e = .ok b) : b.WF :=
  (C19.ctor_value _ _ _ _ _ h).2

theorem ellipse_box_wf (e : Ellipse ℚ) (b : BBox) (h : e.bboxQ = .ok b) : b.WF :=
  (C19.ctor_value _ _ _ _ _ h).2

theorem circle_leaf_ok (c : Circle ℚ) (hr : 0 < c.radius) (m : GenMask) (h : circleToMask c .center = .ok m) :
    bboxOfExtent c.extent = .ok m.bbox ∧ MaskOK (fun p => c.inRaw p) m := by
  have hb := (C02.circle_mask_spec c hr .center 1 rfl m h).1
  refine ⟨hb, ?_⟩
  exact leaf_ok_of _ m (.circle c .absent) hr hb
    (fun j i hi hj => C02.circle_center_mask c hr m h j i hi hj) (fun _ => rfl) (extent_box_wf _ _ hb)

theorem rect_leaf_ok (c : Rect ℚ) (hw : 0 < c.width) (hh : 0 < c.height) (hu : c.dir.IsUnit) (m : GenMask)
    (h : rectToMask c .center = .ok m) :
    bboxOfExtent c.extent = .ok m.bbox ∧ MaskOK (fun p => c.inRaw p) m := by
  have hb := (C02.rect_mask_spec c .center 1 rfl m h).1
  refine ⟨hb, ?_⟩
  exact leaf_ok_of _ m (.rect c .absent) ⟨hw, hh, hu⟩ hb
    (fun j i hi hj => C02.rect_center_mask c m h j i hi hj) (fun _ => rfl) (extent_box_wf _ _ hb)

theorem ellipse_leaf_ok (e : Ellipse ℚ) (hw : 0 < e.width) (hh : 0 < e.height) (hu : e.dir.IsUnit)
    (m : GenMask) (h : ellipseToMask e .center = .ok m) :
    e.bboxQ = .ok m.bbox ∧ MaskOK (fun p => C02.Ellipse.inStrict e p) m := by
  have hb := (C02.ellipse_mask_spec e hw hh hu .center 1 rfl m h).1
  refine ⟨hb, ?_⟩
  exact leaf_ok_of _ m (.ellipse e .absent) ⟨hw, hh, hu⟩ hb
    (fun j i hi hj => C02.ellipse_center_mask e hw hh hu m h j i hi hj) (fun _ => rfl) (ellipse_box_wf _ _ hb)

/-- **the centre-mode mask of every region expression** — simple shapes, the three annuli and
compounds of any depth: its box is the expression's bounding box, it holds only 0 and 1, and
cell `(j, i)` is `1` exactly when the centre of pixel `(ixmin + i, iymin + j)` is in the
expression's point set (operators applied to the operands' point sets). -/
theorem center_mask_spec (r : PReg ℚ) (hwf : C04.WFReg r) (m : GenMask) (h : r.toMask .center = .ok m) :
    r.bbox = .ok m.bbox ∧ MaskOK (centerVal r) m := by
  induction r generalizing m with
  | circle c i => exact circle_leaf_ok c hwf m h
  | ellipse e i => exact ellipse_leaf_ok e hwf.1 hwf.2.1 hwf.2.2 m h
  | rect c i => exact rect_leaf_ok c hwf.1 hwf.2.1 hwf.2.2 m h
  | polygon g i =>
    obtain ⟨⟨e, he, hb⟩, hc⟩ := C02.polygon_mask_spec g .center 1 rfl m h
    have hbb : (PReg.polygon g i).bbox = .ok m.bbox := by simp only [PReg.bbox, he]; exact hb
    refine ⟨hbb, ?_⟩
    exact leaf_ok_of _ m (.polygon g i) hwf hbb
      (fun j i' hi hj => C02.polygon_center_mask g m h j i' hi hj) (fun _ => rfl) (extent_box_wf _ _ hb)
  | circleAnnulus c r1 r2 i =>
    obtain ⟨h0, h12⟩ := hwf
    simp only [PReg.toMask, annulusToMask] at h
    obtain ⟨m1, hm1, h⟩ := C02.bind_ok _ _ _ h
    obtain ⟨m2, hm2, h⟩ := C02.bind_ok _ _ _ h
    obtain ⟨hb1, ok1⟩ := circle_leaf_ok ⟨c, r1⟩ h0 m1 hm1
    obtain ⟨hb2, ok2⟩ := circle_leaf_ok ⟨c, r2⟩ (by simp only; linarith) m2 hm2
    obtain ⟨hB, okM⟩ := combine_ok .xor _ _ m1 m2 m ok1 ok2 h
    refine ⟨?_, okM⟩
    -- the union of inner and outer box is the outer box
    have hle : cornerLe m1.bbox m2.bbox := by
      apply bboxOfExtent_mono _ _ _ _ hb1 hb2
      simp only [Circle.extent]
      refine ⟨by linarith, by linarith, by linarith, by linarith⟩
    rw [union_of_le _ _ hle ok2.1] at hB
    simp only [Except.ok.injEq] at hB
    show bboxOfExtent (Circle.mk c r2).extent = _
    rw [← hB]; exact hb2
  | ellipseAnnulus c w1 h1 w2 h2 d i =>
    obtain ⟨hw0, hh0, hw, hh, hu⟩ := hwf
    simp only [PReg.toMask, annulusToMask] at h
    obtain ⟨m1, hm1, h⟩ := C02.bind_ok _ _ _ h
    obtain ⟨m2, hm2, h⟩ := C02.bind_ok _ _ _ h
    obtain ⟨hb1, ok1⟩ := ellipse_leaf_ok ⟨c, w1, h1, d⟩ hw0 hh0 hu m1 hm1
    obtain ⟨hb2, ok2⟩ := ellipse_leaf_ok ⟨c, w2, h2, d⟩ (by simp only; linarith) (by simp only; linarith) hu m2 hm2
    obtain ⟨hB, okM⟩ := combine_ok .xor _ _ m1 m2 m ok1 ok2 h
    refine ⟨?_, okM⟩
    have hle : cornerLe m1.bbox m2.bbox := ellipse_box_mono c d w1 h1 w2 h2 hw0 hh0 hw hh _ _ hb1 hb2
    rw [union_of_le _ _ hle ok2.1] at hB
    simp only [Except.ok.injEq] at hB
    show (Ellipse.mk c w2 h2 d).bboxQ = _
    rw [← hB]; exact hb2
  | rectAnnulus c w1 h1 w2 h2 d i =>
    obtain ⟨hw0, hh0, hw, hh, hu⟩ := hwf
    simp only [PReg.toMask, annulusToMask] at h
    obtain ⟨m1, hm1, h⟩ := C02.bind_ok _ _ _ h
    obtain ⟨m2, hm2, h⟩ := C02.bind_ok _ _ _ h
    obtain ⟨hb1, ok1⟩ := rect_leaf_ok ⟨c, w1, h1, d⟩ hw0 hh0 hu m1 hm1
    obtain ⟨hb2, ok2⟩ := rect_leaf_ok ⟨c, w2, h2, d⟩ (by simp only; linarith) (by simp only; linarith) hu m2 hm2
    obtain ⟨hB, okM⟩ := combine_ok .xor _ _ m1 m2 m ok1 ok2 h
    refine ⟨?_, okM⟩
    have hle : cornerLe m1.bbox m2.bbox := by
      apply bboxOfExtent_mono _ _ _ _ hb1 hb2
      simp only [Rect.extent, C04.rect_halfExtent_eq ⟨c, w1, h1, d⟩ hw0 hh0,
        C04.rect_halfExtent_eq ⟨c, w2, h2, d⟩ (by simp only; linarith) (by simp only; linarith)]
      have a1 : w1 / 2 * |d.c| ≤ w2 / 2 * |d.c| := by nlinarith [abs_nonneg d.c]
      have a2 : h1 / 2 * |d.s| ≤ h2 / 2 * |d.s| := by nlinarith [abs_nonneg d.s]
      have a3 : w1 / 2 * |d.s| ≤ w2 / 2 * |d.s| := by nlinarith [abs_nonneg d.s]
      have a4 : h1 / 2 * |d.c| ≤ h2 / 2 * |d.c| := by nlinarith [abs_nonneg d.c]
      refine ⟨by linarith, by linarith, by linarith, by linarith⟩
    rw [union_of_le _ _ hle ok2.1] at hB
    simp only [Except.ok.injEq] at hB
    show bboxOfExtent (Rect.mk c w2 h2 d).extent = _
    rw [← hB]; exact hb2
  | empty k a b i => simp [PReg.toMask] at h
  | compound op r1 r2 i ih1 ih2 =>
    simp only [PReg.toMask] at h
    obtain ⟨m1, hm1, h⟩ := C02.bind_ok _ _ _ h
    obtain ⟨m2, hm2, h⟩ := C02.bind_ok _ _ _ h
    obtain ⟨hb1, ok1⟩ := ih1 hwf.1 m1 hm1
    obtain ⟨hb2, ok2⟩ := ih2 hwf.2 m2 hm2
    obtain ⟨hB, okM⟩ := combine_ok op _ _ m1 m2 m ok1 ok2 h
    refine ⟨?_, okM⟩
    simp only [PReg.bbox, hb1, hb2, bind, Except.bind]
    exact hB

end RegionsVerif.Props.C08
