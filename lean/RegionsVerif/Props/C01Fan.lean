/-
C01 / C15 (ARBITRARY polygons, generic position) — the ray-casting implementation `Impl.pnpoly`
computes the FAN PARITY: the number of fan triangles `(v0, v_i, v_{i+1})` containing the point,
modulo 2 — for every vertex list (convex or not, self-intersecting or not) whenever no fan triangle
is degenerate and the point is on none of the fan lines.  The fan parity mentions no ray and no
direction, so the even-odd answer is invariant under rotation there (`pnpoly_rotate_generic`):
the polygon clause of C15 holds in generic position without a Jordan-curve argument.  (That the fan
parity of a SIMPLE polygon is its interior is the classical triangulation fact; proved here for
triangles, strictly convex polygons, regular polygons and rectangles.)
-/
import RegionsVerif.Props.C01Convex

namespace RegionsVerif.Props.C01
open RegionsVerif.Impl

section field
variable {α : Type} [Field α] [LinearOrder α] [IsStrictOrderedRing α]

/-- strictly inside the (non-degenerate) triangle `a b c`, either orientation. -/
def triIn (a b c p : Pt α) : Bool :=
  decide (0 < orient a b c * orient a b p ∧ 0 < orient a b c * orient b c p ∧ 0 < orient a b c * orient c a p)

/-- **fan parity**: the number of fan triangles `(v0, v_i, v_{i+1})` that contain `p`, modulo 2 —
a definition of even-odd filling that does not mention rays or directions. -/
def fanParity (v0 : Pt α) : List (Pt α) → Pt α → Bool
  | v1 :: v2 :: rest, p => triIn v0 v1 v2 p ^^ fanParity v0 (v2 :: rest) p
  | _, _ => false

/-- generic position: no fan triangle is degenerate and `p` is on none of the lines through two
vertices of a fan triangle. -/
def fanGeneric (v0 : Pt α) : List (Pt α) → Pt α → Prop
  | v1 :: v2 :: rest, p =>
      orient v0 v1 v2 ≠ 0 ∧ orient v0 v1 p ≠ 0 ∧ orient v1 v2 p ≠ 0 ∧ orient v2 v0 p ≠ 0 ∧ fanGeneric v0 (v2 :: rest) p
  | _, _ => True

theorem pnpoly_tri_eq_triIn (a b c p : Pt α) (hD : orient a b c ≠ 0)
    (h1 : orient a b p ≠ 0) (h2 : orient b c p ≠ 0) (h3 : orient c a p ≠ 0) :
    pnpoly [a, b, c] p = triIn a b c p := by
  have T := pnpoly_triangle a b c p hD
  have m1 : orient a b c * orient a b p ≠ 0 := mul_ne_zero hD h1
  have m2 : orient a b c * orient b c p ≠ 0 := mul_ne_zero hD h2
  have m3 : orient a b c * orient c a p ≠ 0 := mul_ne_zero hD h3
  by_cases hin : 0 < orient a b c * orient a b p ∧ 0 < orient a b c * orient b c p ∧ 0 < orient a b c * orient c a p
  · rw [T.1 hin]; unfold triIn; simp [hin]
  · have hout : orient a b c * orient a b p < 0 ∨ orient a b c * orient b c p < 0 ∨ orient a b c * orient c a p < 0 := by
      by_contra hno
      rw [not_or, not_or, not_lt, not_lt, not_lt] at hno
      exact hin ⟨lt_of_le_of_ne hno.1 (Ne.symm m1), lt_of_le_of_ne hno.2.1 (Ne.symm m2), lt_of_le_of_ne hno.2.2 (Ne.symm m3)⟩
    rw [T.2 hout]; unfold triIn; simp [hin]

/-- **Every polygon** (convex or not, simple or not): in generic position the ray-casting
implementation computes the fan parity.  (`pnpoly_fan` is exact; the triangle theorem decides each
ear.) -/
theorem pnpoly_eq_fanParity (v0 p : Pt α) :
    ∀ (R : List (Pt α)) (v1 v2 : Pt α), fanGeneric v0 (v1 :: v2 :: R) p →
      pnpoly (v0 :: v1 :: v2 :: R) p = fanParity v0 (v1 :: v2 :: R) p := by
  intro R
  induction R with
  | nil =>
    intro v1 v2 hg
    obtain ⟨hD, h1, h2, h3, _⟩ := hg
    rw [pnpoly_tri_eq_triIn v0 v1 v2 p hD h1 h2 h3]
    simp [fanParity]
  | cons v3 R' ih =>
    intro v1 v2 hg
    obtain ⟨hD, h1, h2, h3, hrest⟩ := hg
    rw [pnpoly_fan, pnpoly_tri_eq_triIn v0 v1 v2 p hD h1 h2 h3, ih v2 v3 hrest]
    rfl

/-! ### hence rotation invariance for EVERY polygon, in generic position (C15) -/

theorem triIn_rotate (a b c p o : Pt α) (d : Dir α) (hd : d.c ^ 2 + d.s ^ 2 = 1) :
    triIn (a.rotate o d) (b.rotate o d) (c.rotate o d) (p.rotate o d) = triIn a b c p := by
  unfold triIn; simp only [orient_rotate _ _ _ _ _ hd]

theorem fanParity_rotate (v0 o : Pt α) (d : Dir α) (hd : d.c ^ 2 + d.s ^ 2 = 1) (p : Pt α) :
    ∀ L : List (Pt α), fanParity (v0.rotate o d) (L.map fun v => v.rotate o d) (p.rotate o d) = fanParity v0 L p
  | [] => rfl
  | [_] => rfl
  | v1 :: v2 :: rest => by
    have ih := fanParity_rotate v0 o d hd p (v2 :: rest)
    simp only [List.map_cons] at ih ⊢
    simp only [fanParity, triIn_rotate _ _ _ _ _ _ hd, ih]

theorem fanGeneric_rotate (v0 o : Pt α) (d : Dir α) (hd : d.c ^ 2 + d.s ^ 2 = 1) (p : Pt α) :
    ∀ L : List (Pt α), fanGeneric (v0.rotate o d) (L.map fun v => v.rotate o d) (p.rotate o d) ↔ fanGeneric v0 L p
  | [] => Iff.rfl
  | [_] => Iff.rfl
  | v1 :: v2 :: rest => by
    have ih := fanGeneric_rotate v0 o d hd p (v2 :: rest)
    simp only [List.map_cons] at ih ⊢
    simp only [fanGeneric, orient_rotate _ _ _ _ _ hd, ih]

/-- **Rotation invariance of the even-odd answer for arbitrary polygons**: for a vertex list with
at least three vertices in generic position with respect to `p`, the rotated polygon answers at the
rotated point what the polygon answers at `p`. -/
theorem pnpoly_rotate_generic (v0 v1 v2 : Pt α) (R : List (Pt α)) (p o : Pt α) (d : Dir α)
    (hd : d.c ^ 2 + d.s ^ 2 = 1) (hg : fanGeneric v0 (v1 :: v2 :: R) p) :
    pnpoly ((v0 :: v1 :: v2 :: R).map fun v => v.rotate o d) (p.rotate o d) = pnpoly (v0 :: v1 :: v2 :: R) p := by
  have hg' := (fanGeneric_rotate v0 o d hd p (v1 :: v2 :: R)).mpr hg
  simp only [List.map_cons] at hg' ⊢
  rw [pnpoly_eq_fanParity _ _ _ _ _ hg', pnpoly_eq_fanParity _ _ _ _ _ hg]
  have := fanParity_rotate v0 o d hd p (v1 :: v2 :: R)
  simp only [List.map_cons] at this
  exact this

end field

/-- non-vacuity: a non-convex (arrow-shaped) polygon and a point in generic position. -/
example : fanGeneric (⟨0, 0⟩ : Pt ℚ) [⟨4, 0⟩, ⟨1, 1⟩, ⟨0, 4⟩] ⟨2, 1/3⟩ ∧
    pnpoly [(⟨0, 0⟩ : Pt ℚ), ⟨4, 0⟩, ⟨1, 1⟩, ⟨0, 4⟩] ⟨2, 1/3⟩ = true ∧
    fanParity (⟨0, 0⟩ : Pt ℚ) [⟨4, 0⟩, ⟨1, 1⟩, ⟨0, 4⟩] ⟨2, 1/3⟩ = true := by
  refine ⟨?_, by decide +kernel, by decide +kernel⟩
  simp only [fanGeneric, orient]; norm_num

end RegionsVerif.Props.C01
