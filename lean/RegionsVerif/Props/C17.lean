/-
C17 — no sequence of constructions and assignments yields an invalid region.

Theorems about `Impl/Validate.lean` (the model of `regions/core/attributes.py`, `metadata.py`,
`regions.py` and the shape constructors) against the documented domains (`inDomain`, `Valid`).

Every clause of the property is stated at full strength.  After the repairs of findings F11,
F12a/b, F13a/b, F14b, F14c (see `known_findings/C17.json`) every clause is PROVED at full
strength for the model of the current code, with one exception: F14 (annulus inner < outer is
not checked on assignment) is open, so `valid_invariant_full` is refuted with a concrete witness
and `valid_invariant_partial` is proved under the decidable predicate that excludes exactly
that input class; `valid_invariant_no_annulus` is the full-strength statement for every class
without an (inner, outer) pair, for metadata objects and for region lists.

The only standing hypothesis on inputs is well-formedness of VALUES that are themselves objects
of this library: a `RegionMeta` / `RegionVisual` value has its keys in the vocabulary (`metaWF`,
which `meta_entry_points` + `meta_ctor_keysOk` establish for every such object), and the
`Regions` argument of `extend` is a list of regions (`listOpWF`, by `regions_list_typed`).
-/
import RegionsVerif.Impl.Validate

set_option linter.unusedSimpArgs false

namespace RegionsVerif.Props.C17
open RegionsVerif.Impl.Validate

/-! ## 0. Well-formed input values -/

/-- a `RegionMeta` / `RegionVisual` VALUE whose keys are in its vocabulary: the class invariant of
`Meta` objects (`meta_ctor_keysOk`, `meta_entry_points`). -/
def metaWF (v : Val) : Bool :=
  (v.kind != .regionMeta || keysIn metaKeys v.items) &&
  (v.kind != .regionVisual || keysIn visualKeys v.items)

/-! ## 1. Validators: accepted ⇒ documented domain, documented domain ⇒ accepted -/

theorem le_zero_false {n : Num} (h : Num.le n (.fin 0) = false) (hf : n.isFinite = true) :
    ∃ q, n = .fin q ∧ 0 < q := by
  cases n with
  | fin q =>
    refine ⟨q, rfl, ?_⟩
    simp only [Num.le, decide_eq_false_iff_not, not_le] at h
    exact h
  | pinf => cases hf
  | ninf => cases hf
  | nan => cases hf

theorem zero_lt_true {n : Num} (h : Num.lt (.fin 0) n = true) (hf : n.isFinite = true) :
    ∃ q, n = .fin q ∧ 0 < q := by
  cases n with
  | fin q =>
    refine ⟨q, rfl, ?_⟩
    simpa [Num.lt] using h
  | pinf => cases hf
  | ninf => cases hf
  | nan => cases hf

/-- **validator_sound** (full strength, all 12 descriptor kinds): whatever a validator accepts
lies in the documented domain – in particular no NaN, no ±∞, no zero / negative size, no
non-scalar, no wrong-kind coordinate, no non-angular quantity.  (F11 fixed in 7575e32.) -/
theorem validator_sound (d : Descr) (v : Val) (hwf : metaWF v = true)
    (h : validate d v = .ok ()) : inDomain d v = true := by
  cases d with
  | scalarPix =>
    simp only [validate] at h
    split at h
    · rename_i hc; simp [inDomain, hc.1, hc.2]
    · cases h
  | oneDPix =>
    simp only [validate] at h
    split at h
    · rename_i hc; simp [inDomain, hc.1, hc.2.1, hc.2.2]
    · cases h
  | posScalar =>
    simp only [validate] at h
    by_cases hq : v.kind = .quantity
    · simp [hq] at h
    · by_cases hs : v.npIsScalar = false
      · simp [hq, hs] at h
      · by_cases hr : v.isReal = true
        · cases hle : Num.le v.num (.fin 0)
          · by_cases hf : v.num.isFinite = true
            · obtain ⟨q, hq', hpos⟩ := le_zero_false hle hf
              simp only [Bool.not_eq_false] at hs
              simp [inDomain, hr, hs, hq', hpos]
            · simp [hq, hs, pyLeZero, hr, hle, hf] at h
          · simp [hq, hs, pyLeZero, hr, hle] at h
        · simp [hq, hs, pyLeZero, hr] at h
  | scalarSky =>
    simp only [validate] at h
    split at h
    · rename_i hc; simp [inDomain, hc.1, hc.2]
    · cases h
  | oneDSky =>
    simp only [validate] at h
    split at h
    · rename_i hc; simp [inDomain, hc.1, hc.2]
    · cases h
  | scalarAngle =>
    simp only [validate] at h
    split at h
    · rename_i hk
      split at h
      · cases h
      · rename_i hs
        split at h
        · cases h
        · rename_i hp
          simp only [Bool.not_eq_false] at hs
          simp only [ne_eq, Decidable.not_not] at hp
          simp [inDomain, hk, hs, hp]
    · cases h
  | posScalarAngle =>
    simp only [validate] at h
    split at h
    · rename_i hk
      split at h
      · cases h
      · rename_i hs
        split at h
        · cases h
        · rename_i hp
          split at h
          · cases h
          · rename_i hlt
            split at h
            · rename_i hf
              simp only [Bool.not_eq_false] at hs hlt
              simp only [ne_eq, Decidable.not_not] at hp
              obtain ⟨q, hq', hpos⟩ := zero_lt_true hlt hf
              simp [inDomain, hk, hs, hp, hq', hpos]
            · cases h
    · cases h
  | regionType sky =>
    cases sky <;> simp only [validate, Bool.false_eq_true, ↓reduceIte] at h <;>
    · split at h
      · rename_i hc; simp [inDomain, hc]
      · cases h
  | rmeta =>
    simp only [validate] at h
    split at h
    · rename_i hc
      simp only [metaWF, hc, bne_self_eq_false, Bool.false_or, Bool.and_eq_true] at hwf
      simp [inDomain, hc, hwf.1]
    · cases h
  | rvisual =>
    simp only [validate] at h
    split at h
    · rename_i hc
      simp only [metaWF, hc, bne_self_eq_false, Bool.false_or, Bool.and_eq_true] at hwf
      simp [inDomain, hc, hwf.2]
    · cases h
  | text =>
    simp only [validate] at h
    split at h
    · rename_i hc; simp [inDomain, hc]
    · cases h

/-- the catalogue's special values, now all rejected. -/
example : validate .posScalar { kind := .pyFloat, scalar := true, num := .nan } = .error .valueError := by
  decide
example : validate .posScalar { kind := .npScalar, scalar := true, num := .pinf } = .error .valueError := by
  decide
example : validate .posScalarAngle
    { kind := .quantity, scalar := true, phys := .angle, num := .pinf } = .error .valueError := by decide
/-- `'abc' <= 0` raises `TypeError`. -/
example : validate .posScalar { kind := .pyStr, scalar := true } = .error .typeError := by decide

/-- **validator_complete**: every value of the documented domain is accepted (no valid region is
refused). -/
theorem validator_complete (d : Descr) (v : Val) (h : inDomain d v = true) :
    validate d v = .ok () := by
  cases d with
  | scalarPix =>
    simp only [inDomain, Bool.and_eq_true, beq_iff_eq] at h
    simp [validate, h.1, h.2]
  | oneDPix =>
    simp only [inDomain, Bool.and_eq_true, beq_iff_eq, Bool.not_eq_true'] at h
    simp [validate, h.1.1, h.1.2, h.2]
  | posScalar =>
    simp only [inDomain, Bool.and_eq_true] at h
    obtain ⟨⟨hr, hs⟩, hn⟩ := h
    have hk : v.kind ≠ .quantity := by
      intro hk; simp [Val.isReal, hk] at hr
    cases hnum : v.num with
    | fin q =>
      rw [hnum] at hn
      simp only [decide_eq_true_eq] at hn
      have hd : decide (q ≤ 0) = false := by simpa using hn
      simp [validate, hk, hs, pyLeZero, hr, hnum, Num.le, hd, Num.isFinite]
    | pinf => rw [hnum] at hn; simp at hn
    | ninf => rw [hnum] at hn; simp at hn
    | nan => rw [hnum] at hn; simp at hn
  | scalarSky =>
    simp only [inDomain, Bool.and_eq_true, beq_iff_eq] at h
    simp [validate, h.1, h.2]
  | oneDSky =>
    simp only [inDomain, Bool.and_eq_true, beq_iff_eq] at h
    simp [validate, h.1, h.2]
  | scalarAngle =>
    simp only [inDomain, Bool.and_eq_true, beq_iff_eq] at h
    simp [validate, h.1.1, h.1.2, h.2]
  | posScalarAngle =>
    simp only [inDomain, Bool.and_eq_true, beq_iff_eq] at h
    obtain ⟨⟨⟨hk, hs⟩, hp⟩, hn⟩ := h
    cases hnum : v.num with
    | fin q =>
      rw [hnum] at hn
      simp only [decide_eq_true_eq] at hn
      simp [validate, hk, hs, hp, hnum, Num.lt, hn, Num.isFinite]
    | pinf => rw [hnum] at hn; simp at hn
    | ninf => rw [hnum] at hn; simp at hn
    | nan => rw [hnum] at hn; simp at hn
  | regionType sky =>
    simp only [inDomain, beq_iff_eq] at h
    simp [validate, h]
  | rmeta =>
    simp only [inDomain, Bool.and_eq_true, beq_iff_eq] at h
    simp [validate, h.1]
  | rvisual =>
    simp only [inDomain, Bool.and_eq_true, beq_iff_eq] at h
    simp [validate, h.1]
  | text =>
    simp only [inDomain, beq_iff_eq] at h
    simp [validate, h]

/-- both directions are inhabited: a finite positive radius is in the domain and accepted. -/
example : let v : Val := { kind := .pyFloat, scalar := true, num := .fin 3 }
    metaWF v = true ∧ inDomain .posScalar v = true ∧ validate .posScalar v = .ok () := by decide

/-- a validator rejects with `ValueError` or `TypeError` only. -/
theorem validate_exception_class (d : Descr) (v : Val) (e : Exc) (h : validate d v = .error e) :
    e = .valueError ∨ e = .typeError := by
  cases d with
  | posScalar =>
    simp only [validate, pyLeZero] at h
    by_cases hr : v.isReal = true
    · simp only [hr, if_true] at h
      (repeat' split at h) <;> simp_all
    · simp only [hr] at h
      (repeat' split at h) <;> simp_all
  | _ =>
    simp only [validate] at h
    (repeat' split at h) <;> simp_all
/-! ## 2. Field maps (`instance.__dict__`) -/

theorem lookup_cons' {α : Type} (g k : String) (w : α) (t : List (String × α)) :
    List.lookup g ((k, w) :: t) = if g = k then some w else List.lookup g t := by
  by_cases h : g = k
  · subst h; simp [List.lookup]
  · have hb : (g == k) = false := by simpa using h
    simp [List.lookup, hb, h]

theorem fget_fset (fs : Fields) (f g : String) (v : Val) :
    fget (fset fs f v) g = if g = f then some v else fget fs g := by
  induction fs with
  | nil =>
    simp only [fset, fget, lookup_cons', List.lookup]
  | cons hd t ih =>
    obtain ⟨h, w⟩ := hd
    simp only [fget] at ih
    by_cases hf : h = f
    · subst hf
      by_cases hg : g = h <;> simp [fset, fget, lookup_cons', hg]
    · by_cases hg : g = h
      · subst hg
        simp [fset, fget, hf]
      · simp [fset, fget, lookup_cons', hf, hg, ih]

theorem fget_ferase (fs : Fields) (f g : String) (h : g ≠ f) :
    fget (ferase fs f) g = fget fs g := by
  induction fs with
  | nil => rfl
  | cons hd t ih =>
    obtain ⟨k, w⟩ := hd
    simp only [fget, ferase] at ih
    by_cases hk : k = f
    · subst hk
      simp [ferase, fget, lookup_cons', List.filter, h, ih]
    · have hb : (k != f) = true := by simpa using hk
      by_cases hg : g = k
      · subst hg; simp [ferase, fget, List.filter, hb]
      · simp [ferase, fget, lookup_cons', List.filter, hb, hg, ih]

theorem RObj.get_set (o : RObj) (f g : String) (v : Val) :
    (o.set f v).get g = if g = f then some v else o.get g := fget_fset o.fields f g v

/-- what a successful `setattr` did: the class-level check passed, the value was (converted and)
validated by the descriptor, and only then stored. -/
theorem core_ok {o o' : RObj} {f : String} {v : Val} (h : o.assignCore f v = .ok o') :
    nvertsPre o f v = .ok () ∧
    ∃ v', o' = o.set f v' ∧
      ((∃ d, (attrs o.cls).lookup f = some (.descr d) ∧ coerce d v = .ok v' ∧ validate d v' = .ok ()) ∨
       (((attrs o.cls).lookup f = some .plain ∨ (attrs o.cls).lookup f = none) ∧ v' = v)) := by
  unfold RObj.assignCore at h
  cases hn : nvertsPre o f v with
  | error e => rw [hn] at h; cases h
  | ok u =>
    rw [hn] at h
    simp only at h
    refine ⟨rfl, ?_⟩
    split at h
    · rename_i d hl
      split at h
      · cases h
      · rename_i v' hc
        split at h
        · cases h
        · rename_i hv
          simp only [Except.ok.injEq] at h
          exact ⟨v', h.symm, Or.inl ⟨d, hl, hc, hv⟩⟩
    · cases h
    · rename_i hl
      simp only [Except.ok.injEq] at h
      exact ⟨v, h.symm, Or.inr ⟨Or.inl hl, rfl⟩⟩
    · rename_i hl
      simp only [Except.ok.injEq] at h
      exact ⟨v, h.symm, Or.inr ⟨Or.inr hl, rfl⟩⟩

/-- `coerce` only touches `meta` / `visual`. -/
theorem coerce_id (d : Descr) (v : Val) (h1 : d ≠ .rmeta) (h2 : d ≠ .rvisual) : coerce d v = .ok v := by
  cases d <;> simp_all [coerce]

/-- **core_readback**: after an accepted assignment the attribute reads back as the assigned value
(for `meta` / `visual`: as its `RegionMeta` / `RegionVisual` conversion), every other attribute is
untouched and the class is unchanged. -/
theorem core_readback {o o' : RObj} {f : String} {v : Val} (h : o.assignCore f v = .ok o') :
    o'.cls = o.cls ∧ (∀ g, g ≠ f → o'.get g = o.get g) ∧
    ∃ v', o'.get f = some v' ∧
      (∀ d, (attrs o.cls).lookup f = some (.descr d) → coerce d v = .ok v') ∧
      (∀ d, (attrs o.cls).lookup f = some (.descr d) → d ≠ .rmeta → d ≠ .rvisual → v' = v) ∧
      ((attrs o.cls).lookup f = some .plain ∨ (attrs o.cls).lookup f = none → v' = v) := by
  obtain ⟨_, v', rfl, hcase⟩ := core_ok h
  refine ⟨rfl, fun g hg => by simp [RObj.get_set, hg], v', by simp [RObj.get_set], ?_, ?_, ?_⟩
  · intro d hd
    rcases hcase with ⟨d', hd', hc, _⟩ | ⟨hl, _⟩
    · rw [hd] at hd'; cases hd'; exact hc
    · rcases hl with hl | hl <;> rw [hd] at hl <;> cases hl
  · intro d hd h1 h2
    rcases hcase with ⟨d', hd', hc, _⟩ | ⟨hl, _⟩
    · rw [hd] at hd'; cases hd'
      rw [coerce_id d v h1 h2] at hc
      cases hc; rfl
    · rcases hl with hl | hl <;> rw [hd] at hl <;> cases hl
  · intro hl
    rcases hcase with ⟨d', hd', _, _⟩ | ⟨_, hv⟩
    · rcases hl with hl | hl <;> rw [hd'] at hl <;> cases hl
    · exact hv

/-! ## 3. Metadata dictionaries -/

/-- the key is in the class vocabulary after key mapping. -/
def keyValid (vis : Bool) (k : String) : Bool := (vocabulary vis).contains (mapKey vis k)

theorem keysIn_iff (vocab : List String) (d : Items) :
    keysIn vocab d = true ↔ ∀ kv ∈ d, vocab.contains kv.1 = true := by
  simp [keysIn, List.all_eq_true]

theorem mem_dictSet {d : Items} {k v : String} {kv : String × String} (h : kv ∈ dictSet d k v) :
    kv ∈ d ∨ kv = (k, v) := by
  induction d with
  | nil => simp only [dictSet, List.mem_singleton] at h; exact Or.inr h
  | cons hd t ih =>
    obtain ⟨k', v'⟩ := hd
    by_cases hk : k' = k
    · simp only [dictSet, hk, if_true] at h
      rcases List.mem_cons.mp h with h | h
      · exact Or.inr h
      · exact Or.inl (List.mem_cons_of_mem _ h)
    · simp only [dictSet, hk, if_false] at h
      rcases List.mem_cons.mp h with h | h
      · exact Or.inl (h ▸ List.mem_cons_self ..)
      · rcases ih h with h | h
        · exact Or.inl (List.mem_cons_of_mem _ h)
        · exact Or.inr h

theorem keysIn_dictSet {vocab : List String} {d : Items} {k v : String}
    (hd : keysIn vocab d = true) (hk : vocab.contains k = true) :
    keysIn vocab (dictSet d k v) = true := by
  rw [keysIn_iff] at hd ⊢
  intro kv hkv
  rcases mem_dictSet hkv with h | h
  · exact hd kv h
  · subst h; exact hk

theorem dictHas_dictSet (d : Items) (k v : String) : dictHas (dictSet d k v) k = true := by
  induction d with
  | nil => simp [dictSet, dictHas]
  | cons hd t ih =>
    obtain ⟨k', v'⟩ := hd
    simp only [dictHas] at ih
    by_cases hk : k' = k
    · simp [dictSet, dictHas, hk]
    · simp only [dictSet, hk, if_false, dictHas, List.any_cons, Bool.or_eq_true]
      exact Or.inr ih

theorem setitem_ok {m m' : MetaObj} {k v : String} (h : m.setitem k v = .ok m') :
    keyValid m.vis k = true ∧ m' = { m with items := dictSet m.items (mapKey m.vis k) v } := by
  unfold MetaObj.setitem at h
  simp only at h
  split at h
  · rename_i hc; cases h; exact ⟨hc, rfl⟩
  · cases h

theorem setitem_err {m : MetaObj} {k v : String} {e : Exc} (h : m.setitem k v = .error e) :
    e = .keyError ∧ keyValid m.vis k = false := by
  unfold MetaObj.setitem at h
  simp only at h
  split at h
  · cases h
  · rename_i hc; cases h; exact ⟨rfl, by simpa [keyValid] using hc⟩

theorem setitem_keysOk {m m' : MetaObj} {k v : String} (h : m.setitem k v = .ok m')
    (hk : m.keysOk = true) : m'.keysOk = true ∧ m'.vis = m.vis := by
  obtain ⟨hv, rfl⟩ := setitem_ok h
  exact ⟨keysIn_dictSet hk hv, rfl⟩

/-- the sequential store loop keeps the class and the vocabulary invariant (also when it stops
early), and raises only `KeyError`. -/
theorem setAll_inv (m : MetaObj) (l : Items) :
    (m.setAll l).1.vis = m.vis ∧ (m.keysOk = true → (m.setAll l).1.keysOk = true) ∧
    (∀ e, (m.setAll l).2 = .err e → e = .keyError) := by
  induction l generalizing m with
  | nil => simp [MetaObj.setAll]
  | cons hd t ih =>
    obtain ⟨k, v⟩ := hd
    simp only [MetaObj.setAll]
    cases hs : m.setitem k v with
    | error e =>
      obtain ⟨he, _⟩ := setitem_err hs
      simp [he]
    | ok m' =>
      obtain ⟨hv, rfl⟩ := setitem_ok hs
      have := ih { m with items := dictSet m.items (mapKey m.vis k) v }
      exact ⟨this.1, fun hk => this.2.1 (keysIn_dictSet hk hv), this.2.2⟩

theorem setAll_all_valid (m : MetaObj) (l : Items)
    (h : l.all (fun kv => keyValid m.vis kv.1) = true) : (m.setAll l).2 = .ok := by
  induction l generalizing m with
  | nil => rfl
  | cons hd t ih =>
    obtain ⟨k, v⟩ := hd
    simp only [List.all_cons, Bool.and_eq_true] at h
    simp only [MetaObj.setAll]
    cases hs : m.setitem k v with
    | error e =>
      obtain ⟨_, hf⟩ := setitem_err hs
      rw [h.1] at hf; cases hf
    | ok m' =>
      obtain ⟨_, rfl⟩ := setitem_ok hs
      exact ih _ h.2

/-- what `Meta.update(*args, **kw)` (and `|=`, which calls it) does: either it raises before
storing anything, or every key is valid and all of them are stored. -/
theorem metaUpdate_cases (m : MetaObj) (nargs : Nat) (arg : MetaArg) (kw : Items) :
    ((metaUpdate m nargs arg kw).1 = m ∧ (metaUpdate m nargs arg kw).2 ≠ .ok) ∨
    (∃ other, metaUpdate m nargs arg kw = (m.setAll other).1.setAll kw ∧
      ((m.setAll other).1.setAll kw).2 = .ok) := by
  unfold metaUpdate
  by_cases hn : nargs > 1
  · left; simp [hn]
  · simp only [hn, if_false]
    cases ha : (if nargs = 0 then Except.ok [] else argAsDict arg) with
    | error e => left; simp
    | ok other =>
      simp only
      by_cases hany : (other ++ kw).any
          (fun kv => !(vocabulary m.vis).contains (mapKey m.vis kv.1)) = true
      · left; rw [if_pos hany]; exact ⟨rfl, by simp⟩
      · right
        rw [if_neg hany]
        have hall : ∀ kv ∈ other ++ kw, keyValid m.vis kv.1 = true := by
          intro kv hkv
          simp only [Bool.not_eq_true] at hany
          have := List.any_eq_false.mp hany kv hkv
          simpa [keyValid] using this
        have h1 : (m.setAll other).2 = .ok :=
          setAll_all_valid m other (List.all_eq_true.mpr fun kv hkv =>
            hall kv (List.mem_append_left _ hkv))
        have hv := (setAll_inv m other).1
        have h2 : ((m.setAll other).1.setAll kw).2 = .ok :=
          setAll_all_valid _ kw (List.all_eq_true.mpr fun kv hkv => by
            rw [hv]; exact hall kv (List.mem_append_right _ hkv))
        refine ⟨other, ?_, h2⟩
        cases hr : m.setAll other with
        | mk m' r =>
          rw [hr] at h1
          simp only at h1
          subst h1
          rfl

/-- a dict-mutation call keeps the class of the object. -/
theorem metaStep_vis (m : MetaObj) (op : MetaOp) : (metaStep m op).1.vis = m.vis := by
  have hupd : ∀ nargs arg kw, (metaUpdate m nargs arg kw).1.vis = m.vis := by
    intro nargs arg kw
    rcases metaUpdate_cases m nargs arg kw with ⟨h, _⟩ | ⟨other, h, _⟩
    · rw [h]
    · rw [h, (setAll_inv _ kw).1, (setAll_inv m other).1]
  cases op with
  | setitem k v =>
    simp only [metaStep]
    cases hs : m.setitem k v with
    | error e => rfl
    | ok m' => obtain ⟨_, rfl⟩ := setitem_ok hs; rfl
  | update nargs arg kw => exact hupd nargs arg kw
  | setdefault k v =>
    simp only [metaStep]
    by_cases hh : dictHas m.items k = true
    · simp only [hh, if_true]; split <;> rfl
    · simp only [hh]
      cases hs : m.setitem k v with
      | error e => rfl
      | ok m' =>
        obtain ⟨_, rfl⟩ := setitem_ok hs
        simp only [Bool.false_eq_true, if_false]
        split <;> rfl
  | ior arg => exact hupd 1 arg []
  | pop k d => simp only [metaStep]; split <;> (try split) <;> rfl
  | popitem => simp only [metaStep]; split <;> rfl
  | clear => rfl
  | delitem k => simp only [metaStep]; split <;> rfl

theorem keysIn_sub {vocab : List String} {d d' : Items} (h : ∀ kv ∈ d', kv ∈ d)
    (hd : keysIn vocab d = true) : keysIn vocab d' = true := by
  rw [keysIn_iff] at hd ⊢
  exact fun kv hkv => hd kv (h kv hkv)

/-- **meta_entry_points** (full strength): EVERY dict-mutation entry point – `__setitem__`,
`update` in all its call forms, `setdefault`, `|=`, `pop`, `popitem`, `clear`, `__delitem__` –
keeps the keys of a `RegionMeta` / `RegionVisual` inside the documented vocabulary, whether the
call succeeds or raises.  (F12a fixed in 50480bb.) -/
theorem meta_entry_points (m : MetaObj) (op : MetaOp) (hk : m.keysOk = true) :
    (metaStep m op).1.keysOk = true := by
  have hupd : ∀ nargs arg kw, (metaUpdate m nargs arg kw).1.keysOk = true := by
    intro nargs arg kw
    rcases metaUpdate_cases m nargs arg kw with ⟨h, _⟩ | ⟨other, h, _⟩
    · rw [h]; exact hk
    · rw [h]; exact (setAll_inv _ kw).2.1 ((setAll_inv m other).2.1 hk)
  cases op with
  | setitem k v =>
    simp only [metaStep]
    cases hsi : m.setitem k v with
    | error e => exact hk
    | ok m' => exact (setitem_keysOk hsi hk).1
  | update nargs arg kw => exact hupd nargs arg kw
  | setdefault k v =>
    simp only [metaStep]
    by_cases hh : dictHas m.items k = true
    · simp only [hh, if_true]; split <;> exact hk
    · simp only [hh]
      cases hsi : m.setitem k v with
      | error e => exact hk
      | ok m' =>
        have := (setitem_keysOk hsi hk).1
        simp only [Bool.false_eq_true, if_false]
        split <;> exact this
  | ior arg => exact hupd 1 arg []
  | pop k d =>
    simp only [metaStep]
    split
    · exact keysIn_sub (fun kv h => (List.mem_filter.mp h).1) hk
    · split <;> exact hk
  | popitem =>
    simp only [metaStep]
    split
    · exact hk
    · exact keysIn_sub (fun kv h => List.dropLast_subset _ h) hk
  | clear => rfl
  | delitem k =>
    simp only [metaStep]
    split
    · exact keysIn_sub (fun kv h => (List.mem_filter.mp h).1) hk
    · exact hk

/-- `RegionMeta() |= {'bad': 1}` is now refused and leaves the object empty. -/
example : metaStep ⟨false, []⟩ (.ior (.mapping [("bad", "1")])) = (⟨false, []⟩, .err .keyError) := by
  decide

/-- the method table: every `dict` method that can insert a key is overridden by `Meta` or reaches
`__setitem__` (`fromkeys`, via CPython's generic path for subclasses). -/
theorem meta_overrides :
    ∀ p ∈ dictMutators, p.2 = true → p.1 ∈ metaOverrides ∨ p.1 = "fromkeys" := by
  decide

/-- constructors (`Meta(seq, **kw)`, `Meta.fromkeys`) only produce objects within the vocabulary. -/
theorem meta_ctor_keysOk {vis : Bool} {seq : MetaArg} {kw : Items} {m : MetaObj}
    (h : MetaObj.ctor vis seq kw = .ok m) : m.keysOk = true ∧ m.vis = vis := by
  unfold MetaObj.ctor at h
  simp only at h
  have h0 : (MetaObj.mk vis []).keysOk = true := by simp [MetaObj.keysOk, keysIn]
  -- the object after the positional argument
  have key : ∀ first : MetaObj × Result,
      (first.1.keysOk = true ∧ first.1.vis = vis) →
      (match first with
        | (_, .err e) => Except.error e
        | (m1, .ok) =>
          match m1.setAll kw with
          | (_, .err e) => Except.error e
          | (m2, .ok) => Except.ok m2) = Except.ok m → m.keysOk = true ∧ m.vis = vis := by
    intro first hf hm
    obtain ⟨m1, r⟩ := first
    cases r with
    | err e => cases hm
    | ok =>
      simp only at hm
      have inv := setAll_inv m1 kw
      cases hr : m1.setAll kw with
      | mk m2 r2 =>
        rw [hr] at hm inv
        cases r2 with
        | err e => cases hm
        | ok => cases hm; exact ⟨inv.2.1 hf.1, inv.1.trans hf.2⟩
  refine key _ ?_ h
  cases seq with
  | absent => exact ⟨h0, rfl⟩
  | mapping l =>
    simp only
    split
    · exact ⟨h0, rfl⟩
    · exact ⟨(setAll_inv _ _).2.1 h0, (setAll_inv _ _).1⟩
  | pairs l =>
    simp only
    split
    · exact ⟨h0, rfl⟩
    · exact ⟨(setAll_inv _ _).2.1 h0, (setAll_inv _ _).1⟩
  | notIterable => exact ⟨h0, rfl⟩

theorem meta_fromkeys_keysOk {vis : Bool} {keys : List String} {m : MetaObj}
    (h : MetaObj.fromkeys vis keys = .ok m) : m.keysOk = true ∧ m.vis = vis := by
  unfold MetaObj.fromkeys at h
  have inv := setAll_inv (MetaObj.mk vis []) (keys.map fun k => (k, "None"))
  cases hr : (MetaObj.mk vis []).setAll (keys.map fun k => (k, "None")) with
  | mk m2 r2 =>
    rw [hr] at h inv
    cases r2 with
    | err e => cases h
    | ok => cases h; exact ⟨inv.2.1 (by simp [MetaObj.keysOk, keysIn]), inv.1⟩

/-- a failing constructor call raises `KeyError` (bad key) or `TypeError` (not iterable). -/
theorem meta_ctor_exception_class {vis : Bool} {seq : MetaArg} {kw : Items} {e : Exc}
    (h : MetaObj.ctor vis seq kw = .error e) : e = .keyError ∨ e = .typeError := by
  unfold MetaObj.ctor at h
  simp only at h
  split at h
  · rename_i m1 e' hfirst
    cases h
    cases seq with
    | absent => cases hfirst
    | mapping l =>
      simp only at hfirst
      split at hfirst
      · cases hfirst
      · exact Or.inl ((setAll_inv _ _).2.2 e (by rw [hfirst]))
    | pairs l =>
      simp only at hfirst
      split at hfirst
      · cases hfirst
      · exact Or.inl ((setAll_inv _ _).2.2 e (by rw [hfirst]))
    | notIterable => cases hfirst; exact Or.inr rfl
  · rename_i m1 hfirst
    split at h
    · rename_i m2 e' hkw
      cases h
      exact Or.inl ((setAll_inv m1 kw).2.2 e (by rw [hkw]))
    · cases h

/-- **meta atomicity** (full strength): a dict-mutation call that raises leaves the object exactly
as it was – including `update`, which validates every key before it stores the first one.
(F12b fixed in 50480bb.) -/
theorem meta_atomic (m : MetaObj) (op : MetaOp) (he : (metaStep m op).2 ≠ .ok) :
    (metaStep m op).1 = m := by
  have hupd : ∀ nargs arg kw, (metaUpdate m nargs arg kw).2 ≠ .ok →
      (metaUpdate m nargs arg kw).1 = m := by
    intro nargs arg kw hne
    rcases metaUpdate_cases m nargs arg kw with ⟨h, _⟩ | ⟨other, h, hok⟩
    · exact h
    · rw [h] at hne; exact absurd hok hne
  cases op with
  | setitem k v =>
    simp only [metaStep] at he ⊢
    cases hsi : m.setitem k v with
    | error e => rfl
    | ok m' => rw [hsi] at he; exact absurd rfl he
  | update nargs arg kw => exact hupd nargs arg kw he
  | setdefault k v =>
    simp only [metaStep] at he ⊢
    by_cases hh : dictHas m.items k = true
    · simp only [hh, if_true] at he ⊢; split <;> rfl
    · simp only [hh] at he ⊢
      cases hsi : m.setitem k v with
      | error e => rfl
      | ok m' =>
        obtain ⟨_, rfl⟩ := setitem_ok hsi
        rw [hsi] at he
        simp only [Bool.false_eq_true, if_false, dictHas_dictSet, if_true] at he
        exact absurd rfl he
  | ior arg => exact hupd 1 arg [] he
  | pop k d =>
    simp only [metaStep] at he ⊢
    by_cases hh : dictHas m.items k = true
    · simp only [hh, if_true] at he; exact absurd rfl he
    · simp only [hh]
      cases d <;> rfl
  | popitem =>
    simp only [metaStep] at he ⊢
    split at he
    · rename_i hh; simp [hh]
    · exact absurd rfl he
  | clear => exact absurd rfl he
  | delitem k =>
    simp only [metaStep] at he ⊢
    split at he
    · exact absurd rfl he
    · rename_i hh; simp [hh]

/-- `update` with a valid key before an invalid one: raises and stores nothing. -/
example : metaStep ⟨false, [("tag", "t")]⟩ (.update 1 (.mapping [("label", "a"), ("bad", "1")]) [])
    = (⟨false, [("tag", "t")]⟩, .err .keyError) := by decide

/-! ## 4. Assignment: conversion of `meta` / `visual`, exception classes -/

/-- an accepted `meta` that already is a `RegionMeta` is stored as is; a plain `dict` (or a
`RegionVisual`) is stored as a `RegionMeta` built through the validated constructor. -/
theorem coerce_meta_kind (v v' : Val) (h : coerce .rmeta v = .ok v') :
    (v.kind = .regionMeta → v' = v) ∧
    (v.isDict = true → v'.kind = .regionMeta) ∧
    (v.kind ≠ .regionMeta → v.isDict = true → keysIn metaKeys v'.items = true) := by
  simp only [coerce] at h
  by_cases hc : v.isDict = true ∧ v.kind ≠ .regionMeta
  · rw [if_pos hc] at h
    cases hm : MetaObj.ctor false (.mapping v.items) [] with
    | error e => rw [hm] at h; cases h
    | ok m =>
      rw [hm] at h; cases h
      obtain ⟨hk, hv⟩ := meta_ctor_keysOk hm
      refine ⟨fun hk' => absurd hk' hc.2, fun _ => by simp [MetaObj.toVal, hv], fun _ _ => ?_⟩
      simpa [MetaObj.keysOk, vocabulary, hv, MetaObj.toVal] using hk
  · rw [if_neg hc] at h; cases h
    refine ⟨fun _ => rfl, fun hd => ?_, fun hk hd => absurd ⟨hd, hk⟩ hc⟩
    by_contra hk
    exact hc ⟨hd, hk⟩

theorem coerce_visual_kind (v v' : Val) (h : coerce .rvisual v = .ok v') :
    (v.kind = .regionVisual → v' = v) ∧
    (v.isDict = true → v'.kind = .regionVisual) ∧
    (v.kind ≠ .regionVisual → v.isDict = true → keysIn visualKeys v'.items = true) := by
  simp only [coerce] at h
  by_cases hc : v.isDict = true ∧ v.kind ≠ .regionVisual
  · rw [if_pos hc] at h
    cases hm : MetaObj.ctor true (.mapping v.items) [] with
    | error e => rw [hm] at h; cases h
    | ok m =>
      rw [hm] at h; cases h
      obtain ⟨hk, hv⟩ := meta_ctor_keysOk hm
      refine ⟨fun hk' => absurd hk' hc.2, fun _ => by simp [MetaObj.toVal, hv], fun _ _ => ?_⟩
      simpa [MetaObj.keysOk, vocabulary, hv, MetaObj.toVal] using hk
  · rw [if_neg hc] at h; cases h
    refine ⟨fun _ => rfl, fun hd => ?_, fun hk hd => absurd ⟨hd, hk⟩ hc⟩
    by_contra hk
    exact hc ⟨hd, hk⟩

theorem coerce_exception_class (d : Descr) (v : Val) (e : Exc) (h : coerce d v = .error e) :
    e = .keyError ∨ e = .typeError := by
  cases d <;> simp only [coerce] at h <;> try (cases h)
  all_goals
    split at h
    · split at h
      · rename_i e' hm
        cases h
        exact meta_ctor_exception_class hm
      · cases h
    · cases h

theorem pyLtConst_exception_class (v : Val) (c : ℚ) (e : Exc) (h : pyLtConst v c = .error e) :
    e = .valueError ∨ e = .typeError := by
  unfold pyLtConst at h
  (repeat' split at h) <;> simp_all

theorem nvertsPre_exception_class {o : RObj} {f : String} {v : Val} {e : Exc}
    (h : nvertsPre o f v = .error e) : e = .valueError ∨ e = .typeError := by
  unfold nvertsPre at h
  split at h
  · cases hv : validate .posScalar v with
    | error e' =>
      rw [hv] at h; cases h
      exact validate_exception_class _ _ _ hv
    | ok u =>
      rw [hv] at h
      simp only at h
      cases hp : pyLtConst v 3 with
      | error e' =>
        rw [hp] at h; cases h
        exact pyLtConst_exception_class _ _ _ hp
      | ok b =>
        rw [hp] at h
        cases b
        · cases h
        · cases h; exact Or.inl rfl
  · cases h

/-- `setattr` on a descriptor-backed attribute rejects with `ValueError`, `TypeError` or
`KeyError` – never anything else. -/
theorem core_exception_class {o : RObj} {f : String} {v : Val} {d : Descr} {e : Exc}
    (hl : (attrs o.cls).lookup f = some (.descr d)) (h : o.assignCore f v = .error e) :
    e = .valueError ∨ e = .typeError ∨ e = .keyError := by
  unfold RObj.assignCore at h
  cases hn : nvertsPre o f v with
  | error e' =>
    rw [hn] at h; cases h
    rcases nvertsPre_exception_class hn with h1 | h1
    · exact Or.inl h1
    · exact Or.inr (Or.inl h1)
  | ok u =>
    rw [hn, hl] at h
    simp only at h
    split at h
    · rename_i e' hc
      cases h
      rcases coerce_exception_class d v e hc with h1 | h1
      · exact Or.inr (Or.inr h1)
      · exact Or.inr (Or.inl h1)
    · split at h
      · rename_i e' hv
        cases h
        rcases validate_exception_class d _ e hv with h1 | h1
        · exact Or.inl h1
        · exact Or.inr (Or.inl h1)
      · cases h

/-! ## 5. The `Regions` list -/

/-- the `Regions` argument of `extend` is itself a valid `Regions` object (by this very theorem). -/
def listOpWF : ListOp → Bool
  | .extendRegions xs => xs.all (·.isRegion)
  | _ => true

theorem all_of_sub {xs ys : List Member} (h : ∀ x ∈ ys, x ∈ xs)
    (hx : xs.all (·.isRegion) = true) : ys.all (·.isRegion) = true := by
  rw [List.all_eq_true] at hx ⊢
  exact fun x hxm => hx x (h x hxm)

/-- **regions_list_typed** (full strength): no list operation – `append`, `extend` (list, tuple,
`Regions`, non-iterable), `insert`, `__setitem__`, `pop`, `reverse`, nor a later mutation of the
list that was passed to the constructor – puts a non-region into a `Regions` object.
(F13a / F13b fixed in b15a97b.) -/
theorem regions_list_typed (l : RList) (op : ListOp) (hw : listOpWF op = true)
    (hl : l.allRegions = true) : (listStep l op).1.allRegions = true := by
  unfold RList.allRegions at hl ⊢
  cases op with
  | append x =>
    simp only [listStep]
    cases hx : x.isRegion
    · exact hl
    · simp [List.all_append, hl, hx]
  | extendList xs =>
    simp only [listStep]
    cases hx : xs.all (·.isRegion)
    · exact hl
    · simp only [Bool.not_true, Bool.false_eq_true, if_false, List.all_append, hl, Bool.true_and]
      exact hx
  | extendRegions xs =>
    simp only [listStep, listOpWF] at hw ⊢
    simp only [List.all_append, hl, Bool.true_and]
    exact hw
  | extendBad => exact hl
  | insert i x =>
    simp only [listStep]
    cases hx : x.isRegion
    · exact hl
    · simp only [Bool.not_true, Bool.false_eq_true, if_false, List.all_append, List.all_cons,
        List.all_nil, Bool.and_true, Bool.and_eq_true]
      exact ⟨⟨all_of_sub (fun y hy => List.mem_of_mem_take hy) hl, hx⟩,
             all_of_sub (fun y hy => List.mem_of_mem_drop hy) hl⟩
  | setitem i x => exact hl
  | pop i =>
    simp only [listStep]
    generalize (if i < 0 then i + (l.items.length : Int) else i) = k
    split
    · exact hl
    · exact all_of_sub (fun y hy => List.mem_of_mem_eraseIdx hy) hl
  | reverse =>
    simp only [listStep, List.all_reverse]; exact hl
  | srcAppend x => exact hl

/-- `Regions([reg]).insert(0, 5)` is refused with `TypeError`, the list unchanged. -/
example : listStep ⟨[⟨true, "r"⟩]⟩ (.insert 0 ⟨false, "5"⟩) = (⟨[⟨true, "r"⟩]⟩, .err .typeError) := by
  decide

/-- the constructor only builds lists of regions. -/
theorem regions_ctor_typed {arg : Option (List Member × Bool)} {l : RList}
    (h : RList.ctor arg = .ok l) : l.allRegions = true := by
  unfold RList.ctor at h
  split at h
  · cases h; rfl
  · split at h
    · rename_i hx; cases h; exact hx
    · cases h

/-- a rejected list operation leaves the list as it was. -/
theorem listStep_atomic (l : RList) (op : ListOp) (he : (listStep l op).2 ≠ .ok) :
    (listStep l op).1 = l := by
  cases op with
  | pop i =>
    simp only [listStep] at he ⊢
    generalize (if i < 0 then i + (l.items.length : Int) else i) = k at he ⊢
    split
    · rfl
    · rename_i hk
      simp only [hk, if_false] at he
      exact absurd rfl he
  | _ => simp only [listStep] at he ⊢ <;> (repeat' split) <;> simp_all

/-! ## 6. Atomicity and deletion at the level of one history step -/

/-- **set_atomic** (full strength): a rejected operation – attribute assignment, attribute
deletion, any dict-mutation call (directly or on `region.meta` / `region.visual`), any list
operation – leaves the object EXACTLY as it was: validation precedes the store in
`RegionAttribute.__set__`, in `Meta.update` and in the `Regions` mutators. -/
theorem set_atomic (o : Obj) (op : Op) (he : (step o op).2 ≠ .ok) : (step o op).1 = o := by
  cases o with
  | region r =>
    cases op with
    | assign f v =>
      simp only [step] at he ⊢
      cases ha : r.assign f v with
      | error e => rfl
      | ok r' => rw [ha] at he; exact absurd rfl he
    | delete f =>
      simp only [step] at he ⊢
      cases ha : r.delete f with
      | error e => rfl
      | ok r' => rw [ha] at he; exact absurd rfl he
    | metaOp fld mop =>
      cases fld with
      | none => rfl
      | some f =>
        simp only [step] at he ⊢
        cases hm : r.metaAt f with
        | none => rfl
        | some m =>
          rw [hm] at he
          simp only at he ⊢
          rw [meta_atomic m mop he]
          simp
    | listOp lop => rfl
  | metaObj m =>
    cases op with
    | metaOp fld mop =>
      cases fld with
      | none =>
        simp only [step] at he ⊢
        rw [meta_atomic m mop he]
      | some f => rfl
    | assign f v => rfl
    | delete f => rfl
    | listOp lop => rfl
  | rlist l =>
    cases op with
    | listOp lop =>
      simp only [step] at he ⊢
      rw [listStep_atomic l lop he]
    | assign f v => rfl
    | delete f => rfl
    | metaOp fld mop => rfl

/-- no attribute of the class table is a plain instance attribute any more (F14c fixed in
ec59199: `text` is bound to a descriptor). -/
theorem no_plain (c : Cls) : ∀ fa ∈ attrs c, fa.2 ≠ .plain := by
  cases c <;> decide

theorem mem_of_lookup {α : Type} {l : List (String × α)} {f : String} {a : α}
    (h : l.lookup f = some a) : (f, a) ∈ l := by
  induction l with
  | nil => simp [List.lookup] at h
  | cons hd t ih =>
    obtain ⟨k, w⟩ := hd
    rw [lookup_cons'] at h
    by_cases hk : f = k
    · simp only [hk, if_true, Option.some.injEq] at h
      subst hk; subst h; exact List.mem_cons_self ..
    · simp only [hk, if_false] at h
      exact List.mem_cons_of_mem _ (ih h)

/-- **delete_refused** (full strength): no shape parameter (nor `meta`, `visual`, nor the
read-only `operator`) of any class can be deleted: `AttributeError`, object unchanged. -/
theorem delete_refused (o : RObj) (f : String) (hp : ((attrs o.cls).lookup f).isSome = true) :
    o.delete f = .error .attributeError ∧
    step (.region o) (.delete f) = (.region o, .err .attributeError) := by
  have hd : o.delete f = .error .attributeError := by
    unfold RObj.delete
    cases hl : (attrs o.cls).lookup f with
    | none => rw [hl] at hp; cases hp
    | some a =>
      cases a with
      | descr d => rfl
      | plain => exact absurd rfl (no_plain o.cls (f, .plain) (mem_of_lookup hl))
      | readonly => rfl
  exact ⟨hd, by simp [step, hd, RegionsVerif.Impl.Validate.ofExcept]⟩

/-- `text` of a text region is such a parameter. -/
example : ((attrs .textP).lookup "text").isSome = true := by decide

/-! ## 7. Region objects: one step preserves the invariant -/

theorem attrs_nodup (c : Cls) : ((attrs c).map Prod.fst).Nodup := by cases c <;> decide

theorem lookup_of_mem {α : Type} {l : List (String × α)} (hn : (l.map Prod.fst).Nodup)
    {f : String} {a : α} (hm : (f, a) ∈ l) : l.lookup f = some a := by
  induction l with
  | nil => cases hm
  | cons hd t ih =>
    obtain ⟨k, w⟩ := hd
    simp only [List.map_cons, List.nodup_cons] at hn
    rw [lookup_cons']
    rcases List.mem_cons.mp hm with h | h
    · cases h; simp
    · have hne : f ≠ k := by
        intro hfk; subst hfk
        exact hn.1 (List.mem_map.mpr ⟨(f, a), h, rfl⟩)
      simp only [hne, if_false]
      exact ih hn.2 h

theorem validB_iff (o : RObj) : o.validB = true ↔
    (∀ fa ∈ attrs o.cls, fieldOk o fa = true) ∧ (∀ p ∈ orderPairs o.cls, pairOk o p = true) ∧
    nvertsOk o = true := by
  simp [RObj.validB, List.all_eq_true, and_assoc]

theorem fieldOk_congr {o o' : RObj} (fa : String × Attr) (h : o'.get fa.1 = o.get fa.1) :
    fieldOk o' fa = fieldOk o fa := by
  obtain ⟨f, a⟩ := fa
  simp only at h
  cases a <;> simp only [fieldOk, h]

theorem pairOk_congr {o o' : RObj} (p : String × String) (h1 : o'.get p.1 = o.get p.1)
    (h2 : o'.get p.2 = o.get p.2) : pairOk o' p = pairOk o p := by
  simp only [pairOk, h1, h2]

theorem nvertsOk_congr {o o' : RObj} (hc : o'.cls = o.cls)
    (h : o.cls = .regPolyP → o'.get "nvertices" = o.get "nvertices") : nvertsOk o' = nvertsOk o := by
  unfold nvertsOk
  rw [hc]
  by_cases hr : o.cls = .regPolyP
  · rw [h hr]
  · have hb : (o.cls != Cls.regPolyP) = true := by simpa using hr
    simp only [hb, Bool.true_or]

/-- the inner / outer parameters are bound to a size descriptor. -/
theorem pair_fields (c : Cls) (p : String × String) (hp : p ∈ orderPairs c) :
    ∃ d, (d = .posScalar ∨ d = .posScalarAngle) ∧ (attrs c).lookup p.1 = some (.descr d) ∧
      (attrs c).lookup p.2 = some (.descr d) := by
  cases c <;> (first | exact absurd hp List.not_mem_nil | simp [orderPairs] at hp)
  case cAnnP => subst hp; exact ⟨.posScalar, Or.inl rfl, by decide, by decide⟩
  case cAnnS => subst hp; exact ⟨.posScalarAngle, Or.inr rfl, by decide, by decide⟩
  case eAnnP => rcases hp with rfl | rfl <;> exact ⟨.posScalar, Or.inl rfl, by decide, by decide⟩
  case rAnnP => rcases hp with rfl | rfl <;> exact ⟨.posScalar, Or.inl rfl, by decide, by decide⟩
  case eAnnS => rcases hp with rfl | rfl <;> exact ⟨.posScalarAngle, Or.inr rfl, by decide, by decide⟩
  case rAnnS => rcases hp with rfl | rfl <;> exact ⟨.posScalarAngle, Or.inr rfl, by decide, by decide⟩

/-- if one attribute `f` that is not a size changes and is itself as documented afterwards, the
object stays valid. -/
theorem valid_of_frame {o o' : RObj} (hc : o'.cls = o.cls) (hv : o.validB = true) (f : String)
    (hframe : ∀ g, g ≠ f → o'.get g = o.get g)
    (hf : ∀ a, (attrs o.cls).lookup f = some a → fieldOk o' (f, a) = true)
    (hnp : ∀ d, (attrs o.cls).lookup f = some (.descr d) → d ≠ .posScalar ∧ d ≠ .posScalarAngle) :
    o'.validB = true := by
  rw [validB_iff] at hv ⊢
  obtain ⟨hfields, hpairs, hnv⟩ := hv
  rw [hc]
  refine ⟨?_, ?_, ?_⟩
  · intro fa hfa
    obtain ⟨g, a⟩ := fa
    by_cases hg : g = f
    · subst hg; exact hf a (lookup_of_mem (attrs_nodup _) hfa)
    · rw [fieldOk_congr (g, a) (hframe g hg)]; exact hfields _ hfa
  · intro p hp
    obtain ⟨d, hd, h1, h2⟩ := pair_fields _ p hp
    have hne : ∀ g, (attrs o.cls).lookup g = some (.descr d) → g ≠ f := by
      intro g hg hgf; subst hgf
      rcases hd with rfl | rfl
      · exact (hnp _ hg).1 rfl
      · exact (hnp _ hg).2 rfl
    rw [pairOk_congr p (hframe _ (hne _ h1)) (hframe _ (hne _ h2))]
    exact hpairs p hp
  · rw [nvertsOk_congr hc]
    · exact hnv
    · intro hr
      apply hframe
      intro hnf
      have hl : (attrs o.cls).lookup "nvertices" = some (.descr .posScalar) := by rw [hr]; decide
      rw [hnf] at hl
      exact (hnp _ hl).1 rfl

theorem coerce_wf (d : Descr) (v v' : Val) (h : coerce d v = .ok v') (hw : metaWF v = true) :
    metaWF v' = true := by
  by_cases h1 : d = .rmeta
  · subst h1
    simp only [coerce] at h
    by_cases hc : v.isDict = true ∧ v.kind ≠ .regionMeta
    · rw [if_pos hc] at h
      cases hm : MetaObj.ctor false (.mapping v.items) [] with
      | error e => rw [hm] at h; cases h
      | ok m =>
        rw [hm] at h; cases h
        obtain ⟨hk, hv⟩ := meta_ctor_keysOk hm
        simp [MetaObj.keysOk, hv, vocabulary] at hk
        simp [metaWF, MetaObj.toVal, hv, hk]
    · rw [if_neg hc] at h; cases h; exact hw
  · by_cases h2 : d = .rvisual
    · subst h2
      simp only [coerce] at h
      by_cases hc : v.isDict = true ∧ v.kind ≠ .regionVisual
      · rw [if_pos hc] at h
        cases hm : MetaObj.ctor true (.mapping v.items) [] with
        | error e => rw [hm] at h; cases h
        | ok m =>
          rw [hm] at h; cases h
          obtain ⟨hk, hv⟩ := meta_ctor_keysOk hm
          simp [MetaObj.keysOk, hv, vocabulary] at hk
          simp [metaWF, MetaObj.toVal, hv, hk]
      · rw [if_neg hc] at h; cases h; exact hw
    · rw [coerce_id d v h1 h2] at h; cases h; exact hw

/-- an accepted assignment stores a value of the documented domain. -/
theorem core_fieldOk {o o' : RObj} {f : String} {v : Val} (h : o.assignCore f v = .ok o')
    (hw : metaWF v = true) (a : Attr) (ha : (attrs o.cls).lookup f = some a) :
    fieldOk o' (f, a) = true := by
  obtain ⟨_, v', rfl, hcase⟩ := core_ok h
  cases a with
  | descr d =>
    rcases hcase with ⟨d', hd', hco, hva⟩ | ⟨hl, _⟩
    · rw [ha] at hd'; cases hd'
      simp only [fieldOk, RObj.get_set, if_true]
      exact validator_sound d v' (coerce_wf d v v' hco hw) hva
    · rcases hl with hl | hl <;> rw [ha] at hl <;> cases hl
  | plain => exact absurd rfl (no_plain o.cls (f, .plain) (mem_of_lookup ha))
  | readonly => rfl

/-- an accepted assignment keeps `nvertices >= 3` (checked by `__setattr__` of the regular polygon;
F14b fixed in 942a7aa). -/
theorem core_nvertsOk {o o' : RObj} {f : String} {v : Val} (hv : nvertsOk o = true)
    (h : o.assignCore f v = .ok o') (hw : metaWF v = true) : nvertsOk o' = true := by
  obtain ⟨hpre, v', rfl, hcase⟩ := core_ok h
  by_cases hc : o.cls = .regPolyP ∧ f = "nvertices"
  · obtain ⟨hcls, hf⟩ := hc
    subst hf
    have hl : (attrs o.cls).lookup "nvertices" = some (.descr .posScalar) := by rw [hcls]; decide
    -- the stored value is the assigned one
    have hv' : v' = v := by
      rcases hcase with ⟨d', hd', hco, _⟩ | ⟨hl', _⟩
      · rw [hl] at hd'; cases hd'
        rw [coerce_id _ v (by simp) (by simp)] at hco
        cases hco; rfl
      · rcases hl' with hl' | hl' <;> rw [hl] at hl' <;> cases hl'
    subst hv'
    -- what the class-level check established
    unfold nvertsPre at hpre
    simp only [hcls, and_self, if_true] at hpre
    cases hva : validate .posScalar v' with
    | error e => rw [hva] at hpre; cases hpre
    | ok u =>
      rw [hva] at hpre
      simp only at hpre
      have hdom := validator_sound .posScalar v' hw hva
      simp only [inDomain, Bool.and_eq_true] at hdom
      obtain ⟨⟨hreal, _⟩, hn⟩ := hdom
      cases hnum : v'.num with
      | fin q =>
        have hlt : pyLtConst v' 3 = .ok (Num.lt v'.num (.fin 3)) := by
          unfold Val.isReal at hreal
          unfold pyLtConst
          split at hreal <;> simp_all
        rw [hlt, hnum] at hpre
        simp only [Num.lt] at hpre
        have h3 : ¬ q < 3 := by
          intro hq
          simp [hq] at hpre
        simp only [nvertsOk, RObj.get_set, if_true, hnum, Num.le, Bool.or_eq_true, decide_eq_true_eq]
        exact Or.inr (not_lt.mp h3)
      | pinf => rw [hnum] at hn; cases hn
      | ninf => rw [hnum] at hn; cases hn
      | nan => rw [hnum] at hn; cases hn
  · rw [nvertsOk_congr (o := o) (o' := o.set f v') rfl]
    · exact hv
    · intro hr
      have hne : "nvertices" ≠ f := fun hnf => hc ⟨hr, hnf.symm⟩
      simp [RObj.get_set, hne]

/-- [F14] the object has inner ≥ outer (the only constraint that assignment does not enforce). -/
def orderBad (o : RObj) : Bool := !(orderPairs o.cls).all (pairOk o)

theorem core_valid {o o' : RObj} {f : String} {v : Val} (hv : o.validB = true)
    (h : o.assignCore f v = .ok o') (hw : metaWF v = true) (hb : orderBad o' = false) :
    o'.validB = true := by
  obtain ⟨hc, hframe, _⟩ := core_readback h
  simp only [orderBad, Bool.not_eq_false', List.all_eq_true] at hb
  have hnv := core_nvertsOk ((validB_iff o).mp hv).2.2 h hw
  rw [validB_iff] at hv ⊢
  refine ⟨?_, hb, hnv⟩
  intro fa hfa
  obtain ⟨g, a⟩ := fa
  rw [hc] at hfa
  by_cases hg : g = f
  · subst hg; exact core_fieldOk h hw a (lookup_of_mem (attrs_nodup _) hfa)
  · rw [fieldOk_congr (g, a) (hframe g hg)]; exact hv.1 _ hfa

/-- an accepted `delattr` can only concern an attribute outside the class table. -/
theorem delete_valid {o o' : RObj} {f : String} (hv : o.validB = true)
    (h : o.delete f = .ok o') : o'.validB = true := by
  unfold RObj.delete at h
  cases hl : (attrs o.cls).lookup f with
  | some a =>
    rw [hl] at h
    cases a with
    | descr d => cases h
    | readonly => cases h
    | plain => exact absurd rfl (no_plain o.cls (f, .plain) (mem_of_lookup hl))
  | none =>
    rw [hl] at h
    simp only at h
    split at h
    · cases h
      apply valid_of_frame (o := o) (o' := ⟨o.cls, ferase o.fields f⟩) rfl hv f
      · intro g hg; exact fget_ferase o.fields f g hg
      · intro a ha; rw [hl] at ha; cases ha
      · intro d hd; rw [hl] at hd; cases hd
    · cases h

/-! ### The full `setattr`: the store, plus the recomputed vertices of a regular polygon -/

theorem params_ne {f : String} (h : regPolyParams.contains f = true) :
    f ≠ "vertices" ∧ f ≠ "_vertices" := by
  constructor <;> (intro hf; subst hf; revert h; decide)

/-- `RObj.assign` is the store (`assignCore`), followed – for a defining parameter of a constructed
regular polygon – by storing the recomputed vertices; if the recomputation raises nothing is kept. -/
theorem assign_split {o o' : RObj} {f : String} {v : Val} (h : o.assign f v = .ok o') :
    ∃ o1, o.assignCore f v = .ok o1 ∧
      (o' = o1 ∨
       (o.cls = .regPolyP ∧ regPolyParams.contains f = true ∧
        ∃ d, calcVertices ((o1.get "nvertices").getD vNone) = .ok d ∧
          o' = (o1.set "_vertices" d).set "vertices" d)) := by
  unfold RObj.assign at h
  cases hc : o.assignCore f v with
  | error e => rw [hc] at h; cases h
  | ok o1 =>
    rw [hc] at h
    simp only at h
    refine ⟨o1, rfl, ?_⟩
    split at h
    · rename_i hcond
      cases hd : calcVertices ((o1.get "nvertices").getD vNone) with
      | error e => rw [hd] at h; cases h
      | ok d =>
        rw [hd] at h
        cases h
        exact Or.inr ⟨hcond.1, hcond.2.1, d, rfl, rfl⟩
    · cases h; exact Or.inl rfl

theorem calcVertices_ok {nv d : Val} (h : calcVertices nv = .ok d) : inDomain .oneDPix d = true := by
  unfold calcVertices at h
  split at h
  · split at h
    · cases h; rfl
    · cases h
  · cases h

/-- **readback**: after an accepted assignment the attribute reads back as the assigned value (for
`meta` / `visual`: as its `RegionMeta` / `RegionVisual` conversion) and the class is unchanged;
every other attribute is untouched – except that a regular polygon recomputes its `vertices`
(and the private `_vertices`) from its defining parameters. -/
theorem readback {o o' : RObj} {f : String} {v : Val} (h : o.assign f v = .ok o') :
    o'.cls = o.cls ∧
    (∀ g, g ≠ f → g ≠ "vertices" → g ≠ "_vertices" → o'.get g = o.get g) ∧
    (o.cls ≠ .regPolyP → ∀ g, g ≠ f → o'.get g = o.get g) ∧
    ∃ v', o'.get f = some v' ∧
      (∀ d, (attrs o.cls).lookup f = some (.descr d) → coerce d v = .ok v') ∧
      (∀ d, (attrs o.cls).lookup f = some (.descr d) → d ≠ .rmeta → d ≠ .rvisual → v' = v) ∧
      ((attrs o.cls).lookup f = some .plain ∨ (attrs o.cls).lookup f = none → v' = v) := by
  obtain ⟨o1, hc, hcase⟩ := assign_split h
  obtain ⟨hcls, hframe, v', hg, h1, h2, h3⟩ := core_readback hc
  rcases hcase with rfl | ⟨hreg, hpar, d, _, rfl⟩
  · exact ⟨hcls, fun g hg _ _ => hframe g hg, fun _ g hg => hframe g hg, v', hg, h1, h2, h3⟩
  · obtain ⟨hv1, hv2⟩ := params_ne hpar
    refine ⟨hcls, ?_, fun hne => absurd hreg hne, v', ?_, h1, h2, h3⟩
    · intro g hgf hg1 hg2
      simp only [RObj.get_set, hg1, hg2, if_false]
      exact hframe g hgf
    · simp only [RObj.get_set, hv1, hv2, if_false]
      exact hg

/-- `setattr` on a descriptor-backed attribute rejects with `ValueError`, `TypeError` or
`KeyError` – never anything else. -/
theorem assign_exception_class {o : RObj} {f : String} {v : Val} {d : Descr} {e : Exc}
    (hl : (attrs o.cls).lookup f = some (.descr d)) (h : o.assign f v = .error e) :
    e = .valueError ∨ e = .typeError ∨ e = .keyError := by
  unfold RObj.assign at h
  cases hc : o.assignCore f v with
  | error e' => rw [hc] at h; cases h; exact core_exception_class hl hc
  | ok o1 =>
    rw [hc] at h
    simp only at h
    split at h
    · cases hd : calcVertices ((o1.get "nvertices").getD vNone) with
      | error e' =>
        rw [hd] at h; cases h
        unfold calcVertices at hd
        left
        split at hd
        · split at hd
          · cases hd
          · cases hd; rfl
        · cases hd; rfl
      | ok d' => rw [hd] at h; cases h
    · cases h

/-- an accepted assignment (outside F14) keeps the region valid – including the recomputed
vertices of a regular polygon. -/
theorem assign_valid {o o' : RObj} {f : String} {v : Val} (hv : o.validB = true)
    (h : o.assign f v = .ok o') (hw : metaWF v = true) (hb : orderBad o' = false) :
    o'.validB = true := by
  obtain ⟨o1, hc, hcase⟩ := assign_split h
  have hcls1 : o1.cls = o.cls := (core_readback hc).1
  rcases hcase with rfl | ⟨hreg, _, d, hd, rfl⟩
  · exact core_valid hv hc hw hb
  · have hcr : o1.cls = .regPolyP := hcls1.trans hreg
    have hv1 : o1.validB = true :=
      core_valid hv hc hw (by simp [orderBad, hcr, orderPairs])
    have hv2 : (o1.set "_vertices" d).validB = true := by
      apply valid_of_frame (o := o1) (o' := o1.set "_vertices" d) rfl hv1 "_vertices"
      · intro g hg; simp [RObj.get_set, hg]
      · intro a ha
        have hl : (attrs o1.cls).lookup "_vertices" = none := by rw [hcr]; decide
        rw [hl] at ha; cases ha
      · intro d' hd'
        have hl : (attrs o1.cls).lookup "_vertices" = none := by rw [hcr]; decide
        rw [hl] at hd'; cases hd'
    apply valid_of_frame (o := o1.set "_vertices" d) (o' := (o1.set "_vertices" d).set "vertices" d)
      rfl hv2 "vertices"
    · intro g hg; simp [RObj.get_set, hg]
    · intro a ha
      have hl : (attrs (o1.set "_vertices" d).cls).lookup "vertices" = some (.descr .oneDPix) := by
        show (attrs o1.cls).lookup "vertices" = _
        rw [hcr]; decide
      rw [hl] at ha
      cases ha
      simp only [fieldOk, RObj.get_set, if_true]
      exact calcVertices_ok hd
    · intro d' hd'
      have hl : (attrs (o1.set "_vertices" d).cls).lookup "vertices" = some (.descr .oneDPix) := by
        show (attrs o1.cls).lookup "vertices" = _
        rw [hcr]; decide
      rw [hl] at hd'
      cases hd'
      exact ⟨by simp, by simp⟩

theorem metaAt_some {o : RObj} {f : String} {m : MetaObj} (h : o.metaAt f = some m) :
    ∃ v, o.get f = some v ∧ m.items = v.items ∧
      ((v.kind = .regionMeta ∧ m.vis = false) ∨ (v.kind = .regionVisual ∧ m.vis = true)) := by
  unfold RObj.metaAt at h
  cases hg : o.get f with
  | none => rw [hg] at h; cases h
  | some v =>
    rw [hg] at h
    simp only at h
    split at h
    · rename_i hk; cases h; exact ⟨v, rfl, rfl, Or.inl ⟨hk, rfl⟩⟩
    · split at h
      · rename_i hk; cases h; exact ⟨v, rfl, rfl, Or.inr ⟨hk, rfl⟩⟩
      · cases h

/-- any dict-mutation call on `region.meta` / `region.visual` keeps the region valid. -/
theorem metaOp_valid {o : RObj} {f : String} {m : MetaObj} (mop : MetaOp) (hv : o.validB = true)
    (hm : o.metaAt f = some m) :
    (if (metaStep m mop).1 = m then o else o.set f (metaStep m mop).1.toVal).validB = true := by
  by_cases hsame : (metaStep m mop).1 = m
  · rw [if_pos hsame]; exact hv
  · rw [if_neg hsame]
    obtain ⟨v0, hg, hitems, hkind⟩ := metaAt_some hm
    have hvis := metaStep_vis m mop
    apply valid_of_frame (o := o) (o' := o.set f (metaStep m mop).1.toVal) rfl hv f
    · intro g hgne; simp [RObj.get_set, hgne]
    · intro a ha
      have hfo := ((validB_iff o).mp hv).1 (f, a) (mem_of_lookup ha)
      cases a with
      | descr d =>
        simp only [fieldOk, hg] at hfo
        simp only [fieldOk, RObj.get_set, if_true]
        rcases hkind with ⟨hk, hmv⟩ | ⟨hk, hmv⟩
        · -- a RegionMeta: the descriptor must be `meta`
          have hd : d = .rmeta := by
            cases d with
            | regionType sky => cases sky <;> simp_all [inDomain]
            | _ => simp_all [inDomain, Val.isReal]
          subst hd
          simp only [inDomain, hk, beq_self_eq_true, Bool.true_and] at hfo
          have hk0 : m.keysOk = true := by
            simp only [MetaObj.keysOk, hmv, vocabulary, hitems]; exact hfo
          have := meta_entry_points m mop hk0
          simp [MetaObj.keysOk, hvis, hmv, vocabulary] at this
          simp [inDomain, MetaObj.toVal, hvis, hmv, this]
        · have hd : d = .rvisual := by
            cases d with
            | regionType sky => cases sky <;> simp_all [inDomain]
            | _ => simp_all [inDomain, Val.isReal]
          subst hd
          simp only [inDomain, hk, beq_self_eq_true, Bool.true_and] at hfo
          have hk0 : m.keysOk = true := by
            simp only [MetaObj.keysOk, hmv, vocabulary, hitems]; exact hfo
          have := meta_entry_points m mop hk0
          simp [MetaObj.keysOk, hvis, hmv, vocabulary] at this
          simp [inDomain, MetaObj.toVal, hvis, hmv, this]
      | plain =>
        simp only [fieldOk, hg] at hfo
        rcases hkind with ⟨hk, _⟩ | ⟨hk, _⟩ <;> simp [hk] at hfo
      | readonly => rfl
    · intro d hd
      have hfo := ((validB_iff o).mp hv).1 (f, .descr d) (mem_of_lookup hd)
      simp only [fieldOk, hg] at hfo
      constructor <;> (intro hdd; subst hdd; rcases hkind with ⟨hk, _⟩ | ⟨hk, _⟩ <;>
        simp [inDomain, Val.isReal, hk] at hfo)

/-! ## 8. Histories: every sequence of operations of any length -/

/-- well-formed operation inputs: a value that is itself a `RegionMeta` / `RegionVisual` satisfies
the `Meta` class invariant, the `Regions` argument of `extend` is a valid `Regions`. -/
def opWF : Op → Bool
  | .assign _ v => metaWF v
  | .listOp lop => listOpWF lop
  | _ => true

/-- [F14] the one failing input class of a history step: an ACCEPTED attribute assignment after
which an annulus has inner ≥ outer. -/
def opBad (o : Obj) (op : Op) : Bool :=
  match o, op with
  | .region r, .assign f v =>
      (match r.assign f v with
       | .ok r' => orderBad r'
       | .error _ => false)
  | _, _ => false

/-- does a history contain a step of the failing class (evaluated along the history). -/
def histBad : Obj → List Op → Bool
  | _, [] => false
  | o, op :: ops => opBad o op || histBad (step o op).1 ops

/-- full strength: from a valid object, EVERY sequence of (well-formed) operations leads to a
valid object. -/
def valid_invariant_full : Prop :=
  ∀ (o : Obj) (ops : List Op), Valid o → ops.all opWF = true → Valid (run o ops)

def annulus0 : RObj := ⟨.cAnnP, [("center", { kind := .pixCoord, scalar := true }),
  ("inner_radius", { kind := .pyInt, scalar := true, num := .fin 2 }),
  ("outer_radius", { kind := .pyInt, scalar := true, num := .fin 5 }),
  ("meta", emptyMeta), ("visual", emptyVisual)]⟩

/-- [F14, open] `annulus.inner_radius = 10` with `outer_radius = 5` is accepted. -/
theorem valid_invariant_full_refuted : ¬ valid_invariant_full := by
  intro h
  have := h (.region annulus0)
    [.assign "inner_radius" { kind := .pyInt, scalar := true, num := .fin 10 }] (by decide) (by decide)
  exact absurd this (by decide)

/-- the repaired classes stay repaired: NaN, `del`, `nvertices = 2` are all refused. -/
example : (step (.region annulus0)
    (.assign "outer_radius" { kind := .pyFloat, scalar := true, num := .nan })).2 = .err .valueError := by
  decide

/-- one step outside the failing class keeps the invariant – whether it is accepted or rejected. -/
theorem step_valid (o : Obj) (op : Op) (hv : Valid o) (hw : opWF op = true)
    (hb : opBad o op = false) : Valid (step o op).1 := by
  cases o with
  | region r =>
    simp only [Valid] at hv
    cases op with
    | assign f v =>
      simp only [step, opBad] at hb ⊢
      cases ha : r.assign f v with
      | error e => exact hv
      | ok r' =>
        rw [ha] at hb
        exact assign_valid hv ha hw hb
    | delete f =>
      simp only [step]
      cases ha : r.delete f with
      | error e => exact hv
      | ok r' => exact delete_valid hv ha
    | metaOp fld mop =>
      cases fld with
      | none => exact hv
      | some f =>
        simp only [step]
        cases hm : r.metaAt f with
        | none => exact hv
        | some m => exact metaOp_valid mop hv hm
    | listOp lop => exact hv
  | metaObj m =>
    simp only [Valid] at hv
    cases op with
    | metaOp fld mop =>
      cases fld with
      | none => exact meta_entry_points m mop hv
      | some f => exact hv
    | assign f v => exact hv
    | delete f => exact hv
    | listOp lop => exact hv
  | rlist l =>
    simp only [Valid] at hv
    cases op with
    | listOp lop => exact regions_list_typed l lop hw hv
    | assign f v => exact hv
    | delete f => exact hv
    | metaOp fld mop => exact hv

/-- **valid_invariant** (the property minus F14): from a valid object, every history of ANY length
none of whose steps is an accepted inner ≥ outer assignment leads to a valid object: all
parameters present and in their documented domains, inner < outer, nvertices ≥ 3, metadata keys
within the vocabulary, list members regions.  (Induction over the operation list.) -/
theorem valid_invariant_partial (o : Obj) (ops : List Op) (hv : Valid o)
    (hw : ops.all opWF = true) (hb : histBad o ops = false) : Valid (run o ops) := by
  induction ops generalizing o with
  | nil => exact hv
  | cons op ops ih =>
    simp only [histBad, Bool.or_eq_false_iff] at hb
    simp only [List.all_cons, Bool.and_eq_true] at hw
    exact ih _ (step_valid o op hv hw.1 hb.1) hw.2 hb.2

/-- the hypotheses are met by a history that mixes accepted and rejected operations. -/
example : Valid (.region annulus0) ∧ histBad (.region annulus0)
    [.assign "outer_radius" { kind := .pyFloat, scalar := true, num := .fin 7 },
     .assign "inner_radius" { kind := .pyStr, scalar := true, tag := "abc" },
     .assign "outer_radius" { kind := .pyFloat, scalar := true, num := .nan },
     .delete "center",
     .metaOp (some "meta") (.setitem "label" "x"),
     .metaOp (some "meta") (.ior (.mapping [("bad", "1")])),
     .assign "inner_radius" { kind := .pyInt, scalar := true, num := .fin 3 }] = false := by decide

/-- objects without an (inner, outer) pair: every region class but the six annuli, every
metadata object, every region list. -/
def noPairs : Obj → Prop
  | .region r => orderPairs r.cls = []
  | _ => True

theorem step_noPairs (o : Obj) (op : Op) (h : noPairs o) : noPairs (step o op).1 := by
  cases o with
  | region r =>
    simp only [noPairs] at h
    cases op with
    | assign f v =>
      simp only [step]
      cases ha : r.assign f v with
      | error e => exact h
      | ok r' => simp only [RegionsVerif.Impl.Validate.ofExcept, noPairs, (readback ha).1]; exact h
    | delete f =>
      simp only [step]
      cases ha : r.delete f with
      | error e => exact h
      | ok r' =>
        have hc : r'.cls = r.cls := by
          unfold RObj.delete at ha
          split at ha
          · cases ha
          · cases ha
          · split at ha
            · cases ha; rfl
            · cases ha
        simp only [RegionsVerif.Impl.Validate.ofExcept, noPairs, hc]; exact h
    | metaOp fld mop =>
      cases fld with
      | none => exact h
      | some f =>
        simp only [step]
        cases hm : r.metaAt f with
        | none => exact h
        | some m =>
          simp only
          split
          · exact h
          · exact h
    | listOp lop => exact h
  | metaObj m => cases op <;> simp only [step] <;> (try split) <;> trivial
  | rlist l => cases op <;> simp only [step] <;> trivial

theorem noPairs_not_bad (o : Obj) (op : Op) (h : noPairs o) : opBad o op = false := by
  cases o with
  | region r =>
    simp only [noPairs] at h
    cases op with
    | assign f v =>
      simp only [opBad]
      cases ha : r.assign f v with
      | error e => rfl
      | ok r' => simp [orderBad, (readback ha).1, h]
    | _ => rfl
  | metaObj m => cases op <;> rfl
  | rlist l => cases op <;> rfl

/-- **valid_invariant** at FULL strength for every object without an (inner, outer) pair – the 17
non-annulus region classes, `RegionMeta` / `RegionVisual`, `Regions`: EVERY history of any length
keeps the object valid. -/
theorem valid_invariant_no_annulus (o : Obj) (ops : List Op) (hv : Valid o) (hn : noPairs o)
    (hw : ops.all opWF = true) : Valid (run o ops) := by
  induction ops generalizing o with
  | nil => exact hv
  | cons op ops ih =>
    simp only [List.all_cons, Bool.and_eq_true] at hw
    exact ih _ (step_valid o op hv hw.1 (noPairs_not_bad o op hn)) (step_noPairs o op hn) hw.2

/-! ## 9. Constructors -/

/-- well-formed constructor inputs: every value the constructor stores satisfies `metaWF`. -/
def ctorWF (c : Cls) (a : CtorArgs) : Bool :=
  (ctorPlan c a).all fun fe =>
    match fe.2 with
    | .ok v => metaWF v
    | .error _ => true

theorem core_cls {o o' : RObj} {f : String} {v : Val} (h : o.assignCore f v = .ok o') :
    o'.cls = o.cls := (core_readback h).1

theorem assignSeq_frame {o o' : RObj} {plan : List (String × Except Exc Val)}
    (h : assignSeq o plan = .ok o') :
    o'.cls = o.cls ∧ ∀ f, f ∉ plan.map Prod.fst → o'.get f = o.get f := by
  induction plan generalizing o with
  | nil => simp only [assignSeq, Except.ok.injEq] at h; subst h; exact ⟨rfl, fun _ _ => rfl⟩
  | cons hd t ih =>
    obtain ⟨g, eg⟩ := hd
    simp only [assignSeq] at h
    cases eg with
    | error e => cases h
    | ok vg =>
      simp only at h
      cases ha : o.assignCore g vg with
      | error e => rw [ha] at h; cases h
      | ok o1 =>
        rw [ha] at h
        simp only at h
        obtain ⟨hc, hfr⟩ := ih h
        obtain ⟨hc1, hfr1, _⟩ := core_readback ha
        refine ⟨hc.trans hc1, fun f hf => ?_⟩
        simp only [List.map_cons, List.mem_cons, not_or] at hf
        rw [hfr f hf.2, hfr1 f hf.1]

/-- every store of a constructor plan happened: in some intermediate state `o1` of the same
class the assignment was accepted, and the final object still holds what it stored. -/
theorem assignSeq_get {o o' : RObj} {plan : List (String × Except Exc Val)}
    (h : assignSeq o plan = .ok o') (hn : (plan.map Prod.fst).Nodup) :
    ∀ f ev, (f, ev) ∈ plan → ∃ (v : Val) (o1 o2 : RObj), ev = .ok v ∧ o1.cls = o.cls ∧
      o1.assignCore f v = .ok o2 ∧ o'.get f = o2.get f := by
  induction plan generalizing o with
  | nil => intro f ev hm; cases hm
  | cons hd t ih =>
    obtain ⟨g, eg⟩ := hd
    simp only [assignSeq] at h
    simp only [List.map_cons, List.nodup_cons] at hn
    cases eg with
    | error e => cases h
    | ok vg =>
      simp only at h
      cases ha : o.assignCore g vg with
      | error e => rw [ha] at h; cases h
      | ok o1 =>
        rw [ha] at h
        simp only at h
        intro f ev hm
        rcases List.mem_cons.mp hm with hm | hm
        · cases hm
          exact ⟨vg, o, o1, rfl, rfl, ha, (assignSeq_frame h).2 g hn.1⟩
        · obtain ⟨v, p1, p2, hev, hc, hasg, hget⟩ := ih h hn.2 f ev hm
          exact ⟨v, p1, p2, hev, hc.trans (core_cls ha), hasg, hget⟩

/-- the attribute names a constructor stores do not depend on the argument values. -/
def args0 : CtorArgs := { args := [] }

theorem plan_fields (c : Cls) (a : CtorArgs) :
    (ctorPlan c a).map Prod.fst = (ctorPlan c args0).map Prod.fst := by
  cases c <;> simp [ctorPlan, argPlan, metaVisualPlan]

theorem plan_nodup (c : Cls) (a : CtorArgs) : ((ctorPlan c a).map Prod.fst).Nodup := by
  rw [plan_fields]; cases c <;> decide

/-- every documented parameter (every non-read-only attribute of the class table) is stored by
the constructor. -/
theorem plan_covers (c : Cls) (a : CtorArgs) :
    ∀ fa ∈ attrs c, fa.2 ≠ .readonly → fa.1 ∈ (ctorPlan c a).map Prod.fst := by
  rw [plan_fields]; cases c <;> decide

/-- the size / nvertices arguments are stored as given. -/
theorem plan_arg' (c : Cls) (a : CtorArgs) :
    ∀ fa ∈ attrs c, (fa.2 = .descr .posScalar ∨ fa.2 = .descr .posScalarAngle) →
      (fa.1, Except.ok (a.arg fa.1)) ∈ ctorPlan c a := by
  cases c <;> simp [attrs, mv, ctorPlan, argPlan, metaVisualPlan]

theorem plan_arg (c : Cls) (a : CtorArgs) (f : String) (d : Descr)
    (hl : (attrs c).lookup f = some (.descr d)) (hd : d = .posScalar ∨ d = .posScalarAngle) :
    (f, Except.ok (a.arg f)) ∈ ctorPlan c a := by
  apply plan_arg' c a (f, .descr d) (mem_of_lookup hl)
  rcases hd with rfl | rfl
  · exact Or.inl rfl
  · exact Or.inr rfl

theorem construct_ok {c : Cls} {a : CtorArgs} {o : RObj} (h : construct c a = .ok o) :
    preCheck c a = .ok () ∧ assignSeq ⟨c, []⟩ (ctorPlan c a) = .ok o ∧ postCheck c a = .ok () := by
  unfold construct at h
  cases hp : preCheck c a with
  | error e => rw [hp] at h; cases h
  | ok u =>
    rw [hp] at h
    simp only at h
    cases hs : assignSeq ⟨c, []⟩ (ctorPlan c a) with
    | error e => rw [hs] at h; cases h
    | ok o1 =>
      rw [hs] at h
      simp only at h
      cases hq : postCheck c a with
      | error e => rw [hq] at h; cases h
      | ok u' =>
        rw [hq] at h
        cases h
        exact ⟨rfl, rfl, rfl⟩

/-- a size of the documented domain is a finite positive number. -/
theorem size_domain {d : Descr} {v : Val} (hd : d = .posScalar ∨ d = .posScalarAngle)
    (h : inDomain d v = true) : ∃ q, v.num = .fin q ∧ 0 < q := by
  rcases hd with rfl | rfl <;> simp only [inDomain, Bool.and_eq_true] at h <;>
    (obtain ⟨_, hn⟩ := h
     cases hnum : v.num with
     | fin q => rw [hnum] at hn; exact ⟨q, rfl, by simpa using hn⟩
     | pinf => rw [hnum] at hn; cases hn
     | ninf => rw [hnum] at hn; cases hn
     | nan => rw [hnum] at hn; cases hn)

/-- **constructors** (full strength, all 23 classes): whatever a constructor returns is a valid
region – every parameter present and in its documented domain (finite positive sizes, scalar /
1-D coordinates of the right kind, angular angles, `str` text, vocabulary-only metadata),
inner < outer, nvertices ≥ 3. -/
theorem construct_valid (c : Cls) (a : CtorArgs) (o : RObj) (h : construct c a = .ok o)
    (hw : ctorWF c a = true) : o.validB = true := by
  obtain ⟨hpre, hseq, hpost⟩ := construct_ok h
  have hcls : o.cls = c := (assignSeq_frame hseq).1
  have hget := assignSeq_get hseq (plan_nodup c a)
  -- every stored attribute is as documented
  have hfield : ∀ fa ∈ attrs c, fieldOk o fa = true := by
    intro fa hfa
    obtain ⟨f, at'⟩ := fa
    by_cases hro : at' = .readonly
    · subst hro; rfl
    · have hmem := plan_covers c a (f, at') hfa hro
      obtain ⟨⟨f', ev⟩, hmem', hf'⟩ := List.mem_map.mp hmem
      simp only at hf'; subst hf'
      obtain ⟨v, o1, o2, hev, hc1, hasg, hg⟩ := hget f' ev hmem'
      subst hev
      have hc1' : o1.cls = c := hc1
      have hvw : metaWF v = true := by
        have := List.all_eq_true.mp hw (f', .ok v) hmem'
        simpa using this
      have hfo := core_fieldOk hasg hvw at' (by rw [hc1']; exact lookup_of_mem (attrs_nodup c) hfa)
      rw [fieldOk_congr (o := o2) (o' := o) (f', at') hg]
      exact hfo
  -- the stored sizes are the arguments themselves
  have hsize : ∀ f d, (attrs c).lookup f = some (.descr d) → (d = .posScalar ∨ d = .posScalarAngle) →
      o.get f = some (a.arg f) ∧ inDomain d (a.arg f) = true := by
    intro f d hl hd
    obtain ⟨v, o1, o2, hev, hc1, hasg, hg⟩ := hget f _ (plan_arg c a f d hl hd)
    cases hev
    have hc1' : o1.cls = c := hc1
    obtain ⟨_, _, v', hg2, _, hid, _⟩ := core_readback hasg
    have hv' : v' = a.arg f :=
      hid d (by rw [hc1']; exact hl) (by rcases hd with rfl | rfl <;> simp)
        (by rcases hd with rfl | rfl <;> simp)
    subst hv'
    have hfo := hfield (f, .descr d) (mem_of_lookup hl)
    simp only [fieldOk, hg, hg2] at hfo
    exact ⟨by rw [hg, hg2], hfo⟩
  rw [validB_iff, hcls]
  refine ⟨hfield, ?_, ?_⟩
  · -- inner < outer: both are finite positive sizes and the constructor checked `not inner >= outer`
    intro p hp
    obtain ⟨d, hd, h1, h2⟩ := pair_fields c p hp
    obtain ⟨hg1, hd1⟩ := hsize p.1 d h1 hd
    obtain ⟨hg2, hd2⟩ := hsize p.2 d h2 hd
    obtain ⟨q1, hn1, _⟩ := size_domain hd hd1
    obtain ⟨q2, hn2, _⟩ := size_domain hd hd2
    simp only [postCheck] at hpost
    split at hpost
    · cases hpost
    · rename_i hany
      simp only [Bool.not_eq_true] at hany
      have := List.any_eq_false.mp hany p hp
      simp only [pyGe, hn1, hn2, Num.le, decide_eq_true_eq, not_le] at this
      simp only [pairOk, hg1, hg2, hn1, hn2, Num.lt, decide_eq_true_eq]
      exact this
  · -- nvertices >= 3: the constructor checked `not nvertices < 3` on a finite number
    unfold nvertsOk
    rw [hcls]
    by_cases hr : c = .regPolyP
    · subst hr
      obtain ⟨hg, hdom⟩ := hsize "nvertices" .posScalar (by decide) (Or.inl rfl)
      obtain ⟨q, hn, _⟩ := size_domain (Or.inl rfl) hdom
      have hreal : (a.arg "nvertices").isReal = true := by
        simp only [inDomain, Bool.and_eq_true] at hdom; exact hdom.1.1
      simp only [preCheck] at hpre
      have hlt : pyLtConst (a.arg "nvertices") 3 = .ok (Num.lt (a.arg "nvertices").num (.fin 3)) := by
        unfold Val.isReal at hreal
        unfold pyLtConst
        split at hreal <;> simp_all
      rw [hlt, hn] at hpre
      simp only [Num.lt] at hpre
      have h3 : ¬ q < 3 := by
        intro hq
        simp [hq] at hpre
      simp only [hg, hn, Num.le, bne_self_eq_false, Bool.false_or, decide_eq_true_eq]
      exact not_lt.mp h3
    · have hbne : (c != Cls.regPolyP) = true := by simpa using hr
      simp only [hbne, Bool.true_or]

/-- a valid annulus construction meets the hypothesis … -/
example : let a : CtorArgs := { args := [("center", { kind := .pixCoord, scalar := true }),
      ("inner_radius", { kind := .pyInt, scalar := true, num := .fin 2 }),
      ("outer_radius", { kind := .pyFloat, scalar := true, num := .fin 5 })] }
    ctorWF .cAnnP a = true ∧ (construct .cAnnP a).toBool = true := by decide

/-- … and the constructors refuse NaN sizes, inner ≥ outer, nvertices < 3, non-`str` text. -/
example : construct .circleP { args := [("center", { kind := .pixCoord, scalar := true }),
      ("radius", { kind := .pyFloat, scalar := true, num := .nan })] } = .error .valueError := by
  decide
example : construct .cAnnP { args := [("center", { kind := .pixCoord, scalar := true }),
      ("inner_radius", { kind := .pyInt, scalar := true, num := .fin 5 }),
      ("outer_radius", { kind := .pyInt, scalar := true, num := .fin 5 })] } = .error .valueError := by
  decide
example : construct .textP { args := [("center", { kind := .pixCoord, scalar := true }),
      ("text", { kind := .pyInt, scalar := true, num := .fin 5 })] } = .error .valueError := by
  decide

/-- mask / box shape agreement: a `RegionMask` exists only with `data.shape == bbox.shape`. -/
theorem mask_ctor_iff (s : List Int) (ny nx : Int) : maskCtor s ny nx = .ok () ↔ s = [ny, nx] := by
  unfold maskCtor
  split <;> simp_all

/-! ## 10. The whole property for constructed objects -/

/-- from ANY accepted constructor call, EVERY history without an accepted inner ≥ outer assignment
(F14) ends in a valid region. -/
theorem constructed_histories_valid (c : Cls) (a : CtorArgs) (o : RObj) (ops : List Op)
    (h : construct c a = .ok o) (hc : ctorWF c a = true) (hw : ops.all opWF = true)
    (hh : histBad (.region o) ops = false) : Valid (run (.region o) ops) :=
  valid_invariant_partial _ ops (construct_valid c a o h hc) hw hh

/-- … and for every class without an (inner, outer) pair: EVERY history, full strength. -/
theorem constructed_histories_valid_no_annulus (c : Cls) (a : CtorArgs) (o : RObj)
    (ops : List Op) (h : construct c a = .ok o) (hc : ctorWF c a = true)
    (hp : orderPairs c = []) (hw : ops.all opWF = true) : Valid (run (.region o) ops) := by
  have hcls : o.cls = c := (assignSeq_frame (construct_ok h).2.1).1
  exact valid_invariant_no_annulus _ ops (construct_valid c a o h hc)
    (by simp only [noPairs, hcls]; exact hp) hw

/-- metadata objects and region lists: EVERY history from EVERY constructor call, full strength. -/
theorem constructed_meta_histories_valid (vis : Bool) (seq : MetaArg) (kw : Items) (m : MetaObj)
    (ops : List Op) (h : MetaObj.ctor vis seq kw = .ok m) (hw : ops.all opWF = true) :
    Valid (run (.metaObj m) ops) :=
  valid_invariant_no_annulus _ ops (meta_ctor_keysOk h).1 trivial hw

theorem constructed_list_histories_valid (arg : Option (List Member × Bool)) (l : RList)
    (ops : List Op) (h : RList.ctor arg = .ok l) (hw : ops.all opWF = true) :
    Valid (run (.rlist l) ops) :=
  valid_invariant_no_annulus _ ops (regions_ctor_typed h) trivial hw

end RegionsVerif.Props.C17
