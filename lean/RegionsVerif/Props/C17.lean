/-
C17 — no sequence of constructions and assignments yields an invalid region.

Theorems about `Impl/Validate.lean` (the model of `regions/core/attributes.py`, `metadata.py`,
`regions.py` and the shape constructors) against the documented domains (`inDomain`, `Valid`).

Every clause of the property is stated at full strength.  Where the model of the CURRENT code
refutes a clause (findings F11, F12a, F12b, F13a, F13b, F14, F14b, F14c of
`known_findings/C17.json`) the file keeps `def clause_full : Prop`, proves
`clause_full_refuted` with a concrete witness, and proves `clause_partial` under a decidable
predicate that excludes exactly the failing input class.
-/
import RegionsVerif.Impl.Validate

namespace RegionsVerif.Props.C17
open RegionsVerif.Impl.Validate

/-! ## 0. The excluded input classes (one per finding) -/

/-- [F11] a NaN or +∞ given to a size parameter. -/
def nonFiniteSize (d : Descr) (v : Val) : Bool :=
  (d == .posScalar || d == .posScalarAngle) && (v.num == .nan || v.num == .pinf)

/-- a `RegionMeta` / `RegionVisual` VALUE whose keys are in its vocabulary (every Meta object that
was built and mutated through validated entry points – see `meta_entry_points_partial`). -/
def metaWF (v : Val) : Bool :=
  (v.kind != .regionMeta || keysIn metaKeys v.items) &&
  (v.kind != .regionVisual || keysIn visualKeys v.items)

/-! ## 1. Validators: accepted ⇒ documented domain, documented domain ⇒ accepted -/

/-- full strength: whatever a validator accepts lies in the documented domain. -/
def validator_sound_full : Prop :=
  ∀ (d : Descr) (v : Val), metaWF v = true → validate d v = .ok () → inDomain d v = true

/-- [F11] `PositiveScalar` accepts NaN (`nan <= 0` is `False`). -/
theorem validator_sound_full_refuted : ¬ validator_sound_full := by
  intro h
  have := h .posScalar { kind := .pyFloat, scalar := true, num := .nan } (by decide) (by decide)
  exact absurd this (by decide)

/-- … and +∞, and `PositiveScalarAngle` accepts +∞ (but not NaN: `not nan > 0`). -/
example : validate .posScalar { kind := .pyFloat, scalar := true, num := .pinf } = .ok () := by decide
example : validate .posScalarAngle
    { kind := .quantity, scalar := true, phys := .angle, num := .pinf } = .ok () := by decide
example : validate .posScalarAngle
    { kind := .quantity, scalar := true, phys := .angle, num := .nan } = .error .valueError := by decide

theorem le_zero_false {n : Num} (h : Num.le n (.fin 0) = false) (h1 : n ≠ .nan) (h2 : n ≠ .pinf) :
    ∃ q, n = .fin q ∧ 0 < q := by
  cases n with
  | fin q =>
    refine ⟨q, rfl, ?_⟩
    simp only [Num.le, decide_eq_false_iff_not, not_le] at h
    exact h
  | pinf => exact absurd rfl h2
  | ninf => simp [Num.le] at h
  | nan => exact absurd rfl h1

theorem zero_lt_true {n : Num} (h : Num.lt (.fin 0) n = true) (h2 : n ≠ .pinf) :
    ∃ q, n = .fin q ∧ 0 < q := by
  cases n with
  | fin q =>
    refine ⟨q, rfl, ?_⟩
    simpa [Num.lt] using h
  | pinf => exact absurd rfl h2
  | ninf => simp [Num.lt] at h
  | nan => simp [Num.lt] at h

/-- the property minus F11: every accepted value that is not a NaN / +∞ size is in the
documented domain (for each of the 11 descriptor kinds). -/
theorem validator_sound_partial (d : Descr) (v : Val) (hwf : metaWF v = true)
    (hfin : nonFiniteSize d v = false) (h : validate d v = .ok ()) : inDomain d v = true := by
  cases d with
  | scalarPix =>
    simp only [validate] at h
    split at h
    · rename_i hc; simp [inDomain, hc.1, hc.2]
    · cases h
  | oneDPix =>
    simp only [validate] at h
    split at h
    · rename_i hc; simp [inDomain, hc.1, hc.2.1, hc.2.2]
    · cases h
  | posScalar =>
    simp only [validate] at h
    by_cases hq : v.kind = .quantity
    · simp [hq] at h
    · by_cases hs : v.npIsScalar = false
      · simp [hq, hs] at h
      · by_cases hr : v.isReal = true
        · cases hle : Num.le v.num (.fin 0)
          · have hn : v.num ≠ .nan ∧ v.num ≠ .pinf := by
              simp only [nonFiniteSize, beq_self_eq_true, Bool.true_or, Bool.true_and,
                Bool.or_eq_false_iff, beq_eq_false_iff_ne, ne_eq] at hfin
              exact hfin
            obtain ⟨q, hq', hpos⟩ := le_zero_false hle hn.1 hn.2
            simp only [Bool.not_eq_false] at hs
            simp [inDomain, hr, hs, hq', hpos]
          · simp [hq, hs, pyLeZero, hr, hle] at h
        · simp [hq, hs, pyLeZero, hr] at h
  | scalarSky =>
    simp only [validate] at h
    split at h
    · rename_i hc; simp [inDomain, hc.1, hc.2]
    · cases h
  | oneDSky =>
    simp only [validate] at h
    split at h
    · rename_i hc; simp [inDomain, hc.1, hc.2]
    · cases h
  | scalarAngle =>
    simp only [validate] at h
    split at h
    · rename_i hk
      split at h
      · cases h
      · rename_i hs
        split at h
        · cases h
        · rename_i hp
          simp only [Bool.not_eq_false] at hs
          simp only [ne_eq, Decidable.not_not] at hp
          simp [inDomain, hk, hs, hp]
    · cases h
  | posScalarAngle =>
    simp only [validate] at h
    split at h
    · rename_i hk
      split at h
      · cases h
      · rename_i hs
        split at h
        · cases h
        · rename_i hp
          split at h
          · cases h
          · rename_i hlt
            simp only [Bool.not_eq_false] at hs hlt
            simp only [ne_eq, Decidable.not_not] at hp
            have hn : v.num ≠ .pinf := by
              simp only [nonFiniteSize, beq_self_eq_true, Bool.or_true, Bool.true_and,
                Bool.or_eq_false_iff, beq_eq_false_iff_ne, ne_eq] at hfin
              exact hfin.2
            obtain ⟨q, hq', hpos⟩ := zero_lt_true hlt hn
            simp [inDomain, hk, hs, hp, hq', hpos]
    · cases h
  | regionType sky =>
    cases sky <;> simp only [validate, Bool.false_eq_true, ↓reduceIte] at h <;>
    · split at h
      · rename_i hc; simp [inDomain, hc]
      · cases h
  | rmeta =>
    simp only [validate] at h
    split at h
    · rename_i hc
      simp only [metaWF, hc, bne_self_eq_false, Bool.false_or, Bool.and_eq_true] at hwf
      simp [inDomain, hc, hwf.1]
    · cases h
  | rvisual =>
    simp only [validate] at h
    split at h
    · rename_i hc
      simp only [metaWF, hc, bne_self_eq_false, Bool.false_or, Bool.and_eq_true] at hwf
      simp [inDomain, hc, hwf.2]
    · cases h

/-- the hypotheses of `validator_sound_partial` are satisfiable (a finite positive radius). -/
example : let v : Val := { kind := .pyFloat, scalar := true, num := .fin 3 }
    metaWF v = true ∧ nonFiniteSize .posScalar v = false ∧ validate .posScalar v = .ok () := by decide

/-- every value of the documented domain is accepted (no valid region is refused). -/
theorem validator_complete (d : Descr) (v : Val) (h : inDomain d v = true) :
    validate d v = .ok () := by
  cases d with
  | scalarPix =>
    simp only [inDomain, Bool.and_eq_true, beq_iff_eq] at h
    simp [validate, h.1, h.2]
  | oneDPix =>
    simp only [inDomain, Bool.and_eq_true, beq_iff_eq, Bool.not_eq_true'] at h
    simp [validate, h.1.1, h.1.2, h.2]
  | posScalar =>
    simp only [inDomain, Bool.and_eq_true] at h
    obtain ⟨⟨hr, hs⟩, hn⟩ := h
    have hk : v.kind ≠ .quantity := by
      intro hk; simp [Val.isReal, hk] at hr
    cases hnum : v.num with
    | fin q =>
      rw [hnum] at hn
      simp only [decide_eq_true_eq] at hn
      have hd : decide (q ≤ 0) = false := by simpa using hn
      simp [validate, hk, hs, pyLeZero, hr, hnum, Num.le, hd]
    | pinf => rw [hnum] at hn; simp at hn
    | ninf => rw [hnum] at hn; simp at hn
    | nan => rw [hnum] at hn; simp at hn
  | scalarSky =>
    simp only [inDomain, Bool.and_eq_true, beq_iff_eq] at h
    simp [validate, h.1, h.2]
  | oneDSky =>
    simp only [inDomain, Bool.and_eq_true, beq_iff_eq] at h
    simp [validate, h.1, h.2]
  | scalarAngle =>
    simp only [inDomain, Bool.and_eq_true, beq_iff_eq] at h
    simp [validate, h.1.1, h.1.2, h.2]
  | posScalarAngle =>
    simp only [inDomain, Bool.and_eq_true, beq_iff_eq] at h
    obtain ⟨⟨⟨hk, hs⟩, hp⟩, hn⟩ := h
    cases hnum : v.num with
    | fin q =>
      rw [hnum] at hn
      simp only [decide_eq_true_eq] at hn
      simp [validate, hk, hs, hp, hnum, Num.lt, hn]
    | pinf => rw [hnum] at hn; simp at hn
    | ninf => rw [hnum] at hn; simp at hn
    | nan => rw [hnum] at hn; simp at hn
  | regionType sky =>
    simp only [inDomain, beq_iff_eq] at h
    simp [validate, h]
  | rmeta =>
    simp only [inDomain, Bool.and_eq_true, beq_iff_eq] at h
    simp [validate, h.1]
  | rvisual =>
    simp only [inDomain, Bool.and_eq_true, beq_iff_eq] at h
    simp [validate, h.1]

/-- a validator rejects with `ValueError` or `TypeError` only. -/
theorem validate_exception_class (d : Descr) (v : Val) (e : Exc) (h : validate d v = .error e) :
    e = .valueError ∨ e = .typeError := by
  cases d with
  | posScalar =>
    simp only [validate, pyLeZero] at h
    by_cases hr : v.isReal = true
    · simp only [hr, if_true] at h
      (repeat' split at h) <;> simp_all
    · simp only [hr] at h
      (repeat' split at h) <;> simp_all
  | _ =>
    simp only [validate] at h
    (repeat' split at h) <;> simp_all

/-! ## 2. Field maps (`instance.__dict__`) -/

theorem lookup_cons' {α : Type} (g k : String) (w : α) (t : List (String × α)) :
    List.lookup g ((k, w) :: t) = if g = k then some w else List.lookup g t := by
  by_cases h : g = k
  · subst h; simp [List.lookup]
  · have hb : (g == k) = false := by simpa using h
    simp [List.lookup, hb, h]

theorem fget_fset (fs : Fields) (f g : String) (v : Val) :
    fget (fset fs f v) g = if g = f then some v else fget fs g := by
  induction fs with
  | nil =>
    simp only [fset, fget, lookup_cons', List.lookup]
  | cons hd t ih =>
    obtain ⟨h, w⟩ := hd
    simp only [fget] at ih
    by_cases hf : h = f
    · subst hf
      by_cases hg : g = h <;> simp [fset, fget, lookup_cons', hg]
    · by_cases hg : g = h
      · subst hg
        simp [fset, fget, hf]
      · simp [fset, fget, lookup_cons', hf, hg, ih]

theorem fget_ferase (fs : Fields) (f g : String) (h : g ≠ f) :
    fget (ferase fs f) g = fget fs g := by
  induction fs with
  | nil => rfl
  | cons hd t ih =>
    obtain ⟨k, w⟩ := hd
    simp only [fget, ferase] at ih
    by_cases hk : k = f
    · subst hk
      simp [ferase, fget, lookup_cons', List.filter, h, ih]
    · have hb : (k != f) = true := by simpa using hk
      by_cases hg : g = k
      · subst hg; simp [ferase, fget, List.filter, hb]
      · simp [ferase, fget, lookup_cons', List.filter, hb, hg, ih]

theorem RObj.get_set (o : RObj) (f g : String) (v : Val) :
    (o.set f v).get g = if g = f then some v else o.get g := fget_fset o.fields f g v

/-- what a successful `setattr` did. -/
theorem assign_ok {o o' : RObj} {f : String} {v : Val} (h : o.assign f v = .ok o') :
    ∃ v', o' = o.set f v' ∧
      ((∃ d, (attrs o.cls).lookup f = some (.descr d) ∧ coerce d v = .ok v' ∧ validate d v' = .ok ()) ∨
       (((attrs o.cls).lookup f = some .plain ∨ (attrs o.cls).lookup f = none) ∧ v' = v)) := by
  unfold RObj.assign at h
  split at h
  · rename_i d hl
    split at h
    · cases h
    · rename_i v' hc
      split at h
      · cases h
      · rename_i hv
        simp only [Except.ok.injEq] at h
        exact ⟨v', h.symm, Or.inl ⟨d, hl, hc, hv⟩⟩
  · cases h
  · rename_i hl
    simp only [Except.ok.injEq] at h
    exact ⟨v, h.symm, Or.inr ⟨Or.inl hl, rfl⟩⟩
  · rename_i hl
    simp only [Except.ok.injEq] at h
    exact ⟨v, h.symm, Or.inr ⟨Or.inr hl, rfl⟩⟩

/-- `coerce` only touches `meta` / `visual`. -/
theorem coerce_id (d : Descr) (v : Val) (h1 : d ≠ .rmeta) (h2 : d ≠ .rvisual) : coerce d v = .ok v := by
  cases d <;> simp_all [coerce]

/-- **readback**: after an accepted assignment the attribute reads back as the assigned value
(for `meta` / `visual`: as its `RegionMeta` / `RegionVisual` conversion), every other attribute is
untouched and the class is unchanged. -/
theorem readback {o o' : RObj} {f : String} {v : Val} (h : o.assign f v = .ok o') :
    o'.cls = o.cls ∧ (∀ g, g ≠ f → o'.get g = o.get g) ∧
    ∃ v', o'.get f = some v' ∧
      (∀ d, (attrs o.cls).lookup f = some (.descr d) → coerce d v = .ok v') ∧
      (∀ d, (attrs o.cls).lookup f = some (.descr d) → d ≠ .rmeta → d ≠ .rvisual → v' = v) ∧
      ((attrs o.cls).lookup f = some .plain ∨ (attrs o.cls).lookup f = none → v' = v) := by
  obtain ⟨v', rfl, hcase⟩ := assign_ok h
  refine ⟨rfl, fun g hg => by simp [RObj.get_set, hg], v', by simp [RObj.get_set], ?_, ?_, ?_⟩
  · intro d hd
    rcases hcase with ⟨d', hd', hc, _⟩ | ⟨hl, _⟩
    · rw [hd] at hd'; cases hd'; exact hc
    · rcases hl with hl | hl <;> rw [hd] at hl <;> cases hl
  · intro d hd h1 h2
    rcases hcase with ⟨d', hd', hc, _⟩ | ⟨hl, _⟩
    · rw [hd] at hd'; cases hd'
      rw [coerce_id d v h1 h2] at hc
      cases hc; rfl
    · rcases hl with hl | hl <;> rw [hd] at hl <;> cases hl
  · intro hl
    rcases hcase with ⟨d', hd', _, _⟩ | ⟨_, hv⟩
    · rcases hl with hl | hl <;> rw [hd'] at hl <;> cases hl
    · exact hv

/-! ## 3. Metadata dictionaries -/

/-- the key is in the class vocabulary after key mapping. -/
def keyValid (vis : Bool) (k : String) : Bool := (vocabulary vis).contains (mapKey vis k)

theorem keysIn_iff (vocab : List String) (d : Items) :
    keysIn vocab d = true ↔ ∀ kv ∈ d, vocab.contains kv.1 = true := by
  simp [keysIn, List.all_eq_true]

theorem mem_dictSet {d : Items} {k v : String} {kv : String × String} (h : kv ∈ dictSet d k v) :
    kv ∈ d ∨ kv = (k, v) := by
  induction d with
  | nil => simp only [dictSet, List.mem_singleton] at h; exact Or.inr h
  | cons hd t ih =>
    obtain ⟨k', v'⟩ := hd
    by_cases hk : k' = k
    · simp only [dictSet, hk, if_true] at h
      rcases List.mem_cons.mp h with h | h
      · exact Or.inr h
      · exact Or.inl (List.mem_cons_of_mem _ h)
    · simp only [dictSet, hk, if_false] at h
      rcases List.mem_cons.mp h with h | h
      · exact Or.inl (h ▸ List.mem_cons_self ..)
      · rcases ih h with h | h
        · exact Or.inl (List.mem_cons_of_mem _ h)
        · exact Or.inr h

theorem keysIn_dictSet {vocab : List String} {d : Items} {k v : String}
    (hd : keysIn vocab d = true) (hk : vocab.contains k = true) :
    keysIn vocab (dictSet d k v) = true := by
  rw [keysIn_iff] at hd ⊢
  intro kv hkv
  rcases mem_dictSet hkv with h | h
  · exact hd kv h
  · subst h; exact hk

theorem dictHas_dictSet (d : Items) (k v : String) : dictHas (dictSet d k v) k = true := by
  induction d with
  | nil => simp [dictSet, dictHas]
  | cons hd t ih =>
    obtain ⟨k', v'⟩ := hd
    simp only [dictHas] at ih
    by_cases hk : k' = k
    · simp [dictSet, dictHas, hk]
    · simp only [dictSet, hk, if_false, dictHas, List.any_cons, Bool.or_eq_true]
      exact Or.inr ih

theorem keysIn_foldl_dictSet {vocab : List String} (l d : Items)
    (hd : keysIn vocab d = true) (hl : keysIn vocab l = true) :
    keysIn vocab (l.foldl (fun d kv => dictSet d kv.1 kv.2) d) = true := by
  induction l generalizing d with
  | nil => exact hd
  | cons hd' t ih =>
    simp only [List.foldl_cons]
    have hl' := (keysIn_iff _ _).mp hl
    apply ih
    · exact keysIn_dictSet hd (hl' hd' (List.mem_cons_self ..))
    · exact (keysIn_iff _ _).mpr fun kv hkv => hl' kv (List.mem_cons_of_mem _ hkv)

theorem setitem_ok {m m' : MetaObj} {k v : String} (h : m.setitem k v = .ok m') :
    keyValid m.vis k = true ∧ m' = { m with items := dictSet m.items (mapKey m.vis k) v } := by
  unfold MetaObj.setitem at h
  simp only at h
  split at h
  · rename_i hc; cases h; exact ⟨hc, rfl⟩
  · cases h

theorem setitem_err {m : MetaObj} {k v : String} {e : Exc} (h : m.setitem k v = .error e) :
    e = .keyError ∧ keyValid m.vis k = false := by
  unfold MetaObj.setitem at h
  simp only at h
  split at h
  · cases h
  · rename_i hc; cases h; exact ⟨rfl, by simpa [keyValid] using hc⟩

theorem setitem_keysOk {m m' : MetaObj} {k v : String} (h : m.setitem k v = .ok m')
    (hk : m.keysOk = true) : m'.keysOk = true ∧ m'.vis = m.vis := by
  obtain ⟨hv, rfl⟩ := setitem_ok h
  exact ⟨keysIn_dictSet hk hv, rfl⟩

/-- the sequential store loop keeps the class and the vocabulary invariant (also when it stops
early), and raises only `KeyError`. -/
theorem setAll_inv (m : MetaObj) (l : Items) :
    (m.setAll l).1.vis = m.vis ∧ (m.keysOk = true → (m.setAll l).1.keysOk = true) ∧
    (∀ e, (m.setAll l).2 = .err e → e = .keyError) := by
  induction l generalizing m with
  | nil => simp [MetaObj.setAll]
  | cons hd t ih =>
    obtain ⟨k, v⟩ := hd
    simp only [MetaObj.setAll]
    cases hs : m.setitem k v with
    | error e =>
      obtain ⟨he, _⟩ := setitem_err hs
      simp [he]
    | ok m' =>
      obtain ⟨hv, rfl⟩ := setitem_ok hs
      have := ih { m with items := dictSet m.items (mapKey m.vis k) v }
      exact ⟨this.1, fun hk => this.2.1 (keysIn_dictSet hk hv), this.2.2⟩

theorem setAll_all_valid (m : MetaObj) (l : Items)
    (h : l.all (fun kv => keyValid m.vis kv.1) = true) : (m.setAll l).2 = .ok := by
  induction l generalizing m with
  | nil => rfl
  | cons hd t ih =>
    obtain ⟨k, v⟩ := hd
    simp only [List.all_cons, Bool.and_eq_true] at h
    simp only [MetaObj.setAll]
    cases hs : m.setitem k v with
    | error e =>
      obtain ⟨_, hf⟩ := setitem_err hs
      rw [h.1] at hf; cases hf
    | ok m' =>
      obtain ⟨_, rfl⟩ := setitem_ok hs
      exact ih _ h.2

/-- [F12b] the input class on which the store loop is not atomic: a valid key first, an invalid
key later. -/
def seqSplits (vis : Bool) : Items → Bool
  | [] => false
  | kv :: t => keyValid vis kv.1 && t.any (fun kv => !keyValid vis kv.1)

theorem setAll_err_unchanged (m : MetaObj) (l : Items) (hs : seqSplits m.vis l = false)
    (he : (m.setAll l).2 ≠ .ok) : (m.setAll l).1 = m := by
  cases l with
  | nil => exact absurd rfl he
  | cons hd t =>
    obtain ⟨k, v⟩ := hd
    simp only [MetaObj.setAll] at he ⊢
    cases hsi : m.setitem k v with
    | error e => rfl
    | ok m' =>
      obtain ⟨hv, rfl⟩ := setitem_ok hsi
      rw [hsi] at he
      simp only [seqSplits, hv, Bool.true_and] at hs
      exfalso
      apply he
      apply setAll_all_valid
      rw [List.all_eq_true]
      intro kv hkv
      have := List.any_eq_false.mp hs kv hkv
      simpa using this

theorem setAll_append (m : MetaObj) (a b : Items) :
    m.setAll (a ++ b) = match m.setAll a with
      | (m', .ok) => m'.setAll b
      | (m', .err e) => (m', .err e) := by
  induction a generalizing m with
  | nil => simp [MetaObj.setAll]
  | cons hd t ih =>
    obtain ⟨k, v⟩ := hd
    simp only [List.cons_append, MetaObj.setAll]
    cases hs : m.setitem k v with
    | error e => rfl
    | ok m' => exact ih m'

/-- the keys `Meta.update(*args, **kw)` goes through, in order (`none`: the call fails before
looking at any key). -/
def updateSeq (nargs : Nat) (arg : MetaArg) (kw : Items) : Option Items :=
  if nargs > 1 then none
  else match (if nargs = 0 then Except.ok [] else argAsDict arg) with
    | .error _ => none
    | .ok other => some (other ++ kw)

/-- [F12b] `update` calls whose first invalid key is preceded by a valid one. -/
def opSplits (vis : Bool) : MetaOp → Bool
  | .update nargs arg kw =>
      (match updateSeq nargs arg kw with
       | some seq => seqSplits vis seq
       | none => false)
  | _ => false

/-- [F12a] `|=` with a key that is not (literally) in the vocabulary. -/
def iorBad (vis : Bool) : MetaOp → Bool
  | .ior arg =>
      (match argAsDict arg with
       | .ok d => !keysIn (vocabulary vis) d
       | .error _ => false)
  | _ => false

theorem update_eq (m : MetaObj) (nargs : Nat) (arg : MetaArg) (kw seq : Items)
    (h : updateSeq nargs arg kw = some seq) : metaStep m (.update nargs arg kw) = m.setAll seq := by
  unfold updateSeq at h
  by_cases hn : nargs > 1
  · simp [hn] at h
  · simp only [hn, if_false] at h
    simp only [metaStep, metaUpdate, hn, if_false]
    cases ha : (if nargs = 0 then Except.ok [] else argAsDict arg) with
    | error e => rw [ha] at h; cases h
    | ok other =>
      rw [ha] at h
      simp only [Option.some.injEq] at h
      subst h
      simp only
      rw [setAll_append]
      cases hr : m.setAll other with
      | mk m' r => cases r <;> rfl

theorem update_none (m : MetaObj) (nargs : Nat) (arg : MetaArg) (kw : Items)
    (h : updateSeq nargs arg kw = none) :
    (metaStep m (.update nargs arg kw)).1 = m ∧ (metaStep m (.update nargs arg kw)).2 ≠ .ok := by
  unfold updateSeq at h
  by_cases hn : nargs > 1
  · simp [metaStep, metaUpdate, hn]
  · simp only [hn, if_false] at h
    simp only [metaStep, metaUpdate, hn, if_false]
    cases ha : (if nargs = 0 then Except.ok [] else argAsDict arg) with
    | error e => simp
    | ok other => rw [ha] at h; cases h

/-- a dict-mutation call keeps the class of the object. -/
theorem metaStep_vis (m : MetaObj) (op : MetaOp) : (metaStep m op).1.vis = m.vis := by
  cases op with
  | setitem k v =>
    simp only [metaStep]
    cases hs : m.setitem k v with
    | error e => rfl
    | ok m' => obtain ⟨_, rfl⟩ := setitem_ok hs; rfl
  | update nargs arg kw =>
    cases hu : updateSeq nargs arg kw with
    | none => rw [(update_none m nargs arg kw hu).1]
    | some seq => rw [update_eq m nargs arg kw seq hu]; exact (setAll_inv m seq).1
  | setdefault k v =>
    simp only [metaStep]
    by_cases hh : dictHas m.items k = true
    · simp only [hh, if_true]; split <;> rfl
    · simp only [hh]
      cases hs : m.setitem k v with
      | error e => rfl
      | ok m' =>
        obtain ⟨_, rfl⟩ := setitem_ok hs
        simp only [Bool.false_eq_true, if_false]
        split <;> rfl
  | ior arg =>
    simp only [metaStep]
    cases argAsDict arg <;> rfl
  | pop k d => simp only [metaStep]; split <;> (try split) <;> rfl
  | popitem => simp only [metaStep]; split <;> rfl
  | clear => rfl
  | delitem k => simp only [metaStep]; split <;> rfl
theorem keysIn_sub {vocab : List String} {d d' : Items} (h : ∀ kv ∈ d', kv ∈ d)
    (hd : keysIn vocab d = true) : keysIn vocab d' = true := by
  rw [keysIn_iff] at hd ⊢
  exact fun kv hkv => hd kv (h kv hkv)

/-- full strength: EVERY dict-mutation entry point keeps the keys inside the vocabulary. -/
def meta_entry_points_full : Prop :=
  ∀ (m : MetaObj) (op : MetaOp), m.keysOk = true → (metaStep m op).1.keysOk = true

/-- [F12a] `RegionMeta() |= {'bad': 1}` succeeds. -/
theorem meta_entry_points_full_refuted : ¬ meta_entry_points_full := by
  intro h
  have := h ⟨false, []⟩ (.ior (.mapping [("bad", "1")])) (by decide)
  exact absurd this (by decide)

/-- the property minus F12a: every entry point other than `|=` with an out-of-vocabulary key
(`__setitem__`, `update` in all its call forms, `setdefault`, `pop`, `popitem`, `clear`,
`__delitem__`, and `|=` with valid literal keys) keeps the vocabulary invariant – whether the
call succeeds or raises. -/
theorem meta_entry_points_partial (m : MetaObj) (op : MetaOp) (hs : iorBad m.vis op = false)
    (hk : m.keysOk = true) : (metaStep m op).1.keysOk = true := by
  cases op with
  | setitem k v =>
    simp only [metaStep]
    cases hsi : m.setitem k v with
    | error e => exact hk
    | ok m' => exact (setitem_keysOk hsi hk).1
  | update nargs arg kw =>
    cases hu : updateSeq nargs arg kw with
    | none => rw [(update_none m nargs arg kw hu).1]; exact hk
    | some seq => rw [update_eq m nargs arg kw seq hu]; exact (setAll_inv m seq).2.1 hk
  | setdefault k v =>
    simp only [metaStep]
    by_cases hh : dictHas m.items k = true
    · simp only [hh, if_true]; split <;> exact hk
    · simp only [hh]
      cases hsi : m.setitem k v with
      | error e => exact hk
      | ok m' =>
        have := (setitem_keysOk hsi hk).1
        simp only [Bool.false_eq_true, if_false]
        split <;> exact this
  | ior arg =>
    simp only [metaStep]
    simp only [iorBad] at hs
    cases ha : argAsDict arg with
    | error e => exact hk
    | ok d =>
      rw [ha] at hs
      simp only [Bool.not_eq_false'] at hs
      exact keysIn_foldl_dictSet d m.items hk hs
  | pop k d =>
    simp only [metaStep]
    split
    · exact keysIn_sub (fun kv h => (List.mem_filter.mp h).1) hk
    · split <;> exact hk
  | popitem =>
    simp only [metaStep]
    split
    · exact hk
    · exact keysIn_sub (fun kv h => List.dropLast_subset _ h) hk
  | clear => rfl
  | delitem k =>
    simp only [metaStep]
    split
    · exact keysIn_sub (fun kv h => (List.mem_filter.mp h).1) hk
    · exact hk

/-- the hypothesis is satisfiable by a `|=` itself (valid literal keys). -/
example : iorBad false (.ior (.mapping [("label", "a")])) = false := by decide

/-- the method table: every `dict` method that can insert a key is overridden by `Meta` or
reaches `__setitem__` (`fromkeys`, via CPython's generic path for subclasses). -/
def meta_overrides_full : Prop :=
  ∀ p ∈ dictMutators, p.2 = true → p.1 ∈ metaOverrides ∨ p.1 = "fromkeys"

/-- [F12a] `__ior__` is inherited from `dict`. -/
theorem meta_overrides_full_refuted : ¬ meta_overrides_full := by
  unfold meta_overrides_full; decide

theorem meta_overrides_partial :
    ∀ p ∈ dictMutators, p.1 ≠ "__ior__" → p.2 = true → p.1 ∈ metaOverrides ∨ p.1 = "fromkeys" := by
  decide

/-- constructors (`Meta(seq, **kw)`, `Meta.fromkeys`) only produce objects within the vocabulary. -/
theorem meta_ctor_keysOk {vis : Bool} {seq : MetaArg} {kw : Items} {m : MetaObj}
    (h : MetaObj.ctor vis seq kw = .ok m) : m.keysOk = true ∧ m.vis = vis := by
  unfold MetaObj.ctor at h
  simp only at h
  have h0 : (MetaObj.mk vis []).keysOk = true := by simp [MetaObj.keysOk, keysIn]
  -- the object after the positional argument
  have key : ∀ first : MetaObj × Result,
      (first.1.keysOk = true ∧ first.1.vis = vis) →
      (match first with
        | (_, .err e) => Except.error e
        | (m1, .ok) =>
          match m1.setAll kw with
          | (_, .err e) => Except.error e
          | (m2, .ok) => Except.ok m2) = Except.ok m → m.keysOk = true ∧ m.vis = vis := by
    intro first hf hm
    obtain ⟨m1, r⟩ := first
    cases r with
    | err e => cases hm
    | ok =>
      simp only at hm
      have inv := setAll_inv m1 kw
      cases hr : m1.setAll kw with
      | mk m2 r2 =>
        rw [hr] at hm inv
        cases r2 with
        | err e => cases hm
        | ok => cases hm; exact ⟨inv.2.1 hf.1, inv.1.trans hf.2⟩
  refine key _ ?_ h
  cases seq with
  | absent => exact ⟨h0, rfl⟩
  | mapping l =>
    simp only
    split
    · exact ⟨h0, rfl⟩
    · exact ⟨(setAll_inv _ _).2.1 h0, (setAll_inv _ _).1⟩
  | pairs l =>
    simp only
    split
    · exact ⟨h0, rfl⟩
    · exact ⟨(setAll_inv _ _).2.1 h0, (setAll_inv _ _).1⟩
  | notIterable => exact ⟨h0, rfl⟩

theorem meta_fromkeys_keysOk {vis : Bool} {keys : List String} {m : MetaObj}
    (h : MetaObj.fromkeys vis keys = .ok m) : m.keysOk = true ∧ m.vis = vis := by
  unfold MetaObj.fromkeys at h
  have inv := setAll_inv (MetaObj.mk vis []) (keys.map fun k => (k, "None"))
  cases hr : (MetaObj.mk vis []).setAll (keys.map fun k => (k, "None")) with
  | mk m2 r2 =>
    rw [hr] at h inv
    cases r2 with
    | err e => cases h
    | ok => cases h; exact ⟨inv.2.1 (by simp [MetaObj.keysOk, keysIn]), inv.1⟩

/-- a failing constructor call raises `KeyError` (bad key) or `TypeError` (not iterable). -/
theorem meta_ctor_exception_class {vis : Bool} {seq : MetaArg} {kw : Items} {e : Exc}
    (h : MetaObj.ctor vis seq kw = .error e) : e = .keyError ∨ e = .typeError := by
  unfold MetaObj.ctor at h
  simp only at h
  split at h
  · rename_i m1 e' hfirst
    cases h
    cases seq with
    | absent => cases hfirst
    | mapping l =>
      simp only at hfirst
      split at hfirst
      · cases hfirst
      · exact Or.inl ((setAll_inv _ _).2.2 e (by rw [hfirst]))
    | pairs l =>
      simp only at hfirst
      split at hfirst
      · cases hfirst
      · exact Or.inl ((setAll_inv _ _).2.2 e (by rw [hfirst]))
    | notIterable => cases hfirst; exact Or.inr rfl
  · rename_i m1 hfirst
    split at h
    · rename_i m2 e' hkw
      cases h
      exact Or.inl ((setAll_inv m1 kw).2.2 e (by rw [hkw]))
    · cases h

/-- full strength: a dict-mutation call that raises leaves the object exactly as it was. -/
def meta_atomic_full : Prop :=
  ∀ (m : MetaObj) (op : MetaOp), (metaStep m op).2 ≠ .ok → (metaStep m op).1 = m

/-- [F12b] `RegionMeta().update({'label': 'a', 'bad': 1})` raises but keeps `label`. -/
theorem meta_atomic_full_refuted : ¬ meta_atomic_full := by
  intro h
  have := h ⟨false, []⟩ (.update 1 (.mapping [("label", "a"), ("bad", "1")]) []) (by decide)
  exact absurd this (by decide)

/-- the property minus F12b: every rejected dict-mutation call other than an `update` whose
first invalid key is preceded by a valid one leaves the object unchanged. -/
theorem meta_atomic_partial (m : MetaObj) (op : MetaOp) (hs : opSplits m.vis op = false)
    (he : (metaStep m op).2 ≠ .ok) : (metaStep m op).1 = m := by
  cases op with
  | setitem k v =>
    simp only [metaStep] at he ⊢
    cases hsi : m.setitem k v with
    | error e => rfl
    | ok m' => rw [hsi] at he; exact absurd rfl he
  | update nargs arg kw =>
    cases hu : updateSeq nargs arg kw with
    | none => exact (update_none m nargs arg kw hu).1
    | some seq =>
      rw [update_eq m nargs arg kw seq hu] at he ⊢
      simp only [opSplits, hu] at hs
      exact setAll_err_unchanged m seq hs he
  | setdefault k v =>
    simp only [metaStep] at he ⊢
    by_cases hh : dictHas m.items k = true
    · simp only [hh, if_true] at he ⊢; split <;> rfl
    · simp only [hh] at he ⊢
      cases hsi : m.setitem k v with
      | error e => rfl
      | ok m' =>
        obtain ⟨_, rfl⟩ := setitem_ok hsi
        rw [hsi] at he
        simp only [Bool.false_eq_true, if_false, dictHas_dictSet, if_true] at he
        exact absurd rfl he
  | ior arg =>
    simp only [metaStep] at he ⊢
    cases ha : argAsDict arg with
    | error e => rfl
    | ok d => rw [ha] at he; exact absurd rfl he
  | pop k d =>
    simp only [metaStep] at he ⊢
    by_cases hh : dictHas m.items k = true
    · simp only [hh, if_true] at he; exact absurd rfl he
    · simp only [hh]
      cases d <;> rfl
  | popitem =>
    simp only [metaStep] at he ⊢
    split at he
    · rename_i hh; simp [hh]
    · exact absurd rfl he
  | clear => exact absurd rfl he
  | delitem k =>
    simp only [metaStep] at he ⊢
    split at he
    · exact absurd rfl he
    · rename_i hh; simp [hh]

/-- the hypothesis is satisfiable by a failing `update` (invalid key first ⇒ nothing stored). -/
example : opSplits false (.update 1 (.mapping [("bad", "1"), ("label", "a")]) []) = false ∧
    (metaStep ⟨false, []⟩ (.update 1 (.mapping [("bad", "1"), ("label", "a")]) [])).2 = .err .keyError := by
  decide


/-! ## 4. Assignment: conversion of `meta` / `visual`, exception classes -/

/-- an accepted `meta` that already is a `RegionMeta` is stored as is; a plain `dict` (or a
`RegionVisual`) is stored as a `RegionMeta` built through the validated constructor. -/
theorem coerce_meta_kind (v v' : Val) (h : coerce .rmeta v = .ok v') :
    (v.kind = .regionMeta → v' = v) ∧
    (v.isDict = true → v'.kind = .regionMeta) ∧
    (v.kind ≠ .regionMeta → v.isDict = true → keysIn metaKeys v'.items = true) := by
  simp only [coerce] at h
  by_cases hc : v.isDict = true ∧ v.kind ≠ .regionMeta
  · rw [if_pos hc] at h
    cases hm : MetaObj.ctor false (.mapping v.items) [] with
    | error e => rw [hm] at h; cases h
    | ok m =>
      rw [hm] at h; cases h
      obtain ⟨hk, hv⟩ := meta_ctor_keysOk hm
      refine ⟨fun hk' => absurd hk' hc.2, fun _ => by simp [MetaObj.toVal, hv], fun _ _ => ?_⟩
      simpa [MetaObj.keysOk, vocabulary, hv, MetaObj.toVal] using hk
  · rw [if_neg hc] at h; cases h
    refine ⟨fun _ => rfl, fun hd => ?_, fun hk hd => absurd ⟨hd, hk⟩ hc⟩
    by_contra hk
    exact hc ⟨hd, hk⟩

theorem coerce_visual_kind (v v' : Val) (h : coerce .rvisual v = .ok v') :
    (v.kind = .regionVisual → v' = v) ∧
    (v.isDict = true → v'.kind = .regionVisual) ∧
    (v.kind ≠ .regionVisual → v.isDict = true → keysIn visualKeys v'.items = true) := by
  simp only [coerce] at h
  by_cases hc : v.isDict = true ∧ v.kind ≠ .regionVisual
  · rw [if_pos hc] at h
    cases hm : MetaObj.ctor true (.mapping v.items) [] with
    | error e => rw [hm] at h; cases h
    | ok m =>
      rw [hm] at h; cases h
      obtain ⟨hk, hv⟩ := meta_ctor_keysOk hm
      refine ⟨fun hk' => absurd hk' hc.2, fun _ => by simp [MetaObj.toVal, hv], fun _ _ => ?_⟩
      simpa [MetaObj.keysOk, vocabulary, hv, MetaObj.toVal] using hk
  · rw [if_neg hc] at h; cases h
    refine ⟨fun _ => rfl, fun hd => ?_, fun hk hd => absurd ⟨hd, hk⟩ hc⟩
    by_contra hk
    exact hc ⟨hd, hk⟩

theorem coerce_exception_class (d : Descr) (v : Val) (e : Exc) (h : coerce d v = .error e) :
    e = .keyError ∨ e = .typeError := by
  cases d <;> simp only [coerce] at h <;> try (cases h)
  all_goals
    split at h
    · split at h
      · rename_i e' hm
        cases h
        exact meta_ctor_exception_class hm
      · cases h
    · cases h

/-- `setattr` on a descriptor-backed attribute rejects with `ValueError`, `TypeError` or
`KeyError` – never anything else. -/
theorem assign_exception_class {o : RObj} {f : String} {v : Val} {d : Descr} {e : Exc}
    (hl : (attrs o.cls).lookup f = some (.descr d)) (h : o.assign f v = .error e) :
    e = .valueError ∨ e = .typeError ∨ e = .keyError := by
  unfold RObj.assign at h
  rw [hl] at h
  simp only at h
  split at h
  · rename_i e' hc
    cases h
    rcases coerce_exception_class d v e hc with h1 | h1
    · exact Or.inr (Or.inr h1)
    · exact Or.inr (Or.inl h1)
  · split at h
    · rename_i e' hv
      cases h
      rcases validate_exception_class d _ e hv with h1 | h1
      · exact Or.inl h1
      · exact Or.inr (Or.inl h1)
    · cases h

/-! ## 5. The `Regions` list -/

/-- [F13a] `insert` of a non-region, [F13b] a non-region appended to the caller's list that the
constructor kept. -/
def listOpBad (l : RList) : ListOp → Bool
  | .insert _ x => !x.isRegion && !l.isTuple
  | .srcAppend x => !x.isRegion && l.aliased
  | _ => false

/-- the `Regions` argument of `extend` is itself a valid `Regions` object. -/
def listOpWF : ListOp → Bool
  | .extendRegions xs => xs.all (·.isRegion)
  | _ => true

/-- full strength: no list operation puts a non-region into a `Regions` object. -/
def regions_list_typed_full : Prop :=
  ∀ (l : RList) (op : ListOp), listOpWF op = true → l.allRegions = true →
    (listStep l op).1.allRegions = true

/-- [F13a] `Regions([reg]).insert(0, 5)` succeeds. -/
theorem regions_list_typed_full_refuted : ¬ regions_list_typed_full := by
  intro h
  have := h ⟨[], false, false⟩ (.insert 0 ⟨false, "5"⟩) (by decide) (by decide)
  exact absurd this (by decide)

/-- [F13b] so does appending to the list that was passed to the constructor. -/
example : (RList.ctor (some ([⟨true, "r"⟩], false))).map
    (fun l => (listStep l (.srcAppend ⟨false, "5"⟩)).1.allRegions) = .ok false := by decide

theorem all_of_sub {xs ys : List Member} (h : ∀ x ∈ ys, x ∈ xs)
    (hx : xs.all (·.isRegion) = true) : ys.all (·.isRegion) = true := by
  rw [List.all_eq_true] at hx ⊢
  exact fun x hxm => hx x (h x hxm)

/-- the property minus F13a/F13b: constructor-checked lists stay lists of regions under
`append`, `extend` (list, tuple, `Regions`, non-iterable), `insert` of a region, `__setitem__`,
`pop`, `reverse`. -/
theorem regions_list_typed_partial (l : RList) (op : ListOp) (hb : listOpBad l op = false)
    (hw : listOpWF op = true) (hl : l.allRegions = true) : (listStep l op).1.allRegions = true := by
  unfold RList.allRegions at hl ⊢
  cases op with
  | append x =>
    simp only [listStep]
    cases hx : x.isRegion
    · exact hl
    · simp only [Bool.not_true, Bool.false_eq_true, if_false]
      split
      · exact hl
      · simp [List.all_append, hl, hx]
  | extendList xs =>
    simp only [listStep]
    cases hx : xs.all (·.isRegion)
    · exact hl
    · simp only [Bool.not_true, Bool.false_eq_true, if_false]
      split
      · exact hl
      · simp only [List.all_append, hl, Bool.true_and]
        exact hx
  | extendRegions xs =>
    simp only [listStep]
    split
    · exact hl
    · simp only [listOpWF] at hw
      simp only [List.all_append, hl, Bool.true_and]
      exact hw
  | extendBad => exact hl
  | insert i x =>
    simp only [listStep]
    split
    · exact hl
    · rename_i ht
      simp only [listOpBad, Bool.and_eq_false_iff, Bool.not_eq_eq_eq_not, Bool.not_false] at hb
      have hx : x.isRegion = true := by
        rcases hb with hb | hb
        · exact hb
        · simp only [Bool.not_eq_true] at ht; rw [ht] at hb; cases hb
      simp only [List.all_append, List.all_cons, List.all_nil, Bool.and_true, Bool.and_eq_true]
      exact ⟨⟨all_of_sub (fun y hy => List.mem_of_mem_take hy) hl, hx⟩,
             all_of_sub (fun y hy => List.mem_of_mem_drop hy) hl⟩
  | setitem i x => exact hl
  | pop i =>
    simp only [listStep]
    generalize (if i < 0 then i + (l.items.length : Int) else i) = k
    split
    · exact hl
    · split
      · exact hl
      · exact all_of_sub (fun y hy => List.mem_of_mem_eraseIdx hy) hl
  | reverse =>
    simp only [listStep]
    split
    · exact hl
    · simp only [List.all_reverse]; exact hl
  | srcAppend x =>
    simp only [listStep]
    split
    · rename_i ha
      simp only [listOpBad, ha, Bool.and_true, Bool.not_eq_false'] at hb
      simp [List.all_append, hl, hb]
    · exact hl

/-- `insert` of a region is within the hypotheses. -/
example : listOpBad ⟨[], false, false⟩ (.insert 0 ⟨true, "r"⟩) = false := by decide

/-- the constructor only builds lists of regions. -/
theorem regions_ctor_typed {arg : Option (List Member × Bool)} {l : RList}
    (h : RList.ctor arg = .ok l) : l.allRegions = true := by
  unfold RList.ctor at h
  split at h
  · cases h; rfl
  · split at h
    · cases h; rfl
    · split at h
      · rename_i hx; cases h; exact hx
      · cases h

/-- a rejected list operation leaves the list as it was. -/
theorem listStep_atomic (l : RList) (op : ListOp) (he : (listStep l op).2 ≠ .ok) :
    (listStep l op).1 = l := by
  cases op with
  | pop i =>
    simp only [listStep] at he ⊢
    generalize (if i < 0 then i + (l.items.length : Int) else i) = k at he ⊢
    by_cases ht : l.isTuple = true
    · simp [ht]
    · simp only [ht, Bool.false_eq_true, if_false] at he ⊢
      split
      · rfl
      · rename_i hk
        simp only [hk, if_false] at he
        exact absurd rfl he
  | _ => simp only [listStep] at he ⊢ <;> (repeat' split) <;> simp_all

/-! ## 6. Atomicity and deletion at the level of one history step -/

/-- the Meta object a dict-mutation operation acts on. -/
def metaTarget : Obj → Op → Option MetaObj
  | .region o, .metaOp (some f) _ => o.metaAt f
  | .metaObj m, .metaOp none _ => some m
  | _, _ => none

/-- [F12b] lifted to history steps. -/
def stepSplits (o : Obj) (op : Op) : Bool :=
  match op, metaTarget o op with
  | .metaOp _ mop, some m => opSplits m.vis mop
  | _, _ => false

/-- full strength: a rejected operation leaves the object exactly as it was. -/
def set_atomic_full : Prop :=
  ∀ (o : Obj) (op : Op), (step o op).2 ≠ .ok → (step o op).1 = o

/-- [F12b] `Meta.update` applies the valid prefix before raising. -/
theorem set_atomic_full_refuted : ¬ set_atomic_full := by
  intro h
  have := h (.metaObj ⟨false, []⟩)
    (.metaOp none (.update 1 (.mapping [("label", "a"), ("bad", "1")]) [])) (by decide)
  exact absurd this (by decide)

/-- the property minus F12b: every rejected attribute assignment, attribute deletion, list
operation, and dict-mutation call other than a splitting `update` leaves the object unchanged
(validation precedes the store in `RegionAttribute.__set__`). -/
theorem set_atomic_partial (o : Obj) (op : Op) (hs : stepSplits o op = false)
    (he : (step o op).2 ≠ .ok) : (step o op).1 = o := by
  cases o with
  | region r =>
    cases op with
    | assign f v =>
      simp only [step] at he ⊢
      cases ha : r.assign f v with
      | error e => rfl
      | ok r' => rw [ha] at he; exact absurd rfl he
    | delete f =>
      simp only [step] at he ⊢
      cases ha : r.delete f with
      | error e => rfl
      | ok r' => rw [ha] at he; exact absurd rfl he
    | metaOp fld mop =>
      cases fld with
      | none => rfl
      | some f =>
        simp only [step] at he ⊢
        cases hm : r.metaAt f with
        | none => rfl
        | some m =>
          rw [hm] at he
          simp only at he ⊢
          have hs' : opSplits m.vis mop = false := by
            simpa [stepSplits, metaTarget, hm] using hs
          rw [meta_atomic_partial m mop hs' he]
          simp
    | listOp lop => rfl
  | metaObj m =>
    cases op with
    | metaOp fld mop =>
      cases fld with
      | none =>
        simp only [step] at he ⊢
        have hs' : opSplits m.vis mop = false := by simpa [stepSplits, metaTarget] using hs
        rw [meta_atomic_partial m mop hs' he]
      | some f => rfl
    | assign f v => rfl
    | delete f => rfl
    | listOp lop => rfl
  | rlist l =>
    cases op with
    | listOp lop =>
      simp only [step] at he ⊢
      rw [listStep_atomic l lop he]
    | assign f v => rfl
    | delete f => rfl
    | metaOp fld mop => rfl

/-- in particular EVERY rejected attribute assignment is atomic (no finding touches this clause). -/
theorem assign_atomic (r : RObj) (f : String) (v : Val)
    (he : (step (.region r) (.assign f v)).2 ≠ .ok) : (step (.region r) (.assign f v)).1 = .region r :=
  set_atomic_partial _ _ rfl he

/-- full strength: no shape parameter can be deleted. -/
def delete_refused_full : Prop :=
  ∀ (o : RObj) (f : String), ((attrs o.cls).lookup f).isSome = true → ∃ e, o.delete f = .error e

def text0 : RObj := ⟨.textP, [("center", { kind := .pixCoord, scalar := true }),
  ("meta", emptyMeta), ("visual", emptyVisual), ("text", { kind := .pyStr, tag := "hi" })]⟩

/-- [F14c] `del text_region.text` succeeds (`text` has no descriptor). -/
theorem delete_refused_full_refuted : ¬ delete_refused_full := by
  intro h
  obtain ⟨e, he⟩ := h text0 "text" (by decide)
  have hok : (text0.delete "text").toBool = true := by decide
  rw [he] at hok
  cases hok

/-- the property minus F14c: every parameter bound to a descriptor (and the read-only
`operator`) refuses deletion with `AttributeError`, and the object is unchanged. -/
theorem delete_refused_partial (o : RObj) (f : String)
    (hp : ((attrs o.cls).lookup f).isSome = true) (hn : (attrs o.cls).lookup f ≠ some .plain) :
    o.delete f = .error .attributeError ∧
    step (.region o) (.delete f) = (.region o, .err .attributeError) := by
  have hd : o.delete f = .error .attributeError := by
    unfold RObj.delete
    cases hl : (attrs o.cls).lookup f with
    | none => rw [hl] at hp; cases hp
    | some a =>
      cases a with
      | descr d => rfl
      | plain => exact absurd hl hn
      | readonly => rfl
  exact ⟨hd, by simp [step, hd, RegionsVerif.Impl.Validate.ofExcept]⟩

/-- every descriptor-backed parameter of every class meets the hypotheses. -/
example : ((attrs .cAnnS).lookup "inner_radius").isSome = true ∧
    (attrs .cAnnS).lookup "inner_radius" ≠ some .plain := by decide

/-! ## 7. Region objects: one step preserves the invariant -/

theorem attrs_nodup (c : Cls) : ((attrs c).map Prod.fst).Nodup := by cases c <;> decide

theorem mem_of_lookup {α : Type} {l : List (String × α)} {f : String} {a : α}
    (h : l.lookup f = some a) : (f, a) ∈ l := by
  induction l with
  | nil => simp [List.lookup] at h
  | cons hd t ih =>
    obtain ⟨k, w⟩ := hd
    rw [lookup_cons'] at h
    by_cases hk : f = k
    · simp only [hk, if_true, Option.some.injEq] at h
      subst hk; subst h; exact List.mem_cons_self ..
    · simp only [hk, if_false] at h
      exact List.mem_cons_of_mem _ (ih h)

theorem lookup_of_mem {α : Type} {l : List (String × α)} (hn : (l.map Prod.fst).Nodup)
    {f : String} {a : α} (hm : (f, a) ∈ l) : l.lookup f = some a := by
  induction l with
  | nil => cases hm
  | cons hd t ih =>
    obtain ⟨k, w⟩ := hd
    simp only [List.map_cons, List.nodup_cons] at hn
    rw [lookup_cons']
    rcases List.mem_cons.mp hm with h | h
    · cases h; simp
    · have hne : f ≠ k := by
        intro hfk; subst hfk
        exact hn.1 (List.mem_map.mpr ⟨(f, a), h, rfl⟩)
      simp only [hne, if_false]
      exact ih hn.2 h

theorem validB_iff (o : RObj) : o.validB = true ↔
    (∀ fa ∈ attrs o.cls, fieldOk o fa = true) ∧ (∀ p ∈ orderPairs o.cls, pairOk o p = true) ∧
    nvertsOk o = true := by
  simp [RObj.validB, List.all_eq_true, and_assoc]

theorem fieldOk_congr {o o' : RObj} (fa : String × Attr) (h : o'.get fa.1 = o.get fa.1) :
    fieldOk o' fa = fieldOk o fa := by
  obtain ⟨f, a⟩ := fa
  simp only at h
  cases a <;> simp only [fieldOk, h]

theorem pairOk_congr {o o' : RObj} (p : String × String) (h1 : o'.get p.1 = o.get p.1)
    (h2 : o'.get p.2 = o.get p.2) : pairOk o' p = pairOk o p := by
  simp only [pairOk, h1, h2]

theorem nvertsOk_congr {o o' : RObj} (hc : o'.cls = o.cls)
    (h : o.cls = .regPolyP → o'.get "nvertices" = o.get "nvertices") : nvertsOk o' = nvertsOk o := by
  unfold nvertsOk
  rw [hc]
  by_cases hr : o.cls = .regPolyP
  · rw [h hr]
  · have hb : (o.cls != Cls.regPolyP) = true := by simpa using hr
    simp only [hb, Bool.true_or]

/-- the inner / outer parameters are bound to a size descriptor. -/
theorem pair_fields (c : Cls) (p : String × String) (hp : p ∈ orderPairs c) :
    ∃ d, (d = .posScalar ∨ d = .posScalarAngle) ∧ (attrs c).lookup p.1 = some (.descr d) ∧
      (attrs c).lookup p.2 = some (.descr d) := by
  cases c <;> (first | exact absurd hp List.not_mem_nil | simp [orderPairs] at hp)
  case cAnnP => subst hp; exact ⟨.posScalar, Or.inl rfl, by decide, by decide⟩
  case cAnnS => subst hp; exact ⟨.posScalarAngle, Or.inr rfl, by decide, by decide⟩
  case eAnnP => rcases hp with rfl | rfl <;> exact ⟨.posScalar, Or.inl rfl, by decide, by decide⟩
  case rAnnP => rcases hp with rfl | rfl <;> exact ⟨.posScalar, Or.inl rfl, by decide, by decide⟩
  case eAnnS => rcases hp with rfl | rfl <;> exact ⟨.posScalarAngle, Or.inr rfl, by decide, by decide⟩
  case rAnnS => rcases hp with rfl | rfl <;> exact ⟨.posScalarAngle, Or.inr rfl, by decide, by decide⟩

/-- if one attribute `f` that is not a size changes and is itself as documented afterwards, the
object stays valid. -/
theorem valid_of_frame {o o' : RObj} (hc : o'.cls = o.cls) (hv : o.validB = true) (f : String)
    (hframe : ∀ g, g ≠ f → o'.get g = o.get g)
    (hf : ∀ a, (attrs o.cls).lookup f = some a → fieldOk o' (f, a) = true)
    (hnp : ∀ d, (attrs o.cls).lookup f = some (.descr d) → d ≠ .posScalar ∧ d ≠ .posScalarAngle) :
    o'.validB = true := by
  rw [validB_iff] at hv ⊢
  obtain ⟨hfields, hpairs, hnv⟩ := hv
  rw [hc]
  refine ⟨?_, ?_, ?_⟩
  · intro fa hfa
    obtain ⟨g, a⟩ := fa
    by_cases hg : g = f
    · subst hg; exact hf a (lookup_of_mem (attrs_nodup _) hfa)
    · rw [fieldOk_congr (g, a) (hframe g hg)]; exact hfields _ hfa
  · intro p hp
    obtain ⟨d, hd, h1, h2⟩ := pair_fields _ p hp
    have hne : ∀ g, (attrs o.cls).lookup g = some (.descr d) → g ≠ f := by
      intro g hg hgf; subst hgf
      rcases hd with rfl | rfl
      · exact (hnp _ hg).1 rfl
      · exact (hnp _ hg).2 rfl
    rw [pairOk_congr p (hframe _ (hne _ h1)) (hframe _ (hne _ h2))]
    exact hpairs p hp
  · rw [nvertsOk_congr hc]
    · exact hnv
    · intro hr
      apply hframe
      intro hnf
      have hl : (attrs o.cls).lookup "nvertices" = some (.descr .posScalar) := by rw [hr]; decide
      rw [hnf] at hl
      exact (hnp _ hl).1 rfl

/-- [F11] / [F14c] (and Meta values corrupted through F12a): a NaN / +∞ size, a non-`str` text,
a Meta object with out-of-vocabulary keys – as the value for attribute `f` of class `c`. -/
def valueBad (c : Cls) (f : String) (v : Val) : Bool :=
  !metaWF v ||
  (match (attrs c).lookup f with
   | some (.descr d) => nonFiniteSize d v
   | some .plain => v.kind != .pyStr
   | _ => false)

theorem coerce_wf (d : Descr) (v v' : Val) (h : coerce d v = .ok v') (hw : metaWF v = true) :
    metaWF v' = true := by
  by_cases h1 : d = .rmeta
  · subst h1
    simp only [coerce] at h
    by_cases hc : v.isDict = true ∧ v.kind ≠ .regionMeta
    · rw [if_pos hc] at h
      cases hm : MetaObj.ctor false (.mapping v.items) [] with
      | error e => rw [hm] at h; cases h
      | ok m =>
        rw [hm] at h; cases h
        obtain ⟨hk, hv⟩ := meta_ctor_keysOk hm
        simp [MetaObj.keysOk, hv, vocabulary] at hk
        simp [metaWF, MetaObj.toVal, hv, hk]
    · rw [if_neg hc] at h; cases h; exact hw
  · by_cases h2 : d = .rvisual
    · subst h2
      simp only [coerce] at h
      by_cases hc : v.isDict = true ∧ v.kind ≠ .regionVisual
      · rw [if_pos hc] at h
        cases hm : MetaObj.ctor true (.mapping v.items) [] with
        | error e => rw [hm] at h; cases h
        | ok m =>
          rw [hm] at h; cases h
          obtain ⟨hk, hv⟩ := meta_ctor_keysOk hm
          simp [MetaObj.keysOk, hv, vocabulary] at hk
          simp [metaWF, MetaObj.toVal, hv, hk]
      · rw [if_neg hc] at h; cases h; exact hw
    · rw [coerce_id d v h1 h2] at h; cases h; exact hw

theorem coerce_nonfinite (d : Descr) (v v' : Val) (h : coerce d v = .ok v')
    (hn : nonFiniteSize d v = false) : nonFiniteSize d v' = false := by
  by_cases h1 : d = .rmeta
  · subst h1; rfl
  · by_cases h2 : d = .rvisual
    · subst h2; rfl
    · rw [coerce_id d v h1 h2] at h; cases h; exact hn

/-- an accepted assignment of a value outside the classes of F11 / F14c stores a value of the
documented domain. -/
theorem assign_fieldOk {o o' : RObj} {f : String} {v : Val} (h : o.assign f v = .ok o')
    (hb : valueBad o.cls f v = false) (a : Attr) (ha : (attrs o.cls).lookup f = some a) :
    fieldOk o' (f, a) = true := by
  obtain ⟨v', rfl, hcase⟩ := assign_ok h
  simp only [valueBad, ha, Bool.or_eq_false_iff, Bool.not_eq_false'] at hb
  cases a with
  | descr d =>
    rcases hcase with ⟨d', hd', hco, hva⟩ | ⟨hl, _⟩
    · rw [ha] at hd'; cases hd'
      simp only [fieldOk, RObj.get_set, if_true]
      exact validator_sound_partial d v' (coerce_wf d v v' hco hb.1)
        (coerce_nonfinite d v v' hco hb.2) hva
    · rcases hl with hl | hl <;> rw [ha] at hl <;> cases hl
  | plain =>
    rcases hcase with ⟨d', hd', _, _⟩ | ⟨_, hv⟩
    · rw [ha] at hd'; cases hd'
    · subst hv
      simp only [fieldOk, RObj.get_set, if_true]
      simpa using hb.2
  | readonly => rfl

/-- [F14] / [F14b]: the object has inner ≥ outer, or a regular polygon with fewer than 3 vertices. -/
def crossBad (o : RObj) : Bool := !((orderPairs o.cls).all (pairOk o) && nvertsOk o)

/-- the failing input classes of an attribute assignment: it is ACCEPTED and the value is a
non-finite size (F11) / a non-`str` text (F14c) / a corrupted Meta object (F12a), or afterwards
inner ≥ outer (F14) / nvertices < 3 (F14b). -/
def assignBad (o : RObj) (f : String) (v : Val) : Bool :=
  match o.assign f v with
  | .error _ => false
  | .ok o' => valueBad o.cls f v || crossBad o'

theorem assign_valid {o o' : RObj} {f : String} {v : Val} (hv : o.validB = true)
    (h : o.assign f v = .ok o') (hb : assignBad o f v = false) : o'.validB = true := by
  simp only [assignBad, h, Bool.or_eq_false_iff] at hb
  obtain ⟨hvb, hcb⟩ := hb
  obtain ⟨hc, hframe, _⟩ := readback h
  simp only [crossBad, Bool.not_eq_false', Bool.and_eq_true, List.all_eq_true] at hcb
  rw [validB_iff] at hv ⊢
  refine ⟨?_, hcb.1, hcb.2⟩
  intro fa hfa
  obtain ⟨g, a⟩ := fa
  rw [hc] at hfa
  by_cases hg : g = f
  · subst hg; exact assign_fieldOk h hvb a (lookup_of_mem (attrs_nodup _) hfa)
  · rw [fieldOk_congr (g, a) (hframe g hg)]; exact hv.1 _ hfa

theorem delete_valid {o o' : RObj} {f : String} (hv : o.validB = true)
    (h : o.delete f = .ok o') (hn : (attrs o.cls).lookup f ≠ some .plain) : o'.validB = true := by
  unfold RObj.delete at h
  cases hl : (attrs o.cls).lookup f with
  | some a =>
    rw [hl] at h
    cases a with
    | descr d => cases h
    | readonly => cases h
    | plain => exact absurd hl hn
  | none =>
    rw [hl] at h
    simp only at h
    split at h
    · cases h
      apply valid_of_frame (o := o) (o' := ⟨o.cls, ferase o.fields f⟩) rfl hv f
      · intro g hg; exact fget_ferase o.fields f g hg
      · intro a ha; rw [hl] at ha; cases ha
      · intro d hd; rw [hl] at hd; cases hd
    · cases h

theorem metaAt_some {o : RObj} {f : String} {m : MetaObj} (h : o.metaAt f = some m) :
    ∃ v, o.get f = some v ∧ m.items = v.items ∧
      ((v.kind = .regionMeta ∧ m.vis = false) ∨ (v.kind = .regionVisual ∧ m.vis = true)) := by
  unfold RObj.metaAt at h
  cases hg : o.get f with
  | none => rw [hg] at h; cases h
  | some v =>
    rw [hg] at h
    simp only at h
    split at h
    · rename_i hk; cases h; exact ⟨v, rfl, rfl, Or.inl ⟨hk, rfl⟩⟩
    · split at h
      · rename_i hk; cases h; exact ⟨v, rfl, rfl, Or.inr ⟨hk, rfl⟩⟩
      · cases h

/-- a dict-mutation call on `region.meta` / `region.visual` (any call but a bad `|=`). -/
theorem metaOp_valid {o : RObj} {f : String} {m : MetaObj} (mop : MetaOp) (hv : o.validB = true)
    (hm : o.metaAt f = some m) (hb : iorBad m.vis mop = false) :
    (if (metaStep m mop).1 = m then o else o.set f (metaStep m mop).1.toVal).validB = true := by
  by_cases hsame : (metaStep m mop).1 = m
  · rw [if_pos hsame]; exact hv
  · rw [if_neg hsame]
    obtain ⟨v0, hg, hitems, hkind⟩ := metaAt_some hm
    have hvis := metaStep_vis m mop
    apply valid_of_frame (o := o) (o' := o.set f (metaStep m mop).1.toVal) rfl hv f
    · intro g hgne; simp [RObj.get_set, hgne]
    · intro a ha
      have hfo := ((validB_iff o).mp hv).1 (f, a) (mem_of_lookup ha)
      cases a with
      | descr d =>
        simp only [fieldOk, hg] at hfo
        simp only [fieldOk, RObj.get_set, if_true]
        rcases hkind with ⟨hk, hmv⟩ | ⟨hk, hmv⟩
        · -- a RegionMeta: the descriptor must be `meta`
          have hd : d = .rmeta := by
            cases d with
            | regionType sky => cases sky <;> simp_all [inDomain]
            | _ => simp_all [inDomain, Val.isReal]
          subst hd
          simp only [inDomain, hk, beq_self_eq_true, Bool.true_and] at hfo
          have hk0 : m.keysOk = true := by
            simp only [MetaObj.keysOk, hmv, vocabulary, hitems]; exact hfo
          have := meta_entry_points_partial m mop hb hk0
          simp [MetaObj.keysOk, hvis, hmv, vocabulary] at this
          simp [inDomain, MetaObj.toVal, hvis, hmv, this]
        · have hd : d = .rvisual := by
            cases d with
            | regionType sky => cases sky <;> simp_all [inDomain]
            | _ => simp_all [inDomain, Val.isReal]
          subst hd
          simp only [inDomain, hk, beq_self_eq_true, Bool.true_and] at hfo
          have hk0 : m.keysOk = true := by
            simp only [MetaObj.keysOk, hmv, vocabulary, hitems]; exact hfo
          have := meta_entry_points_partial m mop hb hk0
          simp [MetaObj.keysOk, hvis, hmv, vocabulary] at this
          simp [inDomain, MetaObj.toVal, hvis, hmv, this]
      | plain =>
        simp only [fieldOk, hg] at hfo
        rcases hkind with ⟨hk, _⟩ | ⟨hk, _⟩ <;> simp [hk] at hfo
      | readonly => rfl
    · intro d hd
      have hfo := ((validB_iff o).mp hv).1 (f, .descr d) (mem_of_lookup hd)
      simp only [fieldOk, hg] at hfo
      constructor <;> (intro hdd; subst hdd; rcases hkind with ⟨hk, _⟩ | ⟨hk, _⟩ <;>
        simp [inDomain, Val.isReal, hk] at hfo)

/-! ## 8. Histories: every sequence of operations of any length -/

/-- the failing input classes of one history step (see each definition): F11, F14, F14b, F14c and
corrupted Meta values for an assignment; F14c for a deletion; F12a for a dict-mutation call;
F13a/F13b for a list operation (whose `Regions` argument, if any, must itself be valid). -/
def opBad (o : Obj) (op : Op) : Bool :=
  match o, op with
  | .region r, .assign f v => assignBad r f v
  | .region r, .delete f => (attrs r.cls).lookup f == some .plain
  | .region r, .metaOp (some f) mop =>
      (match r.metaAt f with
       | some m => iorBad m.vis mop
       | none => false)
  | .metaObj m, .metaOp none mop => iorBad m.vis mop
  | .rlist l, .listOp lop => listOpBad l lop || !listOpWF lop
  | _, _ => false

/-- does a history contain a step of a failing class (evaluated along the history). -/
def histBad : Obj → List Op → Bool
  | _, [] => false
  | o, op :: ops => opBad o op || histBad (step o op).1 ops

/-- full strength: from a valid object, EVERY sequence of operations leads to a valid object. -/
def valid_invariant_full : Prop := ∀ (o : Obj) (ops : List Op), Valid o → Valid (run o ops)

def annulus0 : RObj := ⟨.cAnnP, [("center", { kind := .pixCoord, scalar := true }),
  ("inner_radius", { kind := .pyInt, scalar := true, num := .fin 2 }),
  ("outer_radius", { kind := .pyInt, scalar := true, num := .fin 5 }),
  ("meta", emptyMeta), ("visual", emptyVisual)]⟩

/-- [F14] `annulus.inner_radius = 10` with `outer_radius = 5` is accepted. -/
theorem valid_invariant_full_refuted : ¬ valid_invariant_full := by
  intro h
  have := h (.region annulus0)
    [.assign "inner_radius" { kind := .pyInt, scalar := true, num := .fin 10 }] (by decide)
  exact absurd this (by decide)

/-- [F11] so is `annulus.outer_radius = nan`, [F14c] `del text.text`, [F14b] `nvertices = 2` … -/
example : ¬ Valid (run (.region annulus0)
    [.assign "outer_radius" { kind := .pyFloat, scalar := true, num := .nan }]) := by decide
example : ¬ Valid (run (.region text0) [.delete "text"]) := by decide

/-- one step outside the failing classes keeps the invariant – whether it is accepted or rejected. -/
theorem step_valid (o : Obj) (op : Op) (hv : Valid o) (hb : opBad o op = false) :
    Valid (step o op).1 := by
  cases o with
  | region r =>
    simp only [Valid] at hv
    cases op with
    | assign f v =>
      simp only [step, opBad] at hb ⊢
      cases ha : r.assign f v with
      | error e => exact hv
      | ok r' => exact assign_valid hv ha hb
    | delete f =>
      simp only [step, opBad] at hb ⊢
      cases ha : r.delete f with
      | error e => exact hv
      | ok r' => exact delete_valid hv ha (by simpa using hb)
    | metaOp fld mop =>
      cases fld with
      | none => exact hv
      | some f =>
        simp only [step, opBad] at hb ⊢
        cases hm : r.metaAt f with
        | none => exact hv
        | some m =>
          rw [hm] at hb
          exact metaOp_valid mop hv hm hb
    | listOp lop => exact hv
  | metaObj m =>
    simp only [Valid] at hv
    cases op with
    | metaOp fld mop =>
      cases fld with
      | none => exact meta_entry_points_partial m mop hb hv
      | some f => exact hv
    | assign f v => exact hv
    | delete f => exact hv
    | listOp lop => exact hv
  | rlist l =>
    simp only [Valid] at hv
    cases op with
    | listOp lop =>
      simp only [opBad, Bool.or_eq_false_iff, Bool.not_eq_false'] at hb
      exact regions_list_typed_partial l lop hb.1 hb.2 hv
    | assign f v => exact hv
    | delete f => exact hv
    | metaOp fld mop => exact hv

/-- **valid_invariant** (the property minus the findings): from a valid object, every history of
ANY length none of whose steps falls in a failing input class leads to a valid object: all
parameters present and in their documented domains, inner < outer, metadata keys within the
vocabulary, list members regions.  (Induction over the operation list.) -/
theorem valid_invariant_partial (o : Obj) (ops : List Op) (hv : Valid o)
    (hb : histBad o ops = false) : Valid (run o ops) := by
  induction ops generalizing o with
  | nil => exact hv
  | cons op ops ih =>
    simp only [histBad, Bool.or_eq_false_iff] at hb
    exact ih _ (step_valid o op hv hb.1) hb.2

/-- the hypotheses are met by a history that mixes accepted and rejected operations. -/
example : Valid (.region annulus0) ∧ histBad (.region annulus0)
    [.assign "outer_radius" { kind := .pyFloat, scalar := true, num := .fin 7 },
     .assign "inner_radius" { kind := .pyStr, scalar := true, tag := "abc" },
     .delete "center",
     .metaOp (some "meta") (.setitem "label" "x"),
     .metaOp (some "meta") (.update 1 (.mapping [("bad", "1")]) []),
     .assign "inner_radius" { kind := .pyInt, scalar := true, num := .fin 3 }] = false := by decide

/-! ## 9. Constructors -/

/-- a constructor argument of a failing class (F11 / F14c / corrupted Meta), evaluated on the
values the constructor stores. -/
def ctorBad (c : Cls) (a : CtorArgs) : Bool :=
  (ctorPlan c a).any fun fe =>
    match fe.2 with
    | .ok v => valueBad c fe.1 v
    | .error _ => false

/-- full strength: whatever a constructor returns is a valid region. -/
def construct_valid_full : Prop :=
  ∀ (c : Cls) (a : CtorArgs) (o : RObj), construct c a = .ok o → o.validB = true

def nanCircleArgs : CtorArgs := { args := [("center", { kind := .pixCoord, scalar := true }),
  ("radius", { kind := .pyFloat, scalar := true, num := .nan })] }

/-- [F11] `CirclePixelRegion(center, float('nan'))` is constructed. -/
theorem construct_valid_full_refuted : ¬ construct_valid_full := by
  intro h
  have hr : (construct .circleP nanCircleArgs).map RObj.validB = .ok false := by decide
  cases hc : construct .circleP nanCircleArgs with
  | error e => rw [hc] at hr; cases hr
  | ok o =>
    have hv := h _ _ o hc
    rw [hc] at hr
    simp only [Except.map, Except.ok.injEq] at hr
    rw [hr] at hv
    cases hv

theorem assign_cls {o o' : RObj} {f : String} {v : Val} (h : o.assign f v = .ok o') :
    o'.cls = o.cls := (readback h).1

theorem assignSeq_frame {o o' : RObj} {plan : List (String × Except Exc Val)}
    (h : assignSeq o plan = .ok o') :
    o'.cls = o.cls ∧ ∀ f, f ∉ plan.map Prod.fst → o'.get f = o.get f := by
  induction plan generalizing o with
  | nil => simp only [assignSeq, Except.ok.injEq] at h; subst h; exact ⟨rfl, fun _ _ => rfl⟩
  | cons hd t ih =>
    obtain ⟨g, eg⟩ := hd
    simp only [assignSeq] at h
    cases eg with
    | error e => cases h
    | ok vg =>
      simp only at h
      cases ha : o.assign g vg with
      | error e => rw [ha] at h; cases h
      | ok o1 =>
        rw [ha] at h
        simp only at h
        obtain ⟨hc, hfr⟩ := ih h
        obtain ⟨hc1, hfr1, _⟩ := readback ha
        refine ⟨hc.trans hc1, fun f hf => ?_⟩
        simp only [List.map_cons, List.mem_cons, not_or] at hf
        rw [hfr f hf.2, hfr1 f hf.1]

/-- every store of a constructor plan happened: in some intermediate state `o1` of the same
class the assignment was accepted, and the final object still holds what it stored. -/
theorem assignSeq_get {o o' : RObj} {plan : List (String × Except Exc Val)}
    (h : assignSeq o plan = .ok o') (hn : (plan.map Prod.fst).Nodup) :
    ∀ f ev, (f, ev) ∈ plan → ∃ (v : Val) (o1 o2 : RObj), ev = .ok v ∧ o1.cls = o.cls ∧
      o1.assign f v = .ok o2 ∧ o'.get f = o2.get f := by
  induction plan generalizing o with
  | nil => intro f ev hm; cases hm
  | cons hd t ih =>
    obtain ⟨g, eg⟩ := hd
    simp only [assignSeq] at h
    simp only [List.map_cons, List.nodup_cons] at hn
    cases eg with
    | error e => cases h
    | ok vg =>
      simp only at h
      cases ha : o.assign g vg with
      | error e => rw [ha] at h; cases h
      | ok o1 =>
        rw [ha] at h
        simp only at h
        intro f ev hm
        rcases List.mem_cons.mp hm with hm | hm
        · cases hm
          exact ⟨vg, o, o1, rfl, rfl, ha, (assignSeq_frame h).2 g hn.1⟩
        · obtain ⟨v, p1, p2, hev, hc, hasg, hget⟩ := ih h hn.2 f ev hm
          exact ⟨v, p1, p2, hev, hc.trans (assign_cls ha), hasg, hget⟩

/-- the attribute names a constructor stores do not depend on the argument values. -/
def args0 : CtorArgs := { args := [] }

theorem plan_fields (c : Cls) (a : CtorArgs) :
    (ctorPlan c a).map Prod.fst = (ctorPlan c args0).map Prod.fst := by
  cases c <;> simp [ctorPlan, argPlan, metaVisualPlan]

theorem plan_nodup (c : Cls) (a : CtorArgs) : ((ctorPlan c a).map Prod.fst).Nodup := by
  rw [plan_fields]; cases c <;> decide

/-- every documented parameter (every non-read-only attribute of the class table) is stored by
the constructor. -/
theorem plan_covers (c : Cls) (a : CtorArgs) :
    ∀ fa ∈ attrs c, fa.2 ≠ .readonly → fa.1 ∈ (ctorPlan c a).map Prod.fst := by
  rw [plan_fields]; cases c <;> decide

/-- the size / nvertices arguments are stored as given. -/
theorem plan_arg' (c : Cls) (a : CtorArgs) :
    ∀ fa ∈ attrs c, (fa.2 = .descr .posScalar ∨ fa.2 = .descr .posScalarAngle) →
      (fa.1, Except.ok (a.arg fa.1)) ∈ ctorPlan c a := by
  cases c <;> simp [attrs, mv, ctorPlan, argPlan, metaVisualPlan]

theorem plan_arg (c : Cls) (a : CtorArgs) (f : String) (d : Descr)
    (hl : (attrs c).lookup f = some (.descr d)) (hd : d = .posScalar ∨ d = .posScalarAngle) :
    (f, Except.ok (a.arg f)) ∈ ctorPlan c a := by
  apply plan_arg' c a (f, .descr d) (mem_of_lookup hl)
  rcases hd with rfl | rfl
  · exact Or.inl rfl
  · exact Or.inr rfl

theorem construct_ok {c : Cls} {a : CtorArgs} {o : RObj} (h : construct c a = .ok o) :
    preCheck c a = .ok () ∧ assignSeq ⟨c, []⟩ (ctorPlan c a) = .ok o ∧ postCheck c a = .ok () := by
  unfold construct at h
  cases hp : preCheck c a with
  | error e => rw [hp] at h; cases h
  | ok u =>
    rw [hp] at h
    simp only at h
    cases hs : assignSeq ⟨c, []⟩ (ctorPlan c a) with
    | error e => rw [hs] at h; cases h
    | ok o1 =>
      rw [hs] at h
      simp only at h
      cases hq : postCheck c a with
      | error e => rw [hq] at h; cases h
      | ok u' =>
        rw [hq] at h
        cases h
        exact ⟨rfl, rfl, rfl⟩

/-- a size of the documented domain is a finite positive number. -/
theorem size_domain {d : Descr} {v : Val} (hd : d = .posScalar ∨ d = .posScalarAngle)
    (h : inDomain d v = true) : ∃ q, v.num = .fin q ∧ 0 < q := by
  rcases hd with rfl | rfl <;> simp only [inDomain, Bool.and_eq_true] at h <;>
    (obtain ⟨_, hn⟩ := h
     cases hnum : v.num with
     | fin q => rw [hnum] at hn; exact ⟨q, rfl, by simpa using hn⟩
     | pinf => rw [hnum] at hn; cases hn
     | ninf => rw [hnum] at hn; cases hn
     | nan => rw [hnum] at hn; cases hn)

/-- **constructors** (the property minus F11 / F14c): whatever a constructor returns, given
arguments outside the failing classes, is a valid region – every parameter present and in its
documented domain, inner < outer, nvertices ≥ 3.  For all 23 classes. -/
theorem construct_valid_partial (c : Cls) (a : CtorArgs) (o : RObj) (h : construct c a = .ok o)
    (hb : ctorBad c a = false) : o.validB = true := by
  obtain ⟨hpre, hseq, hpost⟩ := construct_ok h
  have hcls : o.cls = c := (assignSeq_frame hseq).1
  have hget := assignSeq_get hseq (plan_nodup c a)
  -- every stored attribute is as documented
  have hfield : ∀ fa ∈ attrs c, fieldOk o fa = true := by
    intro fa hfa
    obtain ⟨f, at'⟩ := fa
    by_cases hro : at' = .readonly
    · subst hro; rfl
    · have hmem := plan_covers c a (f, at') hfa hro
      obtain ⟨⟨f', ev⟩, hmem', hf'⟩ := List.mem_map.mp hmem
      simp only at hf'; subst hf'
      obtain ⟨v, o1, o2, hev, hc1, hasg, hg⟩ := hget f' ev hmem'
      subst hev
      have hc1' : o1.cls = c := hc1
      have hvb : valueBad o1.cls f' v = false := by
        rw [hc1']
        have := List.any_eq_false.mp hb (f', .ok v) hmem'
        simpa using this
      have hfo := assign_fieldOk hasg hvb at' (by rw [hc1']; exact lookup_of_mem (attrs_nodup c) hfa)
      rw [fieldOk_congr (o := o2) (o' := o) (f', at') hg]
      exact hfo
  -- the stored sizes are the arguments themselves
  have hsize : ∀ f d, (attrs c).lookup f = some (.descr d) → (d = .posScalar ∨ d = .posScalarAngle) →
      o.get f = some (a.arg f) ∧ inDomain d (a.arg f) = true := by
    intro f d hl hd
    obtain ⟨v, o1, o2, hev, hc1, hasg, hg⟩ := hget f _ (plan_arg c a f d hl hd)
    cases hev
    have hc1' : o1.cls = c := hc1
    obtain ⟨_, _, v', hg2, _, hid, _⟩ := readback hasg
    have hv' : v' = a.arg f :=
      hid d (by rw [hc1']; exact hl) (by rcases hd with rfl | rfl <;> simp)
        (by rcases hd with rfl | rfl <;> simp)
    subst hv'
    have hfo := hfield (f, .descr d) (mem_of_lookup hl)
    simp only [fieldOk, hg, hg2] at hfo
    exact ⟨by rw [hg, hg2], hfo⟩
  rw [validB_iff, hcls]
  refine ⟨hfield, ?_, ?_⟩
  · -- inner < outer: both are finite positive sizes and the constructor checked `not inner >= outer`
    intro p hp
    obtain ⟨d, hd, h1, h2⟩ := pair_fields c p hp
    obtain ⟨hg1, hd1⟩ := hsize p.1 d h1 hd
    obtain ⟨hg2, hd2⟩ := hsize p.2 d h2 hd
    obtain ⟨q1, hn1, _⟩ := size_domain hd hd1
    obtain ⟨q2, hn2, _⟩ := size_domain hd hd2
    simp only [postCheck] at hpost
    split at hpost
    · cases hpost
    · rename_i hany
      simp only [Bool.not_eq_true] at hany
      have := List.any_eq_false.mp hany p hp
      simp only [pyGe, hn1, hn2, Num.le, decide_eq_true_eq, not_le] at this
      simp only [pairOk, hg1, hg2, hn1, hn2, Num.lt, decide_eq_true_eq]
      exact this
  · -- nvertices >= 3: the constructor checked `not nvertices < 3` on a finite number
    unfold nvertsOk
    rw [hcls]
    by_cases hr : c = .regPolyP
    · subst hr
      obtain ⟨hg, hdom⟩ := hsize "nvertices" .posScalar (by decide) (Or.inl rfl)
      obtain ⟨q, hn, _⟩ := size_domain (Or.inl rfl) hdom
      have hreal : (a.arg "nvertices").isReal = true := by
        simp only [inDomain, Bool.and_eq_true] at hdom; exact hdom.1.1
      simp only [preCheck] at hpre
      have hlt : pyLtConst (a.arg "nvertices") 3 = .ok (Num.lt (a.arg "nvertices").num (.fin 3)) := by
        unfold Val.isReal at hreal
        unfold pyLtConst
        split at hreal <;> simp_all
      rw [hlt, hn] at hpre
      simp only [Num.lt] at hpre
      have h3 : ¬ q < 3 := by
        intro hq
        simp [hq] at hpre
      simp only [hg, hn, Num.le, bne_self_eq_false, Bool.false_or, decide_eq_true_eq]
      exact not_lt.mp h3
    · have hbne : (c != Cls.regPolyP) = true := by simpa using hr
      simp only [hbne, Bool.true_or]

/-- the hypothesis is satisfiable: a valid annulus construction. -/
example : let a : CtorArgs := { args := [("center", { kind := .pixCoord, scalar := true }),
      ("inner_radius", { kind := .pyInt, scalar := true, num := .fin 2 }),
      ("outer_radius", { kind := .pyFloat, scalar := true, num := .fin 5 })] }
    ctorBad .cAnnP a = false ∧ (construct .cAnnP a).toBool = true := by decide

/-- a constructor rejects inner ≥ outer and nvertices < 3 (the cross-field checks that assignment
lacks, F14 / F14b). -/
example : construct .cAnnP { args := [("center", { kind := .pixCoord, scalar := true }),
      ("inner_radius", { kind := .pyInt, scalar := true, num := .fin 5 }),
      ("outer_radius", { kind := .pyInt, scalar := true, num := .fin 5 })] } = .error .valueError := by
  decide

/-- mask / box shape agreement: a `RegionMask` exists only with `data.shape == bbox.shape`. -/
theorem mask_ctor_iff (s : List Int) (ny nx : Int) : maskCtor s ny nx = .ok () ↔ s = [ny, nx] := by
  unfold maskCtor
  split <;> simp_all

/-! ## 10. The whole property for constructed objects -/

/-- from ANY accepted constructor call outside the failing argument classes, EVERY history outside
the failing operation classes ends in a valid region. -/
theorem constructed_histories_valid (c : Cls) (a : CtorArgs) (o : RObj) (ops : List Op)
    (h : construct c a = .ok o) (hc : ctorBad c a = false)
    (hh : histBad (.region o) ops = false) : Valid (run (.region o) ops) :=
  valid_invariant_partial _ ops (construct_valid_partial c a o h hc) hh

/-- same for metadata objects and region lists, whose constructors have no failing class. -/
theorem constructed_meta_histories_valid (vis : Bool) (seq : MetaArg) (kw : Items) (m : MetaObj)
    (ops : List Op) (h : MetaObj.ctor vis seq kw = .ok m)
    (hh : histBad (.metaObj m) ops = false) : Valid (run (.metaObj m) ops) :=
  valid_invariant_partial _ ops (meta_ctor_keysOk h).1 hh

theorem constructed_list_histories_valid (arg : Option (List Member × Bool)) (l : RList)
    (ops : List Op) (h : RList.ctor arg = .ok l)
    (hh : histBad (.rlist l) ops = false) : Valid (run (.rlist l) ops) :=
  valid_invariant_partial _ ops (regions_ctor_typed h) hh

end RegionsVerif.Props.C17
