/-
C03 — convergence of 'subpixels' masks, continued: ANY boundary convention and no continuity
(`Props/C03Converge.lean` needs open-interval slices and, for the quasi-concave form, continuity).

* `col_count_sw`                    one column of samples whose members lie between an open interval
                                    `(α, β)` and the closed one `[α, β]` (open, closed, half-open …):
                                    the fraction inside is within `1/n` of the length of `(α,β) ∩ [0,1]`;
* `sampled_error_abstract_sw`       the abstract bound with that column hypothesis: `1/n + (Var g + Var h)/(2n)`;
* `quasiconcave_decomp`             a quasi-concave `L` with values in `[0,1]` is (running maximum) +
                                    (non-increasing remainder), each of variation `≤ 1` — no continuity;
* `sampled_error_quasiconcave_sw`   hence `2 / n` for every quasi-concave slice length, any convention;
* `convex_slice_quasiconcave`       for a CONVEX shape with interval slices the slice length against a
                                    pixel is quasi-concave — so the bound holds for every convex shape;
* `rect_subpixel_error`, `rect_mask_converges`, `rectPixelArea_eq_volume`
                                    instance: `Rect.inRaw` (the open rotated rectangle of the package, any
                                    unit or non-unit direction, axis-aligned — where the slice length
                                    jumps — included): `|sampled − area| ≤ 2/n`, for the mask cell via
                                    `C02.rect_mask_spec`; the area is the Lebesgue measure of (pixel ∩
                                    open rectangle).

Convex polygons through `C01.pnpoly_convex` (membership unknown on the fan diagonals, i.e. at
finitely many INTERIOR points of a column, which the sandwich `(α, β) ⊆ members ⊆ [α, β]` does not
allow): `Props/C03ConvergePoly.lean` (`m` exceptional points per column, `+ m/n`; `lo`, `hi` as max /
min over the edge list).
-/
import RegionsVerif.Props.C03Converge

namespace RegionsVerif.Props.C03
open RegionsVerif.Impl RegionsVerif.Props RegionsVerif.Props.C02

/-! ### one column, any boundary convention: `(α, β) ⊆ slice ⊆ [α, β]` -/

/-- the sample abscissae `(k + 1/2)/n` are pairwise distinct: at most one of them equals `α`. -/
theorem sum_eq_le_one (n : Nat) (hn : 0 < n) (α : ℝ) :
    (∑ k ∈ Finset.range n, if ((k : ℝ) + 1/2) / n = α then (1 : ℝ) else 0) ≤ 1 := by
  have hn' : (0 : ℝ) < n := by exact_mod_cast hn
  by_cases hex : ∃ k0 ∈ Finset.range n, ((k0 : ℝ) + 1/2) / n = α
  · obtain ⟨k0, hk0, e0⟩ := hex
    rw [Finset.sum_eq_single k0]
    · rw [if_pos e0]
    · intro k _ hne
      rw [if_neg]
      intro e
      apply hne
      have : ((k : ℝ) + 1/2) / n = ((k0 : ℝ) + 1/2) / n := by rw [e, e0]
      rw [div_left_inj' hn'.ne'] at this
      have : (k : ℝ) = k0 := by linarith
      exact_mod_cast this
    · intro h; exact absurd hk0 h
  · push Not at hex
    rw [Finset.sum_eq_zero]
    · norm_num
    · intro k hk; rw [if_neg (hex k hk)]

/-- **one column of samples, sandwiched membership**: if the membership test `q k` of the `k`-th
sample holds whenever `α < t_k < β` and implies `α ≤ t_k ≤ β` (open, closed, half-open … slice),
the fraction of samples inside is within `1/n` of the length of `(α, β) ∩ [0, 1]`. -/
theorem col_count_sw (n : Nat) (hn : 0 < n) (α β : ℝ) (q : Nat → Prop) [DecidablePred q]
    (hin : ∀ k : Nat, α < ((k : ℝ) + 1/2) / n → ((k : ℝ) + 1/2) / n < β → q k)
    (hout : ∀ k : Nat, q k → α ≤ ((k : ℝ) + 1/2) / n ∧ ((k : ℝ) + 1/2) / n ≤ β) :
    |(∑ k ∈ Finset.range n, if q k then (1 : ℝ) else 0) / n - max 0 (clamp01 β - clamp01 α)| ≤ 1 / n := by
  have hn' : (0 : ℝ) < n := by exact_mod_cast hn
  rcases le_or_gt β α with hle | hlt
  · have hm : max 0 (clamp01 β - clamp01 α) = 0 := max_eq_left (by linarith [clamp01_mono hle])
    have hs : (∑ k ∈ Finset.range n, if q k then (1 : ℝ) else 0) ≤ 1 := by
      refine le_trans (Finset.sum_le_sum ?_) (sum_eq_le_one n hn α)
      intro k _
      by_cases hq : q k
      · have := hout k hq
        have e : ((k : ℝ) + 1/2) / n = α := le_antisymm (by linarith [this.2]) this.1
        rw [if_pos hq, if_pos e]
      · rw [if_neg hq]; split_ifs <;> norm_num
    have h0 : 0 ≤ (∑ k ∈ Finset.range n, if q k then (1 : ℝ) else 0) :=
      Finset.sum_nonneg (fun k _ => by split_ifs <;> norm_num)
    rw [hm, sub_zero, abs_of_nonneg (div_nonneg h0 hn'.le)]
    exact div_le_div_of_nonneg_right hs hn'.le
  · have hsplit : (∑ k ∈ Finset.range n, if q k then (1 : ℝ) else 0) =
        (∑ k ∈ Finset.range n, if (((k : ℝ) + 1/2) / n < β ∨ q k) then (1 : ℝ) else 0) -
        (∑ k ∈ Finset.range n, if (((k : ℝ) + 1/2) / n ≤ α ∧ ¬ q k) then (1 : ℝ) else 0) := by
      rw [← Finset.sum_sub_distrib]
      apply Finset.sum_congr rfl
      intro k _
      by_cases hq : q k
      · rw [if_pos hq, if_pos (Or.inr hq), if_neg (by rintro ⟨-, h⟩; exact h hq)]; ring
      · by_cases c1 : ((k : ℝ) + 1/2) / n ≤ α
        · rw [if_neg hq, if_pos (Or.inl (lt_of_le_of_lt c1 hlt)), if_pos ⟨c1, hq⟩]; ring
        · have c2 : ¬ ((k : ℝ) + 1/2) / n < β := fun h => hq (hin k (not_le.mp c1) h)
          rw [if_neg hq, if_neg (by rintro (h | h); exact c2 h; exact hq h), if_neg (by rintro ⟨h, -⟩; exact c1 h)]; ring
    have b1 := frac_below n hn β (fun k => ((k : ℝ) + 1/2) / n < β ∨ q k) (fun k h => Or.inl h)
      (fun k h => by rcases h with h | h; exact h.le; exact (hout k h).2)
    have b2 := frac_below n hn α (fun k => ((k : ℝ) + 1/2) / n ≤ α ∧ ¬ q k)
      (fun k h => ⟨h.le, fun hq => by linarith [(hout k hq).1]⟩) (fun k h => h.1)
    have hm : max 0 (clamp01 β - clamp01 α) = clamp01 β - clamp01 α :=
      max_eq_right (by linarith [clamp01_mono hlt.le])
    rw [hsplit, hm, sub_div]
    rw [abs_le] at b1 b2 ⊢
    have e : (1 : ℝ) / n = 1 / (2 * n) + 1 / (2 * n) := by field_simp; ring
    constructor <;> linarith [b1.1, b1.2, b2.1, b2.2]

open MeasureTheory in
/-- the midpoint rule for `L = g + h`, `g` non-decreasing, `h` non-increasing on `[A, A+1]`. -/
theorem midpoint_decomp (n : Nat) (hn : 0 < n) (A : ℝ) (L g h : ℝ → ℝ)
    (hdec : ∀ x ∈ Set.Icc A (A + 1), L x = g x + h x)
    (hg : MonotoneOn g (Set.Icc A (A + 1))) (hh : AntitoneOn h (Set.Icc A (A + 1))) :
    |(∑ a ∈ Finset.range n, L (A + ((a : ℝ) + 1/2) / n)) / n - ∫ x in A..(A + 1), L x| ≤
      ((g (A + 1) - g A) + (h A - h (A + 1))) / (2 * n) := by
  have hn' : (0 : ℝ) < n := by exact_mod_cast hn
  -- step 2: the midpoint rule for g and for -h
  have hnh : MonotoneOn (fun x => -h x) (Set.Icc A (A + 1)) := fun x hx y hy hxy => neg_le_neg (hh hx hy hxy)
  have m1 := midpoint_mono g A n hn hg
  have m2 := midpoint_mono (fun x => -h x) A n hn hnh
  have iG : IntervalIntegrable g volume A (A + 1) := by
    apply MonotoneOn.intervalIntegrable; rw [Set.uIcc_of_le (by linarith)]; exact hg
  have iH : IntervalIntegrable h volume A (A + 1) := by
    apply AntitoneOn.intervalIntegrable; rw [Set.uIcc_of_le (by linarith)]; exact hh
  have hint : ∫ x in A..(A + 1), L x = (∫ x in A..(A + 1), g x) + ∫ x in A..(A + 1), h x := by
    rw [← intervalIntegral.integral_add iG iH]
    apply intervalIntegral.integral_congr
    intro x hx
    rw [Set.uIcc_of_le (by linarith)] at hx
    exact hdec x hx
  have hsumL : (∑ a ∈ Finset.range n, L (A + ((a : ℝ) + 1/2) / n)) / n =
      (∑ a ∈ Finset.range n, g (A + ((a : ℝ) + 1/2) / n)) / n +
      (∑ a ∈ Finset.range n, h (A + ((a : ℝ) + 1/2) / n)) / n := by
    rw [← add_div, ← Finset.sum_add_distrib]
    congr 1
    apply Finset.sum_congr rfl
    intro a ha
    have ha' := Finset.mem_range.mp ha
    apply hdec
    have h1 : (0 : ℝ) ≤ ((a : ℝ) + 1/2) / n := by positivity
    have h2 : ((a : ℝ) + 1/2) / n ≤ 1 := by
      rw [div_le_one hn']
      have : (a : ℝ) + 1 ≤ n := by exact_mod_cast ha'
      linarith
    constructor <;> linarith
  have hm2 : (∑ a ∈ Finset.range n, -h (A + ((a : ℝ) + 1/2) / n)) / n - ∫ x in A..(A + 1), -h x =
      -((∑ a ∈ Finset.range n, h (A + ((a : ℝ) + 1/2) / n)) / n - ∫ x in A..(A + 1), h x) := by
    rw [Finset.sum_neg_distrib, intervalIntegral.integral_neg]; ring
  rw [hm2, abs_neg] at m2
  have hstep2 : |(∑ a ∈ Finset.range n, L (A + ((a : ℝ) + 1/2) / n)) / n - ∫ x in A..(A + 1), L x| ≤
      ((g (A + 1) - g A) + (h A - h (A + 1))) / (2 * n) := by
    rw [hsumL, hint]
    have : (∑ a ∈ Finset.range n, g (A + ((a : ℝ) + 1/2) / n)) / n +
        (∑ a ∈ Finset.range n, h (A + ((a : ℝ) + 1/2) / n)) / n -
        ((∫ x in A..(A + 1), g x) + ∫ x in A..(A + 1), h x) =
        ((∑ a ∈ Finset.range n, g (A + ((a : ℝ) + 1/2) / n)) / n - ∫ x in A..(A + 1), g x) +
        ((∑ a ∈ Finset.range n, h (A + ((a : ℝ) + 1/2) / n)) / n - ∫ x in A..(A + 1), h x) := by ring
    rw [this]
    have e2 : ((g (A + 1) - g A) + (h A - h (A + 1))) / (2 * n) =
        (g (A + 1) - g A) / (2 * n) + (-h (A + 1) - -h A) / (2 * n) := by ring
    rw [e2]
    exact le_trans (abs_add_le _ _) (add_le_add m1 m2)
  exact hstep2

open MeasureTheory in
/-- **the abstract bound, any boundary convention**: `Q a k` is the membership test of the sample
`(a, k)`; in every column `a` the members lie between an open and a closed interval `(α, β)`, `[α, β]`
(in pixel-normalised ordinates), and `L` at the column abscissa is the length of `(α, β) ∩ [0,1]`. -/
theorem sampled_error_abstract_sw (n : Nat) (hn : 0 < n) (A : ℝ) (L g h : ℝ → ℝ)
    (Q : Nat → Nat → Prop) [∀ a k, Decidable (Q a k)]
    (hcol : ∀ a : Nat, a < n → ∃ α β : ℝ,
      (∀ k : Nat, α < ((k : ℝ) + 1/2) / n → ((k : ℝ) + 1/2) / n < β → Q a k) ∧
      (∀ k : Nat, Q a k → α ≤ ((k : ℝ) + 1/2) / n ∧ ((k : ℝ) + 1/2) / n ≤ β) ∧
      L (A + ((a : ℝ) + 1/2) / n) = max 0 (clamp01 β - clamp01 α))
    (hdec : ∀ x ∈ Set.Icc A (A + 1), L x = g x + h x)
    (hg : MonotoneOn g (Set.Icc A (A + 1))) (hh : AntitoneOn h (Set.Icc A (A + 1))) :
    |(∑ a ∈ Finset.range n, ∑ k ∈ Finset.range n, if Q a k then (1 : ℝ) else 0) / ((n : ℝ) * n)
      - ∫ x in A..(A + 1), L x| ≤
      1 / n + ((g (A + 1) - g A) + (h A - h (A + 1))) / (2 * n) := by
  have hn' : (0 : ℝ) < n := by exact_mod_cast hn
  have hcolb : ∀ a ∈ Finset.range n,
      |(∑ k ∈ Finset.range n, if Q a k then (1 : ℝ) else 0) / n - L (A + ((a : ℝ) + 1/2) / n)| ≤ 1 / n := by
    intro a ha
    obtain ⟨α, β, h1, h2, h3⟩ := hcol a (Finset.mem_range.mp ha)
    rw [h3]
    exact col_count_sw n hn α β (Q a) h1 h2
  have hstep1 : |(∑ a ∈ Finset.range n, ∑ k ∈ Finset.range n, if Q a k then (1 : ℝ) else 0) / ((n : ℝ) * n)
      - (∑ a ∈ Finset.range n, L (A + ((a : ℝ) + 1/2) / n)) / n| ≤ 1 / n := by
    have e : (∑ a ∈ Finset.range n, ∑ k ∈ Finset.range n, if Q a k then (1 : ℝ) else 0) / ((n : ℝ) * n)
      - (∑ a ∈ Finset.range n, L (A + ((a : ℝ) + 1/2) / n)) / n =
      (∑ a ∈ Finset.range n, ((∑ k ∈ Finset.range n, if Q a k then (1 : ℝ) else 0) / n
        - L (A + ((a : ℝ) + 1/2) / n))) / n := by
      rw [Finset.sum_sub_distrib, sub_div, ← Finset.sum_div, div_div]
    rw [e, abs_div, abs_of_pos hn', div_le_iff₀ hn']
    calc |∑ a ∈ Finset.range n, _| ≤ ∑ a ∈ Finset.range n, |_| := Finset.abs_sum_le_sum_abs _ _
      _ ≤ ∑ a ∈ Finset.range n, (1 / (n : ℝ)) := Finset.sum_le_sum hcolb
      _ = 1 / n * n := by rw [Finset.sum_const, Finset.card_range, nsmul_eq_mul]; ring
  have hstep2 := midpoint_decomp n hn A L g h hdec hg hh
  calc |_ - ∫ x in A..(A + 1), L x|
      ≤ |_ - (∑ a ∈ Finset.range n, L (A + ((a : ℝ) + 1/2) / n)) / n| +
        |(∑ a ∈ Finset.range n, L (A + ((a : ℝ) + 1/2) / n)) / n - ∫ x in A..(A + 1), L x| := abs_sub_le _ _ _
    _ ≤ _ := add_le_add hstep1 hstep2

/-! ### quasi-concave slice lengths without continuity: running maximum + remainder -/

/-- a quasi-concave function with values in `[0, 1]` on `[A, A+1]` is the sum of a non-decreasing
function (its running maximum) and a non-increasing one, each of total variation at most `1`. -/
theorem quasiconcave_decomp (A : ℝ) (L : ℝ → ℝ)
    (h0 : ∀ x ∈ Set.Icc A (A + 1), 0 ≤ L x) (h1 : ∀ x ∈ Set.Icc A (A + 1), L x ≤ 1)
    (hqc : ∀ x ∈ Set.Icc A (A + 1), ∀ y ∈ Set.Icc A (A + 1), ∀ z ∈ Set.Icc A (A + 1),
      x ≤ y → y ≤ z → min (L x) (L z) ≤ L y) :
    ∃ g h : ℝ → ℝ, (∀ x ∈ Set.Icc A (A + 1), L x = g x + h x) ∧
      MonotoneOn g (Set.Icc A (A + 1)) ∧ AntitoneOn h (Set.Icc A (A + 1)) ∧
      g (A + 1) - g A ≤ 1 ∧ h A - h (A + 1) ≤ 1 := by
  set g : ℝ → ℝ := fun x => sSup (L '' Set.Icc A x) with hg
  have hsub : ∀ x ∈ Set.Icc A (A + 1), Set.Icc A x ⊆ Set.Icc A (A + 1) := fun x hx =>
    Set.Icc_subset_Icc le_rfl hx.2
  have hbdd : ∀ x ∈ Set.Icc A (A + 1), BddAbove (L '' Set.Icc A x) := by
    intro x hx
    refine ⟨1, ?_⟩
    rintro _ ⟨t, ht, rfl⟩
    exact h1 t (hsub x hx ht)
  have hne : ∀ x ∈ Set.Icc A (A + 1), (L '' Set.Icc A x).Nonempty := fun x hx =>
    ⟨L A, A, ⟨le_rfl, hx.1⟩, rfl⟩
  have hLg : ∀ x ∈ Set.Icc A (A + 1), L x ≤ g x := fun x hx =>
    le_csSup (hbdd x hx) ⟨x, ⟨hx.1, le_rfl⟩, rfl⟩
  have hg1 : ∀ x ∈ Set.Icc A (A + 1), g x ≤ 1 := by
    intro x hx
    apply csSup_le (hne x hx)
    rintro _ ⟨t, ht, rfl⟩
    exact h1 t (hsub x hx ht)
  have hgmono : MonotoneOn g (Set.Icc A (A + 1)) := by
    intro x hx y hy hxy
    exact csSup_le_csSup (hbdd y hy) (hne x hx) (Set.image_mono (Set.Icc_subset_Icc le_rfl hxy))
  have hA : A ∈ Set.Icc A (A + 1) := ⟨le_rfl, by linarith⟩
  have hA1 : A + 1 ∈ Set.Icc A (A + 1) := ⟨by linarith, le_rfl⟩
  refine ⟨g, fun x => L x - g x, fun x _ => by ring, hgmono, ?_, ?_, ?_⟩
  · -- the remainder is non-increasing
    intro x hx y hy hxy
    simp only
    by_cases hd : g x ≤ L x
    · have := hLg y hy
      have := hLg x hx
      linarith
    · push Not at hd
      obtain ⟨_, ⟨t, ht, rfl⟩, hlt⟩ := exists_lt_of_lt_csSup (hne x hx) hd
      have hqt := hqc t (hsub x hx ht) x hx y hy ht.2 hxy
      have hLy : L y ≤ L x := by
        rcases min_le_iff.mp hqt with h | h
        · linarith
        · exact h
      have := hgmono hx hy hxy
      linarith
  · have := hg1 _ hA1
    have := hLg _ hA
    have := h0 _ hA
    linarith
  · have a1 := hLg _ hA1
    have a2 := hg1 _ hA1
    have a3 := h0 _ hA1
    have a4 := hLg _ hA
    simp only
    linarith

/-- **`2 / n` for every quasi-concave slice length with values in `[0, 1]`, any boundary
convention, no continuity needed** — every convex shape. -/
theorem sampled_error_quasiconcave_sw (n : Nat) (hn : 0 < n) (A : ℝ) (L : ℝ → ℝ)
    (Q : Nat → Nat → Prop) [∀ a k, Decidable (Q a k)]
    (hcol : ∀ a : Nat, a < n → ∃ α β : ℝ,
      (∀ k : Nat, α < ((k : ℝ) + 1/2) / n → ((k : ℝ) + 1/2) / n < β → Q a k) ∧
      (∀ k : Nat, Q a k → α ≤ ((k : ℝ) + 1/2) / n ∧ ((k : ℝ) + 1/2) / n ≤ β) ∧
      L (A + ((a : ℝ) + 1/2) / n) = max 0 (clamp01 β - clamp01 α))
    (hqc : ∀ x ∈ Set.Icc A (A + 1), ∀ y ∈ Set.Icc A (A + 1), ∀ z ∈ Set.Icc A (A + 1),
      x ≤ y → y ≤ z → min (L x) (L z) ≤ L y)
    (h0 : ∀ x ∈ Set.Icc A (A + 1), 0 ≤ L x) (h1 : ∀ x ∈ Set.Icc A (A + 1), L x ≤ 1) :
    |(∑ a ∈ Finset.range n, ∑ k ∈ Finset.range n, if Q a k then (1 : ℝ) else 0) / ((n : ℝ) * n)
      - ∫ x in A..(A + 1), L x| ≤ 2 / n := by
  have hn' : (0 : ℝ) < n := by exact_mod_cast hn
  obtain ⟨g, h, hdec, hg, hh, vg, vh⟩ := quasiconcave_decomp A L h0 h1 hqc
  have key := sampled_error_abstract_sw n hn A L g h Q hcol hdec hg hh
  have hvar : ((g (A + 1) - g A) + (h A - h (A + 1))) / (2 * n) ≤ 1 / n := by
    rw [div_le_div_iff₀ (by positivity) hn']
    nlinarith
  have e2 : (2 : ℝ) / n = 1 / n + 1 / n := by ring
  rw [e2]
  exact le_trans key (by linarith)

/-! ### convex shapes: the slice length against a pixel is quasi-concave -/

/-- length of `(lo, hi) ∩ [B, B+1]`, the two ways of writing it. -/
theorem pixLen_eq (lo hi B : ℝ) :
    max 0 (clamp01 (hi - B) - clamp01 (lo - B)) = max 0 (min hi (B + 1) - max lo B) := by
  unfold clamp01
  simp only [max_def, min_def]
  split_ifs <;> linarith

/-- **convexity ⇒ quasi-concave slice length.**  `K` a convex set (as a predicate) whose vertical
slices inside the pixel's ordinate range `(B, B+1)` are the open intervals `(lo u, hi u)`. -/
theorem convex_slice_quasiconcave (K : ℝ → ℝ → Prop) (B : ℝ) (lo hi : ℝ → ℝ)
    (hK : ∀ x z v w θ : ℝ, 0 ≤ θ → θ ≤ 1 → K x v → K z w → K (θ * x + (1 - θ) * z) (θ * v + (1 - θ) * w))
    (hsl : ∀ u v : ℝ, B < v → v < B + 1 → (K u v ↔ lo u < v ∧ v < hi u))
    (x z θ : ℝ) (hθ0 : 0 ≤ θ) (hθ1 : θ ≤ 1) :
    min (max 0 (min (hi x) (B + 1) - max (lo x) B)) (max 0 (min (hi z) (B + 1) - max (lo z) B)) ≤
      max 0 (min (hi (θ * x + (1 - θ) * z)) (B + 1) - max (lo (θ * x + (1 - θ) * z)) B) := by
  set ax := max (lo x) B with hax
  set bx := min (hi x) (B + 1) with hbx
  set az := max (lo z) B with haz
  set bz := min (hi z) (B + 1) with hbz
  set y := θ * x + (1 - θ) * z with hy
  by_cases hpos : 0 < min (max 0 (bx - ax)) (max 0 (bz - az))
  · have px : 0 < bx - ax := by
      have := lt_of_lt_of_le hpos (min_le_left _ _)
      by_contra hn; push Not at hn; rw [max_eq_left hn] at this; exact lt_irrefl _ this
    have pz : 0 < bz - az := by
      have := lt_of_lt_of_le hpos (min_le_right _ _)
      by_contra hn; push Not at hn; rw [max_eq_left hn] at this; exact lt_irrefl _ this
    have h1θ : 0 ≤ 1 - θ := by linarith
    set a := θ * ax + (1 - θ) * az with ha
    set b := θ * bx + (1 - θ) * bz with hb
    have hab : 0 < b - a := by
      have : b - a = θ * (bx - ax) + (1 - θ) * (bz - az) := by rw [ha, hb]; ring
      rw [this]
      rcases le_total θ (1 / 2) with h | h
      · have : 0 < 1 - θ := by linarith
        have := mul_pos this pz
        have := mul_nonneg hθ0 px.le
        linarith
      · have : 0 < θ := by linarith
        have := mul_pos this px
        have := mul_nonneg h1θ pz.le
        linarith
    have hBa : B ≤ a := by
      have e1 : B ≤ ax := le_max_right _ _
      have e2 : B ≤ az := le_max_right _ _
      have : B = θ * B + (1 - θ) * B := by ring
      rw [this, ha]
      exact add_le_add (mul_le_mul_of_nonneg_left e1 hθ0) (mul_le_mul_of_nonneg_left e2 h1θ)
    have hbB : b ≤ B + 1 := by
      have e1 : bx ≤ B + 1 := min_le_right _ _
      have e2 : bz ≤ B + 1 := min_le_right _ _
      have : B + 1 = θ * (B + 1) + (1 - θ) * (B + 1) := by ring
      rw [this, hb]
      exact add_le_add (mul_le_mul_of_nonneg_left e1 hθ0) (mul_le_mul_of_nonneg_left e2 h1θ)
    -- every ordinate strictly between a and b is in the slice at y
    have hin : ∀ v : ℝ, a < v → v < b → lo y < v ∧ v < hi y := by
      intro v hav hvb
      set lam := (v - a) / (b - a) with hlam
      have l0 : 0 < lam := div_pos (by linarith) hab
      have l1 : lam < 1 := by rw [hlam, div_lt_one hab]; linarith
      have hv : v = a + lam * (b - a) := by rw [hlam, div_mul_cancel₀ _ hab.ne']; ring
      set vx := ax + lam * (bx - ax) with hvx
      set vz := az + lam * (bz - az) with hvz
      have evx : ax < vx ∧ vx < bx := by
        constructor
        · have := mul_pos l0 px; linarith
        · have : lam * (bx - ax) < 1 * (bx - ax) := mul_lt_mul_of_pos_right l1 px
          linarith
      have evz : az < vz ∧ vz < bz := by
        constructor
        · have := mul_pos l0 pz; linarith
        · have : lam * (bz - az) < 1 * (bz - az) := mul_lt_mul_of_pos_right l1 pz
          linarith
      have kx : K x vx := by
        rw [hsl x vx (lt_of_le_of_lt (le_max_right _ _) evx.1) (lt_of_lt_of_le evx.2 (min_le_right _ _))]
        exact ⟨lt_of_le_of_lt (le_max_left _ _) evx.1, lt_of_lt_of_le evx.2 (min_le_left _ _)⟩
      have kz : K z vz := by
        rw [hsl z vz (lt_of_le_of_lt (le_max_right _ _) evz.1) (lt_of_lt_of_le evz.2 (min_le_right _ _))]
        exact ⟨lt_of_le_of_lt (le_max_left _ _) evz.1, lt_of_lt_of_le evz.2 (min_le_left _ _)⟩
      have ky := hK x z vx vz θ hθ0 hθ1 kx kz
      have ev : θ * vx + (1 - θ) * vz = v := by
        rw [hv, hvx, hvz, ha, hb]; ring
      rw [ev] at ky
      exact (hsl y v (by linarith) (by linarith)).mp ky
    have hlo : lo y ≤ a := by
      by_contra hn; push Not at hn
      have hm : a < min (lo y) b := lt_min hn (by linarith)
      have := hin ((a + min (lo y) b) / 2) (by linarith) (by linarith [min_le_right (lo y) b])
      linarith [this.1, min_le_left (lo y) b]
    have hhi : b ≤ hi y := by
      by_contra hn; push Not at hn
      have hm : max (hi y) a < b := max_lt hn (by linarith)
      have := hin ((b + max (hi y) a) / 2) (by linarith [le_max_right (hi y) a]) (by linarith)
      linarith [this.2, le_max_left (hi y) a]
    have hfinal : b - a ≤ min (hi y) (B + 1) - max (lo y) B := by
      have := le_min hhi hbB
      have := max_le hlo hBa
      linarith
    have hconv : min (bx - ax) (bz - az) ≤ b - a := by
      have : b - a = θ * (bx - ax) + (1 - θ) * (bz - az) := by rw [ha, hb]; ring
      rw [this]
      rcases le_total (bx - ax) (bz - az) with h | h
      · rw [min_eq_left h]; nlinarith
      · rw [min_eq_right h]; nlinarith
    rw [max_eq_right px.le, max_eq_right pz.le]
    exact le_trans hconv (le_trans hfinal (le_max_right _ _))
  · push Not at hpos
    exact le_trans hpos (le_max_left _ _)

/-! ### the rotated rectangle (`Rect.inRaw`: the open rectangle) -/

/-- ordinate range of the strip `|P u + Q v| < W` at abscissa `u` (as seen from the pixel's
ordinate range `(B, B+1)` when the strip is vertical, `Q = 0`). -/
noncomputable def stripLo (P Q W B u : ℝ) : ℝ :=
  if 0 < Q then (-W - P * u) / Q else if Q < 0 then (W - P * u) / Q else if |P * u| < W then B - 1 else B + 2
noncomputable def stripHi (P Q W B u : ℝ) : ℝ :=
  if 0 < Q then (W - P * u) / Q else if Q < 0 then (-W - P * u) / Q else if |P * u| < W then B + 2 else B - 1

theorem strip_iff (P Q W B u v : ℝ) (hv : B < v) (hv' : v < B + 1) :
    |P * u + Q * v| < W ↔ stripLo P Q W B u < v ∧ v < stripHi P Q W B u := by
  unfold stripLo stripHi
  rw [abs_lt]
  by_cases h1 : 0 < Q
  · rw [if_pos h1, if_pos h1, div_lt_iff₀ h1, lt_div_iff₀ h1]
    constructor <;> rintro ⟨a, b⟩ <;> constructor <;> linarith
  · rw [if_neg h1, if_neg h1]
    by_cases h2 : Q < 0
    · rw [if_pos h2, if_pos h2, div_lt_iff_of_neg h2, lt_div_iff_of_neg h2]
      constructor <;> rintro ⟨a, b⟩ <;> constructor <;> linarith
    · rw [if_neg h2, if_neg h2]
      have hQ : Q = 0 := le_antisymm (not_lt.mp h1) (not_lt.mp h2)
      rw [hQ, zero_mul, add_zero]
      by_cases h3 : |P * u| < W
      · rw [if_pos h3, if_pos h3]
        rw [abs_lt] at h3
        constructor
        · intro _; constructor <;> linarith
        · intro _; exact h3
      · rw [if_neg h3, if_neg h3]
        rw [abs_lt] at h3
        constructor
        · intro h; exact absurd h h3
        · rintro ⟨a, b⟩; linarith

/-- membership in the open rectangle, centred coordinates (`(c, s)` the unit direction,
`W`, `Hh` the half width and half height). -/
def rectK (c s W Hh u v : ℝ) : Prop := |c * u + s * v| < W ∧ |s * u + (-c) * v| < Hh

theorem rectK_convex (c s W Hh x z v w θ : ℝ) (hθ0 : 0 ≤ θ) (hθ1 : θ ≤ 1)
    (h1 : rectK c s W Hh x v) (h2 : rectK c s W Hh z w) :
    rectK c s W Hh (θ * x + (1 - θ) * z) (θ * v + (1 - θ) * w) := by
  unfold rectK at *
  have h1θ : 0 ≤ 1 - θ := by linarith
  obtain ⟨h1a, h1b⟩ := h1
  obtain ⟨h2a, h2b⟩ := h2
  rw [abs_lt] at h1a h1b h2a h2b
  obtain ⟨a1, a2⟩ := h1a
  obtain ⟨a3, a4⟩ := h1b
  obtain ⟨b1, b2⟩ := h2a
  obtain ⟨b3, b4⟩ := h2b
  rw [abs_lt, abs_lt]
  have e1 : c * (θ * x + (1 - θ) * z) + s * (θ * v + (1 - θ) * w) = θ * (c * x + s * v) + (1 - θ) * (c * z + s * w) := by ring
  have e2 : s * (θ * x + (1 - θ) * z) + -c * (θ * v + (1 - θ) * w) = θ * (s * x + -c * v) + (1 - θ) * (s * z + -c * w) := by ring
  rw [e1, e2]
  rcases le_total θ (1 / 2) with h | h
  · have hp : 0 < 1 - θ := by linarith
    refine ⟨⟨?_, ?_⟩, ⟨?_, ?_⟩⟩ <;> nlinarith [mul_le_mul_of_nonneg_left a1.le hθ0, mul_le_mul_of_nonneg_left a2.le hθ0,
      mul_le_mul_of_nonneg_left a3.le hθ0, mul_le_mul_of_nonneg_left a4.le hθ0,
      mul_lt_mul_of_pos_left b1 hp, mul_lt_mul_of_pos_left b2 hp, mul_lt_mul_of_pos_left b3 hp, mul_lt_mul_of_pos_left b4 hp]
  · have hp : 0 < θ := by linarith
    refine ⟨⟨?_, ?_⟩, ⟨?_, ?_⟩⟩ <;> nlinarith [mul_lt_mul_of_pos_left a1 hp, mul_lt_mul_of_pos_left a2 hp,
      mul_lt_mul_of_pos_left a3 hp, mul_lt_mul_of_pos_left a4 hp,
      mul_le_mul_of_nonneg_left b1.le h1θ, mul_le_mul_of_nonneg_left b2.le h1θ,
      mul_le_mul_of_nonneg_left b3.le h1θ, mul_le_mul_of_nonneg_left b4.le h1θ]

noncomputable def rectLo (c s W Hh B u : ℝ) : ℝ := max (stripLo c s W B u) (stripLo s (-c) Hh B u)
noncomputable def rectHi (c s W Hh B u : ℝ) : ℝ := min (stripHi c s W B u) (stripHi s (-c) Hh B u)

theorem rectK_iff (c s W Hh B u v : ℝ) (hv : B < v) (hv' : v < B + 1) :
    rectK c s W Hh u v ↔ rectLo c s W Hh B u < v ∧ v < rectHi c s W Hh B u := by
  unfold rectK rectLo rectHi
  rw [strip_iff c s W B u v hv hv', strip_iff s (-c) Hh B u v hv hv', max_lt_iff, lt_min_iff]
  tauto

/-- length of (slice of the open rectangle at `u`) ∩ `[B, B+1]`. -/
noncomputable def rectLen (c s W Hh B u : ℝ) : ℝ :=
  max 0 (min (rectHi c s W Hh B u) (B + 1) - max (rectLo c s W Hh B u) B)

/-- **the rotated rectangle, real-valued form**: any direction (axis-aligned included), `≤ 2 / n`. -/
theorem rect_sampled_error_real (c s W Hh A B : ℝ) (n : Nat) (hn : 0 < n) :
    |(∑ a ∈ Finset.range n, ∑ k ∈ Finset.range n,
        if |c * (A + ((a : ℝ) + 1/2) / n) + s * (B + ((k : ℝ) + 1/2) / n)| < W ∧
           |s * (A + ((a : ℝ) + 1/2) / n) + (-c) * (B + ((k : ℝ) + 1/2) / n)| < Hh then (1 : ℝ) else 0) / ((n : ℝ) * n)
      - ∫ x in A..(A + 1), rectLen c s W Hh B x| ≤ 2 / n := by
  have hn' : (0 : ℝ) < n := by exact_mod_cast hn
  have tk : ∀ k : Nat, k < n → 0 < ((k : ℝ) + 1/2) / n ∧ ((k : ℝ) + 1/2) / n < 1 := by
    intro k hk
    constructor
    · positivity
    · rw [div_lt_one hn']
      have : (k : ℝ) + 1 ≤ n := by exact_mod_cast hk
      linarith
  classical
  have key := sampled_error_quasiconcave_sw n hn A (rectLen c s W Hh B)
    (fun a k => k < n ∧ rectK c s W Hh (A + ((a : ℝ) + 1/2) / n) (B + ((k : ℝ) + 1/2) / n))
    (by
      intro a _
      refine ⟨max (rectLo c s W Hh B (A + ((a : ℝ) + 1/2) / n) - B) 0,
        min (rectHi c s W Hh B (A + ((a : ℝ) + 1/2) / n) - B) 1, ?_, ?_, ?_⟩
      · intro k h1 h2
        have t0 : 0 < ((k : ℝ) + 1/2) / n := lt_of_le_of_lt (le_max_right _ _) h1
        have t1 : ((k : ℝ) + 1/2) / n < 1 := lt_of_lt_of_le h2 (min_le_right _ _)
        have hk : k < n := by
          rw [div_lt_one hn'] at t1
          have : (k : ℝ) < n := by linarith
          exact_mod_cast this
        refine ⟨hk, ?_⟩
        rw [rectK_iff c s W Hh B _ _ (by linarith) (by linarith)]
        constructor
        · have := lt_of_le_of_lt (le_max_left _ _) h1; linarith
        · have := lt_of_lt_of_le h2 (min_le_left _ _); linarith
      · rintro k ⟨hk, hK⟩
        obtain ⟨t0, t1⟩ := tk k hk
        rw [rectK_iff c s W Hh B _ _ (by linarith) (by linarith)] at hK
        constructor
        · apply max_le <;> linarith [hK.1]
        · apply le_min <;> linarith [hK.2]
      · unfold rectLen
        rw [← pixLen_eq]
        have e1 : ∀ x : ℝ, clamp01 (min x 1) = clamp01 x := by
          intro x; unfold clamp01; simp only [max_def, min_def]; split_ifs <;> linarith
        have e2 : ∀ x : ℝ, clamp01 (max x 0) = clamp01 x := by
          intro x; unfold clamp01; simp only [max_def, min_def]; split_ifs <;> linarith
        rw [e1, e2])
    (by
      intro x _ y _ z _ hxy hyz
      rcases eq_or_lt_of_le (le_trans hxy hyz) with hxz | hxz
      · have : y = x := le_antisymm (by linarith) hxy
        rw [this]; exact min_le_left _ _
      · have hθ : y = ((z - y) / (z - x)) * x + (1 - (z - y) / (z - x)) * z := by
          have : z - x ≠ 0 := by linarith
          field_simp; ring
        rw [hθ]
        exact convex_slice_quasiconcave (rectK c s W Hh) B (rectLo c s W Hh B) (rectHi c s W Hh B)
          (fun x z v w θ h0 h1 k1 k2 => rectK_convex c s W Hh x z v w θ h0 h1 k1 k2)
          (fun u v hv hv' => rectK_iff c s W Hh B u v hv hv') x z _
          (div_nonneg (by linarith) (by linarith)) (by rw [div_le_one (by linarith)]; linarith))
    (fun x _ => le_max_left _ _)
    (fun x _ => by
      unfold rectLen
      apply max_le zero_le_one
      linarith [min_le_right (rectHi c s W Hh B x) (B + 1), le_max_right (rectLo c s W Hh B x) B])
  have hsum : (∑ a ∈ Finset.range n, ∑ k ∈ Finset.range n,
        if |c * (A + ((a : ℝ) + 1/2) / n) + s * (B + ((k : ℝ) + 1/2) / n)| < W ∧
           |s * (A + ((a : ℝ) + 1/2) / n) + (-c) * (B + ((k : ℝ) + 1/2) / n)| < Hh then (1 : ℝ) else 0) =
      ∑ a ∈ Finset.range n, ∑ k ∈ Finset.range n,
        if (k < n ∧ rectK c s W Hh (A + ((a : ℝ) + 1/2) / n) (B + ((k : ℝ) + 1/2) / n)) then (1 : ℝ) else 0 := by
    apply Finset.sum_congr rfl; intro a _
    apply Finset.sum_congr rfl; intro k hk
    have hk' := Finset.mem_range.mp hk
    unfold rectK
    simp only [hk', true_and]
  rw [hsum]
  convert key using 3

/-! ### `∫ rectLen` is the Lebesgue measure of (pixel ∩ open rectangle) -/

theorem measurable_stripLo (P Q W B : ℝ) : Measurable (stripLo P Q W B) := by
  unfold stripLo
  by_cases h1 : 0 < Q
  · simp only [if_pos h1]; fun_prop
  · by_cases h2 : Q < 0
    · simp only [if_neg h1, if_pos h2]; fun_prop
    · simp only [if_neg h1, if_neg h2]
      exact Measurable.ite (measurableSet_lt (by fun_prop) measurable_const) measurable_const measurable_const

theorem measurable_stripHi (P Q W B : ℝ) : Measurable (stripHi P Q W B) := by
  unfold stripHi
  by_cases h1 : 0 < Q
  · simp only [if_pos h1]; fun_prop
  · by_cases h2 : Q < 0
    · simp only [if_neg h1, if_pos h2]; fun_prop
    · simp only [if_neg h1, if_neg h2]
      exact Measurable.ite (measurableSet_lt (by fun_prop) measurable_const) measurable_const measurable_const

open MeasureTheory in
theorem rect_pixel_volume (c s W Hh A B : ℝ) :
    volume {p : ℝ × ℝ | p.1 ∈ Set.Icc A (A + 1) ∧ B < p.2 ∧ p.2 < B + 1 ∧ rectK c s W Hh p.1 p.2} =
      ENNReal.ofReal (∫ x in A..(A + 1), rectLen c s W Hh B x) := by
  set f : ℝ → ℝ := fun x => B + clamp01 (rectLo c s W Hh B x - B) with hf
  set g : ℝ → ℝ := fun x => max (f x) (B + clamp01 (rectHi c s W Hh B x - B)) with hg
  have mlo : Measurable (rectLo c s W Hh B) := by
    unfold rectLo; exact (measurable_stripLo _ _ _ _).max (measurable_stripLo _ _ _ _)
  have mhi : Measurable (rectHi c s W Hh B) := by
    unfold rectHi; exact (measurable_stripHi _ _ _ _).min (measurable_stripHi _ _ _ _)
  have mc : Measurable clamp01 := by unfold clamp01; fun_prop
  have mf : Measurable f := measurable_const.add (mc.comp (mlo.sub measurable_const))
  have mg : Measurable g := mf.max (measurable_const.add (mc.comp (mhi.sub measurable_const)))
  have bf : ∀ x, ‖f x‖ ≤ |B| + 1 := by
    intro x
    rw [Real.norm_eq_abs]
    have h0 := clamp01_nonneg (rectLo c s W Hh B x - B)
    have h1 := clamp01_le_one (rectLo c s W Hh B x - B)
    calc |f x| ≤ |B| + |clamp01 (rectLo c s W Hh B x - B)| := abs_add_le _ _
      _ ≤ |B| + 1 := by rw [abs_of_nonneg h0]; linarith
  have bg : ∀ x, ‖g x‖ ≤ |B| + 1 := by
    intro x
    rw [Real.norm_eq_abs, abs_le]
    have h0 := clamp01_nonneg (rectLo c s W Hh B x - B)
    have h1 := clamp01_le_one (rectLo c s W Hh B x - B)
    have h2 := clamp01_nonneg (rectHi c s W Hh B x - B)
    have h3 := clamp01_le_one (rectHi c s W Hh B x - B)
    have hB := neg_abs_le B
    have hB' := le_abs_self B
    have ef : f x = B + clamp01 (rectLo c s W Hh B x - B) := rfl
    constructor
    · have : f x ≤ g x := le_max_left _ _
      linarith
    · apply max_le <;> linarith
  have fin : volume (Set.Icc A (A + 1)) ≠ ⊤ := by rw [Real.volume_Icc]; exact ENNReal.ofReal_ne_top
  have i_f : IntegrableOn f (Set.Icc A (A + 1)) volume :=
    Measure.integrableOn_of_bounded fin mf.aestronglyMeasurable (Filter.Eventually.of_forall bf)
  have i_g : IntegrableOn g (Set.Icc A (A + 1)) volume :=
    Measure.integrableOn_of_bounded fin mg.aestronglyMeasurable (Filter.Eventually.of_forall bg)
  have hset : {p : ℝ × ℝ | p.1 ∈ Set.Icc A (A + 1) ∧ B < p.2 ∧ p.2 < B + 1 ∧ rectK c s W Hh p.1 p.2} =
      regionBetween f g (Set.Icc A (A + 1)) := by
    ext p
    simp only [regionBetween, Set.mem_ofPred_eq, Set.mem_Ioo, hg, lt_max_iff, hf]
    rw [lt_add_clamp01, add_clamp01_gt B (rectLo c s W Hh B p.1), add_clamp01_gt B (rectHi c s W Hh B p.1)]
    constructor
    · rintro ⟨h0, h1, h2, hK⟩
      rw [rectK_iff c s W Hh B p.1 p.2 h1 h2] at hK
      exact ⟨h0, ⟨h1, Or.inr hK.1⟩, Or.inr (Or.inr ⟨h2, hK.2⟩)⟩
    · rintro ⟨h0, ⟨h1, h2⟩, h3⟩
      have hlt : p.2 < B + 1 ∧ p.2 < rectHi c s W Hh B p.1 := by
        rcases h3 with (h3 | ⟨h3, h4⟩) | (h3 | h3)
        · linarith
        · rcases h2 with h2 | h2 <;> linarith
        · linarith
        · exact h3
      have hlo : rectLo c s W Hh B p.1 < p.2 := by
        rcases h2 with h2 | h2
        · linarith [hlt.1]
        · exact h2
      exact ⟨h0, h1, hlt.1, (rectK_iff c s W Hh B p.1 p.2 h1 hlt.1).mpr ⟨hlo, hlt.2⟩⟩
  rw [hset, Measure.volume_eq_prod,
    volume_regionBetween_eq_integral i_f i_g measurableSet_Icc (fun x _ => le_max_left _ _),
    intervalIntegral.integral_of_le (by linarith : A ≤ A + 1), integral_Icc_eq_integral_Ioc]
  congr 1
  apply integral_congr_ae
  apply Filter.Eventually.of_forall
  intro x
  simp only [Pi.sub_apply, hg, hf]
  unfold rectLen
  rw [← pixLen_eq]
  rcases le_total (clamp01 (rectLo c s W Hh B x - B)) (clamp01 (rectHi c s W Hh B x - B)) with h | h
  · rw [max_eq_right (by linarith), max_eq_right (by linarith)]; ring
  · rw [max_eq_left (by linarith), max_eq_left (by linarith)]; ring

/-- exact area of (pixel `(ixmin + i, iymin + j)` ∩ open rectangle), as an integral of slice lengths. -/
noncomputable def rectPixelArea (r : Rect ℚ) (b : BBox) (j i : Nat) : ℝ :=
  ∫ x in ((b.ixmin : ℝ) + i - 1/2 - (r.center.x : ℝ))..((b.ixmin : ℝ) + i - 1/2 - (r.center.x : ℝ) + 1),
    rectLen (r.dir.c : ℝ) (r.dir.s : ℝ) ((r.width : ℝ) * (1/2)) ((r.height : ℝ) * (1/2))
      ((b.iymin : ℝ) + j - 1/2 - (r.center.y : ℝ)) x

open MeasureTheory in
/-- `rectPixelArea` is the Lebesgue measure of (pixel ∩ open rectangle), in absolute coordinates. -/
theorem rectPixelArea_eq_volume (r : Rect ℚ) (b : BBox) (j i : Nat) :
    volume {p : ℝ × ℝ | p.1 ∈ Set.Icc ((b.ixmin : ℝ) + i - 1/2) ((b.ixmin : ℝ) + i - 1/2 + 1) ∧
        (b.iymin : ℝ) + j - 1/2 < p.2 ∧ p.2 < (b.iymin : ℝ) + j - 1/2 + 1 ∧
        |(r.dir.c : ℝ) * (p.1 - r.center.x) + (r.dir.s : ℝ) * (p.2 - r.center.y)| < (r.width : ℝ) * (1/2) ∧
        |(r.dir.s : ℝ) * (p.1 - r.center.x) - (r.dir.c : ℝ) * (p.2 - r.center.y)| < (r.height : ℝ) * (1/2)} =
      ENNReal.ofReal (rectPixelArea r b j i) := by
  unfold rectPixelArea
  rw [← rect_pixel_volume]
  have hset : {p : ℝ × ℝ | p.1 ∈ Set.Icc ((b.ixmin : ℝ) + i - 1/2) ((b.ixmin : ℝ) + i - 1/2 + 1) ∧
        (b.iymin : ℝ) + j - 1/2 < p.2 ∧ p.2 < (b.iymin : ℝ) + j - 1/2 + 1 ∧
        |(r.dir.c : ℝ) * (p.1 - r.center.x) + (r.dir.s : ℝ) * (p.2 - r.center.y)| < (r.width : ℝ) * (1/2) ∧
        |(r.dir.s : ℝ) * (p.1 - r.center.x) - (r.dir.c : ℝ) * (p.2 - r.center.y)| < (r.height : ℝ) * (1/2)} =
      (fun p : ℝ × ℝ => p + (-(r.center.x : ℝ), -(r.center.y : ℝ))) ⁻¹'
        {p : ℝ × ℝ | p.1 ∈ Set.Icc ((b.ixmin : ℝ) + i - 1/2 - (r.center.x : ℝ)) ((b.ixmin : ℝ) + i - 1/2 - (r.center.x : ℝ) + 1) ∧
          (b.iymin : ℝ) + j - 1/2 - (r.center.y : ℝ) < p.2 ∧ p.2 < (b.iymin : ℝ) + j - 1/2 - (r.center.y : ℝ) + 1 ∧
          rectK (r.dir.c : ℝ) (r.dir.s : ℝ) ((r.width : ℝ) * (1/2)) ((r.height : ℝ) * (1/2)) p.1 p.2} := by
    ext p
    simp only [Set.mem_ofPred_eq, Set.mem_preimage, Set.mem_Icc, Prod.fst_add, Prod.snd_add, rectK]
    have e1 : p.1 + -(r.center.x : ℝ) = p.1 - r.center.x := by ring
    have e2 : p.2 + -(r.center.y : ℝ) = p.2 - r.center.y := by ring
    have e3 : (r.dir.s : ℝ) * (p.1 - r.center.x) + -(r.dir.c : ℝ) * (p.2 - r.center.y) =
        (r.dir.s : ℝ) * (p.1 - r.center.x) - (r.dir.c : ℝ) * (p.2 - r.center.y) := by ring
    rw [e1, e2, e3]
    constructor
    · rintro ⟨⟨a1, a2⟩, a3, a4, a5⟩
      exact ⟨⟨by linarith, by linarith⟩, by linarith, by linarith, a5⟩
    · rintro ⟨⟨a1, a2⟩, a3, a4, a5⟩
      exact ⟨⟨by linarith, by linarith⟩, by linarith, by linarith, a5⟩
  have : (volume : Measure (ℝ × ℝ)).IsAddRightInvariant := by
    rw [Measure.volume_eq_prod]; infer_instance
  rw [hset, measure_preimage_add_right]

/-- **convergence of the rectangle 'subpixels' mask** (any rotation, axis-aligned included): the
sampled fraction differs from the exact area of (unit pixel ∩ open rectangle) by at most `2 / n`. -/
theorem rect_subpixel_error (r : Rect ℚ) (b : BBox) (n j i : Nat) (hn : 0 < n) :
    |((sampledFrac (fun x y => r.inRaw ⟨x, y⟩) b n j i : ℚ) : ℝ) - rectPixelArea r b j i| ≤ 2 / n := by
  rw [sampledFrac_cast]
  unfold rectPixelArea
  set A := (b.ixmin : ℝ) + i - 1/2 - (r.center.x : ℝ) with hA
  set B := (b.iymin : ℝ) + j - 1/2 - (r.center.y : ℝ) with hB
  have key := rect_sampled_error_real (r.dir.c : ℝ) (r.dir.s : ℝ) ((r.width : ℝ) * (1/2)) ((r.height : ℝ) * (1/2)) A B n hn
  have hsum : (∑ a ∈ Finset.range n, ∑ k ∈ Finset.range n,
      if r.inRaw ⟨(b.ixmin : ℚ) + i - 1/2 + ((a : ℚ) + 1/2) / n, (b.iymin : ℚ) + j - 1/2 + ((k : ℚ) + 1/2) / n⟩ = true
        then (1 : ℝ) else 0) =
      ∑ a ∈ Finset.range n, ∑ k ∈ Finset.range n,
        if |(r.dir.c : ℝ) * (A + ((a : ℝ) + 1/2) / n) + (r.dir.s : ℝ) * (B + ((k : ℝ) + 1/2) / n)| < (r.width : ℝ) * (1/2) ∧
           |(r.dir.s : ℝ) * (A + ((a : ℝ) + 1/2) / n) + (-(r.dir.c : ℝ)) * (B + ((k : ℝ) + 1/2) / n)| < (r.height : ℝ) * (1/2)
        then (1 : ℝ) else 0 := by
    apply Finset.sum_congr rfl; intro a _
    apply Finset.sum_congr rfl; intro k _
    have : (r.inRaw ⟨(b.ixmin : ℚ) + i - 1/2 + ((a : ℚ) + 1/2) / n, (b.iymin : ℚ) + j - 1/2 + ((k : ℚ) + 1/2) / n⟩ = true) ↔
        (|(r.dir.c : ℝ) * (A + ((a : ℝ) + 1/2) / n) + (r.dir.s : ℝ) * (B + ((k : ℝ) + 1/2) / n)| < (r.width : ℝ) * (1/2) ∧
           |(r.dir.s : ℝ) * (A + ((a : ℝ) + 1/2) / n) + (-(r.dir.c : ℝ)) * (B + ((k : ℝ) + 1/2) / n)| < (r.height : ℝ) * (1/2)) := by
      unfold Rect.inRaw
      simp only [Bool.and_eq_true, decide_eq_true_eq]
      rw [← Rat.cast_lt (K := ℝ), ← Rat.cast_lt (K := ℝ)]
      push_cast
      have e1 : (r.dir.c : ℝ) * ((b.ixmin : ℝ) + i - 1/2 + ((a : ℝ) + 1/2) / n - (r.center.x : ℝ)) +
          (r.dir.s : ℝ) * ((b.iymin : ℝ) + j - 1/2 + ((k : ℝ) + 1/2) / n - (r.center.y : ℝ)) =
          (r.dir.c : ℝ) * (A + ((a : ℝ) + 1/2) / n) + (r.dir.s : ℝ) * (B + ((k : ℝ) + 1/2) / n) := by rw [hA, hB]; ring
      have e2 : (r.dir.s : ℝ) * ((b.ixmin : ℝ) + i - 1/2 + ((a : ℝ) + 1/2) / n - (r.center.x : ℝ)) -
          (r.dir.c : ℝ) * ((b.iymin : ℝ) + j - 1/2 + ((k : ℝ) + 1/2) / n - (r.center.y : ℝ)) =
          (r.dir.s : ℝ) * (A + ((a : ℝ) + 1/2) / n) + (-(r.dir.c : ℝ)) * (B + ((k : ℝ) + 1/2) / n) := by rw [hA, hB]; ring
      rw [e1, e2]
    simp only [this]
  rw [hsum]
  exact key

/-- the rectangle 'subpixels' mask cell converges to the exact overlap area. -/
theorem rect_mask_converges (r : Rect ℚ) (mode : MaskMode) (n : Nat) (hmode : subpixOf mode = some n) (hn : 0 < n)
    (m : GenMask) (h : rectToMask r mode = .ok m)
    (j i : Nat) (hi : (i : Int) < m.bbox.shape.2) (hj : (j : Int) < m.bbox.shape.1) :
    |((m.cell j i : ℚ) : ℝ) - rectPixelArea r m.bbox j i| ≤ 2 / n := by
  rw [(rect_mask_spec r mode n hmode m h).2 j i hi hj]
  exact rect_subpixel_error r m.bbox n j i hn

-- an axis-aligned 3 × 2 rectangle and one rotated along (3/5, 4/5)
example := rect_subpixel_error ⟨⟨1 / 3, 1 / 5⟩, 3, 2, ⟨1, 0⟩⟩ ⟨-2, 3, -2, 3⟩ 7 1 2 (by norm_num)
example := rect_subpixel_error ⟨⟨1 / 3, 1 / 5⟩, 3, 2, ⟨3 / 5, 4 / 5⟩⟩ ⟨-2, 3, -2, 3⟩ 7 1 2 (by norm_num)

end RegionsVerif.Props.C03

#print axioms RegionsVerif.Props.C03.col_count_sw
#print axioms RegionsVerif.Props.C03.sampled_error_quasiconcave_sw
#print axioms RegionsVerif.Props.C03.convex_slice_quasiconcave
#print axioms RegionsVerif.Props.C03.rect_subpixel_error
#print axioms RegionsVerif.Props.C03.rectPixelArea_eq_volume
#print axioms RegionsVerif.Props.C03.rect_mask_converges
