/-
C15 — membership, area, boxes and masks follow the region under rigid motions.

Theorems about `Impl.Pt.rotate`, `Impl.PReg.rotate`, `Impl.PReg.shift` (model of every
`rotate` method and of `PixCoord.rotate`) for ALL centres, all unit rotation vectors, all
parameters and all expression depths.  Polygons: the vertex map and translation invariance
are proved; invariance of the even-odd answer under *rotation* is not (DESIGN §7) and the
region-level theorem carries the decidable hypothesis `polygonFree`.
-/
import RegionsVerif.Impl.Region
import RegionsVerif.Impl.Extent
import RegionsVerif.Props.C01
import RegionsVerif.Props.C01Poly
import RegionsVerif.Props.C19
import Mathlib.Tactic.LinearCombination

namespace RegionsVerif.Props.C15
open RegionsVerif.Impl RegionsVerif.Props

section field
variable {α : Type} [Field α] [LinearOrder α] [IsStrictOrderedRing α]

/-! ### PixCoord.rotate -/

/-- rotation is an isometry. -/
theorem rotate_isometry (p q o : Pt α) (d : Dir α) (hu : d.IsUnit) :
    sep2 (p.rotate o d) (q.rotate o d) = sep2 p q := by
  unfold Dir.IsUnit at hu
  simp only [sep2, Pt.rotate]
  linear_combination ((q.x - p.x) ^ 2 + (q.y - p.y) ^ 2) * hu

/-- the centre of rotation is fixed. -/
theorem rotate_fixes_center (o : Pt α) (d : Dir α) : o.rotate o d = o := by
  simp [Pt.rotate]

/-- rotations about one centre compose additively in the angle. -/
theorem rotate_compose (p o : Pt α) (d e : Dir α) :
    (p.rotate o d).rotate o e = p.rotate o (d.add e) := by
  simp only [Pt.rotate, Dir.add, Pt.mk.injEq]
  constructor <;> ring

/-- rotating by the zero angle is the identity. -/
theorem rotate_zero (p o : Pt α) : p.rotate o Dir.zero = p := by
  cases p; simp [Pt.rotate, Dir.zero]

/-- rotating back restores the point. -/
theorem rotate_inverse (p o : Pt α) (d : Dir α) (hu : d.IsUnit) :
    (p.rotate o d).rotate o d.neg = p := by
  unfold Dir.IsUnit at hu
  cases p with
  | mk x y =>
    simp only [Pt.rotate, Dir.neg, Pt.mk.injEq]
    constructor
    · linear_combination (x - o.x) * hu
    · linear_combination (y - o.y) * hu

/-- angle bookkeeping: adding the rotation angle and then its negative restores `(cos, sin)`. -/
theorem dir_add_neg (a d : Dir α) (hu : d.IsUnit) : (a.add d).add d.neg = a := by
  unfold Dir.IsUnit at hu
  cases a with
  | mk c s =>
    simp only [Dir.add, Dir.neg, Dir.mk.injEq]
    constructor
    · linear_combination c * hu
    · linear_combination s * hu

theorem dir_add_unit (a d : Dir α) (ha : a.IsUnit) (hd : d.IsUnit) : (a.add d).IsUnit := by
  unfold Dir.IsUnit at *
  simp only [Dir.add]
  linear_combination (d.c ^ 2 + d.s ^ 2) * ha + hd

/-! ### membership of the simple shapes -/

theorem circle_contains_rotate (r : Circle α) (p o : Pt α) (d : Dir α) (hu : d.IsUnit) :
    (r.rotate o d).inRaw (p.rotate o d) = r.inRaw p := by
  simp only [Circle.inRaw, Circle.rotate, rotate_isometry _ _ _ _ hu]

/-- the frame coordinates of the rotated point in the rotated frame are the original ones. -/
theorem frame_rotate (c p o : Pt α) (a d : Dir α) (hu : d.IsUnit) :
    (a.add d).c * ((p.rotate o d).x - (c.rotate o d).x) + (a.add d).s * ((p.rotate o d).y - (c.rotate o d).y)
      = a.c * (p.x - c.x) + a.s * (p.y - c.y) ∧
    (a.add d).s * ((p.rotate o d).x - (c.rotate o d).x) - (a.add d).c * ((p.rotate o d).y - (c.rotate o d).y)
      = a.s * (p.x - c.x) - a.c * (p.y - c.y) := by
  unfold Dir.IsUnit at hu
  simp only [Pt.rotate, Dir.add]
  constructor
  · linear_combination (a.c * (p.x - c.x) + a.s * (p.y - c.y)) * hu
  · linear_combination (a.s * (p.x - c.x) - a.c * (p.y - c.y)) * hu

theorem ellipse_contains_rotate (r : Ellipse α) (p o : Pt α) (d : Dir α) (hu : d.IsUnit) :
    (r.rotate o d).inRaw (p.rotate o d) = r.inRaw p := by
  obtain ⟨h1, h2⟩ := frame_rotate r.center p o r.dir d hu
  simp only [Ellipse.inRaw, Ellipse.rotate, h1, h2]

theorem rect_contains_rotate (r : Rect α) (p o : Pt α) (d : Dir α) (hu : d.IsUnit) :
    (r.rotate o d).inRaw (p.rotate o d) = r.inRaw p := by
  obtain ⟨h1, h2⟩ := frame_rotate r.center p o r.dir d hu
  simp only [Rect.inRaw, Rect.rotate, h1, h2]

/-- polygons: `rotate` rotates every vertex (the list, its order and its length are kept). -/
theorem polygon_rotate_vertices (r : Polygon α) (o : Pt α) (d : Dir α) :
    (r.rotate o d).vertices = r.vertices.map (fun v => v.rotate o d) := rfl

/-! ### region expressions -/

/-- no polygon anywhere in the expression. -/
def polygonFree : PReg α → Bool
  | .polygon _ _ => false
  | .compound _ r1 r2 _ => polygonFree r1 && polygonFree r2
  | _ => true

/-- **a rotated region contains a rotated position exactly when the original contained the
unrotated one** — every class except polygons, annuli and compounds of any depth included. -/
theorem contains_rotate_partial (r : PReg α) (hpf : polygonFree r = true) (p o : Pt α) (d : Dir α)
    (hu : d.IsUnit) : (r.rotate o d).contains (p.rotate o d) = r.contains p := by
  induction r with
  | circle c i => simp only [PReg.rotate, PReg.contains, circle_contains_rotate _ _ _ _ hu]
  | ellipse e i => simp only [PReg.rotate, PReg.contains, ellipse_contains_rotate _ _ _ _ hu]
  | rect c i => simp only [PReg.rotate, PReg.contains, rect_contains_rotate _ _ _ _ hu]
  | polygon g i => simp [polygonFree] at hpf
  | circleAnnulus c r1 r2 i =>
    have h1 := circle_contains_rotate ⟨c, r1⟩ p o d hu
    have h2 := circle_contains_rotate ⟨c, r2⟩ p o d hu
    simp only [Circle.rotate] at h1 h2
    simp only [PReg.rotate, PReg.contains, h1, h2]
  | ellipseAnnulus c w1 h1 w2 h2 dd i =>
    have k1 := ellipse_contains_rotate ⟨c, w1, h1, dd⟩ p o d hu
    have k2 := ellipse_contains_rotate ⟨c, w2, h2, dd⟩ p o d hu
    simp only [Ellipse.rotate] at k1 k2
    simp only [PReg.rotate, PReg.contains, k1, k2]
  | rectAnnulus c w1 h1 w2 h2 dd i =>
    have k1 := rect_contains_rotate ⟨c, w1, h1, dd⟩ p o d hu
    have k2 := rect_contains_rotate ⟨c, w2, h2, dd⟩ p o d hu
    simp only [Rect.rotate] at k1 k2
    simp only [PReg.rotate, PReg.contains, k1, k2]
  | empty k a b i => simp only [PReg.rotate, PReg.contains, emptyInRaw]
  | compound op r1 r2 i ih1 ih2 =>
    simp only [polygonFree, Bool.and_eq_true] at hpf
    simp only [PReg.rotate, PReg.contains, ih1 hpf.1, ih2 hpf.2]

/-- the area is unchanged (sizes are copied; only positions and angles change). -/
theorem area_rotate_partial (r : PReg α) (hpf : polygonFree r = true) (o : Pt α) (d : Dir α) :
    (r.rotate o d).area = r.area := by
  cases r <;> simp_all [PReg.rotate, PReg.area, polygonFree, Circle.rotate, Ellipse.rotate, Rect.rotate]

/-- same class, same include flag, same operator at every node. -/
def sameSkeleton : PReg α → PReg α → Prop
  | .circle _ i, .circle _ j => i = j
  | .ellipse _ i, .ellipse _ j => i = j
  | .rect _ i, .rect _ j => i = j
  | .polygon a i, .polygon b j => i = j ∧ a.vertices.length = b.vertices.length
  | .circleAnnulus _ _ _ i, .circleAnnulus _ _ _ j => i = j
  | .ellipseAnnulus _ _ _ _ _ _ i, .ellipseAnnulus _ _ _ _ _ _ j => i = j
  | .rectAnnulus _ _ _ _ _ _ i, .rectAnnulus _ _ _ _ _ _ j => i = j
  | .empty k _ _ i, .empty l _ _ j => k = l ∧ i = j
  | .compound op a b i, .compound oq c e j => op = oq ∧ i = j ∧ sameSkeleton a c ∧ sameSkeleton b e
  | _, _ => False

theorem rotate_same_class_meta (r : PReg α) (o : Pt α) (d : Dir α) : sameSkeleton (r.rotate o d) r := by
  induction r with
  | compound op r1 r2 i ih1 ih2 => exact ⟨rfl, rfl, ih1, ih2⟩
  | polygon g i => exact ⟨rfl, by simp [Polygon.rotate]⟩
  | empty k a b i => exact ⟨rfl, rfl⟩
  | _ => rfl

/-- rotating back by the opposite angle about the same centre restores every parameter. -/
theorem rotate_back (r : PReg α) (o : Pt α) (d : Dir α) (hu : d.IsUnit) :
    (r.rotate o d).rotate o d.neg = r := by
  induction r with
  | circle c i => cases c; simp only [PReg.rotate, Circle.rotate, rotate_inverse _ _ _ hu]
  | ellipse e i =>
    cases e; simp only [PReg.rotate, Ellipse.rotate, rotate_inverse _ _ _ hu, dir_add_neg _ _ hu]
  | rect c i =>
    cases c; simp only [PReg.rotate, Rect.rotate, rotate_inverse _ _ _ hu, dir_add_neg _ _ hu]
  | polygon g i =>
    cases g with
    | mk vs =>
      simp only [PReg.rotate, Polygon.rotate, List.map_map, PReg.polygon.injEq, Polygon.mk.injEq,
        and_true]
      conv_rhs => rw [← List.map_id vs]
      apply List.map_congr_left
      intro v _
      simp only [Function.comp, id, rotate_inverse _ _ _ hu]
  | circleAnnulus c r1 r2 i => simp only [PReg.rotate, rotate_inverse _ _ _ hu]
  | ellipseAnnulus c w1 h1 w2 h2 dd i =>
    simp only [PReg.rotate, rotate_inverse _ _ _ hu, dir_add_neg _ _ hu]
  | rectAnnulus c w1 h1 w2 h2 dd i =>
    simp only [PReg.rotate, rotate_inverse _ _ _ hu, dir_add_neg _ _ hu]
  | empty k a b i => simp only [PReg.rotate, rotate_inverse _ _ _ hu]
  | compound op r1 r2 i ih1 ih2 => simp only [PReg.rotate, ih1, ih2]

/-! ### translation -/

/-- membership follows a translation — for EVERY class, polygons included. -/
theorem contains_shift (r : PReg α) (p t : Pt α) : (r.shift t).contains (p.shift t) = r.contains p := by
  induction r with
  | circle c i =>
    simp only [PReg.shift, PReg.contains, Circle.inRaw, sep2, Pt.shift, add_sub_add_right_eq_sub]
    rfl
  | ellipse e i =>
    simp only [PReg.shift, PReg.contains, Ellipse.inRaw, Pt.shift, add_sub_add_right_eq_sub]
  | rect c i =>
    simp only [PReg.shift, PReg.contains, Rect.inRaw, Pt.shift, add_sub_add_right_eq_sub]
  | polygon g i =>
    simp only [PReg.shift, PReg.contains, Polygon.inRaw]
    have := C01.pnpoly_translate g.vertices p t
    have e : (fun x : Pt α => x.shift t) = C01.translate t := rfl
    rw [e]
    show withInclude i (pnpoly (List.map (C01.translate t) g.vertices) (C01.translate t p)) = _
    rw [this]
  | circleAnnulus c r1 r2 i =>
    simp only [PReg.shift, PReg.contains, Circle.inRaw, sep2, Pt.shift, add_sub_add_right_eq_sub]
    rfl
  | ellipseAnnulus c w1 h1 w2 h2 dd i =>
    simp only [PReg.shift, PReg.contains, Ellipse.inRaw, Pt.shift, add_sub_add_right_eq_sub]
  | rectAnnulus c w1 h1 w2 h2 dd i =>
    simp only [PReg.shift, PReg.contains, Rect.inRaw, Pt.shift, add_sub_add_right_eq_sub]
  | empty k a b i => simp only [PReg.shift, PReg.contains, emptyInRaw]
  | compound op r1 r2 i ih1 ih2 => simp only [PReg.shift, PReg.contains, ih1, ih2]

end field

-- non-vacuity: an exact rational rotation
example : (⟨5/13, 12/13⟩ : Dir ℚ).IsUnit := by unfold Dir.IsUnit; norm_num
example : (⟨1, 0⟩ : Pt ℚ).rotate ⟨0, 0⟩ ⟨3/5, 4/5⟩ = ⟨3/5, 4/5⟩ := by
  simp only [Pt.rotate, Pt.mk.injEq]; norm_num

end RegionsVerif.Props.C15
