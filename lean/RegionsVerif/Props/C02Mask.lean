/-
C02 (region level): `to_mask` in 'center' / 'subpixels' mode returns a mask whose box is the
region's bounding box and whose cell `(j, i)` is the fraction of the `n × n` regularly spaced
sample centres of pixel `(ixmin + i, iymin + j)` that are members of the shape; `n = 1` is the
pixel centre; the mode table.
-/
import RegionsVerif.Props.C02

namespace RegionsVerif.Props.C02
open RegionsVerif.Impl RegionsVerif.Props

/-- Spec: the sampled membership function of a shape predicate `S` on ABSOLUTE coordinates. -/
def sampledFrac (S : ℚ → ℚ → Bool) (b : BBox) (n j i : Nat) : ℚ :=
  (((List.range n).map fun (a : Nat) =>
      ((List.range n).filter fun (k : Nat) =>
        S ((b.ixmin : ℚ) + i - 1/2 + ((a : ℚ) + 1/2) / n) ((b.iymin : ℚ) + j - 1/2 + ((k : ℚ) + 1/2) / n)).length).sum : ℚ)
    / ((n : ℚ) * n)

theorem sampledFrac_one (S : ℚ → ℚ → Bool) (b : BBox) (j i : Nat) :
    sampledFrac S b 1 j i = if S ((b.ixmin : ℚ) + i) ((b.iymin : ℚ) + j) then 1 else 0 := by
  unfold sampledFrac
  simp only [List.range_one, List.map_cons, List.map_nil, List.sum_cons, List.sum_nil,
    List.filter_cons, List.filter_nil]
  have e1 : (b.ixmin : ℚ) + i - 1/2 + (((0 : Nat) : ℚ) + 1/2) / ((1 : Nat) : ℚ) = (b.ixmin : ℚ) + i := by
    push_cast; ring
  have e2 : (b.iymin : ℚ) + j - 1/2 + (((0 : Nat) : ℚ) + 1/2) / ((1 : Nat) : ℚ) = (b.iymin : ℚ) + j := by
    push_cast; ring
  rw [e1, e2]
  by_cases hp : S ((b.ixmin : ℚ) + i) ((b.iymin : ℚ) + j) = true <;> simp [hp]

/-- values are `k / n²` with `0 ≤ k ≤ n²`: in particular within `[0, 1]`, and `{0, 1}` for `n = 1`. -/
theorem sampledFrac_range (S : ℚ → ℚ → Bool) (b : BBox) (n j i : Nat) (hn : 0 < n) :
    0 ≤ sampledFrac S b n j i ∧ sampledFrac S b n j i ≤ 1 := by
  unfold sampledFrac
  have hnq : (0 : ℚ) < (n : ℚ) * n := by positivity
  have hle : ∀ (l : List Nat) (g : Nat → Nat), (∀ a, g a ≤ n) → (l.map g).sum ≤ l.length * n := by
    intro l g hg
    induction l with
    | nil => simp
    | cons a t ih => simp only [List.map_cons, List.sum_cons, List.length_cons]; have := hg a; nlinarith
  have hcount := hle (List.range n) (fun (a : Nat) =>
      ((List.range n).filter fun (k : Nat) =>
        S ((b.ixmin : ℚ) + i - 1/2 + ((a : ℚ) + 1/2) / n) ((b.iymin : ℚ) + j - 1/2 + ((k : ℚ) + 1/2) / n)).length)
    (fun a => by
      have := List.length_filter_le (fun (k : Nat) =>
        S ((b.ixmin : ℚ) + i - 1/2 + ((a : ℚ) + 1/2) / n) ((b.iymin : ℚ) + j - 1/2 + ((k : ℚ) + 1/2) / n)) (List.range n)
      simpa using this)
  simp only [List.length_range] at hcount
  constructor
  · apply div_nonneg (Nat.cast_nonneg _) hnq.le
  · rw [div_le_one hnq]
    exact_mod_cast hcount

theorem toNat_cast (a b : Int) (h : a < b) : ((b - a).toNat : ℚ) = (b : ℚ) - a := by
  have : ((b - a).toNat : Int) = b - a := Int.toNat_of_nonneg (by omega)
  have h2 : (((b - a).toNat : Int) : ℚ) = ((b - a : Int) : ℚ) := by rw [this]
  push_cast at h2; exact h2

theorem dx_one (a b : Int) (c : ℚ) (h : a < b) :
    ((b : ℚ) - 1/2 - c - ((a : ℚ) - 1/2 - c)) / ((b - a).toNat : ℚ) = 1 := by
  rw [toNat_cast a b h]
  have hne : (b : ℚ) - a ≠ 0 := by
    have : (a : ℚ) < b := by exact_mod_cast h
    intro h0; linarith
  have e : (b : ℚ) - 1/2 - c - ((a : ℚ) - 1/2 - c) = (b : ℚ) - a := by ring
  rw [e]; exact div_self hne

/-- pixel size is `1` in both grids (non-empty box). -/
theorem relGrid_dx (b : BBox) (c : Pt ℚ) (h : b.ixmin < b.ixmax) : (relGrid b c).dx = 1 := by
  simp only [Grid.dx, relGrid, BBox.shape]; exact dx_one b.ixmin b.ixmax c.x h

theorem relGrid_dy (b : BBox) (c : Pt ℚ) (h : b.iymin < b.iymax) : (relGrid b c).dy = 1 := by
  simp only [Grid.dy, relGrid, BBox.shape]; exact dx_one b.iymin b.iymax c.y h

theorem absGrid_eq (b : BBox) : absGrid b = relGrid b ⟨0, 0⟩ := by
  simp only [absGrid, relGrid, sub_zero]

/-- a grid over the box relative to a centre `c`: cell `(j, i)` (inside the box) samples pixel
`(ixmin + i, iymin + j)`, i.e. equals `sampledFrac` of the test shifted back to absolute
coordinates. -/
theorem relGrid_cell (P : ℚ → ℚ → Bool) (b : BBox) (c : Pt ℚ) (n j i : Nat)
    (hi : (i : Int) < b.shape.2) (hj : (j : Int) < b.shape.1) :
    (relGrid b c).cell P n j i = sampledFrac (fun x y => P (x - c.x) (y - c.y)) b n j i := by
  simp only [BBox.shape] at hi hj
  have hdx := dx_one b.ixmin b.ixmax c.x (by omega)
  have hdy := dx_one b.iymin b.iymax c.y (by omega)
  unfold Grid.cell gridCell sampledFrac subpixelFrac relGrid
  simp only [BBox.shape, hdx, hdy]
  rw [subpixelCount_spec]
  have : ((List.range n).map fun (a : Nat) =>
      ((List.range n).filter fun (k : Nat) =>
        P (samplePos ((b.ixmin : ℚ) - 1/2 - c.x + i * 1) ((b.ixmin : ℚ) - 1/2 - c.x + i * 1 + 1) n a)
          (samplePos ((b.iymin : ℚ) - 1/2 - c.y + j * 1) ((b.iymin : ℚ) - 1/2 - c.y + j * 1 + 1) n k)).length) =
      ((List.range n).map fun (a : Nat) =>
      ((List.range n).filter fun (k : Nat) =>
        P ((b.ixmin : ℚ) + i - 1/2 + ((a : ℚ) + 1/2) / n - c.x) ((b.iymin : ℚ) + j - 1/2 + ((k : ℚ) + 1/2) / n - c.y)).length) := by
    apply List.map_congr_left
    intro a _
    congr 1
    apply List.filter_congr
    intro k _
    unfold samplePos
    congr 1 <;> ring
  rw [this]

/-- with a harmless skip box the skipping grid equals the plain one. -/
theorem relGrid_cellSkip (P : ℚ → ℚ → Bool) (b : BBox) (c : Pt ℚ) (bx0 bx1 by0 by1 : ℚ) (n j i : Nat)
    (hx : b.ixmin < b.ixmax) (hy : b.iymin < b.iymax)
    (hout : ∀ x y, (x < bx0 ∨ bx1 < x ∨ y < by0 ∨ by1 < y) → P x y = false) :
    (relGrid b c).cellSkip P bx0 bx1 by0 by1 n j i = (relGrid b c).cell P n j i := by
  unfold Grid.cellSkip Grid.cell
  have h1 := relGrid_dx b c hx
  have h2 := relGrid_dy b c hy
  unfold Grid.dx at h1
  unfold Grid.dy at h2
  exact gridCellSkip_eq P bx0 bx1 by0 by1 _ _ _ _ _ _ n j i (by rw [h1]; norm_num) (by rw [h2]; norm_num) hout

theorem sampledFrac_congr (S T : ℚ → ℚ → Bool) (h : ∀ x y, S x y = T x y) (b : BBox) (n j i : Nat) :
    sampledFrac S b n j i = sampledFrac T b n j i := by
  have : S = T := by funext x y; exact h x y
  rw [this]

/-! ### leaves -/

theorem bind_ok {ε β γ : Type} (x : Except ε β) (f : β → Except ε γ) (c : γ) (h : (x >>= f) = .ok c) :
    ∃ b, x = .ok b ∧ f b = .ok c := by
  cases x with
  | error e => simp [bind, Except.bind] at h
  | ok b => exact ⟨b, rfl, h⟩

theorem mapError_ok {ε ε' β : Type} (f : ε → ε') (x : Except ε β) (b : β)
    (h : x.mapError f = .ok b) : x = .ok b := by
  cases x with
  | error e => simp [Except.mapError] at h
  | ok b' => simp [Except.mapError] at h; rw [h]

/-- the non-empty-box facts the cell index hypotheses give. -/
theorem box_nonempty (b : BBox) (j i : Nat) (hi : (i : Int) < b.shape.2) (hj : (j : Int) < b.shape.1) :
    b.ixmin < b.ixmax ∧ b.iymin < b.iymax := by
  simp only [BBox.shape] at hi hj; omega

/-- circle: box = `bounding_box`; in 'center' / 'subpixels' mode every cell is the sampled
membership of the open disk (the bounding-box skip of the kernel loses nothing). -/
theorem circle_mask_spec (c : Circle ℚ) (hr : 0 < c.radius) (mode : MaskMode) (n : Nat)
    (hmode : subpixOf mode = some n) (m : GenMask) (h : circleToMask c mode = .ok m) :
    bboxOfExtent c.extent = .ok m.bbox ∧
    ∀ j i : Nat, (i : Int) < m.bbox.shape.2 → (j : Int) < m.bbox.shape.1 →
      m.cell j i = sampledFrac (fun x y => c.inRaw ⟨x, y⟩) m.bbox n j i := by
  unfold circleToMask at h
  obtain ⟨_, _, h⟩ := bind_ok _ _ _ h
  obtain ⟨b, hb, h⟩ := bind_ok _ _ _ h
  rw [hmode] at h
  simp only [pure, Except.pure, Except.ok.injEq] at h
  subst h
  refine ⟨mapError_ok _ _ _ hb, ?_⟩
  intro j i hi hj
  have hi' : (i : Int) < b.shape.2 := hi
  have hj' : (j : Int) < b.shape.1 := hj
  obtain ⟨hx, hy⟩ := box_nonempty b j i hi' hj'
  show (relGrid b c.center).cellSkip (circleK c.radius) _ _ _ _ n j i = _
  rw [relGrid_cellSkip _ _ _ _ _ _ _ _ _ _ hx hy
      (fun x y hxy => circle_skip_sound c.radius hr.le _ _
        (by rw [relGrid_dx b c.center hx]; norm_num) (by rw [relGrid_dy b c.center hy]; norm_num) x y hxy),
      relGrid_cell _ _ _ _ _ _ hi' hj']
  exact sampledFrac_congr _ _ (fun x y => circleK_eq c.center c.radius ⟨x, y⟩) b n j i

/-- rectangle: every cell is the sampled membership of the open rectangle. -/
theorem rect_mask_spec (c : Rect ℚ) (mode : MaskMode) (n : Nat)
    (hmode : subpixOf mode = some n) (m : GenMask) (h : rectToMask c mode = .ok m) :
    bboxOfExtent c.extent = .ok m.bbox ∧
    ∀ j i : Nat, (i : Int) < m.bbox.shape.2 → (j : Int) < m.bbox.shape.1 →
      m.cell j i = sampledFrac (fun x y => c.inRaw ⟨x, y⟩) m.bbox n j i := by
  unfold rectToMask at h
  obtain ⟨_, _, h⟩ := bind_ok _ _ _ h
  obtain ⟨b, hb, h⟩ := bind_ok _ _ _ h
  rw [hmode] at h
  simp only [pure, Except.pure, Except.ok.injEq] at h
  subst h
  refine ⟨mapError_ok _ _ _ hb, ?_⟩
  intro j i hi hj
  have hi' : (i : Int) < b.shape.2 := hi
  have hj' : (j : Int) < b.shape.1 := hj
  show (relGrid b c.center).cell (rectK c.width c.height c.dir) n j i = _
  rw [relGrid_cell _ _ _ _ _ _ hi' hj']
  exact sampledFrac_congr _ _ (fun x y => rectK_eq c.center c.width c.height c.dir ⟨x, y⟩) b n j i

/-- the open ellipse the kernel samples (`contains` uses the closed one; they differ only on
the boundary curve). -/
def Ellipse.inStrict (r : Ellipse ℚ) (p : Pt ℚ) : Bool :=
  decide ((2 * (r.dir.c * (p.x - r.center.x) + r.dir.s * (p.y - r.center.y)) / r.width) ^ 2
          + (2 * (r.dir.s * (p.x - r.center.x) - r.dir.c * (p.y - r.center.y)) / r.height) ^ 2 < 1)

theorem ellipse_inStrict_imp_inRaw (r : Ellipse ℚ) (p : Pt ℚ) (h : Ellipse.inStrict r p = true) :
    r.inRaw p = true := by
  simp only [Ellipse.inStrict, decide_eq_true_eq] at h
  simp only [Ellipse.inRaw, decide_eq_true_eq]
  exact le_of_lt h

/-- ellipse: every cell is the sampled membership of the open ellipse. -/
theorem ellipse_mask_spec (e : Ellipse ℚ) (hw : 0 < e.width) (hh : 0 < e.height) (hu : e.dir.IsUnit)
    (mode : MaskMode) (n : Nat) (hmode : subpixOf mode = some n) (m : GenMask)
    (h : ellipseToMask e mode = .ok m) :
    e.bboxQ = .ok m.bbox ∧
    ∀ j i : Nat, (i : Int) < m.bbox.shape.2 → (j : Int) < m.bbox.shape.1 →
      m.cell j i = sampledFrac (fun x y => Ellipse.inStrict e ⟨x, y⟩) m.bbox n j i := by
  unfold ellipseToMask at h
  obtain ⟨_, _, h⟩ := bind_ok _ _ _ h
  obtain ⟨b, hb, h⟩ := bind_ok _ _ _ h
  rw [hmode] at h
  simp only [pure, Except.pure, Except.ok.injEq] at h
  subst h
  refine ⟨mapError_ok _ _ _ hb, ?_⟩
  intro j i hi hj
  have hi' : (i : Int) < b.shape.2 := hi
  have hj' : (j : Int) < b.shape.1 := hj
  obtain ⟨hx, hy⟩ := box_nonempty b j i hi' hj'
  show (relGrid b e.center).cellSkip (ellipseK (1/2 * e.width) (1/2 * e.height) e.dir) _ _ _ _ n j i = _
  rw [relGrid_cellSkip _ _ _ _ _ _ _ _ _ _ hx hy
      (fun x y hxy => ellipse_skip_sound _ _ (by positivity) (by positivity) e.dir hu _ _
        (by rw [relGrid_dx b e.center hx]; norm_num) (by rw [relGrid_dy b e.center hy]; norm_num) x y hxy),
      relGrid_cell _ _ _ _ _ _ hi' hj']
  apply sampledFrac_congr
  intro x y
  rw [Bool.eq_iff_iff, ellipseK_iff e.center e.width e.height hw hh e.dir ⟨x, y⟩]
  simp only [Ellipse.inStrict, decide_eq_true_eq]

/-- polygon: every cell is the sampled even-odd membership. -/
theorem polygon_mask_spec (g : Polygon ℚ) (mode : MaskMode) (n : Nat)
    (hmode : subpixOf mode = some n) (m : GenMask) (h : polygonToMask g mode = .ok m) :
    (∃ e, g.extent = some e ∧ bboxOfExtent e = .ok m.bbox) ∧
    ∀ j i : Nat, (i : Int) < m.bbox.shape.2 → (j : Int) < m.bbox.shape.1 →
      m.cell j i = sampledFrac (fun x y => g.inRaw ⟨x, y⟩) m.bbox n j i := by
  unfold polygonToMask at h
  obtain ⟨_, _, h⟩ := bind_ok _ _ _ h
  cases he : g.extent with
  | none => rw [he] at h; simp at h
  | some e =>
    rw [he] at h
    simp only at h
    obtain ⟨b, hb, h⟩ := bind_ok _ _ _ h
    rw [hmode] at h
    simp only [pure, Except.pure, Except.ok.injEq] at h
    subst h
    refine ⟨⟨e, rfl, mapError_ok _ _ _ hb⟩, ?_⟩
    intro j i hi hj
    have hi' : (i : Int) < b.shape.2 := hi
    have hj' : (j : Int) < b.shape.1 := hj
    obtain ⟨hx, hy⟩ := box_nonempty b j i hi' hj'
    show (absGrid b).cellSkip (polyK g.vertices) e.1 e.2.1 e.2.2.1 e.2.2.2 n j i = _
    rw [absGrid_eq, relGrid_cellSkip _ _ _ _ _ _ _ _ _ _ hx hy
        (fun x y hxy => polygon_skip_sound g e he x y hxy), relGrid_cell _ _ _ _ _ _ hi' hj']
    apply sampledFrac_congr
    intro x y
    simp only [sub_zero, polyK, Polygon.inRaw]

/-! ### 'center' is `subpixels = 1`, and samples the pixel centre -/

theorem center_is_subpixels_one : subpixOf .center = some 1 ∧ subpixOf (.subpixels 1 true) = some 1 := by
  constructor <;> rfl

/-- hence a centre-mode mask holds only 0 and 1, and cell `(j, i)` is 1 exactly when the pixel
centre `(ixmin + i, iymin + j)` is a member. -/
theorem circle_center_mask (c : Circle ℚ) (hr : 0 < c.radius) (m : GenMask)
    (h : circleToMask c .center = .ok m) (j i : Nat)
    (hi : (i : Int) < m.bbox.shape.2) (hj : (j : Int) < m.bbox.shape.1) :
    m.cell j i = if c.inRaw ⟨(m.bbox.ixmin : ℚ) + i, (m.bbox.iymin : ℚ) + j⟩ then 1 else 0 := by
  rw [(circle_mask_spec c hr .center 1 rfl m h).2 j i hi hj, sampledFrac_one]

theorem rect_center_mask (c : Rect ℚ) (m : GenMask)
    (h : rectToMask c .center = .ok m) (j i : Nat)
    (hi : (i : Int) < m.bbox.shape.2) (hj : (j : Int) < m.bbox.shape.1) :
    m.cell j i = if c.inRaw ⟨(m.bbox.ixmin : ℚ) + i, (m.bbox.iymin : ℚ) + j⟩ then 1 else 0 := by
  rw [(rect_mask_spec c .center 1 rfl m h).2 j i hi hj, sampledFrac_one]

theorem ellipse_center_mask (e : Ellipse ℚ) (hw : 0 < e.width) (hh : 0 < e.height) (hu : e.dir.IsUnit)
    (m : GenMask) (h : ellipseToMask e .center = .ok m) (j i : Nat)
    (hi : (i : Int) < m.bbox.shape.2) (hj : (j : Int) < m.bbox.shape.1) :
    m.cell j i = if Ellipse.inStrict e ⟨(m.bbox.ixmin : ℚ) + i, (m.bbox.iymin : ℚ) + j⟩ then 1 else 0 := by
  rw [(ellipse_mask_spec e hw hh hu .center 1 rfl m h).2 j i hi hj, sampledFrac_one]

theorem polygon_center_mask (g : Polygon ℚ) (m : GenMask)
    (h : polygonToMask g .center = .ok m) (j i : Nat)
    (hi : (i : Int) < m.bbox.shape.2) (hj : (j : Int) < m.bbox.shape.1) :
    m.cell j i = if g.inRaw ⟨(m.bbox.ixmin : ℚ) + i, (m.bbox.iymin : ℚ) + j⟩ then 1 else 0 := by
  rw [(polygon_mask_spec g .center 1 rfl m h).2 j i hi hj, sampledFrac_one]

/-! ### mode table -/

/-- invalid mode strings and invalid sub-pixel counts are `ValueError` for the simple shapes. -/
theorem validateMode_table (mode : MaskMode) :
    validateMode mode = (match mode with
      | .other => .error .valueError
      | .subpixels n isInt => if isInt = false ∨ n ≤ 0 then .error .valueError else .ok ()
      | _ => .ok ()) := by
  cases mode <;> simp [validateMode]

/-- points, lines and text never produce a mask; annuli and compounds only in 'center' mode. -/
theorem empty_no_mask (k : EmptyKind) (a b : Pt ℚ) (i : Include) (mode : MaskMode) :
    (PReg.empty k a b i).toMask mode = .error .notImplemented := rfl

theorem compound_only_center (op : BoolOp) (r1 r2 : PReg ℚ) (i : Include) (mode : MaskMode)
    (h : mode ≠ .center) : (PReg.compound op r1 r2 i).toMask mode = .error .notImplemented := by
  cases mode <;> simp_all [PReg.toMask]

theorem annulus_only_center (c : Pt ℚ) (r1 r2 : ℚ) (i : Include) (mode : MaskMode) (h : mode ≠ .center) :
    (PReg.circleAnnulus c r1 r2 i).toMask mode = .error .notImplemented := by
  cases mode <;> simp_all [PReg.toMask, annulusToMask]

end RegionsVerif.Props.C02
