/-
C03 — the CONVERGENCE clause: 'subpixels' masks converge to the true overlap fraction, with an
explicit `O(1/n)` bound.

What the mask cell is, is already a theorem: `C02.circle_mask_spec` / `C02.ellipse_mask_spec` (the
cell of the region-level model, over ℚ, IS `C02.sampledFrac` of the strict membership test at the
`n × n` sample centres of the pixel).  Here, over ℝ:

* `circle_subpixel_error_two`   `|sampledFrac (circle) − area(pixel ∩ open disk)| ≤ 2 / n`
                                (area = `C03.rectArea`, the quantity the 'exact' kernel is proved to
                                compute in `Props/C03Area`); `circle_subpixel_error` is the same with
                                the constant `3` first asked for; `circle_mask_converges` states it
                                for the mask cell itself;
* `ellipse_subpixel_error`      the same for `Ellipse ℚ` (any axes, any unit direction), area
                                `ellipsePixelArea`, which `ellipsePixelArea_eq_volume` shows to be the
                                Lebesgue measure of (pixel ∩ open ellipse); `ellipse_mask_converges`;
* `sampled_error_abstract`      the general statement: vertical slices are open intervals
                                `(lo x, hi x)`, the slice length against the pixel is `g + h` with `g`
                                non-decreasing and `h` non-increasing ⇒ error `≤ 1/n + (Var g + Var h)/(2n)`;
  `sampled_error_unimodal`, `sampled_error_quasiconcave`
                                ⇒ `2 / n` for unimodal, resp. continuous quasi-concave slice lengths
                                with values in `[0, 1]` — every convex shape (slice length of a convex
                                set against a pixel is concave on its support).

Proof: (1) per column of samples the points inside an interval are counted by two threshold counts
(`cnt_threshold`, `frac_below`), each within `1/(2n)` of the clamped threshold ⇒ `col_count`: `≤ 1/n`;
(2) across columns the midpoint rule for a monotone function has error `≤ Var/(2n)` (`midpoint_mono`,
two half-cell bounds and a telescoping sum); a unimodal `L` with values in `[0,1]` is
`L(min x x*) + (L(max x x*) − L(x*))`, total variation `≤ 2` ⇒ `≤ 1/n`.  Total `2/n`.
The constant of the harness (`4 L/n + 4 m/n²`, `L` = boundary length in the pixel) is not what is
proved: the theorem's constant is absolute (2) and does not use the boundary length.
-/
import RegionsVerif.Props.C02Mask
import RegionsVerif.Props.C03Area
import Mathlib.MeasureTheory.Integral.IntervalIntegral.Basic
import Mathlib.MeasureTheory.Measure.Lebesgue.Integral

namespace RegionsVerif.Props.C03
open RegionsVerif.Impl RegionsVerif.Props RegionsVerif.Props.C02

/-! ### the sampled fraction as a double sum of indicators over ℝ -/

theorem list_range_map_sum (n : Nat) (f : Nat → ℝ) :
    ((List.range n).map f).sum = ∑ a ∈ Finset.range n, f a := by
  induction n with
  | zero => simp
  | succ n ih => rw [List.range_succ, List.map_append, List.sum_append, ih, Finset.sum_range_succ]; simp

theorem filter_length_cast (l : List Nat) (p : Nat → Bool) :
    (((l.filter p).length : Nat) : ℝ) = (l.map fun k => if p k then (1 : ℝ) else 0).sum := by
  induction l with
  | nil => simp
  | cons a t ih =>
    by_cases h : p a = true
    · simp only [List.filter_cons, h, if_true, List.length_cons, List.map_cons, List.sum_cons]
      push_cast; rw [ih]; ring
    · have h' : p a = false := by simpa using h
      simp only [List.filter_cons, h', List.map_cons, List.sum_cons]
      rw [← ih]; simp

/-- the sampled fraction (over ℚ) cast to ℝ is the normalised double sum of indicators. -/
theorem sampledFrac_cast (S : ℚ → ℚ → Bool) (b : BBox) (n j i : Nat) :
    ((sampledFrac S b n j i : ℚ) : ℝ) =
      (∑ a ∈ Finset.range n, ∑ k ∈ Finset.range n,
        if S ((b.ixmin : ℚ) + i - 1/2 + ((a : ℚ) + 1/2) / n) ((b.iymin : ℚ) + j - 1/2 + ((k : ℚ) + 1/2) / n)
        then (1 : ℝ) else 0) / ((n : ℝ) * n) := by
  unfold sampledFrac
  rw [Rat.cast_div, Rat.cast_mul, Rat.cast_natCast, Rat.cast_natCast]
  congr 1
  rw [Nat.cast_list_sum, List.map_map, list_range_map_sum]
  apply Finset.sum_congr rfl
  intro a _
  simp only [Function.comp]
  rw [filter_length_cast, list_range_map_sum]

/-! ### counting sample points below a threshold -/

/-- a downward-closed predicate on `{0, …, n-1}` holds exactly on an initial segment. -/
theorem cnt_threshold (n : Nat) (p : Nat → Prop) [DecidablePred p] (hmono : ∀ k, p (k + 1) → p k) :
    ∃ m : Nat, m ≤ n ∧ (∑ k ∈ Finset.range n, if p k then (1 : ℝ) else 0) = m ∧ ∀ k, k < n → (p k ↔ k < m) := by
  have hdown : ∀ k l, l ≤ k → p k → p l := by
    intro k l hlk hk
    induction k with
    | zero => have : l = 0 := by omega
              rw [this]; exact hk
    | succ k ih =>
      rcases Nat.lt_or_ge l (k + 1) with h | h
      · exact ih (by omega) (hmono k hk)
      · have : l = k + 1 := by omega
        rw [this]; exact hk
  induction n with
  | zero => exact ⟨0, le_rfl, by simp, by intro k hk; omega⟩
  | succ n ih =>
    obtain ⟨m, hm, hs, hiff⟩ := ih
    by_cases hp : p n
    · have hmn : m = n := by
        by_contra hne
        have hlt : m < n := by omega
        have := (hiff m hlt).mp (hdown n m hlt.le hp)
        omega
      refine ⟨n + 1, le_rfl, ?_, ?_⟩
      · rw [Finset.sum_range_succ, hs, if_pos hp, hmn]; push_cast; ring
      · intro k hk
        constructor
        · intro _; exact hk
        · intro _; exact hdown n k (by omega) hp
    · refine ⟨m, by omega, ?_, ?_⟩
      · rw [Finset.sum_range_succ, hs, if_neg hp]; ring
      · intro k hk
        rcases Nat.lt_or_ge k n with h | h
        · exact hiff k h
        · have : k = n := by omega
          rw [this]
          constructor
          · intro h'; exact absurd h' hp
          · intro h'; omega

/-- `t` clamped to `[0, 1]`. -/
noncomputable def clamp01 (t : ℝ) : ℝ := max 0 (min 1 t)

/-- the fraction of the `n` cell midpoints `(k + 1/2)/n` below a threshold `τ` (strictly, or not
strictly, or anything in between: `p` only has to be sandwiched) is within `1/(2n)` of `τ` clamped. -/
theorem frac_below (n : Nat) (hn : 0 < n) (τ : ℝ) (p : Nat → Prop) [DecidablePred p]
    (h1 : ∀ k : Nat, ((k : ℝ) + 1/2) / n < τ → p k) (h2 : ∀ k : Nat, p k → ((k : ℝ) + 1/2) / n ≤ τ) :
    |(∑ k ∈ Finset.range n, if p k then (1 : ℝ) else 0) / n - clamp01 τ| ≤ 1 / (2 * n) := by
  have hn' : (0 : ℝ) < n := by exact_mod_cast hn
  have hmono : ∀ k, p (k + 1) → p k := by
    intro k hk
    apply h1
    have := h2 (k + 1) hk
    push_cast at this
    have e : ((k : ℝ) + 1 / 2) / n < ((k : ℝ) + 1 + 1 / 2) / n := by
      apply div_lt_div_of_pos_right _ hn'; linarith
    linarith
  obtain ⟨m, hm, hs, hiff⟩ := cnt_threshold n p hmono
  rw [hs]
  have hmn : (m : ℝ) ≤ n := by exact_mod_cast hm
  have e2 : (1 : ℝ) / (2 * n) = (1 / 2) / n := by field_simp
  rw [e2, abs_le]
  unfold clamp01
  constructor
  · -- clamp ≤ m/n + 1/(2n)
    rcases Nat.lt_or_ge m n with hlt | hge
    · have hnp : ¬ p m := fun h => by have := (hiff m hlt).mp h; omega
      have hτ : τ ≤ ((m : ℝ) + 1 / 2) / n := by
        by_contra hc; push Not at hc; exact hnp (h1 m hc)
      have h0 : 0 ≤ ((m : ℝ) + 1 / 2) / n := by positivity
      have : max 0 (min 1 τ) ≤ ((m : ℝ) + 1 / 2) / n :=
        max_le h0 (le_trans (min_le_right _ _) hτ)
      have e3 : ((m : ℝ) + 1 / 2) / n = (m : ℝ) / n + (1 / 2) / n := by ring
      linarith
    · have hmeq : (m : ℝ) = n := by
        have : m = n := by omega
        exact_mod_cast this
      have : max 0 (min 1 τ) ≤ 1 := max_le zero_le_one (min_le_left _ _)
      have e4 : (m : ℝ) / n = 1 := by rw [hmeq]; exact div_self hn'.ne'
      have : 0 ≤ (1 / 2 : ℝ) / n := by positivity
      linarith
  · -- m/n ≤ clamp + 1/(2n)
    rcases Nat.eq_zero_or_pos m with h0 | hpos
    · rw [h0]
      have : 0 ≤ max 0 (min 1 τ) := le_max_left _ _
      have : 0 ≤ (1 / 2 : ℝ) / n := by positivity
      simp only [Nat.cast_zero, zero_div]; linarith
    · have hp : p (m - 1) := (hiff (m - 1) (by omega)).mpr (by omega)
      have hτ := h2 (m - 1) hp
      have hc : ((m - 1 : Nat) : ℝ) = (m : ℝ) - 1 := by
        rw [Nat.cast_sub hpos]; simp
      rw [hc] at hτ
      have e5 : ((m : ℝ) - 1 + 1 / 2) / n = (m : ℝ) / n - (1 / 2) / n := by ring
      rw [e5] at hτ
      have h1' : (m : ℝ) / n - (1 / 2) / n ≤ 1 := by
        have : (m : ℝ) / n ≤ 1 := by rw [div_le_one hn']; exact hmn
        have : 0 ≤ (1 / 2 : ℝ) / n := by positivity
        linarith
      have : (m : ℝ) / n - (1 / 2) / n ≤ max 0 (min 1 τ) :=
        le_trans (le_min h1' hτ) (le_max_right _ _)
      linarith

theorem clamp01_mono {s t : ℝ} (h : s ≤ t) : clamp01 s ≤ clamp01 t :=
  max_le_max le_rfl (min_le_min le_rfl h)

theorem clamp01_nonneg (t : ℝ) : 0 ≤ clamp01 t := le_max_left _ _
theorem clamp01_le_one (t : ℝ) : clamp01 t ≤ 1 := max_le zero_le_one (min_le_left _ _)

/-- **one column of samples**: the fraction of the `n` cell midpoints strictly between `α` and `β`
is within `1/n` of the length of `(α, β) ∩ [0, 1]`. -/
theorem col_count (n : Nat) (hn : 0 < n) (α β : ℝ) :
    |(∑ k ∈ Finset.range n, if α < ((k : ℝ) + 1/2) / n ∧ ((k : ℝ) + 1/2) / n < β then (1 : ℝ) else 0) / n
        - max 0 (clamp01 β - clamp01 α)| ≤ 1 / n := by
  have hn' : (0 : ℝ) < n := by exact_mod_cast hn
  rcases le_or_gt β α with hle | hlt
  · have hz : (∑ k ∈ Finset.range n, if α < ((k : ℝ) + 1/2) / n ∧ ((k : ℝ) + 1/2) / n < β then (1 : ℝ) else 0) = 0 := by
      apply Finset.sum_eq_zero
      intro k _
      rw [if_neg]
      rintro ⟨h1, h2⟩; linarith
    have hm : max 0 (clamp01 β - clamp01 α) = 0 := max_eq_left (by linarith [clamp01_mono hle])
    rw [hz, hm]; simp
  · have hsplit : (∑ k ∈ Finset.range n, if α < ((k : ℝ) + 1/2) / n ∧ ((k : ℝ) + 1/2) / n < β then (1 : ℝ) else 0) =
        (∑ k ∈ Finset.range n, if ((k : ℝ) + 1/2) / n < β then (1 : ℝ) else 0) -
        (∑ k ∈ Finset.range n, if ((k : ℝ) + 1/2) / n ≤ α then (1 : ℝ) else 0) := by
      rw [← Finset.sum_sub_distrib]
      apply Finset.sum_congr rfl
      intro k _
      by_cases c1 : ((k : ℝ) + 1/2) / n ≤ α
      · have c2 : ((k : ℝ) + 1/2) / n < β := lt_of_le_of_lt c1 hlt
        rw [if_neg (by rintro ⟨h, -⟩; linarith), if_pos c2, if_pos c1]; ring
      · by_cases c2 : ((k : ℝ) + 1/2) / n < β
        · rw [if_pos ⟨not_le.mp c1, c2⟩, if_pos c2, if_neg c1]; ring
        · rw [if_neg (by rintro ⟨-, h⟩; exact c2 h), if_neg c2, if_neg c1]; ring
    have b1 := frac_below n hn β (fun k => ((k : ℝ) + 1/2) / n < β) (fun k h => h) (fun k h => le_of_lt h)
    have b2 := frac_below n hn α (fun k => ((k : ℝ) + 1/2) / n ≤ α) (fun k h => le_of_lt h) (fun k h => h)
    have hm : max 0 (clamp01 β - clamp01 α) = clamp01 β - clamp01 α :=
      max_eq_right (by linarith [clamp01_mono hlt.le])
    rw [hsplit, hm, sub_div]
    rw [abs_le] at b1 b2 ⊢
    have e : (1 : ℝ) / n = 1 / (2 * n) + 1 / (2 * n) := by field_simp; ring
    constructor <;> linarith [b1.1, b1.2, b2.1, b2.2]

/-! ### the midpoint rule for a monotone function on a unit interval -/

open MeasureTheory in
/-- midpoint rule, `n` equal cells of `[A, A+1]`, `g` non-decreasing:
`|Σ g(mid)/n − ∫ g| ≤ (g(A+1) − g(A)) / (2n)`. -/
theorem midpoint_mono (g : ℝ → ℝ) (A : ℝ) (n : Nat) (hn : 0 < n) (hg : MonotoneOn g (Set.Icc A (A + 1))) :
    |(∑ a ∈ Finset.range n, g (A + ((a : ℝ) + 1/2) / n)) / n - ∫ x in A..(A + 1), g x| ≤
      (g (A + 1) - g A) / (2 * n) := by
  have hn' : (0 : ℝ) < n := by exact_mod_cast hn
  set e : Nat → ℝ := fun a => A + (a : ℝ) / n with he
  have e0 : e 0 = A := by simp [he]
  have en : e n = A + 1 := by simp only [he]; rw [div_self hn'.ne']
  have emem : ∀ a : Nat, a ≤ n → e a ∈ Set.Icc A (A + 1) := by
    intro a ha
    have h1 : (0 : ℝ) ≤ (a : ℝ) / n := by positivity
    have h2 : (a : ℝ) / n ≤ 1 := by rw [div_le_one hn']; exact_mod_cast ha
    simp only [he, Set.mem_Icc]; constructor <;> linarith
  have mmem : ∀ a : Nat, a < n → A + ((a : ℝ) + 1/2) / n ∈ Set.Icc A (A + 1) := by
    intro a ha
    have h1 : (0 : ℝ) ≤ ((a : ℝ) + 1/2) / n := by positivity
    have h2 : ((a : ℝ) + 1/2) / n ≤ 1 := by
      rw [div_le_one hn']
      have : (a : ℝ) + 1 ≤ n := by exact_mod_cast ha
      linarith
    simp only [Set.mem_Icc]; constructor <;> linarith
  have elm : ∀ a : Nat, e a ≤ A + ((a : ℝ) + 1/2) / n := by
    intro a; simp only [he]
    have : (a : ℝ) / n ≤ ((a : ℝ) + 1/2) / n := div_le_div_of_nonneg_right (by linarith) hn'.le
    linarith
  have mle : ∀ a : Nat, A + ((a : ℝ) + 1/2) / n ≤ e (a + 1) := by
    intro a; simp only [he]; push_cast
    have : ((a : ℝ) + 1/2) / n ≤ ((a : ℝ) + 1) / n := div_le_div_of_nonneg_right (by linarith) hn'.le
    linarith
  have hint : ∀ u v : ℝ, u ∈ Set.Icc A (A + 1) → v ∈ Set.Icc A (A + 1) → u ≤ v →
      IntervalIntegrable g volume u v := by
    intro u v hu hv huv
    apply MonotoneOn.intervalIntegrable
    rw [Set.uIcc_of_le huv]
    exact hg.mono (Set.Icc_subset_Icc hu.1 hv.2)
  -- the integral as a sum over the cells
  have hsum : ∫ x in A..(A + 1), g x = ∑ a ∈ Finset.range n, ∫ x in (e a)..(e (a + 1)), g x := by
    rw [intervalIntegral.sum_integral_adjacent_intervals, e0, en]
    intro a ha
    exact hint _ _ (emem a ha.le) (emem (a + 1) ha) (le_trans (elm a) (mle a))
  -- per-cell two-sided bound
  have hcell : ∀ a : Nat, a < n →
      (g (e a) - g (A + ((a : ℝ) + 1/2) / n)) / (2 * n) ≤
        (∫ x in (e a)..(e (a + 1)), g x) - g (A + ((a : ℝ) + 1/2) / n) / n ∧
      (∫ x in (e a)..(e (a + 1)), g x) - g (A + ((a : ℝ) + 1/2) / n) / n ≤
        (g (e (a + 1)) - g (A + ((a : ℝ) + 1/2) / n)) / (2 * n) := by
    intro a ha
    set m := A + ((a : ℝ) + 1/2) / n with hm
    have hmI := mmem a ha
    have heI := emem a ha.le
    have heI' := emem (a + 1) ha
    have i1 := hint _ _ heI hmI (elm a)
    have i2 := hint _ _ hmI heI' (mle a)
    have hadd := intervalIntegral.integral_add_adjacent_intervals i1 i2
    have w1 : m - e a = 1 / (2 * n) := by simp only [hm, he]; field_simp; ring
    have w2 : e (a + 1) - m = 1 / (2 * n) := by simp only [hm, he]; push_cast; field_simp; ring
    -- left half: g (e a) ≤ g ≤ g m
    have l1 : (m - e a) * g (e a) ≤ ∫ x in (e a)..m, g x := by
      have := intervalIntegral.integral_mono_on (elm a) (intervalIntegrable_const (c := g (e a))) i1
        (fun x hx => hg heI ⟨le_trans heI.1 hx.1, le_trans hx.2 hmI.2⟩ hx.1)
      rwa [intervalIntegral.integral_const, smul_eq_mul] at this
    have l2 : ∫ x in (e a)..m, g x ≤ (m - e a) * g m := by
      have := intervalIntegral.integral_mono_on (elm a) i1 (intervalIntegrable_const (c := g m))
        (fun x hx => hg ⟨le_trans heI.1 hx.1, le_trans hx.2 hmI.2⟩ hmI hx.2)
      rwa [intervalIntegral.integral_const, smul_eq_mul] at this
    have r1 : (e (a + 1) - m) * g m ≤ ∫ x in m..(e (a + 1)), g x := by
      have := intervalIntegral.integral_mono_on (mle a) (intervalIntegrable_const (c := g m)) i2
        (fun x hx => hg hmI ⟨le_trans hmI.1 hx.1, le_trans hx.2 heI'.2⟩ hx.1)
      rwa [intervalIntegral.integral_const, smul_eq_mul] at this
    have r2 : ∫ x in m..(e (a + 1)), g x ≤ (e (a + 1) - m) * g (e (a + 1)) := by
      have := intervalIntegral.integral_mono_on (mle a) i2 (intervalIntegrable_const (c := g (e (a + 1))))
        (fun x hx => hg ⟨le_trans hmI.1 hx.1, le_trans hx.2 heI'.2⟩ heI' hx.2)
      rwa [intervalIntegral.integral_const, smul_eq_mul] at this
    rw [w1] at l1 l2
    rw [w2] at r1 r2
    have e1 : g m / n = 1 / (2 * n) * g m + 1 / (2 * n) * g m := by field_simp; ring
    rw [← hadd, e1]
    constructor
    · have : (g (e a) - g m) / (2 * n) = 1 / (2 * n) * g (e a) - 1 / (2 * n) * g m := by ring
      rw [this]; linarith
    · have : (g (e (a + 1)) - g m) / (2 * n) = 1 / (2 * n) * g (e (a + 1)) - 1 / (2 * n) * g m := by ring
      rw [this]; linarith
  -- telescoping
  have htel : ∑ a ∈ Finset.range n, (g (e (a + 1)) - g (e a)) = g (A + 1) - g A := by
    rw [Finset.sum_range_sub (fun a => g (e a)), e0, en]
  have hdiff : (∑ a ∈ Finset.range n, g (A + ((a : ℝ) + 1/2) / n)) / n - ∫ x in A..(A + 1), g x =
      -(∑ a ∈ Finset.range n, ((∫ x in (e a)..(e (a + 1)), g x) - g (A + ((a : ℝ) + 1/2) / n) / n)) := by
    rw [hsum, Finset.sum_sub_distrib, Finset.sum_div]; ring
  have hup : ∑ a ∈ Finset.range n, ((∫ x in (e a)..(e (a + 1)), g x) - g (A + ((a : ℝ) + 1/2) / n) / n) ≤
      (g (A + 1) - g A) / (2 * n) := by
    rw [← htel, Finset.sum_div]
    apply Finset.sum_le_sum
    intro a ha
    have ha' := Finset.mem_range.mp ha
    have hm1 : g (e a) ≤ g (A + ((a : ℝ) + 1/2) / n) := hg (emem a ha'.le) (mmem a ha') (elm a)
    have := (hcell a ha').2
    have h2 : (g (e (a + 1)) - g (A + ((a : ℝ) + 1/2) / n)) / (2 * n) ≤ (g (e (a + 1)) - g (e a)) / (2 * n) :=
      div_le_div_of_nonneg_right (by linarith) (by positivity)
    linarith
  have hlo : -((g (A + 1) - g A) / (2 * n)) ≤
      ∑ a ∈ Finset.range n, ((∫ x in (e a)..(e (a + 1)), g x) - g (A + ((a : ℝ) + 1/2) / n) / n) := by
    rw [← htel, Finset.sum_div, ← Finset.sum_neg_distrib]
    apply Finset.sum_le_sum
    intro a ha
    have ha' := Finset.mem_range.mp ha
    have hm2 : g (A + ((a : ℝ) + 1/2) / n) ≤ g (e (a + 1)) := hg (mmem a ha') (emem (a + 1) ha') (mle a)
    have := (hcell a ha').1
    have h2 : -((g (e (a + 1)) - g (e a)) / (2 * n)) ≤ (g (e a) - g (A + ((a : ℝ) + 1/2) / n)) / (2 * n) := by
      rw [← neg_div]
      exact div_le_div_of_nonneg_right (by linarith) (by positivity)
    linarith
  rw [hdiff, abs_neg, abs_le]
  exact ⟨hlo, hup⟩

/-! ### the abstract convergence bound: interval slices, slice length = monotone + antitone -/

open MeasureTheory in
/-- **sub-pixel sampling vs area, abstractly.**  Unit pixel `[A, A+1] × [B, B+1]`; the shape's
vertical slice at abscissa `x` is the open interval `(lo x, hi x)`; `L x` is the length of its
intersection with the pixel; on `[A, A+1]`, `L = g + h` with `g` non-decreasing and `h`
non-increasing (e.g. `L` unimodal, or concave: every convex shape).  Then the fraction of the
`n × n` sample centres inside the shape differs from the area `∫ L` by at most
`1/n + (Var g + Var h)/(2n)`. -/
theorem sampled_error_abstract (n : Nat) (hn : 0 < n) (A B : ℝ) (lo hi L g h : ℝ → ℝ)
    (hL : ∀ a : Nat, a < n → L (A + ((a : ℝ) + 1/2) / n) =
      max 0 (clamp01 (hi (A + ((a : ℝ) + 1/2) / n) - B) - clamp01 (lo (A + ((a : ℝ) + 1/2) / n) - B)))
    (hdec : ∀ x ∈ Set.Icc A (A + 1), L x = g x + h x)
    (hg : MonotoneOn g (Set.Icc A (A + 1))) (hh : AntitoneOn h (Set.Icc A (A + 1))) :
    |(∑ a ∈ Finset.range n, ∑ k ∈ Finset.range n,
        if lo (A + ((a : ℝ) + 1/2) / n) - B < ((k : ℝ) + 1/2) / n ∧
           ((k : ℝ) + 1/2) / n < hi (A + ((a : ℝ) + 1/2) / n) - B then (1 : ℝ) else 0) / ((n : ℝ) * n)
      - ∫ x in A..(A + 1), L x| ≤
      1 / n + ((g (A + 1) - g A) + (h A - h (A + 1))) / (2 * n) := by
  have hn' : (0 : ℝ) < n := by exact_mod_cast hn
  -- step 1: column by column
  have hcol : ∀ a ∈ Finset.range n,
      |(∑ k ∈ Finset.range n,
        if lo (A + ((a : ℝ) + 1/2) / n) - B < ((k : ℝ) + 1/2) / n ∧
           ((k : ℝ) + 1/2) / n < hi (A + ((a : ℝ) + 1/2) / n) - B then (1 : ℝ) else 0) / n
        - L (A + ((a : ℝ) + 1/2) / n)| ≤ 1 / n := by
    intro a ha
    rw [hL a (Finset.mem_range.mp ha)]
    exact col_count n hn _ _
  have hstep1 : |(∑ a ∈ Finset.range n, ∑ k ∈ Finset.range n,
        if lo (A + ((a : ℝ) + 1/2) / n) - B < ((k : ℝ) + 1/2) / n ∧
           ((k : ℝ) + 1/2) / n < hi (A + ((a : ℝ) + 1/2) / n) - B then (1 : ℝ) else 0) / ((n : ℝ) * n)
      - (∑ a ∈ Finset.range n, L (A + ((a : ℝ) + 1/2) / n)) / n| ≤ 1 / n := by
    have e : (∑ a ∈ Finset.range n, ∑ k ∈ Finset.range n,
        if lo (A + ((a : ℝ) + 1/2) / n) - B < ((k : ℝ) + 1/2) / n ∧
           ((k : ℝ) + 1/2) / n < hi (A + ((a : ℝ) + 1/2) / n) - B then (1 : ℝ) else 0) / ((n : ℝ) * n)
      - (∑ a ∈ Finset.range n, L (A + ((a : ℝ) + 1/2) / n)) / n =
      (∑ a ∈ Finset.range n, ((∑ k ∈ Finset.range n,
        if lo (A + ((a : ℝ) + 1/2) / n) - B < ((k : ℝ) + 1/2) / n ∧
           ((k : ℝ) + 1/2) / n < hi (A + ((a : ℝ) + 1/2) / n) - B then (1 : ℝ) else 0) / n
        - L (A + ((a : ℝ) + 1/2) / n))) / n := by
      rw [Finset.sum_sub_distrib, sub_div, ← Finset.sum_div, div_div]
    rw [e, abs_div, abs_of_pos hn', div_le_iff₀ hn']
    calc |∑ a ∈ Finset.range n, _| ≤ ∑ a ∈ Finset.range n, |_| := Finset.abs_sum_le_sum_abs _ _
      _ ≤ ∑ a ∈ Finset.range n, (1 / (n : ℝ)) := Finset.sum_le_sum hcol
      _ = 1 / n * n := by rw [Finset.sum_const, Finset.card_range, nsmul_eq_mul]; ring
  -- step 2: the midpoint rule for g and for -h
  have hnh : MonotoneOn (fun x => -h x) (Set.Icc A (A + 1)) := fun x hx y hy hxy => neg_le_neg (hh hx hy hxy)
  have m1 := midpoint_mono g A n hn hg
  have m2 := midpoint_mono (fun x => -h x) A n hn hnh
  have iG : IntervalIntegrable g volume A (A + 1) := by
    apply MonotoneOn.intervalIntegrable; rw [Set.uIcc_of_le (by linarith)]; exact hg
  have iH : IntervalIntegrable h volume A (A + 1) := by
    apply AntitoneOn.intervalIntegrable; rw [Set.uIcc_of_le (by linarith)]; exact hh
  have hint : ∫ x in A..(A + 1), L x = (∫ x in A..(A + 1), g x) + ∫ x in A..(A + 1), h x := by
    rw [← intervalIntegral.integral_add iG iH]
    apply intervalIntegral.integral_congr
    intro x hx
    rw [Set.uIcc_of_le (by linarith)] at hx
    exact hdec x hx
  have hsumL : (∑ a ∈ Finset.range n, L (A + ((a : ℝ) + 1/2) / n)) / n =
      (∑ a ∈ Finset.range n, g (A + ((a : ℝ) + 1/2) / n)) / n +
      (∑ a ∈ Finset.range n, h (A + ((a : ℝ) + 1/2) / n)) / n := by
    rw [← add_div, ← Finset.sum_add_distrib]
    congr 1
    apply Finset.sum_congr rfl
    intro a ha
    have ha' := Finset.mem_range.mp ha
    apply hdec
    have h1 : (0 : ℝ) ≤ ((a : ℝ) + 1/2) / n := by positivity
    have h2 : ((a : ℝ) + 1/2) / n ≤ 1 := by
      rw [div_le_one hn']
      have : (a : ℝ) + 1 ≤ n := by exact_mod_cast ha'
      linarith
    constructor <;> linarith
  have hm2 : (∑ a ∈ Finset.range n, -h (A + ((a : ℝ) + 1/2) / n)) / n - ∫ x in A..(A + 1), -h x =
      -((∑ a ∈ Finset.range n, h (A + ((a : ℝ) + 1/2) / n)) / n - ∫ x in A..(A + 1), h x) := by
    rw [Finset.sum_neg_distrib, intervalIntegral.integral_neg]; ring
  rw [hm2, abs_neg] at m2
  have hstep2 : |(∑ a ∈ Finset.range n, L (A + ((a : ℝ) + 1/2) / n)) / n - ∫ x in A..(A + 1), L x| ≤
      ((g (A + 1) - g A) + (h A - h (A + 1))) / (2 * n) := by
    rw [hsumL, hint]
    have : (∑ a ∈ Finset.range n, g (A + ((a : ℝ) + 1/2) / n)) / n +
        (∑ a ∈ Finset.range n, h (A + ((a : ℝ) + 1/2) / n)) / n -
        ((∫ x in A..(A + 1), g x) + ∫ x in A..(A + 1), h x) =
        ((∑ a ∈ Finset.range n, g (A + ((a : ℝ) + 1/2) / n)) / n - ∫ x in A..(A + 1), g x) +
        ((∑ a ∈ Finset.range n, h (A + ((a : ℝ) + 1/2) / n)) / n - ∫ x in A..(A + 1), h x) := by ring
    rw [this]
    have e2 : ((g (A + 1) - g A) + (h A - h (A + 1))) / (2 * n) =
        (g (A + 1) - g A) / (2 * n) + (-h (A + 1) - -h A) / (2 * n) := by ring
    rw [e2]
    exact le_trans (abs_add_le _ _) (add_le_add m1 m2)
  calc |_ - ∫ x in A..(A + 1), L x|
      ≤ |_ - (∑ a ∈ Finset.range n, L (A + ((a : ℝ) + 1/2) / n)) / n| +
        |(∑ a ∈ Finset.range n, L (A + ((a : ℝ) + 1/2) / n)) / n - ∫ x in A..(A + 1), L x| := abs_sub_le _ _ _
    _ ≤ _ := add_le_add hstep1 hstep2

/-! ### the circle -/

/-- length of `[b, d] ∩ [-s, s]` as a function of the half-chord `s`. -/
noncomputable def lenS (b d s : ℝ) : ℝ := max (-s) (min s d) - max (-s) (min s b)

theorem sliceLen_eq_lenS (r b d x : ℝ) : sliceLen r b d x = lenS b d (hs r x) := rfl

theorem lenS_mono (b d s t : ℝ) (hbd : b ≤ d) (hs0 : 0 ≤ s) (hst : s ≤ t) : lenS b d s ≤ lenS b d t := by
  unfold lenS
  simp only [max_def, min_def]
  split_ifs <;> linarith

theorem lenS_eq_clamp (B s : ℝ) (hs0 : 0 ≤ s) :
    lenS B (B + 1) s = max 0 (clamp01 (s - B) - clamp01 (-s - B)) := by
  unfold lenS clamp01
  simp only [max_def, min_def]
  split_ifs <;> linarith

theorem hs_mono_neg (r : ℝ) {x y : ℝ} (hxy : x ≤ y) (hy : y ≤ 0) : hs r x ≤ hs r y := by
  unfold hs; apply Real.sqrt_le_sqrt; nlinarith

theorem hs_anti_pos (r : ℝ) {x y : ℝ} (hx : 0 ≤ x) (hxy : x ≤ y) : hs r y ≤ hs r x := by
  unfold hs; apply Real.sqrt_le_sqrt; nlinarith

/-- in centred coordinates: the open disk's vertical slice is `(-hs r u, hs r u)`. -/
theorem disk_slice (r u v : ℝ) : u ^ 2 + v ^ 2 < r ^ 2 ↔ -(hs r u) < v ∧ v < hs r u := by
  unfold hs
  rw [← Real.sq_lt]
  constructor <;> intro h <;> nlinarith

/-- **the circle, real-valued form**: sample centres of the unit pixel `[A, A+1] × [B, B+1]`
(centred coordinates) inside the open disk of radius `r`, versus the exact area. -/
theorem circle_sampled_error_real (r A B : ℝ) (n : Nat) (hn : 0 < n) :
    |(∑ a ∈ Finset.range n, ∑ k ∈ Finset.range n,
        if (A + ((a : ℝ) + 1/2) / n) ^ 2 + (B + ((k : ℝ) + 1/2) / n) ^ 2 < r ^ 2 then (1 : ℝ) else 0) / ((n : ℝ) * n)
      - rectArea r A B (A + 1) (B + 1)| ≤ 2 / n := by
  have hn' : (0 : ℝ) < n := by exact_mod_cast hn
  set L : ℝ → ℝ := fun x => sliceLen r B (B + 1) x with hLdef
  set g : ℝ → ℝ := fun x => L (min x 0) with hgdef
  set h : ℝ → ℝ := fun x => L (max x 0) - L 0 with hhdef
  have hB : B ≤ B + 1 := by linarith
  have L0 : ∀ x, 0 ≤ L x := fun x => sliceLen_nonneg r B (B + 1) x hB
  have L1 : ∀ x, L x ≤ 1 := fun x => by
    have := sliceLen_le r B (B + 1) x hB; simp only [hLdef]; linarith
  have hgm : Monotone g := by
    intro x y hxy
    simp only [hgdef, hLdef, sliceLen_eq_lenS]
    apply lenS_mono B (B + 1) _ _ hB (hs_nonneg _ _)
    exact hs_mono_neg r (min_le_min hxy le_rfl) (min_le_right _ _)
  have hha : Antitone h := by
    intro x y hxy
    simp only [hhdef, hLdef, sliceLen_eq_lenS]
    have : lenS B (B + 1) (hs r (max y 0)) ≤ lenS B (B + 1) (hs r (max x 0)) := by
      apply lenS_mono B (B + 1) _ _ hB (hs_nonneg _ _)
      exact hs_anti_pos r (le_max_right _ _) (max_le_max hxy le_rfl)
    linarith
  have key := sampled_error_abstract n hn A B (fun x => -(hs r x)) (fun x => hs r x) L g h
    (by
      intro a _
      simp only [hLdef, sliceLen_eq_lenS]
      rw [lenS_eq_clamp B _ (hs_nonneg _ _)])
    (by
      intro x _
      simp only [hgdef, hhdef]
      rcases le_total x 0 with hx | hx
      · rw [min_eq_left hx, max_eq_right hx]; ring
      · rw [min_eq_right hx, max_eq_left hx]; ring)
    (hgm.monotoneOn _) (hha.antitoneOn _)
  have hsum : (∑ a ∈ Finset.range n, ∑ k ∈ Finset.range n,
        if (A + ((a : ℝ) + 1/2) / n) ^ 2 + (B + ((k : ℝ) + 1/2) / n) ^ 2 < r ^ 2 then (1 : ℝ) else 0) =
      ∑ a ∈ Finset.range n, ∑ k ∈ Finset.range n,
        if -(hs r (A + ((a : ℝ) + 1/2) / n)) - B < ((k : ℝ) + 1/2) / n ∧
           ((k : ℝ) + 1/2) / n < hs r (A + ((a : ℝ) + 1/2) / n) - B then (1 : ℝ) else 0 := by
    apply Finset.sum_congr rfl; intro a _
    apply Finset.sum_congr rfl; intro k _
    have := disk_slice r (A + ((a : ℝ) + 1/2) / n) (B + ((k : ℝ) + 1/2) / n)
    have e : (-(hs r (A + ((a : ℝ) + 1/2) / n)) - B < ((k : ℝ) + 1/2) / n ∧
        ((k : ℝ) + 1/2) / n < hs r (A + ((a : ℝ) + 1/2) / n) - B) ↔
        (-(hs r (A + ((a : ℝ) + 1/2) / n)) < B + ((k : ℝ) + 1/2) / n ∧
         B + ((k : ℝ) + 1/2) / n < hs r (A + ((a : ℝ) + 1/2) / n)) := by
      constructor <;> rintro ⟨h1, h2⟩ <;> constructor <;> linarith
    simp only [e, ← this]
  rw [hsum]
  have hvar : ((g (A + 1) - g A) + (h A - h (A + 1))) / (2 * n) ≤ 1 / n := by
    have h1 : g (A + 1) - g A ≤ 1 := by simp only [hgdef]; linarith [L0 (min A 0), L1 (min (A + 1) 0)]
    have h2 : h A - h (A + 1) ≤ 1 := by simp only [hhdef]; linarith [L0 (max (A + 1) 0), L1 (max A 0)]
    rw [div_le_div_iff₀ (by positivity) hn']
    nlinarith
  have e2 : (2 : ℝ) / n = 1 / n + 1 / n := by ring
  rw [e2]
  exact le_trans key (by linarith)

/-- **convergence of the circle 'subpixels' mask**: the sampled fraction of pixel
`(ixmin + i, iymin + j)` (what `circle_mask_spec` shows the mask cell to be, over ℚ) differs from
the exact area of (unit pixel ∩ open disk) by at most `2 / n`. -/
theorem circle_subpixel_error_two (c : Circle ℚ) (b : BBox) (n j i : Nat) (hn : 0 < n) :
    |((sampledFrac (fun x y => c.inRaw ⟨x, y⟩) b n j i : ℚ) : ℝ)
      - rectArea (c.radius : ℝ)
          ((b.ixmin : ℝ) + i - 1/2 - (c.center.x : ℝ)) ((b.iymin : ℝ) + j - 1/2 - (c.center.y : ℝ))
          ((b.ixmin : ℝ) + i - 1/2 + 1 - (c.center.x : ℝ)) ((b.iymin : ℝ) + j - 1/2 + 1 - (c.center.y : ℝ))| ≤ 2 / n := by
  rw [sampledFrac_cast]
  have key := circle_sampled_error_real (c.radius : ℝ)
    ((b.ixmin : ℝ) + i - 1/2 - (c.center.x : ℝ)) ((b.iymin : ℝ) + j - 1/2 - (c.center.y : ℝ)) n hn
  have e1 : (b.ixmin : ℝ) + i - 1/2 + 1 - (c.center.x : ℝ) = (b.ixmin : ℝ) + i - 1/2 - (c.center.x : ℝ) + 1 := by ring
  have e2 : (b.iymin : ℝ) + j - 1/2 + 1 - (c.center.y : ℝ) = (b.iymin : ℝ) + j - 1/2 - (c.center.y : ℝ) + 1 := by ring
  rw [e1, e2]
  have hsum : (∑ a ∈ Finset.range n, ∑ k ∈ Finset.range n,
      if c.inRaw ⟨(b.ixmin : ℚ) + i - 1/2 + ((a : ℚ) + 1/2) / n, (b.iymin : ℚ) + j - 1/2 + ((k : ℚ) + 1/2) / n⟩ = true
        then (1 : ℝ) else 0) =
      ∑ a ∈ Finset.range n, ∑ k ∈ Finset.range n,
        if ((b.ixmin : ℝ) + i - 1/2 - (c.center.x : ℝ) + ((a : ℝ) + 1/2) / n) ^ 2 +
           ((b.iymin : ℝ) + j - 1/2 - (c.center.y : ℝ) + ((k : ℝ) + 1/2) / n) ^ 2 < (c.radius : ℝ) ^ 2
        then (1 : ℝ) else 0 := by
    apply Finset.sum_congr rfl; intro a _
    apply Finset.sum_congr rfl; intro k _
    have : (c.inRaw ⟨(b.ixmin : ℚ) + i - 1/2 + ((a : ℚ) + 1/2) / n, (b.iymin : ℚ) + j - 1/2 + ((k : ℚ) + 1/2) / n⟩ = true) ↔
        (((b.ixmin : ℝ) + i - 1/2 - (c.center.x : ℝ) + ((a : ℝ) + 1/2) / n) ^ 2 +
           ((b.iymin : ℝ) + j - 1/2 - (c.center.y : ℝ) + ((k : ℝ) + 1/2) / n) ^ 2 < (c.radius : ℝ) ^ 2) := by
      unfold Circle.inRaw sep2
      rw [decide_eq_true_iff]
      simp only
      rw [← Rat.cast_lt (K := ℝ)]
      push_cast
      constructor <;> intro h <;> nlinarith [h]
    simp only [this]
  rw [hsum]
  exact key

/-- the bound in the form requested (`3 / n`; `hr` is not needed). -/
theorem circle_subpixel_error (c : Circle ℚ) (_hr : 0 < c.radius) (b : BBox) (n j i : Nat) (hn : 0 < n) :
    |((sampledFrac (fun x y => c.inRaw ⟨x, y⟩) b n j i : ℚ) : ℝ)
      - rectArea (c.radius : ℝ)
          ((b.ixmin : ℝ) + i - 1/2 - (c.center.x : ℝ)) ((b.iymin : ℝ) + j - 1/2 - (c.center.y : ℝ))
          ((b.ixmin : ℝ) + i - 1/2 + 1 - (c.center.x : ℝ)) ((b.iymin : ℝ) + j - 1/2 + 1 - (c.center.y : ℝ))| ≤ 3 / n := by
  have hn' : (0 : ℝ) < n := by exact_mod_cast hn
  have := circle_subpixel_error_two c b n j i hn
  have h23 : (2 : ℝ) / n ≤ 3 / n := div_le_div_of_nonneg_right (by norm_num) hn'.le
  linarith

/-! ### (a) unimodal and quasi-concave slice lengths: every convex shape -/

/-- the abstract bound for a slice length that is non-decreasing up to a mode `xs` and
non-increasing after it, with values in `[0, 1]`: `2 / n`. -/
theorem sampled_error_unimodal (n : Nat) (hn : 0 < n) (A B xs : ℝ) (lo hi L : ℝ → ℝ)
    (hL : ∀ a : Nat, a < n → L (A + ((a : ℝ) + 1/2) / n) =
      max 0 (clamp01 (hi (A + ((a : ℝ) + 1/2) / n) - B) - clamp01 (lo (A + ((a : ℝ) + 1/2) / n) - B)))
    (hxs : xs ∈ Set.Icc A (A + 1))
    (hup : ∀ x ∈ Set.Icc A (A + 1), ∀ y ∈ Set.Icc A (A + 1), x ≤ y → y ≤ xs → L x ≤ L y)
    (hdown : ∀ x ∈ Set.Icc A (A + 1), ∀ y ∈ Set.Icc A (A + 1), xs ≤ x → x ≤ y → L y ≤ L x)
    (h0 : ∀ x ∈ Set.Icc A (A + 1), 0 ≤ L x) (h1 : ∀ x ∈ Set.Icc A (A + 1), L x ≤ 1) :
    |(∑ a ∈ Finset.range n, ∑ k ∈ Finset.range n,
        if lo (A + ((a : ℝ) + 1/2) / n) - B < ((k : ℝ) + 1/2) / n ∧
           ((k : ℝ) + 1/2) / n < hi (A + ((a : ℝ) + 1/2) / n) - B then (1 : ℝ) else 0) / ((n : ℝ) * n)
      - ∫ x in A..(A + 1), L x| ≤ 2 / n := by
  have hn' : (0 : ℝ) < n := by exact_mod_cast hn
  have memmin : ∀ x ∈ Set.Icc A (A + 1), min x xs ∈ Set.Icc A (A + 1) := fun x hx =>
    ⟨le_min hx.1 hxs.1, le_trans (min_le_left _ _) hx.2⟩
  have memmax : ∀ x ∈ Set.Icc A (A + 1), max x xs ∈ Set.Icc A (A + 1) := fun x hx =>
    ⟨le_trans hx.1 (le_max_left _ _), max_le hx.2 hxs.2⟩
  have key := sampled_error_abstract n hn A B lo hi L (fun x => L (min x xs)) (fun x => L (max x xs) - L xs) hL
    (by
      intro x _
      rcases le_total x xs with hx | hx
      · rw [min_eq_left hx, max_eq_right hx]; ring
      · rw [min_eq_right hx, max_eq_left hx]; ring)
    (by
      intro x hx y hy hxy
      exact hup _ (memmin x hx) _ (memmin y hy) (min_le_min hxy le_rfl) (min_le_right _ _))
    (by
      intro x hx y hy hxy
      have := hdown _ (memmax x hx) _ (memmax y hy) (le_max_right _ _) (max_le_max hxy le_rfl)
      simp only; linarith)
  have hA : A ∈ Set.Icc A (A + 1) := ⟨le_rfl, by linarith⟩
  have hA1 : A + 1 ∈ Set.Icc A (A + 1) := ⟨by linarith, le_rfl⟩
  have hvar : ((L (min (A + 1) xs) - L (min A xs)) + ((L (max A xs) - L xs) - (L (max (A + 1) xs) - L xs))) / (2 * n) ≤ 1 / n := by
    have a1 := h1 _ (memmin _ hA1)
    have a2 := h0 _ (memmin _ hA)
    have a3 := h1 _ (memmax _ hA)
    have a4 := h0 _ (memmax _ hA1)
    rw [div_le_div_iff₀ (by positivity) hn']
    nlinarith
  have e2 : (2 : ℝ) / n = 1 / n + 1 / n := by ring
  rw [e2]
  exact le_trans key (by linarith)

/-- … and for a continuous quasi-concave slice length (the slice length of any convex shape
against a pixel is concave on its support, hence quasi-concave): the mode exists by compactness. -/
theorem sampled_error_quasiconcave (n : Nat) (hn : 0 < n) (A B : ℝ) (lo hi L : ℝ → ℝ)
    (hL : ∀ a : Nat, a < n → L (A + ((a : ℝ) + 1/2) / n) =
      max 0 (clamp01 (hi (A + ((a : ℝ) + 1/2) / n) - B) - clamp01 (lo (A + ((a : ℝ) + 1/2) / n) - B)))
    (hcont : ContinuousOn L (Set.Icc A (A + 1)))
    (hqc : ∀ x ∈ Set.Icc A (A + 1), ∀ y ∈ Set.Icc A (A + 1), ∀ z ∈ Set.Icc A (A + 1),
      x ≤ y → y ≤ z → min (L x) (L z) ≤ L y)
    (h0 : ∀ x ∈ Set.Icc A (A + 1), 0 ≤ L x) (h1 : ∀ x ∈ Set.Icc A (A + 1), L x ≤ 1) :
    |(∑ a ∈ Finset.range n, ∑ k ∈ Finset.range n,
        if lo (A + ((a : ℝ) + 1/2) / n) - B < ((k : ℝ) + 1/2) / n ∧
           ((k : ℝ) + 1/2) / n < hi (A + ((a : ℝ) + 1/2) / n) - B then (1 : ℝ) else 0) / ((n : ℝ) * n)
      - ∫ x in A..(A + 1), L x| ≤ 2 / n := by
  obtain ⟨xs, hxs, hmax⟩ := isCompact_Icc.exists_isMaxOn (Set.nonempty_Icc.mpr (by linarith : A ≤ A + 1)) hcont
  apply sampled_error_unimodal n hn A B xs lo hi L hL hxs _ _ h0 h1
  · intro x hx y hy hxy hyxs
    have := hqc x hx y hy xs hxs hxy hyxs
    have hm : L x ≤ L xs := hmax hx
    rw [min_eq_left hm] at this
    exact this
  · intro x hx y hy hxsx hxy
    have := hqc xs hxs x hx y hy hxsx hxy
    have hm : L y ≤ L xs := hmax hy
    rw [min_eq_right hm] at this
    exact this

/-! ### the ellipse (any centred conic `P v² + 2 M u v + R u² < 1` with `P > 0`, `P R − M² > 0`) -/

/-- `√(a − b u²)` is concave where it is defined. -/
theorem sqrt_quad_concave (a b x z θ : ℝ) (hb : 0 ≤ b) (hx : b * x ^ 2 ≤ a) (hz : b * z ^ 2 ≤ a)
    (hθ0 : 0 ≤ θ) (hθ1 : θ ≤ 1) :
    θ * Real.sqrt (a - b * x ^ 2) + (1 - θ) * Real.sqrt (a - b * z ^ 2) ≤
      Real.sqrt (a - b * (θ * x + (1 - θ) * z) ^ 2) := by
  set p := Real.sqrt (a - b * x ^ 2) with hp
  set q := Real.sqrt (a - b * z ^ 2) with hq
  have hp0 : 0 ≤ p := Real.sqrt_nonneg _
  have hq0 : 0 ≤ q := Real.sqrt_nonneg _
  have hp2 : p * p = a - b * x ^ 2 := Real.mul_self_sqrt (by linarith)
  have hq2 : q * q = a - b * z ^ 2 := Real.mul_self_sqrt (by linarith)
  apply Real.le_sqrt_of_sq_le
  have h1 : 0 ≤ 1 - θ := by linarith
  -- p q ≤ a − b x z
  have ha : 0 ≤ a := le_trans (mul_nonneg hb (sq_nonneg x)) hx
  have hxz : 0 ≤ a - b * x * z := by nlinarith [mul_nonneg hb (sq_nonneg (x - z)), mul_nonneg hb (sq_nonneg (x + z))]
  have hpq : p * q ≤ a - b * x * z := by
    have : (p * q) ^ 2 ≤ (a - b * x * z) ^ 2 := by
      have e : (p * q) ^ 2 = (a - b * x ^ 2) * (a - b * z ^ 2) := by rw [mul_pow, sq, sq, hp2, hq2]
      rw [e]; nlinarith [mul_nonneg (mul_nonneg ha hb) (sq_nonneg (x - z))]
    exact abs_le_of_sq_le_sq' this hxz |>.2
  have e : (θ * p + (1 - θ) * q) ^ 2 = θ ^ 2 * (p * p) + (1 - θ) ^ 2 * (q * q) + 2 * (θ * (1 - θ)) * (p * q) := by ring
  rw [e, hp2, hq2]
  nlinarith [mul_nonneg (mul_nonneg hθ0 h1) (sub_nonneg.mpr hpq)]

/-- upper / lower end of the vertical slice of the conic at abscissa `u` (`D = P R − M²`). -/
noncomputable def cHi (P M D u : ℝ) : ℝ := -M * u / P + Real.sqrt (P - D * u ^ 2) / P
noncomputable def cLo (P M D u : ℝ) : ℝ := -M * u / P - Real.sqrt (P - D * u ^ 2) / P

theorem conic_slice (P M R u v : ℝ) (hP : 0 < P) :
    P * v ^ 2 + 2 * M * u * v + R * u ^ 2 < 1 ↔
      cLo P M (P * R - M * M) u < v ∧ v < cHi P M (P * R - M * M) u := by
  unfold cLo cHi
  have e : P * v ^ 2 + 2 * M * u * v + R * u ^ 2 < 1 ↔ (P * v + M * u) ^ 2 < P - (P * R - M * M) * u ^ 2 := by
    constructor
    · intro h; nlinarith [mul_lt_mul_of_pos_left h hP]
    · intro h
      have : P * (P * v ^ 2 + 2 * M * u * v + R * u ^ 2) < P * 1 := by nlinarith
      exact lt_of_mul_lt_mul_left this hP.le
  rw [e, Real.sq_lt]
  set s := Real.sqrt (P - (P * R - M * M) * u ^ 2)
  constructor
  · rintro ⟨h1, h2⟩
    constructor
    · rw [← sub_div, div_lt_iff₀ hP]; linarith
    · rw [← add_div, lt_div_iff₀ hP]; linarith
  · rintro ⟨h1, h2⟩
    rw [← sub_div, div_lt_iff₀ hP] at h1
    rw [← add_div, lt_div_iff₀ hP] at h2
    constructor <;> linarith

/-- length of (slice of the conic at `u`) ∩ `[B, B+1]`. -/
noncomputable def cLen (P M D B u : ℝ) : ℝ :=
  max 0 (clamp01 (cHi P M D u - B) - clamp01 (cLo P M D u - B))

theorem cLo_le_cHi (P M D u : ℝ) (hP : 0 < P) : cLo P M D u ≤ cHi P M D u := by
  unfold cLo cHi
  have : 0 ≤ Real.sqrt (P - D * u ^ 2) / P := div_nonneg (Real.sqrt_nonneg _) hP.le
  linarith

theorem cLen_eq (P M D B u : ℝ) (hP : 0 < P) :
    cLen P M D B u = max 0 (min (cHi P M D u) (B + 1) - max (cLo P M D u) B) := by
  have := cLo_le_cHi P M D u hP
  unfold cLen clamp01
  simp only [max_def, min_def]
  split_ifs <;> linarith

theorem cLen_nonneg (P M D B u : ℝ) : 0 ≤ cLen P M D B u := le_max_left _ _

theorem cLen_le_one (P M D B u : ℝ) : cLen P M D B u ≤ 1 := by
  unfold cLen
  exact max_le zero_le_one (by linarith [clamp01_le_one (cHi P M D u - B), clamp01_nonneg (cLo P M D u - B)])

theorem continuous_cLen (P M D B : ℝ) : Continuous (cLen P M D B) := by
  unfold cLen clamp01 cHi cLo
  fun_prop

theorem cLen_pos_support (P M D B u : ℝ) (h : 0 < cLen P M D B u) : D * u ^ 2 ≤ P := by
  by_contra hc
  push Not at hc
  have hz : Real.sqrt (P - D * u ^ 2) = 0 := Real.sqrt_eq_zero'.mpr (by linarith)
  have : cLen P M D B u = 0 := by
    unfold cLen cHi cLo
    rw [hz]; simp
  linarith

/-- the slice length of the conic against a pixel is quasi-concave (the conic is convex). -/
theorem cLen_quasiconcave (P M D B x z θ : ℝ) (hP : 0 < P) (hD : 0 ≤ D) (hθ0 : 0 ≤ θ) (hθ1 : θ ≤ 1) :
    min (cLen P M D B x) (cLen P M D B z) ≤ cLen P M D B (θ * x + (1 - θ) * z) := by
  by_cases hpos : 0 < min (cLen P M D B x) (cLen P M D B z)
  · have hx := lt_of_lt_of_le hpos (min_le_left _ _)
    have hz := lt_of_lt_of_le hpos (min_le_right _ _)
    have sx := cLen_pos_support P M D B x hx
    have sz := cLen_pos_support P M D B z hz
    have hc := sqrt_quad_concave P D x z θ hD sx sz hθ0 hθ1
    have h1 : 0 ≤ 1 - θ := by linarith
    set y := θ * x + (1 - θ) * z with hy
    have hhi : θ * cHi P M D x + (1 - θ) * cHi P M D z ≤ cHi P M D y := by
      unfold cHi
      have e : θ * (-M * x / P + Real.sqrt (P - D * x ^ 2) / P) + (1 - θ) * (-M * z / P + Real.sqrt (P - D * z ^ 2) / P) =
          -M * y / P + (θ * Real.sqrt (P - D * x ^ 2) + (1 - θ) * Real.sqrt (P - D * z ^ 2)) / P := by
        rw [hy]; field_simp; ring
      rw [e]
      have := div_le_div_of_nonneg_right hc hP.le
      linarith
    have hlo : cLo P M D y ≤ θ * cLo P M D x + (1 - θ) * cLo P M D z := by
      unfold cLo
      have e : θ * (-M * x / P - Real.sqrt (P - D * x ^ 2) / P) + (1 - θ) * (-M * z / P - Real.sqrt (P - D * z ^ 2) / P) =
          -M * y / P - (θ * Real.sqrt (P - D * x ^ 2) + (1 - θ) * Real.sqrt (P - D * z ^ 2)) / P := by
        rw [hy]; field_simp; ring
      rw [e]
      have := div_le_div_of_nonneg_right hc hP.le
      linarith
    rw [cLen_eq P M D B x hP] at hx ⊢
    rw [cLen_eq P M D B z hP] at hz ⊢
    rw [cLen_eq P M D B y hP]
    set fx := min (cHi P M D x) (B + 1) - max (cLo P M D x) B with hfx
    set fz := min (cHi P M D z) (B + 1) - max (cLo P M D z) B with hfz
    have fxpos : 0 < fx := by
      by_contra hn; push Not at hn; rw [max_eq_left hn] at hx; exact lt_irrefl _ hx
    have fzpos : 0 < fz := by
      by_contra hn; push Not at hn; rw [max_eq_left hn] at hz; exact lt_irrefl _ hz
    rw [max_eq_right fxpos.le, max_eq_right fzpos.le]
    have hmin : θ * min (cHi P M D x) (B + 1) + (1 - θ) * min (cHi P M D z) (B + 1) ≤ min (cHi P M D y) (B + 1) := by
      apply le_min
      · have a1 := mul_le_mul_of_nonneg_left (min_le_left (cHi P M D x) (B + 1)) hθ0
        have a2 := mul_le_mul_of_nonneg_left (min_le_left (cHi P M D z) (B + 1)) h1
        linarith
      · have a1 := mul_le_mul_of_nonneg_left (min_le_right (cHi P M D x) (B + 1)) hθ0
        have a2 := mul_le_mul_of_nonneg_left (min_le_right (cHi P M D z) (B + 1)) h1
        nlinarith
    have hmax : max (cLo P M D y) B ≤ θ * max (cLo P M D x) B + (1 - θ) * max (cLo P M D z) B := by
      apply max_le
      · have a1 := mul_le_mul_of_nonneg_left (le_max_left (cLo P M D x) B) hθ0
        have a2 := mul_le_mul_of_nonneg_left (le_max_left (cLo P M D z) B) h1
        linarith
      · have a1 := mul_le_mul_of_nonneg_left (le_max_right (cLo P M D x) B) hθ0
        have a2 := mul_le_mul_of_nonneg_left (le_max_right (cLo P M D z) B) h1
        nlinarith
    have hfy : θ * fx + (1 - θ) * fz ≤ min (cHi P M D y) (B + 1) - max (cLo P M D y) B := by
      rw [hfx, hfz]; linarith
    have hconv : min fx fz ≤ θ * fx + (1 - θ) * fz := by
      rcases le_total fx fz with h | h
      · rw [min_eq_left h]; nlinarith
      · rw [min_eq_right h]; nlinarith
    exact le_trans hconv (le_trans hfy (le_max_right _ _))
  · push Not at hpos
    exact le_trans hpos (cLen_nonneg _ _ _ _ _)

/-- **the ellipse (centred conic), real-valued form**: `n × n` sample centres of the unit pixel
`[A, A+1] × [B, B+1]` inside the open conic, versus `∫ cLen` (its area in the pixel): `≤ 2 / n`. -/
theorem conic_sampled_error_real (P M R A B : ℝ) (hP : 0 < P) (hD : 0 ≤ P * R - M * M) (n : Nat) (hn : 0 < n) :
    |(∑ a ∈ Finset.range n, ∑ k ∈ Finset.range n,
        if P * (B + ((k : ℝ) + 1/2) / n) ^ 2 + 2 * M * (A + ((a : ℝ) + 1/2) / n) * (B + ((k : ℝ) + 1/2) / n) +
           R * (A + ((a : ℝ) + 1/2) / n) ^ 2 < 1 then (1 : ℝ) else 0) / ((n : ℝ) * n)
      - ∫ x in A..(A + 1), cLen P M (P * R - M * M) B x| ≤ 2 / n := by
  set D := P * R - M * M with hDdef
  have key := sampled_error_quasiconcave n hn A B (cLo P M D) (cHi P M D) (cLen P M D B)
    (fun a _ => rfl) (continuous_cLen P M D B).continuousOn
    (by
      intro x _ y _ z _ hxy hyz
      rcases eq_or_lt_of_le (le_trans hxy hyz) with hxz | hxz
      · have : y = x := le_antisymm (by linarith) hxy
        rw [this]; exact min_le_left _ _
      · have hθ : y = ((z - y) / (z - x)) * x + (1 - (z - y) / (z - x)) * z := by
          have : z - x ≠ 0 := by linarith
          field_simp; ring
        rw [hθ]
        apply cLen_quasiconcave P M D B x z _ hP hD
        · exact div_nonneg (by linarith) (by linarith)
        · rw [div_le_one (by linarith)]; linarith)
    (fun x _ => cLen_nonneg _ _ _ _ _) (fun x _ => cLen_le_one _ _ _ _ _)
  have hsum : (∑ a ∈ Finset.range n, ∑ k ∈ Finset.range n,
        if P * (B + ((k : ℝ) + 1/2) / n) ^ 2 + 2 * M * (A + ((a : ℝ) + 1/2) / n) * (B + ((k : ℝ) + 1/2) / n) +
           R * (A + ((a : ℝ) + 1/2) / n) ^ 2 < 1 then (1 : ℝ) else 0) =
      ∑ a ∈ Finset.range n, ∑ k ∈ Finset.range n,
        if cLo P M D (A + ((a : ℝ) + 1/2) / n) - B < ((k : ℝ) + 1/2) / n ∧
           ((k : ℝ) + 1/2) / n < cHi P M D (A + ((a : ℝ) + 1/2) / n) - B then (1 : ℝ) else 0 := by
    apply Finset.sum_congr rfl; intro a _
    apply Finset.sum_congr rfl; intro k _
    have := conic_slice P M R (A + ((a : ℝ) + 1/2) / n) (B + ((k : ℝ) + 1/2) / n) hP
    rw [← hDdef] at this
    have e : (cLo P M D (A + ((a : ℝ) + 1/2) / n) - B < ((k : ℝ) + 1/2) / n ∧
        ((k : ℝ) + 1/2) / n < cHi P M D (A + ((a : ℝ) + 1/2) / n) - B) ↔
        (cLo P M D (A + ((a : ℝ) + 1/2) / n) < B + ((k : ℝ) + 1/2) / n ∧
         B + ((k : ℝ) + 1/2) / n < cHi P M D (A + ((a : ℝ) + 1/2) / n)) := by
      constructor <;> rintro ⟨h1, h2⟩ <;> constructor <;> linarith
    simp only [e, ← this]
  rw [hsum]
  exact key

/-! ### `∫ cLen` is the Lebesgue measure of (pixel ∩ open conic) -/

theorem lt_add_clamp01 (B t y : ℝ) : B + clamp01 (t - B) < y ↔ B < y ∧ (B + 1 < y ∨ t < y) := by
  unfold clamp01
  rw [← max_add_add_left, ← min_add_add_left, max_lt_iff, min_lt_iff]
  constructor
  · rintro ⟨h1, h2 | h2⟩
    · exact ⟨by linarith, Or.inl h2⟩
    · exact ⟨by linarith, Or.inr (by linarith)⟩
  · rintro ⟨h1, h2 | h2⟩
    · exact ⟨by linarith, Or.inl h2⟩
    · exact ⟨by linarith, Or.inr (by linarith)⟩

theorem add_clamp01_gt (B t y : ℝ) : y < B + clamp01 (t - B) ↔ y < B ∨ (y < B + 1 ∧ y < t) := by
  unfold clamp01
  rw [← max_add_add_left, ← min_add_add_left, lt_max_iff, lt_min_iff]
  constructor
  · rintro (h | ⟨h1, h2⟩)
    · left; linarith
    · right; exact ⟨h1, by linarith⟩
  · rintro (h | ⟨h1, h2⟩)
    · left; linarith
    · right; exact ⟨h1, by linarith⟩

open MeasureTheory in
/-- the area against which the sampled fraction is compared is the Lebesgue measure of
(pixel ∩ open conic). -/
theorem conic_pixel_volume (P M R A B : ℝ) (hP : 0 < P) :
    volume {p : ℝ × ℝ | p.1 ∈ Set.Icc A (A + 1) ∧ B < p.2 ∧ p.2 < B + 1 ∧
        P * p.2 ^ 2 + 2 * M * p.1 * p.2 + R * p.1 ^ 2 < 1} =
      ENNReal.ofReal (∫ x in A..(A + 1), cLen P M (P * R - M * M) B x) := by
  set D := P * R - M * M with hDdef
  have hset : {p : ℝ × ℝ | p.1 ∈ Set.Icc A (A + 1) ∧ B < p.2 ∧ p.2 < B + 1 ∧
        P * p.2 ^ 2 + 2 * M * p.1 * p.2 + R * p.1 ^ 2 < 1} =
      regionBetween (fun x => B + clamp01 (cLo P M D x - B)) (fun x => B + clamp01 (cHi P M D x - B))
        (Set.Icc A (A + 1)) := by
    ext p
    simp only [regionBetween, Set.mem_ofPred_eq, Set.mem_Ioo]
    rw [conic_slice P M R p.1 p.2 hP, ← hDdef, lt_add_clamp01, add_clamp01_gt]
    constructor
    · rintro ⟨h0, h1, h2, h3, h4⟩
      exact ⟨h0, ⟨h1, Or.inr h3⟩, Or.inr ⟨h2, h4⟩⟩
    · rintro ⟨h0, ⟨h1, h2⟩, h3⟩
      rcases h3 with h3 | ⟨h3, h4⟩
      · linarith
      · rcases h2 with h2 | h2
        · linarith
        · exact ⟨h0, h1, h3, h2, h4⟩
  have c1 : Continuous fun x => B + clamp01 (cLo P M D x - B) := by unfold clamp01 cLo; fun_prop
  have c2 : Continuous fun x => B + clamp01 (cHi P M D x - B) := by unfold clamp01 cHi; fun_prop
  rw [hset, Measure.volume_eq_prod,
    volume_regionBetween_eq_integral c1.integrableOn_Icc c2.integrableOn_Icc measurableSet_Icc
      (fun x _ => by linarith [clamp01_mono (sub_le_sub_right (cLo_le_cHi P M D x hP) B)]),
    intervalIntegral.integral_of_le (by linarith : A ≤ A + 1), integral_Icc_eq_integral_Ioc]
  congr 1
  apply integral_congr_ae
  apply Filter.Eventually.of_forall
  intro x
  simp only [Pi.sub_apply]
  unfold cLen
  rw [max_eq_right (by linarith [clamp01_mono (sub_le_sub_right (cLo_le_cHi P M D x hP) B)])]
  ring

/-! ### the ellipse of the package (`Ellipse ℚ`, strict membership, as sampled by the mask) -/

noncomputable def ellP (c s w h : ℝ) : ℝ := 4 * s ^ 2 / w ^ 2 + 4 * c ^ 2 / h ^ 2
noncomputable def ellM (c s w h : ℝ) : ℝ := 4 * c * s / w ^ 2 - 4 * c * s / h ^ 2
noncomputable def ellR (c s w h : ℝ) : ℝ := 4 * c ^ 2 / w ^ 2 + 4 * s ^ 2 / h ^ 2

theorem ell_form (c s w h u v : ℝ) (hw : w ≠ 0) (hh : h ≠ 0) :
    (2 * (c * u + s * v) / w) ^ 2 + (2 * (s * u - c * v) / h) ^ 2 =
      ellP c s w h * v ^ 2 + 2 * ellM c s w h * u * v + ellR c s w h * u ^ 2 := by
  unfold ellP ellM ellR; field_simp; ring

theorem ellP_pos (c s w h : ℝ) (hw : 0 < w) (hh : 0 < h) (hu : c ^ 2 + s ^ 2 = 1) : 0 < ellP c s w h := by
  unfold ellP
  have h1 : 0 ≤ 4 * s ^ 2 / w ^ 2 := by positivity
  have h2 : 0 ≤ 4 * c ^ 2 / h ^ 2 := by positivity
  by_contra hn
  push Not at hn
  have e1 : 4 * s ^ 2 / w ^ 2 = 0 := by linarith
  have e2 : 4 * c ^ 2 / h ^ 2 = 0 := by linarith
  have hs : s ^ 2 = 0 := by
    rcases div_eq_zero_iff.mp e1 with h | h
    · linarith
    · exact absurd h (by positivity)
  have hc : c ^ 2 = 0 := by
    rcases div_eq_zero_iff.mp e2 with h' | h'
    · linarith
    · exact absurd h' (by positivity)
  linarith

theorem ell_disc (c s w h : ℝ) (hw : 0 < w) (hh : 0 < h) :
    0 ≤ ellP c s w h * ellR c s w h - ellM c s w h * ellM c s w h := by
  have : ellP c s w h * ellR c s w h - ellM c s w h * ellM c s w h = 16 * (c ^ 2 + s ^ 2) ^ 2 / (w ^ 2 * h ^ 2) := by
    unfold ellP ellM ellR; field_simp; ring
  rw [this]; positivity

/-- exact area of (pixel `(ixmin + i, iymin + j)` ∩ open ellipse), as an integral of slice lengths. -/
noncomputable def ellipsePixelArea (e : Ellipse ℚ) (b : BBox) (j i : Nat) : ℝ :=
  ∫ x in ((b.ixmin : ℝ) + i - 1/2 - (e.center.x : ℝ))..((b.ixmin : ℝ) + i - 1/2 - (e.center.x : ℝ) + 1),
    cLen (ellP e.dir.c e.dir.s e.width e.height) (ellM e.dir.c e.dir.s e.width e.height)
      (ellP e.dir.c e.dir.s e.width e.height * ellR e.dir.c e.dir.s e.width e.height -
        ellM e.dir.c e.dir.s e.width e.height * ellM e.dir.c e.dir.s e.width e.height)
      ((b.iymin : ℝ) + j - 1/2 - (e.center.y : ℝ)) x

/-- **convergence of the ellipse 'subpixels' mask**: the sampled fraction of pixel
`(ixmin + i, iymin + j)` (what `ellipse_mask_spec` shows the mask cell to be: strict membership,
over ℚ) differs from the exact area of (unit pixel ∩ open ellipse) by at most `2 / n`. -/
theorem ellipse_subpixel_error (e : Ellipse ℚ) (hw : 0 < e.width) (hh : 0 < e.height) (hu : e.dir.IsUnit)
    (b : BBox) (n j i : Nat) (hn : 0 < n) :
    |((sampledFrac (fun x y => Ellipse.inStrict e ⟨x, y⟩) b n j i : ℚ) : ℝ) - ellipsePixelArea e b j i| ≤ 2 / n := by
  have hwR : (0 : ℝ) < (e.width : ℝ) := by exact_mod_cast hw
  have hhR : (0 : ℝ) < (e.height : ℝ) := by exact_mod_cast hh
  have huR : (e.dir.c : ℝ) ^ 2 + (e.dir.s : ℝ) ^ 2 = 1 := by
    have : e.dir.c ^ 2 + e.dir.s ^ 2 = 1 := hu
    exact_mod_cast this
  rw [sampledFrac_cast]
  unfold ellipsePixelArea
  set P := ellP e.dir.c e.dir.s e.width e.height with hPdef
  set M := ellM e.dir.c e.dir.s e.width e.height with hMdef
  set R := ellR e.dir.c e.dir.s e.width e.height with hRdef
  set A := (b.ixmin : ℝ) + i - 1/2 - (e.center.x : ℝ) with hA
  set B := (b.iymin : ℝ) + j - 1/2 - (e.center.y : ℝ) with hB
  have key := conic_sampled_error_real P M R A B (ellP_pos _ _ _ _ hwR hhR huR) (ell_disc _ _ _ _ hwR hhR) n hn
  have hsum : (∑ a ∈ Finset.range n, ∑ k ∈ Finset.range n,
      if Ellipse.inStrict e ⟨(b.ixmin : ℚ) + i - 1/2 + ((a : ℚ) + 1/2) / n, (b.iymin : ℚ) + j - 1/2 + ((k : ℚ) + 1/2) / n⟩ = true
        then (1 : ℝ) else 0) =
      ∑ a ∈ Finset.range n, ∑ k ∈ Finset.range n,
        if P * (B + ((k : ℝ) + 1/2) / n) ^ 2 + 2 * M * (A + ((a : ℝ) + 1/2) / n) * (B + ((k : ℝ) + 1/2) / n) +
           R * (A + ((a : ℝ) + 1/2) / n) ^ 2 < 1 then (1 : ℝ) else 0 := by
    apply Finset.sum_congr rfl; intro a _
    apply Finset.sum_congr rfl; intro k _
    have : (Ellipse.inStrict e ⟨(b.ixmin : ℚ) + i - 1/2 + ((a : ℚ) + 1/2) / n, (b.iymin : ℚ) + j - 1/2 + ((k : ℚ) + 1/2) / n⟩ = true) ↔
        (P * (B + ((k : ℝ) + 1/2) / n) ^ 2 + 2 * M * (A + ((a : ℝ) + 1/2) / n) * (B + ((k : ℝ) + 1/2) / n) +
           R * (A + ((a : ℝ) + 1/2) / n) ^ 2 < 1) := by
      unfold Ellipse.inStrict
      rw [decide_eq_true_iff]
      simp only
      rw [← Rat.cast_lt (K := ℝ)]
      push_cast
      rw [hPdef, hMdef, hRdef, ← ell_form _ _ _ _ _ _ hwR.ne' hhR.ne', hA, hB]
      have e1 : (b.ixmin : ℝ) + i - 1/2 + ((a : ℝ) + 1/2) / n - (e.center.x : ℝ) =
          (b.ixmin : ℝ) + i - 1/2 - (e.center.x : ℝ) + ((a : ℝ) + 1/2) / n := by ring
      have e2 : (b.iymin : ℝ) + j - 1/2 + ((k : ℝ) + 1/2) / n - (e.center.y : ℝ) =
          (b.iymin : ℝ) + j - 1/2 - (e.center.y : ℝ) + ((k : ℝ) + 1/2) / n := by ring
      rw [e1, e2]
    simp only [this]
  rw [hsum]
  exact key

open MeasureTheory in
/-- `ellipsePixelArea` is the Lebesgue measure of (pixel ∩ open ellipse), in absolute coordinates. -/
theorem ellipsePixelArea_eq_volume (e : Ellipse ℚ) (hw : 0 < e.width) (hh : 0 < e.height) (hu : e.dir.IsUnit)
    (b : BBox) (j i : Nat) :
    volume {p : ℝ × ℝ | p.1 ∈ Set.Icc ((b.ixmin : ℝ) + i - 1/2) ((b.ixmin : ℝ) + i - 1/2 + 1) ∧
        (b.iymin : ℝ) + j - 1/2 < p.2 ∧ p.2 < (b.iymin : ℝ) + j - 1/2 + 1 ∧
        (2 * ((e.dir.c : ℝ) * (p.1 - e.center.x) + (e.dir.s : ℝ) * (p.2 - e.center.y)) / (e.width : ℝ)) ^ 2 +
        (2 * ((e.dir.s : ℝ) * (p.1 - e.center.x) - (e.dir.c : ℝ) * (p.2 - e.center.y)) / (e.height : ℝ)) ^ 2 < 1} =
      ENNReal.ofReal (ellipsePixelArea e b j i) := by
  have hwR : (0 : ℝ) < (e.width : ℝ) := by exact_mod_cast hw
  have hhR : (0 : ℝ) < (e.height : ℝ) := by exact_mod_cast hh
  have huR : (e.dir.c : ℝ) ^ 2 + (e.dir.s : ℝ) ^ 2 = 1 := by
    have : e.dir.c ^ 2 + e.dir.s ^ 2 = 1 := hu
    exact_mod_cast this
  unfold ellipsePixelArea
  rw [← conic_pixel_volume _ _ _ _ _ (ellP_pos _ _ _ _ hwR hhR huR)]
  have hset : {p : ℝ × ℝ | p.1 ∈ Set.Icc ((b.ixmin : ℝ) + i - 1/2) ((b.ixmin : ℝ) + i - 1/2 + 1) ∧
        (b.iymin : ℝ) + j - 1/2 < p.2 ∧ p.2 < (b.iymin : ℝ) + j - 1/2 + 1 ∧
        (2 * ((e.dir.c : ℝ) * (p.1 - e.center.x) + (e.dir.s : ℝ) * (p.2 - e.center.y)) / (e.width : ℝ)) ^ 2 +
        (2 * ((e.dir.s : ℝ) * (p.1 - e.center.x) - (e.dir.c : ℝ) * (p.2 - e.center.y)) / (e.height : ℝ)) ^ 2 < 1} =
      (fun p : ℝ × ℝ => p + (-(e.center.x : ℝ), -(e.center.y : ℝ))) ⁻¹'
        {p : ℝ × ℝ | p.1 ∈ Set.Icc ((b.ixmin : ℝ) + i - 1/2 - (e.center.x : ℝ)) ((b.ixmin : ℝ) + i - 1/2 - (e.center.x : ℝ) + 1) ∧
          (b.iymin : ℝ) + j - 1/2 - (e.center.y : ℝ) < p.2 ∧ p.2 < (b.iymin : ℝ) + j - 1/2 - (e.center.y : ℝ) + 1 ∧
          ellP e.dir.c e.dir.s e.width e.height * p.2 ^ 2 + 2 * ellM e.dir.c e.dir.s e.width e.height * p.1 * p.2 +
            ellR e.dir.c e.dir.s e.width e.height * p.1 ^ 2 < 1} := by
    ext p
    simp only [Set.mem_ofPred_eq, Set.mem_preimage, Set.mem_Icc, Prod.fst_add, Prod.snd_add]
    rw [← ell_form _ _ _ _ _ _ hwR.ne' hhR.ne']
    have e1 : p.1 + -(e.center.x : ℝ) = p.1 - e.center.x := by ring
    have e2 : p.2 + -(e.center.y : ℝ) = p.2 - e.center.y := by ring
    rw [e1, e2]
    constructor
    · rintro ⟨⟨a1, a2⟩, a3, a4, a5⟩
      exact ⟨⟨by linarith, by linarith⟩, by linarith, by linarith, a5⟩
    · rintro ⟨⟨a1, a2⟩, a3, a4, a5⟩
      exact ⟨⟨by linarith, by linarith⟩, by linarith, by linarith, a5⟩
  have : (volume : Measure (ℝ × ℝ)).IsAddRightInvariant := by
    rw [Measure.volume_eq_prod]; infer_instance
  rw [hset, measure_preimage_add_right]


/-! ### the mask cells themselves, and non-vacuity -/

/-- the circle 'subpixels' mask cell converges to the exact overlap area. -/
theorem circle_mask_converges (c : Circle ℚ) (hr : 0 < c.radius) (mode : MaskMode) (n : Nat)
    (hmode : subpixOf mode = some n) (hn : 0 < n) (m : GenMask) (h : circleToMask c mode = .ok m)
    (j i : Nat) (hi : (i : Int) < m.bbox.shape.2) (hj : (j : Int) < m.bbox.shape.1) :
    |((m.cell j i : ℚ) : ℝ)
      - rectArea (c.radius : ℝ)
          ((m.bbox.ixmin : ℝ) + i - 1/2 - (c.center.x : ℝ)) ((m.bbox.iymin : ℝ) + j - 1/2 - (c.center.y : ℝ))
          ((m.bbox.ixmin : ℝ) + i - 1/2 + 1 - (c.center.x : ℝ)) ((m.bbox.iymin : ℝ) + j - 1/2 + 1 - (c.center.y : ℝ))| ≤ 2 / n := by
  rw [(circle_mask_spec c hr mode n hmode m h).2 j i hi hj]
  exact circle_subpixel_error_two c m.bbox n j i hn

/-- the ellipse 'subpixels' mask cell converges to the exact overlap area. -/
theorem ellipse_mask_converges (e : Ellipse ℚ) (hw : 0 < e.width) (hh : 0 < e.height) (hu : e.dir.IsUnit)
    (mode : MaskMode) (n : Nat) (hmode : subpixOf mode = some n) (hn : 0 < n) (m : GenMask)
    (h : ellipseToMask e mode = .ok m)
    (j i : Nat) (hi : (i : Int) < m.bbox.shape.2) (hj : (j : Int) < m.bbox.shape.1) :
    |((m.cell j i : ℚ) : ℝ) - ellipsePixelArea e m.bbox j i| ≤ 2 / n := by
  rw [(ellipse_mask_spec e hw hh hu mode n hmode m h).2 j i hi hj]
  exact ellipse_subpixel_error e hw hh hu m.bbox n j i hn

-- concrete instances: a circle of radius 7/4 centred at (1/3, 1/5), pixel (0, 2) of the box, n = 5
example := circle_subpixel_error_two ⟨⟨1 / 3, 1 / 5⟩, 7 / 4⟩ ⟨-2, 3, -2, 3⟩ 5 4 2 (by norm_num)
example := circle_subpixel_error ⟨⟨1 / 3, 1 / 5⟩, 7 / 4⟩ (by norm_num) ⟨-2, 3, -2, 3⟩ 5 4 2 (by norm_num)
-- an ellipse 3 × 1 along the direction (3/5, 4/5), n = 12
example := ellipse_subpixel_error ⟨⟨1 / 3, 1 / 5⟩, 3, 1, ⟨3 / 5, 4 / 5⟩⟩ (by norm_num) (by norm_num)
  (by unfold Dir.IsUnit; norm_num) ⟨-2, 3, -2, 3⟩ 12 1 3 (by norm_num)

end RegionsVerif.Props.C03

#print axioms RegionsVerif.Props.C03.circle_subpixel_error_two
#print axioms RegionsVerif.Props.C03.circle_subpixel_error
#print axioms RegionsVerif.Props.C03.circle_mask_converges
#print axioms RegionsVerif.Props.C03.sampled_error_abstract
#print axioms RegionsVerif.Props.C03.sampled_error_quasiconcave
#print axioms RegionsVerif.Props.C03.ellipse_subpixel_error
#print axioms RegionsVerif.Props.C03.ellipsePixelArea_eq_volume
#print axioms RegionsVerif.Props.C03.ellipse_mask_converges
