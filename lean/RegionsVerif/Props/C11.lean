/-
C11 — CRTF text round-trips and is read according to the CASA conventions.

Theorems about the Impl model of `regions/io/crtf` (`Impl/Crtf.lean`, `Impl/CrtfWrite.lean`,
`Impl/CrtfRead.lean`) at the STRUCTURED level (lines made of tokens; see the header of
`Impl/Crtf.lean`), for lists of regions / files of ANY length.

Main statements
* `dec_roundtrip`, `fmtDec_grid`, `fmtDec_idem`            — the `fmt` decimal printer (§1)
* `global_default_inline_override`, `global_lines_accumulate`, `prefix_rules`,
  `coord_selects_frame`, `coord_default_image`, `frame_names_roundtrip`,
  `units_required`, `box_kinds`, `box_corner_form`, `box_forms_agree`,
  `ellipse_read_rule`, `bodyGeom_vals`                      — the reading rules (§3, §5)
* `roundtrip_list` / `roundtrip_list_ok`                   — lists decompose region by region (§4)
* `crtf_roundtrip` (what comes back), `crtf_roundtrip_partial` (it does come back, under the
  decidable predicate `Good`), `crtf_roundtrip_fixed` (= the full clause for the repaired code),
  `ellipse_axes_swap_involutive`                            — the round trip (§5–§8)
* `crtf_fixed_point`, `crtf_fixed_point_meta`              — parse -> serialise -> parse (§8)
* `text_preserved_*` (F7), `serialize_pure_*` / `second_serialisation_included` (F6)

Candidate defects of the current code are the fields of `Quirks` (`Impl/CrtfWrite.lean`); every
theorem is stated for an arbitrary `q : Quirks` with hypotheses that say which behaviour it
needs; the full-strength clauses are refuted at `Quirks.current` by concrete witnesses
(`*_refuted_Fnn`, kernel evaluation of the executable model) and proved where the defect is
absent.

WHEN A FIX LANDS IN /repo (the patches are `/verif/proposed_fixes/Fnn.diff`): set the field to
`false` in `Quirks.current`; the theorem named below stops compiling — delete it (and the
`example`s that use the same witness under `{ Quirks.current with … }` keep compiling), mark the
finding `fixed` in `known_findings/C11.json`.

  finding  field of `Quirks`        theorem to delete once fixed
  F6       popInclude               (FIXED 90d029a: done — `serialize_pure_current` now holds)
  F7       textFromMeta             text_preserved_refuted_F7
  F20      pointUnreadable          crtf_roundtrip_refuted_F20
  F21      pixAsDeg                 crtf_roundtrip_refuted_F21
  F33      quotePairUnreadable      crtf_roundtrip_refuted_F33
  F34      keepSourceAttrs          crtf_roundtrip_refuted_F34
  F31      dropLabelcolor           (none; the last `example` of §9 mentions it)
  F36      (no flag: the reader's `regex_meta` is modelled by `MTok.lexed`; when the regex changes, change
           `lexScalarChars` in Impl/CrtfRead.lean; `label_lexing_refuted_F36` tells whether it still mangles)
  F32      labeloffRepr             (none; list keys are validated, not proved)

When all three `crtf_roundtrip_refuted_*` are gone, `crtf_roundtrip_full Quirks.current` is
`crtf_roundtrip_partial` with `Good Quirks.current = Representable`.
-/
import RegionsVerif.Impl.CrtfRead
import Mathlib.Tactic.Linarith
import Mathlib.Tactic.Ring
import Mathlib.Tactic.FieldSimp
import Mathlib.Tactic.Positivity
import Mathlib.Tactic.NormNum

set_option linter.unusedSimpArgs false

namespace RegionsVerif.Props.C11
open RegionsVerif.Impl.Crtf

/-! ## 1. decimal text: `fmt` then read -/

theorem roundHalfEven_err (x : ℚ) : |((roundHalfEven x : Int) : ℚ) - x| ≤ 1 / 2 := by
  have h1 := Int.floor_le x
  have h2 := Int.lt_floor_add_one x
  unfold roundHalfEven
  split_ifs <;> (push_cast; rw [abs_le]; constructor <;> linarith)

theorem roundHalfEven_nonneg {x : ℚ} (hx : 0 ≤ x) : 0 ≤ roundHalfEven x := by
  have h0 : 0 ≤ ⌊x⌋ := Int.floor_nonneg.mpr hx
  unfold roundHalfEven
  split_ifs <;> omega

/-- an integer is formatted as itself. -/
theorem roundHalfEven_int (n : Int) : roundHalfEven (n : ℚ) = n := by
  unfold roundHalfEven
  simp

/-- `dec_roundtrip`: reading back `f'{x:.{p}f}'` gives `x` within half a unit of the last
printed digit, for every rational (= every float) `x` and every precision. -/
theorem dec_roundtrip (p : Nat) (x : ℚ) : |(fmtDec p x).val - x| ≤ 1 / 2 / (10 : ℚ) ^ p := by
  have hp : (0 : ℚ) < 10 ^ p := by positivity
  have hnn : 0 ≤ |x| * (10 : ℚ) ^ p := by positivity
  have hr := roundHalfEven_err (|x| * (10 : ℚ) ^ p)
  have hn := roundHalfEven_nonneg hnn
  have hcast : (((roundHalfEven (|x| * (10 : ℚ) ^ p)).toNat : Nat) : ℚ)
      = ((roundHalfEven (|x| * (10 : ℚ) ^ p) : Int) : ℚ) := by
    have := Int.toNat_of_nonneg hn
    exact_mod_cast this
  unfold fmtDec Dec.val
  simp only
  rw [hcast]
  set n : ℚ := ((roundHalfEven (|x| * (10 : ℚ) ^ p) : Int) : ℚ) with hn'
  by_cases hx : x < 0
  · have hax : |x| = -x := abs_of_neg hx
    rw [hax] at hr
    simp only [hx, decide_true, if_true]
    have e : -n / (10 : ℚ) ^ p - x = -(n - -x * (10 : ℚ) ^ p) / (10 : ℚ) ^ p := by
      field_simp; ring
    rw [e, abs_div, abs_neg, abs_of_pos hp]
    exact div_le_div_of_nonneg_right hr hp.le
  · have hx' : 0 ≤ x := not_lt.mp hx
    have hax : |x| = x := abs_of_nonneg hx'
    rw [hax] at hr
    simp only [hx, decide_false, Bool.false_eq_true, if_false]
    have e : n / (10 : ℚ) ^ p - x = (n - x * (10 : ℚ) ^ p) / (10 : ℚ) ^ p := by
      field_simp
    rw [e, abs_div, abs_of_pos hp]
    exact div_le_div_of_nonneg_right hr hp.le

/-- a value that already has at most `p` decimals is printed exactly. -/
theorem fmtDec_grid (p : Nat) (x : ℚ) (m : Nat) (h : |x| * (10 : ℚ) ^ p = (m : ℚ)) :
    (fmtDec p x).val = x := by
  have hp : (0 : ℚ) < 10 ^ p := by positivity
  have hr : roundHalfEven (|x| * (10 : ℚ) ^ p) = (m : Int) := by
    rw [h]; exact_mod_cast roundHalfEven_int (m : Int)
  unfold fmtDec Dec.val
  simp only [hr, Int.toNat_natCast]
  have hm : (m : ℚ) / (10 : ℚ) ^ p = |x| := by rw [← h]; field_simp
  by_cases hx : x < 0
  · simp only [hx, decide_true, if_true]
    rw [neg_div, hm, abs_of_neg hx]; ring
  · simp only [hx, decide_false, Bool.false_eq_true, if_false]
    rw [hm, abs_of_nonneg (not_lt.mp hx)]

/-- the value of a printed decimal is on the grid of its precision. -/
theorem fmtDec_val_on_grid (p : Nat) (x : ℚ) :
    ∃ m : Nat, |(fmtDec p x).val| * (10 : ℚ) ^ p = (m : ℚ) := by
  have hp : (0 : ℚ) < 10 ^ p := by positivity
  refine ⟨(fmtDec p x).mant, ?_⟩
  unfold Dec.val
  have hs : (fmtDec p x).scale = p := rfl
  rw [hs]
  split_ifs
  · rw [abs_div, abs_neg, Nat.abs_cast, abs_of_pos hp]; field_simp
  · rw [abs_div, Nat.abs_cast, abs_of_pos hp]; field_simp

/-- printing is idempotent on values: what was read from a printed decimal prints to the same
value again (the arithmetic core of the fixed-point clause). -/
theorem fmtDec_idem (p : Nat) (x : ℚ) : (fmtDec p (fmtDec p x).val).val = (fmtDec p x).val := by
  obtain ⟨m, hm⟩ := fmtDec_val_on_grid p x
  exact fmtDec_grid p _ m hm

/-! ## 2. insertion-ordered dictionaries -/

theorem get?_set (m : AList) (k k' : Key) (v : MVal) :
    (m.set k v).get? k' = if k = k' then some v else m.get? k' := by
  induction m with
  | nil => simp [AList.set, AList.get?]
  | cons a m ih =>
    obtain ⟨ka, va⟩ := a
    unfold AList.set
    by_cases h : ka = k
    · subst h
      simp only [if_true, AList.get?]
      by_cases h2 : ka = k' <;> simp [h2]
    · simp only [h, if_false, AList.get?]
      by_cases h2 : ka = k'
      · subst h2
        have : ¬ k = ka := fun e => h e.symm
        simp [this]
      · simp only [h2, if_false]; exact ih

theorem get?_set_self (m : AList) (k : Key) (v : MVal) : (m.set k v).get? k = some v := by
  rw [get?_set]; simp

theorem get?_set_ne (m : AList) {k k' : Key} (v : MVal) (h : k ≠ k') :
    (m.set k v).get? k' = m.get? k' := by
  rw [get?_set]; simp [h]

theorem get?_erase (m : AList) (k k' : Key) :
    (m.erase k).get? k' = if k = k' then none else m.get? k' := by
  induction m with
  | nil => simp [AList.erase, AList.get?]
  | cons a m ih =>
    obtain ⟨ka, va⟩ := a
    unfold AList.erase at ih ⊢
    by_cases h : ka = k
    · subst h
      simp only [List.filter_cons, ne_eq, not_true_eq_false, decide_false, Bool.false_eq_true, if_false]
      rw [ih]
      by_cases h2 : ka = k'
      · simp [h2]
      · simp [h2, AList.get?]
    · simp only [List.filter_cons, ne_eq, h, not_false_eq_true, decide_true, if_true, AList.get?]
      by_cases h2 : ka = k'
      · subst h2
        have : ¬ k = ka := fun e => h e.symm
        simp [this]
      · simp only [h2, if_false]; exact ih

/-- filtering by a predicate on keys keeps exactly the entries whose key passes. -/
theorem get?_filterKeys (m : AList) (f : Key → Bool) (k : Key) :
    AList.get? (m.filter fun p => f p.1) k = if f k then m.get? k else none := by
  induction m with
  | nil => simp [AList.get?]
  | cons a m ih =>
    obtain ⟨ka, va⟩ := a
    by_cases hf : f ka
    · simp only [List.filter_cons, hf, if_true, AList.get?]
      by_cases h2 : ka = k
      · subst h2; simp [hf]
      · simp only [h2, if_false]; exact ih
    · simp only [List.filter_cons, hf, Bool.false_eq_true, if_false, AList.get?]
      by_cases h2 : ka = k
      · subst h2; rw [ih]; simp [hf]
      · simp only [h2, if_false]; exact ih

/-! ## 3. reading rules -/

/-- what a list of `key=value` items assigns to `k`: the LAST item whose key is `k`. -/
def assigned (g : Bool) (k : Key) : List MItem → Option MVal
  | [] => none
  | it :: r =>
    match assigned g k r with
    | some v => some v
    | none =>
      match it with
      | .pair s t => if !t.isEmptyScalar && itemKey g s = k then some (tokValue g k t) else none
      | .empty => none

theorem readItem_get (g : Bool) (m m' : AList) (it : MItem) (h : readItem g m it = .ok m') (k : Key) :
    m'.get? k = match assigned g k [it] with
      | some v => some v
      | none => m.get? k := by
  cases it with
  | empty => simp only [readItem, Except.ok.injEq] at h; subst h; simp [assigned]
  | pair s t =>
    simp only [readItem] at h
    by_cases he : t.isEmptyScalar
    · simp only [he, if_true, Except.ok.injEq] at h; subst h; simp [assigned, he]
    · simp only [he, Bool.false_eq_true, if_false] at h
      by_cases hk : keyOk g (itemKey g s)
      · simp only [hk, if_true, Except.ok.injEq] at h; subst h
        rw [get?_set]
        by_cases hkk : itemKey g s = k
        · subst hkk; simp [assigned, he]
        · simp [assigned, he, hkk]
      · simp [hk] at h

/-- the dictionary after reading a list of items: per key, the last item that names it,
otherwise the previous content. -/
theorem readItems_get (g : Bool) (items : List MItem) (m m' : AList)
    (h : readItems g m items = .ok m') (k : Key) :
    m'.get? k = match assigned g k items with
      | some v => some v
      | none => m.get? k := by
  induction items generalizing m with
  | nil => simp only [readItems, Except.ok.injEq] at h; subst h; simp [assigned]
  | cons it r ih =>
    simp only [readItems] at h
    cases h1 : readItem g m it with
    | error e => rw [h1] at h; simp [bind, Except.bind] at h
    | ok m1 =>
      rw [h1] at h
      simp only [bind, Except.bind] at h
      rw [ih m1 h]
      have := readItem_get g m m1 it h1 k
      simp only [assigned] at this ⊢
      cases hr : assigned g k r with
      | some v => simp
      | none => simp only; rw [this]

theorem get?_normRange_ne (qn : String → String) (m : AList) {k : Key} (h : k ≠ .range) :
    (normRange qn m).get? k = m.get? k := by
  unfold normRange
  split
  · rw [get?_set_ne _ _ (Ne.symm h)]
  · rfl

/-- `global_default_inline_override`: in the metadata of a region line every key other than
the three the parser sets itself (`include`, `type`, and `range`, whose elements go through
`u.Quantity`) has the value of the last inline item naming it, and the value accumulated
from the `global` lines otherwise. -/
theorem global_default_inline_override (qn : String → String) (gm m : AList) (l : RLine)
    (h : lineMeta qn gm l = .ok m) (k : Key)
    (h1 : k ≠ .include) (h2 : k ≠ .type) (h3 : k ≠ .range) :
    m.get? k = match assigned false k l.items with
      | some v => some v
      | none => gm.get? k := by
  unfold lineMeta at h
  cases hr : readItems false gm l.items with
  | error e => rw [hr] at h; simp [bind, Except.bind] at h
  | ok m1 =>
    rw [hr] at h
    simp only [bind, Except.bind, pure, Except.pure, Except.ok.injEq] at h
    subst h
    rw [get?_set_ne _ _ (Ne.symm h2)]
    rw [get?_normRange_ne qn _ h3, get?_set_ne _ _ (Ne.symm h1)]
    exact readItems_get false l.items gm m1 hr k

/-- the `global` lines accumulate the same way: a later `global` line overrides an earlier
one key by key. -/
theorem global_lines_accumulate (items : List MItem) (g g' : AList)
    (h : readItems true g items = .ok g') (k : Key) :
    g'.get? k = match assigned true k items with
      | some v => some v
      | none => g.get? k := readItems_get true items g g' h k

/-- `include`, `type` are what the prefixes say: a leading `-` excludes, `ann` marks an
annotation; nothing in the items can change that. -/
theorem prefix_rules (qn : String → String) (gm m : AList) (l : RLine)
    (h : lineMeta qn gm l = .ok m) :
    m.get? .include = some (.bool (!l.excl)) ∧
    m.get? .type = some (.str (if l.ann then "ann" else "reg")) := by
  unfold lineMeta at h
  cases hr : readItems false gm l.items with
  | error e => rw [hr] at h; simp [bind, Except.bind] at h
  | ok m1 =>
    rw [hr] at h
    simp only [bind, Except.bind, pure, Except.pure, Except.ok.injEq] at h
    subst h
    refine ⟨?_, get?_set_self _ _ _⟩
    rw [get?_set_ne _ _ (by decide), get?_normRange_ne qn _ (by decide), get?_set_self]

/-- `coord=` selects the frame (lower-cased, CASA names mapped to astropy's) … -/
theorem coord_selects_frame (m : AList) (s : String) (h : m.get? .coord = some (.str s)) :
    coordsysOf m = frameMap s.toLower := by
  unfold coordsysOf; rw [h]

/-- … and without any `coord` the region is in image (pixel) coordinates. -/
theorem coord_default_image (m : AList) (h : m.get? .coord = none) : coordsysOf m = "image" := by
  unfold coordsysOf; rw [h]; decide +kernel

/-- every name the writer puts into `coord=` is read back as the frame it was written for
(finite table, decided completely). -/
theorem frame_names_roundtrip : ∀ p ∈ coordsysTable, frameMap p.2.toLower = p.1 := by
  decide +kernel

/-! ### lengths require units -/

/-- all length tokens of a region. -/
def lens : Body → List Len
  | .circle _ r => [r]
  | .annulus _ a b => [a, b]
  | .ellipse _ a b g => [a, b, g]
  | .centerbox _ a b => [a, b]
  | .rotbox _ a b g => [a, b, g]
  | _ => []

theorem toQ_unitless (d : Dec) : Len.toQ ⟨d, .none⟩ = .error .parserError := rfl

theorem toQ_cases (l : Len) :
    (∃ a, l.toQ = .ok a ∧ a.v = l.d.val ∧ a.ang = false) ∨ (l.toQ = .error .parserError ∧ l.u = .none) := by
  obtain ⟨d, u⟩ := l
  cases u <;> simp [Len.toQ]

theorem bodyGeom_unitless (b : Body) (h : ∃ l ∈ lens b, l.u = .none) :
    bodyGeom b = .error .parserError := by
  obtain ⟨l, hl, hu⟩ := h
  cases b with
  | circle c r =>
    simp only [lens, List.mem_singleton] at hl; subst hl
    rcases toQ_cases l with ⟨a, h1, -⟩ | ⟨h1, -⟩
    · obtain ⟨d, u⟩ := l; simp only at hu; subst hu; simp [Len.toQ] at h1
    · simp [bodyGeom, h1, bind, Except.bind]
  | annulus c r1 r2 =>
    simp only [lens, List.mem_cons, List.mem_nil_iff, or_false] at hl
    rcases toQ_cases r1 with ⟨a1, h1, -⟩ | ⟨h1, -⟩ <;> rcases toQ_cases r2 with ⟨a2, h2, -⟩ | ⟨h2, -⟩ <;>
      simp only [bodyGeom, h1, h2, bind, Except.bind]
    rcases hl with hl | hl <;> subst hl
    · obtain ⟨d, u⟩ := l; simp only at hu; subst hu; simp [Len.toQ] at h1
    · obtain ⟨d, u⟩ := l; simp only at hu; subst hu; simp [Len.toQ] at h2
  | ellipse c a b g =>
    simp only [lens, List.mem_cons, List.mem_nil_iff, or_false] at hl
    rcases toQ_cases a with ⟨a1, h1, -⟩ | ⟨h1, -⟩ <;> rcases toQ_cases b with ⟨a2, h2, -⟩ | ⟨h2, -⟩ <;>
      rcases toQ_cases g with ⟨a3, h3, -⟩ | ⟨h3, -⟩ <;>
      simp only [bodyGeom, h1, h2, h3, bind, Except.bind]
    rcases hl with hl | hl | hl <;> subst hl <;> obtain ⟨d, u⟩ := l <;> simp only at hu <;> subst hu
    · simp [Len.toQ] at h1
    · simp [Len.toQ] at h2
    · simp [Len.toQ] at h3
  | centerbox c a b =>
    simp only [lens, List.mem_cons, List.mem_nil_iff, or_false] at hl
    rcases toQ_cases a with ⟨a1, h1, -⟩ | ⟨h1, -⟩ <;> rcases toQ_cases b with ⟨a2, h2, -⟩ | ⟨h2, -⟩ <;>
      simp only [bodyGeom, h1, h2, bind, Except.bind]
    rcases hl with hl | hl <;> subst hl <;> obtain ⟨d, u⟩ := l <;> simp only at hu <;> subst hu
    · simp [Len.toQ] at h1
    · simp [Len.toQ] at h2
  | rotbox c a b g =>
    simp only [lens, List.mem_cons, List.mem_nil_iff, or_false] at hl
    rcases toQ_cases a with ⟨a1, h1, -⟩ | ⟨h1, -⟩ <;> rcases toQ_cases b with ⟨a2, h2, -⟩ | ⟨h2, -⟩ <;>
      rcases toQ_cases g with ⟨a3, h3, -⟩ | ⟨h3, -⟩ <;>
      simp only [bodyGeom, h1, h2, h3, bind, Except.bind]
    rcases hl with hl | hl | hl <;> subst hl <;> obtain ⟨d, u⟩ := l <;> simp only at hu <;> subst hu
    · simp [Len.toQ] at h1
    · simp [Len.toQ] at h2
    · simp [Len.toQ] at h3
  | box _ _ => simp [lens] at hl
  | poly _ => simp [lens] at hl
  | line _ _ => simp [lens] at hl
  | symbol _ _ => simp [lens] at hl
  | point _ => simp [lens] at hl
  | text _ _ => simp [lens] at hl

theorem regionShape_unitless (q : Quirks) (qn : String → String) (g : AList) (l : RLine)
    (h : ∃ x ∈ lens l.body, x.u = .none) : regionShape q qn g l = .error .parserError := by
  have hb := bodyGeom_unitless l.body h
  unfold regionShape
  split_ifs
  · rfl
  · rfl
  · cases hm : lineMeta qn g l with
    | error e =>
      -- every failure of the metadata step is a parser error too
      unfold lineMeta at hm
      cases hr : readItems false g l.items with
      | ok m1 => rw [hr] at hm; simp [bind, Except.bind, pure, Except.pure] at hm
      | error e' =>
        rw [hr] at hm
        simp only [bind, Except.bind, Except.error.injEq] at hm
        subst hm
        have : ∀ (items : List MItem) (m : AList) e, readItems false m items = .error e → e = .parserError := by
          intro items
          induction items with
          | nil => intro m e he; simp [readItems] at he
          | cons it r ih =>
            intro m e he
            simp only [readItems] at he
            cases h1 : readItem false m it with
            | ok m1 => rw [h1] at he; exact ih m1 e he
            | error e1 =>
              rw [h1] at he
              simp only [bind, Except.bind, Except.error.injEq] at he
              subst he
              cases it with
              | empty => simp [readItem] at h1
              | pair k t =>
                simp only [readItem] at h1
                split_ifs at h1
                simpa using h1.symm
        rw [this _ _ _ hr]
        rfl
    | ok m => simp [bind, Except.bind, hb]

/-- `units_required`: a file that contains a region with a length written without a unit is
rejected as a whole (whatever the other lines are). -/
theorem units_required (q : Quirks) (qn : String → String) (ls : List SrcLine) (l : RLine)
    (hl : SrcLine.region l ∈ ls) (hu : ∃ x ∈ lens l.body, x.u = .none) :
    ∀ regs, parse q qn ls ≠ .ok regs := by
  have key : ∀ (ls : List SrcLine) (g : AList), SrcLine.region l ∈ ls → ∀ ss, phase1 q qn g ls ≠ .ok ss := by
    intro ls
    induction ls with
    | nil => intro g h; simp at h
    | cons a r ih =>
      intro g h ss
      rcases List.mem_cons.mp h with h1 | h2
      · subst h1
        simp [phase1, regionShape_unitless q qn g l hu, bind, Except.bind]
      · cases a with
        | blank => simp only [phase1]; exact ih g h2 ss
        | comment c => simp only [phase1]; exact ih g h2 ss
        | global items =>
          simp only [phase1]
          cases hg : readItems true g items with
          | error e => simp [bind, Except.bind]
          | ok g' => simp only [bind, Except.bind]; exact ih g' h2 ss
        | region l' =>
          simp only [phase1]
          cases hs : regionShape q qn g l' with
          | error e => simp [bind, Except.bind]
          | ok s =>
            simp only [bind, Except.bind]
            cases hp : phase1 q qn g r with
            | error e => simp
            | ok ss' => exact absurd hp (ih g h2 ss')
  intro regs
  unfold parse
  cases hp : phase1 q qn [] ls with
  | error e => simp [bind, Except.bind]
  | ok ss => exact absurd hp (key ls [] hl ss)

/-! ### box / centerbox / rotbox -/

/-- all three box keywords become rectangles. -/
theorem box_kinds (b : Body) (k : Kind) (pts : List (Q × Q)) (sz : List Q) (a : Option Q)
    (hb : (∃ c1 c2, b = .box c1 c2) ∨ (∃ c w h, b = .centerbox c w h) ∨ (∃ c w h g, b = .rotbox c w h g))
    (h : bodyGeom b = .ok (k, pts, sz, a)) : k = .rectangle := by
  rcases hb with ⟨c1, c2, rfl⟩ | ⟨c, w, hh, rfl⟩ | ⟨c, w, hh, g, rfl⟩
  · simp only [bodyGeom] at h
    cases h1 : boxMid c1.1.toQ c2.1.toQ with
    | error e => rw [h1] at h; simp [bind, Except.bind] at h
    | ok v1 =>
      cases h2 : boxMid c1.2.toQ c2.2.toQ with
      | error e => rw [h1, h2] at h; simp [bind, Except.bind] at h
      | ok v2 =>
        rw [h1, h2] at h
        simp only [bind, Except.bind, pure, Except.pure, Except.ok.injEq, Prod.mk.injEq] at h
        exact h.1.symm
  · simp only [bodyGeom] at h
    rcases toQ_cases w with ⟨a1, h1, -⟩ | ⟨h1, -⟩ <;> rcases toQ_cases hh with ⟨a2, h2, -⟩ | ⟨h2, -⟩ <;>
      simp only [h1, h2, bind, Except.bind, pure, Except.pure, Except.ok.injEq, Prod.mk.injEq, reduceCtorEq] at h
    exact h.1.symm
  · simp only [bodyGeom] at h
    rcases toQ_cases w with ⟨a1, h1, -⟩ | ⟨h1, -⟩ <;> rcases toQ_cases hh with ⟨a2, h2, -⟩ | ⟨h2, -⟩ <;>
      rcases toQ_cases g with ⟨a3, h3, -⟩ | ⟨h3, -⟩ <;>
      simp only [h1, h2, h3, bind, Except.bind, pure, Except.pure, Except.ok.injEq, Prod.mk.injEq, reduceCtorEq] at h
    exact h.1.symm

/-- the corner form `box[[x1, y1], [x2, y2]]` is the rectangle with those two opposite
corners: centre − size/2 and centre + size/2 are the smaller and the larger corner
coordinate, on each axis. -/
theorem box_corner_form (a b : Q) (mid w : Q) (h : boxMid a b = .ok (mid, w)) :
    mid.v - w.v / 2 = min a.v b.v ∧ mid.v + w.v / 2 = max a.v b.v ∧
    mid.u = a.u ∧ w.u = a.u ∧ mid.ang = a.ang := by
  unfold boxMid at h
  split_ifs at h
  simp only [Except.ok.injEq, Prod.mk.injEq] at h
  obtain ⟨h1, h2⟩ := h
  subst h1; subst h2
  refine ⟨?_, ?_, by simp, by simp, by simp⟩
  · rcases le_total a.v b.v with hle | hle
    · rw [min_eq_left hle, abs_of_nonpos (by linarith)]; ring
    · rw [min_eq_right hle, abs_of_nonneg (by linarith)]; ring
  · rcases le_total a.v b.v with hle | hle
    · rw [max_eq_right hle, abs_of_nonpos (by linarith)]; ring
    · rw [max_eq_left hle, abs_of_nonneg (by linarith)]; ring

/-- `box_forms_agree`: a rectangle read without an angle (`box`, `centerbox`) is the same
region as the one read from `rotbox` with the angle `0deg`. -/
theorem box_forms_agree (s : RShape) (hk : s.kind = .rectangle) :
    toRegion { s with angle := none } = toRegion { s with angle := some ⟨0, .deg, false⟩ } := by
  unfold toRegion checkCoords checkSizes buildRegion
  simp [hk, angleOk]

/-- … and `centerbox[c, [w, h]]` / `rotbox[c, [w, h], a]` carry their centre and sizes
unchanged. -/
theorem centerbox_rotbox_same_geometry (c : Pt) (w h g : Len) (qw qh qg : Q)
    (hw : w.toQ = .ok qw) (hh : h.toQ = .ok qh) (hg : g.toQ = .ok qg) :
    bodyGeom (.centerbox c w h) = .ok (.rectangle, [ptQ c], [qw, qh], none) ∧
    bodyGeom (.rotbox c w h g) = .ok (.rectangle, [ptQ c], [qw, qh], some qg) := by
  simp [bodyGeom, hw, hh, hg, bind, Except.bind, pure, Except.pure]

/-! ### ellipse axes -/

/-- the reader's ellipse rule: `[a, b]` are the semi-axes `[major, minor]`; the region gets
`width = 2·b`, `height = 2·a`, and the angle is NOT doubled or halved. -/
theorem ellipse_read_rule (c : Pt) (a b g : Len) (qa qb qg : Q)
    (ha : a.toQ = .ok qa) (hb : b.toQ = .ok qb) (hg : g.toQ = .ok qg) :
    ∃ W H A, bodyGeom (.ellipse c a b g) = .ok (.ellipse, [ptQ c], [W, H], some A) ∧
      W.v = 2 * qb.v ∧ H.v = 2 * qa.v ∧ A.v = qg.v ∧ W.u = qb.u ∧ H.u = qa.u ∧ A.u = qg.u := by
  refine ⟨qb.scale 2, qa.scale 2, (qg.scale 2).scale (1 / 2), ?_, ?_, ?_, ?_, rfl, rfl, rfl⟩
  · simp [bodyGeom, ha, hb, hg, bind, Except.bind, pure, Except.pure]
  · simp only [Q.scale]; ring
  · simp only [Q.scale]; ring
  · simp only [Q.scale]; ring

/-! ## 4. round trip: lists of any length decompose into single regions -/

theorem mapM_ok_iff {α β : Type} (f : α → Except Err β) (l : List α) (l' : List β) :
    l.mapM f = .ok l' ↔ List.Forall₂ (fun a b => f a = .ok b) l l' := by
  induction l generalizing l' with
  | nil =>
    simp only [List.mapM_nil, pure, Except.pure, Except.ok.injEq]
    constructor
    · intro h; subst h; exact List.Forall₂.nil
    · intro h; cases h; rfl
  | cons a r ih =>
    simp only [List.mapM_cons]
    cases ha : f a with
    | error e =>
      simp only [bind, Except.bind]
      constructor
      · intro h; cases h
      · intro h; cases h with
        | cons h1 _ => rw [ha] at h1; cases h1
    | ok b =>
      cases hr : r.mapM f with
      | error e =>
        simp only [bind, Except.bind]
        constructor
        · intro h; cases h
        · intro h
          cases h with
          | cons h1 h2 => rw [(ih _).mpr h2] at hr; cases hr
      | ok bs =>
        simp only [bind, Except.bind, pure, Except.pure, Except.ok.injEq]
        constructor
        · intro h; subst h
          exact List.Forall₂.cons ha ((ih bs).mp hr)
        · intro h
          cases h with
          | cons h1 h2 =>
            rw [ha] at h1
            have e1 := Except.ok.inj h1
            have e2 := (ih _).mpr h2
            rw [hr] at e2
            have e2' := Except.ok.inj e2
            subst e1; subst e2'; rfl

theorem forall₂_comp {α β γ : Type} {R : α → β → Prop} {S : β → γ → Prop} {l1 : List α} {l2 : List β}
    {l3 : List γ} (h1 : List.Forall₂ R l1 l2) (h2 : List.Forall₂ S l2 l3) :
    List.Forall₂ (fun a c => ∃ b, R a b ∧ S b c) l1 l3 := by
  induction h1 generalizing l3 with
  | nil => cases h2; exact List.Forall₂.nil
  | cons hab _ ih =>
    cases h2 with
    | cons hbc hrest => exact List.Forall₂.cons ⟨_, hab, hbc⟩ (ih hrest)

theorem lookup_mem {β : Type} (k : String) (v : β) (l : List (String × β)) (h : l.lookup k = some v) :
    (k, v) ∈ l := by
  induction l with
  | nil => simp at h
  | cons a r ih =>
    obtain ⟨ka, va⟩ := a
    simp only [List.lookup_cons] at h
    by_cases hk : k == ka
    · simp only [hk] at h
      have := Option.some.inj h
      subst this
      have : k = ka := by simpa using hk
      subst this
      exact List.mem_cons_self
    · simp only [hk] at h
      exact List.mem_cons_of_mem _ (ih h)

/-- the global meta in force after the writer's `global coord=G` line. -/
def gmeta (g : String) : AList := [(.coord, .str g)]

/-- reading the writer's two header lines, then region lines only: one shape per line, all
read under the same global meta. -/
theorem phase1_written (q : Quirks) (qn : String → String) (g : String)
    (hg : (MTok.scalar g .none).lexed = some (.scalar g .none)) (c : String)
    (ls : List RLine) :
    phase1 q qn [] (.comment c :: .global [.pair "coord" (.scalar g .none)] :: ls.map .region)
      = ls.mapM (regionShape q qn (gmeta g)) := by
  have hk : itemKey true "coord" = Key.coord := by decide +kernel
  have h1 : readItems true [] [.pair "coord" (.scalar g .none)] = .ok (gmeta g) := by
    simp [readItems, readItem, MTok.isEmptyScalar, hg, hk, keyOk, readerGlobalKey, tokValue, isListKey,
      AList.set, gmeta, bind, Except.bind]
  simp only [phase1, h1, bind, Except.bind]
  induction ls with
  | nil => simp [phase1, pure, Except.pure]
  | cons l r ih =>
    simp only [List.map_cons, phase1, List.mapM_cons, bind, Except.bind]
    cases regionShape q qn (gmeta g) l with
    | error e => rfl
    | ok s => simp only; rw [ih]

/-- the chain of the four per-region steps. -/
def Chain (q : Quirks) (qn : String → String) (o : Opts) (g : String) (r : WReg) (x : RReg) : Prop :=
  ∃ s l sh, toShape q o.coordsys r = .ok s ∧ writeLine q o s = .ok l ∧
    regionShape q qn (gmeta g) l = .ok sh ∧ toRegion sh = .ok x

/-- `serialize` then `parse` on a list of ANY length is the per-region chain, region by
region, in order (regions do not interfere with one another). -/
theorem roundtrip_list (q : Quirks) (qn : String → String) (o : Opts) (rs : List WReg)
    (ls : List SrcLine) (gs : List RReg)
    (hs : serialize q o rs = .ok ls) (hp : parse q qn ls = .ok gs) :
    ∃ g, coordsysTable.lookup o.coordsys.toLower = some g ∧
      List.Forall₂ (Chain q qn o g) rs gs := by
  unfold serialize at hs
  cases h1 : rs.mapM (toShape q o.coordsys) with
  | error e => rw [h1] at hs; simp [bind, Except.bind] at hs
  | ok shapes =>
    rw [h1] at hs
    simp only [bind, Except.bind, toCrtf] at hs
    split_ifs at hs
    cases hg : coordsysTable.lookup o.coordsys.toLower with
    | none => rw [hg] at hs; simp at hs
    | some g =>
      rw [hg] at hs
      simp only at hs
      cases h2 : shapes.mapM (writeLine q o) with
      | error e => rw [h2] at hs; simp at hs
      | ok lines =>
        rw [h2] at hs
        simp only [pure, Except.pure, Except.ok.injEq] at hs
        subst hs
        have hgne : (MTok.scalar g .none).lexed = some (.scalar g .none) := by
          have : ∀ p ∈ coordsysTable, (MTok.scalar p.2 .none).lexed = some (.scalar p.2 .none) := by decide +kernel
          exact this _ (lookup_mem _ _ _ hg)
        unfold parse at hp
        rw [phase1_written q qn g hgne] at hp
        cases h3 : lines.mapM (regionShape q qn (gmeta g)) with
        | error e => rw [h3] at hp; simp [bind, Except.bind] at hp
        | ok rsh =>
          rw [h3] at hp
          simp only [bind, Except.bind] at hp
          refine ⟨g, rfl, ?_⟩
          have f1 := (mapM_ok_iff _ _ _).mp h1
          have f2 := (mapM_ok_iff _ _ _).mp h2
          have f3 := (mapM_ok_iff _ _ _).mp h3
          have f4 := (mapM_ok_iff _ _ _).mp hp
          have c1 := forall₂_comp (forall₂_comp (forall₂_comp f1 f2) f3) f4
          refine c1.imp ?_
          rintro r x ⟨sh, ⟨l, ⟨s, hs1, hs2⟩, hs3⟩, hs4⟩
          exact ⟨s, l, sh, hs1, hs2, hs3, hs4⟩

/-! ## 5. round trip: one region -/

theorem toShape_inv {q : Quirks} {cs : String} {r : WReg} {s : WShape} (h : toShape q cs r = .ok s) :
    s = { coordsys := cs, kind := r.kind, sky := r.sky,
          coord := flatten (srcPts q r) ++ r.sizes ++ r.angle.toList,
          mt := shapeMeta q r, incl := r.mt.get? .include } ∧
    r.kind ≠ .compound ∧ ¬ (r.sky && (isImage cs || (coordsysTable.lookup cs).isNone)) = true := by
  unfold toShape at h
  split_ifs at h with h1 h2
  simp only [Except.ok.injEq] at h
  exact ⟨h.symm, h1, h2⟩

theorem writeLine_inv {q : Quirks} {o : Opts} {s : WShape} {l : RLine} (h : writeLine q o s = .ok l) :
    ∃ items body, writeItems q (coordDiffers o s) (writerMeta q s) = .ok items ∧
      writeBody q o s (writerMeta q s) = .ok body ∧
      l = { excl := shapeExcl s, ann := (writerMeta q s).get? .type = some (.str "ann"),
            body := body, items := items } ∧
      ¬ (!isImage o.coordsys && !s.sky && o.radunit ≠ "") = true := by
  unfold writeLine at h
  by_cases hcheck : (coordsysTable.lookup s.coordsys).isNone = true
  · rw [if_pos hcheck] at h; cases h
  · rw [if_neg hcheck] at h
    cases hi : writeItems q (coordDiffers o s) (writerMeta q s) with
    | error e => rw [hi] at h; cases h
    | ok items =>
      rw [hi] at h
      simp only at h
      by_cases hc : (!isImage o.coordsys && !s.sky && o.radunit ≠ "") = true
      · rw [if_pos hc] at h; cases h
      · rw [if_neg hc] at h
        cases hb : writeBody q o s (writerMeta q s) with
        | error e => rw [hb] at h; cases h
        | ok body =>
          rw [hb] at h
          simp only [Except.ok.injEq] at h
          exact ⟨items, body, rfl, rfl, h.symm, hc⟩

theorem regionShape_inv {q : Quirks} {qn : String → String} {g : AList} {l : RLine} {sh : RShape}
    (h : regionShape q qn g l = .ok sh) :
    ∃ m k pts sz a, lineMeta qn g l = .ok m ∧ bodyGeom l.body = .ok (k, pts, sz, a) ∧
      sh = { coordsys := coordsysOf m, kind := k, pts := pts, sizes := sz, angle := a,
             mt := (bodyMeta m l.body).erase .coord, incl := !l.excl } ∧
      ¬ (isPointBody l.body && q.pointUnreadable) = true ∧
      ¬ (q.quotePairUnreadable && l.body.lenPairs.any (fun p => isQuoteUnit p.1.u || isQuoteUnit p.2.u)) = true := by
  unfold regionShape at h
  split_ifs at h with h1 h2
  cases hm : lineMeta qn g l with
  | error e => rw [hm] at h; simp [bind, Except.bind] at h
  | ok m =>
    rw [hm] at h
    simp only [bind, Except.bind] at h
    cases hb : bodyGeom l.body with
    | error e => rw [hb] at h; simp at h
    | ok t =>
      obtain ⟨k, pts, sz, a⟩ := t
      rw [hb] at h
      simp only [pure, Except.pure, Except.ok.injEq] at h
      exact ⟨m, k, pts, sz, a, rfl, rfl, h.symm, h1, h2⟩

theorem toRegion_inv {sh : RShape} {x : RReg} (h : toRegion sh = .ok x) :
    x = buildRegion sh ∧ checkCoords sh = .ok () ∧ checkSizes sh = .ok () := by
  unfold toRegion at h
  cases h1 : checkCoords sh with
  | error e => rw [h1] at h; simp at h
  | ok u =>
    rw [h1] at h
    cases h2 : checkSizes sh with
    | error e => rw [h2] at h; simp at h
    | ok u2 =>
      rw [h2] at h
      simp only [Except.ok.injEq] at h
      exact ⟨h.symm, rfl, rfl⟩

theorem buildRegion_vals (sh : RShape) :
    (buildRegion sh).sizes.map (·.v) = sh.sizes.map (·.v) ∧
    (buildRegion sh).pts = regionPts sh.coordsys sh.pts ∧ (buildRegion sh).frame = sh.coordsys := by
  unfold buildRegion
  refine ⟨?_, rfl, rfl⟩
  simp only
  split_ifs
  · simp [List.map_map, Function.comp_def, dropUnit]
  · rfl

/-! ### geometry -/

/-- within half a unit of the `p`-th decimal. -/
def Close (p : Nat) (x y : ℚ) : Prop := |y - x| ≤ 1 / 2 / (10 : ℚ) ^ p

/-- within one unit of the `p`-th decimal (ellipse FULL axes: half a unit on the semi-axis
that the file stores). -/
def Close2 (p : Nat) (x y : ℚ) : Prop := |y - x| ≤ 1 / (10 : ℚ) ^ p

theorem close_fmt (p : Nat) (x : ℚ) : Close p x (fmtDec p x).val := dec_roundtrip p x

theorem close2_fmt_half (p : Nat) (w : ℚ) : Close2 p w (2 * (fmtDec p (w / 2)).val) := by
  have h := dec_roundtrip p (w / 2)
  have hp : (0 : ℚ) < 10 ^ p := by positivity
  unfold Close2
  have e : 2 * (fmtDec p (w / 2)).val - w = 2 * ((fmtDec p (w / 2)).val - w / 2) := by ring
  rw [e, abs_mul, abs_of_pos (by norm_num : (0 : ℚ) < 2)]
  have : (1 : ℚ) / 10 ^ p = 2 * (1 / 2 / 10 ^ p) := by field_simp
  rw [this]
  exact mul_le_mul_of_nonneg_left h (by norm_num)

/-- all numbers of a parsed geometry, in the order of the writer's `coord` list. -/
def nums (pts : List (Q × Q)) (sz : List Q) (a : Option Q) : List ℚ :=
  flatten (pts.map fun p => (p.1.v, p.2.v)) ++ sz.map (·.v) ++ (a.map (·.v)).toList

theorem dec_toQ_v (d : Dec) (u : CUnit) : (Coord.toQ (.dec d u)).v = d.val := by
  cases u <;> rfl

theorem pairsOf_flatten (ps : List (ℚ × ℚ)) : pairsOf (flatten ps) = ps := by
  induction ps with
  | nil => rfl
  | cons a r ih => obtain ⟨x, y⟩ := a; simp [flatten, pairsOf, ih]

theorem poly_close (p : Nat) (cu : CUnit) (ps : List (ℚ × ℚ)) :
    List.Forall₂ (Close p) (flatten ps)
      (flatten ((ps.map fun t => ptQ ((Coord.dec (fmtDec p t.1) cu, Coord.dec (fmtDec p t.2) cu) : Pt)).map
        fun t => (t.1.v, t.2.v))) := by
  induction ps with
  | nil => exact List.Forall₂.nil
  | cons a r ih =>
    obtain ⟨x, y⟩ := a
    simp only [flatten, List.map_cons, ptQ, dec_toQ_v]
    exact List.Forall₂.cons (close_fmt p x) (List.Forall₂.cons (close_fmt p y) ih)

/-- what a region line denotes, as pure functions of its tokens (no failure). -/
def bKind : Body → Kind
  | .circle .. => .circle | .annulus .. => .circleannulus | .ellipse .. => .ellipse
  | .box .. => .rectangle | .centerbox .. => .rectangle | .rotbox .. => .rectangle
  | .poly .. => .polygon | .line .. => .line | .symbol .. => .point | .point .. => .point
  | .text .. => .text

def ptV (p : Pt) : ℚ × ℚ := (p.1.toQ.v, p.2.toQ.v)

def bPts : Body → List (ℚ × ℚ)
  | .circle c _ => [ptV c] | .annulus c _ _ => [ptV c] | .ellipse c _ _ _ => [ptV c]
  | .box c1 c2 => [((c1.1.toQ.v + c2.1.toQ.v) / 2, (c1.2.toQ.v + c2.2.toQ.v) / 2)]
  | .centerbox c _ _ => [ptV c] | .rotbox c _ _ _ => [ptV c]
  | .poly vs => vs.map ptV | .line p q => [ptV p, ptV q]
  | .symbol c _ => [ptV c] | .point c => [ptV c] | .text c _ => [ptV c]

def bSizes : Body → List ℚ
  | .circle _ r => [r.d.val] | .annulus _ a b => [a.d.val, b.d.val]
  | .ellipse _ a b _ => [2 * b.d.val, 2 * a.d.val]
  | .box c1 c2 => [|c1.1.toQ.v - c2.1.toQ.v|, |c1.2.toQ.v - c2.2.toQ.v|]
  | .centerbox _ w h => [w.d.val, h.d.val] | .rotbox _ w h _ => [w.d.val, h.d.val]
  | _ => []

def bAngle : Body → Option ℚ
  | .ellipse _ _ _ g => some g.d.val
  | .rotbox _ _ _ g => some g.d.val
  | _ => none

/-- the units of the longitudes a line denotes. -/
def bLonUnits : Body → List U
  | .circle c _ => [c.1.toQ.u] | .annulus c _ _ => [c.1.toQ.u] | .ellipse c _ _ _ => [c.1.toQ.u]
  | .box c1 _ => [c1.1.toQ.u]
  | .centerbox c _ _ => [c.1.toQ.u] | .rotbox c _ _ _ => [c.1.toQ.u]
  | .poly vs => vs.map fun p => p.1.toQ.u | .line p q => [p.1.toQ.u, q.1.toQ.u]
  | .symbol c _ => [c.1.toQ.u] | .point c => [c.1.toQ.u] | .text c _ => [c.1.toQ.u]

/-- the reader's geometry in terms of the tokens: whenever a line is accepted, the kind,
the coordinates, the sizes and the angle are these. -/
theorem bodyGeom_vals (b : Body) (k : Kind) (pts : List (Q × Q)) (sz : List Q) (a : Option Q)
    (h : bodyGeom b = .ok (k, pts, sz, a)) :
    k = bKind b ∧ pts.map (fun p => (p.1.v, p.2.v)) = bPts b ∧ sz.map (·.v) = bSizes b ∧
      a.map (·.v) = bAngle b := by
  cases b with
  | circle c r =>
    simp only [bodyGeom] at h
    rcases toQ_cases r with ⟨a1, h1, v1, -⟩ | ⟨h1, -⟩ <;>
      simp only [h1, bind, Except.bind, pure, Except.pure, Except.ok.injEq, Prod.mk.injEq, reduceCtorEq] at h
    obtain ⟨rfl, rfl, rfl, rfl⟩ := h
    simp [bKind, bPts, bSizes, bAngle, ptQ, ptV, v1]
  | annulus c r1 r2 =>
    simp only [bodyGeom] at h
    rcases toQ_cases r1 with ⟨a1, h1, v1, -⟩ | ⟨h1, -⟩ <;> rcases toQ_cases r2 with ⟨a2, h2, v2, -⟩ | ⟨h2, -⟩ <;>
      simp only [h1, h2, bind, Except.bind, pure, Except.pure, Except.ok.injEq, Prod.mk.injEq, reduceCtorEq] at h
    obtain ⟨rfl, rfl, rfl, rfl⟩ := h
    simp [bKind, bPts, bSizes, bAngle, ptQ, ptV, v1, v2]
  | ellipse c a' b' g =>
    simp only [bodyGeom] at h
    rcases toQ_cases a' with ⟨a1, h1, v1, -⟩ | ⟨h1, -⟩ <;> rcases toQ_cases b' with ⟨a2, h2, v2, -⟩ | ⟨h2, -⟩ <;>
      rcases toQ_cases g with ⟨a3, h3, v3, -⟩ | ⟨h3, -⟩ <;>
      simp only [h1, h2, h3, bind, Except.bind, pure, Except.pure, Except.ok.injEq, Prod.mk.injEq, reduceCtorEq] at h
    obtain ⟨rfl, rfl, rfl, rfl⟩ := h
    simp only [bKind, bPts, bSizes, bAngle, ptQ, ptV, List.map_cons, List.map_nil, Q.scale, v1, v2, v3,
      Option.map_some, true_and]
    refine ⟨?_, ?_⟩
    · congr 1 <;> [ring; (congr 1; ring)]
    · congr 1; ring
  | box c1 c2 =>
    simp only [bodyGeom] at h
    cases hx : boxMid c1.1.toQ c2.1.toQ with
    | error e => rw [hx] at h; simp [bind, Except.bind] at h
    | ok vx =>
      cases hy : boxMid c1.2.toQ c2.2.toQ with
      | error e => rw [hx, hy] at h; simp [bind, Except.bind] at h
      | ok vy =>
        rw [hx, hy] at h
        simp only [bind, Except.bind, pure, Except.pure, Except.ok.injEq, Prod.mk.injEq] at h
        obtain ⟨rfl, rfl, rfl, rfl⟩ := h
        unfold boxMid at hx hy
        split_ifs at hx hy
        simp only [Except.ok.injEq] at hx hy
        subst hx; subst hy
        simp [bKind, bPts, bSizes, bAngle]
  | centerbox c w hh =>
    simp only [bodyGeom] at h
    rcases toQ_cases w with ⟨a1, h1, v1, -⟩ | ⟨h1, -⟩ <;> rcases toQ_cases hh with ⟨a2, h2, v2, -⟩ | ⟨h2, -⟩ <;>
      simp only [h1, h2, bind, Except.bind, pure, Except.pure, Except.ok.injEq, Prod.mk.injEq, reduceCtorEq] at h
    obtain ⟨rfl, rfl, rfl, rfl⟩ := h
    simp [bKind, bPts, bSizes, bAngle, ptQ, ptV, v1, v2]
  | rotbox c w hh g =>
    simp only [bodyGeom] at h
    rcases toQ_cases w with ⟨a1, h1, v1, -⟩ | ⟨h1, -⟩ <;> rcases toQ_cases hh with ⟨a2, h2, v2, -⟩ | ⟨h2, -⟩ <;>
      rcases toQ_cases g with ⟨a3, h3, v3, -⟩ | ⟨h3, -⟩ <;>
      simp only [h1, h2, h3, bind, Except.bind, pure, Except.pure, Except.ok.injEq, Prod.mk.injEq, reduceCtorEq] at h
    obtain ⟨rfl, rfl, rfl, rfl⟩ := h
    simp [bKind, bPts, bSizes, bAngle, ptQ, ptV, v1, v2, v3]
  | poly vs =>
    simp only [bodyGeom] at h
    split_ifs at h
    simp only [Except.ok.injEq, Prod.mk.injEq] at h
    obtain ⟨rfl, rfl, rfl, rfl⟩ := h
    simp [bKind, bPts, bSizes, bAngle, ptQ, ptV, List.map_map, Function.comp_def]
  | line p q =>
    simp only [bodyGeom, Except.ok.injEq, Prod.mk.injEq] at h
    obtain ⟨rfl, rfl, rfl, rfl⟩ := h
    simp [bKind, bPts, bSizes, bAngle, ptQ, ptV]
  | symbol c sy =>
    simp only [bodyGeom] at h
    split_ifs at h
    simp only [Except.ok.injEq, Prod.mk.injEq] at h
    obtain ⟨rfl, rfl, rfl, rfl⟩ := h
    simp [bKind, bPts, bSizes, bAngle, ptQ, ptV]
  | point c =>
    simp only [bodyGeom, Except.ok.injEq, Prod.mk.injEq] at h
    obtain ⟨rfl, rfl, rfl, rfl⟩ := h
    simp [bKind, bPts, bSizes, bAngle, ptQ, ptV]
  | text c t =>
    simp only [bodyGeom, Except.ok.injEq, Prod.mk.injEq] at h
    obtain ⟨rfl, rfl, rfl, rfl⟩ := h
    simp [bKind, bPts, bSizes, bAngle, ptQ, ptV]

/-- … and the units of the longitudes are those of the tokens. -/
theorem bodyGeom_lonUnits (b : Body) (k : Kind) (pts : List (Q × Q)) (sz : List Q) (a : Option Q)
    (h : bodyGeom b = .ok (k, pts, sz, a)) : pts.map (fun p => p.1.u) = bLonUnits b := by
  cases b with
  | circle c r =>
    simp only [bodyGeom] at h
    rcases toQ_cases r with ⟨a1, h1, v1, -⟩ | ⟨h1, -⟩ <;>
      simp only [h1, bind, Except.bind, pure, Except.pure, Except.ok.injEq, Prod.mk.injEq, reduceCtorEq] at h
    obtain ⟨rfl, rfl, rfl, rfl⟩ := h
    simp [bLonUnits, ptQ, List.map_map, Function.comp_def]
  | annulus c r1 r2 =>
    simp only [bodyGeom] at h
    rcases toQ_cases r1 with ⟨a1, h1, v1, -⟩ | ⟨h1, -⟩ <;> rcases toQ_cases r2 with ⟨a2, h2, v2, -⟩ | ⟨h2, -⟩ <;>
      simp only [h1, h2, bind, Except.bind, pure, Except.pure, Except.ok.injEq, Prod.mk.injEq, reduceCtorEq] at h
    obtain ⟨rfl, rfl, rfl, rfl⟩ := h
    simp [bLonUnits, ptQ, List.map_map, Function.comp_def]
  | ellipse c a' b' g =>
    simp only [bodyGeom] at h
    rcases toQ_cases a' with ⟨a1, h1, v1, -⟩ | ⟨h1, -⟩ <;> rcases toQ_cases b' with ⟨a2, h2, v2, -⟩ | ⟨h2, -⟩ <;>
      rcases toQ_cases g with ⟨a3, h3, v3, -⟩ | ⟨h3, -⟩ <;>
      simp only [h1, h2, h3, bind, Except.bind, pure, Except.pure, Except.ok.injEq, Prod.mk.injEq, reduceCtorEq] at h
    obtain ⟨rfl, rfl, rfl, rfl⟩ := h
    simp [bLonUnits, ptQ]
  | box c1 c2 =>
    simp only [bodyGeom] at h
    cases hx : boxMid c1.1.toQ c2.1.toQ with
    | error e => rw [hx] at h; simp [bind, Except.bind] at h
    | ok vx =>
      cases hy : boxMid c1.2.toQ c2.2.toQ with
      | error e => rw [hx, hy] at h; simp [bind, Except.bind] at h
      | ok vy =>
        rw [hx, hy] at h
        simp only [bind, Except.bind, pure, Except.pure, Except.ok.injEq, Prod.mk.injEq] at h
        obtain ⟨rfl, rfl, rfl, rfl⟩ := h
        unfold boxMid at hx hy
        split_ifs at hx hy
        simp only [Except.ok.injEq] at hx hy
        subst hx; subst hy
        simp [bLonUnits]
  | centerbox c w hh =>
    simp only [bodyGeom] at h
    rcases toQ_cases w with ⟨a1, h1, v1, -⟩ | ⟨h1, -⟩ <;> rcases toQ_cases hh with ⟨a2, h2, v2, -⟩ | ⟨h2, -⟩ <;>
      simp only [h1, h2, bind, Except.bind, pure, Except.pure, Except.ok.injEq, Prod.mk.injEq, reduceCtorEq] at h
    obtain ⟨rfl, rfl, rfl, rfl⟩ := h
    simp [bLonUnits, ptQ, List.map_map, Function.comp_def]
  | rotbox c w hh g =>
    simp only [bodyGeom] at h
    rcases toQ_cases w with ⟨a1, h1, v1, -⟩ | ⟨h1, -⟩ <;> rcases toQ_cases hh with ⟨a2, h2, v2, -⟩ | ⟨h2, -⟩ <;>
      rcases toQ_cases g with ⟨a3, h3, v3, -⟩ | ⟨h3, -⟩ <;>
      simp only [h1, h2, h3, bind, Except.bind, pure, Except.pure, Except.ok.injEq, Prod.mk.injEq, reduceCtorEq] at h
    obtain ⟨rfl, rfl, rfl, rfl⟩ := h
    simp [bLonUnits, ptQ, List.map_map, Function.comp_def]
  | poly vs =>
    simp only [bodyGeom] at h
    split_ifs at h
    simp only [Except.ok.injEq, Prod.mk.injEq] at h
    obtain ⟨rfl, rfl, rfl, rfl⟩ := h
    simp [bLonUnits, ptQ, List.map_map, Function.comp_def]
  | line p q =>
    simp only [bodyGeom, Except.ok.injEq, Prod.mk.injEq] at h
    obtain ⟨rfl, rfl, rfl, rfl⟩ := h
    simp [bLonUnits, ptQ, List.map_map, Function.comp_def]
  | symbol c sy =>
    simp only [bodyGeom] at h
    split_ifs at h
    simp only [Except.ok.injEq, Prod.mk.injEq] at h
    obtain ⟨rfl, rfl, rfl, rfl⟩ := h
    simp [bLonUnits, ptQ, List.map_map, Function.comp_def]
  | point c =>
    simp only [bodyGeom, Except.ok.injEq, Prod.mk.injEq] at h
    obtain ⟨rfl, rfl, rfl, rfl⟩ := h
    simp [bLonUnits, ptQ, List.map_map, Function.comp_def]
  | text c t =>
    simp only [bodyGeom, Except.ok.injEq, Prod.mk.injEq] at h
    obtain ⟨rfl, rfl, rfl, rfl⟩ := h
    simp [bLonUnits, ptQ, List.map_map, Function.comp_def]

/-- the parameter lists a region class has (`regions_attributes`). -/
def arityOK : Kind → List (ℚ × ℚ) → List ℚ → Option ℚ → Bool
  | .circle, [_], [_], none => true
  | .circleannulus, [_], [_, _], none => true
  | .ellipse, [_], [_, _], some _ => true
  | .rectangle, [_], [_, _], some _ => true
  | .polygon, _, [], none => true
  | .line, [_, _], [], none => true
  | .point, [_], [], none => true
  | .text, [_], [], none => true
  | _, _, _, _ => false

def RelPt (R : ℚ → ℚ → Prop) (a b : ℚ × ℚ) : Prop := R a.1 b.1 ∧ R a.2 b.2

/-- a geometry clause between a region and what a line denotes: `R` number by number, `R2`
for the full axes of an ellipse. -/
def GeomRel (R R2 : ℚ → ℚ → Prop) (kind : Kind) (pts : List (ℚ × ℚ)) (sizes : List ℚ) (angle : Option ℚ)
    (pts' : List (ℚ × ℚ)) (sizes' : List ℚ) (angle' : Option ℚ) : Prop :=
  List.Forall₂ (RelPt R) pts pts' ∧
  (if kind = .ellipse then List.Forall₂ R2 sizes sizes' else List.Forall₂ R sizes sizes') ∧
  (match angle, angle' with
    | some x, some y => R x y
    | none, none => True
    | _, _ => False)

/-- the property's geometry clause: half a unit of the precision (ellipse full axes: one unit). -/
abbrev GeomClose (p : Nat) := GeomRel (Close p) (Close2 p)

theorem poly_closePt (R : ℚ → ℚ → Prop) (p : Nat) (hR : ∀ x, R x (fmtDec p x).val) (cu : CUnit)
    (ps : List (ℚ × ℚ)) :
    List.Forall₂ (RelPt R) ps
      ((ps.map fun t => ((Coord.dec (fmtDec p t.1) cu, Coord.dec (fmtDec p t.2) cu) : Pt)).map ptV) := by
  induction ps with
  | nil => exact List.Forall₂.nil
  | cons a r ih =>
    simp only [List.map_cons, ptV, dec_toQ_v]
    exact List.Forall₂.cons ⟨hR a.1, hR a.2⟩ ih

/-- what the writer puts on the line denotes the region's class and its geometry within
half a unit of the requested precision (ellipse full axes: one unit); the ellipse line
carries `[height/2, width/2]` and the reader's swap/doubling undoes exactly that; the
rotation angle is written as it is. -/
theorem written_geometry (R R2 : ℚ → ℚ → Prop) (q : Quirks) (o : Opts)
    (hR : ∀ x, R x (fmtDec o.prec x).val) (hR2 : ∀ w, R2 w (2 * (fmtDec o.prec (w / 2)).val)) (cs : String) (kind : Kind) (sky : Bool)
    (pts : List (ℚ × ℚ)) (sizes : List ℚ) (angle : Option ℚ) (mt m : AList) (incl : Option MVal)
    (b : Body) (hA : arityOK kind pts sizes angle = true)
    (hw : writeBody q o ⟨cs, kind, sky, flatten pts ++ sizes ++ angle.toList, mt, incl⟩ m = .ok b) :
    bKind b = kind ∧ GeomRel R R2 kind pts sizes angle (bPts b) (bSizes b) (bAngle b) := by
  unfold arityOK at hA
  split at hA <;> try (exact absurd hA Bool.false_ne_true)
  · rename_i c r
    simp only [writeBody, flatten, List.cons_append, List.nil_append, Option.toList_none, List.append_nil,
      Except.ok.injEq] at hw
    subst hw
    refine ⟨rfl, ?_, ?_, trivial⟩
    · exact List.Forall₂.cons ⟨by simpa [ptV, dec_toQ_v] using hR c.1,
        by simpa [ptV, dec_toQ_v] using hR c.2⟩ List.Forall₂.nil
    · simp only [reduceCtorEq, if_false, bSizes]
      exact List.Forall₂.cons (hR _) List.Forall₂.nil
  · rename_i c r1 r2
    simp only [writeBody, flatten, List.cons_append, List.nil_append, Option.toList_none, List.append_nil,
      Except.ok.injEq] at hw
    subst hw
    refine ⟨rfl, ?_, ?_, trivial⟩
    · exact List.Forall₂.cons ⟨by simpa [ptV, dec_toQ_v] using hR c.1,
        by simpa [ptV, dec_toQ_v] using hR c.2⟩ List.Forall₂.nil
    · simp only [reduceCtorEq, if_false, bSizes]
      exact List.Forall₂.cons (hR _) (List.Forall₂.cons (hR _) List.Forall₂.nil)
  · rename_i c w h a
    simp only [writeBody, flatten, List.cons_append, List.nil_append, Option.toList_some,
      Except.ok.injEq] at hw
    subst hw
    refine ⟨rfl, ?_, ?_, ?_⟩
    · exact List.Forall₂.cons ⟨by simpa [ptV, dec_toQ_v] using hR c.1,
        by simpa [ptV, dec_toQ_v] using hR c.2⟩ List.Forall₂.nil
    · simp only [if_true, bSizes]
      exact List.Forall₂.cons (hR2 _) (List.Forall₂.cons (hR2 _) List.Forall₂.nil)
    · simp only [bAngle]
      have : a / 2 * 2 = a := by ring
      rw [this]; exact hR _
  · rename_i c w h a
    simp only [writeBody, flatten, List.cons_append, List.nil_append, Option.toList_some,
      Except.ok.injEq] at hw
    subst hw
    refine ⟨rfl, ?_, ?_, ?_⟩
    · exact List.Forall₂.cons ⟨by simpa [ptV, dec_toQ_v] using hR c.1,
        by simpa [ptV, dec_toQ_v] using hR c.2⟩ List.Forall₂.nil
    · simp only [reduceCtorEq, if_false, bSizes]
      exact List.Forall₂.cons (hR _) (List.Forall₂.cons (hR _) List.Forall₂.nil)
    · simp only [bAngle]; exact hR _
  · simp only [writeBody, List.append_nil, Option.toList_none, pairsOf_flatten, Except.ok.injEq] at hw
    subst hw
    refine ⟨rfl, ?_, ?_, trivial⟩
    · simp only [bPts]; exact poly_closePt R _ hR _ _
    · simp only [reduceCtorEq, if_false, bSizes]; exact List.Forall₂.nil
  · rename_i p1 p2
    simp only [writeBody, flatten, List.cons_append, List.nil_append, Option.toList_none, List.append_nil,
      Except.ok.injEq] at hw
    subst hw
    refine ⟨rfl, ?_, ?_, trivial⟩
    · exact List.Forall₂.cons ⟨by simpa [ptV, dec_toQ_v] using hR p1.1,
        by simpa [ptV, dec_toQ_v] using hR p1.2⟩
        (List.Forall₂.cons ⟨by simpa [ptV, dec_toQ_v] using hR p2.1,
        by simpa [ptV, dec_toQ_v] using hR p2.2⟩ List.Forall₂.nil)
    · simp only [reduceCtorEq, if_false, bSizes]; exact List.Forall₂.nil
  · rename_i c
    simp only [writeBody, flatten, List.cons_append, List.nil_append, Option.toList_none, List.append_nil] at hw
    split at hw <;> simp only [Except.ok.injEq] at hw <;> subst hw <;>
    · refine ⟨rfl, ?_, ?_, trivial⟩
      · exact List.Forall₂.cons ⟨by simpa [ptV, dec_toQ_v] using hR c.1,
          by simpa [ptV, dec_toQ_v] using hR c.2⟩ List.Forall₂.nil
      · simp only [reduceCtorEq, if_false, bSizes]; exact List.Forall₂.nil
  · rename_i c
    simp only [writeBody, flatten, List.cons_append, List.nil_append, Option.toList_none, List.append_nil] at hw
    split at hw <;> simp only [Except.ok.injEq, reduceCtorEq] at hw
    subst hw
    refine ⟨rfl, ?_, ?_, trivial⟩
    · exact List.Forall₂.cons ⟨by simpa [ptV, dec_toQ_v] using hR c.1,
        by simpa [ptV, dec_toQ_v] using hR c.2⟩ List.Forall₂.nil
    · simp only [reduceCtorEq, if_false, bSizes]; exact List.Forall₂.nil

/-- the unit the writer puts on coordinates: `deg`, or `pix` under `coordsys='image'` (F21). -/
def cuOf (q : Quirks) (o : Opts) : CUnit := if !q.pixAsDeg && isImage o.coordsys then .pix else .deg

def cQ (q : Quirks) (o : Opts) (x : ℚ) : Q := Coord.toQ (.dec (fmtDec o.prec x) (cuOf q o))

/-- the unit every written longitude is read with. -/
def lonU (q : Quirks) (o : Opts) : U := (Coord.toQ (.dec ⟨false, 0, 0⟩ (cuOf q o))).u

theorem dec_lonU (q : Quirks) (o : Opts) (d : Dec) : (Coord.toQ (.dec d (cuOf q o))).u = lonU q o := by
  unfold lonU; cases cuOf q o <;> rfl

theorem lonU_cases (q : Quirks) (o : Opts) : lonU q o = .deg ∨ lonU q o = .none := by
  unfold lonU cuOf; split_ifs <;> simp [Coord.toQ]

/-- all longitudes of a written line carry that unit. -/
theorem written_lonUnits (q : Quirks) (o : Opts) (cs : String) (kind : Kind) (sky : Bool)
    (pts : List (ℚ × ℚ)) (sizes : List ℚ) (angle : Option ℚ) (mt m : AList) (incl : Option MVal)
    (b : Body) (hA : arityOK kind pts sizes angle = true)
    (hw : writeBody q o ⟨cs, kind, sky, flatten pts ++ sizes ++ angle.toList, mt, incl⟩ m = .ok b) :
    ∀ u ∈ bLonUnits b, u = lonU q o := by
  unfold arityOK at hA
  split at hA <;> try (exact absurd hA Bool.false_ne_true)
  all_goals
    simp only [writeBody, flatten, List.cons_append, List.nil_append, Option.toList_none, Option.toList_some,
      List.append_nil, pairsOf_flatten] at hw
  · simp only [Except.ok.injEq] at hw; subst hw
    intro u hu; simp only [bLonUnits, List.mem_singleton] at hu; subst hu; exact dec_lonU q o _
  · simp only [Except.ok.injEq] at hw; subst hw
    intro u hu; simp only [bLonUnits, List.mem_singleton] at hu; subst hu; exact dec_lonU q o _
  · simp only [Except.ok.injEq] at hw; subst hw
    intro u hu; simp only [bLonUnits, List.mem_singleton] at hu; subst hu; exact dec_lonU q o _
  · simp only [Except.ok.injEq] at hw; subst hw
    intro u hu; simp only [bLonUnits, List.mem_singleton] at hu; subst hu; exact dec_lonU q o _
  · simp only [Except.ok.injEq] at hw; subst hw
    intro u hu
    simp only [bLonUnits, List.map_map, List.mem_map, Function.comp_def] at hu
    obtain ⟨t, -, rfl⟩ := hu
    exact dec_lonU q o _
  · simp only [Except.ok.injEq] at hw; subst hw
    intro u hu
    simp only [bLonUnits, List.mem_cons, List.mem_singleton, List.not_mem_nil, or_false] at hu
    rcases hu with rfl | rfl <;> exact dec_lonU q o _
  · split at hw <;> simp only [Except.ok.injEq] at hw <;> subst hw <;>
    · intro u hu; simp only [bLonUnits, List.mem_singleton] at hu; subst hu; exact dec_lonU q o _
  · split at hw <;> simp only [Except.ok.injEq, reduceCtorEq] at hw
    subst hw
    intro u hu; simp only [bLonUnits, List.mem_singleton] at hu; subst hu; exact dec_lonU q o _

/-! ### longitudes are stored wrapped into [0, 360) -/

/-- `v mod 360` into `[0, 360)`. -/
def wrap360 (v : ℚ) : ℚ := v - 360 * ⌊v / 360⌋

theorem turn_nonneg (u : U) : 0 ≤ turn u := by
  cases u <;> simp only [turn] <;> try norm_num
  unfold radDeg; norm_num

theorem wrapLon_u (a : Q) : (wrapLon a).u = a.u := by
  unfold wrapLon; split_ifs <;> rfl

theorem wrapLon_v (a : Q) :
    (wrapLon a).v = if turn a.u = 0 then a.v else a.v - turn a.u * ⌊a.v / turn a.u⌋ := by
  unfold wrapLon; split_ifs <;> rfl

theorem wrap_range (t v : ℚ) (ht : 0 < t) : 0 ≤ v - t * ⌊v / t⌋ ∧ v - t * ⌊v / t⌋ < t := by
  have h1 := Int.floor_le (v / t)
  have h2 := Int.lt_floor_add_one (v / t)
  rw [le_div_iff₀ ht] at h1
  rw [div_lt_iff₀ ht] at h2
  constructor <;> nlinarith

theorem wrap_idem (t v : ℚ) (ht : 0 < t) :
    (v - t * ⌊v / t⌋) - t * ⌊(v - t * ⌊v / t⌋) / t⌋ = v - t * ⌊v / t⌋ := by
  obtain ⟨h0, h1⟩ := wrap_range t v ht
  have : ⌊(v - t * ⌊v / t⌋) / t⌋ = 0 := by
    rw [Int.floor_eq_zero_iff]
    exact ⟨div_nonneg h0 ht.le, (div_lt_one ht).mpr h1⟩
  rw [this]; simp

/-- wrapping an already wrapped longitude (same unit) changes nothing. -/
theorem wrapLon_idem (a b : Q) (hu : b.u = a.u) (hv : b.v = (wrapLon a).v) : (wrapLon b).v = b.v := by
  rw [wrapLon_v, hu]
  by_cases ht : turn a.u = 0
  · rw [if_pos ht]
  · rw [if_neg ht, hv, wrapLon_v, if_neg ht]
    exact wrap_idem _ _ (lt_of_le_of_ne (turn_nonneg _) (Ne.symm ht))

/-! ### metadata: dictionaries have distinct keys -/

def keys (m : AList) : List Key := m.map Prod.fst

theorem get?_none_of_not_mem (m : AList) (k : Key) (h : k ∉ keys m) : m.get? k = none := by
  induction m with
  | nil => rfl
  | cons a r ih =>
    obtain ⟨ka, va⟩ := a
    simp only [keys, List.map_cons, List.mem_cons, not_or] at h
    simp only [AList.get?]
    rw [if_neg (fun e => h.1 e.symm)]
    exact ih h.2

theorem keys_set (m : AList) (k : Key) (v : MVal) :
    keys (m.set k v) = if k ∈ keys m then keys m else keys m ++ [k] := by
  induction m with
  | nil => simp [AList.set, keys]
  | cons a r ih =>
    obtain ⟨ka, va⟩ := a
    unfold AList.set
    by_cases h : ka = k
    · subst h; simp [keys]
    · simp only [h, if_false]
      have hne : ¬ k = ka := fun e => h e.symm
      simp only [keys, List.map_cons, List.mem_cons, hne, false_or] at ih ⊢
      rw [ih]
      split_ifs with hm <;> simp [hm]

theorem nodup_set (m : AList) (k : Key) (v : MVal) (h : (keys m).Nodup) : (keys (m.set k v)).Nodup := by
  rw [keys_set]
  split_ifs with hk
  · exact h
  · exact List.Nodup.append h (List.nodup_singleton k) (by simpa using hk)

theorem nodup_filter (m : AList) (f : Key × MVal → Bool) (h : (keys m).Nodup) : (keys (m.filter f)).Nodup := by
  unfold keys at *
  exact List.Nodup.sublist (List.Sublist.map _ List.filter_sublist) h

theorem nodup_erase (m : AList) (k : Key) (h : (keys m).Nodup) : (keys (m.erase k)).Nodup :=
  nodup_filter m _ h

theorem nodup_update (m o : AList) (h : (keys m).Nodup) : (keys (AList.update m o)).Nodup := by
  unfold AList.update
  induction o generalizing m with
  | nil => exact h
  | cons a r ih => exact ih _ (nodup_set m a.1 a.2 h)

theorem nodup_shapeMeta (q : Quirks) (r : WReg) (h : (keys r.mt).Nodup) : (keys (shapeMeta q r)).Nodup := by
  have hm : (keys (mergedMeta r)).Nodup := nodup_update _ _ h
  unfold shapeMeta
  split_ifs
  · exact nodup_set _ _ _ (nodup_erase _ _ hm)
  · exact nodup_set _ _ _ (nodup_erase _ _ hm)
  · exact nodup_set _ _ _ hm
  · exact hm

/-! ### metadata: what the writer's items assign -/

theorem assigned_append (g : Bool) (k : Key) (a b : List MItem) :
    assigned g k (a ++ b) = match assigned g k b with
      | some v => some v
      | none => assigned g k a := by
  induction a with
  | nil => simp only [List.nil_append, assigned]; cases assigned g k b <;> rfl
  | cons it r ih =>
    simp only [List.cons_append, assigned, ih]
    cases assigned g k b with
    | some v => rfl
    | none => rfl

/-- the writer's vocabulary is spelled the way the reader spells it. -/
theorem ofString_toString (q : Quirks) (k : Key) (h : writerValid q k = true) : Key.ofString k.toString = k := by
  cases k <;> first | rfl | (simp [writerValid] at h)

theorem itemKey_toString (q : Quirks) (k : Key) (h : writerValid q k = true) : itemKey false k.toString = k := by
  unfold itemKey; simpa using ofString_toString q k h

/-- `key=value` pairs: the reader sees, for every key that is written as a pair, the text of
the value the dictionary holds for it. -/
theorem assigned_pairItems (q : Quirks) (m : AList) (k : Key) (hn : (keys m).Nodup)
    (hv : ∀ p ∈ m, writerValid q p.1 = true) :
    assigned false k (pairItems q m) =
      if writerSkip q k then none
      else match m.get? k with
        | some v => if (pairTok k v).isEmptyScalar then none else some (tokValue false k (pairTok k v))
        | none => none := by
  induction m with
  | nil => simp [pairItems, assigned, AList.get?]
  | cons a r ih =>
    obtain ⟨ka, va⟩ := a
    have hn' : (keys r).Nodup := by simp only [keys, List.map_cons, List.nodup_cons] at hn; exact hn.2
    have hka : ka ∉ keys r := by simp only [keys, List.map_cons, List.nodup_cons] at hn; exact hn.1
    have hv' : ∀ p ∈ r, writerValid q p.1 = true := fun p hp => hv p (List.mem_cons_of_mem _ hp)
    have hva : writerValid q ka = true := hv (ka, va) List.mem_cons_self
    have ih' := ih hn' hv'
    unfold pairItems at ih' ⊢
    by_cases hs : writerSkip q ka
    · simp only [List.filter_cons, hs, Bool.not_true, Bool.false_eq_true, if_false]
      rw [ih']
      by_cases hk : ka = k
      · subst hk; simp [hs]
      · simp [AList.get?, hk]
    · simp only [List.filter_cons, hs, Bool.not_false, if_true, List.map_cons, assigned]
      rw [ih']
      by_cases hk : ka = k
      · subst hk
        simp only [hs, Bool.false_eq_true, if_false, get?_none_of_not_mem r ka hka, AList.get?, if_true,
          itemKey_toString q ka hva]
        by_cases he : (pairTok ka va).isEmptyScalar <;> simp [he]
      · have : ¬ itemKey false ka.toString = k := by rw [itemKey_toString q ka hva]; exact hk
        simp only [AList.get?, hk, if_false, this, decide_false, Bool.and_false, Bool.false_eq_true]
        by_cases hsk : writerSkip q k
        · simp [hsk]
        · simp only [hsk, Bool.false_eq_true, if_false]
          cases hr : AList.get? r k with
          | none => rfl
          | some v => simp only; split_ifs <;> rfl

theorem listItem_inv (n : String) (sp : Bool) (ov : Option MVal) (t : List MItem)
    (h : listItem n sp ov = .ok t) : t = [] ∨ ∃ tok, t = [.pair n tok] := by
  unfold listItem at h
  split at h
  · split at h
    · simp only [Except.ok.injEq] at h; exact Or.inr ⟨_, h.symm⟩
    · cases h
  · simp only [Except.ok.injEq] at h; exact Or.inl h.symm

theorem assigned_single_ne (k : Key) (n : String) (tok : MTok) (h : itemKey false n ≠ k) :
    assigned false k [.pair n tok] = none := by
  simp [assigned, h]

/-- the appended list items only ever name `labeloff`, `range`, `corr`. -/
theorem assigned_tail_none (q : Quirks) (m : AList) (tail : List MItem) (h : tailItems q m = .ok tail)
    (k : Key) (h1 : k ≠ .labeloff) (h2 : k ≠ .range) (h3 : k ≠ .corr) : assigned false k tail = none := by
  have k1 : itemKey false "labeloff" = Key.labeloff := by decide +kernel
  have k2 : itemKey false "range" = Key.range := by decide +kernel
  have k3 : itemKey false "corr" = Key.corr := by decide +kernel
  unfold tailItems at h
  split at h
  case h_1 t1 t2 t3 e1 e2 e3 =>
    simp only [Except.ok.injEq] at h
    subst h
    have a1 : assigned false k t1 = none := by
      rcases listItem_inv _ _ _ _ e1 with rfl | ⟨tok, rfl⟩
      · rfl
      · exact assigned_single_ne _ _ _ (by rw [k1]; exact Ne.symm h1)
    have a2 : assigned false k t2 = none := by
      rcases listItem_inv _ _ _ _ e2 with rfl | ⟨tok, rfl⟩
      · rfl
      · exact assigned_single_ne _ _ _ (by rw [k2]; exact Ne.symm h2)
    have a3 : assigned false k t3 = none := by
      rcases listItem_inv _ _ _ _ e3 with rfl | ⟨tok, rfl⟩
      · rfl
      · exact assigned_single_ne _ _ _ (by rw [k3]; exact Ne.symm h3)
    rw [assigned_append, assigned_append, a3, a2, a1]
  all_goals cases h

/-- the items of a written line (no `coord=` inline): for a key that is not one of the
appended lists, exactly the `key=value` pairs count. -/
theorem assigned_written (q : Quirks) (m : AList) (items : List MItem)
    (h : writeItems q none m = .ok items)
    (k : Key) (h1 : k ≠ .labeloff) (h2 : k ≠ .range) (h3 : k ≠ .corr) :
    assigned false k items = assigned false k (pairItems q m) := by
  unfold writeItems at h
  cases ht : tailItems q m with
  | error e => rw [ht] at h; cases h
  | ok tail =>
    rw [ht] at h
    simp only [Except.ok.injEq, headItems] at h
    subst h
    have hz := assigned_tail_none q m tail ht k h1 h2 h3
    unfold assemble
    split_ifs with hc
    · simp only [Bool.and_eq_true, List.isEmpty_iff] at hc
      rw [hc.1]
      simp [assigned, hz]
    · rw [assigned_append, hz]

/-! ### metadata: the reader's split into `meta` and `visual` -/

theorem split_fold (m : AList) (hn : (keys m).Nodup) (a b : AList) (k : Key) :
    ((m.foldl (fun (acc : AList × AList) p =>
        if isViz p.1 then (acc.1, acc.2.set p.1 p.2) else (acc.1.set p.1 p.2, acc.2)) (a, b)).1.get? k =
      if isViz k then a.get? k else match m.get? k with
        | some v => some v
        | none => a.get? k) ∧
    ((m.foldl (fun (acc : AList × AList) p =>
        if isViz p.1 then (acc.1, acc.2.set p.1 p.2) else (acc.1.set p.1 p.2, acc.2)) (a, b)).2.get? k =
      if isViz k then (match m.get? k with
        | some v => some v
        | none => b.get? k) else b.get? k) := by
  induction m generalizing a b with
  | nil => simp [AList.get?]
  | cons p r ih =>
    obtain ⟨kp, vp⟩ := p
    have hn' : (keys r).Nodup := by simp only [keys, List.map_cons, List.nodup_cons] at hn; exact hn.2
    have hkp : kp ∉ keys r := by simp only [keys, List.map_cons, List.nodup_cons] at hn; exact hn.1
    simp only [List.foldl_cons]
    by_cases hv : isViz kp
    · simp only [hv, if_true]
      obtain ⟨i1, i2⟩ := ih hn' a (b.set kp vp)
      rw [i1, i2]
      by_cases hk : kp = k
      · subst hk
        simp [hv, AList.get?, get?_none_of_not_mem r kp hkp, get?_set_self]
      · simp only [AList.get?, hk, if_false, get?_set_ne _ _ hk]
        simp
    · simp only [hv, Bool.false_eq_true, if_false]
      obtain ⟨i1, i2⟩ := ih hn' (a.set kp vp) b
      rw [i1, i2]
      by_cases hk : kp = k
      · subst hk
        simp [hv, AList.get?, get?_none_of_not_mem r kp hkp, get?_set_self]
      · simp only [AList.get?, hk, if_false, get?_set_ne _ _ hk]
        simp

/-- `to_region`: visual keys go to `visual`, the others to `meta`; `include` is the sign;
`label` defaults to the text of a text region. -/
theorem splitMeta_get (m : AList) (hn : (keys m).Nodup) (incl : Bool) (k : Key) :
    ((splitMeta m incl).2.get? k = if isViz k then m.get? k else none) ∧
    ((splitMeta m incl).1.get? .include = some (.bool incl)) ∧
    (isViz k = false → k ≠ .include → k ≠ .label → (splitMeta m incl).1.get? k = m.get? k) ∧
    (∀ v, m.get? .label = some v → (splitMeta m incl).1.get? .label = some v) := by
  unfold splitMeta
  simp only
  refine ⟨?_, get?_set_self _ _ _, ?_, ?_⟩
  · rw [(split_fold m hn _ [] k).2]
    split_ifs
    · cases m.get? k <;> simp [AList.get?]
    · rfl
  · intro hv h1 h2
    rw [get?_set_ne _ _ (Ne.symm h1), (split_fold m hn _ [] k).1]
    simp only [hv, Bool.false_eq_true, if_false]
    cases hm : m.get? k with
    | some v => rfl
    | none =>
      simp only
      split_ifs
      · simp [AList.get?, Ne.symm h2]
      · rfl
  · intro v hv
    rw [get?_set_ne _ _ (by decide), (split_fold m hn _ [] .label).1]
    have : isViz Key.label = false := rfl
    simp [this, hv]

theorem nodup_readItems (g : Bool) (items : List MItem) (m m' : AList)
    (h : readItems g m items = .ok m') (hn : (keys m).Nodup) : (keys m').Nodup := by
  induction items generalizing m with
  | nil => simp only [readItems, Except.ok.injEq] at h; subst h; exact hn
  | cons it r ih =>
    simp only [readItems] at h
    cases h1 : readItem g m it with
    | error e => rw [h1] at h; simp [bind, Except.bind] at h
    | ok m1 =>
      rw [h1] at h
      simp only [bind, Except.bind] at h
      refine ih m1 h ?_
      cases it with
      | empty => simp only [readItem, Except.ok.injEq] at h1; subst h1; exact hn
      | pair k t =>
        simp only [readItem] at h1
        split_ifs at h1
        · simp only [Except.ok.injEq] at h1; subst h1; exact hn
        · simp only [Except.ok.injEq] at h1; subst h1; exact nodup_set _ _ _ hn

theorem nodup_lineMeta (qn : String → String) (gm m : AList) (l : RLine)
    (h : lineMeta qn gm l = .ok m) (hn : (keys gm).Nodup) : (keys m).Nodup := by
  unfold lineMeta at h
  cases hr : readItems false gm l.items with
  | error e => rw [hr] at h; simp [bind, Except.bind] at h
  | ok m1 =>
    rw [hr] at h
    simp only [bind, Except.bind, pure, Except.pure, Except.ok.injEq] at h
    subst h
    refine nodup_set _ _ _ ?_
    unfold normRange
    have h2 := nodup_set m1 .include (.bool !l.excl) (nodup_readItems _ _ _ _ hr hn)
    split
    · exact nodup_set _ _ _ h2
    · exact h2

theorem nodup_bodyMeta (m : AList) (b : Body) (hn : (keys m).Nodup) : (keys (bodyMeta m b)).Nodup := by
  cases b <;> simp only [bodyMeta] <;> first | exact hn | exact nodup_set _ _ _ hn

theorem get?_bodyMeta_ne (m : AList) (b : Body) (k : Key) (h1 : k ≠ .symbol) (h2 : k ≠ .text) :
    (bodyMeta m b).get? k = m.get? k := by
  cases b <;> simp only [bodyMeta] <;> first | rfl | exact get?_set_ne _ _ (Ne.symm h1) | exact get?_set_ne _ _ (Ne.symm h2)

theorem get?_shapeMeta_ne (q : Quirks) (r : WReg) (k : Key) (h1 : k ≠ .label) (h2 : k ≠ .text) :
    (shapeMeta q r).get? k = (mergedMeta r).get? k := by
  unfold shapeMeta
  split_ifs
  · rw [get?_set_ne _ _ (Ne.symm h2), get?_erase]; simp [Ne.symm h1]
  · rw [get?_set_ne _ _ (Ne.symm h2), get?_erase]; simp [Ne.symm h1]
  · rw [get?_set_ne _ _ (Ne.symm h2)]
  · rfl

/-! ### the round-trip relation -/

/-- the region is excluded: `region.meta['include'] in (False, '-')`. -/
def wExcl (r : WReg) : Bool :=
  match r.mt.get? .include with
  | some v => v.isExcl
  | none => false

/-- the region is an annotation: `meta['type'] == 'ann'`. -/
def wAnn (r : WReg) : Prop := (mergedMeta r).get? .type = some (.str "ann")

instance (r : WReg) : Decidable (wAnn r) := by unfold wAnn; infer_instance

/-- CRTF keys with a scalar value that are written as `key=value` (the reader stores the
text of the value). -/
def scalarKey (q : Quirks) : Key → Bool
  | .frame | .veltype | .restfreq | .color | .font | .symthick | .symsize | .fontsize | .fontstyle
  | .usetex | .labelpos | .linewidth | .linestyle => true
  | .labelcolor => !q.dropLabelcolor
  | _ => false

def isScalar : MVal → Bool
  | .str _ | .int _ | .bool _ => true
  | _ => false

/-- the value survives the reader's tokenisation: `regex_meta` hands the written text back as it
is (no quote character, no blank at an end, not empty; see the header of the metadata section of
`Impl/CrtfRead.lean`).  Decidable; it is exactly the class of values the reader does not mangle. -/
def LexOK (k : Key) (v : MVal) : Prop := (pairTok k v).lexed = some (.scalar v.pyStr .none)

instance (k : Key) (v : MVal) : Decidable (LexOK k v) := by unfold LexOK; infer_instance

/-- the longitude `b` stored in the region object, from the longitude `v` the line denotes:
a pixel coordinate is kept, a sky longitude is wrapped into `[0, 360)` — the same position. -/
def LonOf (v b : ℚ) : Prop := b = v ∨ b = wrap360 v

/-- `R` between a point of the input region and the point read back, longitudes as positions
on the sphere (modulo whole turns), latitudes as they are. -/
def RelPtW (R : ℚ → ℚ → Prop) (a b : ℚ × ℚ) : Prop := (∃ v, R a.1 v ∧ LonOf v b.1) ∧ R a.2 b.2

/-- `GeomRel` with longitudes modulo whole turns. -/
def GeomRelW (R R2 : ℚ → ℚ → Prop) (kind : Kind) (pts : List (ℚ × ℚ)) (sizes : List ℚ) (angle : Option ℚ)
    (pts' : List (ℚ × ℚ)) (sizes' : List ℚ) (angle' : Option ℚ) : Prop :=
  List.Forall₂ (RelPtW R) pts pts' ∧
  (if kind = .ellipse then List.Forall₂ R2 sizes sizes' else List.Forall₂ R sizes sizes') ∧
  (match angle, angle' with
    | some x, some y => R x y
    | none, none => True
    | _, _ => False)

/-- read honestly: the longitude read back is within half a unit of the one written, up to a
whole number of turns of 360 degrees. -/
theorem relPtW_close_mod360 (p : Nat) (a b : ℚ × ℚ) (h : RelPtW (Close p) a b) :
    (∃ k : ℤ, Close p a.1 (b.1 + 360 * k)) ∧ Close p a.2 b.2 := by
  obtain ⟨⟨v, hv, hl⟩, h2⟩ := h
  refine ⟨?_, h2⟩
  rcases hl with hl | hl
  · exact ⟨0, by rw [hl]; simpa using hv⟩
  · refine ⟨⌊v / 360⌋, ?_⟩
    rw [hl]; unfold wrap360
    have : v - 360 * (⌊v / 360⌋ : ℚ) + 360 * (⌊v / 360⌋ : ℚ) = v := by ring
    rw [this]; exact hv

/-- the coordinates of the region object from those the line denotes (all longitudes in
degrees or unit-less): latitudes unchanged, longitudes kept or wrapped. -/
theorem regionPts_lon (f : String) (ptsS : List (Q × Q)) (hu : ∀ p ∈ ptsS, p.1.u = .deg ∨ p.1.u = .none) :
    List.Forall₂ (fun (s b : ℚ × ℚ) => LonOf s.1 b.1 ∧ b.2 = s.2) (ptsS.map fun p => (p.1.v, p.2.v))
      ((regionPts f ptsS).map fun p => (p.1.v, p.2.v)) := by
  unfold regionPts
  split_ifs
  · simp only [List.map_map, Function.comp_def, dropUnit]
    induction ptsS with
    | nil => exact List.Forall₂.nil
    | cons a r ih =>
      exact List.Forall₂.cons ⟨Or.inl rfl, rfl⟩ (ih fun p hp => hu p (List.mem_cons_of_mem _ hp))
  · simp only [List.map_map, Function.comp_def]
    induction ptsS with
    | nil => exact List.Forall₂.nil
    | cons a r ih =>
      refine List.Forall₂.cons ⟨?_, rfl⟩ (ih fun p hp => hu p (List.mem_cons_of_mem _ hp))
      simp only
      rw [wrapLon_v]
      rcases hu a List.mem_cons_self with h | h <;> rw [h]
      · right; simp [turn, wrap360]
      · left; simp [turn]

theorem forall₂_relPtW (R : ℚ → ℚ → Prop) {A B C : List (ℚ × ℚ)} (h1 : List.Forall₂ (RelPt R) A B)
    (h2 : List.Forall₂ (fun (s b : ℚ × ℚ) => LonOf s.1 b.1 ∧ b.2 = s.2) B C) : List.Forall₂ (RelPtW R) A C := by
  induction h1 generalizing C with
  | nil => cases h2; exact List.Forall₂.nil
  | cons hab _ ih =>
    cases h2 with
    | cons hbc hr =>
      refine List.Forall₂.cons ⟨⟨_, hab.1, hbc.1⟩, ?_⟩ (ih hr)
      rw [hbc.2]; exact hab.2

/-- what the property promises for one region `r` and the region `x` read back. -/
structure RT (q : Quirks) (o : Opts) (r : WReg) (x : RReg) : Prop where
  kind : x.kind = r.kind
  geom : GeomRelW (Close o.prec) (Close2 o.prec) r.kind r.pts r.sizes r.angle
           (x.pts.map fun p => (p.1.v, p.2.v)) (x.sizes.map (·.v)) (x.angle.map (·.v))
  incl : x.mt.get? .include = some (.bool (!wExcl r))
  ann : x.mt.get? .type = some (.str (if wAnn r then "ann" else "reg"))
  scalar : ∀ k v, scalarKey q k = true → (mergedMeta r).get? k = some v → LexOK k v →
             (if isViz k then x.vis else x.mt).get? k = some (.str v.pyStr)
  label : r.kind ≠ .text → ∀ v, (mergedMeta r).get? .label = some v → LexOK .label v →
             x.mt.get? .label = some (.str v.pyStr)
  text : r.kind = .text → ∀ v, (shapeMeta q r).get? .text = some v → x.text = some v.pyStr

theorem gmeta_get (g : String) (k : Key) (h : k ≠ .coord) : (gmeta g).get? k = none := by
  simp [gmeta, AList.get?, Ne.symm h]

theorem tokValue_scalar (k : Key) (v : MVal) (hk : isListKey k = false) (hlex : LexOK k v) :
    (pairTok k v).isEmptyScalar = false ∧ tokValue false k (pairTok k v) = .str v.pyStr := by
  unfold LexOK at hlex
  constructor
  · simp [MTok.isEmptyScalar, hlex]
  · simp [tokValue, hlex, hk]

theorem written_geometry' (R R2 : ℚ → ℚ → Prop) (q : Quirks) (o : Opts)
    (hR : ∀ x, R x (fmtDec o.prec x).val) (hR2 : ∀ w, R2 w (2 * (fmtDec o.prec (w / 2)).val))
    (s : WShape) (kind : Kind)
    (pts : List (ℚ × ℚ)) (sizes : List ℚ) (angle : Option ℚ) (m : AList)
    (b : Body) (hk : s.kind = kind) (hc : s.coord = flatten pts ++ sizes ++ angle.toList)
    (hA : arityOK kind pts sizes angle = true) (hw : writeBody q o s m = .ok b) :
    bKind b = kind ∧ GeomRel R R2 kind pts sizes angle (bPts b) (bSizes b) (bAngle b) := by
  obtain ⟨cs, kind', sky, coord, mt, incl⟩ := s
  simp only at hk hc
  subst hk; subst hc
  exact written_geometry R R2 q o hR hR2 cs _ sky pts sizes angle mt m incl b hA hw

/-- only ellipses and rectangles carry an angle. -/
theorem arity_angle (k : Kind) (p : List (ℚ × ℚ)) (sz : List ℚ) (a : Option ℚ)
    (h : arityOK k p sz a = true) : a.isSome = true ↔ (k = .ellipse ∨ k = .rectangle) := by
  unfold arityOK at h
  split at h <;> simp_all

theorem arity_text (p : List (ℚ × ℚ)) (sz : List ℚ) (a : Option ℚ)
    (h : arityOK .text p sz a = true) : ∃ c, p = [c] ∧ sz = [] ∧ a = none := by
  unfold arityOK at h
  split at h <;> simp_all

theorem written_lonUnits' (q : Quirks) (o : Opts) (s : WShape) (kind : Kind)
    (pts : List (ℚ × ℚ)) (sizes : List ℚ) (angle : Option ℚ) (m : AList)
    (b : Body) (hk : s.kind = kind) (hc : s.coord = flatten pts ++ sizes ++ angle.toList)
    (hA : arityOK kind pts sizes angle = true) (hw : writeBody q o s m = .ok b) :
    ∀ u ∈ bLonUnits b, u = lonU q o := by
  obtain ⟨cs, kind', sky, coord, mt, incl⟩ := s
  simp only at hk hc
  subst hk; subst hc
  exact written_lonUnits q o cs _ sky pts sizes angle mt m incl b hA hw

/-- the geometry part of the per-region chain for ANY pair of relations that hold between a
number and its printed decimal (used for closeness, for the decimal grid, and for exactness
on the grid): the line denotes points `ptsS` related to the region's, all longitudes in the
unit `lonU q o`, and the region object holds `regionPts` of them (pixel: bare values; sky:
longitudes wrapped into [0, 360)). -/
theorem chain_geom (R R2 : ℚ → ℚ → Prop) (q : Quirks) (qn : String → String) (o : Opts) (g : String)
    (hR : ∀ x, R x (fmtDec o.prec x).val) (hR2 : ∀ w, R2 w (2 * (fmtDec o.prec (w / 2)).val))
    (r : WReg) (x : RReg) (h : Chain q qn o g r x)
    (hA : arityOK r.kind r.pts r.sizes r.angle = true) (hsrc : srcPts q r = r.pts) :
    x.kind = r.kind ∧
    ∃ ptsS : List (Q × Q),
      GeomRel R R2 r.kind r.pts r.sizes r.angle
        (ptsS.map fun p => (p.1.v, p.2.v)) (x.sizes.map (·.v)) (x.angle.map (·.v)) ∧
      (∀ p ∈ ptsS, p.1.u = lonU q o) ∧ x.pts = regionPts x.frame ptsS := by
  obtain ⟨s, l, sh, h1, h2, h3, h4⟩ := h
  obtain ⟨hs, -, -⟩ := toShape_inv h1
  have s_kind : s.kind = r.kind := by rw [hs]
  have s_coord : s.coord = flatten r.pts ++ r.sizes ++ r.angle.toList := by rw [hs, hsrc]
  clear hs h1
  obtain ⟨items, body, hi, hb, hl, -⟩ := writeLine_inv h2
  have l_body : l.body = body := by rw [hl]
  clear hl h2
  obtain ⟨m, k, pts, sz, a, hm, hgm, hsh, -, -⟩ := regionShape_inv h3
  have sh_kind : sh.kind = k := by rw [hsh]
  have sh_pts : sh.pts = pts := by rw [hsh]
  have sh_sizes : sh.sizes = sz := by rw [hsh]
  have sh_angle : sh.angle = a := by rw [hsh]
  clear hsh h3
  obtain ⟨hx, -, -⟩ := toRegion_inv h4
  clear h4
  rw [l_body] at hgm
  obtain ⟨hv1, hv2, hv3, hv4⟩ := bodyGeom_vals body k pts sz a hgm
  have hun := bodyGeom_lonUnits body k pts sz a hgm
  obtain ⟨hk, hgeo⟩ := written_geometry' R R2 q o hR hR2 s r.kind r.pts r.sizes r.angle _ body s_kind s_coord hA hb
  have hlu := written_lonUnits' q o s r.kind r.pts r.sizes r.angle _ body s_kind s_coord hA hb
  refine ⟨by rw [hx]; show sh.kind = r.kind; rw [sh_kind, hv1, hk], pts, ?_, ?_, ?_⟩
  · obtain ⟨bv1, -, -⟩ := buildRegion_vals sh
    rw [hx, bv1, sh_sizes, hv2, hv3]
    obtain ⟨g1, g2, g3⟩ := hgeo
    refine ⟨g1, g2, ?_⟩
    have har := arity_angle _ _ _ _ hA
    have hxa : (buildRegion sh).angle.map (·.v) = bAngle body := by
      simp only [buildRegion, sh_kind, sh_angle, hv1, hk]
      rw [← hv4]
      rw [← hv4] at g3
      by_cases hke : r.kind = .ellipse ∨ r.kind = .rectangle
      · rw [if_pos hke]
        cases a with
        | some qa => rfl
        | none =>
          have := har.mpr hke
          cases hra : r.angle with
          | none => rw [hra] at this; simp at this
          | some ra => rw [hra] at g3; simp at g3
      · rw [if_neg hke]
        cases a with
        | some qa =>
          cases hra : r.angle with
          | none => rw [hra] at g3; simp at g3
          | some ra => exact absurd (har.mp (by rw [hra]; rfl)) hke
        | none => rfl
    rw [hxa]; exact g3
  · intro p hp
    have : p.1.u ∈ pts.map (fun p => p.1.u) := List.mem_map_of_mem (f := fun p : Q × Q => p.1.u) hp
    rw [hun] at this
    exact hlu _ this
  · obtain ⟨-, bv2, bv3⟩ := buildRegion_vals sh
    rw [hx, bv2, bv3, sh_pts]

/-- from the chain's geometry to the property's clause (longitudes modulo whole turns). -/
theorem geomW_of_chain (R R2 : ℚ → ℚ → Prop) (q : Quirks) (o : Opts) (r : WReg) (x : RReg)
    (h : ∃ ptsS : List (Q × Q),
      GeomRel R R2 r.kind r.pts r.sizes r.angle
        (ptsS.map fun p => (p.1.v, p.2.v)) (x.sizes.map (·.v)) (x.angle.map (·.v)) ∧
      (∀ p ∈ ptsS, p.1.u = lonU q o) ∧ x.pts = regionPts x.frame ptsS) :
    GeomRelW R R2 r.kind r.pts r.sizes r.angle
      (x.pts.map fun p => (p.1.v, p.2.v)) (x.sizes.map (·.v)) (x.angle.map (·.v)) := by
  obtain ⟨ptsS, ⟨g1, g2, g3⟩, hu, hp⟩ := h
  refine ⟨?_, g2, g3⟩
  rw [hp]
  refine forall₂_relPtW R g1 (regionPts_lon _ _ ?_)
  intro p hpp
  rw [hu p hpp]
  exact lonU_cases q o

/-- the per-region content of the round trip: if the four steps succeed on a region with the
parameter lists of its class and a dictionary as metadata, the region read back is related
to it by `RT`. -/
theorem chain_rt (q : Quirks) (qn : String → String) (o : Opts) (g : String) (r : WReg) (x : RReg)
    (h : Chain q qn o g r x)
    (hA : arityOK r.kind r.pts r.sizes r.angle = true) (hn : (keys r.mt).Nodup)
    (hsrc : srcPts q r = r.pts) : RT q o r x := by
  have hG := geomW_of_chain _ _ q o r x
    (chain_geom (Close o.prec) (Close2 o.prec) q qn o g (close_fmt o.prec) (close2_fmt_half o.prec) r x h hA hsrc).2
  obtain ⟨s, l, sh, h1, h2, h3, h4⟩ := h
  obtain ⟨hs, -, -⟩ := toShape_inv h1
  have s_cs : s.coordsys = o.coordsys := by rw [hs]
  have s_kind : s.kind = r.kind := by rw [hs]
  have s_coord : s.coord = flatten r.pts ++ r.sizes ++ r.angle.toList := by rw [hs, hsrc]
  have s_mt : s.mt = shapeMeta q r := by rw [hs]
  have s_incl : s.incl = r.mt.get? .include := by rw [hs]
  clear hs h1
  obtain ⟨items, body, hi, hb, hl, -⟩ := writeLine_inv h2
  have l_excl : l.excl = shapeExcl s := by rw [hl]
  have l_ann : l.ann = decide ((writerMeta q s).get? .type = some (.str "ann")) := by rw [hl]
  have l_body : l.body = body := by rw [hl]
  have l_items : l.items = items := by rw [hl]
  clear hl h2
  obtain ⟨m, k, pts, sz, a, hm, hgm, hsh, -, -⟩ := regionShape_inv h3
  have sh_kind : sh.kind = k := by rw [hsh]
  have sh_pts : sh.pts = pts := by rw [hsh]
  have sh_sizes : sh.sizes = sz := by rw [hsh]
  have sh_angle : sh.angle = a := by rw [hsh]
  have sh_mt : sh.mt = (bodyMeta m l.body).erase .coord := by rw [hsh]
  have sh_incl : sh.incl = !l.excl := by rw [hsh]
  clear hsh h3
  obtain ⟨hx, -, -⟩ := toRegion_inv h4
  clear h4
  rw [l_body] at hgm sh_mt
  obtain ⟨hv1, hv2, hv3, hv4⟩ := bodyGeom_vals body k pts sz a hgm
  obtain ⟨hk, hgeo⟩ := written_geometry' (Close o.prec) (Close2 o.prec) q o (close_fmt o.prec) (close2_fmt_half o.prec)
    s r.kind r.pts r.sizes r.angle _ body s_kind s_coord hA hb
  -- dictionaries along the way have distinct keys
  have hnm : (keys m).Nodup := nodup_lineMeta qn _ m _ hm (by simp [gmeta, keys])
  have hnsh : (keys sh.mt).Nodup := by rw [sh_mt]; exact nodup_erase _ _ (nodup_bodyMeta _ _ hnm)
  have hnw : (keys (writerMeta q s)).Nodup := by
    unfold writerMeta; rw [s_mt]; exact nodup_filter _ _ (nodup_shapeMeta q r hn)
  have hvw : ∀ p ∈ writerMeta q s, writerValid q p.1 = true := by
    intro p hp
    simp only [writerMeta, List.mem_filter] at hp
    exact hp.2
  have hcd : coordDiffers o s = none := by simp [coordDiffers, s_cs]
  rw [hcd] at hi
  have x_mt : x.mt = (splitMeta sh.mt sh.incl).1 := by rw [hx]; rfl
  have x_vis : x.vis = (splitMeta sh.mt sh.incl).2 := by rw [hx]; rfl
  have hsp2 := fun kk => (splitMeta_get sh.mt hnsh sh.incl kk).1
  have hsp_incl := (splitMeta_get sh.mt hnsh sh.incl Key.type).2.1
  have hsp1 := fun kk => (splitMeta_get sh.mt hnsh sh.incl kk).2.2.1
  have hsp_label := (splitMeta_get sh.mt hnsh sh.incl Key.type).2.2.2
  have wm_get : ∀ kk, kk ≠ .label → kk ≠ .text → writerValid q kk = true →
      (writerMeta q s).get? kk = (mergedMeta r).get? kk := by
    intro kk n1 n2 hv
    unfold writerMeta
    rw [get?_filterKeys s.mt (writerValid q) kk, hv, if_pos rfl, s_mt, get?_shapeMeta_ne q r kk n1 n2]
  -- the value the reader's final meta holds for a key that only the pairs can set
  have path : ∀ kk, kk ≠ .include → kk ≠ .type → kk ≠ .range → kk ≠ .coord → kk ≠ .symbol → kk ≠ .text →
      kk ≠ .labeloff → kk ≠ .corr →
      sh.mt.get? kk = assigned false kk (pairItems q (writerMeta q s)) := by
    intro kk n1 n2 n3 n4 n5 n6 n7 n8
    rw [sh_mt, get?_erase, if_neg (Ne.symm n4), get?_bodyMeta_ne _ _ _ n5 n6,
      global_default_inline_override qn _ m _ hm kk n1 n2 n3, gmeta_get g kk n4, l_items]
    rw [assigned_written q _ items hi kk n7 n3 n8]
    cases assigned false kk (pairItems q _) <;> rfl
  refine ⟨?_, ?_, ?_, ?_, ?_, ?_, ?_⟩
  · -- kind
    rw [hx]; show sh.kind = r.kind
    rw [sh_kind, hv1, hk]
  · -- geometry
    exact hG
  · -- include sense
    rw [x_mt, hsp_incl, sh_incl, l_excl]
    simp only [shapeExcl, wExcl, s_incl]
    cases r.mt.get? .include <;> rfl
  · -- annotation
    have ht : sh.mt.get? .type = some (.str (if l.ann then "ann" else "reg")) := by
      rw [sh_mt, get?_erase, if_neg (by decide), get?_bodyMeta_ne _ _ _ (by decide) (by decide)]
      exact (prefix_rules qn _ m _ hm).2
    rw [x_mt, hsp1 .type rfl (by decide) (by decide), ht, l_ann,
      wm_get .type (by decide) (by decide) rfl]
    unfold wAnn
    by_cases hh : (mergedMeta r).get? .type = some (.str "ann") <;> simp [hh]
  · -- scalar CRTF keys
    intro kk v hsk hget hlex
    have hkk : kk ≠ .include ∧ kk ≠ .type ∧ kk ≠ .range ∧ kk ≠ .coord ∧ kk ≠ .symbol ∧ kk ≠ .text ∧
        kk ≠ .labeloff ∧ kk ≠ .corr ∧ kk ≠ .label ∧ isListKey kk = false ∧ writerSkip q kk = false ∧
        writerValid q kk = true := by
      cases kk <;> simp_all [scalarKey, isListKey, writerSkip, writerValid]
    obtain ⟨n1, n2, n3, n4, n5, n6, n7, n8, n9, nl, nsk, nval⟩ := hkk
    have hw : (writerMeta q s).get? kk = some v := by rw [wm_get kk n9 n6 nval, hget]
    have hp := path kk n1 n2 n3 n4 n5 n6 n7 n8
    rw [assigned_pairItems q _ kk hnw hvw, nsk, hw] at hp
    obtain ⟨t1, t2⟩ := tokValue_scalar kk v nl hlex
    simp only [Bool.false_eq_true, if_false, t1, t2] at hp
    by_cases hz : isViz kk
    · simp only [hz, if_true]
      rw [x_vis, hsp2 kk, if_pos hz, hp]
    · simp only [hz, Bool.false_eq_true, if_false]
      rw [x_mt, hsp1 kk (by simpa using hz) n1 n9, hp]
  · -- label
    intro hkt v hget hlex
    have hw : (writerMeta q s).get? .label = some v := by
      unfold writerMeta
      rw [get?_filterKeys s.mt (writerValid q) .label, s_mt]
      simp only [writerValid, if_true]
      unfold shapeMeta
      rw [if_neg hkt]; exact hget
    have hp := path .label (by decide) (by decide) (by decide) (by decide) (by decide) (by decide) (by decide) (by decide)
    rw [assigned_pairItems q _ .label hnw hvw, hw] at hp
    obtain ⟨t1, t2⟩ := tokValue_scalar .label v rfl hlex
    simp only [writerSkip, Bool.false_eq_true, if_false, t1, t2] at hp
    rw [x_mt]
    exact hsp_label _ hp
  · -- text
    intro hkt v hget
    have hw : (writerMeta q s).get? .text = some v := by
      unfold writerMeta
      rw [get?_filterKeys s.mt (writerValid q) .text, s_mt]
      simp [writerValid, hget]
    have hA' := hA
    rw [hkt] at hA'
    obtain ⟨c, hpts, hsz, hang'⟩ := arity_text _ _ _ hA'
    rw [hpts, hsz, hang'] at s_coord
    have hb' := hb
    unfold writeBody at hb'
    rw [s_kind, hkt, s_coord] at hb'
    simp only [flatten, List.cons_append, List.nil_append, Option.toList_none, List.append_nil, hw,
      Except.ok.injEq] at hb'
    subst hb'
    rw [hx]
    show (if sh.kind = .text then
                (match sh.mt.get? .text with | some (.str t) => some t | _ => some "")
              else none) = some v.pyStr
    rw [sh_kind, hv1]
    simp only [bKind, if_true, sh_mt, bodyMeta]
    rw [get?_erase, if_neg (by decide), get?_set_self]

/-! ## 6. `crtf_roundtrip` -/

/-- a region as a Python object can be: the parameter lists of its class, a dictionary as meta. -/
def WellFormed (r : WReg) : Prop :=
  arityOK r.kind r.pts r.sizes r.angle = true ∧ (keys r.mt).Nodup

instance (r : WReg) : Decidable (WellFormed r) := by unfold WellFormed; infer_instance

/-- `crtf_roundtrip` (what comes back): for a list of ANY length, whenever the serialisation
is accepted by the reader, it yields exactly one region per input region, in order, of the
same class, with every coordinate/size/angle within half a unit of the `fmt` precision
(ellipse full axes: one unit = half a unit on the stored semi-axis; sky LONGITUDES as
positions on the sphere, i.e. up to whole turns of 360 degrees, because the region object
stores them wrapped into [0, 360): `RelPtW`, `relPtW_close_mod360`), the same
include/exclude sense, the same annotation type, the same label, the scalar CRTF metadata
(as text), and for a text region the string the writer took for it. -/
theorem crtf_roundtrip (q : Quirks) (qn : String → String) (o : Opts) (rs : List WReg)
    (ls : List SrcLine) (gs : List RReg) (hw : ∀ r ∈ rs, WellFormed r ∧ srcPts q r = r.pts)
    (hs : serialize q o rs = .ok ls) (hp : parse q qn ls = .ok gs) :
    List.Forall₂ (RT q o) rs gs := by
  obtain ⟨g, -, hc⟩ := roundtrip_list q qn o rs ls gs hs hp
  have : ∀ (l1 : List WReg) (l2 : List RReg), (∀ r ∈ l1, WellFormed r ∧ srcPts q r = r.pts) →
      List.Forall₂ (Chain q qn o g) l1 l2 → List.Forall₂ (RT q o) l1 l2 := by
    intro l1 l2 hwf hch
    induction hch with
    | nil => exact List.Forall₂.nil
    | cons hab _ ih =>
      refine List.Forall₂.cons ?_ (ih fun r hr => hwf r (List.mem_cons_of_mem _ hr))
      obtain ⟨⟨h1, h2⟩, h3⟩ := hwf _ List.mem_cons_self
      exact chain_rt q qn o g _ _ hab h1 h2 h3
  exact this rs gs hw hc

/-! ### the string of a text region (F7) -/

/-- full-strength clause: the string written for a text region is `region.text`. -/
def text_preserved_full (q : Quirks) : Prop :=
  ∀ r : WReg, r.kind = .text → (shapeMeta q r).get? .text = some (.str r.text)

/-- with the repaired `_to_shape_list` the clause holds for every region … -/
theorem text_preserved_fixed (q : Quirks) (h : q.textFromMeta = false) : text_preserved_full q := by
  intro r hk
  unfold shapeMeta
  rw [if_pos hk]
  simp only [h, Bool.false_eq_true, if_false]
  exact get?_set_self _ _ _

-- text_preserved_refuted_F7: removed, F7 fixed in /repo by 48bc62d

/-- partial: under the current code the string survives exactly when the metadata already
carries it (`meta['text']`, else `meta['label']`) — e.g. every region that was itself parsed. -/
theorem text_preserved_partial (q : Quirks) (r : WReg) (hk : r.kind = .text)
    (hg : q.textFromMeta = false ∨
      (((mergedMeta r).erase .label).get? .text).getD (((mergedMeta r).get? .label).getD (.str "")) = .str r.text) :
    (shapeMeta q r).get? .text = some (.str r.text) := by
  rcases hg with hg | hg
  · exact text_preserved_fixed q hg r hk
  · unfold shapeMeta
    rw [if_pos hk]
    split_ifs
    · rw [get?_set_self, hg]
    · exact get?_set_self _ _ _
    · exact get?_set_self _ _ _

/-- a parsed text region carries its string under `text` and `label`: it meets the hypothesis. -/
def parsedText : WReg :=
  { kind := .text, sky := true, pts := [(1, 2)], sizes := [], angle := none, text := "a",
    mt := [(.text, .str "a"), (.label, .str "a")], vis := [] }

example : (((mergedMeta parsedText).erase .label).get? .text).getD
    (((mergedMeta parsedText).get? .label).getD (.str "")) = .str parsedText.text := by
  decide +kernel

/-! ### serialising the same objects twice (F6) -/

/-- full-strength clause: serialising does not change the caller's regions (so a second
serialisation of the same objects gives the same text). -/
def serialize_pure_full (q : Quirks) : Prop := ∀ rs : List WReg, afterSerialize q rs = rs

theorem serialize_pure_fixed (q : Quirks) (h : q.popInclude = false) : serialize_pure_full q := by
  intro rs
  unfold afterSerialize afterShape
  simp [h]

/-- F6 was repaired in /repo by 90d029a: the current code leaves the caller's regions alone, so
a second serialisation of the same objects is the first one again (the theorems
`serialize_pure_refuted_F6` / `second_serialisation_included`, which refuted this for the
old code, were removed when the fix landed; the correspondence still serialises every list
twice and a regression is a VIOLATION). -/
theorem serialize_pure_current : serialize_pure_full Quirks.current :=
  serialize_pure_fixed Quirks.current rfl

/-- what the old code did, kept as a statement about the quirk: with `popInclude` an EXCLUDED
region is written as included the second time. -/
theorem second_serialisation_included (q : Quirks) (hq : q.popInclude = true) (cs : String) (r : WReg)
    (s : WShape) (h : toShape q cs (afterShape q r) = .ok s) : shapeExcl s = false := by
  obtain ⟨hs, -, -⟩ := toShape_inv h
  rw [hs]
  simp only [shapeExcl, afterShape, hq, if_true]
  rw [get?_erase]
  simp

/-- partial: a region whose metadata has no `include` key is left untouched. -/
theorem serialize_pure_partial (q : Quirks) (rs : List WReg)
    (h : q.popInclude = false ∨ ∀ r ∈ rs, Key.include ∉ keys r.mt) : afterSerialize q rs = rs := by
  rcases h with h | h
  · exact serialize_pure_fixed q h rs
  · unfold afterSerialize
    have : ∀ r ∈ rs, afterShape q r = r := by
      intro r hr
      unfold afterShape
      split_ifs
      · have hk := h r hr
        have : r.mt.erase .include = r.mt := by
          unfold AList.erase
          rw [List.filter_eq_self]
          intro p hp
          simp only [ne_eq, decide_eq_true_eq]
          intro e
          exact hk (by rw [← e]; exact List.mem_map_of_mem (f := Prod.fst) hp)
        rw [this]
      · rfl
    exact (List.map_congr_left this).trans (List.map_id rs)

example : Key.include ∉ keys ([(.label, .str "a")] : AList) := by decide

/-! ## 7. the serialisation of a representable region IS accepted -/

/-- an item the reader accepts. -/
def itemOK : MItem → Prop
  | .empty => True
  | .pair k t => t.isEmptyScalar = true ∨ keyOk false (itemKey false k) = true

theorem readItems_ok (items : List MItem) (h : ∀ it ∈ items, itemOK it) (m : AList) :
    ∃ m', readItems false m items = .ok m' := by
  induction items generalizing m with
  | nil => exact ⟨m, rfl⟩
  | cons it r ih =>
    have hr : ∀ it ∈ r, itemOK it := fun i hi => h i (List.mem_cons_of_mem _ hi)
    have h0 := h it List.mem_cons_self
    simp only [readItems]
    cases it with
    | empty => simp only [readItem, bind, Except.bind]; exact ih hr m
    | pair k t =>
      simp only [readItem]
      by_cases he : t.isEmptyScalar
      · simp only [he, if_true, bind, Except.bind]; exact ih hr m
      · simp only [he, Bool.false_eq_true, if_false]
        have : keyOk false (itemKey false k) = true := by
          rcases h0 with h0 | h0
          · exact absurd h0 he
          · exact h0
        simp only [this, if_true, bind, Except.bind]
        exact ih hr _

/-- every key the writer emits as a pair is a key the reader accepts inline. -/
theorem keyOk_of_written (q : Quirks) (k : Key) (h1 : writerValid q k = true) (h2 : writerSkip q k = false) :
    keyOk false k = true := by
  cases k <;> simp_all [writerValid, writerSkip, keyOk, readerGlobalKey]

theorem pairItems_ok (q : Quirks) (m : AList) (hv : ∀ p ∈ m, writerValid q p.1 = true) :
    ∀ it ∈ pairItems q m, itemOK it := by
  intro it hit
  simp only [pairItems, List.mem_map, List.mem_filter] at hit
  obtain ⟨p, ⟨hp, hs⟩, rfl⟩ := hit
  right
  rw [itemKey_toString q p.1 (hv p hp)]
  exact keyOk_of_written q p.1 (hv p hp) (by simpa using hs)

theorem tailItems_ok_items (q : Quirks) (m : AList) (tail : List MItem) (h : tailItems q m = .ok tail) :
    ∀ it ∈ tail, itemOK it := by
  have k1 : keyOk false (itemKey false "labeloff") = true := by decide +kernel
  have k2 : keyOk false (itemKey false "range") = true := by decide +kernel
  have k3 : keyOk false (itemKey false "corr") = true := by decide +kernel
  unfold tailItems at h
  split at h
  case h_1 t1 t2 t3 e1 e2 e3 =>
    simp only [Except.ok.injEq] at h
    subst h
    intro it hit
    simp only [List.mem_append] at hit
    rcases hit with (hit | hit) | hit
    · rcases listItem_inv _ _ _ _ e1 with rfl | ⟨tok, rfl⟩
      · simp at hit
      · simp only [List.mem_singleton] at hit; subst hit; exact Or.inr k1
    · rcases listItem_inv _ _ _ _ e2 with rfl | ⟨tok, rfl⟩
      · simp at hit
      · simp only [List.mem_singleton] at hit; subst hit; exact Or.inr k2
    · rcases listItem_inv _ _ _ _ e3 with rfl | ⟨tok, rfl⟩
      · simp at hit
      · simp only [List.mem_singleton] at hit; subst hit; exact Or.inr k3
  all_goals cases h

theorem writeItems_ok_items (q : Quirks) (m : AList) (items : List MItem)
    (hv : ∀ p ∈ m, writerValid q p.1 = true) (h : writeItems q none m = .ok items) :
    ∀ it ∈ items, itemOK it := by
  unfold writeItems at h
  cases ht : tailItems q m with
  | error e => rw [ht] at h; cases h
  | ok tail =>
    rw [ht] at h
    simp only [Except.ok.injEq, headItems] at h
    subst h
    intro it hit
    unfold assemble at hit
    split_ifs at hit
    · rcases List.mem_cons.mp hit with rfl | hit
      · trivial
      · exact tailItems_ok_items q m tail ht it hit
    · rcases List.mem_append.mp hit with hit | hit
      · exact pairItems_ok q m hv it hit
      · exact tailItems_ok_items q m tail ht it hit

/-- a list-valued key holds a list. -/
def listOK : Option MVal → Bool
  | some (.strs _) => true
  | some (.ints _) => true
  | none => true
  | _ => false

theorem listItem_ok (n : String) (sp : Bool) (ov : Option MVal) (h : listOK ov = true) :
    ∃ t, listItem n sp ov = .ok t := by
  unfold listItem
  cases ov with
  | none => exact ⟨[], rfl⟩
  | some v => cases v <;> simp_all [listOK, listTok]

theorem tailItems_ok (q : Quirks) (m : AList) (h1 : listOK (m.get? .labeloff) = true)
    (h2 : listOK (m.get? .range) = true) (h3 : listOK (m.get? .corr) = true) :
    ∃ t, tailItems q m = .ok t := by
  have hl : listOK (if q.labeloffRepr then none else m.get? .labeloff) = true := by
    split_ifs
    · rfl
    · exact h1
  obtain ⟨t1, e1⟩ := listItem_ok "labeloff" false _ hl
  obtain ⟨t2, e2⟩ := listItem_ok "range" true _ h2
  obtain ⟨t3, e3⟩ := listItem_ok "corr" false _ h3
  exact ⟨t1 ++ t2 ++ t3, by unfold tailItems; rw [e1, e2, e3]⟩

/-- the option sets of the property: a frame of `valid_coordsys` with a length unit that
makes sense for it (`fmt` is any `'.Nf'`). -/
def optPairs : List (String × String) :=
  [("image", "deg"), ("image", "pix")] ++
  (["fk5", "fk4", "galactic", "geocentrictrueecliptic", "supergalactic", "icrs"].flatMap fun cs =>
    ["deg", "arcmin", "arcsec", "rad"].map fun ru => (cs, ru))

def optsOK (o : Opts) : Prop := (o.coordsys, o.radunit) ∈ optPairs

instance (o : Opts) : Decidable (optsOK o) := by unfold optsOK; infer_instance

/-- facts about an admissible option pair (all decidable; the table is decided completely). -/
def optFacts (cs ru : String) : Bool :=
  (coordsysTable.lookup cs.toLower == coordsysTable.lookup cs) &&
  (match coordsysTable.lookup cs with
    | some g => frameMap g.toLower == cs
    | none => false) &&
  (isImage cs == (cs == "image")) &&
  !(ru == "arcsec" && cs.toLower == "image") &&
  ([LUnit.deg, .arcmin, .dq, .rad, .pix].contains (radUnit ru)) &&
  (cs == "image" || (skyFrames.contains cs && radUnit ru != .pix)) &&
  (isQuoteUnit (radUnit ru) == (ru == "arcsec")) && (ru != "") && (cs.toLower == cs)

theorem optFacts_all : ∀ pr ∈ optPairs, optFacts pr.1 pr.2 = true := by decide +kernel

/-- the unit a written length is read with. -/
def luU : LUnit → U
  | .deg => .deg | .rad => .rad | .arcmin => .arcmin | .arcsec => .arcsec | .dq => .arcsec
  | .sq => .arcmin | _ => .none

theorem toQ_of_unit (d : Dec) (lu : LUnit) (h : [LUnit.deg, .arcmin, .dq, .rad, .pix].contains lu = true) :
    Len.toQ ⟨d, lu⟩ = .ok ⟨d.val, luU lu, false⟩ := by
  cases lu <;> simp_all [Len.toQ, luU]

theorem toDeg_lt (u : U) (a b : ℚ) (g1 g2 : Bool) (h : a < b) : Q.toDeg ⟨a, u, g1⟩ < Q.toDeg ⟨b, u, g2⟩ := by
  cases u <;> simp only [Q.toDeg]
  · exact h
  · have : (0 : ℚ) < radDeg := by unfold radDeg; norm_num
    exact mul_lt_mul_of_pos_right h this
  · linarith
  · linarith
  · linarith
  · exact h

theorem fmt_pos (p : Nat) (x : ℚ) (h1 : 0 < x) (h2 : 0 < (fmtDec p x).mant) : 0 < (fmtDec p x).val := by
  have hp : (0 : ℚ) < 10 ^ p := by positivity
  unfold Dec.val
  have hneg : (fmtDec p x).neg = false := by simp [fmtDec, not_lt.mpr h1.le]
  rw [hneg]
  simp only [Bool.false_eq_true, if_false]
  have : (0 : ℚ) < ((fmtDec p x).mant : ℚ) := by exact_mod_cast h2
  exact div_pos this (by have : (fmtDec p x).scale = p := rfl; rw [this]; exact hp)

/-! checks of `to_region` -/

theorem checkCoords_pixel (sh : RShape) (hp : isImage sh.coordsys = true)
    (h : (sh.kind = .polygon ∨ sh.kind = .line) → ∀ p ∈ sh.pts, p.1.u = .none ∧ p.2.u = .none) :
    checkCoords sh = .ok () := by
  unfold checkCoords
  rw [if_pos hp]
  by_cases hk : sh.kind = .polygon ∨ sh.kind = .line
  · have : sh.pts.any (fun p => p.1.u ≠ .none || p.2.u ≠ .none) = false := by
      rw [List.any_eq_false]
      intro p hpp
      have := h hk p hpp
      simp [this.1, this.2]
    rw [if_neg (fun hc => by rw [this] at hc; exact absurd hc.2 (by simp))]
  · rw [if_neg (fun hc => hk hc.1)]

theorem checkCoords_sky (sh : RShape) (hp : isImage sh.coordsys = false) (hne : sh.pts ≠ [])
    (hall : ∀ p ∈ sh.pts, p.1.ang = true ∧ p.2.ang = true ∧ p.2.u = .deg ∧ |p.2.v| ≤ 90)
    (hf : skyFrames.contains sh.coordsys = true) : checkCoords sh = .ok () := by
  unfold checkCoords
  have hfil : sh.pts.filter (fun p => p.1.ang && p.2.ang) = sh.pts := by
    rw [List.filter_eq_self]
    intro p hpp
    have := hall p hpp
    simp [this.1, this.2.1]
  rw [if_neg (by simp [hp]), hfil]
  rw [if_neg (by simpa using hne), if_neg (by simp)]
  have hlat : sh.pts.any (fun p => decide (90 < |p.2.toDeg|)) = false := by
    rw [List.any_eq_false]
    intro p hpp
    obtain ⟨-, -, hu, hv⟩ := hall p hpp
    have : p.2.toDeg = p.2.v := by
      unfold Q.toDeg; rw [hu]
    rw [this]
    simp [not_lt.mpr hv]
  rw [if_neg (by rw [hlat]; simp), if_neg (by rw [hf]; simp)]

theorem checkSizes_ok (sh : RShape) (h1 : ∀ a ∈ sh.sizes, sizeOk (!isImage sh.coordsys) a = true)
    (h2 : sh.kind = .circleannulus → annulusOk (isImage sh.coordsys) sh.sizes = true)
    (h3 : ∀ a, sh.angle = some a → angleOk a = true) : checkSizes sh = .ok () := by
  unfold checkSizes
  have e1 : sh.sizes.all (sizeOk (!isImage sh.coordsys)) = true := List.all_eq_true.mpr h1
  rw [if_neg (by simp [e1])]
  rw [if_neg (by
    by_cases hk : sh.kind = .circleannulus
    · simp [h2 hk]
    · simp [hk])]
  rw [if_neg (by
    cases ha : sh.angle with
    | none => simp
    | some a => simp [h3 a ha])]

theorem toRegion_ok (sh : RShape) (h1 : checkCoords sh = .ok ()) (h2 : checkSizes sh = .ok ()) :
    toRegion sh = .ok (buildRegion sh) := by
  unfold toRegion; rw [h1, h2]

/-! the written body, read back (explicit units, for the reader's checks) -/

def symbolOK (q : Quirks) : Option MVal → Bool
  | some v => validSymbols.contains v.pyStr
  | none => !q.pointUnreadable

def sizesW (kind : Kind) (sizes : List ℚ) : List ℚ :=
  if kind = .ellipse then sizes.map (· / 2) else sizes

theorem written_read (q : Quirks) (o : Opts) (cs : String) (kind : Kind) (sky : Bool)
    (pts : List (ℚ × ℚ)) (sizes : List ℚ) (angle : Option ℚ) (mt m : AList) (incl : Option MVal)
    (hA : arityOK kind pts sizes angle = true)
    (hu : [LUnit.deg, .arcmin, .dq, .rad, .pix].contains (radUnit o.radunit) = true)
    (htext : kind = .text → ∃ v, m.get? .text = some v)
    (hsym : kind = .point → symbolOK q (m.get? .symbol) = true)
    (hpoly : kind = .polygon → 3 ≤ pts.length) :
    ∃ body ptsQ szQ angQ,
      writeBody q o ⟨cs, kind, sky, flatten pts ++ sizes ++ angle.toList, mt, incl⟩ m = .ok body ∧
      bodyGeom body = .ok (kind, ptsQ, szQ, angQ) ∧
      ptsQ = pts.map (fun p => (cQ q o p.1, cQ q o p.2)) ∧
      (∀ a ∈ szQ, a.u = luU (radUnit o.radunit) ∧
        ∃ s ∈ sizesW kind sizes, a.v = (fmtDec o.prec s).val ∨ a.v = 2 * (fmtDec o.prec s).val) ∧
      (kind = .circleannulus → ∃ a b, sizes = [a, b] ∧
        szQ = [⟨(fmtDec o.prec a).val, luU (radUnit o.radunit), false⟩,
               ⟨(fmtDec o.prec b).val, luU (radUnit o.radunit), false⟩]) ∧
      (∀ a, angQ = some a → a.u = .deg) ∧
      (isPointBody body = true → q.pointUnreadable = false) ∧
      (body.lenPairs.any (fun p => isQuoteUnit p.1.u || isQuoteUnit p.2.u) = true →
        isQuoteUnit (radUnit o.radunit) = true ∧
        (kind = .circleannulus ∨ kind = .ellipse ∨ kind = .rectangle)) := by
  have tq := fun d => toQ_of_unit d (radUnit o.radunit) hu
  have ta : ∀ d : Dec, Len.toQ ⟨d, .deg⟩ = .ok ⟨d.val, .deg, false⟩ := fun d => rfl
  unfold arityOK at hA
  split at hA <;> try (exact absurd hA Bool.false_ne_true)
  · rename_i c r
    refine ⟨.circle ((Coord.dec (fmtDec o.prec c.1) (cuOf q o)), (Coord.dec (fmtDec o.prec c.2) (cuOf q o))) (⟨fmtDec o.prec (r), radUnit o.radunit⟩ : Len), [(cQ q o c.1, cQ q o c.2)], [(⟨(fmtDec o.prec (r)).val, luU (radUnit o.radunit), false⟩ : Q)], none, ?_, ?_, ?_, ?_, ?_, ?_, ?_, ?_⟩
    · simp only [writeBody, flatten, List.cons_append, List.nil_append, Option.toList_none, Option.toList_some, List.append_nil]; rfl
    · simp [bodyGeom, tq, bind, Except.bind, pure, Except.pure, ptQ, cQ]
    · simp
    · intro a ha
      simp only [List.mem_singleton] at ha; subst ha
      exact ⟨rfl, r, by simp [sizesW], Or.inl rfl⟩
    · intro h; cases h
    · intro a h; cases h
    · intro h; cases h
    · intro h; simp [Body.lenPairs] at h
  · rename_i c r1 r2
    refine ⟨.annulus ((Coord.dec (fmtDec o.prec c.1) (cuOf q o)), (Coord.dec (fmtDec o.prec c.2) (cuOf q o))) (⟨fmtDec o.prec (r1), radUnit o.radunit⟩ : Len) (⟨fmtDec o.prec (r2), radUnit o.radunit⟩ : Len), [(cQ q o c.1, cQ q o c.2)], [(⟨(fmtDec o.prec (r1)).val, luU (radUnit o.radunit), false⟩ : Q), (⟨(fmtDec o.prec (r2)).val, luU (radUnit o.radunit), false⟩ : Q)], none, ?_, ?_, ?_, ?_, ?_, ?_, ?_, ?_⟩
    · simp only [writeBody, flatten, List.cons_append, List.nil_append, Option.toList_none, Option.toList_some, List.append_nil]; rfl
    · simp [bodyGeom, tq, bind, Except.bind, pure, Except.pure, ptQ, cQ]
    · simp
    · intro a ha
      simp only [List.mem_cons, List.mem_nil_iff, or_false] at ha
      rcases ha with rfl | rfl
      · exact ⟨rfl, r1, by simp [sizesW], Or.inl rfl⟩
      · exact ⟨rfl, r2, by simp [sizesW], Or.inl rfl⟩
    · intro _; exact ⟨r1, r2, rfl, rfl⟩
    · intro a h; cases h
    · intro h; cases h
    · intro h
      simp only [Body.lenPairs, List.any_cons, List.any_nil, Bool.or_false, Bool.or_self] at h
      exact ⟨h, Or.inl rfl⟩
  · rename_i c w h a
    refine ⟨.ellipse ((Coord.dec (fmtDec o.prec c.1) (cuOf q o)), (Coord.dec (fmtDec o.prec c.2) (cuOf q o))) (⟨fmtDec o.prec (h / 2), radUnit o.radunit⟩ : Len) (⟨fmtDec o.prec (w / 2), radUnit o.radunit⟩ : Len) (⟨fmtDec o.prec (a / 2 * 2), .deg⟩ : Len), [(cQ q o c.1, cQ q o c.2)], [Q.scale 2 (⟨(fmtDec o.prec (w / 2)).val, luU (radUnit o.radunit), false⟩ : Q), Q.scale 2 (⟨(fmtDec o.prec (h / 2)).val, luU (radUnit o.radunit), false⟩ : Q)],
      some (Q.scale (1 / 2) (Q.scale 2 ⟨(fmtDec o.prec (a / 2 * 2)).val, .deg, false⟩)), ?_, ?_, ?_, ?_, ?_, ?_, ?_, ?_⟩
    · simp only [writeBody, flatten, List.cons_append, List.nil_append, Option.toList_none, Option.toList_some, List.append_nil]; rfl
    · simp [bodyGeom, tq, ta, bind, Except.bind, pure, Except.pure, ptQ, cQ]
    · simp
    · intro x hx
      simp only [List.mem_cons, List.mem_nil_iff, or_false] at hx
      rcases hx with rfl | rfl
      · exact ⟨rfl, w / 2, by simp [sizesW], Or.inr (by simp [Q.scale]; ring)⟩
      · exact ⟨rfl, h / 2, by simp [sizesW], Or.inr (by simp [Q.scale]; ring)⟩
    · intro hh; cases hh
    · intro x hx
      simp only [Option.some.injEq] at hx
      subst hx; rfl
    · intro hh; cases hh
    · intro hh
      simp only [Body.lenPairs, List.any_cons, List.any_nil, Bool.or_false, Bool.or_self] at hh
      exact ⟨hh, Or.inr (Or.inl rfl)⟩
  · rename_i c w h a
    refine ⟨.rotbox ((Coord.dec (fmtDec o.prec c.1) (cuOf q o)), (Coord.dec (fmtDec o.prec c.2) (cuOf q o))) (⟨fmtDec o.prec (w), radUnit o.radunit⟩ : Len) (⟨fmtDec o.prec (h), radUnit o.radunit⟩ : Len) (⟨fmtDec o.prec (a), .deg⟩ : Len), [(cQ q o c.1, cQ q o c.2)], [(⟨(fmtDec o.prec (w)).val, luU (radUnit o.radunit), false⟩ : Q), (⟨(fmtDec o.prec (h)).val, luU (radUnit o.radunit), false⟩ : Q)],
      some ⟨(fmtDec o.prec a).val, .deg, false⟩, ?_, ?_, ?_, ?_, ?_, ?_, ?_, ?_⟩
    · simp only [writeBody, flatten, List.cons_append, List.nil_append, Option.toList_none, Option.toList_some, List.append_nil]; rfl
    · simp [bodyGeom, tq, ta, bind, Except.bind, pure, Except.pure, ptQ, cQ]
    · simp
    · intro x hx
      simp only [List.mem_cons, List.mem_nil_iff, or_false] at hx
      rcases hx with rfl | rfl
      · exact ⟨rfl, w, by simp [sizesW], Or.inl rfl⟩
      · exact ⟨rfl, h, by simp [sizesW], Or.inl rfl⟩
    · intro hh; cases hh
    · intro x hx
      simp only [Option.some.injEq] at hx
      subst hx; rfl
    · intro hh; cases hh
    · intro hh
      simp only [Body.lenPairs, List.any_cons, List.any_nil, Bool.or_false, Bool.or_self] at hh
      exact ⟨hh, Or.inr (Or.inr rfl)⟩
  · have h3 := hpoly rfl
    refine ⟨.poly (pts.map fun t => ((Coord.dec (fmtDec o.prec t.1) (cuOf q o)), (Coord.dec (fmtDec o.prec t.2) (cuOf q o)))), pts.map (fun p => (cQ q o p.1, cQ q o p.2)), [], none,
      ?_, ?_, rfl, ?_, ?_, ?_, ?_, ?_⟩
    · simp only [writeBody, List.append_nil, Option.toList_none, pairsOf_flatten]; rfl
    · simp only [bodyGeom, List.length_map]
      rw [if_neg (by omega)]
      simp [ptQ, cQ, List.map_map, Function.comp_def]
    · intro a ha; cases ha
    · intro h; cases h
    · intro a h; cases h
    · intro h; cases h
    · intro h; simp [Body.lenPairs] at h
  · rename_i p1 p2
    refine ⟨.line ((Coord.dec (fmtDec o.prec p1.1) (cuOf q o)), (Coord.dec (fmtDec o.prec p1.2) (cuOf q o))) ((Coord.dec (fmtDec o.prec p2.1) (cuOf q o)), (Coord.dec (fmtDec o.prec p2.2) (cuOf q o))), [(cQ q o p1.1, cQ q o p1.2), (cQ q o p2.1, cQ q o p2.2)], [], none, ?_, ?_, ?_, ?_, ?_, ?_, ?_, ?_⟩
    · simp only [writeBody, flatten, List.cons_append, List.nil_append, Option.toList_none, Option.toList_some, List.append_nil]; rfl
    · simp [bodyGeom, ptQ, cQ]
    · simp
    · intro a ha; cases ha
    · intro h; cases h
    · intro a h; cases h
    · intro h; cases h
    · intro h; simp [Body.lenPairs] at h
  · rename_i c
    have hs := hsym rfl
    cases hm : m.get? .symbol with
    | some v =>
      rw [hm] at hs
      refine ⟨.symbol ((Coord.dec (fmtDec o.prec c.1) (cuOf q o)), (Coord.dec (fmtDec o.prec c.2) (cuOf q o))) v.pyStr, [(cQ q o c.1, cQ q o c.2)], [], none, ?_, ?_, ?_, ?_, ?_, ?_, ?_, ?_⟩
      · simp only [writeBody, flatten, List.cons_append, List.nil_append, Option.toList_none, List.append_nil, hm]; rfl
      · simp only [bodyGeom]
        rw [if_pos (by simpa [symbolOK] using hs)]
        simp [ptQ, cQ]
      · simp
      · intro a ha; cases ha
      · intro h; cases h
      · intro a h; cases h
      · intro h; cases h
      · intro h; simp [Body.lenPairs] at h
    | none =>
      rw [hm] at hs
      refine ⟨.point ((Coord.dec (fmtDec o.prec c.1) (cuOf q o)), (Coord.dec (fmtDec o.prec c.2) (cuOf q o))), [(cQ q o c.1, cQ q o c.2)], [], none, ?_, ?_, ?_, ?_, ?_, ?_, ?_, ?_⟩
      · simp only [writeBody, flatten, List.cons_append, List.nil_append, Option.toList_none, List.append_nil, hm]; rfl
      · simp [bodyGeom, ptQ, cQ]
      · simp
      · intro a ha; cases ha
      · intro h; cases h
      · intro a h; cases h
      · intro _; simpa [symbolOK] using hs
      · intro h; simp [Body.lenPairs] at h
  · rename_i c
    obtain ⟨v, hv⟩ := htext rfl
    refine ⟨.text ((Coord.dec (fmtDec o.prec c.1) (cuOf q o)), (Coord.dec (fmtDec o.prec c.2) (cuOf q o))) v.pyStr, [(cQ q o c.1, cQ q o c.2)], [], none, ?_, ?_, ?_, ?_, ?_, ?_, ?_, ?_⟩
    · simp only [writeBody, flatten, List.cons_append, List.nil_append, Option.toList_none, List.append_nil, hv]; rfl
    · simp [bodyGeom, ptQ, cQ]
    · simp
    · intro a ha; cases ha
    · intro h; cases h
    · intro a h; cases h
    · intro h; cases h
    · intro h; simp [Body.lenPairs] at h

/-! ### `Good`: the representable regions minus exactly the known failing classes -/

def annulusPrints (p : Nat) : List ℚ → Bool
  | [a, b] => decide ((fmtDec p a).val < (fmtDec p b).val)
  | _ => true

/-- a CRTF-representable region under admissible options, minus the input classes of the
open findings (each conjunct from `F19` on names its finding):
* F34: the coordinates astropy hands to the writer are those of the frame the CRTF name denotes
  (`srcPts q r = r.pts`: no foreign equinox / obstime leaks into the target frame);
* F19: every size, as printed with `fmt`, is not `0`, and an annulus keeps `inner < outer`;
* F20: a point region has a (valid) `symbol`, unless the reader knows `point`;
* F21: no pixel polygon / line while pixel coordinates are written as `deg`;
* F33: no pair of lengths in `"` (radunit `arcsec`) while the reader's regex rejects it. -/
def Good (q : Quirks) (o : Opts) (r : WReg) : Prop :=
  (WellFormed r ∧ srcPts q r = r.pts) ∧
  r.sky = !(o.coordsys == "image") ∧
  listOK ((mergedMeta r).get? .labeloff) = true ∧ listOK ((mergedMeta r).get? .range) = true ∧
  listOK ((mergedMeta r).get? .corr) = true ∧
  (r.sky = true → ∀ p ∈ r.pts, |(fmtDec o.prec p.2).val| ≤ 90) ∧
  (r.kind = .polygon → 3 ≤ r.pts.length) ∧
  (∀ s ∈ sizesW r.kind r.sizes, 0 < s ∧ 0 < (fmtDec o.prec s).mant) ∧
  (r.kind = .circleannulus → annulusPrints o.prec r.sizes = true) ∧
  (r.kind = .point → symbolOK q ((mergedMeta r).get? .symbol) = true) ∧
  ¬ (q.pixAsDeg = true ∧ r.sky = false ∧ (r.kind = .polygon ∨ r.kind = .line)) ∧
  ¬ (q.quotePairUnreadable = true ∧ o.radunit = "arcsec" ∧
      (r.kind = .circleannulus ∨ r.kind = .ellipse ∨ r.kind = .rectangle))

instance (q : Quirks) (o : Opts) (r : WReg) : Decidable (Good q o r) := by unfold Good; infer_instance

theorem arity_facts (k : Kind) (p : List (ℚ × ℚ)) (sz : List ℚ) (a : Option ℚ)
    (h : arityOK k p sz a = true) : k ≠ .compound ∧ (k ≠ .polygon → p ≠ []) := by
  unfold arityOK at h
  split at h <;> simp_all

/-- existence: the four steps succeed on a `Good` region under admissible options. -/
theorem chain_exists (q : Quirks) (qn : String → String) (o : Opts) (g : String) (r : WReg)
    (ho : optsOK o) (hg : coordsysTable.lookup o.coordsys = some g) (h : Good q o r) :
    ∃ x, Chain q qn o g r x := by
  obtain ⟨⟨⟨hA, hn⟩, hsrc⟩, hsky, hl1, hl2, hl3, hlat, hpoly, hsz, hann, hsym, hf21, hf33⟩ := h
  have hF := optFacts_all _ ho
  simp only [optFacts, Bool.and_eq_true, beq_iff_eq, Bool.not_eq_true', Bool.or_eq_true, bne_iff_ne,
    ne_eq, Bool.and_eq_false_iff] at hF
  obtain ⟨⟨⟨⟨⟨⟨⟨⟨F1, F2⟩, F3⟩, F4⟩, F5⟩, F6⟩, F7⟩, F8⟩, F9⟩ := hF
  rw [hg] at F2
  simp only [beq_iff_eq] at F2
  obtain ⟨hnc, hpne⟩ := arity_facts _ _ _ _ hA
  -- step 1: the shape
  let s : WShape := ⟨o.coordsys, r.kind, r.sky, flatten r.pts ++ r.sizes ++ r.angle.toList, shapeMeta q r,
    r.mt.get? .include⟩
  have h1 : toShape q o.coordsys r = .ok s := by
    unfold toShape
    rw [if_neg hnc]
    have : ¬ (r.sky && (isImage o.coordsys || (coordsysTable.lookup o.coordsys).isNone)) = true := by
      rw [hsky, hg, F3]
      by_cases hc : o.coordsys = "image" <;> simp [hc]
    rw [if_neg this, hsrc]
  -- the writer's meta
  have wm_get : ∀ kk, kk ≠ .label → kk ≠ .text → writerValid q kk = true →
      (writerMeta q s).get? kk = (mergedMeta r).get? kk := by
    intro kk n1 n2 hv
    unfold writerMeta
    rw [get?_filterKeys s.mt (writerValid q) kk, hv, if_pos rfl]
    exact get?_shapeMeta_ne q r kk n1 n2
  have hvw : ∀ p ∈ writerMeta q s, writerValid q p.1 = true := by
    intro p hp
    simp only [writerMeta, List.mem_filter] at hp
    exact hp.2
  obtain ⟨tail, htail⟩ := tailItems_ok q (writerMeta q s)
    (by rw [wm_get .labeloff (by decide) (by decide) rfl]; exact hl1)
    (by rw [wm_get .range (by decide) (by decide) rfl]; exact hl2)
    (by rw [wm_get .corr (by decide) (by decide) rfl]; exact hl3)
  have hcd : coordDiffers o s = none := by simp [coordDiffers, s]
  have hi : writeItems q none (writerMeta q s) = .ok (assemble (headItems q none (writerMeta q s)) tail) := by
    unfold writeItems; rw [htail]
  have htext : r.kind = .text → ∃ v, (writerMeta q s).get? .text = some v := by
    intro hk
    unfold writerMeta
    rw [get?_filterKeys s.mt (writerValid q) .text]
    simp only [writerValid, if_true]
    show ∃ v, (shapeMeta q r).get? .text = some v
    unfold shapeMeta
    rw [if_pos hk]
    split_ifs <;> exact ⟨_, get?_set_self _ _ _⟩
  obtain ⟨body, ptsQ, szQ, angQ, hb, hgeom, hpts, hszQ, hannQ, hangQ, hpb, hqp⟩ :=
    written_read q o o.coordsys r.kind r.sky r.pts r.sizes r.angle (shapeMeta q r) (writerMeta q s)
      (r.mt.get? .include) hA F5 htext
      (by intro hk; rw [wm_get .symbol (by decide) (by decide) rfl]; exact hsym hk) hpoly
  -- step 2: the line
  have hunit : ¬ (!isImage o.coordsys && !s.sky && o.radunit ≠ "") = true := by
    show ¬ (!isImage o.coordsys && !r.sky && o.radunit ≠ "") = true
    rw [hsky, F3]
    by_cases hc : o.coordsys = "image" <;> simp [hc]
  let l : RLine := { excl := shapeExcl s, ann := (writerMeta q s).get? .type = some (.str "ann"),
                     body := body, items := assemble (headItems q none (writerMeta q s)) tail }
  have h2 : writeLine q o s = .ok l := by
    unfold writeLine
    rw [if_neg (by show ¬ (coordsysTable.lookup o.coordsys).isNone = true; rw [hg]; simp), hcd, hi]
    simp only
    rw [if_neg hunit]
    have hb' : writeBody q o s (writerMeta q s) = .ok body := hb
    rw [hb']
  -- step 3: the reader's shape
  have hitems := writeItems_ok_items q _ _ hvw hi
  obtain ⟨m1, hm1⟩ := readItems_ok _ hitems (gmeta g)
  have hm : lineMeta qn (gmeta g) l = .ok (((normRange qn (m1.set .include (.bool (!l.excl)))).set .type
      (.str (if l.ann then "ann" else "reg")))) := by
    unfold lineMeta
    show (do let m1 ← readItems false (gmeta g) (assemble (headItems q none (writerMeta q s)) tail); _) = _
    rw [hm1]; rfl
  set m := ((normRange qn (m1.set .include (.bool (!l.excl)))).set .type
      (.str (if l.ann then "ann" else "reg"))) with hmdef
  have hcoord : coordsysOf m = o.coordsys := by
    have hc := global_default_inline_override qn (gmeta g) m l hm .coord (by decide) (by decide) (by decide)
    have ha : assigned false .coord l.items = none := by
      show assigned false .coord (assemble (headItems q none (writerMeta q s)) tail) = none
      have hnw : (keys (writerMeta q s)).Nodup := nodup_filter _ _ (nodup_shapeMeta q r hn)
      rw [assigned_written q _ _ hi .coord (by decide) (by decide) (by decide),
        assigned_pairItems q _ .coord hnw hvw]
      simp [writerSkip]
    rw [ha] at hc
    simp only [gmeta, AList.get?, if_true] at hc
    rw [coord_selects_frame m g hc]
    exact F2
  have hpoint : ¬ (isPointBody l.body && q.pointUnreadable) = true := by
    show ¬ (isPointBody body && q.pointUnreadable) = true
    intro hc
    simp only [Bool.and_eq_true] at hc
    rw [hpb hc.1] at hc
    exact absurd hc.2 (by simp)
  have hquote : ¬ (q.quotePairUnreadable && l.body.lenPairs.any (fun p => isQuoteUnit p.1.u || isQuoteUnit p.2.u)) = true := by
    show ¬ (q.quotePairUnreadable && body.lenPairs.any (fun p => isQuoteUnit p.1.u || isQuoteUnit p.2.u)) = true
    intro hc
    simp only [Bool.and_eq_true] at hc
    obtain ⟨hq1, hq2⟩ := hqp hc.2
    rw [F7] at hq1
    exact hf33 ⟨hc.1, by simpa using hq1, hq2⟩
  let sh : RShape := { coordsys := coordsysOf m, kind := r.kind, pts := ptsQ, sizes := szQ, angle := angQ,
                       mt := (bodyMeta m l.body).erase .coord, incl := !l.excl }
  have h3 : regionShape q qn (gmeta g) l = .ok sh := by
    unfold regionShape
    rw [if_neg hpoint, if_neg hquote, hm]
    show (do let (kind, pts, sizes, angle) ← bodyGeom body; _) = _
    rw [hgeom]; rfl
  -- step 4: the region
  have himg : isImage sh.coordsys = (o.coordsys == "image") := by
    show isImage (coordsysOf m) = _
    rw [hcoord, F3]
  have hc4 : checkCoords sh = .ok () := by
    by_cases hc : o.coordsys = "image"
    · refine checkCoords_pixel sh (by rw [himg]; simp [hc]) ?_
      intro hk p hp
      have hsk : r.sky = false := by rw [hsky]; simp [hc]
      have hpd : q.pixAsDeg = false := by
        by_contra hne
        exact hf21 ⟨by simpa using hne, hsk, hk⟩
      have hcu : cuOf q o = .pix := by
        have : isImage o.coordsys = true := by rw [F3]; simp [hc]
        simp [cuOf, hpd, this]
      change p ∈ ptsQ at hp
      rw [hpts] at hp
      simp only [List.mem_map] at hp
      obtain ⟨t, -, rfl⟩ := hp
      simp [cQ, hcu, Coord.toQ]
    · have hsk : r.sky = true := by rw [hsky]; simp [hc]
      have hcu : cuOf q o = .deg := by
        have : isImage o.coordsys = false := by rw [F3]; simp [hc]
        simp [cuOf, this]
      refine checkCoords_sky sh (by rw [himg]; simp [hc]) ?_ ?_ ?_
      · show ptsQ ≠ []
        rw [hpts]
        by_cases hkp : r.kind = .polygon
        · have := hpoly hkp
          intro he
          have hl := congrArg List.length he
          simp only [List.length_map, List.length_nil] at hl
          omega
        · simpa using hpne hkp
      · intro p hp
        change p ∈ ptsQ at hp
        rw [hpts] at hp
        simp only [List.mem_map] at hp
        obtain ⟨t, ht, rfl⟩ := hp
        simp only [cQ, hcu, Coord.toQ, true_and]
        exact hlat hsk t ht
      · show skyFrames.contains (coordsysOf m) = true
        rw [hcoord]
        rcases F6 with F6 | F6
        · exact absurd F6 hc
        · exact F6.1
  have hs4 : checkSizes sh = .ok () := by
    refine checkSizes_ok sh ?_ ?_ ?_
    · intro a ha
      change a ∈ szQ at ha
      obtain ⟨hu, t, ht, hv⟩ := hszQ a ha
      obtain ⟨ht1, ht2⟩ := hsz t ht
      have hpos := fmt_pos o.prec t ht1 ht2
      have hav : 0 < a.v := by rcases hv with hv | hv <;> rw [hv] <;> linarith
      simp only [sizeOk, Bool.and_eq_true, Bool.or_eq_true, Bool.not_eq_true', decide_eq_true_eq, hav, and_true]
      rw [himg]
      by_cases hc : o.coordsys = "image"
      · left; simp [hc]
      · right
        rw [hu]
        rcases F6 with F6 | F6
        · exact absurd F6 hc
        · have h5 := F5
          have h6 := F6.2
          revert h5 h6
          cases radUnit o.radunit <;> simp [luU]
    · intro hk
      obtain ⟨a, b, hab, hq⟩ := hannQ hk
      have hpr := hann hk
      rw [hab] at hpr
      simp only [annulusPrints, decide_eq_true_eq] at hpr
      show annulusOk (isImage sh.coordsys) szQ = true
      rw [hq]
      simp only [annulusOk]
      split_ifs
      · simpa using hpr
      · simpa using toDeg_lt _ _ _ false false hpr
    · intro a ha
      change angQ = some a at ha
      simp [angleOk, hangQ a ha]
  exact ⟨buildRegion sh, s, l, sh, h1, h2, h3, toRegion_ok sh hc4 hs4⟩

theorem forall₂_of_forall_exists {α β : Type} {R : α → β → Prop} (l : List α)
    (h : ∀ a ∈ l, ∃ b, R a b) : ∃ l', List.Forall₂ R l l' := by
  induction l with
  | nil => exact ⟨[], List.Forall₂.nil⟩
  | cons a r ih =>
    obtain ⟨b, hb⟩ := h a List.mem_cons_self
    obtain ⟨l', hl'⟩ := ih fun x hx => h x (List.mem_cons_of_mem _ hx)
    exact ⟨b :: l', List.Forall₂.cons hb hl'⟩

theorem forall₂_split {α β γ : Type} {R : α → β → Prop} {S : β → γ → Prop} {l1 : List α} {l3 : List γ}
    (h : List.Forall₂ (fun a c => ∃ b, R a b ∧ S b c) l1 l3) :
    ∃ l2, List.Forall₂ R l1 l2 ∧ List.Forall₂ S l2 l3 := by
  induction h with
  | nil => exact ⟨[], List.Forall₂.nil, List.Forall₂.nil⟩
  | cons hab _ ih =>
    obtain ⟨b, h1, h2⟩ := hab
    obtain ⟨l2, i1, i2⟩ := ih
    exact ⟨b :: l2, List.Forall₂.cons h1 i1, List.Forall₂.cons h2 i2⟩

/-- the converse of `roundtrip_list`: per-region chains assemble into a successful
serialise-then-parse of the whole list. -/
theorem roundtrip_list_ok (q : Quirks) (qn : String → String) (o : Opts) (g : String) (rs : List WReg)
    (gs : List RReg) (hg : coordsysTable.lookup o.coordsys.toLower = some g)
    (hna : ¬ (o.radunit = "arcsec" ∧ o.coordsys.toLower = "image"))
    (h : List.Forall₂ (Chain q qn o g) rs gs) :
    ∃ ls, serialize q o rs = .ok ls ∧ parse q qn ls = .ok gs := by
  have h' : List.Forall₂ (fun r x => ∃ sh, (∃ l, (∃ s, toShape q o.coordsys r = .ok s ∧ writeLine q o s = .ok l) ∧
      regionShape q qn (gmeta g) l = .ok sh) ∧ toRegion sh = .ok x) rs gs := by
    refine h.imp ?_
    rintro r x ⟨s, l, sh, a, b, c, d⟩
    exact ⟨sh, ⟨l, ⟨s, a, b⟩, c⟩, d⟩
  obtain ⟨rsh, h123, h4⟩ := forall₂_split h'
  obtain ⟨lines, h12, h3⟩ := forall₂_split h123
  obtain ⟨shapes, h1, h2⟩ := forall₂_split h12
  have e1 := (mapM_ok_iff _ _ _).mpr h1
  have e2 := (mapM_ok_iff _ _ _).mpr h2
  have e3 := (mapM_ok_iff _ _ _).mpr h3
  have e4 := (mapM_ok_iff _ _ _).mpr h4
  have hgne : (MTok.scalar g .none).lexed = some (.scalar g .none) := by
    have : ∀ p ∈ coordsysTable, (MTok.scalar p.2 .none).lexed = some (.scalar p.2 .none) := by decide +kernel
    exact this _ (lookup_mem _ _ _ hg)
  refine ⟨.comment "CRTFv0" :: .global [.pair "coord" (.scalar g .none)] :: lines.map .region, ?_, ?_⟩
  · unfold serialize
    rw [e1]
    simp only [bind, Except.bind, toCrtf]
    rw [if_neg hna, hg]
    simp only [e2, pure, Except.pure]
  · unfold parse
    rw [phase1_written q qn g hgne, e3]
    simp only [bind, Except.bind]
    exact e4

/-- full-strength clause: under every admissible option set every list of representable
regions (the property's quantifier; sizes that do not print as `0` — F19 is a limit of the
format, not of the code) round-trips. -/
def Representable (o : Opts) (r : WReg) : Prop := Good Quirks.fixed o r

instance (o : Opts) (r : WReg) : Decidable (Representable o r) := by unfold Representable; infer_instance

def crtf_roundtrip_full (q : Quirks) : Prop :=
  ∀ (o : Opts) (rs : List WReg), optsOK o → (∀ r ∈ rs, Representable o r) →
    ∃ ls gs, serialize q o rs = .ok ls ∧ parse q id ls = .ok gs ∧ List.Forall₂ (RT q o) rs gs

/-- `crtf_roundtrip` (partial, any list length, any `Quirks`): under admissible options every
list of `Good` regions is serialised, read back, and related to the input by `RT`. -/
theorem crtf_roundtrip_partial (q : Quirks) (qn : String → String) (o : Opts) (rs : List WReg)
    (ho : optsOK o) (h : ∀ r ∈ rs, Good q o r) :
    ∃ ls gs, serialize q o rs = .ok ls ∧ parse q qn ls = .ok gs ∧ List.Forall₂ (RT q o) rs gs := by
  have hF := optFacts_all _ ho
  simp only [optFacts, Bool.and_eq_true, beq_iff_eq, Bool.not_eq_true', Bool.or_eq_true, bne_iff_ne,
    ne_eq, Bool.and_eq_false_iff] at hF
  obtain ⟨⟨⟨⟨⟨⟨⟨⟨F1, F2⟩, F3⟩, F4⟩, F5⟩, F6⟩, F7⟩, F8⟩, F9⟩ := hF
  cases hg : coordsysTable.lookup o.coordsys with
  | none => rw [hg] at F2; simp at F2
  | some g =>
    obtain ⟨gs, hgs⟩ := forall₂_of_forall_exists rs (fun r hr => chain_exists q qn o g r ho hg (h r hr))
    have hna : ¬ (o.radunit = "arcsec" ∧ o.coordsys.toLower = "image") := by
      rintro ⟨a, b⟩
      rcases F4 with F4 | F4
      · exact absurd a (by simpa using F4)
      · exact absurd b (by simpa using F4)
    obtain ⟨ls, h1, h2⟩ := roundtrip_list_ok q qn o g rs gs (by rw [F1]; exact hg) hna hgs
    exact ⟨ls, gs, h1, h2, crtf_roundtrip q qn o rs ls gs (fun r hr => (h r hr).1) h1 h2⟩

/-- with every candidate defect repaired the full-strength clause holds. -/
theorem crtf_roundtrip_fixed : crtf_roundtrip_full Quirks.fixed :=
  fun o rs ho h => crtf_roundtrip_partial Quirks.fixed id o rs ho h

/-! ## 8. `crtf_fixed_point`: parse -> serialise -> parse -/

/-- `x` has at most `p` decimals. -/
def OnGrid (p : Nat) (x : ℚ) : Prop := ∃ m : Nat, |x| * (10 : ℚ) ^ p = (m : ℚ)

theorem onGrid_of_int (p : Nat) (x : ℚ) (z : ℤ) (h : x * (10 : ℚ) ^ p = (z : ℚ)) : OnGrid p x := by
  have hp : (0 : ℚ) < 10 ^ p := by positivity
  refine ⟨z.natAbs, ?_⟩
  have : |x| * (10 : ℚ) ^ p = |x * (10 : ℚ) ^ p| := by rw [abs_mul, abs_of_pos hp]
  rw [this, h, Nat.cast_natAbs, Int.cast_abs]

theorem onGrid_int (p : Nat) (x : ℚ) (h : OnGrid p x) : ∃ z : ℤ, x * (10 : ℚ) ^ p = (z : ℚ) := by
  obtain ⟨m, hm⟩ := h
  by_cases hx : 0 ≤ x
  · exact ⟨m, by rw [abs_of_nonneg hx] at hm; rw [hm]; simp⟩
  · refine ⟨-(m : ℤ), ?_⟩
    rw [abs_of_neg (not_le.mp hx)] at hm
    push_cast
    linarith

/-- wrapping a longitude by whole turns of 360 keeps it on the grid. -/
theorem onGrid_wrap (p : Nat) (v : ℚ) (h : OnGrid p v) : OnGrid p (wrap360 v) := by
  obtain ⟨z, hz⟩ := onGrid_int p v h
  refine onGrid_of_int p _ (z - 360 * ⌊v / 360⌋ * 10 ^ p) ?_
  unfold wrap360
  push_cast
  rw [← hz]; ring

theorem onGrid_lonOf (p : Nat) (v b : ℚ) (hl : LonOf v b) (h : OnGrid p v) : OnGrid p b := by
  rcases hl with rfl | rfl
  · exact h
  · exact onGrid_wrap p v h

theorem forall₂_grid_pts (p : Nat) {A B C : List (ℚ × ℚ)}
    (h1 : List.Forall₂ (RelPt fun _ y => OnGrid p y) A B)
    (h2 : List.Forall₂ (fun (s b : ℚ × ℚ) => LonOf s.1 b.1 ∧ b.2 = s.2) B C) :
    List.Forall₂ (RelPt fun _ y => OnGrid p y) A C := by
  induction h1 generalizing C with
  | nil => cases h2; exact List.Forall₂.nil
  | cons hab _ ih =>
    cases h2 with
    | cons hbc hr =>
      refine List.Forall₂.cons ⟨onGrid_lonOf p _ _ hbc.1 hab.1, ?_⟩ (ih hr)
      rw [hbc.2]; exact hab.2

/-- what was read from a written line is on the grid of the precision (ellipse axes: their
halves, which is what the file stores); wrapping a longitude does not change that. -/
theorem parsed_on_grid (q : Quirks) (qn : String → String) (o : Opts) (g : String) (r : WReg) (x : RReg)
    (h : Chain q qn o g r x) (hA : arityOK r.kind r.pts r.sizes r.angle = true) (hsrc : srcPts q r = r.pts) :
    GeomRel (fun _ y => OnGrid o.prec y) (fun _ y => OnGrid o.prec (y / 2)) r.kind r.pts r.sizes r.angle
      (x.pts.map fun p => (p.1.v, p.2.v)) (x.sizes.map (·.v)) (x.angle.map (·.v)) := by
  obtain ⟨-, ptsS, ⟨g1, g2, g3⟩, hu, hp⟩ :=
    chain_geom (fun _ y => OnGrid o.prec y) (fun _ y => OnGrid o.prec (y / 2)) q qn o g
      (fun x => fmtDec_val_on_grid o.prec x)
      (fun w => by
        have : 2 * (fmtDec o.prec (w / 2)).val / 2 = (fmtDec o.prec (w / 2)).val := by ring
        show OnGrid o.prec (2 * (fmtDec o.prec (w / 2)).val / 2)
        rw [this]; exact fmtDec_val_on_grid o.prec _) r x h hA hsrc
  refine ⟨?_, g2, g3⟩
  rw [hp]
  refine forall₂_grid_pts o.prec g1 (regionPts_lon _ _ ?_)
  intro pt hpt
  rw [hu pt hpt]
  exact lonU_cases q o

/-- a region whose numbers are on the grid is denoted EXACTLY by the line written for it. -/
theorem on_grid_exact (q : Quirks) (qn : String → String) (o : Opts) (g : String) (w : WReg) (x : RReg)
    (h : Chain q qn o g w x) (hA : arityOK w.kind w.pts w.sizes w.angle = true) (hsrc : srcPts q w = w.pts) :
    x.kind = w.kind ∧
    ∃ ptsS : List (Q × Q),
      GeomRel (fun a y => OnGrid o.prec a → y = a) (fun a y => OnGrid o.prec (a / 2) → y = a)
        w.kind w.pts w.sizes w.angle
        (ptsS.map fun p => (p.1.v, p.2.v)) (x.sizes.map (·.v)) (x.angle.map (·.v)) ∧
      (∀ p ∈ ptsS, p.1.u = lonU q o) ∧ x.pts = regionPts x.frame ptsS :=
  chain_geom (fun a y => OnGrid o.prec a → y = a) (fun a y => OnGrid o.prec (a / 2) → y = a) q qn o g
    (fun a ⟨m, hm⟩ => fmtDec_grid o.prec a m hm)
    (fun a ⟨m, hm⟩ => by rw [fmtDec_grid o.prec (a / 2) m hm]; ring) w x h hA hsrc

/-- re-reading what was already stored in a region object stores the same values again
(wrapping is idempotent; pixel values are kept). -/
theorem regionPts_idem (f : String) (u0 : U) (P1 P2 : List (Q × Q))
    (hu1 : ∀ p ∈ P1, p.1.u = u0) (hu2 : ∀ p ∈ P2, p.1.u = u0)
    (hv : P2.map (fun p => (p.1.v, p.2.v)) = (regionPts f P1).map (fun p => (p.1.v, p.2.v))) :
    (regionPts f P2).map (fun p => (p.1.v, p.2.v)) = (regionPts f P1).map (fun p => (p.1.v, p.2.v)) := by
  unfold regionPts at hv ⊢
  split_ifs at hv ⊢
  · simp only [List.map_map, Function.comp_def, dropUnit] at hv ⊢
    exact hv
  · simp only [List.map_map, Function.comp_def] at hv ⊢
    induction P1 generalizing P2 with
    | nil =>
      cases P2 with
      | nil => rfl
      | cons b r2 => simp at hv
    | cons a r1 ih =>
      cases P2 with
      | nil => simp at hv
      | cons b r2 =>
        simp only [List.map_cons, List.cons.injEq, Prod.mk.injEq] at hv ⊢
        obtain ⟨⟨hv1, hv2⟩, hvr⟩ := hv
        have hub : b.1.u = a.1.u := by
          rw [hu2 b List.mem_cons_self, hu1 a List.mem_cons_self]
        refine ⟨⟨?_, hv2⟩, ih r2 (fun p hp => hu1 p (List.mem_cons_of_mem _ hp))
          (fun p hp => hu2 p (List.mem_cons_of_mem _ hp)) hvr⟩
        rw [wrapLon_idem a.1 b.1 hub hv1, hv1]

theorem assigned_pairItems_skip (q : Quirks) (m : AList) (k : Key) (hs : writerSkip q k = true)
    (hv : ∀ p ∈ m, writerValid q p.1 = true) : assigned false k (pairItems q m) = none := by
  induction m with
  | nil => rfl
  | cons a r ih =>
    obtain ⟨ka, va⟩ := a
    have ih' := ih fun p hp => hv p (List.mem_cons_of_mem _ hp)
    have hva : writerValid q ka = true := hv (ka, va) List.mem_cons_self
    unfold pairItems at ih' ⊢
    by_cases hsk : writerSkip q ka
    · simp only [List.filter_cons, hsk, Bool.not_true, Bool.false_eq_true, if_false]
      exact ih'
    · simp only [List.filter_cons, hsk, Bool.not_false, if_true, List.map_cons, assigned, ih']
      have : ¬ itemKey false ka.toString = k := by
        rw [itemKey_toString q ka hva]
        intro e; subst e; exact hsk hs
      simp [this]

/-- the region read back is in the requested frame (`coord=` is never written inline, the
`global coord=` line names the frame, and the reader maps the name back). -/
theorem chain_frame (q : Quirks) (qn : String → String) (o : Opts) (g : String) (r : WReg) (x : RReg)
    (h : Chain q qn o g r x) (ho : optsOK o) (hg : coordsysTable.lookup o.coordsys = some g) :
    x.frame = o.coordsys := by
  have hF := optFacts_all _ ho
  simp only [optFacts, Bool.and_eq_true, beq_iff_eq, Bool.not_eq_true', Bool.or_eq_true, bne_iff_ne,
    ne_eq, Bool.and_eq_false_iff] at hF
  obtain ⟨⟨⟨⟨⟨⟨⟨⟨F1, F2⟩, F3⟩, F4⟩, F5⟩, F6⟩, F7⟩, F8⟩, F9⟩ := hF
  rw [hg] at F2
  simp only [beq_iff_eq] at F2
  obtain ⟨s, l, sh, h1, h2, h3, h4⟩ := h
  obtain ⟨hs, -, -⟩ := toShape_inv h1
  have s_cs : s.coordsys = o.coordsys := by rw [hs]
  obtain ⟨items, body, hi, hb, hl, -⟩ := writeLine_inv h2
  have l_items : l.items = items := by rw [hl]
  obtain ⟨m, k, pts, sz, a, hm, hgm, hsh, -, -⟩ := regionShape_inv h3
  have sh_cs : sh.coordsys = coordsysOf m := by rw [hsh]
  obtain ⟨hx, -, -⟩ := toRegion_inv h4
  have hcd : coordDiffers o s = none := by simp [coordDiffers, s_cs]
  rw [hcd] at hi
  have hvw : ∀ p ∈ writerMeta q s, writerValid q p.1 = true := by
    intro p hp
    simp only [writerMeta, List.mem_filter] at hp
    exact hp.2
  have hc := global_default_inline_override qn (gmeta g) m l hm .coord (by decide) (by decide) (by decide)
  have ha : assigned false .coord l.items = none := by
    rw [l_items, assigned_written q _ _ hi .coord (by decide) (by decide) (by decide),
      assigned_pairItems_skip q _ .coord rfl hvw]
  rw [ha] at hc
  simp only [gmeta, AList.get?, if_true] at hc
  rw [hx]
  show sh.coordsys = o.coordsys
  rw [sh_cs, coord_selects_frame m g hc]
  exact F2

theorem forall₂_exact_eq {P : ℚ → Prop} {l0 : List ℚ} {l1 l2 : List ℚ}
    (h1 : List.Forall₂ (fun _ y => P y) l0 l1) (h2 : List.Forall₂ (fun a y => P a → y = a) l1 l2) : l2 = l1 := by
  induction h1 generalizing l2 with
  | nil => cases h2; rfl
  | cons hp _ ih =>
    cases h2 with
    | cons he hr => rw [he hp, ih hr]

theorem forall₂_exact_pt_eq {P : ℚ → Prop} {l0 l1 l2 : List (ℚ × ℚ)}
    (h1 : List.Forall₂ (RelPt fun _ y => P y) l0 l1)
    (h2 : List.Forall₂ (RelPt fun a y => P a → y = a) l1 l2) : l2 = l1 := by
  induction h1 generalizing l2 with
  | nil => cases h2; rfl
  | cons hp _ ih =>
    cases h2 with
    | cons he hr =>
      rw [ih hr]
      congr 1
      exact Prod.ext (he.1 hp.1) (he.2 hp.2)

theorem arity_of_shape (k : Kind) (p p' : List (ℚ × ℚ)) (s s' : List ℚ) (a a' : Option ℚ)
    (h : arityOK k p s a = true) (hp : p.length = p'.length) (hs : s.length = s'.length)
    (ha : a.isSome = a'.isSome) : arityOK k p' s' a' = true := by
  unfold arityOK at h
  split at h <;> try (exact absurd h Bool.false_ne_true)
  all_goals
    simp only [List.length_cons, List.length_nil, Option.isSome_none, Option.isSome_some] at hp hs ha
  · obtain ⟨c, rfl⟩ := List.length_eq_one_iff.mp hp.symm
    obtain ⟨r, rfl⟩ := List.length_eq_one_iff.mp hs.symm
    cases a' <;> first | rfl | (exfalso; revert ha; simp)
  · obtain ⟨c, rfl⟩ := List.length_eq_one_iff.mp hp.symm
    obtain ⟨r1, r2, rfl⟩ := List.length_eq_two.mp hs.symm
    cases a' <;> first | rfl | (exfalso; revert ha; simp)
  · obtain ⟨c, rfl⟩ := List.length_eq_one_iff.mp hp.symm
    obtain ⟨r1, r2, rfl⟩ := List.length_eq_two.mp hs.symm
    cases a' <;> first | rfl | (exfalso; revert ha; simp)
  · obtain ⟨c, rfl⟩ := List.length_eq_one_iff.mp hp.symm
    obtain ⟨r1, r2, rfl⟩ := List.length_eq_two.mp hs.symm
    cases a' <;> first | rfl | (exfalso; revert ha; simp)
  · have : s' = [] := List.length_eq_zero_iff.mp hs.symm
    subst this
    cases a' <;> first | rfl | (exfalso; revert ha; simp)
  · obtain ⟨c1, c2, rfl⟩ := List.length_eq_two.mp hp.symm
    have : s' = [] := List.length_eq_zero_iff.mp hs.symm
    subst this
    cases a' <;> first | rfl | (exfalso; revert ha; simp)
  · obtain ⟨c, rfl⟩ := List.length_eq_one_iff.mp hp.symm
    have : s' = [] := List.length_eq_zero_iff.mp hs.symm
    subst this
    cases a' <;> first | rfl | (exfalso; revert ha; simp)
  · obtain ⟨c, rfl⟩ := List.length_eq_one_iff.mp hp.symm
    have : s' = [] := List.length_eq_zero_iff.mp hs.symm
    subst this
    cases a' <;> first | rfl | (exfalso; revert ha; simp)

theorem toW_inv {o : Opts} {x : RReg} {w : WReg} (h : toW o x = some w) :
    w.kind = x.kind ∧ w.pts = x.pts.map (fun p => (p.1.v, p.2.v)) ∧ w.sizes = x.sizes.map (·.v) ∧
      w.angle = x.angle.map (·.v) ∧ w.mt = x.mt ∧ w.vis = x.vis ∧ w.ptsKept = w.pts := by
  unfold toW at h
  simp only at h
  split_ifs at h <;>
    (simp only [Option.some.injEq] at h; subst h; exact ⟨rfl, rfl, rfl, rfl, rfl, rfl, rfl⟩)

/-- `crtf_fixed_point` (geometry and class): serialise a region, parse it (`x`), serialise
what was parsed (`w = toW x`: same frame and units, so astropy's conversions are
identities), parse again (`x'`): the second result has the same class and EXACTLY the same
numbers as the first — the stored longitudes are in [0, 360) and stay where they are. -/
theorem crtf_fixed_point (q : Quirks) (qn : String → String) (o : Opts) (g : String)
    (r : WReg) (x : RReg) (w : WReg) (x' : RReg)
    (ho : optsOK o) (hg : coordsysTable.lookup o.coordsys = some g)
    (h1 : Chain q qn o g r x) (hA : arityOK r.kind r.pts r.sizes r.angle = true)
    (hsrc : srcPts q r = r.pts)
    (hw : toW o x = some w) (h2 : Chain q qn o g w x') :
    x'.kind = x.kind ∧ x'.frame = x.frame ∧
    x'.pts.map (fun p => (p.1.v, p.2.v)) = x.pts.map (fun p => (p.1.v, p.2.v)) ∧
    x'.sizes.map (·.v) = x.sizes.map (·.v) ∧ x'.angle.map (·.v) = x.angle.map (·.v) := by
  obtain ⟨w_kind, w_pts, w_sizes, w_angle, -, -, w_kept⟩ := toW_inv hw
  have hsrcw : srcPts q w = w.pts := by unfold srcPts; split_ifs <;> [exact w_kept; rfl]
  obtain ⟨xk, ptsS1, -, hu1, hp1⟩ := chain_geom (Close o.prec) (Close2 o.prec) q qn o g (close_fmt o.prec)
    (close2_fmt_half o.prec) r x h1 hA hsrc
  have gg := parsed_on_grid q qn o g r x h1 hA hsrc
  -- the parsed region has the parameter lists of its class
  have hAw : arityOK w.kind w.pts w.sizes w.angle = true := by
    rw [w_kind, xk, w_pts, w_sizes, w_angle]
    refine arity_of_shape _ _ _ _ _ _ _ hA gg.1.length_eq ?_ ?_
    · have := gg.2.1
      split_ifs at this <;> exact this.length_eq
    · have := gg.2.2
      cases hra : r.angle <;> cases hxa : x.angle.map (·.v) <;> simp_all
  obtain ⟨xk', ptsS2, ge, hu2, hp2⟩ := on_grid_exact q qn o g w x' h2 hAw hsrcw
  rw [w_kind, w_pts, w_sizes, w_angle] at ge
  rw [xk] at ge
  have f1 : x.frame = o.coordsys := chain_frame q qn o g r x h1 ho hg
  have f2 : x'.frame = o.coordsys := chain_frame q qn o g w x' h2 ho hg
  -- what the second line denotes is what the first region object holds …
  have e1 : ptsS2.map (fun p => (p.1.v, p.2.v)) = x.pts.map (fun p => (p.1.v, p.2.v)) :=
    forall₂_exact_pt_eq gg.1 ge.1
  refine ⟨by rw [xk', w_kind], by rw [f1, f2], ?_, ?_, ?_⟩
  · -- … and storing it again (wrap of an already wrapped longitude) changes nothing
    rw [hp2, f2, ← f1]
    have := regionPts_idem x.frame (lonU q o) ptsS1 ptsS2 hu1 hu2 (by rw [e1, hp1])
    rw [this, ← hp1]
  · have g2 := gg.2.1
    have e2 := ge.2.1
    by_cases hk : r.kind = .ellipse
    · rw [if_pos hk] at g2 e2
      exact forall₂_exact_eq (P := fun y => OnGrid o.prec (y / 2)) g2 e2
    · rw [if_neg hk] at g2 e2
      exact forall₂_exact_eq (P := fun y => OnGrid o.prec y) g2 e2
  · have g3 := gg.2.2
    have e3 := ge.2.2
    cases hxa : x.angle.map (·.v) with
    | none =>
      rw [hxa] at e3
      cases hx'a : x'.angle.map (·.v) with
      | none => rfl
      | some y => rw [hx'a] at e3; simp at e3
    | some a =>
      rw [hxa] at e3 g3
      cases hx'a : x'.angle.map (·.v) with
      | none => rw [hx'a] at e3; simp at e3
      | some y =>
        rw [hx'a] at e3
        cases hra : r.angle with
        | none => rw [hra] at g3; simp at g3
        | some ra =>
          rw [hra] at g3
          simp only at g3 e3
          rw [e3 g3]

/-- `crtf_fixed_point` (metadata): values that are already text — as everything the reader
produces is — are written and read back verbatim; include sense and annotation type are
kept (clauses `incl`, `ann`, `scalar`, `label` of `RT` applied to the parsed region). -/
theorem crtf_fixed_point_meta (q : Quirks) (o : Opts) (w : WReg) (x' : RReg) (h : RT q o w x')
    (k : Key) (t : String) (hk : scalarKey q k = true) (hv : (mergedMeta w).get? k = some (.str t))
    (ht : LexOK k (.str t)) :
    (if isViz k then x'.vis else x'.mt).get? k = some (.str t) :=
  h.scalar k (.str t) hk hv ht

/-- `ellipse_axes_swap_involutive`: the writer puts `[height/2, width/2]` on the line, the
reader doubles and swaps back: `width`, `height` come back in their places as twice the
printed halves, the rotation angle is printed and read as it is (no factor), and when the
halves and the angle already have at most `p` decimals the whole thing is the identity. -/
theorem ellipse_axes_swap_involutive (q : Quirks) (o : Opts) (cs : String) (sky : Bool) (mt m : AList)
    (incl : Option MVal) (c : ℚ × ℚ) (w h a : ℚ)
    (hu : [LUnit.deg, .arcmin, .dq, .rad, .pix].contains (radUnit o.radunit) = true) :
    ∃ body P W H A,
      writeBody q o ⟨cs, .ellipse, sky, [c.1, c.2, w, h, a], mt, incl⟩ m = .ok body ∧
      bodyGeom body = .ok (.ellipse, [P], [W, H], some A) ∧
      W.v = 2 * (fmtDec o.prec (w / 2)).val ∧ H.v = 2 * (fmtDec o.prec (h / 2)).val ∧
      A.v = (fmtDec o.prec a).val ∧
      (OnGrid o.prec (w / 2) → W.v = w) ∧ (OnGrid o.prec (h / 2) → H.v = h) ∧ (OnGrid o.prec a → A.v = a) := by
  have tq := fun d => toQ_of_unit d (radUnit o.radunit) hu
  have ta : ∀ d : Dec, Len.toQ ⟨d, .deg⟩ = .ok ⟨d.val, .deg, false⟩ := fun d => rfl
  have e : a / 2 * 2 = a := by ring
  refine ⟨.ellipse (Coord.dec (fmtDec o.prec c.1) (cuOf q o), Coord.dec (fmtDec o.prec c.2) (cuOf q o))
      ⟨fmtDec o.prec (h / 2), radUnit o.radunit⟩ ⟨fmtDec o.prec (w / 2), radUnit o.radunit⟩
      ⟨fmtDec o.prec (a / 2 * 2), .deg⟩, (cQ q o c.1, cQ q o c.2),
    Q.scale 2 ⟨(fmtDec o.prec (w / 2)).val, luU (radUnit o.radunit), false⟩,
    Q.scale 2 ⟨(fmtDec o.prec (h / 2)).val, luU (radUnit o.radunit), false⟩,
    Q.scale (1 / 2) (Q.scale 2 ⟨(fmtDec o.prec (a / 2 * 2)).val, .deg, false⟩), ?_, ?_, ?_, ?_, ?_, ?_, ?_, ?_⟩
  · simp only [writeBody]; rfl
  · simp [bodyGeom, tq, ta, bind, Except.bind, pure, Except.pure, ptQ, cQ]
  · simp only [Q.scale]; ring
  · simp only [Q.scale]; ring
  · simp only [Q.scale, e]; ring
  · rintro ⟨n, hn⟩; simp only [Q.scale]; rw [fmtDec_grid o.prec (w / 2) n hn]; ring
  · rintro ⟨n, hn⟩; simp only [Q.scale]; rw [fmtDec_grid o.prec (h / 2) n hn]; ring
  · rintro ⟨n, hn⟩; simp only [Q.scale, e]; rw [fmtDec_grid o.prec a n hn]; ring

/-! ## 9. the current code refutes the full-strength round trip (one witness per finding) -/

/-- success of serialise-then-parse, as a Boolean of the executable model. -/
def rtOK (q : Quirks) (o : Opts) (rs : List WReg) : Bool :=
  match serialize q o rs with
  | .ok ls => (match parse q id ls with | .ok _ => true | .error _ => false)
  | .error _ => false

theorem rtOK_of_full (q : Quirks) (o : Opts) (rs : List WReg)
    (h : ∃ ls gs, serialize q o rs = .ok ls ∧ parse q id ls = .ok gs ∧ List.Forall₂ (RT q o) rs gs) :
    rtOK q o rs = true := by
  obtain ⟨ls, gs, h1, h2, -⟩ := h
  unfold rtOK; rw [h1]; simp only; rw [h2]

def skyOpts : Opts := ⟨"fk5", 6, "deg"⟩
def pointNoSymbol : WReg :=
  { kind := .point, sky := true, pts := [(10, 20)], sizes := [], angle := none, text := "", mt := [], vis := [] }
def pixelPolygon : WReg :=
  { kind := .polygon, sky := false, pts := [(1, 4), (2, 5), (7/2, 7)], sizes := [], angle := none, text := "",
    mt := [], vis := [] }
def skyEllipse : WReg :=
  { kind := .ellipse, sky := true, pts := [(10, 20)], sizes := [1/2, 1/4], angle := some 30, text := "",
    mt := [], vis := [] }

-- crtf_roundtrip_refuted_F20: removed, F20 fixed in /repo by 5176ec4

-- crtf_roundtrip_refuted_F21: removed, F21 fixed in /repo by 3bd1349

-- crtf_roundtrip_refuted_F33: removed, F33 fixed in /repo by 10da16e

/-- the coordinates read back, as a value of the executable model. -/
def rtPoints (q : Quirks) (o : Opts) (rs : List WReg) : Option (List (List (ℚ × ℚ))) :=
  match serialize q o rs with
  | .ok ls => (match parse q id ls with
    | .ok gs => some (gs.map fun x => x.pts.map fun p => (p.1.v, p.2.v))
    | .error _ => none)
  | .error _ => none

/-- `CircleSkyRegion(SkyCoord(10, 20, frame=FK5(equinox='J1975')), 1 deg)` with `coordsys='fk5'`: in
J2000 the centre is (10.329231, 20.137001) (`pts`); what `transform_to(FK5)` hands to the writer
keeps equinox J1975, i.e. (10, 20) (`ptsKept`). -/
def foreignEquinox : WReg :=
  { kind := .circle, sky := true, pts := [(10329231 / 1000000, 20137001 / 1000000)], sizes := [1], angle := none,
    text := "", mt := [], vis := [], ptsKept := [(10, 20)] }

-- crtf_roundtrip_refuted_F34: removed, F34 fixed in /repo by 120394c

example : Good { Quirks.current with keepSourceAttrs := false } skyOpts foreignEquinox := by decide +kernel

/-- the witnesses are representable, and `Good` (so covered by `crtf_roundtrip_partial`) as soon
as their own defect is repaired; an ordinary region is `Good` under the current code. -/
example : Good { Quirks.current with pointUnreadable := false } skyOpts pointNoSymbol := by decide +kernel
example : Good { Quirks.current with pixAsDeg := false } ⟨"image", 6, "deg"⟩ pixelPolygon := by decide +kernel
example : Good { Quirks.current with quotePairUnreadable := false } ⟨"fk5", 3, "arcsec"⟩ skyEllipse := by
  decide +kernel
example : Good Quirks.current skyOpts skyEllipse := by decide +kernel
example : optsOK skyOpts := by decide +kernel

/-- F19 (a limit the partial theorem states as a hypothesis): a radius below half a unit of
the precision is printed as `0.000` and the reader rejects a non-positive size. -/
example : rtOK Quirks.fixed ⟨"fk5", 3, "deg"⟩
    [{ kind := .circle, sky := true, pts := [(10, 20)], sizes := [1/4000], angle := none, text := "",
       mt := [], vis := [] }] = false := by decide +kernel

/-- F31: `labelcolor` is in the reader's vocabulary but not in the writer's: it does not
survive (the `scalar` clause of `RT` covers it only once the writer knows the key). -/
example : scalarKey Quirks.current .labelcolor = false ∧ scalarKey Quirks.fixed .labelcolor = true := by decide

/-! ### labels and other quoted values (F36)

`regex_meta` does not pair quotes up: the value of `key='…'` ends at the NEXT quote character or
comma and is stripped.  The `label` / `scalar` clauses of `RT` therefore carry the decidable
hypothesis `LexOK` (the written token is handed back unchanged); at full strength — every
non-empty label comes back — the clause is refuted. -/

/-- full-strength clause: every non-empty label, written as `label='…'`, is read back as it is. -/
def label_lexing_full : Prop :=
  ∀ s : String, s ≠ "" → (MTok.scalar s .single).lexed = some (.scalar s .none)

/-- F36: `label='beam 3.5"'` is read as `beam 3.5` (also `it's` -> `it`, `"M42"` -> `M42`,
` lead` -> `lead`). -/
theorem label_lexing_refuted_F36 : ¬ label_lexing_full := by
  intro h
  have := h "beam 3.5\"" (by decide)
  revert this
  decide +kernel

/-- partial: that is exactly `LexOK`, the hypothesis of `RT.label` / `RT.scalar`; ordinary labels meet it. -/
example : LexOK .label (.str "My label here") ∧ LexOK .label (.str "a=b #1") ∧ LexOK .color (.str "light blue") ∧
    LexOK .linewidth (.int 2) := by decide +kernel

example : ¬ LexOK .label (.str "it's") ∧ ¬ LexOK .label (.str " lead") ∧ ¬ LexOK .label (.str "\"M42\"") ∧
    ¬ LexOK .label (.str "") := by decide +kernel

/-- what the reader makes of them. -/
example : (MTok.scalar "it's" .single).lexed = some (.scalar "it" .none) ∧
    (MTok.scalar "\"M42\"" .single).lexed = some (.scalar "M42" .none) ∧
    (MTok.scalar "\"" .single).lexed = some (.scalar "'" .none) ∧
    (MTok.scalar "" .single).lexed = some (.scalar "'" .none) ∧
    (MTok.scalar "" .none).lexed = none := by decide +kernel

/-! ## 10. non-vacuity: concrete inputs meet the hypotheses of the conditional theorems -/

/-- `crtf_roundtrip`: a well-formed region whose serialisation is accepted. -/
example : WellFormed skyEllipse ∧ rtOK Quirks.current skyOpts [skyEllipse] = true := by decide +kernel

/-- `crtf_fixed_point`: what is parsed from the writer's text is in the requested frame and
units, so `toW` is defined on it. -/
example : (match serialize Quirks.current skyOpts [skyEllipse] with
    | .ok ls => (match parse Quirks.current id ls with
      | .ok [x] => (toW skyOpts x).isSome
      | _ => false)
    | .error _ => false) = true := by decide +kernel

/-- `global_default_inline_override`: `color` given globally and inline (inline wins), `frame` only globally. -/
example : (match lineMeta id [(.color, .str "blue"), (.frame, .str "BARY")]
      { excl := false, ann := false,
        body := .point (.dec ⟨false, 1, 0⟩ .deg, .dec ⟨false, 2, 0⟩ .deg),
        items := [.pair "color" (.scalar "red" .none)] } with
    | .ok m => decide (m.get? .color = some (.str "red") ∧ m.get? .frame = some (.str "BARY"))
    | .error _ => false) = true := by decide +kernel

/-- `units_required`: `circle[[1deg, 2deg], 3]` has a length without unit. -/
example : ∃ x ∈ lens (.circle (.dec ⟨false, 1, 0⟩ .deg, .dec ⟨false, 2, 0⟩ .deg) ⟨⟨false, 3, 0⟩, .none⟩),
    x.u = .none := ⟨_, List.mem_singleton.mpr rfl, rfl⟩

/-- `box_corner_form` / `box_forms_agree`: `box[[1deg, 2deg], [3deg, 5deg]]` is the rectangle
centred on (2, 3.5) of size 2 x 3. -/
example : bodyGeom (.box (.dec ⟨false, 1, 0⟩ .deg, .dec ⟨false, 2, 0⟩ .deg) (.dec ⟨false, 3, 0⟩ .deg, .dec ⟨false, 5, 0⟩ .deg))
    = .ok (.rectangle, [(⟨2, .deg, true⟩, ⟨7 / 2, .deg, true⟩)], [⟨2, .deg, false⟩, ⟨3, .deg, false⟩], none) := by
  decide +kernel

/-- `dec_roundtrip` is tight: ties go to the even digit (`f'{0.125:.2f}' == '0.12'`, `f'{2.5:.0f}' == '2'`). -/
example : (fmtDec 2 (1 / 8)).render = "0.12" ∧ (fmtDec 0 (5 / 2)).render = "2" ∧ (fmtDec 2 (-1 / 10000)).render = "-0.00" := by
  decide +kernel

/-- astropy's `Longitude` wrap, as the reader model applies it: `360deg -> 0deg`, `-1deg -> 359deg`,
`720.5deg -> 0.5deg`, `-0deg` stays `0`; pixel coordinates are not wrapped. -/
example : (wrapLon ⟨360, .deg, true⟩).v = 0 ∧ (wrapLon ⟨-1, .deg, true⟩).v = 359 ∧
    (wrapLon ⟨1441 / 2, .deg, true⟩).v = 1 / 2 ∧ (wrapLon ⟨0, .deg, true⟩).v = 0 ∧
    (wrapLon ⟨360, .none, false⟩).v = 360 ∧ (wrapLon ⟨25, .hour, true⟩).v = 1 := by decide +kernel

/-- the case that motivated it: longitude 359.5539 written with `fmt='.0f'` prints `360deg`; it is
read as longitude 0 (same position: `RT.geom` holds with `k = 1` turn), and the second
serialisation prints `0deg` — from then on nothing changes (`crtf_fixed_point`). -/
example : (match serialize Quirks.current ⟨"fk5", 0, "deg"⟩
      [{ kind := .point, sky := true, pts := [(3595539 / 10000, 38)], sizes := [], angle := none, text := "",
         mt := [], vis := [(.symbol, .str "+")] }] with
    | .ok ls => (renderFile ls, match parse Quirks.current id ls with
        | .ok [x] => x.pts.map (fun p => (p.1.v, p.2.v))
        | _ => [])
    | .error _ => ("", [])) = ("#CRTFv0\nglobal coord=J2000\nsymbol[[360deg, 38deg], +]\n", [(0, 38)]) := by
  decide +kernel

end RegionsVerif.Props.C11
