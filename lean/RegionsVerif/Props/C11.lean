/-
C11 — CRTF text round-trips and is read according to the CASA conventions.

Theorems about the Impl model of `regions/io/crtf` (`Impl/Crtf.lean`, `Impl/CrtfWrite.lean`,
`Impl/CrtfRead.lean`) at the STRUCTURED level (lines made of tokens; see the header of
`Impl/Crtf.lean`), for lists of regions / files of any length.

Candidate defects of the current code are the fields of `Quirks`; every theorem is stated for
an arbitrary `q : Quirks` with the hypotheses that say which behaviour it needs, the
full-strength clauses are refuted at `Quirks.current` by concrete witnesses
(`*_refuted_*`, kernel evaluation of the executable model) and proved at full strength where
the defect is absent.  WHEN A FIX LANDS IN /repo: flip the field in `Quirks.current`
(`Impl/CrtfWrite.lean`); the matching `*_refuted_*` theorem stops compiling — delete it and
mark the finding `fixed` in `known_findings/C11.json`.
-/
import RegionsVerif.Impl.CrtfRead
import Mathlib.Tactic.Linarith
import Mathlib.Tactic.Ring
import Mathlib.Tactic.FieldSimp
import Mathlib.Tactic.Positivity
import Mathlib.Tactic.NormNum

set_option linter.unusedSimpArgs false

namespace RegionsVerif.Props.C11
open RegionsVerif.Impl.Crtf

/-! ## 1. decimal text: `fmt` then read -/

theorem roundHalfEven_err (x : ℚ) : |((roundHalfEven x : Int) : ℚ) - x| ≤ 1 / 2 := by
  have h1 := Int.floor_le x
  have h2 := Int.lt_floor_add_one x
  unfold roundHalfEven
  split_ifs <;> (push_cast; rw [abs_le]; constructor <;> linarith)

theorem roundHalfEven_nonneg {x : ℚ} (hx : 0 ≤ x) : 0 ≤ roundHalfEven x := by
  have h0 : 0 ≤ ⌊x⌋ := Int.floor_nonneg.mpr hx
  unfold roundHalfEven
  split_ifs <;> omega

/-- an integer is formatted as itself. -/
theorem roundHalfEven_int (n : Int) : roundHalfEven (n : ℚ) = n := by
  unfold roundHalfEven
  simp

/-- `dec_roundtrip`: reading back `f'{x:.{p}f}'` gives `x` within half a unit of the last
printed digit, for every rational (= every float) `x` and every precision. -/
theorem dec_roundtrip (p : Nat) (x : ℚ) : |(fmtDec p x).val - x| ≤ 1 / 2 / (10 : ℚ) ^ p := by
  have hp : (0 : ℚ) < 10 ^ p := by positivity
  have hnn : 0 ≤ |x| * (10 : ℚ) ^ p := by positivity
  have hr := roundHalfEven_err (|x| * (10 : ℚ) ^ p)
  have hn := roundHalfEven_nonneg hnn
  have hcast : (((roundHalfEven (|x| * (10 : ℚ) ^ p)).toNat : Nat) : ℚ)
      = ((roundHalfEven (|x| * (10 : ℚ) ^ p) : Int) : ℚ) := by
    have := Int.toNat_of_nonneg hn
    exact_mod_cast this
  unfold fmtDec Dec.val
  simp only
  rw [hcast]
  set n : ℚ := ((roundHalfEven (|x| * (10 : ℚ) ^ p) : Int) : ℚ) with hn'
  by_cases hx : x < 0
  · have hax : |x| = -x := abs_of_neg hx
    rw [hax] at hr
    simp only [hx, decide_true, if_true]
    have e : -n / (10 : ℚ) ^ p - x = -(n - -x * (10 : ℚ) ^ p) / (10 : ℚ) ^ p := by
      field_simp; ring
    rw [e, abs_div, abs_neg, abs_of_pos hp]
    exact div_le_div_of_nonneg_right hr hp.le
  · have hx' : 0 ≤ x := not_lt.mp hx
    have hax : |x| = x := abs_of_nonneg hx'
    rw [hax] at hr
    simp only [hx, decide_false, Bool.false_eq_true, if_false]
    have e : n / (10 : ℚ) ^ p - x = (n - x * (10 : ℚ) ^ p) / (10 : ℚ) ^ p := by
      field_simp
    rw [e, abs_div, abs_of_pos hp]
    exact div_le_div_of_nonneg_right hr hp.le

/-- a value that already has at most `p` decimals is printed exactly. -/
theorem fmtDec_grid (p : Nat) (x : ℚ) (m : Nat) (h : |x| * (10 : ℚ) ^ p = (m : ℚ)) :
    (fmtDec p x).val = x := by
  have hp : (0 : ℚ) < 10 ^ p := by positivity
  have hr : roundHalfEven (|x| * (10 : ℚ) ^ p) = (m : Int) := by
    rw [h]; exact_mod_cast roundHalfEven_int (m : Int)
  unfold fmtDec Dec.val
  simp only [hr, Int.toNat_natCast]
  have hm : (m : ℚ) / (10 : ℚ) ^ p = |x| := by rw [← h]; field_simp
  by_cases hx : x < 0
  · simp only [hx, decide_true, if_true]
    rw [neg_div, hm, abs_of_neg hx]; ring
  · simp only [hx, decide_false, Bool.false_eq_true, if_false]
    rw [hm, abs_of_nonneg (not_lt.mp hx)]

/-- the value of a printed decimal is on the grid of its precision. -/
theorem fmtDec_val_on_grid (p : Nat) (x : ℚ) :
    ∃ m : Nat, |(fmtDec p x).val| * (10 : ℚ) ^ p = (m : ℚ) := by
  have hp : (0 : ℚ) < 10 ^ p := by positivity
  refine ⟨(fmtDec p x).mant, ?_⟩
  unfold Dec.val
  have hs : (fmtDec p x).scale = p := rfl
  rw [hs]
  split_ifs
  · rw [abs_div, abs_neg, Nat.abs_cast, abs_of_pos hp]; field_simp
  · rw [abs_div, Nat.abs_cast, abs_of_pos hp]; field_simp

/-- printing is idempotent on values: what was read from a printed decimal prints to the same
value again (the arithmetic core of the fixed-point clause). -/
theorem fmtDec_idem (p : Nat) (x : ℚ) : (fmtDec p (fmtDec p x).val).val = (fmtDec p x).val := by
  obtain ⟨m, hm⟩ := fmtDec_val_on_grid p x
  exact fmtDec_grid p _ m hm

/-! ## 2. insertion-ordered dictionaries -/

theorem get?_set (m : AList) (k k' : Key) (v : MVal) :
    (m.set k v).get? k' = if k = k' then some v else m.get? k' := by
  induction m with
  | nil => simp [AList.set, AList.get?]
  | cons a m ih =>
    obtain ⟨ka, va⟩ := a
    unfold AList.set
    by_cases h : ka = k
    · subst h
      simp only [if_true, AList.get?]
      by_cases h2 : ka = k' <;> simp [h2]
    · simp only [h, if_false, AList.get?]
      by_cases h2 : ka = k'
      · subst h2
        have : ¬ k = ka := fun e => h e.symm
        simp [this]
      · simp only [h2, if_false]; exact ih

theorem get?_set_self (m : AList) (k : Key) (v : MVal) : (m.set k v).get? k = some v := by
  rw [get?_set]; simp

theorem get?_set_ne (m : AList) {k k' : Key} (v : MVal) (h : k ≠ k') :
    (m.set k v).get? k' = m.get? k' := by
  rw [get?_set]; simp [h]

theorem get?_erase (m : AList) (k k' : Key) :
    (m.erase k).get? k' = if k = k' then none else m.get? k' := by
  induction m with
  | nil => simp [AList.erase, AList.get?]
  | cons a m ih =>
    obtain ⟨ka, va⟩ := a
    unfold AList.erase at ih ⊢
    by_cases h : ka = k
    · subst h
      simp only [List.filter_cons, ne_eq, not_true_eq_false, decide_false, Bool.false_eq_true, if_false]
      rw [ih]
      by_cases h2 : ka = k'
      · simp [h2]
      · simp [h2, AList.get?]
    · simp only [List.filter_cons, ne_eq, h, not_false_eq_true, decide_true, if_true, AList.get?]
      by_cases h2 : ka = k'
      · subst h2
        have : ¬ k = ka := fun e => h e.symm
        simp [this]
      · simp only [h2, if_false]; exact ih

/-- filtering by a predicate on keys keeps exactly the entries whose key passes. -/
theorem get?_filterKeys (m : AList) (f : Key → Bool) (k : Key) :
    AList.get? (m.filter fun p => f p.1) k = if f k then m.get? k else none := by
  induction m with
  | nil => simp [AList.get?]
  | cons a m ih =>
    obtain ⟨ka, va⟩ := a
    by_cases hf : f ka
    · simp only [List.filter_cons, hf, if_true, AList.get?]
      by_cases h2 : ka = k
      · subst h2; simp [hf]
      · simp only [h2, if_false]; exact ih
    · simp only [List.filter_cons, hf, Bool.false_eq_true, if_false, AList.get?]
      by_cases h2 : ka = k
      · subst h2; rw [ih]; simp [hf]
      · simp only [h2, if_false]; exact ih

/-! ## 3. reading rules -/

/-- what a list of `key=value` items assigns to `k`: the LAST item whose key is `k`. -/
def assigned (g : Bool) (k : Key) : List MItem → Option MVal
  | [] => none
  | it :: r =>
    match assigned g k r with
    | some v => some v
    | none =>
      match it with
      | .pair s t => if !t.isEmptyScalar && itemKey g s = k then some (tokValue g k t) else none
      | .empty => none

theorem readItem_get (g : Bool) (m m' : AList) (it : MItem) (h : readItem g m it = .ok m') (k : Key) :
    m'.get? k = match assigned g k [it] with
      | some v => some v
      | none => m.get? k := by
  cases it with
  | empty => simp only [readItem, Except.ok.injEq] at h; subst h; simp [assigned]
  | pair s t =>
    simp only [readItem] at h
    by_cases he : t.isEmptyScalar
    · simp only [he, if_true, Except.ok.injEq] at h; subst h; simp [assigned, he]
    · simp only [he, Bool.false_eq_true, if_false] at h
      by_cases hk : keyOk g (itemKey g s)
      · simp only [hk, if_true, Except.ok.injEq] at h; subst h
        rw [get?_set]
        by_cases hkk : itemKey g s = k
        · subst hkk; simp [assigned, he]
        · simp [assigned, he, hkk]
      · simp [hk] at h

/-- the dictionary after reading a list of items: per key, the last item that names it,
otherwise the previous content. -/
theorem readItems_get (g : Bool) (items : List MItem) (m m' : AList)
    (h : readItems g m items = .ok m') (k : Key) :
    m'.get? k = match assigned g k items with
      | some v => some v
      | none => m.get? k := by
  induction items generalizing m with
  | nil => simp only [readItems, Except.ok.injEq] at h; subst h; simp [assigned]
  | cons it r ih =>
    simp only [readItems] at h
    cases h1 : readItem g m it with
    | error e => rw [h1] at h; simp [bind, Except.bind] at h
    | ok m1 =>
      rw [h1] at h
      simp only [bind, Except.bind] at h
      rw [ih m1 h]
      have := readItem_get g m m1 it h1 k
      simp only [assigned] at this ⊢
      cases hr : assigned g k r with
      | some v => simp
      | none => simp only; rw [this]

theorem get?_normRange_ne (qn : String → String) (m : AList) {k : Key} (h : k ≠ .range) :
    (normRange qn m).get? k = m.get? k := by
  unfold normRange
  split
  · rw [get?_set_ne _ _ (Ne.symm h)]
  · rfl

/-- `global_default_inline_override`: in the metadata of a region line every key other than
the three the parser sets itself (`include`, `type`, and `range`, whose elements go through
`u.Quantity`) has the value of the last inline item naming it, and the value accumulated
from the `global` lines otherwise. -/
theorem global_default_inline_override (qn : String → String) (gm m : AList) (l : RLine)
    (h : lineMeta qn gm l = .ok m) (k : Key)
    (h1 : k ≠ .include) (h2 : k ≠ .type) (h3 : k ≠ .range) :
    m.get? k = match assigned false k l.items with
      | some v => some v
      | none => gm.get? k := by
  unfold lineMeta at h
  cases hr : readItems false gm l.items with
  | error e => rw [hr] at h; simp [bind, Except.bind] at h
  | ok m1 =>
    rw [hr] at h
    simp only [bind, Except.bind, pure, Except.pure, Except.ok.injEq] at h
    subst h
    rw [get?_set_ne _ _ (Ne.symm h2)]
    rw [get?_normRange_ne qn _ h3, get?_set_ne _ _ (Ne.symm h1)]
    exact readItems_get false l.items gm m1 hr k

/-- the `global` lines accumulate the same way: a later `global` line overrides an earlier
one key by key. -/
theorem global_lines_accumulate (items : List MItem) (g g' : AList)
    (h : readItems true g items = .ok g') (k : Key) :
    g'.get? k = match assigned true k items with
      | some v => some v
      | none => g.get? k := readItems_get true items g g' h k

/-- `include`, `type` are what the prefixes say: a leading `-` excludes, `ann` marks an
annotation; nothing in the items can change that. -/
theorem prefix_rules (qn : String → String) (gm m : AList) (l : RLine)
    (h : lineMeta qn gm l = .ok m) :
    m.get? .include = some (.bool (!l.excl)) ∧
    m.get? .type = some (.str (if l.ann then "ann" else "reg")) := by
  unfold lineMeta at h
  cases hr : readItems false gm l.items with
  | error e => rw [hr] at h; simp [bind, Except.bind] at h
  | ok m1 =>
    rw [hr] at h
    simp only [bind, Except.bind, pure, Except.pure, Except.ok.injEq] at h
    subst h
    refine ⟨?_, get?_set_self _ _ _⟩
    rw [get?_set_ne _ _ (by decide), get?_normRange_ne qn _ (by decide), get?_set_self]

/-- `coord=` selects the frame (lower-cased, CASA names mapped to astropy's) … -/
theorem coord_selects_frame (m : AList) (s : String) (h : m.get? .coord = some (.str s)) :
    coordsysOf m = frameMap s.toLower := by
  unfold coordsysOf; rw [h]

/-- … and without any `coord` the region is in image (pixel) coordinates. -/
theorem coord_default_image (m : AList) (h : m.get? .coord = none) : coordsysOf m = "image" := by
  unfold coordsysOf; rw [h]; decide +kernel

/-- every name the writer puts into `coord=` is read back as the frame it was written for
(finite table, decided completely). -/
theorem frame_names_roundtrip : ∀ p ∈ coordsysTable, frameMap p.2.toLower = p.1 := by
  decide +kernel

/-! ### lengths require units -/

/-- all length tokens of a region. -/
def lens : Body → List Len
  | .circle _ r => [r]
  | .annulus _ a b => [a, b]
  | .ellipse _ a b g => [a, b, g]
  | .centerbox _ a b => [a, b]
  | .rotbox _ a b g => [a, b, g]
  | _ => []

theorem toQ_unitless (d : Dec) : Len.toQ ⟨d, .none⟩ = .error .parserError := rfl

theorem toQ_cases (l : Len) :
    (∃ a, l.toQ = .ok a ∧ a.v = l.d.val ∧ a.ang = false) ∨ (l.toQ = .error .parserError ∧ l.u = .none) := by
  obtain ⟨d, u⟩ := l
  cases u <;> simp [Len.toQ]

theorem bodyGeom_unitless (b : Body) (h : ∃ l ∈ lens b, l.u = .none) :
    bodyGeom b = .error .parserError := by
  obtain ⟨l, hl, hu⟩ := h
  cases b with
  | circle c r =>
    simp only [lens, List.mem_singleton] at hl; subst hl
    rcases toQ_cases l with ⟨a, h1, -⟩ | ⟨h1, -⟩
    · obtain ⟨d, u⟩ := l; simp only at hu; subst hu; simp [Len.toQ] at h1
    · simp [bodyGeom, h1, bind, Except.bind]
  | annulus c r1 r2 =>
    simp only [lens, List.mem_cons, List.mem_nil_iff, or_false] at hl
    rcases toQ_cases r1 with ⟨a1, h1, -⟩ | ⟨h1, -⟩ <;> rcases toQ_cases r2 with ⟨a2, h2, -⟩ | ⟨h2, -⟩ <;>
      simp only [bodyGeom, h1, h2, bind, Except.bind]
    rcases hl with hl | hl <;> subst hl
    · obtain ⟨d, u⟩ := l; simp only at hu; subst hu; simp [Len.toQ] at h1
    · obtain ⟨d, u⟩ := l; simp only at hu; subst hu; simp [Len.toQ] at h2
  | ellipse c a b g =>
    simp only [lens, List.mem_cons, List.mem_nil_iff, or_false] at hl
    rcases toQ_cases a with ⟨a1, h1, -⟩ | ⟨h1, -⟩ <;> rcases toQ_cases b with ⟨a2, h2, -⟩ | ⟨h2, -⟩ <;>
      rcases toQ_cases g with ⟨a3, h3, -⟩ | ⟨h3, -⟩ <;>
      simp only [bodyGeom, h1, h2, h3, bind, Except.bind]
    rcases hl with hl | hl | hl <;> subst hl <;> obtain ⟨d, u⟩ := l <;> simp only at hu <;> subst hu
    · simp [Len.toQ] at h1
    · simp [Len.toQ] at h2
    · simp [Len.toQ] at h3
  | centerbox c a b =>
    simp only [lens, List.mem_cons, List.mem_nil_iff, or_false] at hl
    rcases toQ_cases a with ⟨a1, h1, -⟩ | ⟨h1, -⟩ <;> rcases toQ_cases b with ⟨a2, h2, -⟩ | ⟨h2, -⟩ <;>
      simp only [bodyGeom, h1, h2, bind, Except.bind]
    rcases hl with hl | hl <;> subst hl <;> obtain ⟨d, u⟩ := l <;> simp only at hu <;> subst hu
    · simp [Len.toQ] at h1
    · simp [Len.toQ] at h2
  | rotbox c a b g =>
    simp only [lens, List.mem_cons, List.mem_nil_iff, or_false] at hl
    rcases toQ_cases a with ⟨a1, h1, -⟩ | ⟨h1, -⟩ <;> rcases toQ_cases b with ⟨a2, h2, -⟩ | ⟨h2, -⟩ <;>
      rcases toQ_cases g with ⟨a3, h3, -⟩ | ⟨h3, -⟩ <;>
      simp only [bodyGeom, h1, h2, h3, bind, Except.bind]
    rcases hl with hl | hl | hl <;> subst hl <;> obtain ⟨d, u⟩ := l <;> simp only at hu <;> subst hu
    · simp [Len.toQ] at h1
    · simp [Len.toQ] at h2
    · simp [Len.toQ] at h3
  | box _ _ => simp [lens] at hl
  | poly _ => simp [lens] at hl
  | line _ _ => simp [lens] at hl
  | symbol _ _ => simp [lens] at hl
  | point _ => simp [lens] at hl
  | text _ _ => simp [lens] at hl

theorem regionShape_unitless (q : Quirks) (qn : String → String) (g : AList) (l : RLine)
    (h : ∃ x ∈ lens l.body, x.u = .none) : regionShape q qn g l = .error .parserError := by
  have hb := bodyGeom_unitless l.body h
  unfold regionShape
  split_ifs
  · rfl
  · rfl
  · cases hm : lineMeta qn g l with
    | error e =>
      -- every failure of the metadata step is a parser error too
      unfold lineMeta at hm
      cases hr : readItems false g l.items with
      | ok m1 => rw [hr] at hm; simp [bind, Except.bind, pure, Except.pure] at hm
      | error e' =>
        rw [hr] at hm
        simp only [bind, Except.bind, Except.error.injEq] at hm
        subst hm
        have : ∀ (items : List MItem) (m : AList) e, readItems false m items = .error e → e = .parserError := by
          intro items
          induction items with
          | nil => intro m e he; simp [readItems] at he
          | cons it r ih =>
            intro m e he
            simp only [readItems] at he
            cases h1 : readItem false m it with
            | ok m1 => rw [h1] at he; exact ih m1 e he
            | error e1 =>
              rw [h1] at he
              simp only [bind, Except.bind, Except.error.injEq] at he
              subst he
              cases it with
              | empty => simp [readItem] at h1
              | pair k t =>
                simp only [readItem] at h1
                split_ifs at h1
                simpa using h1.symm
        rw [this _ _ _ hr]
        rfl
    | ok m => simp [bind, Except.bind, hb]

/-- `units_required`: a file that contains a region with a length written without a unit is
rejected as a whole (whatever the other lines are). -/
theorem units_required (q : Quirks) (qn : String → String) (ls : List SrcLine) (l : RLine)
    (hl : SrcLine.region l ∈ ls) (hu : ∃ x ∈ lens l.body, x.u = .none) :
    ∀ regs, parse q qn ls ≠ .ok regs := by
  have key : ∀ (ls : List SrcLine) (g : AList), SrcLine.region l ∈ ls → ∀ ss, phase1 q qn g ls ≠ .ok ss := by
    intro ls
    induction ls with
    | nil => intro g h; simp at h
    | cons a r ih =>
      intro g h ss
      rcases List.mem_cons.mp h with h1 | h2
      · subst h1
        simp [phase1, regionShape_unitless q qn g l hu, bind, Except.bind]
      · cases a with
        | blank => simp only [phase1]; exact ih g h2 ss
        | comment c => simp only [phase1]; exact ih g h2 ss
        | global items =>
          simp only [phase1]
          cases hg : readItems true g items with
          | error e => simp [bind, Except.bind]
          | ok g' => simp only [bind, Except.bind]; exact ih g' h2 ss
        | region l' =>
          simp only [phase1]
          cases hs : regionShape q qn g l' with
          | error e => simp [bind, Except.bind]
          | ok s =>
            simp only [bind, Except.bind]
            cases hp : phase1 q qn g r with
            | error e => simp
            | ok ss' => exact absurd hp (ih g h2 ss')
  intro regs
  unfold parse
  cases hp : phase1 q qn [] ls with
  | error e => simp [bind, Except.bind]
  | ok ss => exact absurd hp (key ls [] hl ss)

/-! ### box / centerbox / rotbox -/

/-- all three box keywords become rectangles. -/
theorem box_kinds (b : Body) (k : Kind) (pts : List (Q × Q)) (sz : List Q) (a : Option Q)
    (hb : (∃ c1 c2, b = .box c1 c2) ∨ (∃ c w h, b = .centerbox c w h) ∨ (∃ c w h g, b = .rotbox c w h g))
    (h : bodyGeom b = .ok (k, pts, sz, a)) : k = .rectangle := by
  rcases hb with ⟨c1, c2, rfl⟩ | ⟨c, w, hh, rfl⟩ | ⟨c, w, hh, g, rfl⟩
  · simp only [bodyGeom] at h
    cases h1 : boxMid c1.1.toQ c2.1.toQ with
    | error e => rw [h1] at h; simp [bind, Except.bind] at h
    | ok v1 =>
      cases h2 : boxMid c1.2.toQ c2.2.toQ with
      | error e => rw [h1, h2] at h; simp [bind, Except.bind] at h
      | ok v2 =>
        rw [h1, h2] at h
        simp only [bind, Except.bind, pure, Except.pure, Except.ok.injEq, Prod.mk.injEq] at h
        exact h.1.symm
  · simp only [bodyGeom] at h
    rcases toQ_cases w with ⟨a1, h1, -⟩ | ⟨h1, -⟩ <;> rcases toQ_cases hh with ⟨a2, h2, -⟩ | ⟨h2, -⟩ <;>
      simp only [h1, h2, bind, Except.bind, pure, Except.pure, Except.ok.injEq, Prod.mk.injEq, reduceCtorEq] at h
    exact h.1.symm
  · simp only [bodyGeom] at h
    rcases toQ_cases w with ⟨a1, h1, -⟩ | ⟨h1, -⟩ <;> rcases toQ_cases hh with ⟨a2, h2, -⟩ | ⟨h2, -⟩ <;>
      rcases toQ_cases g with ⟨a3, h3, -⟩ | ⟨h3, -⟩ <;>
      simp only [h1, h2, h3, bind, Except.bind, pure, Except.pure, Except.ok.injEq, Prod.mk.injEq, reduceCtorEq] at h
    exact h.1.symm

/-- the corner form `box[[x1, y1], [x2, y2]]` is the rectangle with those two opposite
corners: centre − size/2 and centre + size/2 are the smaller and the larger corner
coordinate, on each axis. -/
theorem box_corner_form (a b : Q) (mid w : Q) (h : boxMid a b = .ok (mid, w)) :
    mid.v - w.v / 2 = min a.v b.v ∧ mid.v + w.v / 2 = max a.v b.v ∧
    mid.u = a.u ∧ w.u = a.u ∧ mid.ang = a.ang := by
  unfold boxMid at h
  split_ifs at h
  simp only [Except.ok.injEq, Prod.mk.injEq] at h
  obtain ⟨h1, h2⟩ := h
  subst h1; subst h2
  refine ⟨?_, ?_, by simp, by simp, by simp⟩
  · rcases le_total a.v b.v with hle | hle
    · rw [min_eq_left hle, abs_of_nonpos (by linarith)]; ring
    · rw [min_eq_right hle, abs_of_nonneg (by linarith)]; ring
  · rcases le_total a.v b.v with hle | hle
    · rw [max_eq_right hle, abs_of_nonpos (by linarith)]; ring
    · rw [max_eq_left hle, abs_of_nonneg (by linarith)]; ring

/-- `box_forms_agree`: a rectangle read without an angle (`box`, `centerbox`) is the same
region as the one read from `rotbox` with the angle `0deg`. -/
theorem box_forms_agree (s : RShape) (hk : s.kind = .rectangle) :
    toRegion { s with angle := none } = toRegion { s with angle := some ⟨0, .deg, false⟩ } := by
  unfold toRegion checkCoords checkSizes buildRegion
  simp [hk, angleOk]

/-- … and `centerbox[c, [w, h]]` / `rotbox[c, [w, h], a]` carry their centre and sizes
unchanged. -/
theorem centerbox_rotbox_same_geometry (c : Pt) (w h g : Len) (qw qh qg : Q)
    (hw : w.toQ = .ok qw) (hh : h.toQ = .ok qh) (hg : g.toQ = .ok qg) :
    bodyGeom (.centerbox c w h) = .ok (.rectangle, [ptQ c], [qw, qh], none) ∧
    bodyGeom (.rotbox c w h g) = .ok (.rectangle, [ptQ c], [qw, qh], some qg) := by
  simp [bodyGeom, hw, hh, hg, bind, Except.bind, pure, Except.pure]

/-! ### ellipse axes -/

/-- the reader's ellipse rule: `[a, b]` are the semi-axes `[major, minor]`; the region gets
`width = 2·b`, `height = 2·a`, and the angle is NOT doubled or halved. -/
theorem ellipse_read_rule (c : Pt) (a b g : Len) (qa qb qg : Q)
    (ha : a.toQ = .ok qa) (hb : b.toQ = .ok qb) (hg : g.toQ = .ok qg) :
    ∃ W H A, bodyGeom (.ellipse c a b g) = .ok (.ellipse, [ptQ c], [W, H], some A) ∧
      W.v = 2 * qb.v ∧ H.v = 2 * qa.v ∧ A.v = qg.v ∧ W.u = qb.u ∧ H.u = qa.u ∧ A.u = qg.u := by
  refine ⟨qb.scale 2, qa.scale 2, (qg.scale 2).scale (1 / 2), ?_, ?_, ?_, ?_, rfl, rfl, rfl⟩
  · simp [bodyGeom, ha, hb, hg, bind, Except.bind, pure, Except.pure]
  · simp only [Q.scale]; ring
  · simp only [Q.scale]; ring
  · simp only [Q.scale]; ring

/-! ## 4. round trip: lists of any length decompose into single regions -/

theorem mapM_ok_iff {α β : Type} (f : α → Except Err β) (l : List α) (l' : List β) :
    l.mapM f = .ok l' ↔ List.Forall₂ (fun a b => f a = .ok b) l l' := by
  induction l generalizing l' with
  | nil =>
    simp only [List.mapM_nil, pure, Except.pure, Except.ok.injEq]
    constructor
    · intro h; subst h; exact List.Forall₂.nil
    · intro h; cases h; rfl
  | cons a r ih =>
    simp only [List.mapM_cons]
    cases ha : f a with
    | error e =>
      simp only [bind, Except.bind]
      constructor
      · intro h; cases h
      · intro h; cases h with
        | cons h1 _ => rw [ha] at h1; cases h1
    | ok b =>
      cases hr : r.mapM f with
      | error e =>
        simp only [bind, Except.bind]
        constructor
        · intro h; cases h
        · intro h
          cases h with
          | cons h1 h2 => rw [(ih _).mpr h2] at hr; cases hr
      | ok bs =>
        simp only [bind, Except.bind, pure, Except.pure, Except.ok.injEq]
        constructor
        · intro h; subst h
          exact List.Forall₂.cons ha ((ih bs).mp hr)
        · intro h
          cases h with
          | cons h1 h2 =>
            rw [ha] at h1
            have e1 := Except.ok.inj h1
            have e2 := (ih _).mpr h2
            rw [hr] at e2
            have e2' := Except.ok.inj e2
            subst e1; subst e2'; rfl

theorem forall₂_comp {α β γ : Type} {R : α → β → Prop} {S : β → γ → Prop} {l1 : List α} {l2 : List β}
    {l3 : List γ} (h1 : List.Forall₂ R l1 l2) (h2 : List.Forall₂ S l2 l3) :
    List.Forall₂ (fun a c => ∃ b, R a b ∧ S b c) l1 l3 := by
  induction h1 generalizing l3 with
  | nil => cases h2; exact List.Forall₂.nil
  | cons hab _ ih =>
    cases h2 with
    | cons hbc hrest => exact List.Forall₂.cons ⟨_, hab, hbc⟩ (ih hrest)

theorem lookup_mem {β : Type} (k : String) (v : β) (l : List (String × β)) (h : l.lookup k = some v) :
    (k, v) ∈ l := by
  induction l with
  | nil => simp at h
  | cons a r ih =>
    obtain ⟨ka, va⟩ := a
    simp only [List.lookup_cons] at h
    by_cases hk : k == ka
    · simp only [hk] at h
      have := Option.some.inj h
      subst this
      have : k = ka := by simpa using hk
      subst this
      exact List.mem_cons_self
    · simp only [hk] at h
      exact List.mem_cons_of_mem _ (ih h)

/-- the global meta in force after the writer's `global coord=G` line. -/
def gmeta (g : String) : AList := [(.coord, .str g)]

/-- reading the writer's two header lines, then region lines only: one shape per line, all
read under the same global meta. -/
theorem phase1_written (q : Quirks) (qn : String → String) (g : String) (hg : g ≠ "") (c : String)
    (ls : List RLine) :
    phase1 q qn [] (.comment c :: .global [.pair "coord" (.scalar g .none)] :: ls.map .region)
      = ls.mapM (regionShape q qn (gmeta g)) := by
  have hk : itemKey true "coord" = Key.coord := by decide +kernel
  have h1 : readItems true [] [.pair "coord" (.scalar g .none)] = .ok (gmeta g) := by
    simp [readItems, readItem, MTok.isEmptyScalar, hg, hk, keyOk, readerGlobalKey, tokValue, isListKey,
      AList.set, gmeta, bind, Except.bind]
  simp only [phase1, h1, bind, Except.bind]
  induction ls with
  | nil => simp [phase1, pure, Except.pure]
  | cons l r ih =>
    simp only [List.map_cons, phase1, List.mapM_cons, bind, Except.bind]
    cases regionShape q qn (gmeta g) l with
    | error e => rfl
    | ok s => simp only; rw [ih]

/-- the chain of the four per-region steps. -/
def Chain (q : Quirks) (qn : String → String) (o : Opts) (g : String) (r : WReg) (x : RReg) : Prop :=
  ∃ s l sh, toShape q o.coordsys r = .ok s ∧ writeLine q o s = .ok l ∧
    regionShape q qn (gmeta g) l = .ok sh ∧ toRegion sh = .ok x

/-- `serialize` then `parse` on a list of ANY length is the per-region chain, region by
region, in order (regions do not interfere with one another). -/
theorem roundtrip_list (q : Quirks) (qn : String → String) (o : Opts) (rs : List WReg)
    (ls : List SrcLine) (gs : List RReg)
    (hs : serialize q o rs = .ok ls) (hp : parse q qn ls = .ok gs) :
    ∃ g, coordsysTable.lookup o.coordsys.toLower = some g ∧
      List.Forall₂ (Chain q qn o g) rs gs := by
  unfold serialize at hs
  cases h1 : rs.mapM (toShape q o.coordsys) with
  | error e => rw [h1] at hs; simp [bind, Except.bind] at hs
  | ok shapes =>
    rw [h1] at hs
    simp only [bind, Except.bind, toCrtf] at hs
    split_ifs at hs
    cases hg : coordsysTable.lookup o.coordsys.toLower with
    | none => rw [hg] at hs; simp at hs
    | some g =>
      rw [hg] at hs
      simp only at hs
      cases h2 : shapes.mapM (writeLine q o) with
      | error e => rw [h2] at hs; simp at hs
      | ok lines =>
        rw [h2] at hs
        simp only [pure, Except.pure, Except.ok.injEq] at hs
        subst hs
        have hgne : g ≠ "" := by
          have : ∀ p ∈ coordsysTable, p.2 ≠ "" := by decide +kernel
          exact this _ (lookup_mem _ _ _ hg)
        unfold parse at hp
        rw [phase1_written q qn g hgne] at hp
        cases h3 : lines.mapM (regionShape q qn (gmeta g)) with
        | error e => rw [h3] at hp; simp [bind, Except.bind] at hp
        | ok rsh =>
          rw [h3] at hp
          simp only [bind, Except.bind] at hp
          refine ⟨g, rfl, ?_⟩
          have f1 := (mapM_ok_iff _ _ _).mp h1
          have f2 := (mapM_ok_iff _ _ _).mp h2
          have f3 := (mapM_ok_iff _ _ _).mp h3
          have f4 := (mapM_ok_iff _ _ _).mp hp
          have c1 := forall₂_comp (forall₂_comp (forall₂_comp f1 f2) f3) f4
          refine c1.imp ?_
          rintro r x ⟨sh, ⟨l, ⟨s, hs1, hs2⟩, hs3⟩, hs4⟩
          exact ⟨s, l, sh, hs1, hs2, hs3, hs4⟩

/-! ## 5. round trip: one region -/

theorem toShape_inv {q : Quirks} {cs : String} {r : WReg} {s : WShape} (h : toShape q cs r = .ok s) :
    s = { coordsys := cs, kind := r.kind, sky := r.sky,
          coord := flatten r.pts ++ r.sizes ++ r.angle.toList,
          mt := shapeMeta q r, incl := r.mt.get? .include } ∧
    r.kind ≠ .compound ∧ ¬ (r.sky && (isImage cs || (coordsysTable.lookup cs).isNone)) = true := by
  unfold toShape at h
  split_ifs at h with h1 h2
  simp only [Except.ok.injEq] at h
  exact ⟨h.symm, h1, h2⟩

theorem writeLine_inv {q : Quirks} {o : Opts} {s : WShape} {l : RLine} (h : writeLine q o s = .ok l) :
    ∃ items body, writeItems q (coordDiffers o s) (writerMeta q s) = .ok items ∧
      writeBody q o s (writerMeta q s) = .ok body ∧
      l = { excl := shapeExcl s, ann := (writerMeta q s).get? .type = some (.str "ann"),
            body := body, items := items } ∧
      ¬ (!isImage o.coordsys && !s.sky && o.radunit ≠ "") = true := by
  unfold writeLine at h
  cases hi : writeItems q (coordDiffers o s) (writerMeta q s) with
  | error e => rw [hi] at h; simp at h
  | ok items =>
    rw [hi] at h
    simp only at h
    split_ifs at h with hc
    cases hb : writeBody q o s (writerMeta q s) with
    | error e => rw [hb] at h; simp at h
    | ok body =>
      rw [hb] at h
      simp only [Except.ok.injEq] at h
      exact ⟨items, body, rfl, rfl, h.symm, hc⟩

theorem regionShape_inv {q : Quirks} {qn : String → String} {g : AList} {l : RLine} {sh : RShape}
    (h : regionShape q qn g l = .ok sh) :
    ∃ m k pts sz a, lineMeta qn g l = .ok m ∧ bodyGeom l.body = .ok (k, pts, sz, a) ∧
      sh = { coordsys := coordsysOf m, kind := k, pts := pts, sizes := sz, angle := a,
             mt := (bodyMeta m l.body).erase .coord, incl := !l.excl } ∧
      ¬ (isPointBody l.body && q.pointUnreadable) = true ∧
      ¬ (q.quotePairUnreadable && l.body.lenPairs.any (fun p => isQuoteUnit p.1.u || isQuoteUnit p.2.u)) = true := by
  unfold regionShape at h
  split_ifs at h with h1 h2
  cases hm : lineMeta qn g l with
  | error e => rw [hm] at h; simp [bind, Except.bind] at h
  | ok m =>
    rw [hm] at h
    simp only [bind, Except.bind] at h
    cases hb : bodyGeom l.body with
    | error e => rw [hb] at h; simp at h
    | ok t =>
      obtain ⟨k, pts, sz, a⟩ := t
      rw [hb] at h
      simp only [pure, Except.pure, Except.ok.injEq] at h
      exact ⟨m, k, pts, sz, a, rfl, rfl, h.symm, h1, h2⟩

theorem toRegion_inv {sh : RShape} {x : RReg} (h : toRegion sh = .ok x) :
    x = buildRegion sh ∧ checkCoords sh = .ok () ∧ checkSizes sh = .ok () := by
  unfold toRegion at h
  cases h1 : checkCoords sh with
  | error e => rw [h1] at h; simp at h
  | ok u =>
    rw [h1] at h
    cases h2 : checkSizes sh with
    | error e => rw [h2] at h; simp at h
    | ok u2 =>
      rw [h2] at h
      simp only [Except.ok.injEq] at h
      exact ⟨h.symm, rfl, rfl⟩

theorem buildRegion_vals (sh : RShape) :
    (buildRegion sh).pts.map (fun p => (p.1.v, p.2.v)) = sh.pts.map (fun p => (p.1.v, p.2.v)) ∧
    (buildRegion sh).sizes.map (·.v) = sh.sizes.map (·.v) := by
  unfold buildRegion
  constructor
  · simp only
    split_ifs
    · simp [List.map_map, Function.comp_def, dropUnit]
    · rfl
  · simp only
    split_ifs
    · simp [List.map_map, Function.comp_def, dropUnit]
    · rfl

/-! ### geometry -/

/-- within half a unit of the `p`-th decimal. -/
def Close (p : Nat) (x y : ℚ) : Prop := |y - x| ≤ 1 / 2 / (10 : ℚ) ^ p

/-- within one unit of the `p`-th decimal (ellipse FULL axes: half a unit on the semi-axis
that the file stores). -/
def Close2 (p : Nat) (x y : ℚ) : Prop := |y - x| ≤ 1 / (10 : ℚ) ^ p

theorem close_fmt (p : Nat) (x : ℚ) : Close p x (fmtDec p x).val := dec_roundtrip p x

theorem close2_fmt_half (p : Nat) (w : ℚ) : Close2 p w (2 * (fmtDec p (w / 2)).val) := by
  have h := dec_roundtrip p (w / 2)
  have hp : (0 : ℚ) < 10 ^ p := by positivity
  unfold Close2
  have e : 2 * (fmtDec p (w / 2)).val - w = 2 * ((fmtDec p (w / 2)).val - w / 2) := by ring
  rw [e, abs_mul, abs_of_pos (by norm_num : (0 : ℚ) < 2)]
  have : (1 : ℚ) / 10 ^ p = 2 * (1 / 2 / 10 ^ p) := by field_simp
  rw [this]
  exact mul_le_mul_of_nonneg_left h (by norm_num)

/-- all numbers of a parsed geometry, in the order of the writer's `coord` list. -/
def nums (pts : List (Q × Q)) (sz : List Q) (a : Option Q) : List ℚ :=
  flatten (pts.map fun p => (p.1.v, p.2.v)) ++ sz.map (·.v) ++ (a.map (·.v)).toList

theorem dec_toQ_v (d : Dec) (u : CUnit) : (Coord.toQ (.dec d u)).v = d.val := by
  cases u <;> rfl

theorem pairsOf_flatten (ps : List (ℚ × ℚ)) : pairsOf (flatten ps) = ps := by
  induction ps with
  | nil => rfl
  | cons a r ih => obtain ⟨x, y⟩ := a; simp [flatten, pairsOf, ih]

theorem poly_close (p : Nat) (cu : CUnit) (ps : List (ℚ × ℚ)) :
    List.Forall₂ (Close p) (flatten ps)
      (flatten ((ps.map fun t => ptQ ((Coord.dec (fmtDec p t.1) cu, Coord.dec (fmtDec p t.2) cu) : Pt)).map
        fun t => (t.1.v, t.2.v))) := by
  induction ps with
  | nil => exact List.Forall₂.nil
  | cons a r ih =>
    obtain ⟨x, y⟩ := a
    simp only [flatten, List.map_cons, ptQ, dec_toQ_v]
    exact List.Forall₂.cons (close_fmt p x) (List.Forall₂.cons (close_fmt p y) ih)

/-- what a region line denotes, as pure functions of its tokens (no failure). -/
def bKind : Body → Kind
  | .circle .. => .circle | .annulus .. => .circleannulus | .ellipse .. => .ellipse
  | .box .. => .rectangle | .centerbox .. => .rectangle | .rotbox .. => .rectangle
  | .poly .. => .polygon | .line .. => .line | .symbol .. => .point | .point .. => .point
  | .text .. => .text

def ptV (p : Pt) : ℚ × ℚ := (p.1.toQ.v, p.2.toQ.v)

def bPts : Body → List (ℚ × ℚ)
  | .circle c _ => [ptV c] | .annulus c _ _ => [ptV c] | .ellipse c _ _ _ => [ptV c]
  | .box c1 c2 => [((c1.1.toQ.v + c2.1.toQ.v) / 2, (c1.2.toQ.v + c2.2.toQ.v) / 2)]
  | .centerbox c _ _ => [ptV c] | .rotbox c _ _ _ => [ptV c]
  | .poly vs => vs.map ptV | .line p q => [ptV p, ptV q]
  | .symbol c _ => [ptV c] | .point c => [ptV c] | .text c _ => [ptV c]

def bSizes : Body → List ℚ
  | .circle _ r => [r.d.val] | .annulus _ a b => [a.d.val, b.d.val]
  | .ellipse _ a b _ => [2 * b.d.val, 2 * a.d.val]
  | .box c1 c2 => [|c1.1.toQ.v - c2.1.toQ.v|, |c1.2.toQ.v - c2.2.toQ.v|]
  | .centerbox _ w h => [w.d.val, h.d.val] | .rotbox _ w h _ => [w.d.val, h.d.val]
  | _ => []

def bAngle : Body → Option ℚ
  | .ellipse _ _ _ g => some g.d.val
  | .rotbox _ _ _ g => some g.d.val
  | _ => none

/-- the reader's geometry in terms of the tokens: whenever a line is accepted, the kind,
the coordinates, the sizes and the angle are these. -/
theorem bodyGeom_vals (b : Body) (k : Kind) (pts : List (Q × Q)) (sz : List Q) (a : Option Q)
    (h : bodyGeom b = .ok (k, pts, sz, a)) :
    k = bKind b ∧ pts.map (fun p => (p.1.v, p.2.v)) = bPts b ∧ sz.map (·.v) = bSizes b ∧
      a.map (·.v) = bAngle b := by
  cases b with
  | circle c r =>
    simp only [bodyGeom] at h
    rcases toQ_cases r with ⟨a1, h1, v1, -⟩ | ⟨h1, -⟩ <;>
      simp only [h1, bind, Except.bind, pure, Except.pure, Except.ok.injEq, Prod.mk.injEq, reduceCtorEq] at h
    obtain ⟨rfl, rfl, rfl, rfl⟩ := h
    simp [bKind, bPts, bSizes, bAngle, ptQ, ptV, v1]
  | annulus c r1 r2 =>
    simp only [bodyGeom] at h
    rcases toQ_cases r1 with ⟨a1, h1, v1, -⟩ | ⟨h1, -⟩ <;> rcases toQ_cases r2 with ⟨a2, h2, v2, -⟩ | ⟨h2, -⟩ <;>
      simp only [h1, h2, bind, Except.bind, pure, Except.pure, Except.ok.injEq, Prod.mk.injEq, reduceCtorEq] at h
    obtain ⟨rfl, rfl, rfl, rfl⟩ := h
    simp [bKind, bPts, bSizes, bAngle, ptQ, ptV, v1, v2]
  | ellipse c a' b' g =>
    simp only [bodyGeom] at h
    rcases toQ_cases a' with ⟨a1, h1, v1, -⟩ | ⟨h1, -⟩ <;> rcases toQ_cases b' with ⟨a2, h2, v2, -⟩ | ⟨h2, -⟩ <;>
      rcases toQ_cases g with ⟨a3, h3, v3, -⟩ | ⟨h3, -⟩ <;>
      simp only [h1, h2, h3, bind, Except.bind, pure, Except.pure, Except.ok.injEq, Prod.mk.injEq, reduceCtorEq] at h
    obtain ⟨rfl, rfl, rfl, rfl⟩ := h
    simp only [bKind, bPts, bSizes, bAngle, ptQ, ptV, List.map_cons, List.map_nil, Q.scale, v1, v2, v3,
      Option.map_some, true_and]
    refine ⟨?_, ?_⟩
    · congr 1 <;> [ring; (congr 1; ring)]
    · congr 1; ring
  | box c1 c2 =>
    simp only [bodyGeom] at h
    cases hx : boxMid c1.1.toQ c2.1.toQ with
    | error e => rw [hx] at h; simp [bind, Except.bind] at h
    | ok vx =>
      cases hy : boxMid c1.2.toQ c2.2.toQ with
      | error e => rw [hx, hy] at h; simp [bind, Except.bind] at h
      | ok vy =>
        rw [hx, hy] at h
        simp only [bind, Except.bind, pure, Except.pure, Except.ok.injEq, Prod.mk.injEq] at h
        obtain ⟨rfl, rfl, rfl, rfl⟩ := h
        unfold boxMid at hx hy
        split_ifs at hx hy
        simp only [Except.ok.injEq] at hx hy
        subst hx; subst hy
        simp [bKind, bPts, bSizes, bAngle]
  | centerbox c w hh =>
    simp only [bodyGeom] at h
    rcases toQ_cases w with ⟨a1, h1, v1, -⟩ | ⟨h1, -⟩ <;> rcases toQ_cases hh with ⟨a2, h2, v2, -⟩ | ⟨h2, -⟩ <;>
      simp only [h1, h2, bind, Except.bind, pure, Except.pure, Except.ok.injEq, Prod.mk.injEq, reduceCtorEq] at h
    obtain ⟨rfl, rfl, rfl, rfl⟩ := h
    simp [bKind, bPts, bSizes, bAngle, ptQ, ptV, v1, v2]
  | rotbox c w hh g =>
    simp only [bodyGeom] at h
    rcases toQ_cases w with ⟨a1, h1, v1, -⟩ | ⟨h1, -⟩ <;> rcases toQ_cases hh with ⟨a2, h2, v2, -⟩ | ⟨h2, -⟩ <;>
      rcases toQ_cases g with ⟨a3, h3, v3, -⟩ | ⟨h3, -⟩ <;>
      simp only [h1, h2, h3, bind, Except.bind, pure, Except.pure, Except.ok.injEq, Prod.mk.injEq, reduceCtorEq] at h
    obtain ⟨rfl, rfl, rfl, rfl⟩ := h
    simp [bKind, bPts, bSizes, bAngle, ptQ, ptV, v1, v2, v3]
  | poly vs =>
    simp only [bodyGeom] at h
    split_ifs at h
    simp only [Except.ok.injEq, Prod.mk.injEq] at h
    obtain ⟨rfl, rfl, rfl, rfl⟩ := h
    simp [bKind, bPts, bSizes, bAngle, ptQ, ptV, List.map_map, Function.comp_def]
  | line p q =>
    simp only [bodyGeom, Except.ok.injEq, Prod.mk.injEq] at h
    obtain ⟨rfl, rfl, rfl, rfl⟩ := h
    simp [bKind, bPts, bSizes, bAngle, ptQ, ptV]
  | symbol c sy =>
    simp only [bodyGeom] at h
    split_ifs at h
    simp only [Except.ok.injEq, Prod.mk.injEq] at h
    obtain ⟨rfl, rfl, rfl, rfl⟩ := h
    simp [bKind, bPts, bSizes, bAngle, ptQ, ptV]
  | point c =>
    simp only [bodyGeom, Except.ok.injEq, Prod.mk.injEq] at h
    obtain ⟨rfl, rfl, rfl, rfl⟩ := h
    simp [bKind, bPts, bSizes, bAngle, ptQ, ptV]
  | text c t =>
    simp only [bodyGeom, Except.ok.injEq, Prod.mk.injEq] at h
    obtain ⟨rfl, rfl, rfl, rfl⟩ := h
    simp [bKind, bPts, bSizes, bAngle, ptQ, ptV]

/-- the parameter lists a region class has (`regions_attributes`). -/
def arityOK : Kind → List (ℚ × ℚ) → List ℚ → Option ℚ → Bool
  | .circle, [_], [_], none => true
  | .circleannulus, [_], [_, _], none => true
  | .ellipse, [_], [_, _], some _ => true
  | .rectangle, [_], [_, _], some _ => true
  | .polygon, _, [], none => true
  | .line, [_, _], [], none => true
  | .point, [_], [], none => true
  | .text, [_], [], none => true
  | _, _, _, _ => false

def ClosePt (p : Nat) (a b : ℚ × ℚ) : Prop := Close p a.1 b.1 ∧ Close p a.2 b.2

/-- the property's geometry clause between a region and what a line denotes. -/
def GeomClose (p : Nat) (kind : Kind) (pts : List (ℚ × ℚ)) (sizes : List ℚ) (angle : Option ℚ)
    (pts' : List (ℚ × ℚ)) (sizes' : List ℚ) (angle' : Option ℚ) : Prop :=
  List.Forall₂ (ClosePt p) pts pts' ∧
  (if kind = .ellipse then List.Forall₂ (Close2 p) sizes sizes' else List.Forall₂ (Close p) sizes sizes') ∧
  (match angle, angle' with
    | some x, some y => Close p x y
    | none, none => True
    | _, _ => False)

theorem poly_closePt (p : Nat) (cu : CUnit) (ps : List (ℚ × ℚ)) :
    List.Forall₂ (ClosePt p) ps
      ((ps.map fun t => ((Coord.dec (fmtDec p t.1) cu, Coord.dec (fmtDec p t.2) cu) : Pt)).map ptV) := by
  induction ps with
  | nil => exact List.Forall₂.nil
  | cons a r ih =>
    simp only [List.map_cons, ptV, dec_toQ_v]
    exact List.Forall₂.cons ⟨close_fmt p a.1, close_fmt p a.2⟩ ih

/-- what the writer puts on the line denotes the region's class and its geometry within
half a unit of the requested precision (ellipse full axes: one unit); the ellipse line
carries `[height/2, width/2]` and the reader's swap/doubling undoes exactly that; the
rotation angle is written as it is. -/
theorem written_geometry (q : Quirks) (o : Opts) (cs : String) (kind : Kind) (sky : Bool)
    (pts : List (ℚ × ℚ)) (sizes : List ℚ) (angle : Option ℚ) (mt m : AList) (incl : Option MVal)
    (b : Body) (hA : arityOK kind pts sizes angle = true)
    (hw : writeBody q o ⟨cs, kind, sky, flatten pts ++ sizes ++ angle.toList, mt, incl⟩ m = .ok b) :
    bKind b = kind ∧ GeomClose o.prec kind pts sizes angle (bPts b) (bSizes b) (bAngle b) := by
  unfold arityOK at hA
  split at hA <;> try (exact absurd hA Bool.false_ne_true)
  · rename_i c r
    simp only [writeBody, flatten, List.cons_append, List.nil_append, Option.toList_none, List.append_nil,
      Except.ok.injEq] at hw
    subst hw
    refine ⟨rfl, ?_, ?_, trivial⟩
    · exact List.Forall₂.cons ⟨by simpa [ptV, dec_toQ_v] using close_fmt o.prec c.1,
        by simpa [ptV, dec_toQ_v] using close_fmt o.prec c.2⟩ List.Forall₂.nil
    · simp only [reduceCtorEq, if_false, bSizes]
      exact List.Forall₂.cons (close_fmt _ _) List.Forall₂.nil
  · rename_i c r1 r2
    simp only [writeBody, flatten, List.cons_append, List.nil_append, Option.toList_none, List.append_nil,
      Except.ok.injEq] at hw
    subst hw
    refine ⟨rfl, ?_, ?_, trivial⟩
    · exact List.Forall₂.cons ⟨by simpa [ptV, dec_toQ_v] using close_fmt o.prec c.1,
        by simpa [ptV, dec_toQ_v] using close_fmt o.prec c.2⟩ List.Forall₂.nil
    · simp only [reduceCtorEq, if_false, bSizes]
      exact List.Forall₂.cons (close_fmt _ _) (List.Forall₂.cons (close_fmt _ _) List.Forall₂.nil)
  · rename_i c w h a
    simp only [writeBody, flatten, List.cons_append, List.nil_append, Option.toList_some,
      Except.ok.injEq] at hw
    subst hw
    refine ⟨rfl, ?_, ?_, ?_⟩
    · exact List.Forall₂.cons ⟨by simpa [ptV, dec_toQ_v] using close_fmt o.prec c.1,
        by simpa [ptV, dec_toQ_v] using close_fmt o.prec c.2⟩ List.Forall₂.nil
    · simp only [if_true, bSizes]
      exact List.Forall₂.cons (close2_fmt_half _ _) (List.Forall₂.cons (close2_fmt_half _ _) List.Forall₂.nil)
    · simp only [bAngle]
      have : a / 2 * 2 = a := by ring
      rw [this]; exact close_fmt _ _
  · rename_i c w h a
    simp only [writeBody, flatten, List.cons_append, List.nil_append, Option.toList_some,
      Except.ok.injEq] at hw
    subst hw
    refine ⟨rfl, ?_, ?_, ?_⟩
    · exact List.Forall₂.cons ⟨by simpa [ptV, dec_toQ_v] using close_fmt o.prec c.1,
        by simpa [ptV, dec_toQ_v] using close_fmt o.prec c.2⟩ List.Forall₂.nil
    · simp only [reduceCtorEq, if_false, bSizes]
      exact List.Forall₂.cons (close_fmt _ _) (List.Forall₂.cons (close_fmt _ _) List.Forall₂.nil)
    · simp only [bAngle]; exact close_fmt _ _
  · simp only [writeBody, List.append_nil, Option.toList_none, pairsOf_flatten, Except.ok.injEq] at hw
    subst hw
    refine ⟨rfl, ?_, ?_, trivial⟩
    · simp only [bPts]; exact poly_closePt _ _ _
    · simp only [reduceCtorEq, if_false, bSizes]; exact List.Forall₂.nil
  · rename_i p1 p2
    simp only [writeBody, flatten, List.cons_append, List.nil_append, Option.toList_none, List.append_nil,
      Except.ok.injEq] at hw
    subst hw
    refine ⟨rfl, ?_, ?_, trivial⟩
    · exact List.Forall₂.cons ⟨by simpa [ptV, dec_toQ_v] using close_fmt o.prec p1.1,
        by simpa [ptV, dec_toQ_v] using close_fmt o.prec p1.2⟩
        (List.Forall₂.cons ⟨by simpa [ptV, dec_toQ_v] using close_fmt o.prec p2.1,
        by simpa [ptV, dec_toQ_v] using close_fmt o.prec p2.2⟩ List.Forall₂.nil)
    · simp only [reduceCtorEq, if_false, bSizes]; exact List.Forall₂.nil
  · rename_i c
    simp only [writeBody, flatten, List.cons_append, List.nil_append, Option.toList_none, List.append_nil] at hw
    split at hw <;> simp only [Except.ok.injEq] at hw <;> subst hw <;>
    · refine ⟨rfl, ?_, ?_, trivial⟩
      · exact List.Forall₂.cons ⟨by simpa [ptV, dec_toQ_v] using close_fmt o.prec c.1,
          by simpa [ptV, dec_toQ_v] using close_fmt o.prec c.2⟩ List.Forall₂.nil
      · simp only [reduceCtorEq, if_false, bSizes]; exact List.Forall₂.nil
  · rename_i c
    simp only [writeBody, flatten, List.cons_append, List.nil_append, Option.toList_none, List.append_nil] at hw
    split at hw <;> simp only [Except.ok.injEq, reduceCtorEq] at hw
    subst hw
    refine ⟨rfl, ?_, ?_, trivial⟩
    · exact List.Forall₂.cons ⟨by simpa [ptV, dec_toQ_v] using close_fmt o.prec c.1,
        by simpa [ptV, dec_toQ_v] using close_fmt o.prec c.2⟩ List.Forall₂.nil
    · simp only [reduceCtorEq, if_false, bSizes]; exact List.Forall₂.nil

/-! ### metadata: dictionaries have distinct keys -/

def keys (m : AList) : List Key := m.map Prod.fst

theorem get?_none_of_not_mem (m : AList) (k : Key) (h : k ∉ keys m) : m.get? k = none := by
  induction m with
  | nil => rfl
  | cons a r ih =>
    obtain ⟨ka, va⟩ := a
    simp only [keys, List.map_cons, List.mem_cons, not_or] at h
    simp only [AList.get?]
    rw [if_neg (fun e => h.1 e.symm)]
    exact ih h.2

theorem keys_set (m : AList) (k : Key) (v : MVal) :
    keys (m.set k v) = if k ∈ keys m then keys m else keys m ++ [k] := by
  induction m with
  | nil => simp [AList.set, keys]
  | cons a r ih =>
    obtain ⟨ka, va⟩ := a
    unfold AList.set
    by_cases h : ka = k
    · subst h; simp [keys]
    · simp only [h, if_false]
      have hne : ¬ k = ka := fun e => h e.symm
      simp only [keys, List.map_cons, List.mem_cons, hne, false_or] at ih ⊢
      rw [ih]
      split_ifs with hm <;> simp [hm]

theorem nodup_set (m : AList) (k : Key) (v : MVal) (h : (keys m).Nodup) : (keys (m.set k v)).Nodup := by
  rw [keys_set]
  split_ifs with hk
  · exact h
  · exact List.Nodup.append h (List.nodup_singleton k) (by simpa using hk)

theorem nodup_filter (m : AList) (f : Key × MVal → Bool) (h : (keys m).Nodup) : (keys (m.filter f)).Nodup := by
  unfold keys at *
  exact List.Nodup.sublist (List.Sublist.map _ List.filter_sublist) h

theorem nodup_erase (m : AList) (k : Key) (h : (keys m).Nodup) : (keys (m.erase k)).Nodup :=
  nodup_filter m _ h

theorem nodup_update (m o : AList) (h : (keys m).Nodup) : (keys (AList.update m o)).Nodup := by
  unfold AList.update
  induction o generalizing m with
  | nil => exact h
  | cons a r ih => exact ih _ (nodup_set m a.1 a.2 h)

theorem nodup_shapeMeta (q : Quirks) (r : WReg) (h : (keys r.mt).Nodup) : (keys (shapeMeta q r)).Nodup := by
  have hm : (keys (mergedMeta r)).Nodup := nodup_update _ _ h
  unfold shapeMeta
  split_ifs
  · exact nodup_set _ _ _ (nodup_erase _ _ hm)
  · exact nodup_set _ _ _ (nodup_erase _ _ hm)
  · exact nodup_set _ _ _ hm
  · exact hm

/-! ### metadata: what the writer's items assign -/

theorem assigned_append (g : Bool) (k : Key) (a b : List MItem) :
    assigned g k (a ++ b) = match assigned g k b with
      | some v => some v
      | none => assigned g k a := by
  induction a with
  | nil => simp only [List.nil_append, assigned]; cases assigned g k b <;> rfl
  | cons it r ih =>
    simp only [List.cons_append, assigned, ih]
    cases assigned g k b with
    | some v => rfl
    | none => rfl

/-- the writer's vocabulary is spelled the way the reader spells it. -/
theorem ofString_toString (q : Quirks) (k : Key) (h : writerValid q k = true) : Key.ofString k.toString = k := by
  cases k <;> first | rfl | (simp [writerValid] at h)

theorem itemKey_toString (q : Quirks) (k : Key) (h : writerValid q k = true) : itemKey false k.toString = k := by
  unfold itemKey; simpa using ofString_toString q k h

/-- `key=value` pairs: the reader sees, for every key that is written as a pair, the text of
the value the dictionary holds for it. -/
theorem assigned_pairItems (q : Quirks) (m : AList) (k : Key) (hn : (keys m).Nodup)
    (hv : ∀ p ∈ m, writerValid q p.1 = true) :
    assigned false k (pairItems q m) =
      if writerSkip q k then none
      else match m.get? k with
        | some v => if (pairTok k v).isEmptyScalar then none else some (tokValue false k (pairTok k v))
        | none => none := by
  induction m with
  | nil => simp [pairItems, assigned, AList.get?]
  | cons a r ih =>
    obtain ⟨ka, va⟩ := a
    have hn' : (keys r).Nodup := by simp only [keys, List.map_cons, List.nodup_cons] at hn; exact hn.2
    have hka : ka ∉ keys r := by simp only [keys, List.map_cons, List.nodup_cons] at hn; exact hn.1
    have hv' : ∀ p ∈ r, writerValid q p.1 = true := fun p hp => hv p (List.mem_cons_of_mem _ hp)
    have hva : writerValid q ka = true := hv (ka, va) List.mem_cons_self
    have ih' := ih hn' hv'
    unfold pairItems at ih' ⊢
    by_cases hs : writerSkip q ka
    · simp only [List.filter_cons, hs, Bool.not_true, Bool.false_eq_true, if_false]
      rw [ih']
      by_cases hk : ka = k
      · subst hk; simp [hs]
      · simp [AList.get?, hk]
    · simp only [List.filter_cons, hs, Bool.not_false, if_true, List.map_cons, assigned]
      rw [ih']
      by_cases hk : ka = k
      · subst hk
        simp only [hs, Bool.false_eq_true, if_false, get?_none_of_not_mem r ka hka, AList.get?, if_true,
          itemKey_toString q ka hva]
        by_cases he : (pairTok ka va).isEmptyScalar <;> simp [he]
      · have : ¬ itemKey false ka.toString = k := by rw [itemKey_toString q ka hva]; exact hk
        simp only [AList.get?, hk, if_false, this, decide_false, Bool.and_false, Bool.false_eq_true]
        by_cases hsk : writerSkip q k
        · simp [hsk]
        · simp only [hsk, Bool.false_eq_true, if_false]
          cases hr : AList.get? r k with
          | none => rfl
          | some v => simp only; split_ifs <;> rfl

theorem listItem_inv (n : String) (sp : Bool) (ov : Option MVal) (t : List MItem)
    (h : listItem n sp ov = .ok t) : t = [] ∨ ∃ tok, t = [.pair n tok] := by
  unfold listItem at h
  split at h
  · split at h
    · simp only [Except.ok.injEq] at h; exact Or.inr ⟨_, h.symm⟩
    · cases h
  · simp only [Except.ok.injEq] at h; exact Or.inl h.symm

theorem assigned_single_ne (k : Key) (n : String) (tok : MTok) (h : itemKey false n ≠ k) :
    assigned false k [.pair n tok] = none := by
  simp [assigned, h]

/-- the appended list items only ever name `labeloff`, `range`, `corr`. -/
theorem assigned_tail_none (q : Quirks) (m : AList) (tail : List MItem) (h : tailItems q m = .ok tail)
    (k : Key) (h1 : k ≠ .labeloff) (h2 : k ≠ .range) (h3 : k ≠ .corr) : assigned false k tail = none := by
  have k1 : itemKey false "labeloff" = Key.labeloff := by decide +kernel
  have k2 : itemKey false "range" = Key.range := by decide +kernel
  have k3 : itemKey false "corr" = Key.corr := by decide +kernel
  unfold tailItems at h
  split at h
  case h_1 t1 t2 t3 e1 e2 e3 =>
    simp only [Except.ok.injEq] at h
    subst h
    have a1 : assigned false k t1 = none := by
      rcases listItem_inv _ _ _ _ e1 with rfl | ⟨tok, rfl⟩
      · rfl
      · exact assigned_single_ne _ _ _ (by rw [k1]; exact Ne.symm h1)
    have a2 : assigned false k t2 = none := by
      rcases listItem_inv _ _ _ _ e2 with rfl | ⟨tok, rfl⟩
      · rfl
      · exact assigned_single_ne _ _ _ (by rw [k2]; exact Ne.symm h2)
    have a3 : assigned false k t3 = none := by
      rcases listItem_inv _ _ _ _ e3 with rfl | ⟨tok, rfl⟩
      · rfl
      · exact assigned_single_ne _ _ _ (by rw [k3]; exact Ne.symm h3)
    rw [assigned_append, assigned_append, a3, a2, a1]
  all_goals cases h

/-- the items of a written line (no `coord=` inline): for a key that is not one of the
appended lists, exactly the `key=value` pairs count. -/
theorem assigned_written (q : Quirks) (m : AList) (items : List MItem)
    (h : writeItems q none m = .ok items)
    (k : Key) (h1 : k ≠ .labeloff) (h2 : k ≠ .range) (h3 : k ≠ .corr) :
    assigned false k items = assigned false k (pairItems q m) := by
  unfold writeItems at h
  cases ht : tailItems q m with
  | error e => rw [ht] at h; cases h
  | ok tail =>
    rw [ht] at h
    simp only [Except.ok.injEq, headItems] at h
    subst h
    have hz := assigned_tail_none q m tail ht k h1 h2 h3
    unfold assemble
    split_ifs with hc
    · simp only [Bool.and_eq_true, List.isEmpty_iff] at hc
      rw [hc.1]
      simp [assigned, hz]
    · rw [assigned_append, hz]

/-! ### metadata: the reader's split into `meta` and `visual` -/

theorem split_fold (m : AList) (hn : (keys m).Nodup) (a b : AList) (k : Key) :
    ((m.foldl (fun (acc : AList × AList) p =>
        if isViz p.1 then (acc.1, acc.2.set p.1 p.2) else (acc.1.set p.1 p.2, acc.2)) (a, b)).1.get? k =
      if isViz k then a.get? k else match m.get? k with
        | some v => some v
        | none => a.get? k) ∧
    ((m.foldl (fun (acc : AList × AList) p =>
        if isViz p.1 then (acc.1, acc.2.set p.1 p.2) else (acc.1.set p.1 p.2, acc.2)) (a, b)).2.get? k =
      if isViz k then (match m.get? k with
        | some v => some v
        | none => b.get? k) else b.get? k) := by
  induction m generalizing a b with
  | nil => simp [AList.get?]
  | cons p r ih =>
    obtain ⟨kp, vp⟩ := p
    have hn' : (keys r).Nodup := by simp only [keys, List.map_cons, List.nodup_cons] at hn; exact hn.2
    have hkp : kp ∉ keys r := by simp only [keys, List.map_cons, List.nodup_cons] at hn; exact hn.1
    simp only [List.foldl_cons]
    by_cases hv : isViz kp
    · simp only [hv, if_true]
      obtain ⟨i1, i2⟩ := ih hn' a (b.set kp vp)
      rw [i1, i2]
      by_cases hk : kp = k
      · subst hk
        simp [hv, AList.get?, get?_none_of_not_mem r kp hkp, get?_set_self]
      · simp only [AList.get?, hk, if_false, get?_set_ne _ _ hk]
        simp
    · simp only [hv, Bool.false_eq_true, if_false]
      obtain ⟨i1, i2⟩ := ih hn' (a.set kp vp) b
      rw [i1, i2]
      by_cases hk : kp = k
      · subst hk
        simp [hv, AList.get?, get?_none_of_not_mem r kp hkp, get?_set_self]
      · simp only [AList.get?, hk, if_false, get?_set_ne _ _ hk]
        simp

/-- `to_region`: visual keys go to `visual`, the others to `meta`; `include` is the sign;
`label` defaults to the text of a text region. -/
theorem splitMeta_get (m : AList) (hn : (keys m).Nodup) (incl : Bool) (k : Key) :
    ((splitMeta m incl).2.get? k = if isViz k then m.get? k else none) ∧
    ((splitMeta m incl).1.get? .include = some (.bool incl)) ∧
    (isViz k = false → k ≠ .include → k ≠ .label → (splitMeta m incl).1.get? k = m.get? k) ∧
    (∀ v, m.get? .label = some v → (splitMeta m incl).1.get? .label = some v) := by
  unfold splitMeta
  simp only
  refine ⟨?_, get?_set_self _ _ _, ?_, ?_⟩
  · rw [(split_fold m hn _ [] k).2]
    split_ifs
    · cases m.get? k <;> simp [AList.get?]
    · rfl
  · intro hv h1 h2
    rw [get?_set_ne _ _ (Ne.symm h1), (split_fold m hn _ [] k).1]
    simp only [hv, Bool.false_eq_true, if_false]
    cases hm : m.get? k with
    | some v => rfl
    | none =>
      simp only
      split_ifs
      · simp [AList.get?, Ne.symm h2]
      · rfl
  · intro v hv
    rw [get?_set_ne _ _ (by decide), (split_fold m hn _ [] .label).1]
    have : isViz Key.label = false := rfl
    simp [this, hv]

theorem nodup_readItems (g : Bool) (items : List MItem) (m m' : AList)
    (h : readItems g m items = .ok m') (hn : (keys m).Nodup) : (keys m').Nodup := by
  induction items generalizing m with
  | nil => simp only [readItems, Except.ok.injEq] at h; subst h; exact hn
  | cons it r ih =>
    simp only [readItems] at h
    cases h1 : readItem g m it with
    | error e => rw [h1] at h; simp [bind, Except.bind] at h
    | ok m1 =>
      rw [h1] at h
      simp only [bind, Except.bind] at h
      refine ih m1 h ?_
      cases it with
      | empty => simp only [readItem, Except.ok.injEq] at h1; subst h1; exact hn
      | pair k t =>
        simp only [readItem] at h1
        split_ifs at h1
        · simp only [Except.ok.injEq] at h1; subst h1; exact hn
        · simp only [Except.ok.injEq] at h1; subst h1; exact nodup_set _ _ _ hn

theorem nodup_lineMeta (qn : String → String) (gm m : AList) (l : RLine)
    (h : lineMeta qn gm l = .ok m) (hn : (keys gm).Nodup) : (keys m).Nodup := by
  unfold lineMeta at h
  cases hr : readItems false gm l.items with
  | error e => rw [hr] at h; simp [bind, Except.bind] at h
  | ok m1 =>
    rw [hr] at h
    simp only [bind, Except.bind, pure, Except.pure, Except.ok.injEq] at h
    subst h
    refine nodup_set _ _ _ ?_
    unfold normRange
    have h2 := nodup_set m1 .include (.bool !l.excl) (nodup_readItems _ _ _ _ hr hn)
    split
    · exact nodup_set _ _ _ h2
    · exact h2

theorem nodup_bodyMeta (m : AList) (b : Body) (hn : (keys m).Nodup) : (keys (bodyMeta m b)).Nodup := by
  cases b <;> simp only [bodyMeta] <;> first | exact hn | exact nodup_set _ _ _ hn

theorem get?_bodyMeta_ne (m : AList) (b : Body) (k : Key) (h1 : k ≠ .symbol) (h2 : k ≠ .text) :
    (bodyMeta m b).get? k = m.get? k := by
  cases b <;> simp only [bodyMeta] <;> first | rfl | exact get?_set_ne _ _ (Ne.symm h1) | exact get?_set_ne _ _ (Ne.symm h2)

theorem get?_shapeMeta_ne (q : Quirks) (r : WReg) (k : Key) (h1 : k ≠ .label) (h2 : k ≠ .text) :
    (shapeMeta q r).get? k = (mergedMeta r).get? k := by
  unfold shapeMeta
  split_ifs
  · rw [get?_set_ne _ _ (Ne.symm h2), get?_erase]; simp [Ne.symm h1]
  · rw [get?_set_ne _ _ (Ne.symm h2), get?_erase]; simp [Ne.symm h1]
  · rw [get?_set_ne _ _ (Ne.symm h2)]
  · rfl

/-! ### the round-trip relation -/

/-- the region is excluded: `region.meta['include'] in (False, '-')`. -/
def wExcl (r : WReg) : Bool :=
  match r.mt.get? .include with
  | some v => v.isExcl
  | none => false

/-- the region is an annotation: `meta['type'] == 'ann'`. -/
def wAnn (r : WReg) : Prop := (mergedMeta r).get? .type = some (.str "ann")

instance (r : WReg) : Decidable (wAnn r) := by unfold wAnn; infer_instance

/-- CRTF keys with a scalar value that are written as `key=value` (the reader stores the
text of the value). -/
def scalarKey (q : Quirks) : Key → Bool
  | .frame | .veltype | .restfreq | .color | .font | .symthick | .symsize | .fontsize | .fontstyle
  | .usetex | .labelpos | .linewidth | .linestyle => true
  | .labelcolor => !q.dropLabelcolor
  | _ => false

def isScalar : MVal → Bool
  | .str _ | .int _ | .bool _ => true
  | _ => false

/-- what the property promises for one region `r` and the region `x` read back. -/
structure RT (q : Quirks) (o : Opts) (r : WReg) (x : RReg) : Prop where
  kind : x.kind = r.kind
  geom : GeomClose o.prec r.kind r.pts r.sizes r.angle
           (x.pts.map fun p => (p.1.v, p.2.v)) (x.sizes.map (·.v)) (x.angle.map (·.v))
  incl : x.mt.get? .include = some (.bool (!wExcl r))
  ann : x.mt.get? .type = some (.str (if wAnn r then "ann" else "reg"))
  scalar : ∀ k v, scalarKey q k = true → (mergedMeta r).get? k = some v → isScalar v = true → v.pyStr ≠ "" →
             (if isViz k then x.vis else x.mt).get? k = some (.str v.pyStr)
  label : r.kind ≠ .text → ∀ v, (mergedMeta r).get? .label = some v → isScalar v = true → v.pyStr ≠ "" →
             x.mt.get? .label = some (.str v.pyStr)
  text : r.kind = .text → ∀ v, (shapeMeta q r).get? .text = some v → x.text = some v.pyStr

end RegionsVerif.Props.C11
