/-
C09 — characters, layers 2 and 3: dictionaries and single lines.

* `parseMetadata_spaced`   `_parse_metadata` on any spaced form with the atoms of `m` = `rawDict m`
                           (fold over `findall`: first occurrence wins, tags accumulate; `Nodup` keys);
* `lexLine_shape_core`     a stripped region line `shape(params)[ #meta]` lexes to its token
                           (`params_read`: the numbers are `roundTo p` of the values, via `pyFloat_fmt`);
* `lexLine_global`, `lexLine_frame`, `global_line_lex`;
* `splitSemicolon_one` / `splitSemicolon_two`   `_split_semicolon` leaves a rendered line whole /
                           splits it exactly after the frame word;
* `region_body_strip`      `strip` of a rendered line (trailing blanks of the last value go).
-/
import RegionsVerif.Props.C09LexLemmas

namespace RegionsVerif.Props.C09
open RegionsVerif.Impl.Ds9 RegionsVerif.Impl.Dec

/-! ### the dictionary fold -/

def step' (acc : RDict) (kv : Str × Str) : RDict :=
  let k := Key.ofString (stringOfStr (lower kv.1))
  let v := kv.2
  match AL.get acc k with
  | none => acc ++ [(k, if k = .tag then RVal.tags [v] else RVal.str v)]
  | some (RVal.tags l) => if k = .tag then AL.set acc k (RVal.tags (l ++ [v])) else acc
  | some _ => acc

theorem parseMetadata_eq (s : Str) :
    parseMetadata s = ((findItems (s.length + 1) s).map (fun kv => (kv.1, stripVal kv.2))).foldl step' [] := by
  rw [List.foldl_map]; rfl

theorem get_none_of_fresh {β : Type} (d : List (Key × β)) (k : Key) (h : ∀ kv ∈ d, kv.1 ≠ k) :
    AL.get d k = none := by
  induction d with
  | nil => rfl
  | cons x r ih =>
    obtain ⟨k', v⟩ := x
    have h1 : k' ≠ k := h (k', v) (by simp)
    simp [AL.get, ih (fun kv hkv => h kv (by simp [hkv])), h1]

theorem get_append_single {β : Type} (d : List (Key × β)) (k : Key) (v : β) :
    AL.get (d ++ [(k, v)]) k = some v := by
  induction d with
  | nil => simp [AL.get]
  | cons x r ih =>
    obtain ⟨k', v'⟩ := x
    simp [AL.get, ih]

theorem set_append_single {β : Type} (d : List (Key × β)) (k : Key) (v v' : β) (h : ∀ kv ∈ d, kv.1 ≠ k) :
    AL.set (d ++ [(k, v)]) k v' = d ++ [(k, v')] := by
  unfold AL.set
  rw [get_append_single]
  simp only [Option.isSome_some, if_true, List.map_append, List.map_cons, List.map_nil]
  congr 1
  conv_rhs => rw [← List.map_id d]
  apply List.map_congr_left
  intro kv hkv
  simp [h kv hkv]

theorem tag_key : Key.ofString (stringOfStr (lower "tag".toList)) = Key.tag := by decide

theorem fold_tags (es : List Str) (f : Str → Str) : ∀ (l : List Str) (acc : RDict), (∀ kv ∈ acc, kv.1 ≠ Key.tag) →
    (es.map (fun s => ("tag".toList, f s))).foldl step' (acc ++ [(Key.tag, RVal.tags l)]) =
      acc ++ [(Key.tag, RVal.tags (l ++ es.map f))] := by
  induction es with
  | nil => intro l acc _; simp
  | cons e es ih =>
    intro l acc hacc
    rw [List.map_cons, List.foldl_cons]
    have : step' (acc ++ [(Key.tag, RVal.tags l)]) ("tag".toList, f e) = acc ++ [(Key.tag, RVal.tags (l ++ [f e]))] := by
      unfold step'
      simp only [tag_key, get_append_single, if_true]
      exact set_append_single acc Key.tag _ _ hacc
    rw [this, ih _ acc hacc]
    simp

theorem fold_kvOf (m : Dict) : (m.map (·.1)).Nodup → (∀ kv ∈ m, kv.1 ≠ .tag → keyOK kv.1 = true) →
    ∀ acc : RDict, (∀ kv ∈ acc, ∀ kv' ∈ m, kv.1 ≠ kv'.1) →
    (kvOf m).foldl step' acc = acc ++ rawDict m := by
  induction m with
  | nil => intro _ _ acc _; simp [kvOf, rawDict]
  | cons kv m ih =>
    intro hnd hk acc hacc
    have hnd2 : (kv.1 :: m.map (·.1)).Nodup := hnd
    have hnd' : (m.map (·.1)).Nodup := (List.nodup_cons.mp hnd2).2
    have hfresh : ∀ kv' ∈ m, kv.1 ≠ kv'.1 := by
      intro kv' hkv' he
      have := (List.nodup_cons.mp hnd2).1
      exact this (by rw [he]; exact List.mem_map_of_mem (f := (·.1)) hkv')
    have hsplit : kvOf (kv :: m) = kvOf [kv] ++ kvOf m := by simp [kvOf]
    rw [hsplit, List.foldl_append]
    have hget : AL.get acc kv.1 = none := get_none_of_fresh acc kv.1 (fun x hx => hacc x hx kv (by simp))
    by_cases ht : kv.1 = .tag
    · cases hte : tagElems kv.2 with
      | nil =>
        have h1 : kvOf [kv] = [] := by simp [kvOf, ht, hte]
        have h2 : rawDict (kv :: m) = rawDict m := by simp [rawDict, ht, hte]
        rw [h1, h2]
        exact ih hnd' (fun x hx => hk x (by simp [hx])) acc (fun x hx y hy => hacc x hx y (by simp [hy]))
      | cons e es =>
        have h1 : kvOf [kv] = ("tag".toList, stripVal ('{' :: e ++ ['}'])) ::
            es.map (fun s => ("tag".toList, stripVal ('{' :: s ++ ['}']))) := by
          simp [kvOf, ht, hte]
        have h2 : rawDict (kv :: m) = (Key.tag, RVal.tags ((e :: es).map fun s => stripVal ('{' :: s ++ ['}']))) :: rawDict m := by
          simp [rawDict, ht, hte]
        have hacct : ∀ x ∈ acc, x.1 ≠ Key.tag := fun x hx => by
          have := hacc x hx kv (by simp); rwa [ht] at this
        rw [h1, List.foldl_cons]
        have h3 : step' acc ("tag".toList, stripVal ('{' :: e ++ ['}'])) = acc ++ [(Key.tag, RVal.tags [stripVal ('{' :: e ++ ['}'])])] := by
          unfold step'
          simp only [tag_key]
          rw [ht] at hget
          rw [hget]; simp
        rw [h3, fold_tags es (fun s => stripVal ('{' :: s ++ ['}'])) _ acc hacct, h2]
        rw [ih hnd' (fun x hx => hk x (by simp [hx]))]
        · simp
        · intro x hx y hy
          rcases List.mem_append.mp hx with h | h
          · exact hacc x h y (by simp [hy])
          · simp only [List.mem_singleton] at h
            rw [h]; simp only; rw [← ht]; exact hfresh y hy
    · have hkr := (keyOK_roundtrip kv.1 (hk kv (by simp) ht)).1
      have h1 : kvOf [kv] = [(kv.1.toString.toList, stripVal (pyStr kv.2))] := by simp [kvOf, ht]
      have h2 : rawDict (kv :: m) = (kv.1, RVal.str (stripVal (pyStr kv.2))) :: rawDict m := by
        simp [rawDict, ht]
      rw [h1, List.foldl_cons, List.foldl_nil]
      have h3 : step' acc (kv.1.toString.toList, stripVal (pyStr kv.2)) = acc ++ [(kv.1, RVal.str (stripVal (pyStr kv.2)))] := by
        unfold step'
        simp only [hkr, hget, if_neg ht]
      rw [h3, h2, ih hnd' (fun x hx => hk x (by simp [hx]))]
      · simp
      · intro x hx y hy
        rcases List.mem_append.mp hx with h | h
        · exact hacc x h y (by simp [hy])
        · simp only [List.mem_singleton] at h
          rw [h]; exact hfresh y hy

theorem dictWF_parts (m : Dict) (h : dictWF m = true) :
    (m.map (·.1)).Nodup ∧ (∀ kv ∈ m, kv.1 ≠ .tag → keyOK kv.1 = true) := by
  simp only [dictWF, Bool.and_eq_true, List.all_eq_true, decide_eq_true_eq] at h
  exact ⟨h.1.2, fun kv hkv _ => h.2 kv hkv⟩

/-- **the dictionary level**: any spaced form with the atoms of `m` parses to `rawDict m`. -/
theorem parseMetadata_spaced (m : Dict) (h : dictWF m = true) (lead : Str) (A : List Atom)
    (hl : ∀ c ∈ lead, isAlpha c = false) (hw : wfAtoms A) (hm : A.map akv = kvOf m) :
    parseMetadata (lead ++ spaced A) = rawDict m := by
  rw [parseMetadata_eq, findItems_spaced A hw lead _ hl (by omega)]
  have : A.map (fun a => (a.K, stripVal a.V)) = A.map akv := rfl
  rw [this, hm]
  obtain ⟨h1, h2⟩ := dictWF_parts m h
  simpa using fold_kvOf m h1 h2 [] (by simp)

/-! ### one stripped region line -/

theorem lower_append (a b : Str) : lower (a ++ b) = lower a ++ lower b := by simp [lower]

theorem isAlnum_paren : isAlnum '(' = false := by decide

def pChar (c : Char) : Prop := decChar c ∨ c = ','

theorem decChar_toNat (c : Char) (h : decChar c) : c.toNat = 45 ∨ c.toNat = 46 ∨ (48 ≤ c.toNat ∧ c.toNat ≤ 57) := by
  rcases h with h | h | h
  · right; right; exact digit_toNat c h
  · subst h; left; rfl
  · subst h; right; left; rfl

theorem pChar_ne (c d : Char) (h : pChar c) (hd : d.toNat ≠ 44 ∧ d.toNat ≠ 45 ∧ d.toNat ≠ 46 ∧ (d.toNat < 48 ∨ 57 < d.toNat)) :
    c ≠ d := by
  intro e; subst e
  rcases h with h | h
  · have := decChar_toNat c h; omega
  · subst h; simp at hd

theorem pChar_lower (c : Char) (h : pChar c) : lowerChar c = c := by
  unfold lowerChar
  rw [if_neg]
  rintro ⟨h1, h2⟩
  have h1' : 65 ≤ c.toNat := by
    have := (char_le_iff 'A' c).mp h1; simpa using this
  rcases h with h | h
  · have := decChar_toNat c h; omega
  · subst h; simp at h1'

theorem lexLine_shape_core (W : Str) (w0 : Char) (W' : Str) (sh : DShape) (hW : W = w0 :: W')
    (hw0 : w0 ≠ 'g' ∧ w0 ≠ '#' ∧ w0 ≠ '+' ∧ w0 ≠ '-' ∧ w0 ≠ ' ')
    (hlow : lower W = W) (hal : ∀ c ∈ W, isAlnum c = true) (hf : fnameOfWord W = none)
    (hs : dshapeOfWord W = some sh) (PS TL ms : Str) (hPS : ∀ c ∈ PS, pChar c)
    (hTL : (TL = [] ∧ ms = []) ∨ TL = ' ' :: '#' :: ms) (nums : List ℚ)
    (hrp : readParams (splitParams PS) = .ok nums) :
    lexLine (W ++ '(' :: (PS ++ ')' :: TL)) = .ok (some (.shape none sh nums (parseMetadata (strip ms)))) := by
  obtain ⟨hg, hh, hp, hm, hsp⟩ := hw0
  generalize hR : PS ++ ')' :: TL = R
  have hline : lower (W ++ '(' :: R) = w0 :: (W' ++ '(' :: lower R) := by
    rw [lower_append, hlow, hW]; rfl
  have hlen : (w0 :: (W' ++ '(' :: lower R)).length - ('(' :: lower R).length = W.length := by
    rw [hW]; simp; omega
  have htw : (w0 :: (W' ++ '(' :: lower R)).takeWhile isAlnum = W := by
    rw [← List.cons_append, ← hW]
    exact takeWhile_append_stop isAlnum W _ hal (by simp [isAlnum_paren])
  have hdw : (w0 :: (W' ++ '(' :: lower R)).dropWhile isAlnum = '(' :: lower R := by
    rw [← List.cons_append, ← hW]
    exact dropWhile_append_stop isAlnum W _ hal (by simp [isAlnum_paren])
  have hWne : W ≠ [] := by rw [hW]; simp
  unfold lexLine
  dsimp only
  rw [hline]
  have h1 : ("#".toList.isPrefixOf (w0 :: (W' ++ '(' :: lower R))) = false := by
    simp [List.isPrefixOf, Ne.symm hh]
  have h2 : ("global".toList.isPrefixOf (w0 :: (W' ++ '(' :: lower R))) = false := by
    simp [List.isPrefixOf, Ne.symm hg]
  have h3 : (w0 :: (W' ++ '(' :: lower R)).dropWhile (fun x => x == ' ') = w0 :: (W' ++ '(' :: lower R) := by
    rw [List.dropWhile_cons_of_neg (by simp [hsp])]
  rw [h3]
  simp only [h1, h2, Bool.false_eq_true, if_false]
  split
  · rename_i heq; simp at heq; exact absurd heq.1 hp
  · rename_i heq; simp at heq; exact absurd heq.1 hm
  · dsimp only
    rw [htw, hdw, hlen, if_neg hWne, hf]
    dsimp only
    rw [hs]
    dsimp only
    rw [List.drop_left' rfl, ← hR]
    -- the parameter string
    have hnp : ∀ c ∈ PS, decide (c = '#') = false := fun c hc => by
      simpa using pChar_ne c '#' (hPS c hc) (by decide)
    have hSB : ∀ (T : Str), (('(' :: (PS ++ [')'] ++ T)).dropWhile (fun c => c == ' ' || c == '|')) = '(' :: (PS ++ [')'] ++ T) := by
      intro T; rw [List.dropWhile_cons_of_neg (by decide)]
    have hrev : (('(' :: (PS ++ [')'])).reverse.dropWhile (fun c => c == ' ' || c == '|')) = ('(' :: (PS ++ [')'])).reverse := by
      simp
    have hfil : ('(' :: (PS ++ [')'])).filter (fun c => decide (c ≠ '(' ∧ c ≠ ')')) = PS := by
      rw [List.filter_cons_of_neg (by simp), List.filter_append]
      have : [')'].filter (fun c => decide (c ≠ '(' ∧ c ≠ ')')) = [] := by decide
      rw [this, List.append_nil, List.filter_eq_self]
      intro c hc
      have a1 := pChar_ne c '(' (hPS c hc) (by decide)
      have a2 := pChar_ne c ')' (hPS c hc) (by decide)
      simp [a1, a2]
    have hlw : lower PS = PS := by
      unfold lower
      conv_rhs => rw [← List.map_id PS]
      exact List.map_congr_left (fun c hc => pChar_lower c (hPS c hc))
    rcases hTL with ⟨h, h'⟩ | h
    · subst h; subst h'
      have hsplit : splitOn1 (fun c => decide (c = '#')) ('(' :: (PS ++ [')'])) = ('(' :: (PS ++ [')']), none) := by
        apply splitOn1_none
        intro c hc
        simp only [List.mem_cons, List.mem_append, List.not_mem_nil, or_false] at hc
        rcases hc with h | h | h
        · subst h; decide
        · exact hnp c h
        · subst h; decide
      rw [hsplit]
      dsimp only
      have := hSB []
      rw [List.append_nil] at this
      rw [this, hrev, List.reverse_reverse, hfil, hlw, hrp]
    · subst h
      have hsplit : splitOn1 (fun c => decide (c = '#')) ('(' :: (PS ++ ')' :: ' ' :: '#' :: ms)) =
          ('(' :: (PS ++ [')'] ++ [' ']), some ms) := by
        have e : '(' :: (PS ++ ')' :: ' ' :: '#' :: ms) = ('(' :: (PS ++ [')'] ++ [' '])) ++ '#' :: ms := by simp
        rw [e]
        apply splitOn1_some _ _ _ _ (by decide)
        intro c hc
        simp only [List.mem_cons, List.mem_append, List.not_mem_nil, or_false] at hc
        rcases hc with h | (h | h) | h
        · subst h; decide
        · exact hnp c h
        · subst h; decide
        · subst h; decide
      rw [hsplit]
      dsimp only
      rw [hSB [' ']]
      have hrev2 : (('(' :: (PS ++ [')'] ++ [' '])).reverse.dropWhile (fun c => c == ' ' || c == '|')) = ('(' :: (PS ++ [')'])).reverse := by
        simp
      rw [hrev2, List.reverse_reverse, hfil, hlw, hrp]


theorem shape_facts (sh : DShape) : ∃ w0 W', sh.name = w0 :: W' ∧
    (w0 ≠ 'g' ∧ w0 ≠ '#' ∧ w0 ≠ '+' ∧ w0 ≠ '-' ∧ w0 ≠ ' ') ∧ lower sh.name = sh.name ∧
    (∀ c ∈ sh.name, isAlnum c = true) ∧ fnameOfWord sh.name = none ∧ dshapeOfWord sh.name = some sh := by
  cases sh <;> exact ⟨_, _, rfl, by decide, by decide, by decide, by decide, by decide⟩

/-! ### the parameter list -/

theorem fmt_chars (p : ℕ) (x : ℚ) : fmt p x ≠ [] ∧ ∀ c ∈ fmt p x, decChar c := by
  have hne1 : Nat.toDigits 10 (units p x / 10 ^ p) ≠ [] := Nat.toDigits_ne_nil
  constructor
  · unfold fmt; simp [hne1]
  · intro c hc
    unfold fmt at hc
    rcases List.mem_append.mp hc with h | h
    · rcases List.mem_append.mp h with h | h
      · split_ifs at h
        · simp at h; exact Or.inr (Or.inl h)
        · simp at h
      · exact Or.inl (isDigit_toDigits _ c h)
    · split_ifs at h
      · simp at h
      · rcases List.mem_cons.mp h with h | h
        · exact Or.inr (Or.inr h)
        · exact Or.inl (isDigit_pad _ _ c h)

theorem splitWsAux_run (t : Str) (ht : ∀ c ∈ t, isSpace c = false) : ∀ (cur rest : Str),
    splitWsAux cur (t ++ rest) = splitWsAux (t.reverse ++ cur) rest := by
  induction t with
  | nil => intro cur rest; rfl
  | cons c cs ih =>
    intro cur rest
    have hc := ht c (by simp)
    rw [List.cons_append, splitWsAux, if_neg (by simp [hc]), ih (fun d hd => ht d (by simp [hd]))]
    simp

theorem splitWs_join : ∀ (ts : List Str), (∀ t ∈ ts, t ≠ [] ∧ ∀ c ∈ t, isSpace c = false) →
    splitWs (joinWith [' '] ts) = ts := by
  intro ts
  induction ts with
  | nil => intro _; rfl
  | cons t ts ih =>
    intro h
    obtain ⟨htne, hts⟩ := h t (by simp)
    rw [joinWith_cons]
    unfold splitWs
    by_cases hr : ts = []
    · subst hr
      rw [if_pos rfl]
      have := splitWsAux_run t hts [] []
      rw [List.append_nil] at this
      rw [this]
      simp [splitWsAux, htne]
    · rw [if_neg hr]
      have e : t ++ [' '] ++ joinWith [' '] ts = t ++ (' ' :: joinWith [' '] ts) := by simp
      rw [e, splitWsAux_run t hts [] _]
      have hsp : isSpace ' ' = true := by decide
      rw [splitWsAux, if_pos hsp, if_neg (by simpa using htne)]
      have := ih (fun u hu => h u (by simp [hu]))
      unfold splitWs at this
      rw [this]; simp

theorem map_comma_join : ∀ (ts : List Str), (∀ t ∈ ts, ∀ c ∈ t, c ≠ ',') →
    (joinWith [','] ts).map (fun c => if c = ',' then ' ' else c) = joinWith [' '] ts := by
  intro ts
  induction ts with
  | nil => intro _; rfl
  | cons t ts ih =>
    intro h
    have ht : t.map (fun c => if c = ',' then ' ' else c) = t := by
      conv_rhs => rw [← List.map_id t]
      exact List.map_congr_left (fun c hc => by simp [h t (by simp) c hc])
    rw [joinWith_cons, joinWith_cons]
    by_cases hr : ts = []
    · rw [if_pos hr, if_pos hr, ht]
    · rw [if_neg hr, if_neg hr, List.map_append, List.map_append, ht, ih (fun u hu => h u (by simp [hu]))]
      rfl

theorem readParams_fmt (p : ℕ) : ∀ (vals : List ℚ),
    readParams (vals.map (fmt p)) = .ok (vals.map (roundTo p)) := by
  intro vals
  induction vals with
  | nil => rfl
  | cons v vs ih => simp [readParams, pyFloat_fmt, ih]

theorem decChar_ne_comma (c : Char) (h : decChar c) : c ≠ ',' := by
  have := decChar_toNat c h
  intro e; subst e; simp at this

theorem params_read (p : ℕ) (vals : List ℚ) :
    readParams (splitParams (joinWith [','] (vals.map (fmt p)))) = .ok (vals.map (roundTo p)) := by
  unfold splitParams
  rw [map_comma_join, splitWs_join, readParams_fmt]
  · intro t ht
    obtain ⟨v, -, rfl⟩ := List.mem_map.mp ht
    exact ⟨(fmt_chars p v).1, fun c hc => decChar_noSpace c ((fmt_chars p v).2 c hc)⟩
  · intro t ht c hc
    obtain ⟨v, -, rfl⟩ := List.mem_map.mp ht
    exact decChar_ne_comma c ((fmt_chars p v).2 c hc)

theorem params_chars (p : ℕ) : ∀ (vals : List ℚ), ∀ c ∈ joinWith [','] (vals.map (fmt p)), pChar c := by
  intro vals
  induction vals with
  | nil => intro c hc; simp [joinWith] at hc
  | cons v vs ih =>
    intro c hc
    rw [List.map_cons, joinWith_cons] at hc
    split_ifs at hc
    · exact Or.inl ((fmt_chars p v).2 c hc)
    · simp only [List.mem_append, List.mem_singleton] at hc
      rcases hc with (h | h) | h
      · exact Or.inl ((fmt_chars p v).2 c h)
      · exact Or.inr h
      · exact ih c h

/-! ### the other kinds of lines -/

theorem global_lit : "global ".toList = ['g', 'l', 'o', 'b', 'a', 'l', ' '] := by decide

theorem lexLine_global (X : Str) :
    lexLine ("global ".toList ++ X) = .ok (some (.global (parseMetadata X))) := by
  have hline : lower ("global ".toList ++ X) = 'g' :: 'l' :: 'o' :: 'b' :: 'a' :: 'l' :: ' ' :: lower X := by
    rw [lower_append, global_lit]; rfl
  unfold lexLine
  dsimp only
  rw [hline]
  have h1 : ("#".toList.isPrefixOf ('g' :: 'l' :: 'o' :: 'b' :: 'a' :: 'l' :: ' ' :: lower X)) = false := by
    simp [List.isPrefixOf]
  have h2 : ("global".toList.isPrefixOf ('g' :: 'l' :: 'o' :: 'b' :: 'a' :: 'l' :: ' ' :: lower X)) = true := by
    simp [List.isPrefixOf]
  simp only [h1, h2, Bool.false_eq_true, if_false, if_true]
  rw [global_lit]
  rfl

theorem lexLine_global0 : lexLine "global".toList = .ok (some (.global (parseMetadata []))) := by
  decide

theorem lexLine_frame (f : FName) : lexLine f.name = .ok (some (.frame f)) := by
  cases f <;> decide

/-! ### stripping -/

theorem rstrip_snoc (Y : Str) (l : Char) (T : Str) (hl : isSpace l = false)
    (hT : ∀ c ∈ T, isSpace c = true) : rstrip (Y ++ l :: T) = Y ++ [l] := by
  unfold rstrip
  have e : (Y ++ l :: T).reverse = T.reverse ++ l :: Y.reverse := by simp
  rw [e, dropWhile_append_all isSpace _ _ (fun c hc => hT c (List.mem_reverse.mp hc)),
    List.dropWhile_cons_of_neg (by simp [hl])]
  simp

theorem lstrip_spaces (S rest : Str) (hS : ∀ c ∈ S, isSpace c = true) :
    lstrip (S ++ rest) = lstrip rest := dropWhile_append_all isSpace S rest hS

theorem lstrip_head (k : Char) (t : Str) (hk : isSpace k = false) : lstrip (k :: t) = k :: t := by
  unfold lstrip; rw [List.dropWhile_cons_of_neg (by simp [hk])]

theorem closeOf_ne_semi (d : Char) (h : isOpenDelim d) : closeOf d ≠ ';' := by
  rcases h with h | h | h <;> subst h <;> decide

theorem valOK_last (V init : Str) (l : Char) (hV : ValOK V) (e : V = init ++ [l]) : l ≠ ';' := by
  rcases hV with ⟨d0, inner, hd, hV, -⟩ | ⟨h, -⟩
  · have : V = (d0 :: inner) ++ [closeOf d0] := by rw [hV]
    rw [this] at e
    have := (List.append_inj' e rfl).2
    simp only [List.cons.injEq, and_true] at this
    rw [← this]; exact closeOf_ne_semi d0 hd
  · exact h l (by rw [e]; simp)

theorem spaced_trim : ∀ (A : List Atom), wfAtoms A → A ≠ [] →
    ∃ (A' : List Atom) (T i : Str) (l : Char), spaced A = spaced A' ++ T ∧ (∀ c ∈ T, isSpace c = true) ∧
      wfAtoms A' ∧ A'.map akv = A.map akv ∧ spaced A' = i ++ [l] ∧ isSpace l = false ∧ l ≠ ';' := by
  intro A
  induction A with
  | nil => intro _ h; exact absurd rfl h
  | cons a r ih =>
    intro hwf _
    obtain ⟨hK, hKa, hV, hVn, hW, hWl, init, l, hVe, hl⟩ := hwf.1
    by_cases hr : r = []
    · subst hr
      refine ⟨[⟨a.K, a.V, []⟩], a.W, a.K ++ '=' :: init, l, ?_, fun c hc => (hW c hc).1, ?_, ?_, ?_, hl,
        valOK_last a.V init l hV hVe⟩
      · simp [spaced, Atom.str]
      · exact ⟨⟨hK, hKa, hV, hVn, by simp, fun _ => rfl, init, l, hVe, hl⟩, trivial⟩
      · simp [akv]
      · simp [spaced, Atom.str, hVe]
    · obtain ⟨r', T, i, l', e1, hT, hwf', hm, e2, hl', hls⟩ := ih hwf.2 hr
      refine ⟨a :: r', T, a.str ++ i, l', ?_, hT, ?_, ?_, ?_, hl', hls⟩
      · simp [spaced, e1]
      · exact ⟨⟨hK, hKa, hV, hVn, hW, fun h => absurd (hWl h) hr, init, l, hVe, hl⟩, hwf'⟩
      · simp [hm]
      · simp [spaced, e2]

/-! ### `_split_semicolon` on the rendered lines -/

theorem rstripC_id (L : Str) (h : ∀ c, L.getLast? = some c → c ≠ ';') : rstripC ';' L = L := by
  unfold rstripC
  rcases List.eq_nil_or_concat' L with rfl | ⟨Y, l, rfl⟩
  · rfl
  · have hl : l ≠ ';' := h l (by simp)
    rw [List.reverse_append, List.reverse_singleton, List.singleton_append,
      List.dropWhile_cons_of_neg (by simp [hl])]
    simp

theorem spaced_last_ne_semi (Pre : Str) (A : List Atom) (hwf : wfAtoms A) (hPre : ∀ c ∈ Pre, c ≠ ';') :
    ∀ c, (Pre ++ spaced A).getLast? = some c → c ≠ ';' := by
  intro c hc
  by_cases hA : A = []
  · subst hA
    simp only [spaced, List.append_nil] at hc
    exact hPre c (List.mem_of_getLast? hc)
  · obtain ⟨A', T, i, l, e1, hT, -, -, e2, hl, hls⟩ := spaced_trim A hwf hA
    rw [e1, e2] at hc
    rcases List.eq_nil_or_concat' T with rfl | ⟨T', t, rfl⟩
    · simp at hc; rw [← hc]; exact hls
    · have e : Pre ++ (i ++ [l] ++ (T' ++ [t])) = (Pre ++ i ++ [l] ++ T') ++ [t] := by simp
      have key : (Pre ++ (i ++ [l] ++ (T' ++ [t]))).getLast? = some t := by
        rw [e, List.getLast?_append_of_ne_nil _ (by simp)]; rfl
      rw [key] at hc
      have hct : t = c := by simpa using hc
      have := hT t (by simp)
      rw [← hct]; intro h; rw [h] at this; revert this; decide

/-- all `;` of a line whose only `;` are inside metadata values are protected: one piece. -/
theorem splitSemicolon_one (Pre : Str) (A : List Atom) (hwf : wfAtoms A) (hPre : ∀ c ∈ Pre, c ≠ ';')
    (hPl : ∀ a, Pre.getLast? = some a → isAlpha a = false) :
    splitSemicolon (Pre ++ spaced A) = [Pre ++ spaced A] := by
  rw [splitSemicolon_eq, go_all_protected (protAt (Pre ++ spaced A)) (Pre ++ spaced A) 0 []]
  · simp only [List.reverse_nil, List.nil_append, List.map_cons, List.map_nil]
    rw [rstripC_id _ (spaced_last_ne_semi Pre A hwf hPre)]
  · intro X Y h
    rcases split_char Pre (spaced A) X Y ';' h with ⟨Y', h1, -⟩ | ⟨X', h1, h2⟩
    · exact absurd rfl (hPre ';' (by rw [h1]; simp))
    · rw [h1, Nat.zero_add, List.length_append]
      exact spaced_protected A hwf Pre hPl X' Y h2

theorem dropWhile_stop_head (p : Char → Bool) (c : Char) (R : Str) (hc : p c = false) : ∀ (P : Str),
    ∃ h t, (P ++ c :: R).dropWhile p = h :: t ∧ (h ∈ P ∨ h = c) ∧ p h = false := by
  intro P
  induction P with
  | nil => exact ⟨c, R, by simp [hc], Or.inr rfl, hc⟩
  | cons d ds ih =>
    by_cases hd : p d = true
    · obtain ⟨h, t, e, hm, hp⟩ := ih
      refine ⟨h, t, ?_, ?_, hp⟩
      · rw [List.cons_append, List.dropWhile_cons_of_pos hd]; exact e
      · rcases hm with hm | hm
        · left; simp [hm]
        · right; exact hm
    · refine ⟨d, ds ++ c :: R, ?_, Or.inl (by simp), by simpa using hd⟩
      rw [List.cons_append, List.dropWhile_cons_of_neg hd]

theorem matchTextDelim_none_stop (P R : Str) (hP : ∀ x ∈ P, x ≠ '=' ∧ isSpace x = false) :
    matchTextDelim (P ++ ';' :: R) = none := by
  unfold matchTextDelim
  split_ifs with h0
  · obtain ⟨h, t, e, hm, hp⟩ := dropWhile_stop_head isAlpha ';' R (by decide) P
    have hh : h ≠ '=' ∧ isSpace h = false := by
      rcases hm with hm | hm
      · exact hP h hm
      · subst hm; exact ⟨by decide, by decide⟩
    simp only [e]
    rw [List.dropWhile_cons_of_neg (by simp [hh.2])]
    split
    · rename_i heq; simp at heq; exact absurd heq.1 hh.1
    · rfl
  · rfl

theorem fname_chars (f : FName) : ∀ x ∈ f.name, x ≠ '=' ∧ isSpace x = false ∧ x ≠ ';' ∧ x ≠ '\n' := by
  cases f <;> decide

/-- a line `frame; rest` whose other `;` are inside metadata values: two pieces. -/
theorem splitSemicolon_two (f : FName) (Pre : Str) (A : List Atom) (hwf : wfAtoms A)
    (hPre : ∀ c ∈ Pre, c ≠ ';') (hPl : ∀ a, (' ' :: Pre).getLast? = some a → isAlpha a = false) :
    splitSemicolon (f.name ++ ';' :: (' ' :: Pre ++ spaced A)) = [f.name, ' ' :: Pre ++ spaced A] := by
  set L := f.name ++ ';' :: (' ' :: Pre ++ spaced A) with hL
  rw [splitSemicolon_eq, hL, go_first_unprotected (protAt L) (' ' :: Pre ++ spaced A) f.name 0 []]
  · simp only [List.reverse_nil, List.nil_append, List.map_cons, List.map_nil]
    have e1 : rstripC ';' (f.name ++ [';']) = f.name := by cases f <;> decide
    have e2 : rstripC ';' (' ' :: Pre ++ spaced A) = ' ' :: Pre ++ spaced A := by
      have := spaced_last_ne_semi (' ' :: Pre) A hwf (by
        intro c hc; rcases List.mem_cons.mp hc with h | h
        · rw [h]; decide
        · exact hPre c h)
      exact rstripC_id _ this
    rw [e1, e2]
  · exact fun x hx => (fname_chars f x hx).2.2.1
  · apply protAt_false
    intro x hx
    obtain ⟨n, len, d, hn, hxe, hmt⟩ := textDelims_mem _ 0 L x hx
    rw [hxe]
    simp only [Nat.zero_add]
    by_contra hlt
    have hle : n ≤ f.name.length := by omega
    have : L.drop n = f.name.drop n ++ ';' :: (' ' :: Pre ++ spaced A) := by
      rw [hL, List.drop_append_of_le_length hle]
    rw [this, matchTextDelim_none_stop _ _ (fun y hy => by
      have := fname_chars f y (List.mem_of_mem_drop hy); exact ⟨this.1, this.2.1⟩)] at hmt
    exact absurd hmt (by simp)
  · intro X Y h
    have h' : (' ' :: Pre) ++ spaced A = X ++ ';' :: Y := by simpa using h
    rcases split_char (' ' :: Pre) (spaced A) X Y ';' h' with ⟨Y', h1, -⟩ | ⟨X', h1, h2⟩
    · have : ';' ∈ ' ' :: Pre := by rw [h1]; simp
      rcases List.mem_cons.mp this with h | h
      · exact absurd h (by decide)
      · exact absurd rfl (hPre ';' h)
    · have hLe : L = (f.name ++ ';' :: ' ' :: Pre) ++ spaced A := by rw [hL]; simp
      have hgl : ∀ a, (f.name ++ ';' :: ' ' :: Pre).getLast? = some a → isAlpha a = false := by
        intro a ha
        apply hPl a
        have : f.name ++ ';' :: ' ' :: Pre = (f.name ++ [';']) ++ (' ' :: Pre) := by simp
        rw [this, List.getLast?_append_of_ne_nil _ (by simp)] at ha
        exact ha
      have := spaced_protected A hwf (f.name ++ ';' :: ' ' :: Pre) hgl X' Y h2
      rw [← hLe] at this
      rw [h1]
      have e : 0 + f.name.length + 1 + ((' ' :: Pre) ++ X').length = (f.name ++ ';' :: ' ' :: Pre).length + X'.length := by
        simp; omega
      rw [e]; exact this

/-! ### the stripped lines -/

def bodyOf (S PS M : Str) : Str :=
  S ++ '(' :: (PS ++ ')' :: (if M = [] then [] else ' ' :: '#' :: ' ' :: M))

theorem strip_nil : strip [] = [] := by decide

theorem lead_not_alpha (lead : Str) (h : ∀ c ∈ lead, c = ' ') : ∀ c ∈ lead, isAlpha c = false := by
  intro c hc; rw [h c hc]; decide

theorem lead_space (lead : Str) (h : ∀ c ∈ lead, c = ' ') : ∀ c ∈ lead, isSpace c = true := by
  intro c hc; rw [h c hc]; decide

theorem parseMetadata_nil_of (m : Dict) (h : dictWF m = true) (A : List Atom) (hA : A = [])
    (hm : A.map akv = kvOf m) : parseMetadata [] = rawDict m := by
  subst hA
  exact parseMetadata_spaced m h [] [] (by simp) trivial hm

theorem region_body_strip (m : Dict) (hm : dictWF m = true) (S PS : Str) (w0 : Char) (W' : Str)
    (hS : S = w0 :: W') (hw0 : isSpace w0 = false) :
    ∃ TL ms, strip (bodyOf S PS (metaStr m)) = S ++ '(' :: (PS ++ ')' :: TL) ∧
      ((TL = [] ∧ ms = []) ∨ TL = ' ' :: '#' :: ms) ∧ parseMetadata (strip ms) = rawDict m := by
  obtain ⟨lead, A, e, hl, hwf, hkv⟩ := metaStr_spaced m hm
  have hls : ∀ (R : Str), lstrip (S ++ R) = S ++ R := by
    intro R; rw [hS, List.cons_append]; exact lstrip_head _ _ hw0
  have hstrip : ∀ (R : Str), strip (S ++ R) = rstrip (S ++ R) := by
    intro R; unfold strip; rw [hls]
  unfold bodyOf
  rw [hstrip]
  by_cases hM : metaStr m = []
  · rw [if_pos hM]
    refine ⟨[], [], ?_, Or.inl ⟨rfl, rfl⟩, ?_⟩
    · have : S ++ '(' :: (PS ++ [')']) = (S ++ '(' :: PS) ++ ')' :: [] := by simp
      rw [this, rstrip_snoc _ ')' [] (by decide) (by simp)]
    · rw [strip_nil]
      have := parseMetadata_spaced m hm lead A (lead_not_alpha lead hl) hwf hkv
      rw [← e, hM] at this; exact this
  · rw [if_neg hM]
    by_cases hA : A = []
    · refine ⟨[' ', '#'], [], ?_, Or.inr rfl, ?_⟩
      · subst hA
        simp only [spaced, List.append_nil] at e
        rw [e]
        have : S ++ '(' :: (PS ++ ')' :: ' ' :: '#' :: ' ' :: lead) = (S ++ '(' :: (PS ++ [')', ' '])) ++ '#' :: (' ' :: lead) := by
          simp
        rw [this, rstrip_snoc _ '#' _ (by decide) (by
          intro c hc; rcases List.mem_cons.mp hc with h | h
          · rw [h]; decide
          · exact lead_space lead hl c h)]
        simp
      · rw [strip_nil]; exact parseMetadata_nil_of m hm A hA hkv
    · obtain ⟨A', T, i, l, e1, hT, hwf', hm', e2, hl', -⟩ := spaced_trim A hwf hA
      refine ⟨' ' :: '#' :: (' ' :: lead ++ spaced A'), ' ' :: lead ++ spaced A', ?_, Or.inr rfl, ?_⟩
      · rw [e, e1, e2]
        have : S ++ '(' :: (PS ++ ')' :: ' ' :: '#' :: ' ' :: (lead ++ (i ++ [l] ++ T))) =
            (S ++ '(' :: (PS ++ ')' :: ' ' :: '#' :: ' ' :: (lead ++ i))) ++ l :: T := by simp
        rw [this, rstrip_snoc _ l T hl' hT]
        simp
      · have hne : A' ≠ [] := by
          intro h; subst h; simp [spaced] at e2
        obtain ⟨a, r, rfl⟩ := List.exists_cons_of_ne_nil hne
        obtain ⟨k, t, ek, hk⟩ := spaced_head_alpha a r hwf'.1
        have hst : strip (' ' :: lead ++ spaced (a :: r)) = spaced (a :: r) := by
          unfold strip
          have : (' ' :: lead ++ spaced (a :: r)) = (' ' :: lead) ++ spaced (a :: r) := by simp
          rw [this, lstrip_spaces _ _ (by
            intro c hc; rcases List.mem_cons.mp hc with h | h
            · rw [h]; decide
            · exact lead_space lead hl c h)]
          rw [ek, lstrip_head k t (alpha_not_space k hk), ← ek, e2, rstrip_snoc i l [] hl' (by simp)]
        rw [hst]
        have := parseMetadata_spaced m hm [] (a :: r) (by simp) hwf' (by rw [hm', hkv])
        simpa using this

theorem global_line_lex (g : Dict) (hg : dictWF g = true) :
    strip ("global ".toList ++ metaStr g) ≠ [] ∧
    lexLine (strip ("global ".toList ++ metaStr g)) = .ok (some (.global (rawDict g))) := by
  obtain ⟨lead, A, e, hl, hwf, hkv⟩ := metaStr_spaced g hg
  have hls : ∀ (R : Str), lstrip ("global ".toList ++ R) = "global ".toList ++ R := by
    intro R; rw [global_lit]; exact lstrip_head _ _ (by decide)
  unfold strip
  rw [hls, e]
  by_cases hA : A = []
  · have h0 := parseMetadata_nil_of g hg A hA hkv
    subst hA
    simp only [spaced, List.append_nil]
    have : "global ".toList ++ lead = "globa".toList ++ 'l' :: (' ' :: lead) := by
      rw [global_lit]; rfl
    rw [this, rstrip_snoc _ 'l' _ (by decide) (by
      intro c hc; rcases List.mem_cons.mp hc with h | h
      · rw [h]; decide
      · exact lead_space lead hl c h)]
    have e6 : "globa".toList ++ ['l'] = "global".toList := by decide
    rw [e6, lexLine_global0, h0]
    exact ⟨by decide, rfl⟩
  · obtain ⟨A', T, i, l, e1, hT, hwf', hm', e2, hl', -⟩ := spaced_trim A hwf hA
    rw [e1, e2]
    have : "global ".toList ++ (lead ++ (i ++ [l] ++ T)) = ("global ".toList ++ (lead ++ i)) ++ l :: T := by simp
    rw [this, rstrip_snoc _ l T hl' hT]
    have e3 : "global ".toList ++ (lead ++ i) ++ [l] = "global ".toList ++ (lead ++ spaced A') := by
      rw [e2]; simp
    rw [e3, lexLine_global]
    rw [parseMetadata_spaced g hg lead A' (lead_not_alpha lead hl) hwf' (by rw [hm', hkv])]
    exact ⟨by rw [global_lit]; simp, rfl⟩

#print axioms parseMetadata_spaced
#print axioms lexLine_shape_core
#print axioms params_read
#print axioms splitSemicolon_one
#print axioms splitSemicolon_two
#print axioms region_body_strip
#print axioms global_line_lex

end RegionsVerif.Props.C09
