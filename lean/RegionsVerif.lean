-- Root of the `RegionsVerif` library: every module that must be built.
import RegionsVerif.Props.C19
import RegionsVerif.Props.C05
