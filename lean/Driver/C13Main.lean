import Driver.Loop
import Driver.C13Ops
def main : IO Unit := Driver.run Driver.c13Ops
