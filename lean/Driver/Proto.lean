/-
JSON-lines protocol helpers for the executable model driver.
Numbers: integers as JSON numbers or decimal strings; exact rationals as strings "p/q".
-/
import Lean.Data.Json
import Mathlib.Data.Rat.Defs

namespace Driver
open Lean

abbrev Handler := Json → Except String Json

def parseInt (s : String) : Except String Int :=
  match s.toInt? with
  | some i => .ok i
  | none => .error s!"bad int {s}"

def jInt (j : Json) : Except String Int :=
  match j with
  | .num n => if n.exponent == 0 then .ok n.mantissa else .error s!"non-integer number {j}"
  | .str s => parseInt s
  | _ => .error s!"expected int, got {j}"

def jRat (j : Json) : Except String ℚ :=
  match j with
  | .num n => if n.exponent == 0 then .ok (n.mantissa : ℚ) else .error s!"non-integer number {j}"
  | .str s =>
    match s.splitOn "/" with
    | [p] => do let p ← parseInt p; pure (p : ℚ)
    | [p, q] => do
      let p ← parseInt p
      let q ← parseInt q
      if q == 0 then .error "zero denominator" else pure ((p : ℚ) / (q : ℚ))
    | _ => .error s!"bad rational {s}"
  | _ => .error s!"expected rational, got {j}"

def jBool (j : Json) : Except String Bool :=
  match j with
  | .bool b => .ok b
  | _ => .error s!"expected bool, got {j}"

def jStr (j : Json) : Except String String :=
  match j with
  | .str s => .ok s
  | _ => .error s!"expected string, got {j}"

def jArr (j : Json) : Except String (List Json) :=
  match j with
  | .arr a => .ok a.toList
  | _ => .error s!"expected array, got {j}"

def field (j : Json) (k : String) : Except String Json :=
  match j.getObjVal? k with
  | .ok v => .ok v
  | .error _ => .error s!"missing field {k}"

def fieldD (j : Json) (k : String) (d : Json) : Json :=
  match j.getObjVal? k with
  | .ok v => v
  | .error _ => d

def fInt (j : Json) (k : String) : Except String Int := field j k >>= jInt
def fRat (j : Json) (k : String) : Except String ℚ := field j k >>= jRat
def fBool (j : Json) (k : String) : Except String Bool := field j k >>= jBool
def fStr (j : Json) (k : String) : Except String String := field j k >>= jStr
def fArr (j : Json) (k : String) : Except String (List Json) := field j k >>= jArr
def fInts (j : Json) (k : String) : Except String (List Int) := do (← fArr j k).mapM jInt
def fRats (j : Json) (k : String) : Except String (List ℚ) := do (← fArr j k).mapM jRat

def ofInt (i : Int) : Json := .str (toString i)
def ofRat (q : ℚ) : Json := .str (if q.den == 1 then toString q.num else s!"{q.num}/{q.den}")
def ofInts (l : List Int) : Json := .arr (l.map ofInt).toArray
def ofRats (l : List ℚ) : Json := .arr (l.map ofRat).toArray
def ofBools (l : List Bool) : Json := .arr (l.map Json.bool).toArray
def ofStrs (l : List String) : Json := .arr (l.map Json.str).toArray
def jNone : Json := .null

end Driver
