/-
JSON ops for C07: the pixel image of a sky region under a WCS that is, around the centre, the
similarity `toPix (c ⊕ (θ, ρ)) = p0 + (ρ / s)·rot(θ) n` (standard parity), evaluated exactly.

  {"op": "c07.image", "region": <sky region JSON of C06Ops, one of the six sized classes>,
   "p0": [x, y], "s": s, "n": [c, s], "offs": [[θc, θs, ρ], …]}
→ {"pix": <pixel region JSON>, "images": [[x, y], …]   -- similarity images of c ⊕ (θ, ρ)
   "residuals": [[…], …]}                               -- boundary residuals of each image w.r.t. every
                                                           component shape of the pixel region
Residuals (zero = on the boundary): circle `sep² − r²`; ellipse `(2A/w)² + (2B/h)² − 1`;
rectangle `[|A| − w/2, |B| − h/2]` (frame coordinates `A`, `B` of `contains`).
-/
import Driver.C06Ops

namespace Driver
open Lean RegionsVerif.Impl

/-- the similarity of `Props.C07.Similarity`, as a function of the offset. -/
def simImage (p0 : Pt ℚ) (s : ℚ) (n θ : Dir ℚ) (ρ : ℚ) : Pt ℚ :=
  ⟨p0.x + ρ / s * (n.add θ).c, p0.y + ρ / s * (n.add θ).s⟩

def frameAB (c : Pt ℚ) (d : Dir ℚ) (p : Pt ℚ) : ℚ × ℚ :=
  (d.c * (p.x - c.x) + d.s * (p.y - c.y), d.s * (p.x - c.x) - d.c * (p.y - c.y))

def circleRes (c : Pt ℚ) (r : ℚ) (p : Pt ℚ) : List ℚ := [sep2 c p - r ^ 2]

def ellipseRes (c : Pt ℚ) (w h : ℚ) (d : Dir ℚ) (p : Pt ℚ) : List ℚ :=
  let (a, b) := frameAB c d p
  [(2 * a / w) ^ 2 + (2 * b / h) ^ 2 - 1]

def rectRes (c : Pt ℚ) (w h : ℚ) (d : Dir ℚ) (p : Pt ℚ) : List ℚ :=
  let (a, b) := frameAB c d p
  [|a| - w / 2, |b| - h / 2]

/-- residuals w.r.t. every component shape (annulus: inner then outer). -/
def residuals (r : PixR ℚ) (p : Pt ℚ) : List (List ℚ) :=
  match r with
  | .circle c rad _ _ => [circleRes c rad p]
  | .ellipse c w h d _ _ => [ellipseRes c w h d p]
  | .rect c w h d _ _ => [rectRes c w h d p]
  | .circleAnnulus c r1 r2 _ _ => [circleRes c r1 p, circleRes c r2 p]
  | .ellipseAnnulus c w1 w2 h1 h2 d _ _ => [ellipseRes c w1 h1 d p, ellipseRes c w2 h2 d p]
  | .rectAnnulus c w1 w2 h1 h2 d _ _ => [rectRes c w1 h1 d p, rectRes c w2 h2 d p]
  | _ => []

def c07Ops : List (String × Handler) := [
  ("c07.image", fun j => do
    let r ← getSkyR (← field j "region")
    let p0 ← fPt j "p0"
    let s ← fRat j "s"
    let n ← fDir j "n"
    if s == 0 then .error "zero scale"
    let offs ← (← fArr j "offs").mapM fun e => do
      match ← (← jArr e).mapM jRat with
      | [tc, ts, rho] => pure ((⟨tc, ts⟩ : Dir ℚ), rho)
      | _ => .error "offset needs 3 numbers"
    -- the WCS parameter: image of the centre and what the helper returns there
    let w : Wcs SkyQ ℚ := ⟨fun _ => p0, fun _ => ⟨0, 0⟩, fun _ => ⟨s, n, 0⟩⟩
    let pix := r.toPixel w
    let imgs := offs.map fun (θ, ρ) => simImage p0 s n θ ρ
    pure (Json.mkObj [("pix", ofPixR pix),
                      ("images", Json.arr (imgs.map ofPt).toArray),
                      ("residuals", Json.arr (imgs.map fun p =>
                          Json.arr ((residuals pix p).map ofRats).toArray).toArray)]))
]

end Driver
