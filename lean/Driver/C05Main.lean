import Driver.Loop
import Driver.BBoxOps
import Driver.C05Ops
def main : IO Unit := Driver.run (Driver.bboxOps ++ Driver.c05Ops)
