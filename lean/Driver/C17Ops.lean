/-
JSON ops that run the C17 model (`RegionsVerif/Impl/Validate.lean`).

  c17.tables    → the tables the model is parameterised by (compared with the live package)
  c17.validate  {descr, val}                      → "ok" | exception class
  c17.region    {cls, args, sum?, bcast?, ops}    → constructor outcome + per-step outcome and snapshot
  c17.meta      {vis, seq, kw, fromkeys?, ops}    → same for a RegionMeta / RegionVisual object
  c17.list      {arg, ops}                        → same for a Regions object
-/
import Driver.Proto
import RegionsVerif.Impl.Validate

namespace Driver
open Lean RegionsVerif.Impl.Validate

namespace C17

def kindNames : List (String × Kind) :=
  [("pyNone", .pyNone), ("pyBool", .pyBool), ("pyInt", .pyInt), ("pyFloat", .pyFloat),
   ("pyStr", .pyStr), ("pyBytes", .pyBytes), ("pyList", .pyList), ("pyTuple", .pyTuple),
   ("pyDict", .pyDict), ("npScalar", .npScalar), ("ndarray", .ndarray), ("quantity", .quantity),
   ("pixCoord", .pixCoord), ("skyCoord", .skyCoord), ("pixRegion", .pixRegion),
   ("skyRegion", .skyRegion), ("regionMeta", .regionMeta), ("regionVisual", .regionVisual),
   ("callable", .callable), ("other", .other)]

def kindStr (k : Kind) : String :=
  match kindNames.find? (fun p => p.2 == k) with
  | some p => p.1
  | none => "other"

def physNames : List (String × Phys) :=
  [("none", .none), ("angle", .angle), ("length", .length), ("dimensionless", .dimensionless),
   ("other", .other)]

def descrNames : List (String × Descr) :=
  [("ScalarPixCoord", .scalarPix), ("OneDPixCoord", .oneDPix), ("PositiveScalar", .posScalar),
   ("ScalarSkyCoord", .scalarSky), ("OneDSkyCoord", .oneDSky), ("ScalarAngle", .scalarAngle),
   ("PositiveScalarAngle", .posScalarAngle), ("RegionType:PixelRegion", .regionType false),
   ("RegionType:SkyRegion", .regionType true), ("RegionMetaDescr", .rmeta),
   ("RegionVisualDescr", .rvisual), ("TextString", .text)]

def descrStr (d : Descr) : String :=
  match descrNames.find? (fun p => p.2 == d) with
  | some p => p.1
  | none => "?"

def clsNames : List (String × Cls) :=
  [("CirclePixelRegion", .circleP), ("CircleSkyRegion", .circleS),
   ("EllipsePixelRegion", .ellipseP), ("EllipseSkyRegion", .ellipseS),
   ("RectanglePixelRegion", .rectP), ("RectangleSkyRegion", .rectS),
   ("PolygonPixelRegion", .polyP), ("PolygonSkyRegion", .polyS),
   ("RegularPolygonPixelRegion", .regPolyP),
   ("CircleAnnulusPixelRegion", .cAnnP), ("CircleAnnulusSkyRegion", .cAnnS),
   ("EllipseAnnulusPixelRegion", .eAnnP), ("EllipseAnnulusSkyRegion", .eAnnS),
   ("RectangleAnnulusPixelRegion", .rAnnP), ("RectangleAnnulusSkyRegion", .rAnnS),
   ("LinePixelRegion", .lineP), ("LineSkyRegion", .lineS),
   ("PointPixelRegion", .pointP), ("PointSkyRegion", .pointS),
   ("TextPixelRegion", .textP), ("TextSkyRegion", .textS),
   ("CompoundPixelRegion", .compP), ("CompoundSkyRegion", .compS)]

def excStr : Exc → String
  | .valueError => "ValueError"
  | .typeError => "TypeError"
  | .keyError => "KeyError"
  | .attributeError => "AttributeError"
  | .indexError => "IndexError"

def resStr : Result → String
  | .ok => "ok"
  | .err e => excStr e

def lookupName {α : Type} (tbl : List (String × α)) (what s : String) : Except String α :=
  match tbl.lookup s with
  | some a => .ok a
  | none => .error s!"unknown {what} {s}"

def jNum (j : Json) : Except String Num :=
  match j with
  | .str "nan" => .ok .nan
  | .str "inf" => .ok .pinf
  | .str "-inf" => .ok .ninf
  | _ => do pure (.fin (← jRat j))

def jItems (j : Json) : Except String Items := do
  (← jArr j).mapM fun p => do
    match ← jArr p with
    | [k, v] => pure (← jStr k, ← jStr v)
    | _ => .error "item needs [key, value]"

def jNat (j : Json) : Except String Nat := do
  let i ← jInt j
  if i < 0 then .error "negative" else pure i.toNat

def jVal (j : Json) : Except String Val := do
  let kind ← lookupName kindNames "kind" (← fStr j "k")
  let scalar ← jBool (fieldD j "s" (.bool false))
  let ndim ← jNat (fieldD j "nd" (.num 0))
  let size ← jNat (fieldD j "sz" (.num 1))
  let num ← jNum (fieldD j "n" (.num 0))
  let phys ← lookupName physNames "phys" (← jStr (fieldD j "ph" (.str "none")))
  let items ← jItems (fieldD j "it" (.arr #[]))
  let tag ← jStr (fieldD j "t" (.str ""))
  pure { kind, scalar, ndim, size, num, phys, items, tag }

def itemsJson (l : Items) : Json :=
  .arr (l.map fun kv => Json.arr #[.str kv.1, .str kv.2]).toArray

/-- canonical observable form of a stored value. -/
def snapVal (v : Val) : Json :=
  Json.mkObj [("k", .str (kindStr v.kind)), ("t", .str v.tag), ("it", itemsJson v.items)]

def snapFields (c : Cls) : List String :=
  (attrs c).filterMap fun fa => match fa.2 with
    | .readonly => none
    | _ => some fa.1

def snapRegion (o : RObj) : Json :=
  .arr ((snapFields o.cls).map fun f =>
    Json.arr #[.str f, match o.get f with | some v => snapVal v | none => .null]).toArray

def snapMeta (m : MetaObj) : Json :=
  Json.mkObj [("vis", .bool m.vis), ("it", itemsJson m.items)]

def snapList (l : RList) : Json :=
  Json.mkObj [("tuple", .bool false),
    ("it", .arr (l.items.map fun x => Json.arr #[.bool x.isRegion, .str x.tag]).toArray)]

def snapObj : Obj → Json
  | .region o => snapRegion o
  | .metaObj m => snapMeta m
  | .rlist l => snapList l

def jMetaArg (j : Json) : Except String MetaArg :=
  match j with
  | .null => .ok .absent
  | _ => do
    match ← fStr j "t" with
    | "mapping" => pure (.mapping (← jItems (← field j "l")))
    | "pairs" => pure (.pairs (← jItems (← field j "l")))
    | "bad" => pure .notIterable
    | t => .error s!"unknown meta arg {t}"

def jMetaOp (j : Json) : Except String MetaOp := do
  match ← fStr j "o" with
  | "setitem" => pure (.setitem (← fStr j "k") (← fStr j "v"))
  | "update" =>
      pure (.update (← jNat (← field j "nargs")) (← jMetaArg (fieldD j "arg" .null))
                    (← jItems (fieldD j "kw" (.arr #[]))))
  | "setdefault" => pure (.setdefault (← fStr j "k") (← fStr j "v"))
  | "ior" => pure (.ior (← jMetaArg (fieldD j "arg" .null)))
  | "pop" => pure (.pop (← fStr j "k") (← fBool j "default"))
  | "popitem" => pure .popitem
  | "clear" => pure .clear
  | "delitem" => pure (.delitem (← fStr j "k"))
  | o => .error s!"unknown meta op {o}"

def jMember (j : Json) : Except String Member := do
  match ← jArr j with
  | [r, t] => pure ⟨← jBool r, ← jStr t⟩
  | _ => .error "member needs [isRegion, tag]"

def jMembers (j : Json) : Except String (List Member) := do (← jArr j).mapM jMember

def jListOp (j : Json) : Except String ListOp := do
  match ← fStr j "o" with
  | "append" => pure (.append (← jMember (← field j "x")))
  | "extend_list" => pure (.extendList (← jMembers (← field j "xs")))
  | "extend_regions" => pure (.extendRegions (← jMembers (← field j "xs")))
  | "extend_bad" => pure .extendBad
  | "insert" => pure (.insert (← fInt j "i") (← jMember (← field j "x")))
  | "setitem" => pure (.setitem (← fInt j "i") (← jMember (← field j "x")))
  | "pop" => pure (.pop (← fInt j "i"))
  | "reverse" => pure .reverse
  | "src_append" => pure (.srcAppend (← jMember (← field j "x")))
  | o => .error s!"unknown list op {o}"

def jOp (j : Json) : Except String Op := do
  match ← fStr j "o" with
  | "assign" => pure (.assign (← fStr j "f") (← jVal (← field j "v")))
  | "delete" => pure (.delete (← fStr j "f"))
  | "meta" =>
      let f ← match fieldD j "f" .null with
        | .null => pure none
        | jf => do pure (some (← jStr jf))
      pure (.metaOp f (← jMetaOp (← field j "m")))
  | "list" => pure (.listOp (← jListOp (← field j "l")))
  | o => .error s!"unknown op {o}"

/-- run the ops one by one, recording outcome and snapshot after each. -/
def trace : Obj → List Op → List Json
  | _, [] => []
  | o, op :: ops =>
      let r := step o op
      Json.mkObj [("r", .str (resStr r.2)), ("snap", snapObj r.1)] :: trace r.1 ops

def reply (o : Obj) (ops : List Op) : Json :=
  Json.mkObj [("ctor", .str "ok"), ("snap0", snapObj o), ("steps", .arr (trace o ops).toArray)]

def ctorFailed (e : Exc) : Json := Json.mkObj [("ctor", .str (excStr e))]

def attrJson : Attr → Json
  | .descr d => .str (descrStr d)
  | .plain => .str "plain"
  | .readonly => .str "readonly"

end C17

open C17 in
def c17Ops : List (String × Handler) := [
  ("c17.tables", fun _ => do
    pure (Json.mkObj [
      ("meta_keys", ofStrs metaKeys), ("visual_keys", ofStrs visualKeys),
      ("visual_key_map", itemsJson visualKeyMap),
      ("dict_mutators", .arr (dictMutators.map fun p => Json.arr #[.str p.1, .bool p.2]).toArray),
      ("meta_overrides", ofStrs metaOverrides),
      ("classes", Json.mkObj (clsNames.map fun p =>
        (p.1, Json.arr ((attrs p.2).map fun fa => Json.arr #[.str fa.1, attrJson fa.2]).toArray))),
      ("order_pairs", Json.mkObj (clsNames.map fun p =>
        (p.1, Json.arr ((orderPairs p.2).map fun q => Json.arr #[.str q.1, .str q.2]).toArray)))])),
  ("c17.validate", fun j => do
    let d ← lookupName descrNames "descriptor" (← fStr j "descr")
    let v ← jVal (← field j "val")
    let r := match validate d v with
      | .ok () => "ok"
      | .error e => excStr e
    pure (Json.mkObj [("r", .str r), ("dom", .bool (inDomain d v))])),
  ("c17.region", fun j => do
    let c ← lookupName clsNames "class" (← fStr j "cls")
    let argsJ ← field j "args"
    let args ← match argsJ with
      | .obj kvs => kvs.toList.mapM fun (k, v) => do pure (k, ← jVal v)
      | _ => .error "args must be an object"
    let sum ← match fieldD j "sum" .null with
      | .null => pure vNone
      | js => jVal js
    let bcastOk ← jBool (fieldD j "bcast" (.bool true))
    let foreign : Except Exc Val ← match fieldD j "foreign" .null with
      | .null => pure (.error .typeError)
      | jf => match jf.getObjVal? "val" with
        | .ok jv => do pure (.ok (← jVal jv))
        | .error _ => do
          let e ← lookupName [("ValueError", Exc.valueError), ("TypeError", .typeError),
            ("KeyError", .keyError), ("AttributeError", .attributeError), ("IndexError", .indexError)]
            "exception" (← fStr jf "err")
          pure (.error e)
    let ops ← (← fArr j "ops").mapM jOp
    match construct c { args, sum, bcastOk, foreign } with
    | .error e => pure (ctorFailed e)
    | .ok o => pure (reply (.region o) ops)),
  ("c17.meta", fun j => do
    let vis ← fBool j "vis"
    let ops ← (← fArr j "ops").mapM jOp
    let made ← match fieldD j "fromkeys" .null with
      | .null => do
          pure (MetaObj.ctor vis (← jMetaArg (fieldD j "seq" .null)) (← jItems (fieldD j "kw" (.arr #[]))))
      | jk => do pure (MetaObj.fromkeys vis (← (← jArr jk).mapM jStr))
    match made with
    | .error e => pure (ctorFailed e)
    | .ok m => pure (reply (.metaObj m) ops)),
  ("c17.mask", fun j => do
    match ← fInts j "box" with
    | [ny, nx] =>
      let r := match maskCtor (← fInts j "shape") ny nx with
        | .ok () => "ok"
        | .error e => excStr e
      pure (Json.mkObj [("r", .str r)])
    | _ => .error "box needs [ny, nx]"),
  ("c17.list", fun j => do
    let arg ← match fieldD j "arg" .null with
      | .null => pure none
      | ja => do pure (some (← jMembers (← field ja "xs"), ← fBool ja "tuple"))
    let ops ← (← fArr j "ops").mapM jOp
    match RList.ctor arg with
    | .error e => pure (ctorFailed e)
    | .ok l => pure (reply (.rlist l) ops))
]

end Driver
