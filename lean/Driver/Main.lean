/-
Executable model driver: reads one JSON request per line on stdin
(`{"op": "...", ...}`), writes one JSON reply per line on stdout.
Run with `lake env lean --run Driver/Main.lean`.
-/
import Driver.BBoxOps
import Driver.C05Ops

open Lean Driver

def allOps : List (String × Handler) := bboxOps ++ c05Ops

def handleLine (line : String) : String :=
  match Json.parse line with
  | .error e => (Json.mkObj [("fail", s!"parse: {e}")]).compress
  | .ok j =>
    match fStr j "op" with
    | .error e => (Json.mkObj [("fail", e)]).compress
    | .ok op =>
      match allOps.lookup op with
      | none => (Json.mkObj [("fail", s!"unknown op {op}")]).compress
      | some h =>
        match h j with
        | .ok r => r.compress
        | .error e => (Json.mkObj [("fail", e)]).compress

partial def loop (hin : IO.FS.Stream) (hout : IO.FS.Stream) : IO Unit := do
  let line ← hin.getLine
  if line.isEmpty then return ()
  let l := line.trimAscii.toString
  if l.isEmpty then loop hin hout
  else
    hout.putStrLn (handleLine l)
    loop hin hout

def main : IO Unit := do
  let hin ← IO.getStdin
  let hout ← IO.getStdout
  loop hin hout
  hout.flush
