import Driver.Proto
import RegionsVerif.Impl.BBox
import Mathlib.Data.Rat.Floor

namespace Driver
open Lean RegionsVerif.Impl

def errStr : BBoxErr → String
  | .typeError => "TypeError"
  | .valueError => "ValueError"

def boxJson (b : BBox) : Json := ofInts [b.ixmin, b.ixmax, b.iymin, b.iymax]

def exBox : Except BBoxErr BBox → Json
  | .ok b => Json.mkObj [("ok", boxJson b)]
  | .error e => Json.mkObj [("err", errStr e)]

def getBox (j : Json) (k : String) : Except String BBox := do
  match ← fInts j k with
  | [a, b, c, d] => pure ⟨a, b, c, d⟩
  | _ => .error "box needs 4 ints"

def sl (s : Slice) : Json := ofInts [s.start, s.stop]

def bboxOps : List (String × Handler) := [
  ("bbox.ctor", fun j => do
    let b ← getBox j "box"
    let fl ← (← fArr j "isint").mapM jBool
    match fl with
    | [f1, f2, f3, f4] => pure (exBox (BBox.mkChecked (f1, f2, f3, f4) b.ixmin b.ixmax b.iymin b.iymax))
    | _ => .error "isint needs 4 bools"),
  ("bbox.from_float", fun j => do
    match ← fRats j "rect" with
    | [a, b, c, d] => pure (exBox (BBox.fromFloat a b c d))
    | _ => .error "rect needs 4 rationals"),
  ("bbox.union", fun j => do
    pure (exBox (BBox.union (← getBox j "a") (← getBox j "b")))),
  ("bbox.inter", fun j => do
    match BBox.inter (← getBox j "a") (← getBox j "b") with
    | some b => pure (Json.mkObj [("ok", boxJson b)])
    | none => pure (Json.mkObj [("ok", jNone)])),
  ("bbox.assoc", fun j => do
    let a ← getBox j "a"; let b ← getBox j "b"; let c ← getBox j "c"
    let ex : Except BBoxErr BBox → Json := fun r => match r with
      | .ok b => boxJson b
      | .error e => Json.str (errStr e)
    let op : Option BBox → Json := fun r => match r with
      | some b => boxJson b
      | none => jNone
    pure (Json.mkObj [
      ("u_l", ex (BBox.union a b >>= fun ab => BBox.union ab c)),
      ("u_r", ex (BBox.union b c >>= fun bc => BBox.union a bc)),
      ("i_l", op ((BBox.inter a b).bind fun ab => BBox.inter ab c)),
      ("i_r", op ((BBox.inter b c).bind fun bc => BBox.inter a bc))])),
  ("bbox.props", fun j => do
    let b ← getBox j "box"
    pure (Json.mkObj [("shape", ofInts [b.shape.1, b.shape.2]),
                      ("center2", ofInts [b.center2.1, b.center2.2]),
                      ("extent2", ofInts [b.extent2.1, b.extent2.2.1, b.extent2.2.2.1, b.extent2.2.2.2])])),
  ("bbox.slices", fun j => do
    let b ← getBox j "box"
    match ← fInts j "shape" with
    | [ny, nx] =>
      match b.overlapSlices ny nx with
      | none => pure (Json.mkObj [("ok", jNone)])
      | some (l, s) => pure (Json.mkObj [("ok", Json.arr #[sl l.1, sl l.2, sl s.1, sl s.2])])
    | _ => .error "shape needs 2 ints")
]

end Driver
