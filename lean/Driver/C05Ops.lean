import Driver.XV
import Driver.BBoxOps
import RegionsVerif.Impl.Mask

namespace Driver
open Lean RegionsVerif.Impl

def getMask (j : Json) : Except String (Mask XV) := do
  let b ← getBox j "bbox"
  let (_, _, f) ← gridOfJson (← field j "data")
  pure ⟨f, b⟩

def getImg (j : Json) (shapeKey : String) : Except String (Arr XV) := do
  let (ny0, nx0, f) ← gridOfJson (← field j "img")
  -- an explicit shape is needed for images with a zero dimension
  match ← fInts j shapeKey with
  | [ny, nx] => pure ⟨ny, nx, f⟩
  | _ => pure ⟨ny0, nx0, f⟩

def c05Ops : List (String × Handler) := [
  ("mask.to_image", fun j => do
    let m ← getMask j
    match ← fInts j "shape" with
    | [ny, nx] =>
      match m.toImage ny nx with
      | none => pure (Json.mkObj [("ok", jNone)])
      | some a => pure (Json.mkObj [("ok", gridToJson a.ny a.nx a.el)])
    | _ => .error "shape"),
  ("mask.cutout", fun j => do
    let m ← getMask j
    let img ← getImg j "shape"
    let fill ← XV.ofJson (← field j "fill")
    match m.cutout img fill (← fBool j "storable") (← fBool j "copy") with
    | none => pure (Json.mkObj [("ok", jNone)])
    | some c => pure (Json.mkObj [("ok", gridToJson c.arr.ny c.arr.nx c.arr.el),
                                   ("view", Json.bool c.isView), ("promoted", Json.bool c.promoted)])),
  ("mask.multiply", fun j => do
    let m ← getMask j
    let img ← getImg j "shape"
    let fill ← XV.ofJson (← field j "fill")
    match m.multiply img fill (← fBool j "storable") with
    | none => pure (Json.mkObj [("ok", jNone)])
    | some a => pure (Json.mkObj [("ok", gridToJson a.ny a.nx a.el)])),
  ("mask.get_values", fun j => do
    let m ← getMask j
    let img ← getImg j "shape"
    let um ← match fieldD j "mask" jNone with
      | .null => pure none
      | jm => do
        let rows ← (← jArr jm).mapM fun r => do (← jArr r).mapM jBool
        let arr := rows.toArray.map (·.toArray)
        pure (some fun (y x : Int) => (arr.getD y.toNat #[]).getD x.toNat false)
    pure (Json.mkObj [("ok", Json.arr ((m.getValues img um).map XV.toJson).toArray)]))
]

end Driver
