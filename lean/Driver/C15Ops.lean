import Driver.ShapeOps
import Driver.C04Ops

namespace Driver
open Lean RegionsVerif.Impl

def incStr : Include → String
  | .absent => "absent" | .pyTrue => "true" | .pyFalse => "false" | .one => "1" | .zero => "0"

def ofDir (d : Dir ℚ) : Json := ofRats [d.c, d.s]

partial def regToJson : PReg ℚ → Json
  | .circle r i => Json.mkObj [("kind", "circle"), ("c", ofPt r.center), ("r", ofRat r.radius), ("include", incStr i)]
  | .ellipse r i => Json.mkObj [("kind", "ellipse"), ("c", ofPt r.center), ("w", ofRat r.width), ("h", ofRat r.height),
      ("dir", ofDir r.dir), ("include", incStr i)]
  | .rect r i => Json.mkObj [("kind", "rectangle"), ("c", ofPt r.center), ("w", ofRat r.width), ("h", ofRat r.height),
      ("dir", ofDir r.dir), ("include", incStr i)]
  | .polygon r i => Json.mkObj [("kind", "polygon"), ("v", Json.arr (r.vertices.map ofPt).toArray), ("include", incStr i)]
  | .circleAnnulus c r1 r2 i => Json.mkObj [("kind", "circle_annulus"), ("c", ofPt c), ("r1", ofRat r1), ("r2", ofRat r2),
      ("include", incStr i)]
  | .ellipseAnnulus c w1 h1 w2 h2 d i => Json.mkObj [("kind", "ellipse_annulus"), ("c", ofPt c), ("w1", ofRat w1),
      ("h1", ofRat h1), ("w2", ofRat w2), ("h2", ofRat h2), ("dir", ofDir d), ("include", incStr i)]
  | .rectAnnulus c w1 h1 w2 h2 d i => Json.mkObj [("kind", "rectangle_annulus"), ("c", ofPt c), ("w1", ofRat w1),
      ("h1", ofRat h1), ("w2", ofRat w2), ("h2", ofRat h2), ("dir", ofDir d), ("include", incStr i)]
  | .empty .point a _ i => Json.mkObj [("kind", "point"), ("c", ofPt a), ("include", incStr i)]
  | .empty .text a _ i => Json.mkObj [("kind", "text"), ("c", ofPt a), ("include", incStr i)]
  | .empty .line a b i => Json.mkObj [("kind", "line"), ("a", ofPt a), ("b", ofPt b), ("include", incStr i)]
  | .compound op r1 r2 i => Json.mkObj [("kind", "compound"),
      ("op", match op with | .and => "and" | .or => "or" | .xor => "xor"),
      ("a", regToJson r1), ("b", regToJson r2), ("include", incStr i)]

def areaJson (r : PReg ℚ) : Json :=
  match r.area with
  | none => jNone
  | some (p, q) => ofRats [p, q]

def c15Ops : List (String × Handler) := [
  ("region.rotate", fun j => do
    let r ← getReg (← field j "region")
    let o ← fPt j "o"
    let d ← fDir j "dir"
    let r' := r.rotate o d
    let pts ← (← fArr j "pts").mapM getPt
    let pts' := pts.map (·.rotate o d)
    pure (Json.mkObj [("region", regToJson r'), ("back", regToJson (r'.rotate o d.neg)),
                      ("area", areaJson r), ("area_rot", areaJson r'),
                      ("pts", Json.arr (pts'.map ofPt).toArray),
                      ("contains", ofBools (pts.map r.contains)),
                      ("contains_rot", ofBools (pts'.map r'.contains))])),
  ("region.shift", fun j => do
    let r ← getReg (← field j "region")
    let kx ← fInt j "kx"
    let ky ← fInt j "ky"
    pure (Json.mkObj [("bbox", exBox r.bbox),
                      ("bbox_shifted", exBox (r.shift ⟨(kx : ℚ), (ky : ℚ)⟩).bbox)]))
]

end Driver
