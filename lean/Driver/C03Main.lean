import Driver.Loop
import Driver.C03Ops
import RegionsVerif.Gen.EllipseExactFloat

namespace Driver
open Lean RegionsVerif.Gen

/-- one grid cell of the ellipse 'exact' kernel, Float instance of `Gen/EllipseExact*`
(doubles in and out as 64-bit patterns, like `exact.cell`). -/
def c03EllipseOps : List (String × Handler) := [
  ("exact.ecell", fun j => do
    match EllipseExactFloat.ellipseCell (← fBits j "pxmin") (← fBits j "pymin") (← fBits j "dx") (← fBits j "dy")
        (← fBits j "rx") (← fBits j "ry") (← fBits j "theta") with
    | some v => pure (Json.mkObj [("ok", ofBits v)])
    | none => pure (Json.mkObj [("ok", jNone)])),
  ("exact.etri", fun j => do
    match EllipseExactFloat.overlapTri 8 (← fBits j "x1") (← fBits j "y1") (← fBits j "x2") (← fBits j "y2")
        (← fBits j "x3") (← fBits j "y3") with
    | some v => pure (Json.mkObj [("ok", ofBits v)])
    | none => pure (Json.mkObj [("ok", jNone)]))
]

end Driver

def main : IO Unit := Driver.run (Driver.c03Ops ++ Driver.c03EllipseOps)
