import Driver.Loop
import Driver.C03Ops
def main : IO Unit := Driver.run Driver.c03Ops
