import Driver.Loop
import Driver.C14Ops
def main : IO Unit := Driver.run Driver.c14Ops
