import Driver.Loop
import Driver.C02Ops
def main : IO Unit := Driver.run (Driver.shapeOps ++ Driver.c04Ops ++ Driver.c15Ops ++ Driver.c02Ops)
