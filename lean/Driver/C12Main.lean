import Driver.Loop
import Driver.C12Ops
def main : IO Unit := Driver.run Driver.c12Ops
