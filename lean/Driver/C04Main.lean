import Driver.Loop
import Driver.C04Ops
def main : IO Unit := Driver.run (Driver.shapeOps ++ Driver.c04Ops)
