import Driver.Loop
import Driver.C11Ops
def main : IO Unit := Driver.run Driver.c11Ops
