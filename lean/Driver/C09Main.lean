import Driver.Loop
import Driver.C09Ops
def main : IO Unit := Driver.run Driver.c09Ops
