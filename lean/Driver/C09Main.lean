import Driver.Loop
import Driver.C09Ops
open Driver

/-- the reply line with every non-ASCII character written as a JSON `\uXXXX` escape (they occur inside
strings only): the harness reads replies with `str.splitlines()`, which would cut a line at a raw
U+0085 / U+2028 / U+2029 of a text label. -/
def asciiJson (s : String) : String :=
  let hex := fun (n : Nat) =>
    let ds := Nat.toDigits 16 n
    String.ofList ("\\u".toList ++ List.replicate (4 - ds.length) '0' ++ ds)
  String.join (s.toList.map fun c =>
    let n := c.toNat
    if n < 0x7f then String.singleton c
    else if n < 0x10000 then hex n
    else
      let m := n - 0x10000
      hex (0xD800 + m / 0x400) ++ hex (0xDC00 + m % 0x400))

partial def loop9 (hin hout : IO.FS.Stream) : IO Unit := do
  let line ← hin.getLine
  if line.isEmpty then return ()
  let l := line.trimAscii.toString
  if l.isEmpty then loop9 hin hout
  else
    hout.putStrLn (asciiJson (handleLine c09Ops l))
    loop9 hin hout

def main : IO Unit := do
  let hin ← IO.getStdin
  let hout ← IO.getStdout
  loop9 hin hout
  hout.flush
