import Driver.Loop
import Driver.C07Ops
def main : IO Unit := Driver.run (Driver.c06Ops ++ Driver.c07Ops)
