/-
JSON ops for C14: run the write-protocol step machine and the registry dispatch of
`Impl.Write` with the step orders / identifier tables generated from the current source
(`Gen.WriteTables`).  File contents are tokens: a pre-existing file is whatever string the
harness passes; a written file is `<signature>SER(<fmt>;<id>,<id>,…)`; gzip is `GZ:<inner>`.
-/
import Driver.Proto
import RegionsVerif.Impl.Write
import RegionsVerif.Gen.WriteTables

namespace Driver
open Lean RegionsVerif.Impl.Write RegionsVerif.Gen.WriteTables

abbrev WFormat := RegionsVerif.Impl.Write.Format

def c14Str (l : List Char) : String := String.ofList l

def c14Fmt (s : String) : Option WFormat :=
  match s with
  | "crtf" => some .crtf
  | "ds9" => some .ds9
  | "fits" => some .fits
  | _ => none

def c14FmtArg (j : Json) : Except String FmtArg :=
  match j with
  | .null => .ok .infer
  | .str s => .ok (match c14Fmt s with | some f => .known f | none => .unknown)
  | _ => .error "fmt"

def c14Node (j : Json) : Except String Node :=
  match j with
  | .null => .ok .absent
  | _ =>
    match j.getObjVal? "file", j.getObjVal? "link" with
    | .ok (.str s), _ => .ok (.file s.toList)
    | _, .ok (.str t) => .ok (.link t.toList)
    | _, _ => .error s!"bad node {j}"

def c14NodeJson : Node → Json
  | .absent => .null
  | .file b => Json.mkObj [("file", c14Str b)]
  | .link t => Json.mkObj [("link", c14Str t)]

def c14FS (l : List Json) : Except String FS := do
  let pairs ← l.mapM fun e => do
    match ← jArr e with
    | [n, v] => pure ((← jStr n).toList, ← c14Node v)
    | _ => .error "fs entry"
  pure (pairs.foldl (fun fs (pv : Path × Node) => fs.set pv.1 pv.2) (fun _ => Node.absent))

def c14Item (j : Json) : Except String Item := do
  let id ← fStr j "id"
  let k ← fStr j "kind"
  let enc ← fBool j "enc"
  let kind ← match k with
    | "ok" => pure Kind.ok
    | "skip" => pure Kind.skip
    | "bad" => do pure (Kind.bad (← fStr j "err"))
    | _ => .error s!"kind {k}"
  pure { id := id, kind := kind, encOK := enc }

def c14Sig (tbl : List IdentEntry) (f : WFormat) : List Char :=
  match tbl.find? (fun e => e.fmt == f) with
  | some e => e.sig
  | none => []

/-- the concrete components the driver plugs into the protocol. -/
def c14Params (tbl : List IdentEntry) (f : WFormat) (encErr : String) (hduErr optErr : Option String) : Params Item :=
  { ser := fun items =>
      if let some e := optErr then .error e   -- the options themselves are rejected
      else if items.isEmpty && emptyBlank f then .ok []
      else
        match serIds items with
        | .ok ids =>
          if ids.isEmpty && keptBlank f then .ok []   -- every element was skipped
          else .ok (c14Sig tbl f ++ s!"SER({f.name};{",".intercalate ids})".toList)
        | .error e => .error e
    enc := fun t => if encErr.isEmpty then .ok t else .error encErr
    hdu := hduErr
    writeto := astropyWriteto }

def c14GzMagic : List Char := "GZ:".toList

def c14Reader : Reader String :=
  { parseFile := fun f c => .ok s!"PARSE({f.name};{c14Str c})"
    gunzip := fun b => if c14GzMagic.isPrefixOf b then some (b.drop c14GzMagic.length) else none }

def c14Ops : List (String × Handler) := [
  ("c14.case", fun j => do
    let tbl := if (← fStr j "api") == "Region" then identRegion else identRegions
    let fs ← c14FS (← fArr j "fs")
    let name := (← fStr j "name").toList
    let fmt ← c14FmtArg (fieldD j "fmt" .null)
    let ow ← fBool j "ow"
    let badKw ← fBool j "badKw"
    let items ← (← fArr j "items").mapM c14Item
    let hduErr ← match fieldD j "hduErr" .null with
      | .null => pure none
      | .str s => pure (some s)
      | _ => .error "hduErr"
    let optErr ← match fieldD j "optErr" .null with
      | .null => pure none
      | .str s => pure (some s)
      | _ => .error "optErr"
    -- text encoding fails iff some element that reaches the output is not encodable
    let encFails := items.any fun i => i.kind == Kind.ok && !i.encOK
    let encErrS ← fStr j "encErr"
    let encErr := if encFails then encErrS else ""
    let o := regWrite tbl proto (fun f => c14Params tbl f encErr hduErr optErr) fs
      { name := name, fmt := fmt, ow := ow, items := items, badKw := badKw }
    let paths ← (← fArr j "paths").mapM jStr
    let fsJson := Json.arr (paths.map fun p => Json.arr #[Json.str p, c14NodeJson (o.fs p.toList)]).toArray
    let reads ← (← fArr j "reads").mapM fun r => do
      let dst := (← fStr r "to").toList
      let gz ← fBool r "gz"
      let rfmt ← c14FmtArg (fieldD r "fmt" .null)
      let fs2? : Option FS :=
        match fieldD r "from" .null with
        | .str src =>
          match stat o.fs src.toList with
          | some c => some (o.fs.set dst (.file (if gz then c14GzMagic ++ c else c)))
          | none => none
        | _ => some o.fs
      match fs2? with
      | none => pure (Json.mkObj [("ident", "!NoSource"), ("result", "!NoSource")])
      | some fs2 =>
        let ident := match identifyRead tbl (lower dst) ((stat fs2 dst).map (readable c14Reader)) with
          | .ok f => f.name
          | .error e => "!" ++ e
        let res := match regRead tbl c14Reader fs2 dst rfmt with
          | .ok s => s
          | .error e => "!" ++ e
        pure (Json.mkObj [("ident", ident), ("result", res)])
    pure (Json.mkObj [("exc", match o.exc with | some e => Json.str e | none => .null),
                      ("fs", fsJson), ("reads", Json.arr reads.toArray)]))
]

end Driver
