/-
Extended values for the executable driver: exact rationals plus IEEE specials, with the
IEEE-754 rules for `*` and `<` that numpy applies to float arrays.
-/
import Driver.Proto

namespace Driver
open Lean

inductive XV
  | fin (q : ℚ)
  | nan
  | pinf
  | ninf
deriving DecidableEq

namespace XV

def mul : XV → XV → XV
  | fin a, fin b => fin (a * b)
  | nan, _ => nan
  | _, nan => nan
  | fin a, pinf => if a = 0 then nan else if 0 < a then pinf else ninf
  | fin a, ninf => if a = 0 then nan else if 0 < a then ninf else pinf
  | pinf, fin a => if a = 0 then nan else if 0 < a then pinf else ninf
  | ninf, fin a => if a = 0 then nan else if 0 < a then ninf else pinf
  | pinf, pinf => pinf
  | ninf, ninf => pinf
  | pinf, ninf => ninf
  | ninf, pinf => ninf

instance : Mul XV := ⟨mul⟩
instance : Zero XV := ⟨fin 0⟩

def lt : XV → XV → Bool
  | fin a, fin b => decide (a < b)
  | nan, _ => false
  | _, nan => false
  | ninf, ninf => false
  | ninf, _ => true
  | _, ninf => false
  | pinf, _ => false
  | _, pinf => true

instance instLT : LT XV := ⟨fun a b => lt a b = true⟩
instance : DecidableLT XV := fun a b => inferInstanceAs (Decidable (lt a b = true))

def ofJson (j : Json) : Except String XV :=
  match j with
  | .str "nan" => .ok nan
  | .str "inf" => .ok pinf
  | .str "-inf" => .ok ninf
  | _ => do pure (fin (← jRat j))

def toJson : XV → Json
  | fin q => ofRat q
  | nan => .str "nan"
  | pinf => .str "inf"
  | ninf => .str "-inf"

end XV

/-- a JSON list of lists as an element function (out-of-range reads give `0`; the model never
makes one — proved in `Props/C05` via `slices_in_range`). -/
def gridOfJson (j : Json) : Except String (Int × Int × (Int → Int → XV)) := do
  let rows ← (← jArr j).mapM fun r => do (← jArr r).mapM XV.ofJson
  let ny := rows.length
  let nx := match rows with | [] => 0 | r :: _ => r.length
  let arr := rows.toArray.map (·.toArray)
  pure (ny, nx, fun y x =>
    if y < 0 ∨ x < 0 then XV.fin 0
    else ((arr.getD y.toNat #[]).getD x.toNat (XV.fin 0)))

def gridToJson (ny nx : Int) (f : Int → Int → XV) : Json :=
  Json.arr ((List.range ny.toNat).map fun (j : Nat) =>
    Json.arr ((List.range nx.toNat).map fun (i : Nat) => XV.toJson (f j i)).toArray).toArray

end Driver
