import Driver.Loop
import Driver.C18Ops
def main : IO Unit := Driver.run Driver.C18.ops
