import Driver.Loop
import Driver.C15Ops
def main : IO Unit := Driver.run (Driver.shapeOps ++ Driver.c04Ops ++ Driver.c15Ops)
