import Driver.Loop
import Driver.C16Ops
def main : IO Unit := Driver.run Driver.C16.c16Ops
