/-
JSON ops that run the `PixCoord` model (`Impl/PixCoord.lean`) on `ℚ`.

array   = {"shape":[n,…], "data":["p/q",…]}            (row-major)
coord   = {"x": array, "y": array}   -- raw constructor arguments: every op first runs `ctor`
operand = coord | null               -- null = "some Python object that is not a PixCoord"
key     = [ {"t":"int","v":i} | {"t":"slice","a":i|null,"b":i|null,"c":i|null}
          | {"t":"ia","shape":[…],"data":[i,…]} | {"t":"ba","shape":[…],"data":[bool,…]} | {"t":"ell"} ]
reply   = {"ok": …} | {"err": "ValueError"|"TypeError"|"IndexError"}
-/
import Driver.Proto
import RegionsVerif.Impl.PixCoord
import Mathlib.Algebra.Order.Field.Rat

namespace Driver
open Lean RegionsVerif.Impl RegionsVerif.Impl.NP

def pyErrStr : PyErr → String
  | .typeError => "TypeError"
  | .valueError => "ValueError"
  | .indexError => "IndexError"

def jNat (j : Json) : Except String Nat := do
  let i ← jInt j
  if i < 0 then .error "negative dimension" else pure i.toNat

def getArr (j : Json) : Except String (NDArr ℚ) := do
  let sh ← (← fArr j "shape").mapM jNat
  let d ← fRats j "data"
  if d.length ≠ sh.prod then .error "data length does not match shape" else pure ⟨sh, d⟩

def shapeJson (s : List Nat) : Json := Json.arr (s.map fun (n : Nat) => ofInt n).toArray

def arrJson (a : NDArr ℚ) : Json :=
  Json.mkObj [("shape", shapeJson a.shape), ("data", ofRats a.data)]

def pcJson (p : PixCoord ℚ) : Json :=
  Json.mkObj [("x", arrJson p.x), ("y", arrJson p.y), ("scalar", Json.bool p.isscalar)]

def exJson {ε : Type} (f : ε → Json) : Except PyErr ε → Json
  | .ok v => Json.mkObj [("ok", f v)]
  | .error e => Json.mkObj [("err", pyErrStr e)]

/-- raw constructor arguments → constructed coordinate. -/
def getPC (j : Json) : Except String (Except PyErr (PixCoord ℚ)) := do
  let x ← getArr (← field j "x")
  let y ← getArr (← field j "y")
  pure (PixCoord.ctor x y)

def getOperand (j : Json) : Except String (Except PyErr (Operand ℚ)) :=
  match j with
  | .null => pure (.ok .other)
  | _ => do
    match ← getPC j with
    | .ok p => pure (.ok (.pix p))
    | .error e => pure (.error e)

def jOptInt (j : Json) : Except String (Option Int) :=
  match j with
  | .null => pure none
  | _ => do pure (some (← jInt j))

def getIx (j : Json) : Except String Ix := do
  match ← fStr j "t" with
  | "int" => pure (.int (← fInt j "v"))
  | "slice" => pure (.slice (← jOptInt (fieldD j "a" .null)) (← jOptInt (fieldD j "b" .null))
                            (← jOptInt (fieldD j "c" .null)))
  | "ia" => do
    let sh ← (← fArr j "shape").mapM jNat
    let d ← fInts j "data"
    if d.length ≠ sh.prod then .error "ia: data length" else pure (.intArr sh d)
  | "ba" => do
    let sh ← (← fArr j "shape").mapM jNat
    let d ← (← fArr j "data").mapM jBool
    if d.length ≠ sh.prod then .error "ba: data length" else pure (.boolArr sh d)
  | "ell" => pure .ellipsis
  | t => .error s!"unknown index type {t}"

/-- run `f` on the constructed coordinate `p` of the request. -/
def withP (j : Json) (f : PixCoord ℚ → Except String Json) : Except String Json := do
  match ← getPC (← field j "p") with
  | .error e => pure (Json.mkObj [("err", pyErrStr e), ("at", "ctor")])
  | .ok p => f p

def withPQ (j : Json) (k : String) (f : PixCoord ℚ → PixCoord ℚ → Except String Json) :
    Except String Json :=
  withP j fun p => do
    match ← getPC (← field j k) with
    | .error e => pure (Json.mkObj [("err", pyErrStr e), ("at", "ctor")])
    | .ok q => f p q

def withPO (j : Json) (f : PixCoord ℚ → Operand ℚ → Except String Json) : Except String Json :=
  withP j fun p => do
    match ← getOperand (fieldD j "o" .null) with
    | .error e => pure (Json.mkObj [("err", pyErrStr e), ("at", "ctor")])
    | .ok o => f p o

def idMaps : PixCoord.WCSMaps ℚ (ℚ × ℚ) := ⟨fun _ p => p, fun _ w => w⟩

def c20Ops : List (String × Handler) := [
  ("np.bshape", fun j => do
    let a ← (← fArr j "a").mapM jNat
    let b ← (← fArr j "b").mapM jNat
    match bshape a b with
    | none => pure (Json.mkObj [("err", "ValueError")])
    | some s => pure (Json.mkObj [("ok", shapeJson s)])),
  ("np.getitem", fun j => do
    let a ← getArr (← field j "a")
    let key ← (← fArr j "key").mapM getIx
    pure (exJson arrJson (NP.getitem 0 a key))),
  ("pc.ctor", fun j => do
    pure (exJson pcJson (← getPC j))),
  ("pc.len", fun j => withP j fun p => pure (exJson (fun (n : Nat) => ofInt n) p.len)),
  ("pc.iter", fun j => withP j fun p =>
    pure (exJson (fun l => Json.arr (l.map pcJson).toArray) p.iter)),
  ("pc.getitem", fun j => withP j fun p => do
    let key ← (← fArr j "key").mapM getIx
    pure (exJson pcJson (p.getitem key))),
  ("pc.copy", fun j => withP j fun p => pure (exJson pcJson p.copy)),
  ("pc.xy", fun j => withP j fun p => pure (Json.mkObj [("ok", Json.arr #[arrJson p.xy.1, arrJson p.xy.2])])),
  ("pc.add", fun j => withPO j fun p o => pure (exJson pcJson (p.add o))),
  ("pc.sub", fun j => withPO j fun p o => pure (exJson pcJson (p.sub o))),
  ("pc.addsub", fun j => withPO j fun p o =>
    pure (exJson pcJson (p.add o >>= fun r => r.sub o))),
  ("pc.subadd", fun j => withPO j fun p o =>
    pure (exJson pcJson (p.sub o >>= fun r => r.add o))),
  ("pc.sep2", fun j => withPQ j "q" fun p q => pure (exJson arrJson (p.sep2 q))),
  ("pc.rotate", fun j => withPQ j "center" fun p c => do
    pure (exJson pcJson (p.rotate c (← fRat j "c") (← fRat j "s")))),
  ("pc.rotate2", fun j => withPQ j "center" fun p ctr => do
    let c1 ← fRat j "c1"; let s1 ← fRat j "s1"; let c2 ← fRat j "c2"; let s2 ← fRat j "s2"
    pure (Json.mkObj [
      ("twice", exJson pcJson (p.rotate ctr c1 s1 >>= fun r => r.rotate ctr c2 s2)),
      ("once", exJson pcJson (p.rotate ctr (c1 * c2 - s1 * s2) (s1 * c2 + c1 * s2))),
      ("back", exJson pcJson (p.rotate ctr c1 s1 >>= fun r => r.rotate ctr c1 (-s1)))])),
  ("pc.to_fits", fun j => withP j fun p => do
    let o ← fRat j "origin"
    let r := PixCoord.toSky idMaps o (← fBool j "all") p
    pure (Json.mkObj [("ok", Json.mkObj [
      ("shape", shapeJson r.shape),
      ("x", ofRats (r.data.map (·.1))), ("y", ofRats (r.data.map (·.2)))])])),
  ("pc.from_fits", fun j => do
    let sh ← (← fArr j "shape").mapM jNat
    let xs ← fRats j "x"
    let ys ← fRats j "y"
    if xs.length ≠ sh.prod ∨ ys.length ≠ sh.prod then .error "from_fits: data length" else
    pure (exJson pcJson (PixCoord.fromSky idMaps (← fRat j "origin") (← fBool j "all") ⟨sh, xs.zip ys⟩)))
]

end Driver
