import Driver.Loop
import Driver.C17Ops
def main : IO Unit := Driver.run Driver.c17Ops
