import Driver.Loop
import Driver.ShapeOps
def main : IO Unit := Driver.run Driver.shapeOps
