import Driver.Proto
import RegionsVerif.Impl.Fits

namespace Driver
open Lean RegionsVerif.Impl RegionsVerif.Impl.Fits

namespace C12

def kindNames : List (String × Kind) :=
  [("point", .point), ("circle", .circle), ("ellipse", .ellipse),
   ("circleAnnulus", .circleAnnulus), ("ellipseAnnulus", .ellipseAnnulus),
   ("rectangle", .rectangle), ("polygon", .polygon), ("regularPolygon", .regularPolygon),
   ("rectangleAnnulus", .rectangleAnnulus), ("line", .line), ("text", .text),
   ("compound", .compound)]

def kindOfJson (j : Json) : Except String Kind := do
  let s ← jStr j
  match kindNames.lookup s with
  | some k => pure k
  | none => .error s!"unknown kind {s}"

def kindToJson (k : Kind) : Json :=
  match kindNames.find? (fun p => p.2 == k) with
  | some p => .str p.1
  | none => .null

def inclOfJson (j : Json) : Except String Incl :=
  match j with
  | .str "absent" => pure .absent
  | .bool b => pure (.bool b)
  | _ => do pure (.int (← jInt j))

def inclToJson : Incl → Json
  | .absent => .str "absent"
  | .bool b => .bool b
  | .int n => ofInt n

def optRat (j : Json) : Except String (Option ℚ) :=
  match j with
  | .null => pure none
  | _ => do pure (some (← jRat j))

def optInt (j : Json) : Except String (Option Int) :=
  match j with
  | .null => pure none
  | _ => do pure (some (← jInt j))

/-- `{"name": "rad", "deg": "p/q", "fits": true}`; absent = degrees. -/
def unitOfJson (j : Json) : Except String AUnit :=
  match j with
  | .null => pure AUnit.degree
  | _ => do pure ⟨(← fStr j "name").toList, ← fRat j "deg", ← fBool j "fits"⟩

def unitToJson (u : AUnit) : Json := .str (String.ofList u.name)

def regOfJson (j : Json) : Except String Reg := do
  pure { kind := ← kindOfJson (← field j "kind"),
         sky := ← fBool j "sky",
         xs := ← fRats j "xs", ys := ← fRats j "ys", params := ← fRats j "params",
         angle := ← optRat (fieldD j "angle" .null),
         incl := ← inclOfJson (fieldD j "incl" (.str "absent")),
         comp := ← optInt (fieldD j "comp" .null),
         aunit := ← unitOfJson (fieldD j "aunit" .null) }

def regToJson (r : Reg) : Json :=
  Json.mkObj [("kind", kindToJson r.kind), ("sky", .bool r.sky), ("xs", ofRats r.xs),
    ("ys", ofRats r.ys), ("params", ofRats r.params),
    ("angle", match r.angle with | some a => ofRat a | none => .null),
    ("incl", inclToJson r.incl),
    ("comp", match r.comp with | some c => ofInt c | none => .null),
    ("aunit", match r.angle with | some _ => unitToJson r.aunit | none => .null)]

def numOfJson (j : Json) : Except String Num :=
  match j with
  | .str "nan" => pure none
  | _ => do pure (some (← jRat j))

def numToJson : Num → Json
  | none => .str "nan"
  | some q => ofRat q

/-- `{"s": v}` scalar column cell, `{"v": [...]}` vector cell. -/
def cellOfJson (j : Json) : Except String Cell :=
  match j.getObjVal? "s" with
  | .ok v => do pure (.scalar (← numOfJson v))
  | .error _ => do
    let l ← (← fArr j "v").mapM numOfJson
    pure (.vec l)

def cellToJson : Cell → Json
  | .scalar v => Json.mkObj [("s", numToJson v)]
  | .vec l => Json.mkObj [("v", .arr (l.map numToJson).toArray)]

def nameToJson (n : Fits.Name) : Json := .str (String.ofList n)

def rowOfJson (j : Json) : Except String TRow := do
  let cellD (k : String) : Except String Cell :=
    match j.getObjVal? k with
    | .ok c => cellOfJson c
    | .error _ => pure (.scalar (some 0))
  pure { shape := (← jStr (fieldD j "shape" (.str ""))).toList,
         x := ← cellD "x", y := ← cellD "y", r := ← cellD "r", rotang := ← cellD "rotang",
         component := ← jInt (fieldD j "component" (.str "0")) }

/-- only the cells of columns that exist are reported. -/
def rowToJson (cols : List Fits.Name) (row : TRow) : Json :=
  let opt (c : Fits.Name) (k : String) (v : Json) : List (String × Json) :=
    if cols.contains c then [(k, v)] else []
  Json.mkObj (opt cSHAPE "shape" (nameToJson row.shape) ++ opt cX "x" (cellToJson row.x) ++
    opt cY "y" (cellToJson row.y) ++ opt cR "r" (cellToJson row.r) ++
    opt cROTANG "rotang" (cellToJson row.rotang) ++ opt cCOMPONENT "component" (ofInt row.component))

def tableOfJson (j : Json) : Except String Table := do
  let cols := (← (← fArr j "cols").mapM jStr).map String.toList
  let rows ← (← fArr j "rows").mapM rowOfJson
  let obj ← jBool (fieldD j "comp_object" (.bool false))
  let ru ← unitOfJson (fieldD j "rotang_unit" .null)
  pure ⟨cols, rows, obj, ru⟩

def tableToJson (t : Table) : Json :=
  Json.mkObj [("cols", .arr (t.cols.map nameToJson).toArray),
              ("rows", .arr (t.rows.map (rowToJson t.cols)).toArray),
              ("comp_object", .bool t.compObject),
              ("rotang_unit", if t.rows.isEmpty then .null else unitToJson t.rotangUnit)]

def errStr : Err → String
  | .fitsParserError => "FITSParserError"
  | .valueError => "ValueError"
  | .indexError => "IndexError"
  | .typeError => "TypeError"
  | .keyError => "KeyError"
  | .unitScaleError => "UnitScaleError"
  | .nanParameter => "NaN-parameter(outside the model)"

def parsedToJson : Except Err (List Reg) → Json
  | .ok l => Json.mkObj [("ok", .arr (l.map regToJson).toArray)]
  | .error e => Json.mkObj [("err", .str (errStr e))]

def warnToJson : Warn → Json
  | .skySkipped => .str "sky"
  | .unsupportedSkipped k => .str ("unsupported:" ++ String.ofList k.className)

/-- the variant comes from the model (`Variant.current`) unless the request overrides it
(`"variant": [f8, f9, f10, f121, f122]`, used only to try the model of the patched code against a
patched copy of the sources). -/
def variantOf (j : Json) : Except String Variant :=
  match j.getObjVal? "variant" with
  | .error _ => pure Variant.current
  | .ok a => do
    match ← (← jArr a).mapM jBool with
    | [a, b, c, d, e] => pure ⟨a, b, c, d, e⟩
    | _ => .error "variant needs 5 bools"

def refToJson (r : ColRef) : Json :=
  .str (String.ofList r.col.name ++ (match r.idx with | some i => toString i | none => ""))

end C12

open C12 in
def c12Ops : List (String × Handler) := [
  ("fits.roundtrip", fun j => do
    let v ← variantOf j
    let regs ← (← fArr j "regions").mapM regOfJson
    let t := serialize v regs
    pure (Json.mkObj [
      ("table", tableToJson t),
      ("warnings", .arr ((warnings v regs).map warnToJson).toArray),
      ("parsed", parsedToJson (parseTable v t)),
      ("file", parsedToJson (throughFile idFileLayer v regs))])),
  ("fits.parse", fun j => do
    let v ← variantOf j
    let t ← tableOfJson (← field j "table")
    let first := parseTable v t
    -- parse -> serialize -> parse
    let again : Json := match first with
      | .ok regs => parsedToJson (parseTable v (serialize v regs))
      | .error _ => .null
    pure (Json.mkObj [("parsed", parsedToJson first), ("again", again)])),
  ("fits.tables", fun _ => do
    pure (Json.mkObj [
      ("shape_map", .arr (shapeMap.map fun (n, k, refs) =>
        Json.arr #[nameToJson n, nameToJson k.className, .arr (refs.map refToJson).toArray]).toArray),
      ("region_map", .arr (regionMap.map fun (a, b) => Json.arr #[nameToJson a, nameToJson b]).toArray),
      ("unsupported_regions", .arr (unsupportedRegions.map nameToJson).toArray),
      ("unsupported_shapes", .arr (unsupportedShapes.map nameToJson).toArray),
      ("valid_columns", .arr (validColumns.map nameToJson).toArray),
      ("variant", .arr #[.bool Variant.current.f8, .bool Variant.current.f9,
                         .bool Variant.current.f10, .bool Variant.current.f121,
                         .bool Variant.current.f122])]))
]

end Driver
