/-
Driver ops for C09 (DS9 serialise / parse).

Region JSON:
  {"shape": "circle", "frame": "image", "coords": [["p/q","p/q"],…], "nums": ["p/q",…],
   "text": PyVal | null, "meta": [[key, PyVal],…], "visual": [[key, PyVal],…]}
PyVal JSON: {"int":"5"} {"bool":true} {"flt":["p/q","repr"]} {"special":"nan"} {"str":"…"}
            {"strs":["…"]} {"dashes":["0",["8","3"]]} {"marker":"arrow"}
-/
import Driver.Proto
import RegionsVerif.Impl.Ds9Text

namespace Driver
open Lean RegionsVerif.Impl.Ds9 RegionsVerif.Impl.Dec

def strOf (l : Str) : String := String.ofList l

def jPyVal (j : Json) : Except String PyVal := do
  match j with
  | .obj _ =>
    match j.getObjVal? "int" with
    | .ok v => return .int (← jInt v)
    | .error _ =>
    match j.getObjVal? "bool" with
    | .ok v => return .bool (← jBool v)
    | .error _ =>
    match j.getObjVal? "flt" with
    | .ok v =>
      match ← jArr v with
      | [q, r] => return .flt (← jRat q) (← jStr r).toList
      | _ => throw "flt"
    | .error _ =>
    match j.getObjVal? "special" with
    | .ok v => return .special (← jStr v).toList
    | .error _ =>
    match j.getObjVal? "str" with
    | .ok v => return .str (← jStr v).toList
    | .error _ =>
    match j.getObjVal? "strs" with
    | .ok v => return .strs ((← (← jArr v).mapM jStr).map String.toList)
    | .error _ =>
    match j.getObjVal? "dashes" with
    | .ok v =>
      match ← jArr v with
      | [o, l] => return .dashes (← jInt o) (← (← jArr l).mapM jInt)
      | _ => throw "dashes"
    | .error _ =>
    match j.getObjVal? "marker" with
    | .ok v => return .marker (← jStr v).toList
    | .error _ => throw s!"bad PyVal {j}"
  | _ => throw s!"bad PyVal {j}"

def ofPyVal : PyVal → Json
  | .int n => Json.mkObj [("int", ofInt n)]
  | .bool b => Json.mkObj [("bool", Json.bool b)]
  | .flt q r => Json.mkObj [("flt", Json.arr #[ofRat q, Json.str (strOf r)])]
  | .special r => Json.mkObj [("special", Json.str (strOf r))]
  | .str s => Json.mkObj [("str", Json.str (strOf s))]
  | .strs l => Json.mkObj [("strs", ofStrs (l.map strOf))]
  | .dashes o l => Json.mkObj [("dashes", Json.arr #[ofInt o, ofInts l])]
  | .marker s => Json.mkObj [("marker", Json.str (strOf s))]

def jDict (j : Json) : Except String Dict := do
  (← jArr j).mapM fun kv => do
    match ← jArr kv with
    | [k, v] => pure (Key.ofString (← jStr k), ← jPyVal v)
    | _ => throw "dict item"

def ofDict (d : Dict) : Json :=
  Json.arr (d.map fun kv => Json.arr #[Json.str kv.1.toString, ofPyVal kv.2]).toArray

def shapeNames : List (String × Shape) := [
  ("circle", .circle), ("ellipse", .ellipse), ("rectangle", .rectangle), ("polygon", .polygon),
  ("regularpolygon", .regularPolygon), ("circleannulus", .circleAnnulus),
  ("ellipseannulus", .ellipseAnnulus), ("rectangleannulus", .rectangleAnnulus), ("line", .line),
  ("point", .point), ("text", .text), ("compound", .compound)]

def frameNames : List (String × Frame) := [
  ("image", .image), ("icrs", .icrs), ("fk5", .fk5), ("fk4", .fk4), ("galactic", .galactic),
  ("ecliptic", .ecliptic)]

def jRegion (j : Json) : Except String Region := do
  let sh ← match shapeNames.lookup (← fStr j "shape") with
    | some s => pure s
    | none => throw "shape"
  let fs ← fStr j "frame"
  let fr := (frameNames.lookup fs).getD (.other fs)
  let coords ← (← fArr j "coords").mapM fun c => do
    match ← jArr c with
    | [x, y] => pure (← jRat x, ← jRat y)
    | _ => throw "coord"
  let nums ← fRats j "nums"
  let text ← match fieldD j "text" jNone with
    | .null => pure none
    | t => do pure (some (← jPyVal t))
  pure ⟨sh, fr, coords, nums, text, ← jDict (← field j "meta"), ← jDict (← field j "visual")⟩

def ofRegion (r : Region) : Json :=
  Json.mkObj [
    ("shape", Json.str ((shapeNames.find? (fun p => p.2 = r.shape)).map (·.1) |>.getD "?")),
    ("frame", Json.str (match r.frame with
      | .other n => n
      | f => (frameNames.find? (fun p => p.2 = f)).map (·.1) |>.getD "?")),
    ("coords", Json.arr (r.coords.map fun c => Json.arr #[ofRat c.1, ofRat c.2]).toArray),
    ("nums", ofRats r.nums),
    ("text", match r.text with
      | some t => ofPyVal t
      | none => jNone),
    ("meta", ofDict r.mta),
    ("visual", ofDict r.vis)]

/-- astropy's transform to the default frame attributes, as supplied by the harness: regions with a
"std" field (positions in the default-attribute frame); identity elsewhere. -/
def jAttrMap (js : List Json) (rs : List Region) : Except String AttrMap := do
  let stds ← js.mapM fun j =>
    match fieldD j "std" jNone with
    | .null => pure (none : Option (List (ℚ × ℚ)))
    | s => do
      let cs ← (← jArr s).mapM fun c => do
        match ← jArr c with
        | [x, y] => pure (← jRat x, ← jRat y)
        | _ => throw "std coord"
      pure (some cs)
  let table : List (Region × List (ℚ × ℚ)) :=
    (rs.zip stds).filterMap fun (r, s) => s.map fun c => (r, c)
  pure fun r => (table.lookup r).getD r.coords

def jCfg (j : Json) : Except String Cfg :=
  match j.getObjVal? "cfg" with
  | .ok c => do
    pure ⟨← fBool c "skip", ← fBool c "includeInt", ← fBool c "orderedGlobal", ← fBool c "stdAttrs"⟩
  | .error _ => pure codeCfg

def ofExceptRegions : Except String (List Region) → Json
  | .ok rs => Json.mkObj [("ok", Json.arr (rs.map ofRegion).toArray)]
  | .error e => Json.mkObj [("err", Json.str e)]

def c09Ops : List (String × Handler) := [
  ("ds9.cfg", fun _ =>
    pure (Json.mkObj [("skip", Json.bool codeCfg.skip), ("includeInt", Json.bool codeCfg.includeInt),
                      ("orderedGlobal", Json.bool codeCfg.orderedGlobal),
                      ("stdAttrs", Json.bool codeCfg.stdAttrs)])),
  -- serialize: model text, per-line exact values (for the by-value comparison of astropy numbers),
  -- skip count, and the executable instance of `lex (render o) = toRaw o`
  ("ds9.serialize", fun j => do
    let cfg ← jCfg j
    let p := (← fInt j "precision").toNat
    let ord := (← (← fArr j "ord").mapM jStr).map Key.ofString
    let jrs ← fArr j "regions"
    let rs0 ← jrs.mapM jRegion
    let T ← jAttrMap jrs rs0
    let rs := standardize cfg T rs0
    match serialize cfg ord p rs with
    | .error e => pure (Json.mkObj [("err", Json.str e)])
    | .ok o =>
      let lines : List Json := match o with
        | none => []
        | some o => o.lines.map fun (l : WLine) => Json.arr (l.params.map fun (w : WParam) =>
            Json.arr #[Json.bool w.astro, ofRat w.val]).toArray
      let lexOk := match o with
        | none => true
        | some o => decide (lex (render o) = .ok (toRaw (roundTo o.prec) o))
      pure (Json.mkObj [("ok", Json.str (strOf (renderOpt o))),
                        ("skipped", ofInt (skipped cfg rs)),
                        ("params", Json.arr lines.toArray),
                        ("lex_render", Json.bool lexOk),
                        ("safe", Json.bool (match o with
                          | none => true
                          | some o => renderSafe o))])),
  -- parse a text: lex, then the structured reader
  ("ds9.parse", fun j => do
    let text := (← fStr j "text").toList
    match lex text with
    | .error e => pure (Json.mkObj [("err", Json.str e), ("stage", Json.str "lex")])
    | .ok o => pure (ofExceptRegions (parse o))),
  -- structured round trip parse (toRaw (serialize rs))
  ("ds9.roundtrip", fun j => do
    let cfg ← jCfg j
    let p := (← fInt j "precision").toNat
    let ord := (← (← fArr j "ord").mapM jStr).map Key.ofString
    let jrs ← fArr j "regions"
    let rs0 ← jrs.mapM jRegion
    let T ← jAttrMap jrs rs0
    pure (ofExceptRegions (tripDs9 cfg T ord (roundTo p) p rs0))),
  ("dec.fmt", fun j => do
    pure (Json.mkObj [("ok", Json.str (strOf (fmt (← fInt j "p").toNat (← fRat j "x"))))])),
  ("dec.read", fun j => do
    match pyFloat (← fStr j "s").toList with
    | some (.fin q) => pure (Json.mkObj [("ok", ofRat q)])
    | some .inf => pure (Json.mkObj [("ok", Json.str "inf")])
    | some .ninf => pure (Json.mkObj [("ok", Json.str "-inf")])
    | some .nan => pure (Json.mkObj [("ok", Json.str "nan")])
    | none => pure (Json.mkObj [("err", Json.str "ValueError")])),
  ("dec.repr", fun j => do
    pure (Json.mkObj [("ok", Json.str (strOf (pyReprQ (← fRat j "x"))))]))
]

end Driver
