/-
JSON ops that run the CRTF model (`Impl/Crtf*.lean`) for the C11 correspondence.

`crtf.roundtrip` : options + regions  -> text, model parse of that text, text of a second
                   serialisation of the same (possibly mutated) regions.
`crtf.parse`     : structured lines   -> their text and the model parse.
`crtf.fmt`       : precision + rationals -> the decimal strings.
-/
import Driver.Proto
import RegionsVerif.Impl.CrtfRead

namespace Driver
open Lean RegionsVerif.Impl.Crtf

namespace C11

def jNat (j : Json) : Except String Nat := do
  let i ← jInt j
  if i < 0 then .error "negative" else pure i.toNat

def jOpt (j : Json) (k : String) : Option Json :=
  match j.getObjVal? k with
  | .ok .null => none
  | .ok v => some v
  | .error _ => none

def mvalOf (j : Json) : Except String MVal := do
  if let some v := jOpt j "s" then return .str (← jStr v)
  if let some v := jOpt j "i" then return .int (← jInt v)
  if let some v := jOpt j "b" then return .bool (← jBool v)
  if let some v := jOpt j "ss" then return .strs (← (← jArr v).mapM jStr)
  if let some v := jOpt j "is" then return .ints (← (← jArr v).mapM jInt)
  .error s!"bad meta value {j}"

def mvalTo : MVal → Json
  | .str s => Json.mkObj [("s", s)]
  | .int n => Json.mkObj [("i", ofInt n)]
  | .bool b => Json.mkObj [("b", b)]
  | .strs l => Json.mkObj [("ss", ofStrs l)]
  | .ints l => Json.mkObj [("is", ofInts l)]

def alistOf (j : Json) : Except String AList := do
  (← jArr j).mapM fun e => do
    match ← jArr e with
    | [k, v] => pure (Key.ofString (← jStr k), ← mvalOf v)
    | _ => .error "meta entry needs [key, value]"

def alistTo (m : AList) : Json :=
  .arr (m.map fun p => Json.arr #[Json.str p.1.toString, mvalTo p.2]).toArray

def kindOf (s : String) : Except String Kind :=
  match s with
  | "circle" => pure .circle | "circleannulus" => pure .circleannulus | "ellipse" => pure .ellipse
  | "rectangle" => pure .rectangle | "polygon" => pure .polygon | "line" => pure .line
  | "point" => pure .point | "text" => pure .text | "ellipseannulus" => pure .ellipseannulus
  | "rectangleannulus" => pure .rectangleannulus | "compound" => pure .compound
  | _ => .error s!"bad kind {s}"

def kindTo : Kind → String
  | .circle => "circle" | .circleannulus => "circleannulus" | .ellipse => "ellipse"
  | .rectangle => "rectangle" | .polygon => "polygon" | .line => "line" | .point => "point"
  | .text => "text" | .ellipseannulus => "ellipseannulus" | .rectangleannulus => "rectangleannulus"
  | .compound => "compound"

def wregOf (j : Json) : Except String WReg := do
  let pts ← (← fArr j "pts").mapM fun p => do
    match ← jArr p with
    | [x, y] => pure (← jRat x, ← jRat y)
    | _ => .error "point needs 2 rationals"
  let ptsOf (jj : Json) : Except String (List (ℚ × ℚ)) := do
    (← jArr jj).mapM fun p => do
      match ← jArr p with
      | [x, y] => pure (← jRat x, ← jRat y)
      | _ => .error "point needs 2 rationals"
  let kept ← match jOpt j "pts_kept" with
    | some k => ptsOf k
    | none => pure pts
  let angle ← match jOpt j "angle" with
    | some a => do pure (some (← jRat a))
    | none => pure none
  pure { kind := ← kindOf (← fStr j "kind"), sky := ← fBool j "sky", pts := pts,
         sizes := ← fRats j "sizes", angle := angle, text := ← fStr j "text",
         mt := ← alistOf (← field j "meta"), vis := ← alistOf (← field j "visual"), ptsKept := kept }

def optsOf (j : Json) : Except String Opts := do
  let fmt ← fStr j "fmt"
  match parseFmt fmt with
  | none => .error s!"fmt {fmt} is outside the modelled '.Nf' forms"
  | some p => pure { coordsys := ← fStr j "coordsys", prec := p, radunit := ← fStr j "radunit" }

def qnOf (j : Json) : Except String (String → String) := do
  let tbl ← (← jArr (fieldD j "qtable" (.arr #[]))).mapM fun e => do
    match ← jArr e with
    | [a, b] => pure (← jStr a, ← jStr b)
    | _ => .error "qtable entry"
  pure fun s => (tbl.lookup s).getD s

/-! structured lines -/

def decOf (j : Json) : Except String Dec := do
  match ← jArr j with
  | [n, m, s] => pure ⟨← jBool n, ← jNat m, ← jNat s⟩
  | _ => .error "Dec needs [neg, mant, scale]"

def cunitOf (s : String) : Except String CUnit :=
  match s with
  | "deg" => pure .deg | "rad" => pure .rad | "pix" => pure .pix | "bare" => pure .bare
  | _ => .error s!"bad coordinate unit {s}"

def coordOf (j : Json) : Except String Coord := do
  let t ← fStr j "t"
  if t == "dec" then
    return .dec (← decOf (← field j "d")) (← cunitOf (← fStr j "u"))
  let neg ← fBool j "neg"
  let plus ← jBool (fieldD j "plus" (.bool false))
  let a ← jNat (← field j "a")
  let b ← jNat (← field j "b")
  if t == "hm" then return .hm neg a b plus
  if t == "dm" then return .dm neg a b plus
  let s ← decOf (← field j "s")
  match t with
  | "hms" => pure (.hms neg a b s plus) | "dms" => pure (.dms neg a b s plus)
  | "colon" => pure (.colon neg a b s plus) | "dots" => pure (.dots neg a b s plus)
  | _ => .error s!"bad coordinate notation {t}"

def ptOf (j : Json) : Except String Pt := do
  match ← jArr j with
  | [x, y] => pure (← coordOf x, ← coordOf y)
  | _ => .error "Pt needs 2 coordinates"

def lunitOf (s : String) : LUnit :=
  match s with
  | "deg" => .deg | "rad" => .rad | "arcmin" => .arcmin | "arcsec" => .arcsec | "pix" => .pix
  | "dq" => .dq | "sq" => .sq | "none" => .none
  | s => .other ((s.splitOn "other:").getLastD s)

def lenOf (j : Json) : Except String Len := do
  pure ⟨← decOf (← field j "d"), lunitOf (← fStr j "u")⟩

def bodyOf (j : Json) : Except String Body := do
  let n ← fStr j "n"
  let pt (k : String) : Except String Pt := do ptOf (← field j k)
  let ln (k : String) : Except String Len := do lenOf (← field j k)
  match n with
  | "circle" => pure (.circle (← pt "c") (← ln "r"))
  | "annulus" => pure (.annulus (← pt "c") (← ln "r1") (← ln "r2"))
  | "ellipse" => pure (.ellipse (← pt "c") (← ln "a") (← ln "b") (← ln "ang"))
  | "box" => pure (.box (← pt "c1") (← pt "c2"))
  | "centerbox" => pure (.centerbox (← pt "c") (← ln "w") (← ln "h"))
  | "rotbox" => pure (.rotbox (← pt "c") (← ln "w") (← ln "h") (← ln "ang"))
  | "poly" => pure (.poly (← (← fArr j "vs").mapM ptOf))
  | "line" => pure (.line (← pt "p") (← pt "q"))
  | "symbol" => pure (.symbol (← pt "c") (← fStr j "sym"))
  | "point" => pure (.point (← pt "c"))
  | "text" => pure (.text (← pt "c") (← fStr j "s"))
  | _ => .error s!"bad region keyword {n}"

def itemOf (j : Json) : Except String MItem := do
  if j.isNull then return .empty
  let k ← fStr j "k"
  if let some l := jOpt j "l" then
    return .pair k (.list (← (← jArr l).mapM jStr))
  let q ← match fieldD j "q" (.str "none") with
    | .str "single" => pure Quote.single
    | .str "double" => pure Quote.double
    | _ => pure Quote.none
  pure (.pair k (.scalar (← fStr j "s") q))

def lineOf (j : Json) : Except String SrcLine := do
  match ← fStr j "t" with
  | "blank" => pure .blank
  | "comment" => pure (.comment (← fStr j "s"))
  | "global" => pure (.global (← (← fArr j "items").mapM itemOf))
  | "region" =>
    let b (k : String) (d : Bool) : Except String Bool := jBool (fieldD j k (.bool d))
    pure (.region { excl := ← b "excl" false, plus := ← b "plus" false, ann := ← b "ann" false,
                    body := ← bodyOf (← field j "body"), items := ← (← fArr j "items").mapM itemOf,
                    comma := ← b "comma" true, space := ← b "space" false })
  | t => .error s!"bad line type {t}"

/-! results -/

def uTo : U → String
  | .deg => "deg" | .rad => "rad" | .hour => "hour" | .arcmin => "arcmin" | .arcsec => "arcsec"
  | .none => ""

def qTo (a : Q) : Json := Json.arr #[ofRat a.v, Json.str (uTo a.u), Json.bool a.ang]

def rregTo (r : RReg) : Json :=
  Json.mkObj [
    ("kind", kindTo r.kind), ("frame", r.frame),
    ("pts", .arr (r.pts.map fun p => Json.arr #[qTo p.1, qTo p.2]).toArray),
    ("sizes", .arr (r.sizes.map qTo).toArray),
    ("angle", match r.angle with | some a => qTo a | none => .null),
    ("text", match r.text with | some t => Json.str t | none => .null),
    ("meta", alistTo r.mt), ("visual", alistTo r.vis)]

def exTo {α : Type} (f : α → Json) : Except Err α → Json
  | .ok a => Json.mkObj [("ok", f a)]
  | .error e => Json.mkObj [("err", e.name)]

def parseTo (r : Except Err (List RReg)) : Json := exTo (fun l => .arr (l.map rregTo).toArray) r

end C11

open C11 in
def c11Ops : List (String × Handler) := [
  ("crtf.roundtrip", fun j => do
    let o ← optsOf j
    let rs ← (← fArr j "regions").mapM wregOf
    let qn ← qnOf j
    let q := Quirks.current
    let out := serialize q o rs
    let out2 := serialize q o (afterSerialize q rs)
    let txt (r : Except Err (List SrcLine)) : Json := exTo (fun ls => Json.str (renderFile ls)) r
    let p : Json := match out with
      | .ok ls => parseTo (parse q qn ls)
      | .error _ => .null
    -- fixed point: serialise what the model parsed, parse again
    let fp : List (String × Json) := match out with
      | .ok ls => match parse q qn ls with
        | .ok regs => match regs.mapM (toW o) with
          | some ws =>
            let out3 := serialize q o ws
            [("fp_ser", txt out3), ("fp_parse", match out3 with | .ok l3 => parseTo (parse q qn l3) | .error _ => .null)]
          | none => [("fp_ser", Json.str "not in the requested frame/units")]
        | .error _ => []
      | .error _ => []
    pure (Json.mkObj ([("ser", txt out), ("parse", p), ("ser2", txt out2)] ++ fp))),
  ("crtf.parse", fun j => do
    let ls ← (← fArr j "lines").mapM lineOf
    let qn ← qnOf j
    pure (Json.mkObj [("text", Json.str (renderFile ls)),
                      ("parse", parseTo (parse Quirks.current qn ls))])),
  ("crtf.fmt", fun j => do
    let p ← jNat (← field j "prec")
    let xs ← fRats j "xs"
    pure (Json.mkObj [("ok", ofStrs (xs.map fun x => (fmtDec p x).render))]))
]

end Driver
