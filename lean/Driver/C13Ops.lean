/-
JSON ops for C13: run effect programs of `Impl.Effects` on small heaps (correspondence of the
heap semantics with traced real operations), evaluate iterator streams, and report the site /
module-state tables that were generated from the source and compiled into the proofs.

Encodings
  value   {"r": id} | {"i": "text"}                      (heap)
          {"old": id} | {"new": k} | {"i": "text"}       (programs)
  object  {"d": [[key, value]...]} | {"l": [value...]} | {"c": "text"} | {"o": [tag, [ref...]]}
  effect  {"e": "alloc", "o": obj} | {"e": "copyDeep"|"copyShallow"|"read", "src": ref}
          {"e": "write", "cls", "tgt", "o"} | {"e": "setItem", "cls", "tgt", "key", "v"}
          {"e": "pop", "cls", "tgt", "key"} | {"e": "update", "cls", "tgt", "items": [[key, value]...]}
          {"e": "append", "cls", "tgt", "v"}
-/
import Driver.Proto
import RegionsVerif.Impl.Effects
import RegionsVerif.Gen.Effects

namespace Driver
open Lean RegionsVerif.Impl.Effects

def c13Nat (n : Nat) : Json := Json.num (JsonNumber.fromNat n)

def c13Val (j : Json) : Except String Val :=
  match j.getObjVal? "r", j.getObjVal? "i" with
  | .ok r, _ => do pure (.ref (← jInt r).toNat)
  | _, .ok (.str s) => pure (.imm s)
  | _, _ => .error s!"bad value {j}"

def c13Obj (j : Json) : Except String Obj :=
  match j.getObjVal? "d", j.getObjVal? "l", j.getObjVal? "c", j.getObjVal? "o" with
  | .ok d, _, _, _ => do
    let items ← (← jArr d).mapM fun kv => do
      match ← jArr kv with
      | [k, v] => pure ((← jStr k), (← c13Val v))
      | _ => .error "dict item"
    pure (.dict items)
  | _, .ok l, _, _ => do pure (.list (← (← jArr l).mapM c13Val))
  | _, _, .ok (.str s), _ => pure (.cell s)
  | _, _, _, .ok o => do
    match ← jArr o with
    | [t, r] => pure (.opaque (← jStr t) ((← (← jArr r).mapM jInt).map Int.toNat))
    | _ => .error "opaque"
  | _, _, _, _ => .error s!"bad object {j}"

def c13Ref (j : Json) : Except String Ref :=
  match j.getObjVal? "old", j.getObjVal? "new" with
  | .ok i, _ => do pure (.old (← jInt i).toNat)
  | _, .ok k => do pure (.new (← jInt k).toNat)
  | _, _ => .error s!"bad ref {j}"

def c13RVal (j : Json) : Except String RVal :=
  match j.getObjVal? "i" with
  | .ok (.str s) => pure (.imm s)
  | _ => do pure (.ref (← c13Ref j))

def c13RObj (j : Json) : Except String RObj :=
  match j.getObjVal? "d", j.getObjVal? "l", j.getObjVal? "c", j.getObjVal? "o" with
  | .ok d, _, _, _ => do
    let items ← (← jArr d).mapM fun kv => do
      match ← jArr kv with
      | [k, v] => pure ((← jStr k), (← c13RVal v))
      | _ => .error "dict item"
    pure (.dict items)
  | _, .ok l, _, _ => do pure (.list (← (← jArr l).mapM c13RVal))
  | _, _, .ok (.str s), _ => pure (.cell s)
  | _, _, _, .ok o => do
    match ← jArr o with
    | [t, r] => pure (.opaque (← jStr t) (← (← jArr r).mapM c13Ref))
    | _ => .error "opaque"
  | _, _, _, _ => .error s!"bad object {j}"

def c13Cls (s : String) : Except String RecvClass :=
  match s with
  | "fresh" => pure .fresh
  | "selfInit" => pure .selfInit
  | "immutableScalar" => pure .immutableScalar
  | "input" => pure .input
  | "moduleState" => pure .moduleState
  | "unknown" => pure .unknown
  | _ => .error s!"class {s}"

def c13ClsName : RecvClass → String
  | .fresh => "fresh" | .selfInit => "selfInit" | .immutableScalar => "immutableScalar"
  | .input => "input" | .moduleState => "moduleState" | .unknown => "unknown"

def c13Items (j : Json) : Except String (List (String × RVal)) := do
  (← jArr j).mapM fun kv => do
    match ← jArr kv with
    | [k, v] => pure ((← jStr k), (← c13RVal v))
    | _ => .error "item"

def c13Effect (j : Json) : Except String Effect := do
  let e ← fStr j "e"
  match e with
  | "alloc" => pure (.alloc (← c13RObj (← field j "o")))
  | "copyDeep" => pure (.copyDeep (← c13Ref (← field j "src")))
  | "copyShallow" => pure (.copyShallow (← c13Ref (← field j "src")))
  | "read" => pure (.read (← c13Ref (← field j "src")))
  | "write" => pure (.write (← c13Cls (← fStr j "cls")) (← c13Ref (← field j "tgt")) (← c13RObj (← field j "o")))
  | "setItem" =>
    pure (.setItem (← c13Cls (← fStr j "cls")) (← c13Ref (← field j "tgt")) (← fStr j "key") (← c13RVal (← field j "v")))
  | "pop" => pure (.pop (← c13Cls (← fStr j "cls")) (← c13Ref (← field j "tgt")) (← fStr j "key"))
  | "update" => pure (.update (← c13Cls (← fStr j "cls")) (← c13Ref (← field j "tgt")) (← c13Items (← field j "items")))
  | "append" => pure (.append (← c13Cls (← fStr j "cls")) (← c13Ref (← field j "tgt")) (← c13RVal (← field j "v")))
  | _ => .error s!"effect {e}"

def c13ValJson : Val → Json
  | .ref i => Json.mkObj [("r", c13Nat i)]
  | .imm s => Json.mkObj [("i", Json.str s)]

def c13ObjJson : Obj → Json
  | .dict items => Json.mkObj [("d", Json.arr (items.map fun kv => Json.arr #[Json.str kv.1, c13ValJson kv.2]).toArray)]
  | .list items => Json.mkObj [("l", Json.arr (items.map c13ValJson).toArray)]
  | .cell v => Json.mkObj [("c", Json.str v)]
  | .opaque t r => Json.mkObj [("o", Json.arr #[Json.str t, Json.arr (r.map fun i => c13Nat i).toArray])]

partial def c13TreeJson : Tree → Json
  | .leaf s => Json.arr #[Json.str "leaf", Json.str s]
  | .cut => Json.arr #[Json.str "cut"]
  | .node k ch => Json.arr #[Json.str "node", Json.str k,
      Json.arr (ch.map fun p => Json.arr #[Json.str p.1, c13TreeJson p.2]).toArray]

def c13Iter : Json → Except String IterExpr
  | j => do
    let k ← fStr j "k"
    match k with
    | "cycle" => pure (.cycle (← (← fArr j "items").mapM jStr))
    | "tuple" => pure (.tuple (← (← fArr j "items").mapM jStr))
    | "count" => pure .count
    | "repeat" => pure (.repeat (← fStr j "x"))
    | "chain" => do
      -- one level of nesting is all the source uses; deeper chains are flattened by the harness
      let parts ← (← fArr j "parts").mapM fun p => do
        let pk ← fStr p "k"
        match pk with
        | "cycle" => pure (IterExpr.cycle (← (← fArr p "items").mapM jStr))
        | "tuple" => pure (IterExpr.tuple (← (← fArr p "items").mapM jStr))
        | "count" => pure IterExpr.count
        | "repeat" => pure (IterExpr.repeat (← fStr p "x"))
        | _ => pure (IterExpr.other pk)
      pure (.chain parts)
    | _ => pure (.other k)

partial def c13IterJson : IterExpr → Json
  | .cycle items => Json.mkObj [("k", "cycle"), ("items", ofStrs items)]
  | .tuple items => Json.mkObj [("k", "tuple"), ("items", ofStrs items)]
  | .chain parts => Json.mkObj [("k", "chain"), ("parts", Json.arr (parts.map c13IterJson).toArray)]
  | .count => Json.mkObj [("k", "count")]
  | .repeat x => Json.mkObj [("k", "repeat"), ("x", Json.str x)]
  | .other s => Json.mkObj [("k", "other"), ("src", Json.str s)]

def c13OptStr : Option String → Json
  | some s => Json.str s
  | none => .null

def c13Ops : List (String × Handler) := [
  ("c13.run", fun j => do
    let objs ← (← fArr j "heap").mapM c13Obj
    let h := Heap.ofList objs
    let roots := (← fInts j "roots").map Int.toNat
    let prog ← (← fArr j "prog").mapM c13Effect
    let h' := run h prog
    let changed := changedIds h roots prog
    let reach := reachList h roots
    let cells := changed.map fun i => Json.arr #[c13Nat i,
      match h'.cells i with | some o => c13ObjJson o | none => .null]
    let (tree, rootCell) ← match fieldD j "unfold" .null with
      | .null => pure (Json.null, Json.null)
      | r => do
        let rf ← c13Ref r
        let depth := (← fInt j "depth").toNat
        let i := rf.resolve h.next
        pure (c13TreeJson (unfold h' depth i), match h'.cells i with | some o => c13ObjJson o | none => .null)
    pure (Json.mkObj [("changed", Json.arr (changed.map fun i => c13Nat i).toArray),
                      ("cells", Json.arr cells.toArray),
                      ("reach", Json.arr (reach.map fun i => c13Nat i).toArray),
                      ("next", c13Nat h'.next),
                      ("allocated", c13Nat (h'.next - h.next)),
                      ("local", Json.bool (prog.all Effect.isLocal)),
                      ("classOK", Json.bool (prog.all Effect.classOK)),
                      ("tree", tree), ("rootCell", rootCell)])),
  ("c13.iter", fun j => do
    let e ← c13Iter (← field j "expr")
    let pos := (← fInt j "pos").toNat
    let m := (← fInt j "m").toNat
    pure (Json.mkObj [("take", Json.arr ((e.take pos m).map c13OptStr).toArray),
                      ("stateless", Json.bool e.statelessB)])),
  ("c13.table", fun _ => do
    let sites := RegionsVerif.Gen.Effects.sites
    let ms := RegionsVerif.Gen.Effects.moduleState
    let row := fun (s : Site) => Json.arr #[Json.str s.file, c13Nat s.line, Json.str s.func,
      Json.str s.recv, Json.str (c13ClsName s.cls)]
    pure (Json.mkObj [("n", c13Nat sites.length),
      ("sites", Json.arr (sites.map row).toArray),
      ("module", Json.arr (ms.map fun en => Json.mkObj [
        ("name", Json.str en.name), ("file", Json.str en.file),
        ("iter", match en.kind with | .iterator e => c13IterJson e | .container => .null),
        ("stateless", match en.kind with | .iterator e => Json.bool e.statelessB | .container => .null),
        ("readers", c13Nat en.readers.length),
        ("writers", Json.arr (en.writers.map fun w => Json.arr #[Json.str w.1.file, c13Nat w.1.line, Json.bool w.2]).toArray)]).toArray)]))
]

end Driver
