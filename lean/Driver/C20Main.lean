import Driver.Loop
import Driver.C20Ops
def main : IO Unit := Driver.run Driver.c20Ops
