import Driver.ShapeOps
import Driver.BBoxOps
import RegionsVerif.Impl.Extent

namespace Driver
open Lean RegionsVerif.Impl

def c04Ops : List (String × Handler) := [
  ("region.bbox", fun j => do
    let r ← getReg (← field j "region")
    pure (exBox r.bbox))
]

end Driver
