/-
Executable model driver loop: reads one JSON request per line on stdin
(`{"op": "...", ...}`), writes one JSON reply per line on stdout.
Each property has its own entry point `Driver/CxxMain.lean` (so that properties do not
share build dependencies); run with `lake env lean --run Driver/CxxMain.lean`.
-/
import Driver.Proto

namespace Driver
open Lean

def handleLine (ops : List (String × Handler)) (line : String) : String :=
  match Json.parse line with
  | .error e => (Json.mkObj [("fail", s!"parse: {e}")]).compress
  | .ok j =>
    match fStr j "op" with
    | .error e => (Json.mkObj [("fail", e)]).compress
    | .ok op =>
      match ops.lookup op with
      | none => (Json.mkObj [("fail", s!"unknown op {op}")]).compress
      | some h =>
        match h j with
        | .ok r => r.compress
        | .error e => (Json.mkObj [("fail", e)]).compress

partial def loop (ops : List (String × Handler)) (hin hout : IO.FS.Stream) : IO Unit := do
  let line ← hin.getLine
  if line.isEmpty then return ()
  let l := line.trimAscii.toString
  if l.isEmpty then loop ops hin hout
  else
    hout.putStrLn (handleLine ops l)
    loop ops hin hout

def run (ops : List (String × Handler)) : IO Unit := do
  let hin ← IO.getStdin
  let hout ← IO.getStdout
  loop ops hin hout
  hout.flush

end Driver
