/-
JSON ops for the C16 model (`Impl/Value.lean`): one op `c16.run` that interprets a small
program (copy / deepcopy / eq / ne / in-place mutation / Regions slicing and list edits) over a
world of named roots and returns the per-step results and the final object graphs.

Values: atoms `{"n":"p/q"|"nan"}`, `{"s":…}`, `{"b":…}`, `null`, `{"fn":…}`, `{"e":0}`;
objects `{"id":i,"k":kind,"f":[[label, value],…]}` (`k` = `region:<Class>` for regions).
-/
import Driver.Proto
import RegionsVerif.Impl.Value

namespace Driver.C16
open Lean Driver RegionsVerif.Impl.Value

def kindStr : Kind → String
  | .dict => "dict" | .rmeta => "rmeta" | .rvisual => "rvisual" | .list => "list"
  | .array => "array" | .quantity => "quantity" | .pixcoord => "pixcoord" | .skycoord => "skycoord"
  | .region c => "region:" ++ c | .regions => "regions"

def kindOf (s : String) : Except String Kind :=
  match s with
  | "dict" => .ok .dict | "rmeta" => .ok .rmeta | "rvisual" => .ok .rvisual | "list" => .ok .list
  | "array" => .ok .array | "quantity" => .ok .quantity | "pixcoord" => .ok .pixcoord
  | "skycoord" => .ok .skycoord | "regions" => .ok .regions
  | _ => if s.startsWith "region:" then .ok (.region (s.drop 7).toString) else .error s!"bad kind {s}"

def excStr : Exc → String
  | .typeError => "TypeError" | .valueError => "ValueError" | .keyError => "KeyError"
  | .indexError => "IndexError" | .attributeError => "AttributeError"

partial def vOfJson (j : Json) : Except String V := do
  match j with
  | .null => pure (.atom .none)
  | _ =>
    match j.getObjVal? "id" with
    | .ok jid => do
      let id ← jInt jid
      let k ← kindOf (← fStr j "k")
      let fl ← fArr j "f"
      let fs ← fl.mapM fun e => do
        match ← jArr e with
        | [jk, jv] => do pure ((← jStr jk), (← vOfJson jv))
        | _ => .error "field needs [label, value]"
      pure (.node id.toNat k (Fields.ofList fs))
    | .error _ =>
      match j.getObjVal? "n" with
      | .ok (.str "nan") => pure (.atom (.num .nan))
      | .ok jn => do pure (.atom (.num (.fin (← jRat jn))))
      | .error _ =>
        match j.getObjVal? "s" with
        | .ok js => do pure (.atom (.str (← jStr js)))
        | .error _ =>
          match j.getObjVal? "b" with
          | .ok jb => do pure (.atom (.bool (← jBool jb)))
          | .error _ =>
            match j.getObjVal? "fn" with
            | .ok jf => do pure (.atom (.fn (← jStr jf)))
            | .error _ =>
              match j.getObjVal? "e" with
              | .ok _ => pure (.atom .elided)
              | .error _ => .error s!"bad value {j}"

def atomJson : Atom → Json
  | .num (.fin q) => Json.mkObj [("n", ofRat q)]
  | .num .nan => Json.mkObj [("n", "nan")]
  | .str s => Json.mkObj [("s", s)]
  | .bool b => Json.mkObj [("b", b)]
  | .none => .null
  | .fn f => Json.mkObj [("fn", f)]
  | .elided => Json.mkObj [("e", (0 : Nat))]

mutual
partial def vJson : V → Json
  | .atom a => atomJson a
  | .node i k fs => Json.mkObj [("id", (i : Nat)), ("k", kindStr k), ("f", Json.arr (fsJson fs).toArray)]
partial def fsJson : Fields → List Json
  | .nil => []
  | .cons key v r => Json.arr #[Json.str key, vJson v] :: fsJson r
end

structure St where
  world : World
  next : Nat

def maxId (v : V) : Nat := v.ids.foldl max 0

def getRef (st : St) (j : Json) : Except String V := do
  let root ← fStr j "root"
  let path ← (← fArr j "path").mapM jStr
  match st.world.lookup root with
  | none => .error s!"UNRESOLVED root {root}"
  | some v =>
    match v.resolve path with
    | some r => pure r
    | none => .error s!"UNRESOLVED path {path} under {root}"

/-- a value argument: a reference to an existing object (aliasing on purpose) or a fresh
template that is moved to fresh ids. -/
def getVal (st : St) (j : Json) : Except String (V × St) := do
  match j.getObjVal? "ref" with
  | .ok r => do pure ((← getRef st r), st)
  | .error _ => do
    let v ← vOfJson j
    pure (v.shift st.next, { st with next := st.next + maxId v + 1 })

def bind (st : St) (name : String) (v : V) : St :=
  { st with world := (st.world.filter fun r => r.1 != name) ++ [(name, v)] }

def optInt (j : Json) (k : String) : Except String (Option Int) :=
  match fieldD j k .null with
  | .null => pure none
  | x => do pure (some (← jInt x))

def resJson : Except Exc Bool → Json
  | .ok b => Json.bool b
  | .error e => Json.str (excStr e)

def worldJson (w : World) : Json :=
  Json.arr (w.map fun r => Json.arr #[Json.str r.1, vJson r.2]).toArray

def stepCore (tol : Tol) (st : St) (j : Json) : Except String (St × Json) := do
  match ← fStr j "do" with
  | "copy" => do
    let src ← getRef st (← field j "src")
    let mut st := st
    let mut changes : List (String × V) := []
    for c in ← fArr j "changes" do
      match ← jArr c with
      | [jk, jv] =>
        let (v, st') ← getVal st jv
        st := st'
        changes := changes ++ [((← jStr jk), v)]
      | _ => throw "change needs [field, value]"
    match copyRegion st.next st.next src changes with
    | .ok (r, n) => pure (bind { st with next := n } (← fStr j "dst") r, Json.str "ok")
    | .error e => pure (st, Json.str (excStr e))
  | "rebuild" => do
    -- `type(src)(**{p: getattr(src, p) for p in src._params})`: the parameter objects themselves,
    -- no meta / visual argument
    let src ← getRef st (← field j "src")
    match src with
    | .node _ (.region cls) fs =>
      match classInfo? cls with
      | none => pure (st, Json.str "TypeError")
      | some c =>
        let args := c.params.map fun p => (p, fs.getD p (.atom .none))
        match construct c args st.next with
        | .ok (r, n) => pure (bind { st with next := n } (← fStr j "dst") r, Json.str "ok")
        | .error e => pure (st, Json.str (excStr e))
    | _ => pure (st, Json.str "AttributeError")
  | "deepcopy" => do
    let src ← getRef st (← field j "src")
    let (r, n) := deepcopy st.next st.next src
    pure (bind { st with next := n } (← fStr j "dst") r, Json.str "ok")
  | "new" => do
    let (v, st) ← getVal st (← field j "val")
    pure (bind st (← fStr j "dst") v, Json.str "ok")
  | "eq" => do
    let a ← getRef st (← field j "a")
    let b ← getRef st (← field j "b")
    pure (st, resJson (eqRegion tol a b))
  | "ne" => do
    let a ← getRef st (← field j "a")
    let b ← getRef st (← field j "b")
    pure (st, resJson (neRegion tol a b))
  | "mut" => do
    let at_ ← getRef st (← field j "at")
    let mut st := st
    let one (st : St) (key : String) : Except String (V × St) := do getVal st (← field j key)
    let op ← match ← fStr j "op" with
      | "set" => do
        let (v, st') ← one st "val"; st := st'
        pure (FOp.set (← fStr j "key") v)
      | "del" => do pure (FOp.del (← fStr j "key"))
      | "setidx" => do
        let (v, st') ← one st "val"; st := st'
        pure (FOp.setIdx (← fInt j "idx").toNat v)
      | "append" => do
        let (v, st') ← one st "val"; st := st'
        pure (FOp.append v)
      | "extend" => do
        let mut vs : List V := []
        for jv in ← fArr j "vals" do
          let (v, st') ← getVal st jv
          st := st'
          vs := vs ++ [v]
        pure (FOp.extend vs)
      | "extendfrom" => do
        -- `tgt.extend(other_regions_object)`: the elements of the other object's list, as they are now
        let src ← getRef st (← field j "src")
        pure (FOp.extend (regionsItems src))
      | "update" => do
        -- `d.update(other, **kw)` / `d |= other`: the entries of `other` as they are now (the value
        -- objects themselves), then the keyword entries
        let mut items : List (String × V) := []
        match j.getObjVal? "src" with
        | .ok r =>
          match ← getRef st r with
          | .node _ _ fs => items := fs.toList
          | .atom _ => throw "update source is not an object"
        | .error _ => pure ()
        for it in (fieldD j "items" (Json.arr #[])).getArr?.toOption.getD #[] do
          match ← jArr it with
          | [jk, jv] =>
            let (v, st') ← getVal st jv
            st := st'
            items := items ++ [((← jStr jk), v)]
          | _ => throw "update item needs [key, value]"
        pure (FOp.update items)
      | "setdefault" => do
        let (v, st') ← one st "val"; st := st'
        pure (FOp.setdefault (← fStr j "key") v)
      | "insert" => do
        let (v, st') ← one st "val"; st := st'
        pure (FOp.insert (← fInt j "idx") v)
      | "pop" => do pure (FOp.pop (← fInt j "idx"))
      | "reverse" => pure FOp.reverse
      | "clear" => pure FOp.clear
      | o => throw s!"unknown mutation {o}"
    match at_ with
    | .node i k fs =>
      match op.apply k fs with
      | .error e => pure (st, Json.str (excStr e))
      | .ok _ =>
        match op with
        | .set key v =>
          -- attribute assignment may trigger further writes (`RegularPolygonPixelRegion.__setattr__`)
          match setAttrWrites at_ key v st.next with
          | .error e => pure (st, Json.str (excStr e))
          | .ok (ws, n) => pure ({ st with world := st.world.mutateAll ws, next := n }, Json.str "ok")
        | _ => pure ({ st with world := st.world.mutate ⟨i, op⟩ }, Json.str "ok")
    | .atom _ => throw "mutation target is not an object"
  | "slice" => do
    let src ← getRef st (← field j "src")
    match regionsSlice src (← optInt j "start") (← optInt j "stop") (← optInt j "step") st.next with
    | .ok (r, n) => pure (bind { st with next := n } (← fStr j "dst") r, Json.str "ok")
    | .error e => pure (st, Json.str (excStr e))
  | "rcopy" => do
    let src ← getRef st (← field j "src")
    let (r, n) := regionsCopy src st.next
    pure (bind { st with next := n } (← fStr j "dst") r, Json.str "ok")
  | "item" => do
    let src ← getRef st (← field j "src")
    match regionsItem src (← fInt j "idx") with
    | .ok r => pure (bind st (← fStr j "dst") r, Json.str "ok")
    | .error e => pure (st, Json.str (excStr e))
  | "snap" => pure (st, worldJson st.world)
  | d => throw s!"unknown step {d}"

/-- a step whose reference does not resolve (unknown root, missing attribute / key / index)
answers `Unresolved` and changes nothing. -/
def step (tol : Tol) (st : St) (j : Json) : Except String (St × Json) :=
  match stepCore tol st j with
  | .ok r => .ok r
  | .error e => if e.startsWith "UNRESOLVED" then .ok (st, Json.str "Unresolved") else .error e

def c16Ops : List (String × Handler) := [
  ("c16.run", fun j => do
    let roots ← (← fArr j "roots").mapM fun r => do
      match ← jArr r with
      | [jk, jv] => do pure ((← jStr jk), (← vOfJson jv))
      | _ => .error "root needs [name, value]"
    let tol ← match ← fRats j "tol" with
      | [r, a] => pure (Tol.mk r a)
      | _ => .error "tol needs [rtol, atol]"
    let next := (roots.map fun r => maxId r.2).foldl max 0 + 1
    let mut st : St := ⟨roots, next⟩
    let mut outs : Array Json := #[]
    for s in ← fArr j "prog" do
      let (st', o) ← step tol st s
      st := st'
      outs := outs.push o
    pure (Json.mkObj [("out", Json.arr outs), ("roots", worldJson st.world)]))
]

end Driver.C16
