/-
JSON ops that run the C18 model (`RegionsVerif/Impl/Artist.lean`).

  c18.artist  {region, origin, visual, caller, inner_path?, outer_path?}
              → {"kind": class name, "args": constructor arguments, "kw": final keyword dict,
                 "define": define_mpl_kwargs result}  |  {"exc": exception class}
  c18.kwargs  {artist, visual, caller}     → {"define": …, "final": …}
  c18.bbox    {box: [ixmin, ixmax, iymin, iymax]}  → rectangle arguments

Region JSON as in `ShapeOps` plus `"deg"` (the value of `angle.to('deg').value`) and `"text"`.
Paths: {"v": [[x, y], …], "c": [codes]}.  Keyword values: {"s": str} | {"n": "p/q"} |
{"b": bool} | null | {"l": ["p/q", …]} | {"o": repr}.
-/
import Driver.ShapeOps
import RegionsVerif.Impl.Artist

namespace Driver
open Lean RegionsVerif.Impl RegionsVerif.Impl.Artist

namespace C18

def getAng (j : Json) : Except String (Ang ℚ) := do
  pure ⟨← fDir j "dir", ← fRat j "deg"⟩

partial def getAReg (j : Json) : Except String (AReg ℚ) := do
  match ← fStr j "kind" with
  | "circle" => pure (.circle (← fPt j "c") (← fRat j "r"))
  | "ellipse" => pure (.ellipse (← fPt j "c") (← fRat j "w") (← fRat j "h") (← getAng j))
  | "rectangle" => pure (.rect (← fPt j "c") (← fRat j "w") (← fRat j "h") (← getAng j))
  | "polygon" =>
    match j.getObjVal? "center" with
    | .ok cj => pure (.regularPolygon (← getPt cj) (← (← fArr j "v").mapM getPt))
    | .error _ => pure (.polygon (← (← fArr j "v").mapM getPt))
  | "circle_annulus" => pure (.circleAnnulus (← fPt j "c") (← fRat j "r1") (← fRat j "r2"))
  | "ellipse_annulus" =>
    pure (.ellipseAnnulus (← fPt j "c") (← fRat j "w1") (← fRat j "h1") (← fRat j "w2") (← fRat j "h2")
      (← getAng j))
  | "rectangle_annulus" =>
    pure (.rectAnnulus (← fPt j "c") (← fRat j "w1") (← fRat j "h1") (← fRat j "w2") (← fRat j "h2")
      (← getAng j))
  | "point" => pure (.point (← fPt j "c"))
  | "text" => pure (.text (← fPt j "c") (← fStr j "text"))
  | "line" => pure (.line (← fPt j "a") (← fPt j "b"))
  | "compound" => do
    let op ← match ← fStr j "op" with
      | "and" => pure BoolOp.and
      | "or" => pure BoolOp.or
      | "xor" => pure BoolOp.xor
      | o => .error s!"bad op {o}"
    pure (.compound op (← getAReg (← field j "a")) (← getAReg (← field j "b")))
  | k => .error s!"unknown region kind {k}"

def getKVal (j : Json) : Except String KVal := do
  match j with
  | .null => pure .none
  | _ =>
    match j.getObjVal? "s" with
    | .ok v => pure (.str (← jStr v))
    | .error _ =>
    match j.getObjVal? "n" with
    | .ok v => pure (.num (← jRat v))
    | .error _ =>
    match j.getObjVal? "b" with
    | .ok v => pure (.bool (← jBool v))
    | .error _ =>
    match j.getObjVal? "l" with
    | .ok v => pure (.nums (← (← jArr v).mapM jRat))
    | .error _ =>
    match j.getObjVal? "o" with
    | .ok v => pure (.other (← jStr v))
    | .error _ => .error s!"bad kwargs value {j}"

def getKw (j : Json) : Except String Kw := do
  (← jArr j).mapM fun e => do
    match ← jArr e with
    | [k, v] => pure (← jStr k, ← getKVal v)
    | _ => .error "kwargs item needs [key, value]"

def ofKVal : KVal → Json
  | .str s => Json.mkObj [("s", .str s)]
  | .num q => Json.mkObj [("n", ofRat q)]
  | .bool b => Json.mkObj [("b", .bool b)]
  | .none => .null
  | .nums l => Json.mkObj [("l", ofRats l)]
  | .other s => Json.mkObj [("o", .str s)]

def ofKw (d : Kw) : Json := .arr (d.map fun e => Json.arr #[.str e.1, ofKVal e.2]).toArray

def ofPts (l : List (Pt ℚ)) : Json := .arr (l.map ofPt).toArray

def getPath (j : Json) : Except String (List (Pt ℚ) × List Nat) := do
  let v ← (← fArr j "v").mapM getPt
  let c ← (← fArr j "c").mapM jInt
  pure (v, c.map Int.toNat)

def patchArgs : Patch ℚ → Json
  | .circle xy r => Json.mkObj [("xy", ofPt xy), ("radius", ofRat r)]
  | .ellipse xy w h a => Json.mkObj [("xy", ofPt xy), ("width", ofRat w), ("height", ofRat h), ("angle", ofRat a)]
  | .rectangle xy w h a => Json.mkObj [("xy", ofPt xy), ("width", ofRat w), ("height", ofRat h), ("angle", ofRat a)]
  | .polygon xy => Json.mkObj [("xy", ofPts xy)]
  | .arrow x y dx dy => Json.mkObj [("x", ofRat x), ("y", ofRat y), ("dx", ofRat dx), ("dy", ofRat dy)]
  | .line2D xs ys => Json.mkObj [("xdata", ofRats xs), ("ydata", ofRats ys)]
  | .text x y s => Json.mkObj [("x", ofRat x), ("y", ofRat y), ("s", .str s)]
  | .pathPatch v c =>
    Json.mkObj [("verts", ofPts v), ("codes", .arr (c.map fun (n : Nat) => Json.num (JsonNumber.fromNat n)).toArray)]

/-- every angle of the request: degree value ↦ (cos, sin) (matplotlib's `rotate_deg`, supplied
by the harness as the pair the code itself used). -/
partial def angTable : AReg ℚ → List (ℚ × Dir ℚ)
  | .ellipse _ _ _ a | .rect _ _ _ a | .ellipseAnnulus _ _ _ _ _ a | .rectAnnulus _ _ _ _ _ a => [(a.deg, a.dir)]
  | .compound _ r1 r2 => angTable r1 ++ angTable r2
  | _ => []

def rotOf (tbl : List (ℚ × Dir ℚ)) (deg : ℚ) : Dir ℚ :=
  match tbl.lookup deg with
  | some d => d
  | none => ⟨1, 0⟩

/-- the transformed path of a component patch: rectangles are computed by the model, curved
patches (Bezier circles / ellipses) are supplied by the harness from the real component patch. -/
def pathOfWith (tbl : List (ℚ × Dir ℚ)) (pin pout : Option (Patch ℚ))
    (innerPath outerPath : Option (List (Pt ℚ) × List Nat)) (p : Patch ℚ) : List (Pt ℚ) × List Nat :=
  if some p = pin ∧ innerPath.isSome then innerPath.getD ([], [])
  else if some p = pout ∧ outerPath.isSome then outerPath.getD ([], [])
  else match p with
    | .rectangle xy w h a => rectanglePath (rotOf tbl) xy w h a
    | _ => ([], [])

def optPath (j : Json) (k : String) : Except String (Option (List (Pt ℚ) × List Nat)) :=
  match j.getObjVal? k with
  | .ok .null => pure none
  | .ok v => do pure (some (← getPath v))
  | .error _ => pure none

def subShoelace (verts : List (Pt ℚ)) (nOuter : Nat) : Json :=
  ofRats [shoelace (closedPolygon (verts.take nOuter)), shoelace (closedPolygon (verts.drop nOuter))]

/-- the model's reading of how matplotlib consumes the final dictionary (tied to the real
matplotlib by the harness): constructor rejects it?  does each caller keyword determine its
property? -/
def mplInfo (a : ArtistKind) (vis caller fin : Kw) : Json :=
  Json.mkObj [
    ("rejects_define", .bool (mplRejects a (defineMplKw a vis))),
    ("rejects_final", .bool (mplRejects a fin)),
    ("alias_safe", .bool (aliasSafe a vis caller)),
    ("override", .arr (caller.map fun e =>
        Json.arr #[.str e.1, .bool (decide (mplEffective a fin (canon a e.1) = some e.2))]).toArray)]

def ops : List (String × Handler) := [
  ("c18.artist", fun j => do
    let r ← getAReg (← field j "region")
    let o ← fPt j "origin"
    let vis ← getKw (fieldD j "visual" (.arr #[]))
    let caller ← getKw (fieldD j "caller" (.arr #[]))
    let innerPath ← optPath j "inner_path"
    let outerPath ← optPath j "outer_path"
    let comps := r.components
    let pin := comps.bind fun c => simpleArtist c.1 o
    let pout := comps.bind fun c => simpleArtist c.2 o
    let pathOf := pathOfWith (angTable r) pin pout innerPath outerPath
    let norm ← match fieldD j "text_normalize" (.bool false) with
      | .bool b => pure b
      | _ => .error "text_normalize must be a bool"
    let kind := match r with | .line _ _ => ArtistKind.patch | r => artistKindOf r
    -- polygon whose vertices are a numpy integer array: numpy's dtype arithmetic (Artist.polygonArtistInt)
    let art ← match j.getObjVal? "vdtype" with
      | .ok dj => do
        let d : IntDT := ⟨(← fInt dj "bits").toNat, ← fBool dj "signed"⟩
        let vi ← (← fArr j "v_int").mapM fun e => do
          match ← (← jArr e).mapM jInt with
          | [x, y] => pure (x, y)
          | _ => .error "v_int needs pairs"
        let pyint ← (← fArr j "origin_pyint").mapM jBool
        let oc (isInt : Bool) (x : ℚ) : OriginC ℚ := if isInt then .pyInt x.num else .other x
        match pyint with
        | [bx, byy] => pure (polygonArtistInt d vi (oc bx o.x) (oc byy o.y))
        | _ => .error "origin_pyint needs 2 bools"
      | .error _ => pure (asArtist pathOf r o)
    match art with
    | .error e => pure (Json.mkObj [("exc", .str e)])
    | .ok p =>
      let extra := match p, pout with
        | .pathPatch v _, some po => [("shoelace", subShoelace v (pathOf po).1.length)]
        | _, _ => []
      let caller' := match r with | .line _ _ => lineCallerKw caller | _ => caller
      let kwPart := match regionKwV norm r vis caller with
        | .ok kw => [("kw", ofKw kw), ("mpl", mplInfo kind vis caller' kw)]
        | .error e => [("kw_exc", Json.str e)]
      pure (Json.mkObj ([("kind", .str p.kind), ("args", patchArgs p),
                         ("define", ofKw (defineMplKw kind vis))] ++ kwPart ++ extra))),
  ("c18.kwargs", fun j => do
    let a ← match ← fStr j "artist" with
      | "Patch" => pure ArtistKind.patch
      | "Line2D" => pure ArtistKind.line2D
      | "Text" => pure ArtistKind.text
      | s => .error s!"bad artist {s}"
    let vis ← getKw (← field j "visual")
    let caller ← getKw (fieldD j "caller" (.arr #[]))
    pure (Json.mkObj [("define", ofKw (defineMplKw a vis)), ("final", ofKw (finalKw a vis caller)),
                      ("mpl", mplInfo a vis caller (finalKw a vis caller))])),
  ("c18.bbox", fun j => do
    match ← fInts j "box" with
    | [a, b, c, d] => pure (Json.mkObj [("kind", .str "Rectangle"), ("args", patchArgs (bboxArtist a b c d : Patch ℚ))])
    | _ => .error "box needs 4 ints")
]

end C18

end Driver
