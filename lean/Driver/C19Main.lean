import Driver.Loop
import Driver.BBoxOps
def main : IO Unit := Driver.run Driver.bboxOps
