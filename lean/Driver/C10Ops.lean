/-
C10 driver ops: run the reference DS9 interpreter (`Spec.Ds9.interp`) on a tokenised file.

request  {"op":"ds9.interp","toks":[ "nl" | ";" | "(" | ")" | "," | "+" | "-" | "#" | "||"
                                     | {"w": "<keyword as written>"}
                                     | {"n": ["dec","p/q","<suffix>"]}
                                     | {"n": ["colon"|"hms"|"dms", neg, a, b, "p/q"]}
                                     | {"p": ["<key as written>","<delim>","<value>"]}
                                     | {"c": "<comment text>"} ]}
reply    {"regions":[{kind,frame,pts,sizes,angle,incl,props,src}]}   (src = statement index)
"code_regions": the same for the model of the code under test = reference + open deviations (Impl.Ds9Read.currentCode)
optional "text": the file as characters; the reply then carries "lex_ok" = (Spec.Ds9.lex text == toks)
-/
import Driver.Proto
import RegionsVerif.Spec.Ds9
import RegionsVerif.Impl.Ds9ReadQuirks

namespace Driver
open Lean RegionsVerif.Spec.Ds9 RegionsVerif.Impl.Ds9Read

def jNat (j : Json) : Except String Nat := do
  let i ← jInt j
  if i < 0 then .error "negative" else pure i.toNat

def suffixOf : String → Except String Suffix
  | "" => pure .none
  | "\"" => pure .arcsec
  | "'" => pure .arcmin
  | "d" => pure .deg
  | "r" => pure .rad
  | "i" => pure .img
  | "p" => pure .phys
  | s => .error s!"bad suffix {s}"

def delimOf : String → Except String Delim
  | "" => pure .bare
  | "{" => pure .brace
  | "\"" => pure .dquote
  | "'" => pure .squote
  | s => .error s!"bad delimiter {s}"

def numOf (j : Json) : Except String Num := do
  match ← jArr j with
  | [k, q, u] =>
    if (← jStr k) == "dec" then pure (.dec (← jRat q) (← suffixOf (← jStr u))) else .error "bad number"
  | [k, n, a, b, c] =>
    let neg ← jBool n
    let a ← jNat a
    let b ← jNat b
    let c ← jRat c
    match ← jStr k with
    | "colon" => pure (.colon neg a b c)
    | "hms" => pure (.hms neg a b c)
    | "dms" => pure (.dms neg a b c)
    | s => .error s!"bad number kind {s}"
  | _ => .error "bad number"

def tokOf (j : Json) : Except String Tok :=
  match j with
  | .str "nl" => pure .nl
  | .str ";" => pure .semi
  | .str "(" => pure .lpar
  | .str ")" => pure .rpar
  | .str "," => pure .comma
  | .str "+" => pure .plus
  | .str "-" => pure .minus
  | .str "#" => pure .hash
  | .str "||" => pure .bars
  | .str s => .error s!"bad token {s}"
  | _ =>
    match j.getObjVal? "w", j.getObjVal? "n", j.getObjVal? "p", j.getObjVal? "c" with
    | .ok w, _, _, _ => do pure (.word (classify (← jStr w)))
    | _, .ok n, _, _ => do pure (.num (← numOf n))
    | _, _, .ok p, _ => do
      match ← jArr p with
      | [k, d, v] => pure (.kv (mkKV (← jStr k) (← delimOf (← jStr d)) (← jStr v)))
      | _ => .error "bad property"
    | _, _, _, .ok c => do pure (.note (← jStr c))
    | _, _, _, _ => .error s!"bad token {j}"

def valJson : Val → Json
  | .pix q => .arr #["pix", ofRat q]
  | .deg q => .arr #["deg", ofRat q]
  | .rad q => .arr #["rad", ofRat q]

def kindStr : Kind → String
  | .circle => "circle" | .ellipse => "ellipse" | .rectangle => "rectangle"
  | .polygon => "polygon" | .line => "line" | .point => "point" | .text => "text"
  | .circleAnnulus => "circleannulus" | .ellipseAnnulus => "ellipseannulus"
  | .rectangleAnnulus => "rectangleannulus"

def frameStr : Frame → String
  | .image => "image" | .fk4 => "fk4" | .fk5 => "fk5" | .icrs => "icrs"
  | .galactic => "galactic" | .ecliptic => "ecliptic"

def delimStr : Delim → String
  | .bare => "" | .brace => "{" | .dquote => "\"" | .squote => "'"

def regionJson (src : Nat) (r : Region) : Json :=
  Json.mkObj [
    ("kind", kindStr r.geom.kind), ("frame", frameStr r.frame),
    ("pts", .arr (r.geom.pts.map fun p => Json.arr #[valJson p.1, valJson p.2]).toArray),
    ("sizes", .arr (r.geom.sizes.map valJson).toArray),
    ("angle", match r.geom.angle with | some a => valJson a | none => .null),
    ("incl", .bool r.incl),
    ("props", .arr (r.props.map fun p => Json.arr #[.str p.key, .str (delimStr p.delim), .str p.val]).toArray),
    ("src", ofInt src)]

/-- `run`, with the index of the emitting statement attached (same `emit` / `next`). -/
def runIdx (st : State) (i : Nat) : List Stmt → List (Nat × Region)
  | [] => []
  | s :: r => (emit st s).map (fun x => (i, x)) ++ runIdx (next st s) (i + 1) r

/-- `runQ`, with the index of the emitting statement attached. -/
def runIdxQ (q : Quirks) (st : State) (i : Nat) : List Stmt → List (Nat × Region)
  | [] => []
  | s :: r => (emit st s).map (fun x => (i, x)) ++ runIdxQ q (nextQ q st s) (i + 1) r

def c10Ops : List (String × Handler) := [
  ("ds9.interp", fun j => do
    let toks ← (← fArr j "toks").mapM tokOf
    let tagged := runIdx init 0 (stmtsOf toks)
    -- the tagged fold must be the interpreter the theorems are about
    if tagged.map (·.2) != interp toks then .error "runIdx differs from interp" else
    -- cross-check of the tokenisation: the Lean lexer on the very text the real parser gets
    let lexInfo : List (String × Json) :=
      match j.getObjVal? "text" with
      | .ok (.str text) =>
        let lt := lex text
        if lt == toks then [("lex_ok", .bool true)]
        else
          let i := ((lt.zip toks).takeWhile fun p => p.1 == p.2).length
          [("lex_ok", .bool false),
           ("lex_diff", .str s!"token {i}: lexer {repr (lt.drop i |>.take 2)} harness {repr (toks.drop i |>.take 2)} (lengths {lt.length}/{toks.length})")]
      | _ => []
    -- the model of the code under test: the reference with the open deviations (`currentCode`) switched on
    let code := runIdxQ currentCode init 0 (stmtsOf toks)
    if code.map (·.2) != interpQ currentCode toks then .error "runIdxQ differs from interpQ" else
    pure (Json.mkObj ([("regions", .arr (tagged.map fun p => regionJson p.1 p.2).toArray),
                       ("code_regions", .arr (code.map fun p => regionJson p.1 p.2).toArray),
                       ("quirks", Json.mkObj [("F105", .bool currentCode.lowerCompositeValues),
                                              ("F106", .bool currentCode.badLastMemberKeepsComposite)]),
                       ("nstmts", ofInt (stmtsOf toks).length)] ++ lexInfo)))
]

end Driver
