import Driver.ShapeOps
import Driver.BBoxOps
import Driver.C15Ops
import RegionsVerif.Impl.MaskGen

namespace Driver
open Lean RegionsVerif.Impl

def getMode (j : Json) : Except String MaskMode := do
  match ← fStr j "mode" with
  | "center" => pure .center
  | "exact" => pure .exact
  | "subpixels" => pure (.subpixels (← fInt j "n") (fieldD j "n_is_int" (.bool true) == .bool true))
  | _ => pure .other

def maskErrStr : MaskErr → String
  | .valueError => "ValueError"
  | .notImplemented => "NotImplementedError"
  | .bbox e => errStr e

def maskJson (m : GenMask) : Json :=
  let ny := m.bbox.shape.1.toNat
  let nx := m.bbox.shape.2.toNat
  Json.mkObj [("bbox", boxJson m.bbox),
    ("data", Json.arr ((List.range ny).map fun (j : Nat) =>
      Json.arr ((List.range nx).map fun (i : Nat) => ofRat (m.cell j i)).toArray).toArray)]

def c02Ops : List (String × Handler) := [
  ("region.mask", fun j => do
    let r ← getReg (← field j "region")
    let mode ← getMode j
    match r.toMask mode with
    | .ok m => pure (Json.mkObj [("ok", maskJson m)])
    | .error e => pure (Json.mkObj [("err", maskErrStr e)]))
]

end Driver
