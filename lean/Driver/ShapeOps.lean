/-
JSON ⇄ model conversion for pixel-region expressions, and the `contains` op.
Region JSON: {"kind": "circle", "c": [x, y], "r": r, "include": "absent|true|false|1|0"}, …
-/
import Driver.Proto
import RegionsVerif.Impl.Region
import Mathlib.Algebra.Order.Field.Rat
import Mathlib.Algebra.Field.Rat

namespace Driver
open Lean RegionsVerif.Impl

def getPt (j : Json) : Except String (Pt ℚ) := do
  match ← (← jArr j).mapM jRat with
  | [x, y] => pure ⟨x, y⟩
  | _ => .error "point needs 2 rationals"

def fPt (j : Json) (k : String) : Except String (Pt ℚ) := field j k >>= getPt

def fDir (j : Json) (k : String) : Except String (Dir ℚ) := do
  let p ← fPt j k
  pure ⟨p.x, p.y⟩

def getInclude (j : Json) : Except String Include := do
  match fieldD j "include" (.str "absent") with
  | .str "absent" => pure .absent
  | .str "true" => pure .pyTrue
  | .str "false" => pure .pyFalse
  | .str "1" => pure .one
  | .str "0" => pure .zero
  | v => .error s!"bad include {v}"

partial def getReg (j : Json) : Except String (PReg ℚ) := do
  let i ← getInclude j
  match ← fStr j "kind" with
  | "circle" => pure (.circle ⟨← fPt j "c", ← fRat j "r"⟩ i)
  | "ellipse" => pure (.ellipse ⟨← fPt j "c", ← fRat j "w", ← fRat j "h", ← fDir j "dir"⟩ i)
  | "rectangle" => pure (.rect ⟨← fPt j "c", ← fRat j "w", ← fRat j "h", ← fDir j "dir"⟩ i)
  | "polygon" => pure (.polygon ⟨← (← fArr j "v").mapM getPt⟩ i)
  | "circle_annulus" => pure (.circleAnnulus (← fPt j "c") (← fRat j "r1") (← fRat j "r2") i)
  | "ellipse_annulus" =>
    pure (.ellipseAnnulus (← fPt j "c") (← fRat j "w1") (← fRat j "h1") (← fRat j "w2") (← fRat j "h2")
      (← fDir j "dir") i)
  | "rectangle_annulus" =>
    pure (.rectAnnulus (← fPt j "c") (← fRat j "w1") (← fRat j "h1") (← fRat j "w2") (← fRat j "h2")
      (← fDir j "dir") i)
  | "point" => do let c ← fPt j "c"; pure (.empty .point c c i)
  | "text" => do let c ← fPt j "c"; pure (.empty .text c c i)
  | "line" => pure (.empty .line (← fPt j "a") (← fPt j "b") i)
  | "compound" => do
    let op ← match ← fStr j "op" with
      | "and" => pure BoolOp.and
      | "or" => pure BoolOp.or
      | "xor" => pure BoolOp.xor
      | o => .error s!"bad op {o}"
    pure (.compound op (← getReg (← field j "a")) (← getReg (← field j "b")) i)
  | k => .error s!"unknown region kind {k}"

def ofPt (p : Pt ℚ) : Json := ofRats [p.x, p.y]

def shapeOps : List (String × Handler) := [
  ("contains", fun j => do
    let r ← getReg (← field j "region")
    let pts ← (← fArr j "pts").mapM getPt
    pure (Json.mkObj [("ok", ofBools (pts.map r.contains))]))
]

end Driver
