/-
JSON ops for the pixel <-> sky conversion model (`Impl/Wcs.lean`).

The WCS is a parameter: the harness supplies it as finite tables made with the real
`astropy.wcs.WCS` — `p2s` (pixel -> sky), `s2p` (sky -> pixel), `loc` (sky -> what
`pixel_scale_angle_at_skycoord` returned there).  `Sky` = (lon, lat) in degrees, exact rationals
of the floats.  A position that is not in a table maps to a sentinel far away (the harness then
sees a disagreement).

Region JSON (pixel): {"kind": "circle", "c": [x, y], "r": r, "meta": M, "visual": V}, …
  M = {"include": "absent|true|false|1|0", "rest": [[key, value], …]}
  V = {"rotation": null | number, "rest": [[key, value], …]}
  compound: {"kind": "compound", "op": …, "a": R, "b": R, "meta_arg": null | M, "visual_arg": null | V}
  — the ARGUMENTS of the constructor call; the model applies the constructor's defaulting logic.
Sky regions: the same with "c" = [lon, lat], sizes in arcsec.
-/
import Driver.ShapeOps
import RegionsVerif.Impl.Wcs

namespace Driver
open Lean RegionsVerif.Impl

abbrev SkyQ := Pt ℚ

def sentinel : ℚ := 1000000000000000000000000000000

def getPairs (j : Json) : Except String (List (String × String)) := do
  (← jArr j).mapM fun e => do
    match ← jArr e with
    | [k, v] => pure (← jStr k, ← jStr v)
    | _ => .error "pair expected"

def includeOfStr : String → Except String Include
  | "absent" => pure .absent
  | "true" => pure .pyTrue
  | "false" => pure .pyFalse
  | "1" => pure .one
  | "0" => pure .zero
  | v => .error s!"bad include {v}"

def getMeta (j : Json) : Except String Meta := do
  pure ⟨← includeOfStr (← fStr j "include"), ← getPairs (← field j "rest")⟩

def getVisual (j : Json) : Except String (Visual ℚ) := do
  let rot ← match fieldD j "rotation" .null with
    | .null => pure none
    | v => do pure (some (← jRat v))
  pure ⟨rot, ← getPairs (← field j "rest")⟩

def getOpt {β : Type} (f : Json → Except String β) (j : Json) (k : String) : Except String (Option β) :=
  match fieldD j k .null with
  | .null => pure none
  | v => do pure (some (← f v))

/-- "and" | "or" | "xor" | "table:ffFtTfTt" with four 0/1 digits (value at (F,F), (F,T), (T,F), (T,T)). -/
def getBoolOp (j : Json) : Except String ROp := do
  let bit (c : Char) : Except String Bool :=
    if c == '1' then pure true else if c == '0' then pure false else .error s!"bad truth-table digit {c}"
  match ← fStr j "op" with
  | "and" => pure (.std .and)
  | "or" => pure (.std .or)
  | "xor" => pure (.std .xor)
  | o =>
    match o.splitOn ":" with
    | ["table", t] =>
      match t.toList with
      | [a, b, c, d] => pure (.table (← bit a) (← bit b) (← bit c) (← bit d))
      | _ => .error s!"bad truth table {o}"
    | _ => .error s!"bad op {o}"

partial def getPixR (j : Json) : Except String (PixR ℚ) := do
  let kind ← fStr j "kind"
  if kind == "compound" then
    let a ← getPixR (← field j "a")
    let b ← getPixR (← field j "b")
    pure (PixR.mkCompound a b (← getBoolOp j) (← getOpt getMeta j "meta_arg") (← getOpt getVisual j "visual_arg"))
  else
    let m ← getMeta (← field j "meta")
    let v ← getVisual (← field j "visual")
    match kind with
    | "circle" => pure (.circle (← fPt j "c") (← fRat j "r") m v)
    | "ellipse" => pure (.ellipse (← fPt j "c") (← fRat j "w") (← fRat j "h") (← fDir j "dir") m v)
    | "rectangle" => pure (.rect (← fPt j "c") (← fRat j "w") (← fRat j "h") (← fDir j "dir") m v)
    | "polygon" => pure (.polygon (← (← fArr j "v").mapM getPt) m v)
    | "circle_annulus" => pure (.circleAnnulus (← fPt j "c") (← fRat j "r1") (← fRat j "r2") m v)
    | "ellipse_annulus" =>
      pure (.ellipseAnnulus (← fPt j "c") (← fRat j "w1") (← fRat j "w2") (← fRat j "h1") (← fRat j "h2")
        (← fDir j "dir") m v)
    | "rectangle_annulus" =>
      pure (.rectAnnulus (← fPt j "c") (← fRat j "w1") (← fRat j "w2") (← fRat j "h1") (← fRat j "h2")
        (← fDir j "dir") m v)
    | "point" => pure (.point (← fPt j "c") m v)
    | "line" => pure (.line (← fPt j "a") (← fPt j "b") m v)
    | "text" => pure (.text (← fPt j "c") (← fStr j "text") m v)
    | k => .error s!"unknown region kind {k}"

partial def getSkyR (j : Json) : Except String (SkyR SkyQ ℚ) := do
  let kind ← fStr j "kind"
  if kind == "compound" then
    let a ← getSkyR (← field j "a")
    let b ← getSkyR (← field j "b")
    pure (SkyR.mkCompound a b (← getBoolOp j) (← getOpt getMeta j "meta_arg") (← getOpt getVisual j "visual_arg"))
  else
    let m ← getMeta (← field j "meta")
    let v ← getVisual (← field j "visual")
    match kind with
    | "circle" => pure (.circle (← fPt j "c") (← fRat j "r") m v)
    | "ellipse" => pure (.ellipse (← fPt j "c") (← fRat j "w") (← fRat j "h") (← fDir j "dir") m v)
    | "rectangle" => pure (.rect (← fPt j "c") (← fRat j "w") (← fRat j "h") (← fDir j "dir") m v)
    | "polygon" => pure (.polygon (← (← fArr j "v").mapM getPt) m v)
    | "circle_annulus" => pure (.circleAnnulus (← fPt j "c") (← fRat j "r1") (← fRat j "r2") m v)
    | "ellipse_annulus" =>
      pure (.ellipseAnnulus (← fPt j "c") (← fRat j "w1") (← fRat j "w2") (← fRat j "h1") (← fRat j "h2")
        (← fDir j "dir") m v)
    | "rectangle_annulus" =>
      pure (.rectAnnulus (← fPt j "c") (← fRat j "w1") (← fRat j "w2") (← fRat j "h1") (← fRat j "h2")
        (← fDir j "dir") m v)
    | "point" => pure (.point (← fPt j "c") m v)
    | "line" => pure (.line (← fPt j "a") (← fPt j "b") m v)
    | "text" => pure (.text (← fPt j "c") (← fStr j "text") m v)
    | k => .error s!"unknown region kind {k}"

def incToStr : Include → String
  | .absent => "absent" | .pyTrue => "true" | .pyFalse => "false" | .one => "1" | .zero => "0"

def ofPairs (l : List (String × String)) : Json :=
  Json.arr (l.map fun (k, v) => Json.arr #[Json.str k, Json.str v]).toArray

def ofMeta (m : Meta) : Json := Json.mkObj [("include", incToStr m.inc), ("rest", ofPairs m.rest)]

def ofVisual (v : Visual ℚ) : Json :=
  Json.mkObj [("rotation", match v.rotation with | none => Json.null | some x => ofRat x), ("rest", ofPairs v.rest)]

def opStr : ROp → String
  | .std .and => "and" | .std .or => "or" | .std .xor => "xor"
  | .table a b c d =>
    let f (x : Bool) : String := if x then "1" else "0"
    "table:" ++ f a ++ f b ++ f c ++ f d

def ofD (d : Dir ℚ) : Json := ofRats [d.c, d.s]

partial def ofPixR : PixR ℚ → Json
  | .circle c r m v => Json.mkObj [("kind", "circle"), ("c", ofPt c), ("r", ofRat r), ("meta", ofMeta m), ("visual", ofVisual v)]
  | .ellipse c w h d m v => Json.mkObj [("kind", "ellipse"), ("c", ofPt c), ("w", ofRat w), ("h", ofRat h), ("dir", ofD d),
      ("meta", ofMeta m), ("visual", ofVisual v)]
  | .rect c w h d m v => Json.mkObj [("kind", "rectangle"), ("c", ofPt c), ("w", ofRat w), ("h", ofRat h), ("dir", ofD d),
      ("meta", ofMeta m), ("visual", ofVisual v)]
  | .polygon vs m v => Json.mkObj [("kind", "polygon"), ("v", Json.arr (vs.map ofPt).toArray), ("meta", ofMeta m),
      ("visual", ofVisual v)]
  | .circleAnnulus c r1 r2 m v => Json.mkObj [("kind", "circle_annulus"), ("c", ofPt c), ("r1", ofRat r1), ("r2", ofRat r2),
      ("meta", ofMeta m), ("visual", ofVisual v)]
  | .ellipseAnnulus c w1 w2 h1 h2 d m v => Json.mkObj [("kind", "ellipse_annulus"), ("c", ofPt c), ("w1", ofRat w1),
      ("w2", ofRat w2), ("h1", ofRat h1), ("h2", ofRat h2), ("dir", ofD d), ("meta", ofMeta m), ("visual", ofVisual v)]
  | .rectAnnulus c w1 w2 h1 h2 d m v => Json.mkObj [("kind", "rectangle_annulus"), ("c", ofPt c), ("w1", ofRat w1),
      ("w2", ofRat w2), ("h1", ofRat h1), ("h2", ofRat h2), ("dir", ofD d), ("meta", ofMeta m), ("visual", ofVisual v)]
  | .point c m v => Json.mkObj [("kind", "point"), ("c", ofPt c), ("meta", ofMeta m), ("visual", ofVisual v)]
  | .line a b m v => Json.mkObj [("kind", "line"), ("a", ofPt a), ("b", ofPt b), ("meta", ofMeta m), ("visual", ofVisual v)]
  | .text c t m v => Json.mkObj [("kind", "text"), ("c", ofPt c), ("text", Json.str t), ("meta", ofMeta m), ("visual", ofVisual v)]
  | .compound op a b m v => Json.mkObj [("kind", "compound"), ("op", opStr op), ("a", ofPixR a), ("b", ofPixR b),
      ("meta", ofMeta m), ("visual", ofVisual v)]

partial def ofSkyR : SkyR SkyQ ℚ → Json
  | .circle c r m v => Json.mkObj [("kind", "circle"), ("c", ofPt c), ("r", ofRat r), ("meta", ofMeta m), ("visual", ofVisual v)]
  | .ellipse c w h d m v => Json.mkObj [("kind", "ellipse"), ("c", ofPt c), ("w", ofRat w), ("h", ofRat h), ("dir", ofD d),
      ("meta", ofMeta m), ("visual", ofVisual v)]
  | .rect c w h d m v => Json.mkObj [("kind", "rectangle"), ("c", ofPt c), ("w", ofRat w), ("h", ofRat h), ("dir", ofD d),
      ("meta", ofMeta m), ("visual", ofVisual v)]
  | .polygon vs m v => Json.mkObj [("kind", "polygon"), ("v", Json.arr (vs.map ofPt).toArray), ("meta", ofMeta m),
      ("visual", ofVisual v)]
  | .circleAnnulus c r1 r2 m v => Json.mkObj [("kind", "circle_annulus"), ("c", ofPt c), ("r1", ofRat r1), ("r2", ofRat r2),
      ("meta", ofMeta m), ("visual", ofVisual v)]
  | .ellipseAnnulus c w1 w2 h1 h2 d m v => Json.mkObj [("kind", "ellipse_annulus"), ("c", ofPt c), ("w1", ofRat w1),
      ("w2", ofRat w2), ("h1", ofRat h1), ("h2", ofRat h2), ("dir", ofD d), ("meta", ofMeta m), ("visual", ofVisual v)]
  | .rectAnnulus c w1 w2 h1 h2 d m v => Json.mkObj [("kind", "rectangle_annulus"), ("c", ofPt c), ("w1", ofRat w1),
      ("w2", ofRat w2), ("h1", ofRat h1), ("h2", ofRat h2), ("dir", ofD d), ("meta", ofMeta m), ("visual", ofVisual v)]
  | .point c m v => Json.mkObj [("kind", "point"), ("c", ofPt c), ("meta", ofMeta m), ("visual", ofVisual v)]
  | .line a b m v => Json.mkObj [("kind", "line"), ("a", ofPt a), ("b", ofPt b), ("meta", ofMeta m), ("visual", ofVisual v)]
  | .text c t m v => Json.mkObj [("kind", "text"), ("c", ofPt c), ("text", Json.str t), ("meta", ofMeta m), ("visual", ofVisual v)]
  | .compound op a b m v => Json.mkObj [("kind", "compound"), ("op", opStr op), ("a", ofSkyR a), ("b", ofSkyR b),
      ("meta", ofMeta m), ("visual", ofVisual v)]

/-- the WCS parameter from the harness's tables. -/
def getWcs (j : Json) : Except String (Wcs SkyQ ℚ) := do
  let rows (k : String) : Except String (List (List ℚ)) := do
    (← fArr j k).mapM fun e => do (← jArr e).mapM jRat
  let p2s ← (← rows "p2s").mapM fun
    | [px, py, lon, lat] => pure ((⟨px, py⟩ : Pt ℚ), (⟨lon, lat⟩ : SkyQ))
    | _ => .error "p2s row needs 4 numbers"
  let s2p ← (← rows "s2p").mapM fun
    | [lon, lat, px, py] => pure ((⟨lon, lat⟩ : SkyQ), (⟨px, py⟩ : Pt ℚ))
    | _ => .error "s2p row needs 4 numbers"
  let loc ← (← rows "loc").mapM fun
    | [lon, lat, s, nc, ns, nd] => pure ((⟨lon, lat⟩ : SkyQ), (⟨s, ⟨nc, ns⟩, nd⟩ : Local ℚ))
    | _ => .error "loc row needs 6 numbers"
  pure ⟨fun q => (s2p.lookup q).getD ⟨sentinel, sentinel⟩,
        fun p => (p2s.lookup p).getD ⟨sentinel, sentinel⟩,
        fun q => (loc.lookup q).getD ⟨sentinel, ⟨sentinel, sentinel⟩, sentinel⟩⟩

def c06Ops : List (String × Handler) := [
  -- pixel region -> sky -> pixel; membership of pixel positions before / after
  ("c06.pix", fun j => do
    let r ← getPixR (← field j "region")
    let w ← getWcs (← field j "wcs")
    let pts ← (← fArr j "pts").mapM getPt
    let s := r.toSky w
    -- "q2s": the sky positions handed over for the query pixels (they may be expressed in a frame of their own, so they
    -- are kept apart from the region's own pixel -> sky table); absent = pixel_to_world
    let q2s ← match fieldD (← field j "wcs") "q2s" .null with
      | .null => pure ([] : List (Pt ℚ × SkyQ))
      | t => (← jArr t).mapM fun e => do
        match ← (← jArr e).mapM jRat with
        | [px, py, lon, lat] => pure ((⟨px, py⟩ : Pt ℚ), (⟨lon, lat⟩ : SkyQ))
        | _ => .error "q2s row needs 4 numbers"
    let qSky (p : Pt ℚ) : SkyQ := (q2s.lookup p).getD (w.toSky p)
    pure (Json.mkObj [("start", ofPixR r), ("sky", ofSkyR s), ("back", ofPixR (s.toPixel w)),
                      ("contains_pix", ofBools (pts.map r.contains)),
                      ("contains_sky", ofBools (pts.map fun p => s.contains w (qSky p))),
                      -- does the sky image answer an ARRAY of positions with one scalar?
                      ("sky_scalar_for_array", Json.bool ((s.containsShape (some [pts.length])).isNone))])),
  -- sky region -> pixel -> sky; membership of sky positions: SkyRegion.contains vs the pixel image
  ("c06.sky", fun j => do
    let r ← getSkyR (← field j "region")
    let w ← getWcs (← field j "wcs")
    let pts ← (← fArr j "pts").mapM getPt
    let p := r.toPixel w
    pure (Json.mkObj [("start", ofSkyR r), ("pix", ofPixR p), ("back", ofSkyR (p.toSky w)),
                      ("contains_sky", ofBools (pts.map fun q => r.contains w q)),
                      ("contains_pix", ofBools (pts.map fun q => p.contains (w.toPix q))),
                      ("sky_scalar_for_array", Json.bool ((r.containsShape (some [pts.length])).isNone))]))
]

end Driver
