import Driver.Loop
import Driver.C10Ops
def main : IO Unit := Driver.run Driver.c10Ops
