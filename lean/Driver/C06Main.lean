import Driver.Loop
import Driver.C06Ops
def main : IO Unit := Driver.run Driver.c06Ops
