import Driver.Proto
import RegionsVerif.Gen.CircleExactFloat

namespace Driver
open Lean RegionsVerif.Gen

/-- doubles are exchanged as their 64-bit patterns (decimal strings), so nothing is lost. -/
def fBits (j : Json) (k : String) : Except String Float := do
  let i ← fInt j k
  pure (Float.ofBits i.toNat.toUInt64)

def ofBits (x : Float) : Json := .str (toString x.toBits.toNat)

def c03Ops : List (String × Handler) := [
  ("exact.cell", fun j => do
    match CircleExactFloat.exactCell (← fBits j "pxmin") (← fBits j "pymin") (← fBits j "dx") (← fBits j "dy") (← fBits j "r") with
    | some v => pure (Json.mkObj [("ok", ofBits v)])
    | none => pure (Json.mkObj [("ok", jNone)])),
  ("exact.core", fun j => do
    pure (Json.mkObj [("ok", ofBits (CircleExactFloat.core (← fBits j "xmin") (← fBits j "ymin") (← fBits j "xmax")
      (← fBits j "ymax") (← fBits j "r")))]))
]

end Driver
