import Driver.Main
