"""C19 — bounding-box arithmetic is exact integer rectangle algebra."""
import itertools
import math
from fractions import Fraction

import numpy as np

from .common import frac
from .runner import PropertyCheck


def _box(b):
    return None if b is None else [int(b.ixmin), int(b.ixmax), int(b.iymin), int(b.iymax)]


def _exc(e):
    return {'err': type(e).__name__}


def _pix(b):
    return {(x, y) for x in range(b[0], b[1]) for y in range(b[2], b[3])}


NONINT = [1.0, 2.5, '3', None, [1], np.float64(2.0), np.array(3), float('nan')]
INTLIKE = [lambda v: int(v), lambda v: np.int64(v), lambda v: np.int32(v), lambda v: np.int8(v) if -128 <= v < 128 else int(v),
           lambda v: np.uint8(v) if 0 <= v < 256 else int(v), lambda v: np.uint16(v) if 0 <= v < 65536 else int(v),
           lambda v: np.uint64(v) if 0 <= v else int(v), lambda v: np.int16(v) if -32768 <= v < 32768 else int(v)]


def boxes_in(lo, hi):
    ax = [(a, b) for a in range(lo, hi + 1) for b in range(a, hi + 1)]
    return [[x0, x1, y0, y1] for (x0, x1) in ax for (y0, y1) in ax]


class Check(PropertyCheck):
    id = 'C19'
    lean_targets = ['RegionsVerif.Props.C19', 'RegionsVerif.Bridge.FormulasC19']
    namespaces = ['RegionsVerif.Props.C19', 'RegionsVerif.Bridge.C19']
    rule = ('exhaustive small boxes (corners in a window, incl. empty) x pairs / sampled triples / image shapes '
            'incl. 0-sized; random corners up to +-1e9 and numpy int types; float rectangles on the 1/8 lattice '
            'and random; invalid constructor arguments. A case is non-trivial unless both boxes are empty '
            'or the box lies entirely outside the image.')
    assumptions = ['numpy floor/ceil/int conversion are exact on the doubles used',
                   'Python ints are unbounded (modelled as Int)']

    # ---------------------------------------------------------------- generation
    def translate(self):
        # tie T: regenerate Gen/FormulasC19.lean from the current source (tools/py2lean.py)
        import importlib.util, os
        from .common import VERIF
        spec = importlib.util.spec_from_file_location('py2lean', os.path.join(VERIF, 'tools', 'py2lean.py'))
        mod = importlib.util.module_from_spec(spec)
        spec.loader.exec_module(mod)
        problems, _ = mod.main(['C19'])
        return problems

    def generate(self, rng, tier):
        cases = []
        lo, hi = (-2, 2) if tier == 'quick' else (-3, 4)
        small = boxes_in(lo, hi)
        # pairs (exhaustive in the window for quick on a sub-window, sampled beyond)
        pw = boxes_in(-1, 2) if tier == 'quick' else boxes_in(-2, 2)
        for a in pw:
            for b in pw:
                cases.append({'kind': 'pair', 'a': a, 'b': b})
        for _ in range(3000 if tier == 'quick' else 60000):
            cases.append({'kind': 'pair', 'a': rng.choice(small), 'b': rng.choice(small)})
        for _ in range(3000 if tier == 'quick' else 100000):
            cases.append({'kind': 'triple', 'a': rng.choice(small), 'b': rng.choice(small), 'c': rng.choice(small)})
        # props + slices: every small box x every image shape up to N x N (incl. 0)
        nmax = 4 if tier == 'quick' else 7
        for b in small:
            cases.append({'kind': 'props', 'box': b})
        sb = boxes_in(-2, 3) if tier == 'quick' else boxes_in(-4, 6)
        shapes = [(ny, nx) for ny in range(nmax + 1) for nx in range(nmax + 1)]
        if tier == 'quick':
            for b in sb:
                for sh in rng.sample(shapes, 6):
                    cases.append({'kind': 'slices', 'box': b, 'shape': list(sh)})
        else:
            for b in sb:
                for sh in rng.sample(shapes, 24):
                    cases.append({'kind': 'slices', 'box': b, 'shape': list(sh)})
        # random large
        def rbox(m):
            x0 = rng.randint(-m, m); x1 = x0 + rng.choice([0, 1, rng.randint(0, m)])
            y0 = rng.randint(-m, m); y1 = y0 + rng.choice([0, 1, rng.randint(0, m)])
            return [x0, x1, y0, y1]
        nr = 1500 if tier == 'quick' else 100000
        for _ in range(nr):
            m = rng.choice([10, 1000, 10 ** 9])
            t = rng.randrange(len(INTLIKE))
            cases.append({'kind': 'pair', 'a': rbox(m), 'b': rbox(m), 'itype': t})
            cases.append({'kind': 'slices', 'box': rbox(m), 'shape': [rng.randint(0, 2 * m), rng.randint(0, 2 * m)], 'itype': t})
        # constructor: invalid orderings and non-int arguments
        for _ in range(400 if tier == 'quick' else 5000):
            vals = [rng.randint(-5, 5) for _ in range(4)]
            bad = [rng.random() < 0.2 for _ in range(4)]
            cases.append({'kind': 'ctor', 'vals': vals,
                          'nonint': [rng.randrange(len(NONINT)) if b else -1 for b in bad]})
        # from_float: 1/8 lattice around rounding boundaries + random
        for _ in range(2500 if tier == 'quick' else 200000):
            mode = rng.random()
            if mode < 0.6:
                base = rng.choice([0, 1, -1, 7, -8, 1000, -1000, 2 ** 20])
                r = [base + Fraction(rng.randint(-24, 24), 8) for _ in range(4)]
            else:
                s = rng.choice([1e-3, 1.0, 1e3, 1e6])
                r = [Fraction(rng.uniform(-s, s)) for _ in range(4)]
            if rng.random() < 0.9:
                r = [min(r[0], r[1]), max(r[0], r[1]), min(r[2], r[3]), max(r[2], r[3])]
            cases.append({'kind': 'from_float', 'rect': [frac(Fraction(float(v))) for v in r]})
        return cases

    # ---------------------------------------------------------------- real code
    def real(self, case):
        from regions import RegionBoundingBox as BB
        k = case['kind']
        conv = INTLIKE[case.get('itype', 0)]
        mk = lambda b: BB(*[conv(v) for v in b])
        if k == 'ctor':
            args = [NONINT[n] if n >= 0 else v for v, n in zip(case['vals'], case['nonint'])]
            try:
                return {'ok': _box(BB(*args))}
            except (TypeError, ValueError) as e:
                return _exc(e)
        if k == 'from_float':
            r = [float(Fraction(s)) for s in case['rect']]
            try:
                return {'ok': _box(BB.from_float(*r))}
            except (TypeError, ValueError) as e:
                return _exc(e)
        if k == 'pair':
            a, b = mk(case['a']), mk(case['b'])
            # the operands have been inspected before (anything remembered about them must not leak into results)
            for q in (a, b):
                q.shape, q.center, q.extent
            u = a.union(b)
            i = a.intersection(b)
            res = {'union': _box(u), 'inter': _box(i), 'union_op': _box(a | b), 'inter_op': _box(a & b),
                   'union_rev': _box(b.union(a)), 'inter_rev': _box(b.intersection(a))}
            # shape / centre / extent of every result agree with its own corners
            derived = []
            for name, r in (('union', u), ('inter', i), ('union_rev', b.union(a)), ('inter_rev', b.intersection(a))):
                if r is None:
                    continue
                okd = (tuple(int(v) for v in r.shape) == (int(r.iymax) - int(r.iymin), int(r.ixmax) - int(r.ixmin))
                       and tuple(Fraction(float(v)) for v in r.center) == (Fraction(int(r.iymin) + int(r.iymax) - 1, 2), Fraction(int(r.ixmin) + int(r.ixmax) - 1, 2))
                       and tuple(Fraction(float(v)) for v in r.extent) == (Fraction(2 * int(r.ixmin) - 1, 2), Fraction(2 * int(r.ixmax) - 1, 2),
                                                                            Fraction(2 * int(r.iymin) - 1, 2), Fraction(2 * int(r.iymax) - 1, 2)))
                if not okd:
                    derived.append(f'{name}: corners {_box(r)} shape {tuple(r.shape)} center {tuple(r.center)} extent {tuple(r.extent)}')
            res['derived_bad'] = derived
            return res
        if k == 'triple':
            a, b, c = mk(case['a']), mk(case['b']), mk(case['c'])
            def I(p, q):
                return None if (p is None or q is None) else p.intersection(q)
            return {'u_l': _box((a | b) | c), 'u_r': _box(a | (b | c)),
                    'i_l': _box(I(I(a, b), c)), 'i_r': _box(I(a, I(b, c)))}
        if k == 'props':
            b = mk(case['box'])
            cy, cx = b.center
            e = b.extent
            return {'shape': [int(v) for v in b.shape],
                    'center2': [frac(Fraction(cy) * 2), frac(Fraction(cx) * 2)],
                    'extent2': [frac(Fraction(v) * 2) for v in e]}
        if k == 'slices':
            b = mk(case['box'])
            sl, ss = b.get_overlap_slices(tuple(case['shape']))
            if sl is None or ss is None:
                return {'ok': None, 'both_none': sl is None and ss is None}
            f = lambda s: [int(s.start), int(s.stop)]
            assert all(s.step is None for s in sl + ss)
            return {'ok': [f(sl[0]), f(sl[1]), f(ss[0]), f(ss[1])]}
        raise ValueError(k)

    # ---------------------------------------------------------------- model
    def requests(self, case):
        k = case['kind']
        if k == 'ctor':
            return [{'op': 'bbox.ctor', 'box': case['vals'], 'isint': [n < 0 for n in case['nonint']]}]
        if k == 'from_float':
            return [{'op': 'bbox.from_float', 'rect': case['rect']}]
        if k == 'pair':
            a, b = case['a'], case['b']
            return [{'op': 'bbox.union', 'a': a, 'b': b}, {'op': 'bbox.inter', 'a': a, 'b': b},
                    {'op': 'bbox.union', 'a': b, 'b': a}, {'op': 'bbox.inter', 'a': b, 'b': a}]
        if k == 'triple':
            return [{'op': 'bbox.assoc', 'a': case['a'], 'b': case['b'], 'c': case['c']}]
        if k == 'props':
            return [{'op': 'bbox.props', 'box': case['box']}]
        if k == 'slices':
            return [{'op': 'bbox.slices', 'box': case['box'], 'shape': case['shape']}]

    @staticmethod
    def _ib(j):
        return None if j is None else [int(v) for v in j]

    def model(self, case, replies):
        k = case['kind']
        ib = self._ib
        if k in ('ctor', 'from_float'):
            r = replies[0]
            return {'ok': ib(r['ok'])} if 'ok' in r else {'err': r['err']}
        if k == 'pair':
            u, i, ur, ir = [ib(r.get('ok')) for r in replies]
            return {'union': u, 'inter': i, 'union_op': u, 'inter_op': i, 'union_rev': ur, 'inter_rev': ir}
        if k == 'triple':
            r = replies[0]
            return {kk: ib(r[kk]) for kk in ('u_l', 'u_r', 'i_l', 'i_r')}
        if k == 'props':
            r = replies[0]
            return {'shape': [int(v) for v in r['shape']], 'center2': r['center2'], 'extent2': r['extent2']}
        if k == 'slices':
            r = replies[0]
            if r['ok'] is None:
                return {'ok': None, 'both_none': True}
            return {'ok': [[int(v) for v in s] for s in r['ok']]}

    def equal(self, case, real, model):
        # 'derived_bad' (shape/centre/extent of results vs their own corners) is judged by the oracle only
        r = {k: v for k, v in real.items() if k != 'derived_bad'} if isinstance(real, dict) else real
        return r == model

    # ---------------------------------------------------------------- Spec oracle (python sets / ints)
    def oracle(self, case, real):
        k = case['kind']
        V = []
        def bad(kind, detail):
            V.append({'kind': kind, 'detail': detail})
        if k == 'ctor':
            anybad = any(n >= 0 for n in case['nonint'])
            v = case['vals']
            if anybad:
                if real != {'err': 'TypeError'}:
                    bad('ctor_accepts_nonint', f'{real}')
            elif v[0] > v[1] or v[2] > v[3]:
                if real != {'err': 'ValueError'}:
                    bad('ctor_accepts_inverted', f'{real}')
            elif real != {'ok': v}:
                bad('ctor_wrong_value', f'{real}')
        elif k == 'from_float':
            r = [Fraction(s) for s in case['rect']]
            if r[0] <= r[1] and r[2] <= r[3]:
                if 'ok' not in real:
                    bad('from_float_raises', f'{real}')
                else:
                    b = real['ok']
                    H = Fraction(1, 2)
                    # covers
                    if not (b[0] - H <= r[0] and r[1] <= b[1] - H and b[2] - H <= r[2] and r[3] <= b[3] - H):
                        bad('from_float_not_covering', f'{b} for {case["rect"]}')
                    # minimal: shrinking any side by one pixel loses coverage
                    if (b[0] + 1 - H <= r[0]) or (r[1] <= b[1] - 1 - H) or (b[2] + 1 - H <= r[2]) or (r[3] <= b[3] - 1 - H):
                        bad('from_float_not_minimal', f'{b} for {case["rect"]}')
        elif k == 'pair':
            a, b = case['a'], case['b']
            u, i = real['union'], real['inter']
            exp_u = [min(a[0], b[0]), max(a[1], b[1]), min(a[2], b[2]), max(a[3], b[3])]
            small = max(abs(v) for v in a + b) <= 12
            if u is None:
                bad('union_none', '')
            else:
                # contains both, least in corner order
                if not (u[0] <= min(a[0], b[0]) and u[1] >= max(a[1], b[1]) and u[2] <= min(a[2], b[2]) and u[3] >= max(a[3], b[3])):
                    bad('union_not_containing', f'{a} {b} -> {u}')
                elif u != exp_u:
                    bad('union_not_least', f'{a} {b} -> {u}')
                if small and not (_pix(a) | _pix(b)) <= _pix(u):
                    bad('union_not_containing', f'pixels {a} {b} -> {u}')
            if real.get('derived_bad'):
                bad('result_properties_inconsistent', f'{a} {b}: {real["derived_bad"][0]}')
            if real['union_rev'] != u or real['union_op'] != u:
                bad('union_not_commutative', f'{a} {b}')
            if real['inter_rev'] != i or real['inter_op'] != i:
                bad('inter_not_commutative', f'{a} {b}')
            # intersection = common pixels
            common_nonempty = (max(a[0], b[0]) < min(a[1], b[1])) and (max(a[2], b[2]) < min(a[3], b[3]))
            if i is None:
                if common_nonempty:
                    bad('inter_none_but_common_pixels', f'{a} {b}')
            else:
                if small:
                    if _pix(i) != (_pix(a) & _pix(b)):
                        bad('inter_wrong_pixels', f'{a} {b} -> {i}')
                else:
                    exp = [max(a[0], b[0]), min(a[1], b[1]), max(a[2], b[2]), min(a[3], b[3])]
                    if common_nonempty and i != exp:
                        bad('inter_wrong_pixels', f'{a} {b} -> {i}')
                    if not common_nonempty and not (i[0] >= i[1] or i[2] >= i[3]):
                        bad('inter_wrong_pixels', f'{a} {b} -> {i}')
                if not common_nonempty:
                    # full-strength reading: disjoint => None
                    V.append({'kind': 'inter_not_none_on_disjoint', 'detail': f'{a} & {b} -> {i}',
                              'a': a, 'b': b, 'result': i})
        elif k == 'triple':
            if real['u_l'] != real['u_r']:
                bad('union_not_associative', f'{case}')
            if real['i_l'] != real['i_r']:
                bad('inter_not_associative', f'{case} {real}')
        elif k == 'props':
            b = case['box']
            if real['shape'] != [b[3] - b[2], b[1] - b[0]]:
                bad('shape_wrong', f'{b} {real}')
            c2 = [Fraction(s) for s in real['center2']]
            if c2 != [b[2] + b[3] - 1, b[0] + b[1] - 1]:
                bad('center_wrong', f'{b} {real}')
            e2 = [Fraction(s) for s in real['extent2']]
            if e2 != [2 * b[0] - 1, 2 * b[1] - 1, 2 * b[2] - 1, 2 * b[3] - 1]:
                bad('extent_wrong', f'{b} {real}')
        elif k == 'slices':
            b = case['box']
            ny, nx = case['shape']
            cx0, cx1 = max(b[0], 0), min(b[1], nx)
            cy0, cy1 = max(b[2], 0), min(b[3], ny)
            common = cx0 < cx1 and cy0 < cy1
            if real['ok'] is None:
                if not real.get('both_none', True):
                    bad('slices_half_none', f'{case}')
                if common:
                    bad('slices_none_but_common_pixels', f'{case}')
            else:
                ly, lx, sy, sx = real['ok']
                for (s, dim) in ((ly, ny), (lx, nx), (sy, b[3] - b[2]), (sx, b[1] - b[0])):
                    if not (0 <= s[0] <= s[1] <= dim):
                        bad('slices_out_of_range', f'{case} -> {real}')
                if (ly[1] - ly[0], lx[1] - lx[0]) != (sy[1] - sy[0], sx[1] - sx[0]):
                    bad('slices_shape_mismatch', f'{case} -> {real}')
                if common:
                    if [ly, lx] != [[cy0, cy1], [cx0, cx1]] or [sy, sx] != [[cy0 - b[2], cy1 - b[2]], [cx0 - b[0], cx1 - b[0]]]:
                        bad('slices_wrong_pixels', f'{case} -> {real}')
                else:
                    if (ly[1] - ly[0]) * (lx[1] - lx[0]) != 0:
                        bad('slices_wrong_pixels', f'{case} -> {real}')
                    V.append({'kind': 'slices_not_none_on_disjoint', 'detail': f'{case} -> {real}',
                              'box': b, 'shape': [ny, nx]})
        return V

    def finding_match(self, finding, v):
        if finding.get('kind') != v.get('kind'):
            return False
        if v['kind'] == 'inter_not_none_on_disjoint':
            a, b = v['a'], v['b']
            # F16a: the corner-wise meet is a degenerate (zero-width or zero-height), non-inverted rectangle
            mx0, mx1 = max(a[0], b[0]), min(a[1], b[1])
            my0, my1 = max(a[2], b[2]), min(a[3], b[3])
            return mx0 <= mx1 and my0 <= my1 and (mx0 == mx1 or my0 == my1) and v['result'] == [mx0, mx1, my0, my1]
        if v['kind'] == 'slices_not_none_on_disjoint':
            b = v['box']
            ny, nx = v['shape']
            # F16b: the box is empty, or the image is zero-sized, or ... the code's four tests all fail
            empty_box = b[0] == b[1] or b[2] == b[3]
            empty_img = ny == 0 or nx == 0
            return empty_box or empty_img
        return True

    def nontrivial(self, case, real):
        k = case['kind']
        if k == 'pair':
            a, b = case['a'], case['b']
            return not ((a[0] == a[1] or a[2] == a[3]) and (b[0] == b[1] or b[2] == b[3]))
        if k == 'slices':
            return real.get('ok') is not None
        return True
