"""
Region descriptions shared by the geometry checks (C01, C02, C04, C08, C15, C18):

  desc  : JSON-able dict describing a pixel region (floats are python floats)
  build : desc -> real `regions` object
  model : desc (+ real object) -> JSON for the Lean driver (exact rationals;
          rotation as Fraction(np.cos(angle)), Fraction(np.sin(angle)) - exactly
          what the code uses)
  exact : high-precision geometry helpers for the Spec-level oracles
"""
import math
from decimal import Decimal, getcontext
from fractions import Fraction

import numpy as np

from .common import frac

getcontext().prec = 60
PI = Decimal('3.14159265358979323846264338327950288419716939937510582097494459230781640628620899')
UNIT_TO_RAD = {
    'deg': PI / 180, 'rad': Decimal(1), 'arcmin': PI / (180 * 60), 'arcsec': PI / (180 * 3600),
    'hourangle': PI / 12,
}
INCLUDES = ['absent', 'true', 'false', '1', '0']
INCLUDE_VALUE = {'true': True, 'false': False, '1': 1, '0': 0}


def truthy(inc):
    return inc in ('absent', 'true', '1')


# ------------------------------------------------------------------ high precision trig

def _cos_sin_dec(x):
    """cos, sin of a Decimal (radians) to ~50 digits."""
    twopi = 2 * PI
    x = x % twopi
    if x > PI:
        x -= twopi
    # reduce further: use double-angle-free Taylor on |x| <= pi (enough terms)
    x2 = x * x
    c = Decimal(1)
    s = x
    tc = Decimal(1)
    ts = x
    for k in range(1, 60):
        tc = -tc * x2 / ((2 * k - 1) * (2 * k))
        ts = -ts * x2 / ((2 * k) * (2 * k + 1))
        c += tc
        s += ts
    return c, s


def exact_dir(angle):
    """(cos, sin) of angle=[value, unit] as Fractions, accurate to ~1e-45 (independent of numpy)."""
    val, unit = angle
    x = Decimal(Fraction(val).numerator) / Decimal(Fraction(val).denominator) * UNIT_TO_RAD[unit]
    c, s = _cos_sin_dec(x)
    return Fraction(c), Fraction(s)


def code_dir(angle):
    """(cos, sin) exactly as the code computes them: np.cos / np.sin of the Quantity."""
    import astropy.units as u
    q = angle[0] * u.Unit(angle[1])
    return Fraction(float(np.cos(q))), Fraction(float(np.sin(q)))


def fsqrt(x):
    """sqrt of a non-negative Fraction as Fraction (50 digits)."""
    if x <= 0:
        return Fraction(0)
    return Fraction((Decimal(x.numerator) / Decimal(x.denominator)).sqrt())


# ------------------------------------------------------------------ generation

def rfloat(rng, scale):
    """a float of the given magnitude, sometimes 'nice' (dyadic)."""
    m = rng.random()
    if m < 0.3:
        return float(Fraction(rng.randint(-64, 64), 8) * Fraction(scale).limit_denominator(1 << 20))
    return rng.uniform(-scale, scale)


def rsize(rng, scale):
    m = rng.random()
    if m < 0.3:
        return float(Fraction(rng.randint(1, 64), 8)) * scale
    return rng.uniform(0.05, 8.0) * scale


def rangle(rng):
    unit = rng.choice(['deg', 'deg', 'deg', 'rad', 'arcmin', 'hourangle'])
    m = rng.random()
    if m < 0.25:
        deg = rng.choice([0, 45, 90, 135, 180, 270, -90, 360, 30, -45])
    elif m < 0.9:
        deg = rng.uniform(-360, 360)
    else:
        deg = rng.uniform(-1e4, 1e4)
    val = {'deg': deg, 'rad': math.radians(deg), 'arcmin': deg * 60, 'hourangle': deg / 15}[unit]
    return [float(val), unit]


SIMPLE_KINDS = ['circle', 'ellipse', 'rectangle', 'polygon', 'regular_polygon',
                'circle_annulus', 'ellipse_annulus', 'rectangle_annulus']
EMPTY_KINDS = ['point', 'line', 'text']


def gen_simple(rng, kind=None, scale=None, center_scale=None, include=None):
    kind = kind or rng.choice(SIMPLE_KINDS)
    if scale is None:
        scale = rng.choice([1e-3, 0.1, 1.0, 1.0, 3.0, 10.0, 100.0, 1e3, 1e6]) if rng.random() < 0.5 else 1.0
    if center_scale is None:
        center_scale = rng.choice([0, 1, 10, 100, 1e4, 1e6])
    c = [rfloat(rng, center_scale) if center_scale else 0.0, rfloat(rng, center_scale) if center_scale else 0.0]
    d = {'kind': kind, 'include': include if include is not None else rng.choice(INCLUDES)}
    if kind == 'circle':
        d.update(c=c, r=rsize(rng, scale))
    elif kind in ('ellipse', 'rectangle'):
        d.update(c=c, w=rsize(rng, scale), h=rsize(rng, scale), angle=rangle(rng))
        if rng.random() < 0.1:
            d['h'] = d['w'] * rng.choice([0.01, 100.0])
    elif kind == 'polygon':
        n = rng.randint(3, 8)
        if rng.random() < 0.5:  # star-shaped simple polygon
            angs = sorted(rng.uniform(0, 2 * math.pi) for _ in range(n))
            v = [[c[0] + rsize(rng, scale) * math.cos(a), c[1] + rsize(rng, scale) * math.sin(a)] for a in angs]
        else:  # arbitrary (possibly self-intersecting) polygon on a lattice
            v = [[c[0] + float(Fraction(rng.randint(-16, 16), 4)) * scale, c[1] + float(Fraction(rng.randint(-16, 16), 4)) * scale]
                 for _ in range(n)]
        d.update(v=v)
        if rng.random() < 0.25:
            # vertices given as fixed-width numpy integer arrays (whole numbers that fit every carrier type)
            d['v'] = [[float(rng.randint(0, 120)), float(rng.randint(0, 120))] for _ in range(n)]
            d['v_np'] = rng.choice(['uint8', 'uint8', 'int8', 'uint16', 'int16', 'int32', 'uint64'])
        elif rng.random() < 0.3:
            # built with the `origin=` keyword: the constructor receives vertices relative to it
            d['origin'] = [float(rng.randint(-8, 8)) / 2, float(rng.randint(-8, 8)) / 2]
    elif kind == 'regular_polygon':
        d.update(c=c, n=rng.randint(3, 9), r=rsize(rng, scale), angle=rangle(rng))
    elif kind == 'circle_annulus':
        r1 = rsize(rng, scale)
        d.update(c=c, r1=r1, r2=r1 + rsize(rng, scale))
    elif kind in ('ellipse_annulus', 'rectangle_annulus'):
        w1, h1 = rsize(rng, scale), rsize(rng, scale)
        d.update(c=c, w1=w1, h1=h1, w2=w1 + rsize(rng, scale), h2=h1 + rsize(rng, scale), angle=rangle(rng))
    elif kind in ('point', 'text'):
        d.update(c=c)
        if kind == 'text':
            d['text'] = 'label'
    elif kind == 'line':
        d.update(a=c, b=[c[0] + rfloat(rng, scale), c[1] + rfloat(rng, scale)])
    else:
        raise ValueError(kind)
    if rng.random() < 0.15:
        d['meta_extra'] = {kk: rng.choice([0, 1]) for kk in rng.sample(['rotate', 'fixed', 'edit', 'move', 'select', 'highlite', 'delete', 'source'], rng.randint(1, 4))}
        if rng.random() < 0.5:
            d['meta_extra']['text'] = 'a label'
    # sizes given as fixed-width numpy scalars (unsigned ones wrap around under negation / subtraction): only when
    # every size of the shape is a small whole number, so that the value is the same in every carrier type
    keys = [k for k in ('r', 'w', 'h', 'r1', 'r2', 'w1', 'h1', 'w2', 'h2') if k in d]
    if keys and scale in (1.0, 3.0, 10.0) and rng.random() < 0.15:
        for k in keys:
            d[k] = float(max(1, min(200, round(d[k] * 4))))
        if 'r2' in d and d['r2'] <= d['r1']:
            d['r2'] = d['r1'] + 3.0
        for a_, b_ in (('w1', 'w2'), ('h1', 'h2')):
            if b_ in d and d[b_] <= d[a_]:
                d[b_] = d[a_] + 5.0
        d['size_np'] = rng.choice(['uint8', 'uint8', 'uint16', 'uint32', 'uint64', 'int16', 'int64', 'float32'])
    return d


def gen_compound(rng, depth, leaf):
    if depth == 0:
        return leaf()
    a = gen_compound(rng, rng.randint(0, depth - 1), leaf)
    b = gen_compound(rng, rng.randint(0, depth - 1), leaf)
    # concentric operands (any order: the first need not lie inside the second)
    if 'c' in a and 'c' in b and rng.random() < 0.25:
        b['c'] = list(a['c'])
    return {'kind': 'compound', 'op': rng.choice(['and', 'or', 'xor']), 'a': a, 'b': b,
            'include': rng.choice(INCLUDES)}


# ------------------------------------------------------------------ build real objects

def _meta(d):
    from regions import RegionMeta
    m = RegionMeta()
    if d.get('include', 'absent') != 'absent':
        m['include'] = INCLUDE_VALUE[d['include']]
    # the other DS9 interaction flags / annotations (as a region parsed from a DS9 line carries them): data only,
    # no geometric operation may depend on them
    for kk, vv in (d.get('meta_extra') or {}).items():
        m[kk] = vv
    return m


def _omit_meta(d):
    """deterministic third of the descriptions without an include flag: built without a meta argument."""
    import zlib
    return zlib.crc32(repr(sorted((k, repr(v)) for k, v in d.items() if not k.startswith('_'))).encode()) % 3 == 0


def build(d):
    import operator

    import astropy.units as u
    from regions import (CircleAnnulusPixelRegion, CirclePixelRegion, CompoundPixelRegion,
                         EllipseAnnulusPixelRegion, EllipsePixelRegion, LinePixelRegion, PixCoord,
                         PointPixelRegion, PolygonPixelRegion, RectangleAnnulusPixelRegion,
                         RectanglePixelRegion, RegularPolygonPixelRegion, TextPixelRegion)
    k = d['kind']
    if d.get('c_int'):
        # integer-typed centre (as a user writing PixCoord(3, 4) gets)
        P = lambda p: PixCoord(int(p[0]), int(p[1]))
    elif d.get('c_f32'):
        # centre given as numpy float32 scalars (e.g. from a float32 catalogue column); the values are float32-exact
        P = lambda p: PixCoord(np.float32(p[0]), np.float32(p[1]))
    else:
        P = lambda p: PixCoord(p[0], p[1])
    A = lambda a: a[0] * u.Unit(a[1])
    if d.get('size_np'):
        _T = getattr(np, d['size_np'])
        _keys = [kk for kk in ('r', 'w', 'h', 'r1', 'r2', 'w1', 'h1', 'w2', 'h2') if kk in d]
        # only while every size still is a small whole number (a generator may have re-scaled the shape since)
        if all(float(d[kk]).is_integer() and 1 <= d[kk] <= 250 for kk in _keys):
            d = dict(d, **{kk: _T(d[kk]) for kk in _keys})
    m = _meta(d)
    if k != 'compound' and d.get('include', 'absent') == 'absent' and not d.get('_sibling') and _omit_meta(d):
        # no meta argument at all (the constructor's default), AFTER a sibling of the same class - built without meta
        # and visual as well - has had its own meta and visual edited: regions built apart share nothing
        m = None
        sib = build(dict(d, _sibling=True))
        sib.meta['include'] = False
        sib.meta['text'] = 'sibling'
        sib.visual['color'] = 'red'
    elif d.get('_sibling'):
        m = None
    # m is None: the meta argument is OMITTED (a mutable default argument would only show that way)
    mk = {} if m is None else {'meta': m}
    if k == 'circle':
        return CirclePixelRegion(P(d['c']), d['r'], **mk)
    if k == 'ellipse':
        return EllipsePixelRegion(P(d['c']), d['w'], d['h'], angle=A(d['angle']), **mk)
    if k == 'rectangle':
        return RectanglePixelRegion(P(d['c']), d['w'], d['h'], angle=A(d['angle']), **mk)
    if k == 'polygon':
        if 'origin' in d:
            o = d['origin']
            return PolygonPixelRegion(PixCoord([p[0] - o[0] for p in d['v']], [p[1] - o[1] for p in d['v']]),
                                      origin=P(o), **mk)
        if d.get('v_np') and all(float(c_).is_integer() and 0 <= c_ <= 120 for p_ in d['v'] for c_ in p_):
            _V = getattr(np, d['v_np'])
            return PolygonPixelRegion(PixCoord(np.array([p[0] for p in d['v']], dtype=_V), np.array([p[1] for p in d['v']], dtype=_V)), **mk)
        return PolygonPixelRegion(PixCoord([p[0] for p in d['v']], [p[1] for p in d['v']]), **mk)
    if k == 'regular_polygon':
        return RegularPolygonPixelRegion(P(d['c']), d['n'], d['r'], angle=A(d['angle']), **mk)
    if k == 'circle_annulus':
        return CircleAnnulusPixelRegion(P(d['c']), d['r1'], d['r2'], **mk)
    if k == 'ellipse_annulus':
        return EllipseAnnulusPixelRegion(P(d['c']), d['w1'], d['w2'], d['h1'], d['h2'], angle=A(d['angle']), **mk)
    if k == 'rectangle_annulus':
        return RectangleAnnulusPixelRegion(P(d['c']), d['w1'], d['w2'], d['h1'], d['h2'], angle=A(d['angle']), **mk)
    if k == 'point':
        return PointPixelRegion(P(d['c']), **mk)
    if k == 'text':
        return TextPixelRegion(P(d['c']), d.get('text', 'label'), **mk)
    if k == 'line':
        return LinePixelRegion(P(d['a']), P(d['b']), **mk)
    if k == 'compound':
        op = {'and': operator.and_, 'or': operator.or_, 'xor': operator.xor}[d['op']]
        return CompoundPixelRegion(build(d['a']), build(d['b']), op, **mk)
    raise ValueError(k)


# ------------------------------------------------------------------ model JSON

def _pt(p):
    return [frac(Fraction(float(p[0]))), frac(Fraction(float(p[1])))]


def model(d, reg=None):
    """JSON for the Lean driver.  `reg` (the real object) supplies a regular polygon's vertices."""
    k = d['kind']
    out = {'kind': k, 'include': d.get('include', 'absent')}
    if 'angle' in d and k != 'regular_polygon':
        c, s = code_dir(d['angle'])
        out['dir'] = [frac(c), frac(s)]
    if k == 'circle':
        out.update(c=_pt(d['c']), r=frac(Fraction(d['r'])))
    elif k in ('ellipse', 'rectangle'):
        out.update(c=_pt(d['c']), w=frac(Fraction(d['w'])), h=frac(Fraction(d['h'])))
    elif k == 'polygon':
        if 'origin' in d:
            reg = reg or build(d)
            out['v'] = [_pt(p) for p in zip(reg.vertices.x.tolist(), reg.vertices.y.tolist())]
        else:
            out.update(v=[_pt(p) for p in d['v']])
    elif k == 'regular_polygon':
        reg = reg or build(d)
        out['kind'] = 'polygon'
        out['v'] = [_pt(p) for p in zip(reg.vertices.x.tolist(), reg.vertices.y.tolist())]
    elif k == 'circle_annulus':
        out.update(c=_pt(d['c']), r1=frac(Fraction(d['r1'])), r2=frac(Fraction(d['r2'])))
    elif k in ('ellipse_annulus', 'rectangle_annulus'):
        out.update(c=_pt(d['c']), **{n: frac(Fraction(d[n])) for n in ('w1', 'h1', 'w2', 'h2')})
    elif k in ('point', 'text'):
        out.update(c=_pt(d['c']))
    elif k == 'line':
        out.update(a=_pt(d['a']), b=_pt(d['b']))
    elif k == 'compound':
        out.update(op=d['op'], a=model(d['a'], reg.region1 if reg is not None else None),
                   b=model(d['b'], reg.region2 if reg is not None else None))
    return out


# ------------------------------------------------------------------ exact Spec membership (oracle side)

def regular_vertices_exact(d):
    """vertices of a regular polygon from first principles: centre + r*(cos, sin)(angle + 90deg + 2 pi k/n)...
    follows the documented convention: a vertex at the top for angle 0."""
    n = d['n']
    val, unit = d['angle']
    base = Decimal(Fraction(val).numerator) / Decimal(Fraction(val).denominator) * UNIT_TO_RAD[unit]
    out = []
    for k in range(n):
        th = base + PI / 2 + 2 * PI * k / n
        c, s = _cos_sin_dec(th)
        out.append((Fraction(d['c'][0]) + Fraction(d['r']) * Fraction(c), Fraction(d['c'][1]) + Fraction(d['r']) * Fraction(s)))
    return out


def _evenodd(vs, x, y):
    """even-odd rule by the division-free crossing test (independent of the code's formula).
    returns (inside, margin) where margin = min distance to an edge (Fraction, approx)."""
    n = len(vs)
    inside = False
    mind2 = None
    for i in range(n):
        x1, y1 = vs[i]
        x2, y2 = vs[(i + 1) % n]
        if (y1 > y) != (y2 > y):
            # orientation of (p - v1) x (v2 - v1) decides the side
            lhs = (x - x1) * (y2 - y1)
            rhs = (x2 - x1) * (y - y1)
            if (y2 > y1 and lhs < rhs) or (y2 < y1 and lhs > rhs):
                inside = not inside
        # squared distance to the segment
        dx, dy = x2 - x1, y2 - y1
        L2 = dx * dx + dy * dy
        if L2 == 0:
            t = Fraction(0)
        else:
            t = max(Fraction(0), min(Fraction(1), ((x - x1) * dx + (y - y1) * dy) / L2))
        ex, ey = x1 + t * dx - x, y1 + t * dy - y
        d2 = ex * ex + ey * ey
        if mind2 is None or d2 < mind2:
            mind2 = d2
    return inside, (fsqrt(mind2) if mind2 is not None else Fraction(0))


def _frame(c, dirv, x, y):
    """coordinates (a, b) of the point in the frame u=(c,s), u_perp=(-s,c) centred at c."""
    dx, dy = x - Fraction(c[0]), y - Fraction(c[1])
    cs, sn = dirv
    return cs * dx + sn * dy, -sn * dx + cs * dy


def spec_raw(d, x, y):
    """Spec membership (include flag ignored) of the exact point (x, y) [Fractions] and the
    relative margin to the boundary.  -> (inside: bool, margin: Fraction, scale)"""
    k = d['kind']
    if k == 'circle':
        r = Fraction(d['r'])
        dist = fsqrt((x - Fraction(d['c'][0])) ** 2 + (y - Fraction(d['c'][1])) ** 2)
        return dist < r, abs(dist - r) / r
    if k == 'ellipse':
        a, b = _frame(d['c'], exact_dir(d['angle']), x, y)
        w, h = Fraction(d['w']), Fraction(d['h'])
        v = (2 * a / w) ** 2 + (2 * b / h) ** 2
        return v <= 1, abs(fsqrt(v) - 1)
    if k == 'rectangle':
        a, b = _frame(d['c'], exact_dir(d['angle']), x, y)
        w, h = Fraction(d['w']), Fraction(d['h'])
        inside = abs(a) < w / 2 and abs(b) < h / 2
        ma, mb = abs(abs(a) - w / 2), abs(abs(b) - h / 2)
        # distance-like margin: the nearer side that matters
        if inside:
            m = min(ma, mb)
        elif abs(a) >= w / 2 and abs(b) >= h / 2:
            m = max(ma, mb)
        elif abs(a) >= w / 2:
            m = ma
        else:
            m = mb
        return inside, m / min(w, h)
    if k == 'polygon':
        vs = [(Fraction(p[0]), Fraction(p[1])) for p in d['v']]
        inside, m = _evenodd(vs, x, y)
        sc = max(max(abs(v[0] - vs[0][0]), abs(v[1] - vs[0][1])) for v in vs) or Fraction(1)
        return inside, m / sc
    if k == 'regular_polygon':
        vs = regular_vertices_exact(d)
        inside, m = _evenodd(vs, x, y)
        return inside, m / Fraction(d['r'])
    if k == 'circle_annulus':
        i1, m1 = spec_raw({'kind': 'circle', 'c': d['c'], 'r': d['r1']}, x, y)
        i2, m2 = spec_raw({'kind': 'circle', 'c': d['c'], 'r': d['r2']}, x, y)
        return (i2 and not i1), min(m1, m2)
    if k in ('ellipse_annulus', 'rectangle_annulus'):
        base = 'ellipse' if k == 'ellipse_annulus' else 'rectangle'
        i1, m1 = spec_raw({'kind': base, 'c': d['c'], 'w': d['w1'], 'h': d['h1'], 'angle': d['angle']}, x, y)
        i2, m2 = spec_raw({'kind': base, 'c': d['c'], 'w': d['w2'], 'h': d['h2'], 'angle': d['angle']}, x, y)
        return (i2 and not i1), min(m1, m2)
    if k in ('point', 'line', 'text'):
        return False, Fraction(1)
    raise ValueError(k)


def spec_contains(d, x, y):
    """Spec membership incl. include flags and compounds. -> (answer, margin)"""
    if d['kind'] == 'compound':
        a, ma = spec_contains(d['a'], x, y)
        b, mb = spec_contains(d['b'], x, y)
        r = {'and': a and b, 'or': a or b, 'xor': a != b}[d['op']]
        m = min(ma, mb)
    else:
        r, m = spec_raw(d, x, y)
    if not truthy(d.get('include', 'absent')):
        r = not r
    return r, m


def approx_size(d):
    k = d['kind']
    if k == 'compound':
        return max(approx_size(d['a']), approx_size(d['b']))
    if k == 'circle':
        return d['r']
    if k in ('ellipse', 'rectangle'):
        return max(d['w'], d['h'])
    if k == 'polygon':
        xs = [p[0] for p in d['v']]
        ys = [p[1] for p in d['v']]
        return max(max(xs) - min(xs), max(ys) - min(ys), 1e-12)
    if k == 'regular_polygon':
        return d['r']
    if k == 'circle_annulus':
        return d['r2']
    if k in ('ellipse_annulus', 'rectangle_annulus'):
        return max(d['w2'], d['h2'])
    if k == 'line':
        return max(abs(d['a'][0] - d['b'][0]), abs(d['a'][1] - d['b'][1]), 1.0)
    return 1.0


def approx_center(d):
    k = d['kind']
    if k == 'compound':
        return approx_center(d['a'])
    if k == 'polygon':
        return [sum(p[0] for p in d['v']) / len(d['v']), sum(p[1] for p in d['v']) / len(d['v'])]
    if k == 'line':
        return d['a']
    return d['c']


# ------------------------------------------------------------------ regions with a history

HISTORY_KINDS = ['circle', 'ellipse', 'rectangle', 'polygon', 'regular_polygon', 'circle_annulus', 'ellipse_annulus',
                 'rectangle_annulus', 'point', 'line']


def reassign(reg, d, prev=None):
    """give the existing region object `reg` the parameters of desc `d` (same kind) by attribute
    assignment, as a user would.  With `prev` (the description the object was built from) only the
    parameters that differ are assigned (simple shapes) - a user changes what changes."""
    import astropy.units as u
    from regions import PixCoord
    k = d['kind']
    P = lambda p: PixCoord(p[0], p[1])
    A = lambda a: a[0] * u.Unit(a[1])
    ch = lambda key: prev is None or prev.get(key) != d.get(key)
    if k == 'circle':
        if ch('c'):
            reg.center = P(d['c'])
        if ch('r'):
            reg.radius = d['r']
    elif k in ('ellipse', 'rectangle'):
        if ch('c'):
            reg.center = P(d['c'])
        if ch('w'):
            reg.width = d['w']
        if ch('h'):
            reg.height = d['h']
        if ch('angle'):
            reg.angle = A(d['angle'])
    elif k == 'polygon':
        reg.vertices = PixCoord([p[0] for p in d['v']], [p[1] for p in d['v']])
    elif k == 'regular_polygon':
        if ch('c'):
            reg.center = P(d['c'])
        if ch('n'):
            reg.nvertices = d['n']
        if ch('r'):
            reg.radius = d['r']
        if ch('angle'):
            reg.angle = A(d['angle'])
    elif k == 'circle_annulus':
        reg.center = P(d['c'])
        # keep inner < outer at every step
        reg.outer_radius = max(d['r2'], reg.inner_radius * 2 + 1)
        reg.inner_radius = d['r1']; reg.outer_radius = d['r2']
    elif k in ('ellipse_annulus', 'rectangle_annulus'):
        reg.center = P(d['c'])
        reg.outer_width = max(d['w2'], reg.inner_width * 2 + 1); reg.outer_height = max(d['h2'], reg.inner_height * 2 + 1)
        reg.inner_width = d['w1']; reg.inner_height = d['h1']
        reg.outer_width = d['w2']; reg.outer_height = d['h2']
        reg.angle = A(d['angle'])
    elif k == 'point':
        reg.center = P(d['c'])
    elif k == 'line':
        reg.start = P(d['a']); reg.end = P(d['b'])
    else:
        raise ValueError(k)
    reg.meta.pop('include', None)
    if d.get('include', 'absent') != 'absent':
        reg.meta['include'] = INCLUDE_VALUE[d['include']]
    return reg


def warm(reg, last=None):
    """use the region before it is re-parametrised (anything cached must not survive); `last` = arguments of a
    final to_mask call (the very call the case under test repeats afterwards)."""
    from regions import PixCoord
    try:
        bb = reg.bounding_box
        reg.contains(PixCoord(0.5, 0.25))
        if (bb.ixmax - bb.ixmin) * (bb.iymax - bb.iymin) <= 10000:
            try:
                reg.to_mask(mode='center')
                reg.to_mask(mode='subpixels', subpixels=3)
            except NotImplementedError:
                pass
        reg.area
    except NotImplementedError:
        pass
    except Exception:
        # the warm-up only creates history; whatever it raises is raised again (and judged) by the calls under test
        pass
    if last:
        try:
            reg.to_mask(**last)
        except Exception:
            pass


def build_case(case):
    """build the region of a case; if the case carries a 'prev' description the object is first
    built and USED with those parameters and then re-assigned (history)."""
    d = case['region']
    prev = case.get('prev')
    if d['kind'] == 'compound' and case.get('op_prev') is not None:
        # a compound that has been USED (box, mask, membership) before one of its operands is changed in place
        which, pd = case['op_prev']
        comp = build(dict(d, **{which: pd}))
        warm(comp)
        reassign(comp.region1 if which == 'a' else comp.region2, d[which], pd)
        return comp
    if prev is None or d['kind'] not in HISTORY_KINDS or 'origin' in d:
        return build(d)
    reg = build(prev)
    warm(reg, case.get('warm_mask'))
    return reassign(reg, d, prev if case.get('only_changed', True) else None)


def add_history(rng, case, prob=0.2):
    """with some probability give the case a previous parametrisation of the same kind."""
    d = case['region']
    if d['kind'] == 'compound' and rng.random() < prob:
        which = rng.choice(['a', 'b'])
        od = d[which]
        if od['kind'] in HISTORY_KINDS and od['kind'] not in ('polygon',) and 'origin' not in od and not od.get('size_np'):
            sub = add_history(rng, {'region': od}, prob=1.0)
            if sub.get('prev') is not None and sub['prev'] != od and sub['prev'].get('include') == od.get('include'):
                case['op_prev'] = [which, sub['prev']]
        return case
    if d['kind'] in HISTORY_KINDS and 'origin' not in d and rng.random() < prob:
        m_ = rng.random()
        if m_ < 0.3:
            # the SAME parameters: the object was merely used before (with other call arguments)
            import copy
            p = copy.deepcopy(d)
        elif m_ < 0.6:
            # exactly ONE parameter differed before (a cache invalidated by some assignments but not by others)
            import copy
            p = copy.deepcopy(d)
            keys = [k for k in p if k not in ('kind', 'include', 'origin', 'v', 'text', 'size_np', 'v_np', 'meta_extra', 'c_f32', 'c_int')]
            k = rng.choice(keys) if keys else None
            if k == 'n':
                # the vertex count of a regular polygon is the only thing that changes
                p[k] = rng.choice([v for v in range(3, 10) if v != p[k]])
                k = None
            if k == 'angle':
                p[k] = [p[k][0] + {'deg': 90.0, 'rad': 1.5, 'arcmin': 5400.0, 'hourangle': 6.0}.get(p[k][1], 1.0) * rng.choice([1, -1, 0.37]), p[k][1]]
            elif k == 'c' and rng.random() < 0.4:
                # a move FAR below a pixel (within the tolerance of PixCoord's `==`): still another region
                p[k] = [p[k][0] * (1 + 4e-6) + 3e-9, p[k][1] * (1 - 4e-6) - 3e-9]
            elif k == 'c':
                p[k] = [p[k][0] + rng.choice([-3, 2.5, 7]), p[k][1] + rng.choice([-2, 4.5, 0])]
            elif k is not None and isinstance(p[k], (int, float)) and not isinstance(p[k], bool):
                # sizes: shrink (keeps annulus inner < outer orderings only sometimes; invalid previous states are skipped below)
                p[k] = p[k] * rng.choice([0.5, 0.8, 1.25, 2.0])
            try:
                build(p)
            except Exception:
                p = copy.deepcopy(d)
        else:
            p = gen_simple(rng, kind=d['kind'], scale=1.0, center_scale=3)
        p.pop('origin', None)
        if p != d:
            p.pop('size_np', None)      # the previous sizes need not be whole numbers
        case['prev'] = p
        # assign only what differs (70 %) or every parameter, unchanged ones included
        case['only_changed'] = rng.random() < 0.7
    return case
