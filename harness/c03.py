"""C03 — exact masks give the true pixel-region overlap area (partial proof; see Props/C03.lean)."""
import math
import struct
from decimal import Decimal, getcontext
from fractions import Fraction

import numpy as np

from . import regiongen as G
from .common import frac
from .runner import PropertyCheck

getcontext().prec = 60
D = Decimal
PI = G.PI


def bits(x):
    return str(struct.unpack('<Q', struct.pack('<d', float(x)))[0])


def unbits(s):
    return struct.unpack('<d', struct.pack('<Q', int(s)))[0]


def dec(x):
    f = Fraction(float(x)) if not isinstance(x, Fraction) else x
    return D(f.numerator) / D(f.denominator)


# ----------------------------------------------------------------- 50-digit asin / antiderivative

def dasin(t):
    """asin of a Decimal in [-1, 1] to ~50 digits (Newton on sin, with the complementary form near +-1)."""
    if t > 1:
        t = D(1)
    if t < -1:
        t = D(-1)
    if abs(t) > D('0.8'):
        sgn = 1 if t > 0 else -1
        u = 1 - t * t
        return sgn * (PI / 2 - dasin(u.sqrt() if u > 0 else D(0)))
    y = D(math.asin(float(t)))
    for _ in range(4):
        c, s = G._cos_sin_dec(y)
        y = y - (s - t) / c
    return y


def Fanti(x, X):
    """antiderivative of sqrt(X^2 - x^2)."""
    if x > X:
        x = X
    if x < -X:
        x = -X
    S = (X * X - x * x).sqrt() if X * X - x * x > 0 else D(0)
    return (x * S + X * X * dasin(x / X)) / 2


def ellipse_pixel_area(cx, cy, a, b, c, s, x0, x1, y0, y1):
    """area of {ellipse centre (cx,cy), semi-axes a,b along (c,s),(-s,c)} ∩ [x0,x1]x[y0,y1], all Decimals.
    The ellipse is  y = m x ± k sqrt(X^2 - x^2)  in centred coordinates; the integrand
    max(0, min(v1, yu) - max(v0, yl)) is integrated in closed form between its breakpoints."""
    u0, u1, v0, v1 = x0 - cx, x1 - cx, y0 - cy, y1 - cy
    P = s * s / (a * a) + c * c / (b * b)
    Q = 2 * c * s * (1 / (a * a) - 1 / (b * b))
    m = -Q / (2 * P)
    X = (P * a * a * b * b).sqrt()
    k = 1 / (P * a * b)
    lo, hi = max(u0, -X), min(u1, X)
    if lo >= hi:
        return D(0)
    pts = {lo, hi}
    for v in (v0, v1):
        A = m * m + k * k
        B = -2 * m * v
        C = v * v - k * k * X * X
        disc = B * B - 4 * A * C
        if disc >= 0:
            r = disc.sqrt()
            for x in ((-B - r) / (2 * A), (-B + r) / (2 * A)):
                if lo < x < hi:
                    pts.add(x)
    pts = sorted(pts)
    total = D(0)
    for p, q in zip(pts[:-1], pts[1:]):
        mid = (p + q) / 2
        S = (X * X - mid * mid).sqrt() if X * X - mid * mid > 0 else D(0)
        yu, yl = m * mid + k * S, m * mid - k * S
        top_is_curve = yu < v1
        bot_is_curve = yl > v0
        top = yu if top_is_curve else v1
        bot = yl if bot_is_curve else v0
        if top <= bot:
            continue
        # integral of top - bottom over [p, q]
        val = D(0)
        if top_is_curve:
            val += m * (q * q - p * p) / 2 + k * (Fanti(q, X) - Fanti(p, X))
        else:
            val += v1 * (q - p)
        if bot_is_curve:
            val -= m * (q * q - p * p) / 2 - k * (Fanti(q, X) - Fanti(p, X))
        else:
            val -= v0 * (q - p)
        total += val
    return total


def shape_params(d):
    """(cx, cy, a, b, c, s) Decimals for a circle or ellipse desc (true angle, 50 digits)."""
    if d['kind'] == 'circle':
        return dec(d['c'][0]), dec(d['c'][1]), dec(d['r']), dec(d['r']), D(1), D(0)
    c, s = G.exact_dir(d['angle'])
    return dec(d['c'][0]), dec(d['c'][1]), dec(d['w']) / 2, dec(d['h']) / 2, dec(c), dec(s)


def true_pixel_area(d, ix, iy):
    cx, cy, a, b, c, s = shape_params(d)
    return ellipse_pixel_area(cx, cy, a, b, c, s, D(ix) - D('0.5'), D(ix) + D('0.5'), D(iy) - D('0.5'), D(iy) + D('0.5'))


def corners_on_ellipse(d, box):
    """pixel corners (half-integer lattice points of the mask box) that lie on the ellipse to within 1e-9 in the
    normalised squared radius - the inputs of the kernel's `on1/on2/on3` branches (its own tolerance is 1e-10)."""
    cx, cy, a, b, c, s = [float(x) for x in shape_params(d)]
    out = []
    for ix in range(box[0], box[1] + 1):
        for iy in range(box[2], box[3] + 1):
            x, y = ix - 0.5 - cx, iy - 0.5 - cy
            u_, v_ = (c * x + s * y) / a, (-s * x + c * y) / b
            if abs(u_ * u_ + v_ * v_ - 1) < 1e-9:
                out.append((ix - 0.5, iy - 0.5))
    return out


def boundary_in_pixel(d, ix, iy, nsamp=3000, refine=400):
    """(length of the boundary curve inside the pixel, number of connected pieces), by sampling.

    Two passes: a coarse pass finds the parameter ranges that come near the pixel, a fine pass
    (refine x denser) measures them.  The returned length is an UPPER estimate (fine estimate plus
    one fine segment for each of the at most 8 piece ends an ellipse can have in a square), so that the
    bound derived from it is never smaller than the property's; a piece shorter than two fine
    segments (~1e-5) that is missed altogether stays within its own length of the pixel border, cannot
    contain a sub-sample centre and changes the true area by less than 1e-9."""
    cx, cy, a, b, c, s = (float(v) for v in shape_params(d))

    def curve(t):
        return (cx + a * np.cos(t) * c - b * np.sin(t) * s,
                cy + a * np.cos(t) * s + b * np.sin(t) * c)
    t = np.linspace(0, 2 * math.pi, nsamp + 1)
    x, y = curve(t)
    segmax = float(np.hypot(np.diff(x), np.diff(y)).max())
    near = (np.abs(x - ix) <= 0.5 + 2 * segmax) & (np.abs(y - iy) <= 0.5 + 2 * segmax)
    nearseg = near[:-1] | near[1:]
    if not nearseg.any():
        return 0.0, 0
    total, pieces, fine_max = 0.0, 0, 0.0
    idx = np.nonzero(nearseg)[0]
    # consecutive coarse segments form one run; each run is refined as one parameter interval
    runs = np.split(idx, np.nonzero(np.diff(idx) > 1)[0] + 1)
    for run in runs:
        tt = np.linspace(t[run[0]], t[run[-1] + 1], (len(run)) * refine + 1)
        fx, fy = curve(tt)
        mx, my = (fx[:-1] + fx[1:]) / 2, (fy[:-1] + fy[1:]) / 2
        inside = (np.abs(mx - ix) <= 0.5) & (np.abs(my - iy) <= 0.5)
        seg = np.hypot(np.diff(fx), np.diff(fy))
        fine_max = max(fine_max, float(seg.max()))
        total += float(seg[inside].sum())
        starts = inside & ~np.concatenate(([False], inside[:-1]))
        pieces += int(starts.sum())
    if total == 0.0 and pieces == 0:
        return 8 * fine_max, 0
    return total + 8 * fine_max, max(pieces, 1)


# ----------------------------------------------------------------- rectangles and (simple) polygons

def poly_vertices(d):
    """exact vertices (Fractions) of a rectangle or polygon desc."""
    if d['kind'] == 'polygon':
        return [(Fraction(float(x)), Fraction(float(y))) for x, y in d['v']]
    c, s = G.exact_dir(d['angle'])
    cx, cy = Fraction(float(d['c'][0])), Fraction(float(d['c'][1]))
    w2, h2 = Fraction(float(d['w'])) / 2, Fraction(float(d['h'])) / 2
    return [(cx + c * a - s * b, cy + s * a + c * b) for (a, b) in ((-w2, -h2), (w2, -h2), (w2, h2), (-w2, h2))]


def clip_poly(vs, x0, x1, y0, y1):
    """Sutherland-Hodgman: polygon ∩ [x0,x1]x[y0,y1] (exact rationals)."""
    def clip(pts, inside, inter):
        out = []
        for k in range(len(pts)):
            a, b = pts[k - 1], pts[k]
            ia, ib = inside(a), inside(b)
            if ib:
                if not ia:
                    out.append(inter(a, b))
                out.append(b)
            elif ia:
                out.append(inter(a, b))
        return out
    def ix(xc):
        return lambda a, b: (xc, a[1] + (b[1] - a[1]) * (xc - a[0]) / (b[0] - a[0]))
    def iy(yc):
        return lambda a, b: (a[0] + (b[0] - a[0]) * (yc - a[1]) / (b[1] - a[1]), yc)
    pts = list(vs)
    for inside, inter in ((lambda q: q[0] >= x0, ix(x0)), (lambda q: q[0] <= x1, ix(x1)),
                          (lambda q: q[1] >= y0, iy(y0)), (lambda q: q[1] <= y1, iy(y1))):
        if not pts:
            break
        pts = clip(pts, inside, inter)
    return pts


def poly_pixel_area(vs, ix, iy):
    h = Fraction(1, 2)
    pts = clip_poly(vs, ix - h, ix + h, iy - h, iy + h)
    a = sum(pts[k - 1][0] * pts[k][1] - pts[k][0] * pts[k - 1][1] for k in range(len(pts))) / 2 if pts else Fraction(0)
    return abs(a)


def poly_boundary_in_pixel(vs, ix, iy):
    """(length of the polygon's edges inside the closed pixel, number of edge pieces) — Liang-Barsky per edge."""
    h = Fraction(1, 2)
    x0, x1, y0, y1 = ix - h, ix + h, iy - h, iy + h
    total, pieces = 0.0, 0
    for k in range(len(vs)):
        (ax, ay), (bx, by) = vs[k - 1], vs[k]
        dx, dy = bx - ax, by - ay
        t0, t1 = Fraction(0), Fraction(1)
        ok = True
        for pp, qq in ((-dx, ax - x0), (dx, x1 - ax), (-dy, ay - y0), (dy, y1 - ay)):
            if pp == 0:
                if qq < 0:
                    ok = False
                    break
            else:
                t = qq / pp
                if pp < 0:
                    t0 = max(t0, t)
                else:
                    t1 = min(t1, t)
        if ok and t0 < t1:
            total += float(t1 - t0) * math.hypot(float(dx), float(dy))
            pieces += 1
    return total, pieces


def true_area_any(d, ix, iy):
    if d['kind'] in ('rectangle', 'polygon'):
        return float(poly_pixel_area(poly_vertices(d), ix, iy))
    return float(true_pixel_area(d, ix, iy))


def boundary_any(d, ix, iy):
    if d['kind'] in ('rectangle', 'polygon'):
        return poly_boundary_in_pixel(poly_vertices(d), ix, iy)
    return boundary_in_pixel(d, ix, iy)


def true_extent(d):
    """a box (pixel indices, inclusive) that certainly holds every pixel the shape touches."""
    if d['kind'] in ('rectangle', 'polygon'):
        vs = poly_vertices(d)
        xs, ys = [float(v[0]) for v in vs], [float(v[1]) for v in vs]
        return (math.floor(min(xs) + 0.5), math.floor(max(xs) + 0.5), math.floor(min(ys) + 0.5), math.floor(max(ys) + 0.5))
    cx, cy = float(d['c'][0]), float(d['c'][1])
    r = float(d['r']) if d['kind'] == 'circle' else max(float(d['w']), float(d['h'])) / 2
    return (math.floor(cx - r + 0.5), math.floor(cx + r + 0.5), math.floor(cy - r + 0.5), math.floor(cy + r + 0.5))


class Check(PropertyCheck):
    id = 'C03'
    lean_targets = ['RegionsVerif.Props.C03', 'RegionsVerif.Props.C03Area', 'RegionsVerif.Props.C03Ellipse', 'RegionsVerif.Props.C03Converge', 'RegionsVerif.Props.C03ConvergeConvex', 'RegionsVerif.Props.C03ConvergePoly']
    namespaces = ['RegionsVerif.Props.C03', 'RegionsVerif.Props.C03E']
    rule = ('circles and ellipses with radii / semi-axes 1e-3..1e3 pixels, axis ratios to 1:100, all angles, generic and half-integer '
            'centres; whole to_mask(exact) grids with up to ~56 sampled pixels each (boundary, interior, exterior) and single pixels; '
            'sub-pixel convergence on circles/ellipses/rotated rectangles/simple polygons for n in {1,2,3,5,8,12,20}, sampled over the hull of the mask box and the true extent (pixels the mask does not cover count as 0). Non-trivial = at least one sampled pixel strictly between 0 and 1.')
    assumptions = ['the oracle is an independent closed-form integration (chord lengths integrated between breakpoints) evaluated with 50-60 digits; '
                   'it is validation, not proof',
                   'Float model vs compiled kernel: 1e-12 absolute (libm differences)',
                   'the property\'s convergence clause "error bounded by the boundary length crossing the pixel over n" is read with the explicit '
                   'constant of the standard cell-counting argument: |sub_n - true| <= 4 L / n + 4 m / n^2 (m = number of boundary pieces in the pixel)',
                   'Cython is not installed: the compiled .so is what runs']
    validated_only = ['circle: the area identity, the range [0,1] and the sum = pi r^2 are THEOREMS about the real-number instance of the kernel model '
                      '(Props/C03Area); what stays validated is that the IEEE-double evaluation of the same text is within 1e-8 of the real value',
                      'ellipse: the Float instance of the kernel model (Gen/EllipseExactFloat) is compared cell by cell with the compiled kernel (1e-12); '
                      'over the reals, Props/C03Ellipse proves cell value = area(pixel ∩ ellipse)/(dx dy) in [0,1] for every pixel whose two unit-frame '
                      'triangles are `Good` (all vertices inside-or-on; 2 in/1 out; 1 in/2 out; all out incl. the recursion) and REFUTES it at '
                      'on-circle vertices with entering edges (F3a/F3b); what stays validated: triangles with a vertex in the 1e-10 ring or on the '
                      'circle with an outside vertex, tiny edges, the double evaluation (1e-8), mask sum = analytic area',
                      'sub-pixel convergence bound']

    def translate(self):
        import subprocess, sys, os
        from .common import VERIF
        subprocess.run([sys.executable, os.path.join(VERIF, 'tools', 'instantiate.py')], check=True)
        return []

    def generate(self, rng, tier):
        cases = []
        n = 90 if tier == 'quick' else 3000
        for _ in range(n):
            kind = rng.choice(['circle', 'ellipse'])
            scale = rng.choice([1e-3, 0.03, 0.4, 1.0, 2.5, 7.0, 30.0, 300.0, 1e3])
            nice = rng.random() < 0.3
            if nice:
                c = [rng.randint(-3, 3) + rng.choice([0.0, 0.5]), rng.randint(-3, 3) + rng.choice([0.0, 0.5])]
            else:
                c = [rng.uniform(-5, 5), rng.uniform(-5, 5)]
            # each coordinate on its own may sit on the pixel lattice (integer / half-integer) while the other is generic
            m_ = rng.random()
            if m_ < 0.15:
                c[0] = rng.randint(-3, 3) + rng.choice([0.0, 0.5])
            elif m_ < 0.3:
                c[1] = rng.randint(-3, 3) + rng.choice([0.0, 0.5])
            if kind == 'circle':
                d = {'kind': 'circle', 'c': c, 'r': scale * rng.uniform(0.5, 1.5) if not nice else scale * rng.choice([0.5, 1.0, 1.5]), 'include': 'absent'}
            else:
                ratio = rng.choice([1.0, 1.0 + 3e-6, 1.0 - 2e-6, 1.3, 3.0, 10.0, 100.0])
                w = 2 * scale * rng.uniform(0.7, 1.4)
                d = {'kind': 'ellipse', 'c': c, 'w': w, 'h': max(w / ratio, 2e-3), 'angle': G.rangle(rng), 'include': 'absent'}
            # masks do not depend on the include flag (an excluded region has the same overlap weights)
            d['include'] = rng.choice(['absent', 'absent', 'absent', 'false', '0', 'true'])
            if rng.random() < 0.2:
                # the centre comes as numpy float32 scalars (float32-exact values, so every oracle sees the same centre)
                d['c'] = [float(np.float32(d['c'][0])), float(np.float32(d['c'][1]))]
                d['c_f32'] = True
            # `subpixels` is documented to be ignored in 'exact' mode: pass it anyway, like generic code calling
            # to_mask(mode=mode, subpixels=n) does
            cases.append(G.add_history(rng, {'kind': 'exact/' + kind, 'region': d, 'pick': rng.randrange(1 << 30),
                                             'sub': rng.choice([None, None, 1, 1, 2, 5, 10])}, prob=0.3))
            if cases[-1].get('prev') is not None:
                # the object's last use before the re-assignment was the very same to_mask call
                cases[-1]['warm_mask'] = dict({'mode': 'exact'}, **({} if cases[-1]['sub'] is None else {'subpixels': cases[-1]['sub']}))
        # the SAME object masked, moved by far less than a pixel (within the tolerance of `==` on positions), masked
        # again with the same arguments: the second mask is that of the moved shape
        for _ in range(10 if tier == 'quick' else 200):
            kind = rng.choice(['circle', 'ellipse', 'ellipse'])
            c = [rng.uniform(20, 300), rng.uniform(20, 300)]
            if kind == 'circle':
                d = {'kind': 'circle', 'c': c, 'r': rng.uniform(1.5, 6.0), 'include': 'absent'}
            else:
                d = {'kind': 'ellipse', 'c': c, 'w': rng.uniform(3.0, 9.0), 'h': rng.uniform(2.0, 6.0), 'angle': G.rangle(rng), 'include': 'absent'}
            prev = dict(d, c=[c[0] * (1 - 6e-6), c[1] * (1 + 5e-6)])
            sub = rng.choice([None, None, 5])
            cases.append({'kind': 'exact/' + kind, 'region': d, 'pick': rng.randrange(1 << 30), 'sub': sub, 'prev': prev,
                          'only_changed': True,
                          'warm_mask': dict({'mode': 'exact'}, **({} if sub is None else {'subpixels': sub}))})
        # a pixel corner EXACTLY on the ellipse (the kernel has separate `on` branches, tolerance 1e-10 in the
        # normalised squared radius): rational points of the unit circle, pixel corners at half-integers
        cases.append({'kind': 'exact/ellipse', 'pick': 1, 'on_corner': True,
                      'region': {'kind': 'ellipse', 'c': [0.2, 0.1], 'w': 1.0, 'h': 1.0, 'angle': [0.0, 'deg'], 'include': 'absent'}})
        cases.append({'kind': 'exact/ellipse', 'pick': 2, 'on_corner': True,
                      'region': {'kind': 'ellipse', 'c': [0.5 - 0.6 / 1.3, 0.5 - 0.8 / 0.9], 'w': 2 / 1.3, 'h': 2 / 0.9,
                                 'angle': [0.0, 'deg'], 'include': 'absent'}})
        # far from the pixel origin, with an extent that pokes a few hundredths of a pixel into the next row / column
        # (a tolerance RELATIVE to the coordinate would swallow it)
        for _ in range(10 if tier == 'quick' else 300):
            big = float(rng.choice([600, 2000, 5000, 12000, 40000]) * rng.choice([1, -1]))
            poke = rng.choice([0.004, 0.015, 0.04])
            r = rng.randint(2, 6) + 0.5 + poke
            c = [big, float(rng.randint(-3, 3))] if rng.random() < 0.5 else [float(rng.randint(-3, 3)), big]
            if rng.random() < 0.5:
                d = {'kind': 'circle', 'c': c, 'r': r, 'include': 'absent'}
            else:
                d = {'kind': 'ellipse', 'c': c, 'w': 2 * r, 'h': 2 * (r - 1.0), 'angle': [0.0, 'deg'], 'include': 'absent'}
            cases.append({'kind': 'exact/' + d['kind'], 'region': d, 'pick': rng.randrange(1 << 30)})
        cases.append({'kind': 'exact/ellipse', 'pick': 4, 'on_corner': True,
                      'region': {'kind': 'ellipse', 'c': [0.0, 1.5], 'w': 2.5, 'h': 5.0, 'angle': [90.0, 'deg'], 'include': 'absent'}})
        for _ in range(14 if tier == 'quick' else 600):
            a, b, h = rng.choice([(3, 4, 5), (4, 3, 5), (5, 12, 13), (12, 5, 13), (8, 15, 17), (15, 8, 17), (7, 24, 25), (24, 7, 25),
                                  (20, 21, 29), (1, 0, 1), (0, 1, 1)])
            pu, qu = rng.choice([-1, 1]) * a / h, rng.choice([-1, 1]) * b / h
            rx = rng.choice([0.4, 0.5, 0.75, 1.0, 1.25, 1 / 1.3, 1 / 0.9, 2.0, 2.5, 3.0])
            ry = rng.choice([0.4, 0.5, 0.75, 1.0, 1.25, 1 / 1.3, 1 / 0.9, 2.0, 2.5, 3.0])
            deg = rng.choice([0.0, 0.0, 0.0, 90.0, 180.0, 30.0, 45.0, rng.uniform(-180, 180)])
            ct, st = math.cos(math.radians(deg)), math.sin(math.radians(deg))
            kx, ky = rng.randint(-2, 2) + 0.5, rng.randint(-2, 2) + 0.5
            ux, uy = pu * rx, qu * ry
            c = [kx - (ct * ux - st * uy), ky - (st * ux + ct * uy)]
            cases.append({'kind': 'exact/ellipse', 'pick': rng.randrange(1 << 30), 'on_corner': True,
                          'region': {'kind': 'ellipse', 'c': c, 'w': 2 * rx, 'h': 2 * ry, 'angle': [deg, 'deg'], 'include': 'absent'}})
        m = 25 if tier == 'quick' else 800
        for _ in range(m):
            kind = rng.choice(['circle', 'ellipse'])
            c = [rng.uniform(-2, 2), rng.uniform(-2, 2)]
            if kind == 'circle':
                d = {'kind': 'circle', 'c': c, 'r': rng.uniform(0.6, 6.0), 'include': 'absent'}
            else:
                d = {'kind': 'ellipse', 'c': c, 'w': rng.uniform(1.5, 9.0), 'h': rng.uniform(1.0, 6.0), 'angle': G.rangle(rng), 'include': 'absent'}
            cases.append(G.add_history(rng, {'kind': 'converge/' + kind, 'region': d, 'pick': rng.randrange(1 << 30), 'n': rng.choice([1, 2, 3, 5, 8, 12])}, prob=0.3))
            if cases[-1].get('prev') is not None:
                cases[-1]['warm_mask'] = {'mode': 'subpixels', 'subpixels': cases[-1]['n']}
        for _ in range(16 if tier == 'quick' else 500):
            kind = rng.choice(['rectangle', 'polygon'])
            c = [rng.uniform(-2, 2), rng.uniform(-2, 2)]
            if kind == 'rectangle':
                d = {'kind': 'rectangle', 'c': c, 'w': rng.uniform(1.0, 9.0), 'h': rng.uniform(0.8, 6.0), 'angle': G.rangle(rng), 'include': 'absent'}
            else:
                # a simple (star-shaped) polygon: vertices sorted by angle around the centre
                k = rng.randint(3, 8)
                angs = sorted(rng.uniform(0, 2 * math.pi) for _ in range(k))
                d = {'kind': 'polygon', 'v': [[c[0] + rng.uniform(1.0, 5.0) * math.cos(a), c[1] + rng.uniform(1.0, 5.0) * math.sin(a)] for a in angs],
                     'include': 'absent'}
                # star-shapedness needs every angular gap < pi
                gaps = [(angs[(q + 1) % k] - angs[q]) % (2 * math.pi) for q in range(k)]
                if max(gaps) >= math.pi - 0.05:
                    continue
                if rng.random() < 0.5:
                    d['v'].reverse()          # clockwise vertex order
                if rng.random() < 0.25:
                    d['v'].append(list(d['v'][0]))      # an explicitly closed ring: the first vertex is repeated at the end
                if rng.random() < 0.4:
                    # built with the origin= keyword (vertices relative to an origin pixel)
                    d['origin'] = [float(rng.randint(-8, 8)) / 2, float(rng.randint(-8, 8)) / 2]
            cases.append({'kind': 'converge/' + kind, 'region': d, 'pick': rng.randrange(1 << 30), 'n': rng.choice([1, 2, 3, 5, 8, 12, 20])})
        return cases

    # ------------------------------------------------------------------ real
    @staticmethod
    def _sample_pixels(case, data, box):
        import random
        rr = random.Random(case['pick'])
        ny, nx = data.shape
        allp = [(j, i) for j in range(ny) for i in range(nx)]
        if len(allp) <= 64:
            return allp
        partial = [(j, i) for (j, i) in zip(*np.nonzero((data > 0) & (data < 1)))]
        ones = [(j, i) for (j, i) in zip(*np.nonzero(data == 1))]
        zeros = [(j, i) for (j, i) in zip(*np.nonzero(data == 0))]
        pick = lambda l, k: rr.sample(l, min(k, len(l)))
        return [(int(j), int(i)) for (j, i) in pick(partial, 40) + pick(ones, 8) + pick(zeros, 8)]

    def real(self, case):
        reg = G.build_case(case)
        # the same object has been asked for a coarser mask before (a convergence loop n = 1, 2, 4, … does that)
        # (not when the case's history ended with the very call under test: that one must stay the latest)
        direct = bool(case.get('warm_mask'))
        if not direct:
            reg.to_mask(mode='center')
        if case['kind'].startswith('converge'):
            if not direct:
                reg.to_mask(mode='subpixels', subpixels=max(1, case['n'] // 2))
            m = reg.to_mask(mode='subpixels', subpixels=case['n'])
        else:
            if case.get('pick', 0) % 2 and not direct:
                # an earlier mask of the same request was normalised IN PLACE by its owner (`w = mask.data; w /= w.sum()`),
                # and an equal region asked for the same mask too: every call returns its own array
                w0 = reg.to_mask(mode='exact').data
                w0 *= 0.25
                G.build(case['region']).to_mask(mode='exact').data[...] = -1.0
            m = reg.to_mask(mode='exact') if case.get('sub') is None else reg.to_mask(mode='exact', subpixels=case['sub'])
        data = np.asarray(m.data, dtype=float)
        b = m.bbox
        box = [int(b.ixmin), int(b.ixmax), int(b.iymin), int(b.iymax)]
        px = self._sample_pixels(case, data, box)
        outside = []
        if case['kind'].startswith('converge'):
            # pixels the shape touches but the mask does not cover are 0 in every use of the mask (to_image, cutout)
            ex = true_extent(case['region'])
            ring = [(x, y) for x in range(min(ex[0], box[0]), max(ex[1] + 1, box[1])) for y in range(min(ex[2], box[2]), max(ex[3] + 1, box[3]))
                    if not (box[0] <= x < box[1] and box[2] <= y < box[3])]
            import random
            outside = random.Random(case['pick']).sample(ring, min(24, len(ring)))
        out = {'bbox': box, 'pixels': [[j, i, bits(data[j, i])] for (j, i) in px],
               'outside': [[x, y] for (x, y) in outside],
               'finite': bool(np.isfinite(data).all()), 'min': float(data.min()) if data.size else 0.0,
               'max': float(data.max()) if data.size else 0.0, 'sum': float(data.sum()),
               'n_partial': int(((data > 0) & (data < 1)).sum()), 'area': float(reg.area)}
        return out

    # ------------------------------------------------------------------ model (circle and ellipse exact)
    def _cell_args(self, d, box, j, i):
        # replicate the double arithmetic of CirclePixelRegion.to_mask + circular_overlap_grid
        cx, cy, r = float(d['c'][0]), float(d['c'][1]), float(d['r'])
        nx, ny = box[1] - box[0], box[3] - box[2]
        xmin = float(box[0]) - 0.5 - cx
        xmax = float(box[1]) - 0.5 - cx
        ymin = float(box[2]) - 0.5 - cy
        ymax = float(box[3]) - 0.5 - cy
        dx = (xmax - xmin) / nx
        dy = (ymax - ymin) / ny
        return xmin + i * dx, ymin + j * dy, dx, dy, r

    def _ecell_args(self, reg, box, j, i):
        # replicate the double arithmetic of EllipsePixelRegion.to_mask + elliptical_overlap_grid
        # (semi-axes 0.5*width, 0.5*height; the angle in radians exactly as to_mask converts it)
        import astropy.units as u
        cx, cy = float(reg.center.x), float(reg.center.y)
        nx, ny = box[1] - box[0], box[3] - box[2]
        xmin = float(box[0]) - 0.5 - cx
        xmax = float(box[1]) - 0.5 - cx
        ymin = float(box[2]) - 0.5 - cy
        ymax = float(box[3]) - 0.5 - cy
        dx = (xmax - xmin) / nx
        dy = (ymax - ymin) / ny
        return (xmin + i * dx, ymin + j * dy, dx, dy, 0.5 * reg.width, 0.5 * reg.height,
                float(reg.angle.to(u.rad).value))

    def requests(self, case):
        if case['kind'] not in ('exact/circle', 'exact/ellipse'):
            return []
        reg = G.build_case(case)
        m = reg.to_mask(mode='exact')
        b = m.bbox
        box = [int(b.ixmin), int(b.ixmax), int(b.iymin), int(b.iymax)]
        # the same sample as real(): up to 40 boundary (partially covered) cells, 8 inside, 8 outside
        px = self._sample_pixels(case, np.asarray(m.data, dtype=float), box)
        reqs = []
        for (j, i) in px:
            if case['kind'] == 'exact/circle':
                pxmin, pymin, dx, dy, r = self._cell_args(case['region'], box, j, i)
                reqs.append({'op': 'exact.cell', 'pxmin': bits(pxmin), 'pymin': bits(pymin), 'dx': bits(dx), 'dy': bits(dy), 'r': bits(r)})
            else:
                pxmin, pymin, dx, dy, rx, ry, theta = self._ecell_args(reg, box, j, i)
                reqs.append({'op': 'exact.ecell', 'pxmin': bits(pxmin), 'pymin': bits(pymin), 'dx': bits(dx), 'dy': bits(dy),
                             'rx': bits(rx), 'ry': bits(ry), 'theta': bits(theta)})
        return reqs

    def model(self, case, replies):
        return [r.get('ok') for r in replies]

    def equal(self, case, real, model):
        if case['kind'] not in ('exact/circle', 'exact/ellipse'):
            return True
        if len(model) != len(real['pixels']):
            return False
        for (j, i, rb), mb in zip(real['pixels'], model):
            if mb is None:
                return False
            if abs(unbits(rb) - unbits(mb)) > 1e-12:
                return False
        return True

    def finding_match(self, finding, violation):
        # F3a / F3b: the `on`-vertex branches of overlap_area_triangle_unit_circle; only for an ellipse one of whose
        # pixel corners (a corner of the offending pixel when the violation names one) lies on the ellipse
        if finding.get('kind') in ('ellipse_exact_on_vertex_low', 'ellipse_exact_on_vertex_high', 'ellipse_exact_on_vertex_nan'):
            return (violation.get('kind') in ('exact_value_wrong', 'exact_out_of_range', 'exact_sum_not_area', 'uncovered_not_zero', 'covered_not_one',
                                              'exact_not_finite')
                    and violation.get('corner_on_ellipse') is True
                    and violation.get('sign') == finding['kind'].rsplit('_', 1)[1])
        return finding.get('kind') == violation.get('kind')

    # ------------------------------------------------------------------ oracle
    def oracle(self, case, real):
        V = []
        d = case['region']
        def bad(kind, detail):
            V.append({'kind': kind, 'detail': f'{detail} :: region={d}'})
        box = real['bbox']
        if case['kind'].startswith('exact'):
            if not real['finite']:
                bad('exact_not_finite', '')
            if real['min'] < -1e-12 or real['max'] > 1 + 1e-12:
                bad('exact_out_of_range', f'min={real["min"]} max={real["max"]}')
            tol_sum = 1e-8 * max(real['n_partial'], 1) + 1e-9 * real['area']
            if abs(real['sum'] - real['area']) > tol_sum:
                bad('exact_sum_not_area', f'sum={real["sum"]} area={real["area"]}')
            n_wrong = 0
            for (j, i, vb) in real['pixels']:
                v = unbits(vb)
                t = true_pixel_area(d, box[0] + i, box[2] + j)
                if v != v or v in (float('inf'), float('-inf')):
                    bad('exact_value_wrong', f'pixel ({box[0] + i},{box[2] + j}) value {v!r} true {float(t)!r}')
                    V[-1]['sign'] = 'nan'
                    V[-1]['pixel'] = [box[0] + i, box[2] + j]
                    n_wrong += 1
                    if d['kind'] != 'ellipse' or n_wrong >= 8:
                        break
                    continue
                if abs(D(v) - t) > D('1e-8'):
                    bad('exact_value_wrong', f'pixel ({box[0] + i},{box[2] + j}) value {v!r} true {float(t)!r}')
                    V[-1]['sign'] = 'low' if D(v) < t else 'high'
                    V[-1]['pixel'] = [box[0] + i, box[2] + j]
                    n_wrong += 1
                    if d['kind'] != 'ellipse' or n_wrong >= 8:
                        break
                    continue
                if t >= 1 - D('1e-30') and v != 1.0 and abs(v - 1.0) > 1e-12:
                    bad('covered_not_one', f'pixel ({box[0] + i},{box[2] + j}) value {v!r}')
                    break
                if t <= D('1e-30') and v != 0.0 and abs(v) > 1e-12:
                    bad('uncovered_not_zero', f'pixel ({box[0] + i},{box[2] + j}) value {v!r}')
                    break
            if V and d['kind'] == 'ellipse':
                on = corners_on_ellipse(d, box)
                for v in V:
                    v['corner_on_ellipse'] = bool(on) if 'pixel' not in v else any(
                        abs(cx - v['pixel'][0]) <= 0.5 and abs(cy - v['pixel'][1]) <= 0.5 for (cx, cy) in on)
                    if v['kind'] == 'exact_sum_not_area':
                        v['sign'] = 'nan' if real['sum'] != real['sum'] else ('low' if real['sum'] < real['area'] else 'high')
                    elif v['kind'] == 'exact_out_of_range':
                        v['sign'] = 'high' if real['max'] > 1 else 'low'
                    elif v['kind'] == 'exact_not_finite':
                        v['sign'] = 'nan'
        else:
            n = case['n']
            samples = [(box[0] + i, box[2] + j, unbits(vb)) for (j, i, vb) in real['pixels']] + \
                      [(x, y, 0.0) for (x, y) in real.get('outside', [])]
            for (x, y, v) in samples:
                t = true_area_any(d, x, y)
                L, m = boundary_any(d, x, y)
                bound = 4 * L / n + 4 * m / (n * n) + 1e-6
                if abs(v - t) > bound:
                    bad('subpixel_error_exceeds_bound', f'pixel ({x},{y}) n={n} value {v} true {t} L={L} bound={bound}')
                    break
        return V

    def nontrivial(self, case, real):
        return real.get('n_partial', 0) > 0

    def bucket(self, case, real):
        d = case['region']
        size = d.get('r', d.get('w', 1))
        return f"{case['kind']}/{'tiny' if size < 0.1 else 'small' if size < 5 else 'large'}"
